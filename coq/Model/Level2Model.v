(* Hand-written model of getBH_level2 / get_src_dict / tile_group_property / getBH_level1
   (magpylib/_src/fields/field_wrap_BH.py) as data flow on lists: path tiling, observer
   construction, grouping by field function, tiling of poses / observers / properties,
   reshape, scatter, collection slice-sum loop, sensor back-rotation, handedness, pixel
   aggregation, sumup.  Field functions are row-wise functions F of the local observer.
   Definitions only. *)
From Coq Require Import List Arith Bool.
From MV Require Import Lib.Rigid Lib.ListIdx.
Import ListNotations.

Section Level2.
Context {O : RigidOps}.
Variable P : Type.                          (* bundle of the source's own properties *)
Variable F : nat -> P -> V -> V.            (* field function `key`: local observer -> local field *)
Variable g_eqb : G -> G -> bool.            (* quaternion equality test used for the sensor flags *)
Variable flipx : V -> V.                    (* B[..., 0] *= -1 *)

Record leaf := mkLeaf { l_pos : list V; l_ori : list G; l_key : nat; l_prop : P }.
Inductive srcin := Bare (s : leaf) | Coll (ls : list leaf).     (* ls: flattened, DFS order *)
Record sensor := mkSens { s_pos : list V; s_ori : list G; s_pix : list V;
                          s_shape : list nat; s_left : bool }.

Definition leaves (s : srcin) : list leaf := match s with Bare x => [x] | Coll ls => ls end.
Definition src_list (srcs : list srcin) : list leaf := flat_map leaves srcs.

Definition block := list (list V).          (* (path index, flat pixel) *)

(* ---- tile up paths *)
Definition tile_path {A} (d : A) (M : nat) (p : list A) : list A :=
  p ++ repeat (last p d) (M - length p).

Definition max_path_len (sl : list leaf) (sens : list sensor) : nat :=
  fold_right Nat.max 0 (map (fun x => length (l_pos x)) sl ++ map (fun s => length (s_pos s)) sens).

Definition tile_leaf (M : nat) (x : leaf) : leaf :=
  if 1 <? M then mkLeaf (tile_path vzero M (l_pos x)) (tile_path gone M (l_ori x)) (l_key x) (l_prop x)
  else x.
Definition tile_sensor (M : nat) (s : sensor) : sensor :=
  if 1 <? M then mkSens (tile_path vzero M (s_pos s)) (tile_path gone M (s_ori s)) (s_pix s)
                        (s_shape s) (s_left s)
  else s.

(* ---- observers: poso, shape (M * n_pix, 3), order (m, sensor, pixel) *)
Definition sens_obs (s : sensor) (m : nat) : list V :=
  map (fun pix => vadd (act (nth m (s_ori s) gone) pix) (nth m (s_pos s) vzero)) (s_pix s).
Definition poso_m (sens : list sensor) (m : nat) : list V := flat_map (fun s => sens_obs s m) sens.
Definition poso (sens : list sensor) (M : nat) : list V := flat_map (poso_m sens) (seq 0 M).

(* ---- grouping by field function, in order of first appearance *)
Fixpoint group_insert (k i : nat) (x : leaf) (gs : list (nat * list (nat * leaf)))
  : list (nat * list (nat * leaf)) :=
  match gs with
  | [] => [(k, [(i, x)])]
  | (k', mem) :: r => if Nat.eqb k k' then (k', mem ++ [(i, x)]) :: r
                      else (k', mem) :: group_insert k i x r
  end.
Definition groups (sl : list leaf) : list (nat * list (nat * leaf)) :=
  fold_left (fun gs ix => group_insert (l_key (snd ix)) (fst ix) (snd ix) gs)
            (combine (seq 0 (length sl)) sl) [].

(* ---- getBH_level1 on one row *)
Definition level1 (k : nat) (p : V) (r : G) (o : V) (pr : P) : V :=
  act r (F k pr (act (ginv r) (vsub o p))).

(* ---- get_src_dict + getBH_level1 + reshape((lg, M, n_pix, 3)) for one group *)
Definition group_field (k : nat) (gr : list leaf) (M n_pix n_pp : nat) (po : list V) : list block :=
  let posv := repeat_each n_pix (flat_map l_pos gr) in
  let rotv := repeat_each n_pix (flat_map l_ori gr) in
  let posov := tile (length gr) po in
  let props := repeat_each n_pp (map l_prop gr) in
  let rows := combine (combine (combine posv rotv) posov) props in
  let Bflat := map (fun row => match row with (((p, r), o), pr) => level1 k p r o pr end) rows in
  map (chunks n_pix M) (chunks (M * n_pix) (length gr) Bflat).

(* for gr_ind in range(lg): B[order[gr_ind]] = B_group[gr_ind] *)
Definition scatter (order : list nat) (Bg : list block) (B : list block) : list block :=
  fold_left (fun B ib => set_nth (fst ib) (snd ib) B) (combine order Bg) B.

Definition eval_groups (sl : list leaf) (M n_pix n_pp : nat) (po : list V) : list block :=
  fold_left (fun B g => match g with (k, mem) =>
               scatter (map fst mem) (group_field k (map snd mem) M n_pix n_pp po) B end)
            (groups sl) (repeat [] (length sl)).       (* np.empty *)

(* ---- collections: B[i] = sum(B[i:i+n]); delete B[i+1:i+n]; index keeps running *)
Definition block_add (a b : block) : block := zip_with (zip_with vadd) a b.
Definition sum_blocks (bs : list block) : block :=
  match bs with [] => [] | b :: r => fold_left block_add r b end.

Fixpoint reduce_loop (srcs : list srcin) (i : nat) (B : list block) : list block :=
  match srcs with
  | [] => B
  | s :: rest =>
      let B' := match s with
                | Coll ls => let n := length ls in
                    delete_range (i + 1) (i + n) (set_nth i (sum_blocks (firstn n (skipn i B))) B)
                | Bare _ => B
                end in
      reduce_loop rest (S i) B'
  end.

Definition reduce_collections (srcs : list srcin) (B : list block) : list block :=
  if length srcs <? length (src_list srcs) then reduce_loop srcs 0 B else B.

(* ---- sensor back-rotation and handedness on the pixel slice of each sensor *)
Definition unrotated (s : sensor) : bool := forallb (fun q => g_eqb q gone) (s_ori s).
Definition static_rot (s : sensor) : bool :=
  (length (s_pos s) =? 1) || forallb (fun q => g_eqb q (hd gone (s_ori s))) (s_ori s).

Definition upd_slice {A} (a b : nat) (f : A -> A) (l : list A) : list A :=
  firstn a l ++ map f (firstn (b - a) (skipn a l)) ++ skipn b l.

Definition mapi {A B} (f : nat -> A -> B) (l : list A) : list B :=
  map (fun ix => f (fst ix) (snd ix)) (combine (seq 0 (length l)) l).

(* s0: the sensor before tiling (flags), s: after tiling (orientations used) *)
Definition rotate_sensor (s0 s : sensor) (a b : nat) (B : list block) : list block :=
  let B1 := if unrotated s0 then B
            else map (mapi (fun m row =>
                   let q := if static_rot s0 then nth 0 (s_ori s) gone else nth m (s_ori s) gone in
                   upd_slice a b (fun v => act (ginv q) v) row)) B in
  if s_left s then map (map (upd_slice a b flipx)) B1 else B1.

Fixpoint rotate_sensors (ss : list (sensor * sensor)) (a : nat) (B : list block) : list block :=
  match ss with
  | [] => B
  | (s0, s) :: r => let b := a + length (s_pix s) in rotate_sensors r b (rotate_sensor s0 s a b B)
  end.

(* ---- pixel axis -> (sensor, pixel), aggregation *)
Fixpoint shape_eqb (a b : list nat) : bool :=
  match a, b with
  | [], [] => true
  | x :: a', y :: b' => Nat.eqb x y && shape_eqb a' b'
  | _, _ => false
  end.
Fixpoint all_same (l : list (list nat)) : bool :=
  match l with
  | a :: ((b :: _) as r) => shape_eqb a b && all_same r
  | _ => true
  end.

Definition out_t := list (list (list (list V))).     (* (source, path, sensor, pixel or [agg]) *)

Definition shape_pixels (sens : list sensor) (agg : option (list V -> V)) (B : list block) : out_t :=
  let nums := map (fun s => length (s_pix s)) sens in
  let split := if all_same (map s_shape sens)
               then chunks (hd 0 nums) (length sens)
               else split_lens nums in
  map (map (fun row => map (fun px => match agg with None => px | Some a => [a px] end) (split row))) B.

(* ---- sumup over sources *)
Definition out_add (a b : list (list (list V))) := zip_with (zip_with (zip_with vadd)) a b.
Definition sum_out (o : out_t) : out_t :=
  match o with [] => [] | b :: r => [fold_left out_add r b] end.

(* ---- the whole computation (objects are values here; the in-place aspect is in StateModel) *)
Definition getBH (srcs : list srcin) (sens : list sensor) (agg : option (list V -> V))
    (sumup : bool) : out_t :=
  let sl0 := src_list srcs in
  let M := max_path_len sl0 sens in
  let sl := map (tile_leaf M) sl0 in
  let sens' := map (tile_sensor M) sens in
  let po := poso sens' M in
  let n_pp := length po in
  let n_pix := n_pp / M in
  let B := eval_groups sl M n_pix n_pp po in
  let B1 := reduce_collections srcs B in
  let B2 := rotate_sensors (combine sens sens') 0 B1 in
  let out := shape_pixels sens agg B2 in
  if sumup then sum_out out else out.

(* ------------------------------------------------------------------ declarative specification *)
Definition clip_nth {A} (d : A) (l : list A) (m : nat) : A := nth (Nat.min m (length l - 1)) l d.

Definition vsum (vs : list V) : V := match vs with [] => vzero | v :: r => fold_left vadd r v end.

(* global field of one leaf at path index m at a global point o *)
Definition leaf_field (x : leaf) (m : nat) (o : V) : V :=
  level1 (l_key x) (clip_nth vzero (l_pos x) m) (clip_nth gone (l_ori x) m) o (l_prop x).

Definition pixel_point (s : sensor) (m : nat) (pix : V) : V :=
  vadd (act (clip_nth gone (s_ori s) m) pix) (clip_nth vzero (s_pos s) m).

Definition sensor_view (s : sensor) (m : nat) (v : V) : V :=
  let w := act (ginv (clip_nth gone (s_ori s) m)) v in if s_left s then flipx w else w.

Definition spec_elem (src : srcin) (m : nat) (s : sensor) (pix : V) : V :=
  sensor_view s m (vsum (map (fun x => leaf_field x m (pixel_point s m pix)) (leaves src))).

Definition spec (srcs : list srcin) (sens : list sensor) (agg : option (list V -> V)) : out_t :=
  let M := max_path_len (src_list srcs) sens in
  map (fun src => map (fun m => map (fun s =>
         let px := map (spec_elem src m s) (s_pix s) in
         match agg with None => px | Some a => [a px] end) sens) (seq 0 M)) srcs.

(* well-formed inputs: what format_src_inputs / check_format_input_observers let through *)
Definition wf_leaf (x : leaf) : Prop := 1 <= length (l_pos x) /\ length (l_pos x) = length (l_ori x).
Definition wf_sensor (s : sensor) : Prop :=
  1 <= length (s_pos s) /\ length (s_pos s) = length (s_ori s) /\ 1 <= length (s_pix s).
Definition wf_src (s : srcin) : Prop := Forall wf_leaf (leaves s) /\ leaves s <> [].
Definition wf_shapes (sens : list sensor) (agg : option (list V -> V)) : Prop :=
  (all_same (map s_shape sens) = true ->
     forall s, In s sens -> length (s_pix s) = length (s_pix (hd s sens))) /\
  (agg = None -> all_same (map s_shape sens) = true).

End Level2.

Arguments mkLeaf {O P}.
Arguments l_pos {O P}.
Arguments l_ori {O P}.
Arguments l_key {O P}.
Arguments l_prop {O P}.
Arguments leaves {O P}.
Arguments src_list {O P}.
Arguments Bare {O P}.
Arguments Coll {O P}.
Arguments mkSens {O}.
