(* C07 -- hand model (definitions only) of the three marshalling layers in front of getBH_level1/2:

     getBH_dict_level2   (fields/field_wrap_BH.py)  on SHAPES: per keyword (ndim, len, ragged), the expected_dim table,
                         the vec_lengths rule, squeeze of length-1 inputs, tiling;
     BaseCollection._validate_getBH_inputs (class_Collection.py) as a decision function on a collection tree;
     the dataframe assembly of _getBH_level2 (product(src, path, sensor, pixel) next to B.reshape(-1, 3)).

   The rank tables are NOT written here: they are read from the class files on every run (Gen/GenTables.v:
   registered, dict_base_ndim, dict_default_ndim) and handed to the model as arguments.  Hand-written here is the SPEC
   table: the rank of ONE instance's value of every functional-interface parameter, taken from the class docstrings. *)
From Coq Require Import ZArith List Bool String.
From MV Require Import Model.InputTypes.
Import ListNotations.
Open Scope Z_scope.

(* ------------------------------------------------------------------------------------------------------------------
   1. getBH_dict_level2 on shapes
   ------------------------------------------------------------------------------------------------------------------ *)

(* what the caller hands in for one keyword *)
Inductive pin :=
| PNum                 (* a python number (numbers.Number) *)
| PArr (s : shape)     (* a regular nested list / tuple / ndarray of numbers with this shape *)
| PRag (n : Z)         (* a list of n >= 2 arrays whose first-axis lengths differ (ragged) *)
| PNone.               (* None (or anything else on which val[0] raises TypeError) *)

(* the value after `np.array(val, dtype=float)` / the object array of the ragged branch *)
Inductive pval :=
| VArr (s : shape)
| VRag (n : Z).        (* 1-d object array of n arrays *)

Inductive dres :=
| DOk (out : list (string * pval))   (* getBH_level1 is called with these keyword arrays *)
| DBad                               (* MagpylibBadUserInput *)
| DCrash.                            (* any other exception *)

Definition pval_eqb (a b : pval) : bool :=
  match a, b with
  | VArr s, VArr t => (Nat.eqb (List.length s) (List.length t)) && forallb (fun p => fst p =? snd p) (combine s t)
  | VRag n, VRag m => n =? m
  | _, _ => false
  end.

Definition dres_eqb (a b : dres) : bool :=
  match a, b with
  | DOk x, DOk y => (Nat.eqb (List.length x) (List.length y)) &&
                    forallb (fun p => String.eqb (fst (fst p)) (fst (snd p)) && pval_eqb (snd (fst p)) (snd (snd p)))
                            (combine x y)
  | DBad, DBad => true
  | DCrash, DCrash => true
  | _, _ => false
  end.

(*  field_func_kwargs_ndim = {"position": 2, "orientation": 2, "observers": 2}
    field_func_kwargs_ndim.update(source_classes[source_type]._field_func_kwargs_ndim)
    expected_dim = field_func_kwargs_ndim.get(key, 1)                                   *)
Definition expected_dim (base : list (string * Z)) (dflt : Z) (cls : list (string * Z)) (k : string) : Z :=
  match assoc k cls with
  | Some r => r
  | None => match assoc k base with Some r => r | None => dflt end
  end.

(*  try:
        if (not isinstance(val, numbers.Number) and not isinstance(val[0], numbers.Number)
                and any(len(o) != len(val[0]) for o in val)):
            ragged_seq[key] = True;  val = np.array([np.array(v, dtype=float) for v in val], dtype="object")
        else:
            ragged_seq[key] = False; val = np.array(val, dtype=float)
    except TypeError as err:
        raise MagpylibBadUserInput                                                       *)
Inductive sres := SOk (ragged : bool) (v : pval) | SBad | SCrash.

Definition secure (v : pin) : sres :=
  match v with
  | PNum => SOk false (VArr [])
  | PNone => SBad                                   (* None[0] : TypeError -> MagpylibBadUserInput *)
  | PArr [] => SCrash                               (* a 0-d ndarray: val[0] raises IndexError, which is not caught *)
  | PArr (k :: rest) => if k <=? 0 then SCrash      (* empty sequence: val[0] raises IndexError *)
                        else SOk false (VArr (k :: rest))
  | PRag n => SOk true (VRag n)
  end.

Definition v_ndim (v : pval) : Z := match v with VArr s => ndim s | VRag _ => 1 end.
(* len(val): TypeError on a 0-d array (outside the try block) *)
Definition v_len (v : pval) : option Z := match v with VArr s => py_len s | VRag n => Some n end.
(* np.squeeze removes EVERY axis of length 1 *)
Definition squeeze (s : shape) : shape := filter (fun d => negb (d =? 1)) s.
Definition v_squeeze (v : pval) : pval := match v with VArr s => VArr (squeeze s) | VRag n => VRag n end.

(* first loop:   expected_dim = table.get(key, 1)
                 if val.ndim == expected_dim or ragged_seq[key]:
                     if len(val) == 1: val = np.squeeze(val)
                     else: vec_lengths[key] = len(val)
                 kwargs[key] = val
   result: per key (ragged flag, value) and the vec_lengths dictionary, or the first exception *)
Inductive p1res :=
| P1Ok (items : list (string * (bool * pval))) (vls : list (string * Z))
| P1Bad
| P1Crash.

Fixpoint phase1 (ed : string -> Z) (kw : list (string * pin)) : p1res :=
  match kw with
  | [] => P1Ok [] []
  | (k, v) :: rest =>
    match secure v with
    | SBad => P1Bad
    | SCrash => P1Crash
    | SOk rag val =>
      let counted := (v_ndim val =? ed k) || rag in
      match (if counted then v_len val else Some 0) with
      | None => P1Crash
      | Some n =>
        let val' := if counted && (n =? 1) then v_squeeze val else val in
        let vl := if counted && negb (n =? 1) then [(k, n)] else [] in
        match phase1 ed rest with
        | P1Ok items vls => P1Ok ((k, (rag, val')) :: items) (vl ++ vls)
        | e => e
        end
      end
    end
  end.

(* len(set(vec_lengths.values())) > 1  <->  not all equal *)
Definition all_same (l : list Z) : bool :=
  match l with [] => true | x :: r => forallb (Z.eqb x) r end.
(* max(vec_lengths.values(), default=1) *)
Definition vec_len_of (l : list Z) : Z :=
  match l with [] => 1 | x :: r => fold_left Z.max r x end.

(* np.tile(A, reps): the shorter of A.shape / reps is promoted by prepending 1's; shapes multiply elementwise *)
Definition pad_left (n : nat) (l : list Z) : list Z := repeat 1 (n - List.length l) ++ l.
Fixpoint zmul2 (a b : list Z) : list Z :=
  match a, b with x :: a', y :: b' => (x * y) :: zmul2 a' b' | _, _ => [] end.
Definition np_tile_shape (s reps : list Z) : list Z :=
  let d := Nat.max (List.length s) (List.length reps) in zmul2 (pad_left d s) (pad_left d reps).

(* second loop:  if val.ndim < expected_dim and not ragged_seq[key]:
                     kwargs[key] = np.tile(val, (vec_len, *[1] * (expected_dim - 1)))  *)
Definition tile_item (ed : string -> Z) (vec_len : Z) (it : string * (bool * pval)) : string * pval :=
  let '(k, (rag, v)) := it in
  match v with
  | VArr s => if (ndim s <? ed k) && negb rag
              then (k, VArr (np_tile_shape s (vec_len :: repeat 1 (Z.to_nat (ed k - 1)))))
              else (k, v)
  | VRag _ => (k, v)
  end.

(* both loops and the length check in between, on the full keyword dictionary *)
Definition dict_core (ed : string -> Z) (kw : list (string * pin)) : dres :=
  match phase1 ed kw with
  | P1Bad => DBad
  | P1Crash => DCrash
  | P1Ok items vls =>
    if negb (all_same (map snd vls)) then DBad
    else DOk (map (tile_item ed (vec_len_of (map snd vls))) items)
  end.

(*  kwargs["observers"] = observers; kwargs["position"] = position; kwargs["orientation"] = orientation.as_quat()
    are appended to the caller's keywords (they are named parameters, so they cannot already be in kwargs) *)
Definition dict_level2 (base : list (string * Z)) (dflt : Z) (cls : list (string * Z))
           (kw : list (string * pin)) (observers position orientation : pin) : dres :=
  dict_core (expected_dim base dflt cls)
            (kw ++ [("observers"%string, observers); ("position"%string, position);
                    ("orientation"%string, orientation)]).

(* the class lookup in front:  except KeyError -> MagpylibBadUserInput *)
Definition dict_iface (registered : list (string * list (string * Z))) (base : list (string * Z)) (dflt : Z)
           (source_type : string) (kw : list (string * pin)) (observers position orientation : pin) : dres :=
  match assoc source_type registered with
  | None => DBad
  | Some cls => dict_level2 base dflt cls kw observers position orientation
  end.

(* ---- the SPEC: rank of ONE instance's value, from the class docstrings; bool = a ragged list of instances is
        meaningful (vertex sets / meshes of different sizes).  Written by hand, NOT derived from the code's table. ---- *)
Definition spec_entry := (string * (Z * bool))%type.
Definition spec_table : list (string * list spec_entry) := [
  ("Circle",          [("current", (0, false)); ("diameter", (0, false))]);
  ("Loop",            [("current", (0, false)); ("diameter", (0, false))]);
  ("Polyline",        [("current", (0, false)); ("vertices", (2, true));           (* (m,3) vertices *)
                       ("segment_start", (1, false)); ("segment_end", (1, false))]);
  ("Line",            [("current", (0, false)); ("vertices", (2, true));
                       ("segment_start", (1, false)); ("segment_end", (1, false))]);
  ("Cuboid",          [("polarization", (1, false)); ("dimension", (1, false))]);  (* (3,), (3,) *)
  ("Cylinder",        [("polarization", (1, false)); ("dimension", (1, false))]);  (* (3,), (2,) *)
  ("CylinderSegment", [("polarization", (1, false)); ("dimension", (1, false))]);  (* (3,), (5,) *)
  ("Sphere",          [("polarization", (1, false)); ("diameter", (0, false))]);
  ("Tetrahedron",     [("polarization", (1, false)); ("vertices", (2, false))]);   (* (3,), (4,3) *)
  ("TriangularMesh",  [("polarization", (1, false)); ("mesh", (3, true))]);        (* (3,), (n_faces,3,3) *)
  ("CustomSource",    []);
  ("Dipole",          [("moment", (1, false))]);
  ("Triangle",        [("polarization", (1, false)); ("vertices", (2, false))])    (* (3,), (3,3) *)
]%string.
(* position (3,), orientation: one quaternion (4,), observers (3,) *)
Definition base_spec : list spec_entry :=
  [("observers", (1, false)); ("position", (1, false)); ("orientation", (1, false))]%string.

(* one keyword of a call, described by the instance shape and how it is given *)
Inductive pmode := MSingle | MBatch | MRagged.
Record item := mkItem { it_key : string; it_shape : shape; it_mode : pmode }.

Definition item_in (n : Z) (it : item) : pin :=
  match it_mode it with
  | MSingle => match it_shape it with [] => PNum | s => PArr s end
  | MBatch => PArr (n :: it_shape it)
  | MRagged => PRag n
  end.
Definition item_out (n : Z) (it : item) : pval :=
  match it_mode it with
  | MRagged => VRag n
  | _ => VArr (n :: it_shape it)
  end.

(* an item conforms to a spec list: its key is listed, its instance shape has the documented rank, every axis has
   length >= 2 (np.squeeze would also remove an inner axis of length 1), ragged only where meaningful and n >= 2 *)
Definition conforms (sp : list spec_entry) (n : Z) (it : item) : Prop :=
  exists r rg, assoc (it_key it) sp = Some (r, rg) /\ ndim (it_shape it) = r /\
               Forall (fun d => 2 <= d) (it_shape it) /\
               (it_mode it = MRagged -> rg = true /\ 2 <= n).

(* the code's class table lists exactly the spec's keys, and every key's expected rank is (instance rank + 1) *)
Definition keys_match (tbl : list (string * Z)) (sp : list spec_entry) : bool :=
  forallb (fun e => str_mem (fst e) (map fst sp)) tbl && forallb (fun e => str_mem (fst e) (map fst tbl)) sp.
Definition ranks_match (base : list (string * Z)) (dflt : Z) (tbl : list (string * Z)) (sp : list spec_entry) : bool :=
  forallb (fun e => expected_dim base dflt tbl (fst e) =? fst (snd e) + 1) sp.
Definition class_ok (base : list (string * Z)) (dflt : Z) (row : string * list (string * Z)) : bool :=
  match assoc (fst row) spec_table with
  | None => false
  | Some sp => keys_match (snd row) sp && ranks_match base dflt (snd row) (sp ++ base_spec)
  end.
(* ------------------------------------------------------------------------------------------------------------------
   2. BaseCollection._validate_getBH_inputs
   ------------------------------------------------------------------------------------------------------------------ *)
Inductive mobj := OSrc (id : Z) | OSens (id : Z) | OColl (id : Z) (children : list mobj).

(* format_obj_input(self, allow="sources") / allow="sensors": flattened, ordered *)
Fixpoint flat_sources (o : mobj) : list Z :=
  match o with
  | OSrc i => [i]
  | OSens _ => []
  | OColl _ ch => flat_map flat_sources ch
  end.
Fixpoint flat_sensors (o : mobj) : list Z :=
  match o with
  | OSrc _ => []
  | OSens i => [i]
  | OColl _ ch => flat_map flat_sensors ch
  end.

(* what is handed to getBH_level2 as `sources` / `observers` *)
Inductive arg := ASelf | AInput0 | AInputs.     (* the collection itself / inputs[0] bare / the tuple `inputs` *)
Inductive vres := VRoles (sources observers : arg) | VBad
                  | VUnbound.   (* `return sources, sensors` with the names never assigned (UnboundLocalError) *)

Definition is_nil {A} (l : list A) : bool := match l with [] => true | _ => false end.

(*  if current_sensors and current_sources: sources, sensors = self, self;  if inputs: raise MagpylibBadUserInput
    elif not current_sources:              sources, sensors = inputs, self
    elif not current_sensors:              sources, sensors = self, (inputs[0] if len(inputs) == 1 else inputs)  *)
Definition validate_getBH_inputs (self : mobj) (n_inputs : nat) : vres :=
  let has_src := negb (is_nil (flat_sources self)) in
  let has_sens := negb (is_nil (flat_sensors self)) in
  if has_sens && has_src then (if Nat.eqb n_inputs 0 then VRoles ASelf ASelf else VBad)
  else if negb has_src then VRoles AInputs ASelf
  else if Nat.eqb n_inputs 1 then VRoles ASelf AInput0 else VRoles ASelf AInputs.

(* ---- the method wrappers: BaseSource.getX, Sensor.getX, BaseCollection.getX and the top-level getX are one-line
        calls of getBH_level2; the rows are READ from the source (Gen/GenIfaces.v) ---- *)
Inductive warg :=
| WParam (name : string)       (* the method's own parameter of this name is passed on *)
| WBool (b : bool) | WStr (s : string) | WNone.     (* a literal *)

Definition warg_eqb (a b : warg) : bool :=
  match a, b with
  | WParam x, WParam y => String.eqb x y
  | WBool x, WBool y => Bool.eqb x y
  | WStr x, WStr y => String.eqb x y
  | WNone, WNone => true
  | _, _ => false
  end.

Record wrapper_row := mkWrapper {
  w_owner : string;                    (* class name, "" for the module-level functions *)
  w_method : string;
  w_star : option string;              (* name of the *args parameter *)
  w_params : list (string * warg);     (* the other parameters (without self) with their defaults *)
  w_starkw : bool;                     (* has **kwargs and passes it on *)
  w_pre : string;                      (* "" | "format_star_input" | "_validate_getBH_inputs": what is applied to *args *)
  w_pos : list string;                 (* the two positional arguments of the getBH_level2 call *)
  w_field : string;
  w_kw : list (string * warg)          (* the other keyword arguments of the call *)
}.

(* the flags of getBH_level2 with the defaults of the top-level functions *)
Definition level2_flags : list (string * warg) :=
  [("sumup", WBool false); ("squeeze", WBool true); ("pixel_agg", WNone); ("output", WStr "ndarray");
   ("in_out", WStr "auto")]%string.

Definition flag_ok (r : wrapper_row) (fl : string * warg) : bool :=
  let '(k, dflt) := fl in
  match assoc k (w_kw r) with
  | Some (WParam p) => String.eqb p k &&
                       match assoc k (w_params r) with Some d => warg_eqb d dflt | None => false end
  | Some c => warg_eqb c dflt && negb (str_mem k (map fst (w_params r)))
  | None => false
  end.

Definition list_str_eqb (a b : list string) : bool :=
  Nat.eqb (List.length a) (List.length b) && forallb (fun p => String.eqb (fst p) (snd p)) (combine a b).

Definition roles_ok (r : wrapper_row) : bool :=
  if String.eqb (w_owner r) "BaseSource" then
    String.eqb (w_pre r) "format_star_input" && list_str_eqb (w_pos r) ["self"; "observers"]%string &&
    match w_star r with Some s => String.eqb s "observers" | None => false end && negb (w_starkw r)
  else if String.eqb (w_owner r) "Sensor" then
    String.eqb (w_pre r) "format_star_input" && list_str_eqb (w_pos r) ["sources"; "self"]%string &&
    match w_star r with Some s => String.eqb s "sources" | None => false end && negb (w_starkw r)
  else if String.eqb (w_owner r) "BaseCollection" then
    String.eqb (w_pre r) "_validate_getBH_inputs" && list_str_eqb (w_pos r) ["sources"; "sensors"]%string &&
    match w_star r with Some s => String.eqb s "inputs" | None => false end && negb (w_starkw r)
  else if String.eqb (w_owner r) "" then
    String.eqb (w_pre r) "" && list_str_eqb (w_pos r) ["sources"; "observers"]%string &&
    match w_star r with Some _ => false | None => true end && w_starkw r &&
    (* sources / observers are the first two parameters *)
    list_str_eqb (firstn 2 (map fst (w_params r))) ["sources"; "observers"]%string
  else false.

Definition wrapper_ok (r : wrapper_row) : bool :=
  String.eqb (w_method r) ("get" ++ w_field r) && str_mem (w_field r) ["B"; "H"; "J"; "M"]%string &&
  forallb (flag_ok r) level2_flags && Nat.eqb (List.length (w_kw r)) 5 && roles_ok r.

(* every parameter of an entry point is used: it is a role (sources / observers of the module functions; the star
   argument is a role by construction) or it is passed to getBH_level2 under its own name; and nothing but the five
   flags (and `field`) is passed *)
Definition role_params (r : wrapper_row) : list string :=
  if String.eqb (w_owner r) "" then ["sources"; "observers"]%string else [].
Definition passes_param (r : wrapper_row) (p : string) : bool :=
  existsb (fun kw => String.eqb (fst kw) p && warg_eqb (snd kw) (WParam p)) (w_kw r).
Definition params_forwarded (r : wrapper_row) : bool :=
  forallb (fun pd => str_mem (fst pd) (role_params r) || passes_param r (fst pd)) (w_params r) &&
  forallb (fun kw => str_mem (fst kw) (map fst level2_flags)) (w_kw r).

(* the documented parameter ORDER of every entry point (w_params lists the parameters in signature order; for the
   module-level functions they are all positional, so the order is part of the interface: getH(sources, observers, True)
   must set sumup; the methods' flags are keyword-only, which the translator checks) *)
Definition documented_params (owner : string) : list string :=
  if String.eqb owner "" then ["sources"; "observers"; "sumup"; "squeeze"; "pixel_agg"; "output"; "in_out"]%string
  else if String.eqb owner "BaseSource" then ["squeeze"; "pixel_agg"; "output"; "in_out"]%string
  else if String.eqb owner "Sensor" then ["sumup"; "squeeze"; "pixel_agg"; "output"; "in_out"]%string
  else ["squeeze"; "pixel_agg"; "output"]%string.
Definition param_order_ok (r : wrapper_row) : bool :=
  list_str_eqb (map fst (w_params r)) (documented_params (w_owner r)).

Definition expected_wrappers : list (string * string) :=
  flat_map (fun o => map (fun m => (o, m)) ["getB"; "getH"; "getJ"; "getM"]%string)
           [""; "BaseSource"; "Sensor"; "BaseCollection"]%string.

Definition wrappers_complete (ws : list wrapper_row) : bool :=
  forallb (fun e => existsb (fun r => String.eqb (w_owner r) (fst e) && String.eqb (w_method r) (snd e)) ws)
          expected_wrappers && Nat.eqb (List.length ws) (List.length expected_wrappers).

(* the dataframe assembly as written in the source: the iterables of product(...), the column names *)
Definition df_product_expected : list string :=
  ["src_ids"; "range(max_path_len)"; "sens_ids"; "range(num_of_pixels)"]%string.
Definition df_columns_expected : list string := ["source"; "path"; "sensor"; "pixel"]%string.

(* ---- check_format_input_observers on a mixed list [position array | Sensor | Collection, ...]: the sensors in LIST
        order, a collection replaced on the spot by its sensors (depth first), a position array by a pixel sensor ---- *)
Inductive obs_item := OISensor (id : Z) | OIColl (c : mobj) | OIPos (id : Z).

Definition obs_step (o : obs_item) : option (list Z) :=
  match o with
  | OISensor i => Some [i]
  | OIColl c => if is_nil (flat_sensors c) then None else Some (flat_sensors c)   (* no sensors: BadUserInput *)
  | OIPos i => Some [i]
  end.

Fixpoint format_observers (l : list obs_item) : option (list Z) :=
  match l with
  | [] => Some []
  | o :: r => match obs_step o, format_observers r with
              | Some a, Some b => Some (a ++ b)
              | _, _ => None
              end
  end.

(* the whole function: an empty list is rejected; a list that np.array(inp, dtype=float) converts -- only position
   arrays of one shape -- is ONE position array (one pixel sensor, identified here by its first entry) *)
Definition is_pos (o : obs_item) : bool := match o with OIPos _ => true | _ => false end.
Definition format_observers_top (l : list obs_item) : option (list Z) :=
  match l with
  | [] => None
  | OIPos i :: r => if forallb is_pos r then Some [i] else format_observers l
  | _ => format_observers l
  end.

Definition olist_eqb (a b : option (list Z)) : bool :=
  match a, b with
  | None, None => true
  | Some x, Some y => Nat.eqb (List.length x) (List.length y) && forallb (fun p => fst p =? snd p) (combine x y)
  | _, _ => false
  end.

(* ------------------------------------------------------------------------------------------------------------------
   3. dataframe assembly
        src_ids = ["sumup (L)"] if sumup and len(sources) > 1 else labels of the sources
        df = DataFrame(data=product(src_ids, range(max_path_len), sens_ids, range(num_of_pixels)), columns=...)
        df[[field + k for k in "xyz"]] = B.reshape(-1, 3)
   B is the (l, m, k, pixel) array, modelled as nested lists; reshape(-1, 3) lists the field vectors row-major.
   ------------------------------------------------------------------------------------------------------------------ *)
Section Dataframe.
Context {Lab V : Type}.

(* itertools.product(a, b): a's index is the slow one *)
Definition prod2 {A B} (a : list A) (b : list B) : list (A * B) := flat_map (fun x => map (pair x) b) a.

Definition df_labels (src_ids : list Lab) (M : nat) (sens_ids : list Lab) (P : nat)
  : list (Lab * (nat * (Lab * nat))) :=
  prod2 src_ids (prod2 (seq 0 M) (prod2 sens_ids (seq 0 P))).

(* B.reshape(-1, 3) of B[l][m][k][p] *)
Definition df_values (B : list (list (list (list V)))) : list V :=
  List.concat (map (fun Bl => List.concat (map (fun Blm => List.concat Blm) Bl)) B).

Definition dataframe (src_ids : list Lab) (M : nat) (sens_ids : list Lab) (P : nat)
           (B : list (list (list (list V)))) : list ((Lab * (nat * (Lab * nat))) * V) :=
  combine (df_labels src_ids M sens_ids P) (df_values B).

(* B has shape (L, M, K, P) *)
Definition rect4 (L M K P : nat) (B : list (list (list (list V)))) : Prop :=
  List.length B = L /\
  Forall (fun Bl => List.length Bl = M /\
    Forall (fun Blm => List.length Blm = K /\ Forall (fun Blmk => List.length Blmk = P) Blm) Bl) B.

Definition at4 (dv : V) (B : list (list (list (list V)))) (l m k p : nat) : V :=
  nth p (nth k (nth m (nth l B []) []) []) dv.
End Dataframe.

(* the source column when sumup is requested *)
Definition df_src_ids {Lab} (sumup : bool) (sum_label : Lab) (labels : list Lab) : list Lab :=
  if sumup && (Nat.ltb 1 (List.length labels)) then [sum_label] else labels.

(* ------------------------------------------------------------------------------------------------------------------
   4. executable checkers used by the correspondence (harness/props/C07.py writes the case lists)
   ------------------------------------------------------------------------------------------------------------------ *)
Record dcase := mkDCase {
  dc_cls : option string;            (* Some name: a registered class, table taken from Gen/GenTables.v *)
  dc_tbl : list (string * Z);        (* None above: a harness-defined class with this _field_func_kwargs_ndim *)
  dc_kw : list (string * pin);
  dc_obs : pin; dc_pos : pin; dc_ori : pin;
  dc_expect : dres                   (* what the implementation did on this input *)
}.

Definition run_dcase (registered : list (string * list (string * Z))) (base : list (string * Z)) (dflt : Z)
           (c : dcase) : dres :=
  match dc_cls c with
  | Some name => dict_iface registered base dflt name (dc_kw c) (dc_obs c) (dc_pos c) (dc_ori c)
  | None => dict_level2 base dflt (dc_tbl c) (dc_kw c) (dc_obs c) (dc_pos c) (dc_ori c)
  end.

Fixpoint failing_from {A} (ok : A -> bool) (i : Z) (l : list A) : list Z :=
  match l with
  | [] => []
  | x :: r => (if ok x then [] else [i]) ++ failing_from ok (i + 1) r
  end.

Definition failing_dcases (registered : list (string * list (string * Z))) (base : list (string * Z)) (dflt : Z)
           (cs : list dcase) : list Z :=
  failing_from (fun c => dres_eqb (run_dcase registered base dflt c) (dc_expect c)) 0 cs.

(* role inference cases: collection tree, number of inputs, what the implementation returned *)
Definition vres_eqb (a b : vres) : bool :=
  match a, b with
  | VBad, VBad => true
  | VUnbound, VUnbound => true
  | VRoles s o, VRoles s' o' =>
    (match s, s' with ASelf, ASelf | AInput0, AInput0 | AInputs, AInputs => true | _, _ => false end) &&
    (match o, o' with ASelf, ASelf | AInput0, AInput0 | AInputs, AInputs => true | _, _ => false end)
  | _, _ => false
  end.
Definition failing_rcases (cs : list (mobj * nat * vres)) : list Z :=
  failing_from (fun c => vres_eqb (validate_getBH_inputs (fst (fst c)) (snd (fst c))) (snd c)) 0 cs.

Definition failing_ocases (cs : list (list obs_item * option (list Z))) : list Z :=
  failing_from (fun c => olist_eqb (format_observers_top (fst c)) (snd c)) 0 cs.
