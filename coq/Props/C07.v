(* C07 -- all interfaces to the same computation return the same numbers; dataframe order.
   Statements only; every proof is `exact <lemma>`.  `registered`, `dict_base_ndim`, `dict_default_ndim` are the rank
   tables READ FROM /repo ON THIS RUN (Gen/GenTables.v); `spec_table` / `base_spec` (Model/DictIface.v) is the
   hand-written documented rank of one instance's value.  What is proved is the SHAPE discipline of the functional
   interface (every keyword reaches getBH_level1 as an (n, instance-shape) array), the role decision of
   Collection.getX and the row order of the dataframe; equality of the NUMBERS across interfaces is not a theorem
   (the field cores are not modelled) -- it is the search oracle of harness/props/C07.py. *)
From Coq Require Import ZArith List Bool String.
From MV Require Import Lib.Rigid Lib.ListIdx Model.Level2Model Model.L2Arith Model.DictArith Gen.GenDictArith.
From MV Require Import Model.InputTypes Gen.GenTables Gen.GenIfaces Model.DictIface Model.DictRows
  Proofs.DictIfaceProofs Proofs.IfacesProofs Proofs.DictArithProofs Proofs.DictRowsProofs.
Import ListNotations.
Open Scope Z_scope.

(* For EVERY registered class c with its rank table tbl (as read from the class files on this run): the table lists
   exactly the documented parameters, and for every common instance count n >= 1, every choice per keyword (class
   parameters, observers, position, orientation) of "one value" / "n values" / (where meaningful, n >= 2) "ragged list
   of n values", every instance shape of the documented rank with all axes >= 2: getBH_dict_level2 returns normally and
   passes every keyword on with shape (n, instance shape) (ragged: an object array of n).  n is the common length:
   n = 1 or at least one keyword is given per instance. *)
Theorem C07_dict_iface_tiles : forall c tbl,
  In (c, tbl) registered ->
  exists sp, assoc c spec_table = Some sp /\ keys_match tbl sp = true /\
  forall (n : Z) (uitems : list item) (obs pos ori : item),
    1 <= n ->
    it_key obs = "observers"%string -> it_key pos = "position"%string -> it_key ori = "orientation"%string ->
    Forall (conforms (sp ++ base_spec) n) (uitems ++ [obs; pos; ori]) ->
    (n = 1 \/ Exists (fun it => it_mode it <> MSingle) (uitems ++ [obs; pos; ori])) ->
    dict_level2 dict_base_ndim dict_default_ndim tbl (kw_of n uitems)
                (item_in n obs) (item_in n pos) (item_in n ori)
    = DOk (out_of n (uitems ++ [obs; pos; ori])).
Proof. exact dict_iface_tiles. Qed.
Print Assumptions C07_dict_iface_tiles.

(* every registered class has a table that meets the spec: exactly the documented keys, every expected rank =
   documented instance rank + 1 (this is the statement that breaks when a rank entry is changed) *)
Theorem C07_rank_tables_meet_spec :
  forallb (class_ok dict_base_ndim dict_default_ndim) registered = true.
Proof. exact registered_ok. Qed.
Print Assumptions C07_rank_tables_meet_spec.

(* the same lemma for ANY rank function and ANY list of keywords (this is what the theorem above instantiates) *)
Theorem C07_dict_core_tiles : forall (ed : string -> Z) (n : Z), 1 <= n -> forall (items : list item),
  Forall (good ed n) items ->
  (n = 1 \/ Exists (fun it => it_mode it <> MSingle) items) ->
  dict_core ed (kw_of n items) = DOk (out_of n items).
Proof. exact dict_core_tiles. Qed.
Print Assumptions C07_dict_core_tiles.

(* conversely, (instance rank + 1) is the ONLY entry that works: for any rank function that gives observers rank 2 and
   any keyword whose entry differs from (rank of one instance's value + 1), there is a call -- this keyword given once,
   n >= 2 observers -- that getBH_dict_level2 does not tile to (n, instance shape) (it raises, or passes another shape) *)
Theorem C07_rank_entry_necessary : forall (ed : string -> Z) (key : string) (s : shape),
  ed "observers"%string = 2 ->
  Forall (fun d => 2 <= d) s ->
  ed key <> ndim s + 1 ->
  exists n, 2 <= n /\
    dict_core ed [(key, item_in n (mkItem key s MSingle)); ("observers"%string, PArr [n; 3])]
    <> DOk [(key, VArr (n :: s)); ("observers"%string, VArr [n; 3])].
Proof. exact rank_entry_necessary. Qed.
Print Assumptions C07_rank_entry_necessary.

(* RECORD (defect fixed by /repo commit 3bc026d; a statement about the model with a literal table, not about the
   current tree): with the entry "mesh": 3 one (4,3,3) mesh is counted as 4 instances and a per-instance (2,4,3,3) array
   is not counted at all; with "mesh": 4 both calls tile to n = 2 *)
Theorem C07_mesh_rank3_mistiles :
  dict_level2 dict_base_ndim dict_default_ndim mesh3_table
              [("polarization"%string, PArr [3]); ("mesh"%string, PArr [4; 3; 3])] (PArr [2; 3]) (PArr [3]) (PArr [4])
  = DBad
  /\ dict_level2 dict_base_ndim dict_default_ndim mesh3_table
              [("polarization"%string, PArr [3]); ("mesh"%string, PArr [4; 3; 3])] (PArr [4; 3]) (PArr [3]) (PArr [4])
  = DOk [("polarization"%string, VArr [4; 3]); ("mesh"%string, VArr [4; 3; 3]); ("observers"%string, VArr [4; 3]);
         ("position"%string, VArr [4; 3]); ("orientation"%string, VArr [4; 4])]
  /\ dict_level2 dict_base_ndim dict_default_ndim mesh3_table
              [("polarization"%string, PArr [3]); ("mesh"%string, PArr [2; 4; 3; 3])] (PArr [3]) (PArr [3]) (PArr [4])
  = DOk [("polarization"%string, VArr [1; 3]); ("mesh"%string, VArr [2; 4; 3; 3]); ("observers"%string, VArr [1; 3]);
         ("position"%string, VArr [1; 3]); ("orientation"%string, VArr [1; 4])].
Proof. exact mesh_rank3_mistiles. Qed.
Print Assumptions C07_mesh_rank3_mistiles.

(* Collection.getX with star-inputs: which side the collection takes *)
Theorem C07_role_inference : forall (self : mobj) (n_inputs : nat),
  (flat_sources self <> [] -> flat_sensors self <> [] ->
     validate_getBH_inputs self n_inputs = if Nat.eqb n_inputs 0 then VRoles ASelf ASelf else VBad) /\
  (flat_sources self = [] -> validate_getBH_inputs self n_inputs = VRoles AInputs ASelf) /\
  (flat_sources self <> [] -> flat_sensors self = [] ->
     validate_getBH_inputs self n_inputs = VRoles ASelf (if Nat.eqb n_inputs 1 then AInput0 else AInputs)).
Proof. exact role_inference. Qed.
Print Assumptions C07_role_inference.

(* the decision function TRANSLATED from BaseCollection._validate_getBH_inputs on this run equals the hand model, on
   every collection tree and every number of inputs (so the theorem above speaks about the code as it is now) *)
Theorem C07_role_inference_translated : forall (self : mobj) (n : nat),
  gen_validate (negb (is_nil (flat_sensors self))) (negb (is_nil (flat_sources self))) n
  = validate_getBH_inputs self n.
Proof. exact gen_validate_model. Qed.
Print Assumptions C07_role_inference_translated.

(* the 16 entry points (getB/H/J/M of the module, BaseSource, Sensor, BaseCollection), as READ from the source on this
   run: each is a single `return getBH_level2(...)`; the field is the letter in the method's name; for every flag
   (sumup, squeeze, pixel_agg, output, in_out) getBH_level2 receives what the caller gave, or the one common default
   when the caller gave nothing or the entry point has no such parameter *)
Theorem C07_wrappers_forward : forall r, In r wrappers -> forall (env : caller), accepts r env ->
  w_method r = ("get" ++ w_field r)%string /\
  forall k dflt, In (k, dflt) level2_flags ->
    passed r env k = match env k with Some v => v | None => dflt end.
Proof. exact wrappers_forward. Qed.
Print Assumptions C07_wrappers_forward.

Theorem C07_wrappers_table : forallb wrapper_ok wrappers = true /\ wrappers_complete wrappers = true.
Proof. exact wrappers_ok. Qed.
Print Assumptions C07_wrappers_table.

(* the dataframe assembly in the source has the iterables / columns / sumup condition the model assumes *)
Theorem C07_dataframe_source_order :
  df_product = df_product_expected /\ df_columns = df_columns_expected /\
  df_sumup_cond = "sumup and len(sources) > 1"%string /\ star_input_single_is_bare = true.
Proof. exact df_source_order. Qed.
Print Assumptions C07_dataframe_source_order.

(* product(source, path, sensor, pixel) next to B.reshape(-1, 3): row ((l*M+m)*K+k)*P+p carries the labels
   (source l, path m, sensor k, pixel p) and the value B[l][m][k][p], for every (L,M,K,P) array *)
Theorem C07_dataframe_order : forall (Lab V : Type) (dl : Lab) (dv : V)
    (src_ids sens_ids : list Lab) (M P : nat) (B : list (list (list (list V)))) (l m k p : nat),
  let L := List.length src_ids in
  let K := List.length sens_ids in
  rect4 L M K P B -> (l < L)%nat -> (m < M)%nat -> (k < K)%nat -> (p < P)%nat ->
  List.length (dataframe src_ids M sens_ids P B) = (L * M * K * P)%nat /\
  nth (((l * M + m) * K + k) * P + p) (dataframe src_ids M sens_ids P B) ((dl, (0%nat, (dl, 0%nat))), dv)
  = ((nth l src_ids dl, (m, (nth k sens_ids dl, p))), at4 dv B l m k p).
Proof. exact dataframe_order. Qed.
Print Assumptions C07_dataframe_order.

Theorem C07_df_src_ids_length : forall (Lab : Type) (sumup : bool) (sl : Lab) (labels : list Lab),
  labels <> [] ->
  List.length (df_src_ids sumup sl labels) = if sumup then 1%nat else List.length labels.
Proof. exact df_src_ids_length. Qed.
Print Assumptions C07_df_src_ids_length.

(* ---- every keyword of every entry point (wave 3) ---- *)
Theorem C07_wrappers_every_keyword : forall r, In r wrappers ->
  (forall p d, In (p, d) (w_params r) -> In p (role_params r) \/ In (p, WParam p) (w_kw r)) /\
  (forall k v, In (k, v) (w_kw r) -> In k (map fst level2_flags)).
Proof. exact wrappers_every_keyword. Qed.
Print Assumptions C07_wrappers_every_keyword.

(* the signatures list their parameters in the documented order (module functions: sources, observers, sumup, squeeze,
   pixel_agg, output, in_out -- all positional; methods: the keyword-only flags), the same for B, H, J, M *)
Theorem C07_wrappers_param_order : forall r, In r wrappers ->
  map fst (w_params r) = documented_params (w_owner r).
Proof. exact wrappers_param_order. Qed.
Print Assumptions C07_wrappers_param_order.

(* ---- the model of getBH_dict_level2 against the TRANSLATED statements of the function (Gen/GenDictArith.v) ---- *)
(* all statements of getBH_dict_level2, in source order, are the reviewed ones *)
Theorem C07_dict_statements_reviewed : dict_arith = expected_dict_arith.
Proof. exact dict_arith_reviewed. Qed.
Print Assumptions C07_dict_statements_reviewed.

(* the literal base rank table and the default of `.get(key, 1)` (both occurrences) are the model's arguments *)
Theorem C07_rank_lookup_translated :
  match get F "assign" "field_func_kwargs_ndim" 0%nat dict_arith with
  | PDict l => pdict_table l | _ => None end = Some dict_base_ndim /\
  get_default (get F "assign" "expected_dim" 0%nat dict_arith) = Some dict_default_ndim /\
  get_default (get F "assign" "expected_dim" 1%nat dict_arith) = Some dict_default_ndim.
Proof. exact (conj base_table_translated default_rank_translated). Qed.
Print Assumptions C07_rank_lookup_translated.

(* one iteration of the first loop: the model's phase1 step is decided by the two translated tests
   `val.ndim == expected_dim or ragged_seq[key]` and `len(val) == 1`, evaluated on the loop variables *)
Theorem C07_phase1_step_translated : forall (ed : string -> Z) k v rest rag val n,
  secure v = SOk rag val ->
  (if (v_ndim val =? ed k) || rag then v_len val else Some 0) = Some n ->
  forall env, e_ndim env = v_ndim val -> e_expected env = ed k -> e_ragged env = rag -> e_len env = n ->
  exists counted is1,
    dB env (get F "if" "" 1%nat dict_arith) = Some counted /\ dB env (get F "if" "" 2%nat dict_arith) = Some is1 /\
    phase1 ed ((k, v) :: rest) =
      match phase1 ed rest with
      | P1Ok items vls =>
          P1Ok ((k, (rag, if counted && is1 then v_squeeze val else val)) :: items)
               ((if counted && negb is1 then [(k, n)] else []) ++ vls)
      | e => e
      end.
Proof. exact phase1_step_translated. Qed.
Print Assumptions C07_phase1_step_translated.

(* `if len(set(vec_lengths.values())) > 1: raise` is the model's all_same test; `max(..., default=1)` its vec_len_of *)
Theorem C07_lengths_translated :
  (forall env (vls : list Z), e_distinct env = ndistinct vls ->
     dB env (get F "if" "" 3%nat dict_arith) = Some (negb (DictIface.all_same vls))) /\
  max_default (get F "assign" "vec_len" 0%nat dict_arith) = Some (vec_len_of []) /\
  (forall x r, In (vec_len_of (x :: r)) (x :: r) /\ forall y, In y (x :: r) -> y <= vec_len_of (x :: r)).
Proof. exact (conj lengths_test_model (conj vec_len_translated vec_len_of_is_max)). Qed.
Print Assumptions C07_lengths_translated.

(* the tiling loop: the translated condition and repetitions (vec_len, *[1] * (expected_dim - 1)) are tile_item's *)
Theorem C07_tile_item_translated : forall (ed : string -> Z) vec_len k rag s env,
  e_ndim env = ndim s -> e_expected env = ed k -> e_ragged env = rag -> e_vec_len env = vec_len ->
  exists c reps, dB env (get F "if" "" 4%nat dict_arith) = Some c /\
    match tile_reps (get F "assign" "kwargs[key]" 1%nat dict_arith) with
    | Some items => dTuple env items | None => None end = Some reps /\
    tile_item ed vec_len (k, (rag, VArr s)) = if c then (k, VArr (np_tile_shape s reps)) else (k, VArr s).
Proof. exact tile_item_translated. Qed.
Print Assumptions C07_tile_item_translated.

(* ---- mixed source / observer lists (round 6) ---- *)
(* the statements of check_format_input_observers and of the block of _getBH_level2 that sums a Collection's rows,
   translated on this run, are the reviewed ones (a rewrite of either breaks this proof) *)
Theorem C07_list_statements_reviewed :
  observers_arith = expected_observers_arith /\ reduce_arith = expected_reduce_arith.
Proof. exact (conj observers_arith_reviewed reduce_arith_reviewed). Qed.
Print Assumptions C07_list_statements_reviewed.

(* the slice summed into row src_ind is [src_ind, src_ind + col_len), the deleted one [src_ind + 1, src_ind + col_len)
   (the bounds of Level2Model.reduce_loop), for all values *)
Theorem C07_reduce_bounds : forall (i n : Z),
  let env := fun s => if String.eqb s "src_ind" then Some i else if String.eqb s "col_len" then Some n else None in
  match get "_getBH_level2" "assign" "B[src_ind]" 0%nat reduce_arith with
  | PCall _ [PSub (PName "B") (PSlice (Some lo) (Some hi))] _ =>
      (evalZ env (fun _ => None) lo, evalZ env (fun _ => None) hi)
  | _ => (None, None) end = (Some i, Some (i + n)) /\
  match get "_getBH_level2" "assign" "B" 0%nat reduce_arith with
  | PCall _ [PName "B"; PSub _ (PSlice (Some lo) (Some hi)); PInt 0] _ =>
      (evalZ env (fun _ => None) lo, evalZ env (fun _ => None) hi)
  | _ => (None, None) end = (Some (i + 1), Some (i + n)).
Proof. exact reduce_bounds. Qed.
Print Assumptions C07_reduce_bounds.

(* the model of the observer list (tied to check_format_input_observers by correspondence on random mixed lists) keeps
   LIST order: every element contributes its sensors in its own turn *)
Theorem C07_observer_list_order : forall a b,
  format_observers (a ++ b) =
  match format_observers a, format_observers b with Some x, Some y => Some (x ++ y)%list | _, _ => None end.
Proof. exact format_observers_app. Qed.
Print Assumptions C07_observer_list_order.

(* ---- functional interface vs object interface: the same rows reach getBH_level1 ----
   PARTIAL: one source class (one group), static poses, plain position observers (no sensor rotation / pixels / paths);
   Level2Model.group_field is builder l2a's model of get_src_dict + getBH_level1 for one group. *)
Section AnyRigidAlgebra.
Context {O : RigidOps}.
Variable P : Type.
Variable Fld : nat -> P -> V -> V.

Theorem C07_functional_rows_partial :
  (* the row list of group_field *)
  (forall k gr M n_pix n_pp po,
     group_field P Fld k gr M n_pix n_pp po
     = map (chunks n_pix M) (chunks (M * n_pix) (List.length gr)
                                    (map (row_field P Fld k) (l2_rows P gr n_pix n_pp po)))) /\
  (* n static sources, one observer given once *)
  (forall (gr : list (@leaf O P)) (o : V),
     dict_rows P (List.length gr) (Many (flat_map l_pos gr)) (Many (flat_map l_ori gr)) (One o) (Many (map l_prop gr))
     = l2_rows P gr 1 1 [o]) /\
  (* one static source given once, n observers *)
  (forall (p : V) (q : G) (k : nat) (pr : P) (po : list V),
     dict_rows P (List.length po) (One p) (One q) (Many po) (One pr)
     = l2_rows P [mkLeaf [p] [q] k pr] (List.length po) (List.length po) po).
Proof.
  exact (conj (group_field_rows P Fld) (conj (rows_sources_one_observer P) (rows_one_source_observers P))).
Qed.

Theorem C07_functional_field_partial :
  (forall k (gr : list (@leaf O P)) (o : V), Forall (static_leaf P) gr ->
     group_field P Fld k gr 1 1 1 [o]
     = map (fun v => [[v]])
           (dict_field P Fld k (List.length gr) (Many (flat_map l_pos gr)) (Many (flat_map l_ori gr)) (One o)
                       (Many (map l_prop gr)))) /\
  (forall (p : V) (q : G) (k : nat) (pr : P) (po : list V),
     group_field P Fld k [mkLeaf [p] [q] k pr] 1 (List.length po) (List.length po) po
     = [[dict_field P Fld k (List.length po) (One p) (One q) (Many po) (One pr)]]).
Proof. exact (conj (field_sources_one_observer P Fld) (field_one_source_observers P Fld)). Qed.
End AnyRigidAlgebra.
Print Assumptions C07_functional_rows_partial.
Print Assumptions C07_functional_field_partial.

(* non-vacuity: a registered class and a keyword list that satisfy every hypothesis of the first
   theorem (Cuboid, n = 5: single polarization, per-instance dimension and observers), with the computed result *)
Example C07_dict_iface_tiles_nonvacuous :
  exists tbl sp, In ("Cuboid"%string, tbl) registered /\
    assoc "Cuboid"%string spec_table = Some sp /\
    Forall (conforms (sp ++ base_spec) 5) (ex_items ++ [ex_obs; ex_pos; ex_ori]) /\
    Exists (fun it => it_mode it <> MSingle) (ex_items ++ [ex_obs; ex_pos; ex_ori]) /\
    dict_level2 dict_base_ndim dict_default_ndim tbl (kw_of 5 ex_items)
                (item_in 5 ex_obs) (item_in 5 ex_pos) (item_in 5 ex_ori)
    = DOk [("polarization"%string, VArr [5; 3]); ("dimension"%string, VArr [5; 3]);
           ("observers"%string, VArr [5; 3]); ("position"%string, VArr [5; 3]); ("orientation"%string, VArr [5; 4])].
Proof. exact nonvacuous. Qed.
Print Assumptions C07_dict_iface_tiles_nonvacuous.
