(* C05 -- superposition: collections and sumup add fields; fields are linear in the excitation.
   Statements only; every proof is `exact <lemma>`.
   Level-2 part: any rigid-motion algebra, any field functions; `getBH` is the model of
   getBH_level2 (Model/Level2Model.v) with the LITERAL in-place slice-sum/delete loop
   (reduce_loop), `getBH_nodes` adds the flattening of object trees (Model/Level2Flat.v).
   Linearity part: over R, for the cores modelled in Model/CoreModel.v. *)
From Coq Require Import ZArith List Bool Lia Reals.
From MV Require Import Lib.Rigid Lib.OctZ Lib.ListIdx Model.Level2Model Model.Level2Flat Model.Level2Exec
  Model.CoreNum Model.CoreSpec
  Gen.GenReduce Gen.GenFlat Proofs.Level2C Proofs.Level2C05 Proofs.Level2C05Gen Proofs.Level2FlatGen Proofs.LinearExc.
From MV Require Gen.GenCuboid Model.CoreModel Model.WrapModel Proofs.WrapLinear Model.CuboidCore Proofs.CuboidLinear.
From Coq Require Field_theory.
Import ListNotations.
Open Scope nat_scope.

Section AnyRigidAlgebra.
Context {O : RigidOps} {L : RigidLaws O}.

(* ---- the in-place loop  B[i] = sum(B[i:i+n]); B = delete(B, i+1:i+n); i keeps running:
   for EVERY list of entries (any mix and order of bare sources and collections, any sizes >= 1)
   it returns at index l the sum over exactly the leaves of entry l.
   (a) loop invariant form: processed prefix `done` untouched, positions aligned *)
Theorem C05_collection_reduce_loop : forall (P : Type) (srcs : list (srcin P)) (done B : list block),
  (forall s, In s srcs -> leaves s <> []) -> length B = length (src_list srcs) ->
  reduce_loop P srcs (length done) (done ++ B) = done ++ reduce_spec P srcs B.
Proof. exact reduce_loop_spec. Qed.

(* (b) the whole step incl. the `num_of_src_list > num_of_sources` guard *)
Theorem C05_collection_reduce_spec : forall (P : Type) (blockof : leaf P -> block) (srcs : list (srcin P)),
  (forall s, In s srcs -> leaves s <> []) ->
  reduce_collections P srcs (map blockof (src_list srcs))
  = map (fun s => sum_blocks (map blockof (leaves s))) srcs.
Proof. exact reduce_collections_spec. Qed.

(* (c) the loop TRANSLATED from /repo on this run (Gen/GenReduce.v: guard, loop header, isinstance test,
   col_len, slice sum and np.delete with their index arithmetic as written in the source) is the loop
   of the model, and has the same specification *)
Theorem C05_translated_loop_is_model : forall (P : Type) (srcs : list (srcin P)) (B : list block),
  gen_reduce_collections P srcs B = reduce_collections P srcs B.
Proof. exact gen_reduce_collections_eq. Qed.

Theorem C05_translated_reduce_spec : forall (P : Type) (blockof : leaf P -> block) (srcs : list (srcin P)),
  (forall s, In s srcs -> leaves s <> []) ->
  gen_reduce_collections P srcs (map blockof (src_list srcs))
  = map (fun s => sum_blocks (map blockof (leaves s))) srcs.
Proof. exact gen_reduce_collections_spec. Qed.

Theorem C05_translated_sumup : forall (sumup : bool) (o : out_t),
  gen_sumup sumup o = if sumup then sum_out o else o.
Proof. exact gen_sumup_eq. Qed.

(* ---- flattening: format_obj_input(collection, allow="sources") is the DFS leaf list with sensors
   dropped; col_len counts exactly these leaves; format_src_inputs accepts exactly the non-empty
   lists of sources / collections holding a source, and its src_list is the concatenation *)
Theorem C05_flatten_dfs : forall (P : Type) (n : node P), child_sources P n = dfs P n.
Proof. exact child_sources_dfs. Qed.

Theorem C05_col_len : forall (P : Type) (n : node P),
  length (format_obj_input P true false [n]) = length (dfs P n).
Proof. exact col_len_is_leaf_count. Qed.

Theorem C05_format_src_inputs : forall (P : Type) (nodes : list (node P)),
  match format_src_inputs P nodes with
  | Some (srcs, sl) =>
      srcs = nodes /\ nodes <> [] /\ sl = flat_map (dfs P) nodes /\
      sl = src_list (map (to_srcin P) nodes) /\
      (forall n, In n nodes -> accepted_node P n /\ leaves (to_srcin P n) = dfs P n /\ dfs P n <> [])
  | None => nodes = [] \/ ~ Forall (accepted_node P) nodes
  end.
Proof. exact format_src_inputs_spec. Qed.

(* the same three functions TRANSLATED from /repo/magpylib/_src/utility.py on this run (Gen/GenFlat.v:
   statement-by-statement interpretation per kind of object, fail-closed) are the hand model, for every tree *)
Theorem C05_translated_format_obj_input_is_model : forall (P : Type) (s e : bool) (objs : list (node P)),
  gen_format_obj_input P s e false objs = map (node_of_item P) (format_obj_input P s e objs).
Proof. exact gen_format_obj_input_is_model. Qed.

Theorem C05_translated_format_src_inputs_is_model : forall (P : Type) (nodes : list (node P)),
  gen_format_src_inputs P nodes
  = option_map (fun r : list (node P) * list (leaf P) => (fst r, map NSrc (snd r))) (format_src_inputs P nodes).
Proof. exact gen_format_src_inputs_is_model. Qed.

Theorem C05_translated_format_src_inputs_dfs : forall (P : Type) (nodes srcs sl : list (node P)),
  gen_format_src_inputs P nodes = Some (srcs, sl) ->
  srcs = nodes /\ sl = map NSrc (flat_map (dfs P) nodes) /\ sl = map NSrc (src_list (map (to_srcin P) nodes)).
Proof. exact gen_format_src_inputs_dfs. Qed.

(* ---- a Collection is ONE entry, holding the (sensor's view of the) sum over all leaves of its tree *)
Theorem C05_collection_is_one_entry : forall (P : Type) (F : nat -> P -> V -> V) (g_eqb : G -> G -> bool) (flipx : V -> V),
  (forall a b : G, g_eqb a b = true -> a = b) ->
  forall (srcs : list (srcin P)) (sens : list sensor) (agg : option (list V -> V)),
  srcs <> [] -> Forall (wf_src P) srcs -> Forall wf_sensor sens -> wf_shapes sens agg ->
  length (getBH P F g_eqb flipx srcs sens agg false) = length srcs.
Proof. exact collection_is_one_entry. Qed.

Theorem C05_getBH_nodes : forall (P : Type) (F : nat -> P -> V -> V) (g_eqb : G -> G -> bool) (flipx : V -> V),
  (forall a b : G, g_eqb a b = true -> a = b) ->
  forall (nodes : list (node P)) (sens : list sensor) (agg : option (list V -> V)),
  (forall x, In x (flat_map (dfs P) nodes) -> wf_leaf P x) -> Forall wf_sensor sens -> wf_shapes sens agg ->
  match getBH_nodes P F g_eqb flipx nodes sens agg false with
  | Some out => out = spec P F flipx (map (to_srcin P) nodes) sens agg /\
                length out = length nodes /\
                (forall n, In n nodes -> leaves (to_srcin P n) = dfs P n)
  | None => nodes = [] \/ ~ Forall (accepted_node P) nodes
  end.
Proof. exact getBH_nodes_spec. Qed.

Theorem C05_entry_is_sum_over_leaves : forall (P : Type) (F : nat -> P -> V -> V) (flipx : V -> V)
  (srcs : list (srcin P)) (sens : list sensor) (l m k pix : nat) d0 d1 d2 d3 dsrc dsens,
  l < length srcs -> m < max_path_len P (src_list srcs) sens -> k < length sens ->
  pix < length (s_pix (nth k sens dsens)) ->
  nth pix (nth k (nth m (nth l (spec P F flipx srcs sens None) d0) d1) d2) d3
  = sensor_view flipx (nth k sens dsens) m
      (vsum (map (fun x => leaf_field P F x m
                    (pixel_point (nth k sens dsens) m (nth pix (s_pix (nth k sens dsens)) vzero)))
                 (leaves (nth l srcs dsrc)))).
Proof. exact spec_entry. Qed.

(* ---- sumup=True returns the sum over the entries *)
Theorem C05_sumup_spec : forall (P : Type) (F : nat -> P -> V -> V) (g_eqb : G -> G -> bool) (flipx : V -> V),
  (forall a b : G, g_eqb a b = true -> a = b) ->
  forall (srcs : list (srcin P)) (sens : list sensor) (agg : option (list V -> V)),
  srcs <> [] -> Forall (wf_src P) srcs -> Forall wf_sensor sens -> wf_shapes sens agg ->
  getBH P F g_eqb flipx srcs sens agg true = sumup_cells P F flipx srcs sens agg.
Proof. exact sumup_spec. Qed.

Theorem C05_sumup_elements : forall (P : Type) (F : nat -> P -> V -> V) (flipx : V -> V)
  (srcs : list (srcin P)) (sens : list sensor), srcs <> [] ->
  sumup_cells P F flipx srcs sens None
  = [map (fun m => map (fun s => map (fun pix => vsum (map (fun src => spec_elem P F flipx src m s pix) srcs))
                                     (s_pix s)) sens)
         (seq 0 (max_path_len P (src_list srcs) sens))].
Proof. exact sumup_cells_none. Qed.

Theorem C05_sumup_elements_agg : forall (P : Type) (F : nat -> P -> V -> V) (flipx : V -> V)
  (srcs : list (srcin P)) (sens : list sensor) (a : list V -> V), srcs <> [] ->
  sumup_cells P F flipx srcs sens (Some a)
  = [map (fun m => map (fun s => [vsum (map (fun src => a (map (spec_elem P F flipx src m s) (s_pix s))) srcs)]) sens)
         (seq 0 (max_path_len P (src_list srcs) sens))].
Proof. exact sumup_cells_agg. Qed.

(* ---- the field of several sources is the sum of their individual fields:
   sumup over any entries = one collection of all their leaves; a collection = sumup of its leaves
   given as separate sources (flipx, the handedness flip, must be additive -- it is a sign change) *)
Theorem C05_sumup_is_one_collection : forall (P : Type) (F : nat -> P -> V -> V) (g_eqb : G -> G -> bool) (flipx : V -> V),
  (forall a b : V, flipx (vadd a b) = vadd (flipx a) (flipx b)) ->
  (forall a b : G, g_eqb a b = true -> a = b) ->
  forall (srcs : list (srcin P)) (sens : list sensor),
  srcs <> [] -> Forall (wf_src P) srcs -> Forall wf_sensor sens -> wf_shapes sens None ->
  getBH P F g_eqb flipx srcs sens None true = getBH P F g_eqb flipx [Coll (src_list srcs)] sens None false.
Proof. exact getBH_sumup_is_one_collection. Qed.

Theorem C05_collection_is_sum_of_leaves : forall (P : Type) (F : nat -> P -> V -> V) (g_eqb : G -> G -> bool) (flipx : V -> V),
  (forall a b : V, flipx (vadd a b) = vadd (flipx a) (flipx b)) ->
  (forall a b : G, g_eqb a b = true -> a = b) ->
  forall (ls : list (leaf P)) (sens : list sensor),
  ls <> [] -> Forall (wf_leaf P) ls -> Forall wf_sensor sens -> wf_shapes sens None ->
  getBH P F g_eqb flipx [Coll ls] sens None false = getBH P F g_eqb flipx (map Bare ls) sens None true.
Proof. exact getBH_collection_is_sum_of_leaves. Qed.

End AnyRigidAlgebra.

Print Assumptions C05_collection_reduce_loop.
Print Assumptions C05_collection_reduce_spec.
Print Assumptions C05_translated_loop_is_model.
Print Assumptions C05_translated_reduce_spec.
Print Assumptions C05_translated_sumup.
Print Assumptions C05_flatten_dfs.
Print Assumptions C05_col_len.
Print Assumptions C05_format_src_inputs.
Print Assumptions C05_translated_format_obj_input_is_model.
Print Assumptions C05_translated_format_src_inputs_is_model.
Print Assumptions C05_translated_format_src_inputs_dfs.
Print Assumptions C05_collection_is_one_entry.
Print Assumptions C05_getBH_nodes.
Print Assumptions C05_entry_is_sum_over_leaves.
Print Assumptions C05_sumup_spec.
Print Assumptions C05_sumup_elements.
Print Assumptions C05_sumup_elements_agg.
Print Assumptions C05_sumup_is_one_collection.
Print Assumptions C05_collection_is_sum_of_leaves.

(* ---- linear in the excitation, over R (total division: no side conditions; every branch
   condition of these cores is independent of the excitation).  _partial: only the cores modelled
   in CoreModel.v (dipole, sphere, polyline segment, circle on the modelled branches); cuboid,
   cylinder, cylinder segment, triangle, tetrahedron, mesh and the general circle branch are
   covered by the numerical search only. *)
Open Scope R_scope.

Theorem C05_linear_in_excitation_partial_dipole : forall (f : CoreModel.field) (mu0 : R) (o m1 m2 : RV3) (a b : R),
  CoreModel.dipole_BH NumR f mu0 o (lin a b m1 m2)
  = lin a b (CoreModel.dipole_BH NumR f mu0 o m1) (CoreModel.dipole_BH NumR f mu0 o m2).
Proof. exact dipole_linear. Qed.

Theorem C05_linear_in_excitation_partial_sphere : forall (f : CoreModel.field) (mu0 : R) (o : RV3) (d : R) (P1 P2 : RV3) (a b : R),
  CoreModel.sphere_BH NumR f mu0 o d (lin a b P1 P2)
  = lin a b (CoreModel.sphere_BH NumR f mu0 o d P1) (CoreModel.sphere_BH NumR f mu0 o d P2).
Proof. exact sphere_linear. Qed.

Theorem C05_linear_in_excitation_partial_polyline : forall (f : CoreModel.field) (mu0 : R) (o p1 p2 : RV3) (i1 i2 a b : R),
  CoreModel.polyline_BH NumR f mu0 o p1 p2 (a * i1 + b * i2)
  = lin a b (CoreModel.polyline_BH NumR f mu0 o p1 p2 i1) (CoreModel.polyline_BH NumR f mu0 o p1 p2 i2).
Proof. exact polyline_linear. Qed.

Theorem C05_linear_in_excitation_partial_circle : forall (f : CoreModel.field) (mu0 : R) (o : RV3) (d i1 i2 a b : R),
  CoreModel.circle_BH NumR f mu0 o d (a * i1 + b * i2)
  = match CoreModel.circle_BH NumR f mu0 o d i1, CoreModel.circle_BH NumR f mu0 o d i2 with
    | Some h1, Some h2 => Some (lin a b h1 h2)
    | _, _ => None
    end.
Proof. exact circle_linear. Qed.

Print Assumptions C05_linear_in_excitation_partial_dipole.
Print Assumptions C05_linear_in_excitation_partial_sphere.
Print Assumptions C05_linear_in_excitation_partial_polyline.
Print Assumptions C05_linear_in_excitation_partial_circle.

(* ---- the BHJM_* wrappers (Model/WrapModel.v, builder C02's line-by-line models, parametric in the core)
   preserve linearity in the polarization, in ANY field with a sound boolean equality: IF the class's core is
   linear in the polarization, THEN B, H, J and M of the wrapper are.  The `pol == 0` shortcuts of the real code
   (cuboid: mask_pol_not_null; cylinder: mask_pol_tv / mask_pol_ax / mask_pol_not_null) only skip zeros.
   WrapLinear.vlin a b u v = u*a + v*b; cub/sph/trow/tet/mrow/cyl build a row with the given polarization. *)
Section AnyField.
Import WrapModel.
Context {N : NumOps} {T : Tols}.
Notation FT := (Field_theory.field_theory f0 f1 fadd fmul fsub fopp fdiv finv (@eq F)).
Notation vlin := WrapLinear.vlin.

Theorem C05_wrapper_linear_cuboid : FT -> (forall x y : F, feqb x y = true -> x = y) ->
  forall (core : cub_row -> vec) (o d : vec),
  (forall a b p1 p2, core (WrapLinear.cub o d (vlin a b p1 p2))
                     = vlin a b (core (WrapLinear.cub o d p1)) (core (WrapLinear.cub o d p2))) ->
  forall (mu0 : F) (f : fld) (a b : F) (p1 p2 : vec),
  bhjm_cuboid core mu0 f (WrapLinear.cub o d (vlin a b p1 p2))
  = vlin a b (bhjm_cuboid core mu0 f (WrapLinear.cub o d p1)) (bhjm_cuboid core mu0 f (WrapLinear.cub o d p2)).
Proof. exact (@WrapLinear.cuboid_wrapper_linear N T). Qed.

Theorem C05_wrapper_linear_sphere : FT ->
  forall (o : vec) (rr dd mu0 : F) (f : fld) (a b : F) (p1 p2 : vec),
  bhjm_sphere mu0 f (WrapLinear.sph o rr dd (vlin a b p1 p2))
  = vlin a b (bhjm_sphere mu0 f (WrapLinear.sph o rr dd p1)) (bhjm_sphere mu0 f (WrapLinear.sph o rr dd p2)).
Proof. exact (@WrapLinear.sphere_wrapper_linear N). Qed.

Theorem C05_wrapper_linear_triangle : FT -> forall tricore : tri_row -> vec,
  (forall ob t a b p1 p2, tricore (WrapLinear.trow ob t (vlin a b p1 p2))
                          = vlin a b (tricore (WrapLinear.trow ob t p1)) (tricore (WrapLinear.trow ob t p2))) ->
  forall (mu0 : F) (f : fld) (ob : vec) (t : tri) (a b : F) (p1 p2 : vec),
  bhjm_triangle tricore mu0 f (WrapLinear.trow ob t (vlin a b p1 p2))
  = vlin a b (bhjm_triangle tricore mu0 f (WrapLinear.trow ob t p1)) (bhjm_triangle tricore mu0 f (WrapLinear.trow ob t p2)).
Proof. exact (@WrapLinear.triangle_wrapper_linear N). Qed.

Theorem C05_wrapper_linear_tetrahedron : FT -> forall tricore : tri_row -> vec,
  (forall ob t a b p1 p2, tricore (WrapLinear.trow ob t (vlin a b p1 p2))
                          = vlin a b (tricore (WrapLinear.trow ob t p1)) (tricore (WrapLinear.trow ob t p2))) ->
  forall (mu0 : F) (io : inout) (f : fld) (ob v0 v1 v2 v3 : vec) (a b : F) (p1 p2 : vec),
  bhjm_tetrahedron tricore mu0 io f (WrapLinear.tet ob v0 v1 v2 v3 (vlin a b p1 p2))
  = vlin a b (bhjm_tetrahedron tricore mu0 io f (WrapLinear.tet ob v0 v1 v2 v3 p1))
             (bhjm_tetrahedron tricore mu0 io f (WrapLinear.tet ob v0 v1 v2 v3 p2)).
Proof. exact (@WrapLinear.tetrahedron_wrapper_linear N). Qed.

Theorem C05_wrapper_linear_trimesh_row : FT -> forall tricore : tri_row -> vec,
  (forall ob t a b p1 p2, tricore (WrapLinear.trow ob t (vlin a b p1 p2))
                          = vlin a b (tricore (WrapLinear.trow ob t p1)) (tricore (WrapLinear.trow ob t p2))) ->
  forall (mesh_inside : list tri -> vec -> bool) (mesh_eqb : list tri -> list tri -> bool) (mu0 : F) (io : inout)
    (f : fld) (meshes : list (list tri)) (i : nat) (ob : vec) (m : list tri) (a b : F) (p1 p2 : vec),
  bhjm_trimesh_row tricore mesh_inside mesh_eqb mu0 io f meshes (i, WrapLinear.mrow ob m (vlin a b p1 p2))
  = vlin a b (bhjm_trimesh_row tricore mesh_inside mesh_eqb mu0 io f meshes (i, WrapLinear.mrow ob m p1))
             (bhjm_trimesh_row tricore mesh_inside mesh_eqb mu0 io f meshes (i, WrapLinear.mrow ob m p2)).
Proof. exact (@WrapLinear.trimesh_row_wrapper_linear N). Qed.

(* CylinderSegment: the masks read geometry only; the core (J enters through its angles) stays opaque:
   conditional on the core being linear on three rows of equal geometry *)
Theorem C05_wrapper_linear_segment_row : FT ->
  forall (segcore : seg_row -> vec) (mu0 : F) (f : fld) (any_off : bool) (r12 r1 r2 : seg_row) (a b : F),
  WrapLinear.seg_geom_eq r12 r1 -> WrapLinear.seg_geom_eq r2 r1 ->
  cs_pol r12 = vlin a b (cs_pol r1) (cs_pol r2) ->
  segcore r12 = vlin a b (segcore r1) (segcore r2) ->
  bhjm_seg_row segcore mu0 f any_off r12
  = vlin a b (bhjm_seg_row segcore mu0 f any_off r1) (bhjm_seg_row segcore mu0 f any_off r2).
Proof. exact (@WrapLinear.segment_row_wrapper_linear N T). Qed.

(* Cylinder, _partial: purely axial polarization only (the transverse part enters as
   tvcore(geometry, phi - theta) * |J_xy| with theta, |J_xy| computed before the wrapper) *)
Theorem C05_wrapper_linear_cylinder_axial_partial : FT -> (forall x y : F, feqb x y = true -> x = y) ->
  forall (tvcore axcore : F -> F -> F -> cyl_row -> vec) (g_r g_c g_s g_z g_d g_h g_dphi : F),
  (forall z0 rr z p pxy p' pxy',
     axcore z0 rr z (WrapLinear.cyl g_r g_c g_s g_z g_d g_h g_dphi p pxy)
     = axcore z0 rr z (WrapLinear.cyl g_r g_c g_s g_z g_d g_h g_dphi p' pxy')) ->
  forall (mu0 : F) (f : fld) (a b z1 z2 : F),
  bhjm_cylinder tvcore axcore mu0 f
    (WrapLinear.cyl g_r g_c g_s g_z g_d g_h g_dphi (f0, f0, fadd (fmul a z1) (fmul b z2)) f0)
  = vlin a b (bhjm_cylinder tvcore axcore mu0 f (WrapLinear.cyl g_r g_c g_s g_z g_d g_h g_dphi (f0, f0, z1) f0))
             (bhjm_cylinder tvcore axcore mu0 f (WrapLinear.cyl g_r g_c g_s g_z g_d g_h g_dphi (f0, f0, z2) f0)).
Proof. exact (@WrapLinear.cylinder_wrapper_linear_axial N T). Qed.

End AnyField.

Print Assumptions C05_wrapper_linear_cuboid.
Print Assumptions C05_wrapper_linear_sphere.
Print Assumptions C05_wrapper_linear_triangle.
Print Assumptions C05_wrapper_linear_tetrahedron.
Print Assumptions C05_wrapper_linear_trimesh_row.
Print Assumptions C05_wrapper_linear_segment_row.
Print Assumptions C05_wrapper_linear_cylinder_axial_partial.

(* ---- Cuboid, core and wrapper, over R: magnet_cuboid_Bfield assembles B from the TRANSLATED table
   Gen/GenCuboid.cuboid_contrib of contributions [-]pol_k * term_i * qsigns[k][j] / (4 pi); linear in pol for
   EVERY table, sign function q and term function t (so the hand-written octant flips / sign matrices of
   Model/CuboidCore.v carry no weight), hence for the translated ones; and with it B, H, J, M of
   BHJM_magnet_cuboid *)
Theorem C05_cuboid_core_linear : forall (tbl : list (nat * nat * bool * nat)) (q : nat -> nat -> R) (t : nat -> R)
  (a b : R) (u v : R * R * R) (j : nat),
  CuboidCore.cub_comp tbl q t (CuboidLinear.lin3 a b u v) j
  = (CuboidCore.cub_comp tbl q t u j * a + CuboidCore.cub_comp tbl q t v j * b)%R.
Proof. exact CuboidLinear.cub_comp_linear. Qed.

Theorem C05_cuboid_B_linear : forall (at2 : R -> R -> R) (obs dim : R * R * R) (a b : R) (u v : R * R * R),
  CuboidCore.cuboid_B at2 obs dim (CuboidLinear.lin3 a b u v)
  = CuboidLinear.lin3 a b (CuboidCore.cuboid_B at2 obs dim u) (CuboidCore.cuboid_B at2 obs dim v).
Proof. exact CuboidLinear.cuboid_B_linear. Qed.

Theorem C05_linear_in_excitation_cuboid : forall (T : @WrapModel.Tols CuboidCore.RWrap) (at2 : R -> R -> R) (mu0 : R)
  (f : WrapModel.fld) (o d p1 p2 : R * R * R) (a b : R),
  WrapModel.bhjm_cuboid (N := CuboidCore.RWrap) (CuboidCore.cuboid_core_row at2) mu0 f
    (WrapLinear.cub (N := CuboidCore.RWrap) o d (CuboidLinear.lin3 a b p1 p2))
  = CuboidLinear.lin3 a b
      (WrapModel.bhjm_cuboid (N := CuboidCore.RWrap) (CuboidCore.cuboid_core_row at2) mu0 f (WrapLinear.cub (N := CuboidCore.RWrap) o d p1))
      (WrapModel.bhjm_cuboid (N := CuboidCore.RWrap) (CuboidCore.cuboid_core_row at2) mu0 f (WrapLinear.cub (N := CuboidCore.RWrap) o d p2)).
Proof. exact CuboidLinear.cuboid_BHJM_linear. Qed.

Print Assumptions C05_cuboid_core_linear.
Print Assumptions C05_cuboid_B_linear.
Print Assumptions C05_linear_in_excitation_cuboid.

Example C05_cuboid_table_nonvacuous :
  forallb (fun kj : nat * nat => existsb (fun e : nat * nat * bool * nat =>
     let '(k, j, _, _) := e in Nat.eqb k (fst kj) && Nat.eqb j (snd kj)) GenCuboid.cuboid_contrib)
    [(0, 0); (0, 1); (0, 2); (1, 0); (1, 1); (1, 2); (2, 0); (2, 1); (2, 2)]%nat = true.
Proof. exact CuboidLinear.cuboid_contrib_full. Qed.
Print Assumptions C05_cuboid_table_nonvacuous.

Example C05_linear_nonvacuous : CoreModel.dipole_BH NumR CoreModel.FH 1 (1, 0, 0) (0, 0, 1) <> (0, 0, 0).
Proof. exact linear_nonvacuous. Qed.
Print Assumptions C05_linear_nonvacuous.
Close Scope R_scope.

(* non-vacuity of the level-2 part: two collections of different size followed by a bare source,
   one collection nested with a sensor inside; hypotheses hold, the tree is accepted, the entries
   are not zero, and the loop really runs (more leaves than entries) *)
Example C05_nonvacuous :
  let x1 := mkLeaf [(1, 2, 3); (0, 1, 0)]%Z [mkOct P102 false false true; oct_one] 1%nat [2%Z] in
  let x2 := mkLeaf [(0, -1, 2)]%Z [mkOct P201 true false true] 0%nat [1; -1]%Z in
  let x3 := mkLeaf [(2, 0, 0); (2, 1, 0); (2, 2, 0)]%Z [oct_one; oct_one; mkOct P021 true false false] 2%nat []%Z in
  let x4 := mkLeaf [(0, 0, 1)]%Z [oct_one] 1%nat [3%Z] in
  let s1 := mkSens [(3, 1, -2)]%Z [mkOct P120 false true true] [(0, 0, 0); (1, 0, 0)]%Z [2; 3]%nat true in
  let nodes : list (node (list Z)) :=
    [NColl [NSrc x1; NColl [NSens s1; NSrc x2]; NSrc x3]; NColl [NSrc x4; NSrc x1]; NSrc x2] in
  (forall x, In x (flat_map (dfs (list Z)) nodes) -> wf_leaf (list Z) x) /\
  Forall wf_sensor [s1] /\ wf_shapes [s1] None /\
  (forall a b : V3, xflip (v3add a b) = v3add (xflip a) (xflip b)) /\
  length (src_list (map (to_srcin (list Z)) nodes)) = 6%nat /\
  getBH_nodes (O := OctOps) (list Z) stubF oct_eqb xflip nodes [s1] None false
  = Some (spec (O := OctOps) (list Z) stubF xflip (map (to_srcin (list Z)) nodes) [s1] None) /\
  getBH_nodes (O := OctOps) (list Z) stubF oct_eqb xflip nodes [s1] None true
  <> Some [map (fun _ => [[(0, 0, 0); (0, 0, 0)]%Z]) [0; 1; 2]%nat].
Proof.
  cbv zeta. split; [|split; [|split; [|split; [|split; [|split]]]]].
  - intros x Hx. cbn [flat_map dfs app In] in Hx.
    repeat (destruct Hx as [<-|Hx]; [split; cbn; lia|]). destruct Hx.
  - repeat constructor; cbn; lia.
  - split; [|reflexivity]. intros _ s [<-|[]]. reflexivity.
  - intros [[a0 a1] a2] [[b0 b1] b2]. cbn. f_equal. f_equal. lia.
  - vm_compute. reflexivity.
  - vm_compute. reflexivity.
  - vm_compute. discriminate.
Qed.
Print Assumptions C05_nonvacuous.
