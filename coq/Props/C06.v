(* C06 -- each output element depends only on its own source, path index and observer.
   Statements only; every proof is `exact <lemma>`.  Level2Model.getBH is the hand model of
   getBH_level2 (tied by correspondence), GenBatch is translated from /repo on this run. *)
From Coq Require Import String ZArith Bool Arith List.
From MV Require Import Lib.ListZ Lib.Rigid Lib.OctZ Lib.ListIdx Model.Level2Model Model.Level2Exec
  Model.BatchModel Gen.GenBatch
  Proofs.Level2E Proofs.Level2C06 Proofs.BatchProofs Proofs.BatchInventory.
Import ListNotations.
Local Open Scope nat_scope.

Section AnyRigidAlgebra.
Context {O : RigidOps} {L : RigidLaws O}.
Variable P : Type.                          (* a source's own properties *)
Variable F : nat -> P -> V -> V.            (* row-wise field function of group `key` *)
Variable g_eqb : G -> G -> bool.
Variable flipx : V -> V.
Hypothesis g_eqb_sound : forall a b, g_eqb a b = true -> a = b.

(* the vectorised computation IS the element-by-element specification, for all inputs *)
Theorem C06_getBH_is_spec : forall (srcs : list (@srcin O P)) (sens : list sensor) agg,
  srcs <> [] -> Forall (wf_src P) srcs -> Forall wf_sensor sens -> wf_shapes sens agg ->
  getBH P F g_eqb flipx srcs sens agg false = spec P F flipx srcs sens agg.
Proof. exact (getBH_is_spec P F g_eqb flipx g_eqb_sound). Qed.

(* out[l][m][k][pix] = field of source l alone, poses of source and sensor at min(m, len-1) *)
Theorem C06_element_spec : forall (srcs : list (@srcin O P)) (sens : list sensor) l m k p dsrc dsens,
  srcs <> [] -> Forall (wf_src P) srcs -> Forall wf_sensor sens -> wf_shapes sens None ->
  l < length srcs -> m < path_len P srcs sens -> k < length sens ->
  p < length (s_pix (nth k sens dsens)) ->
  nth p (nth k (nth m (nth l (getBH P F g_eqb flipx srcs sens None false) []) []) []) vzero
  = spec_elem P F flipx (nth l srcs dsrc) m (nth k sens dsens) (nth p (s_pix (nth k sens dsens)) vzero).
Proof. exact (element_spec P F g_eqb flipx g_eqb_sound). Qed.

(* ... which is the isolated call: that source frozen at step m, one static single-pixel sensor *)
Theorem C06_element_is_single_call :
  forall (srcs : list (@srcin O P)) (sens : list sensor) l m k p dsrc dsens,
  srcs <> [] -> Forall (wf_src P) srcs -> Forall wf_sensor sens -> wf_shapes sens None ->
  l < length srcs -> m < path_len P srcs sens -> k < length sens ->
  p < length (s_pix (nth k sens dsens)) ->
  [[[[nth p (nth k (nth m (nth l (getBH P F g_eqb flipx srcs sens None false) []) []) []) vzero]]]]
  = getBH P F g_eqb flipx [freeze_src P m (nth l srcs dsrc)]
          [freeze_sensor m (nth p (s_pix (nth k sens dsens)) vzero) (nth k sens dsens)] None false.
Proof. exact (element_is_single_call P F g_eqb flipx g_eqb_sound). Qed.

(* shape (sources, path length, sensors, ...) *)
Theorem C06_shape : forall (srcs : list (@srcin O P)) (sens : list sensor) agg,
  srcs <> [] -> Forall (wf_src P) srcs -> Forall wf_sensor sens -> wf_shapes sens agg ->
  let out := getBH P F g_eqb flipx srcs sens agg false in
  length out = length srcs /\
  (forall blk, In blk out -> length blk = path_len P srcs sens) /\
  (forall blk row, In blk out -> In row blk -> length row = length sens).
Proof. exact (shape_spec P F g_eqb flipx g_eqb_sound). Qed.

(* independent of everything else in the call: other sources / sensors / pixels, the position
   in the lists (ordering), duplicates, the overall path length *)
Theorem C06_independent_of_context :
  forall (srcs1 srcs2 : list (@srcin O P)) (sens1 sens2 : list sensor) l1 l2 m k1 k2 p1 p2 dsrc dsens,
  srcs1 <> [] -> Forall (wf_src P) srcs1 -> Forall wf_sensor sens1 -> wf_shapes sens1 None ->
  srcs2 <> [] -> Forall (wf_src P) srcs2 -> Forall wf_sensor sens2 -> wf_shapes sens2 None ->
  l1 < length srcs1 -> l2 < length srcs2 -> k1 < length sens1 -> k2 < length sens2 ->
  m < path_len P srcs1 sens1 -> m < path_len P srcs2 sens2 ->
  p1 < length (s_pix (nth k1 sens1 dsens)) -> p2 < length (s_pix (nth k2 sens2 dsens)) ->
  leaves (nth l1 srcs1 dsrc) = leaves (nth l2 srcs2 dsrc) ->
  s_pos (nth k1 sens1 dsens) = s_pos (nth k2 sens2 dsens) ->
  s_ori (nth k1 sens1 dsens) = s_ori (nth k2 sens2 dsens) ->
  s_left (nth k1 sens1 dsens) = s_left (nth k2 sens2 dsens) ->
  nth p1 (s_pix (nth k1 sens1 dsens)) vzero = nth p2 (s_pix (nth k2 sens2 dsens)) vzero ->
  nth p1 (nth k1 (nth m (nth l1 (getBH P F g_eqb flipx srcs1 sens1 None false) []) []) []) vzero
  = nth p2 (nth k2 (nth m (nth l2 (getBH P F g_eqb flipx srcs2 sens2 None false) []) []) []) vzero.
Proof. exact (element_independent_of_context P F g_eqb flipx g_eqb_sound). Qed.
End AnyRigidAlgebra.

Print Assumptions C06_getBH_is_spec.
Print Assumptions C06_element_spec.
Print Assumptions C06_element_is_single_call.
Print Assumptions C06_shape.
Print Assumptions C06_independent_of_context.

(* squeeze=True only removes length-1 axes of the squeeze=False shape *)
Theorem C06_squeeze : forall L M shapes has_agg sumup,
  result_shape L M shapes has_agg sumup true
  = filter (fun n => negb (Nat.eqb n 1)) (result_shape L M shapes has_agg sumup false).
Proof. exact squeeze_spec. Qed.
Print Assumptions C06_squeeze.

(* non-vacuity: a two-source, two-sensor call on Z^3 x octahedral group satisfies the hypotheses,
   and the element theorem really computes *)
Open Scope Z_scope.
Definition ex_srcs : list xsrc :=
  [Bare (mkLeaf [(1, 0, 0); (2, 0, 0)] [oct_one; oct_one] 0%nat [3]);
   Coll [mkLeaf [(0, 1, 0)] [oct_one] 1%nat [1; 2]; mkLeaf [(0, 0, 1)] [oct_one] 0%nat [5]]].
Definition ex_sens : list xsens :=
  [mkSens [(0, 0, 0)] [oct_one] [(1, 1, 1); (2, 2, 2)] [2%nat; 3%nat] false;
   mkSens [(1, 1, 1); (1, 1, 2); (1, 1, 3)] [oct_one; oct_one; oct_one] [(0, 0, 0); (1, 0, 0)] [2%nat; 3%nat] true].
Example C06_nonvacuous :
  ex_srcs <> [] /\ Forall (wf_src (list Z)) ex_srcs /\ Forall wf_sensor ex_sens /\ wf_shapes ex_sens None /\
  xpath_len ex_srcs ex_sens = 3%nat /\
  xgetBH ex_srcs ex_sens 0 false = xspec ex_srcs ex_sens 0.
Proof.
  split; [discriminate|]. split; [repeat constructor; cbn; auto; discriminate|].
  split; [repeat constructor; cbn; auto|]. split; [|split; reflexivity].
  split; [|reflexivity]. intros _ s Hs. cbn in Hs. destruct Hs as [<-|[<-|[]]]; reflexivity.
Qed.
Close Scope Z_scope.

(* ------------------------------------------------------------------ batch-level constructs *)
(* every batch-level construct of the field modules is the reviewed one *)
Theorem C06_batch_inventory : inventory = map fst expected_inventory.
Proof. exact batch_inventory. Qed.
Print Assumptions C06_batch_inventory.

(* masked evaluation behind an `if np.any(mask)` guard is row-wise *)
Theorem C06_guarded_masked_eval : forall {A B} (g : A -> B) mask xs base,
  length xs = length mask -> length base = length mask ->
  guarded_masked_eval (map g) mask xs base = rowwise_masked g mask xs base.
Proof. exact @guarded_masked_eval_rowwise. Qed.
Theorem C06_guarded_compress : forall {A} mask (xs : list A),
  length xs = length mask -> guarded_compress mask xs = compress (map negb mask) xs.
Proof. exact @guarded_compress_neutral. Qed.
Theorem C06_all_masked_exit : forall {A B} (g : A -> B) mask0 xs base,
  length xs = length mask0 -> length base = length mask0 ->
  all_masked_exit (map g) mask0 xs base = rowwise_masked g (map negb mask0) xs base.
Proof. exact @all_masked_exit_rowwise. Qed.
Print Assumptions C06_guarded_masked_eval.
Print Assumptions C06_guarded_compress.
Print Assumptions C06_all_masked_exit.

(* TriangularMesh equal-mesh grouping with the loop bounds translated from /repo: every row's
   inside test uses that row's own mesh *)
Theorem C06_trimesh_grouping : forall {M} (meq : M -> M -> bool) (d : M),
  (forall a b, meq a b = true -> a = b) ->
  forall ms, tm_used meq d trimesh_lo trimesh_hi_off trimesh_last_off ms = ms.
Proof. exact @trimesh_groups_rowwise_gen. Qed.
Print Assumptions C06_trimesh_grouping.

(* ragged and non-ragged branches of current_vertices_field / BHJM_magnet_trimesh *)
Theorem C06_vertex_sets : forall {Obs Part Val} (core : Obs -> Part -> Val) (vsum : list Val -> Val)
  (rows : list (Obs * list Part)),
  rg_field core vsum rows = map (rg_single core vsum) rows.
Proof. exact @vertex_sets_rowwise. Qed.
Print Assumptions C06_vertex_sets.

(* celv: masked iteration = every row's own do-while loop *)
Theorem C06_celv_rowwise : forall {S} (conv : S -> bool) (step : S -> S) fuel (ss : list S),
  celv_loop conv step fuel ss = map (do_while conv step fuel) ss.
Proof. exact @masked_loop_rowwise. Qed.
(* cel (translated threshold): independent of n on rows not already converged at entry *)
Theorem C06_cel_switch_partial : forall {S} (conv : S -> bool) (step : S -> S) fuel (ss : list S),
  (forall s, In s ss -> conv s = false) ->
  cel_switch conv step cel_threshold cel_small_returns fuel ss = map (while_loop conv step fuel) ss.
Proof. exact @cel_switch_gen_partial. Qed.
Theorem C06_cel_switch_refuted :
  cel_switch toy_conv S 2 true 9 [7] <> firstn 1 (cel_switch toy_conv S 2 true 9 [7; 0]).
Proof. exact cel_switch_refuted. Qed.
(* cel_iter (translated): the size test never selects the result *)
Theorem C06_cel_iter_switch : forall {S} (conv : S -> bool) (step : S -> S) fuel (ss : list S),
  cel_iter_switch conv step cel_iter_threshold cel_iter_small_returns fuel ss = unmasked_loop conv step fuel ss.
Proof. exact @cel_iter_gen_no_size_dependence. Qed.
(* cel_iterv: all rows take the same number of steps, at least their own *)
Theorem C06_cel_iterv_partial : forall {S} (conv : S -> bool) (step : S -> S) fuel (ss : list S),
  exists N, N <= fuel /\ unmasked_loop conv step fuel ss = map (iter step N) ss /\
    forall s, In s ss -> exists n, n <= N /\ while_loop conv step fuel s = iter step n s.
Proof. exact @unmasked_loop_partial. Qed.
Theorem C06_cel_iterv_refuted :
  unmasked_loop toy_conv S 9 [5] <> firstn 1 (unmasked_loop toy_conv S 9 [5; 0]).
Proof. exact unmasked_loop_refuted. Qed.
Print Assumptions C06_celv_rowwise.
Print Assumptions C06_cel_switch_partial.
Print Assumptions C06_cel_switch_refuted.
Print Assumptions C06_cel_iter_switch.
Print Assumptions C06_cel_iterv_partial.
Print Assumptions C06_cel_iterv_refuted.

(* CylinderSegment wrapper: B and H are row-wise.  J and M are row-wise iff the translated flags
   say that the all-on-surface exit does not precede their branch or that the branch zeroes the
   on-surface rows too; otherwise (the tree as it is while the finding is open) they are refuted *)
Theorem C06_cylseg_BH : forall {W} (wzero : W) wadd mul_mu0 div_mu0 e1 e2 z1 z2 f (rows : list csrow),
  f = FB \/ f = FH ->
  cylseg wzero wadd mul_mu0 div_mu0 e1 e2 z1 z2 f rows
  = flat_map (fun r => cylseg wzero wadd mul_mu0 div_mu0 e1 e2 z1 z2 f [r]) rows.
Proof. exact @cylseg_BH_rowwise. Qed.
Theorem C06_cylseg_JM : forall {W} (wzero : W) wadd mul_mu0 div_mu0 f (rows : list csrow),
  div_mu0 wzero = wzero ->
  (f = FJ /\ jm_rowwise_flag cylseg_exit_before_J cylseg_J_zero_on_surface = true) \/
  (f = FM /\ jm_rowwise_flag cylseg_exit_before_M cylseg_M_zero_on_surface = true) ->
  let cs := cylseg wzero wadd mul_mu0 div_mu0 cylseg_exit_before_J cylseg_exit_before_M
                   cylseg_J_zero_on_surface cylseg_M_zero_on_surface in
  cs f rows = flat_map (fun r => cs f [r]) rows.
Proof. exact @cylseg_JM_gen_rowwise. Qed.
Theorem C06_cylseg_J_refuted :
  jm_rowwise_flag cylseg_exit_before_J cylseg_J_zero_on_surface = false ->
  zcyl_gen FJ [surf_row; far_row] <> flat_map (fun r => zcyl_gen FJ [r]) [surf_row; far_row].
Proof. exact cylseg_J_gen_refuted. Qed.
Theorem C06_cylseg_M_refuted :
  jm_rowwise_flag cylseg_exit_before_M cylseg_M_zero_on_surface = false ->
  zcyl_gen FM [surf_row; far_row] <> flat_map (fun r => zcyl_gen FM [r]) [surf_row; far_row].
Proof. exact cylseg_M_gen_refuted. Qed.
(* which of the two is live on this run *)
Definition C06_cylseg_JM_status :=
  Eval vm_compute in (jm_rowwise_flag cylseg_exit_before_J cylseg_J_zero_on_surface,
                      jm_rowwise_flag cylseg_exit_before_M cylseg_M_zero_on_surface).
Print C06_cylseg_JM_status.
Print Assumptions C06_cylseg_BH.
Print Assumptions C06_cylseg_JM.
Print Assumptions C06_cylseg_J_refuted.
Print Assumptions C06_cylseg_M_refuted.

(* ------------------------------------------------------------------ translated data-flow arithmetic
   (Gen/GenL2Arith.v is regenerated from field_wrap_BH.py on every run) *)
From MV Require Import Model.L2Arith Gen.GenL2Arith Proofs.L2ArithProofs.
Open Scope string_scope.

(* every index / shape / tiling / axis / slice expression of get_src_dict, tile_group_property,
   getBH_level1 and _getBH_level2 is the reviewed one *)
Theorem C06_model_uses_translated_arith : arith = expected_arith.
Proof. exact model_uses_translated_arith. Qed.

(* n_pix = int(n_pp / max_path_len) evaluates to the model's n_pp / M *)
Theorem C06_n_pix_translated : forall n_pp M : nat,
  ev (bind "n_pp" (Z.of_nat n_pp) (bind "max_path_len" (Z.of_nat M) env0)) lenv0
     (get "_getBH_level2" "assign" "n_pix" 0 arith) = (n_pp / M)%nat.
Proof. exact n_pix_translated. Qed.

(* path tiling: (max_path_len - m0) copies of pose [-1], appended after the original path *)
Theorem C06_tile_path_translated : forall {A} (d : A) (M : nat) (p : list A),
  sub_idx (arg 0 (get "_getBH_level2" "assign" "tile_pos" 0 arith)) = PInt (-1) /\
  arg 1 (get "_getBH_level2" "assign" "tile_pos" 0 arith) = PTuple [PName "m_tile"; PInt 1] /\
  arg 0 (get "_getBH_level2" "assign" "obj._position" 0 arith)
    = PTuple [PAttr (PName "obj") "_position"; PName "tile_pos"] /\
  tile_path d M p
  = (p ++ repeat (last p d)
       (ev (bind "max_path_len" (Z.of_nat M) (bind "m0" (Z.of_nat (List.length p)) env0)) lenv0
           (get "_getBH_level2" "assign" "m_tile" 0 arith)))%list.
Proof. exact @tile_path_translated. Qed.

(* the collection step of the model uses exactly the translated slice bounds *)
Theorem C06_reduce_step_translated : forall {O : RigidOps} (P : Type)
    (ls : list (@leaf O P)) (rest : list (@srcin O P)) (i : nat) (B : list block),
  let e_sum := get "_getBH_level2" "assign" "B[src_ind]" 0 arith in
  let e_del := get "_getBH_level2" "assign" "B" 1 arith in
  let env := bind "src_ind" (Z.of_nat i) (bind "col_len" (Z.of_nat (List.length ls)) env0) in
  let lo1 := ev env lenv0 (lo_of (sub_idx (arg 0 e_sum))) in
  let hi1 := ev env lenv0 (hi_of (sub_idx (arg 0 e_sum))) in
  let lo2 := ev env lenv0 (lo_of (arg 1 e_del)) in
  let hi2 := ev env lenv0 (hi_of (arg 1 e_del)) in
  kwarg "axis" e_sum = PInt 0 /\ arg 2 e_del = PInt 0 /\ arg 0 e_del = PName "B" /\
  reduce_loop P (Coll ls :: rest) i B
  = reduce_loop P rest (S i)
      (delete_range lo2 hi2 (set_nth i (sum_blocks (firstn (hi1 - lo1) (skipn lo1 B))) B)).
Proof. exact @reduce_step_translated. Qed.
Print Assumptions C06_model_uses_translated_arith.
Print Assumptions C06_n_pix_translated.
Print Assumptions C06_tile_path_translated.
Print Assumptions C06_reduce_step_translated.

(* ------------------------------------------------------------------ the physical instance: V = R^3,
   G = SO(3) (Lib/RigidR3.v): the element theorem for real positions, real rotations and any
   row-wise real field function *)
From MV Require Lib.RigidR3.
Theorem C06_element_spec_R3 : forall (P : Type) (F : nat -> P -> RigidR3.V3 -> RigidR3.V3)
    (g_eqb : RigidR3.SO3 -> RigidR3.SO3 -> bool) (flipx : RigidR3.V3 -> RigidR3.V3),
  (forall a b, g_eqb a b = true -> a = b) ->
  forall (srcs : list (@srcin RigidR3.R3Ops P)) (sens : list (@sensor RigidR3.R3Ops)) l m k p dsrc dsens,
  srcs <> [] -> Forall (wf_src (O := RigidR3.R3Ops) P) srcs -> Forall wf_sensor sens -> wf_shapes sens None ->
  (l < List.length srcs)%nat -> (m < path_len (O := RigidR3.R3Ops) P srcs sens)%nat -> (k < List.length sens)%nat ->
  (p < List.length (s_pix (nth k sens dsens)))%nat ->
  nth p (nth k (nth m (nth l (getBH (O := RigidR3.R3Ops) P F g_eqb flipx srcs sens None false) []) []) []) RigidR3.v3zero
  = spec_elem (O := RigidR3.R3Ops) P F flipx (nth l srcs dsrc) m (nth k sens dsens) (nth p (s_pix (nth k sens dsens)) RigidR3.v3zero).
Proof. exact (@C06_element_spec RigidR3.R3Ops RigidR3.R3Laws). Qed.
Print Assumptions C06_element_spec_R3.
