(* C04 -- a Sensor reports the global field at its pixels, in its own frame; pixel_agg reduces over
   each sensor's own pixels.  Statements only; every proof is `exact <lemma>`.
   Level2Model.getBH is the hand model of getBH_level2 (tied by correspondence). *)
From Coq Require Import ZArith Bool Arith List.
From MV Require Import Lib.ListZ Lib.Rigid Lib.OctZ Lib.ListIdx Model.Level2Model Model.Level2Exec
  Proofs.Level2D Proofs.Level2E Proofs.Level2C06.
Import ListNotations.
Local Open Scope nat_scope.

Section AnyRigidAlgebra.
Context {O : RigidOps} {L : RigidLaws O}.
Variable P : Type.
Variable F : nat -> P -> V -> V.
Variable g_eqb : G -> G -> bool.            (* the quaternion comparison behind the fast-path flags *)
Variable flipx : V -> V.                    (* B[..., 0] *= -1 *)
Hypothesis g_eqb_sound : forall a b, g_eqb a b = true -> a = b.

(* out[l][m][k][pix] = hand_k ( R_k(m^)^-1 . Bglobal_l(m, R_k(m^) . pix + P_k(m^)) ),  m^ = m
   clipped to the sensor's own path; any number of sensors, any pixel layouts, any path kinds *)
Theorem C04_sensor_spec : forall (srcs : list (@srcin O P)) (sens : list sensor) l m k p dsrc dsens,
  srcs <> [] -> Forall (wf_src P) srcs -> Forall wf_sensor sens -> wf_shapes sens None ->
  l < length srcs -> m < path_len P srcs sens -> k < length sens ->
  p < length (s_pix (nth k sens dsens)) ->
  let s := nth k sens dsens in
  let Rm := clip_nth gone (s_ori s) m in
  let Pm := clip_nth vzero (s_pos s) m in
  let w := act (ginv Rm) (global_field P F (nth l srcs dsrc) m (vadd (act Rm (nth p (s_pix s) vzero)) Pm)) in
  nth p (nth k (nth m (nth l (getBH P F g_eqb flipx srcs sens None false) []) []) []) vzero
  = if s_left s then flipx w else w.
Proof. exact (sensor_spec P F g_eqb flipx g_eqb_sound). Qed.

(* observe_at: the same number as with the pixel's explicit global position as observer,
   expressed in the sensor's axes *)
Theorem C04_sensor_vs_positions :
  forall (srcs : list (@srcin O P)) (sens : list sensor) l m k p dsrc dsens,
  srcs <> [] -> Forall (wf_src P) srcs -> Forall wf_sensor sens -> wf_shapes sens None ->
  l < length srcs -> m < path_len P srcs sens -> k < length sens ->
  p < length (s_pix (nth k sens dsens)) ->
  let s := nth k sens dsens in
  let o := pixel_point s m (nth p (s_pix s) vzero) in
  nth p (nth k (nth m (nth l (getBH P F g_eqb flipx srcs sens None false) []) []) []) vzero
  = sensor_view flipx s m (spec_elem P F flipx (nth l srcs dsrc) m (pos_sensor [o] [1; 3]) o).
Proof. exact (sensor_vs_positions P F g_eqb flipx g_eqb_sound). Qed.

(* the three back-rotation code paths (unrotated / static orientation / rotating path, flags taken
   before tiling, orientations after) all are "inverse of the sensor's own clipped orientation" *)
Theorem C04_three_branches : forall M (s : sensor) m v,
  wf_sensor s -> length (s_pos s) <= M -> 1 <= M -> m < M ->
  mv g_eqb flipx s (tile_sensor M s) m v = sensor_view flipx s m v.
Proof. exact (mv_is_view g_eqb flipx g_eqb_sound). Qed.

(* a left-handed sensor differs from the same right-handed one by the x flip only *)
Theorem C04_handedness : forall (src : @srcin O P) m (s : sensor) pix,
  spec_elem P F flipx src m (set_left true s) pix
  = flipx (spec_elem P F flipx src m (set_left false s) pix).
Proof. exact (handedness_spec P F flipx). Qed.

(* pixel_agg: out[l][m][k] = agg over sensor k's own pixels, also for different pixel shapes
   (wf_shapes with an aggregator puts no constraint on the shapes) *)
Theorem C04_agg_spec : forall (srcs : list (@srcin O P)) (sens : list sensor) (a : list V -> V) l m k dsrc dsens,
  srcs <> [] -> Forall (wf_src P) srcs -> Forall wf_sensor sens -> wf_shapes sens (Some a) ->
  l < length srcs -> m < path_len P srcs sens -> k < length sens ->
  nth k (nth m (nth l (getBH P F g_eqb flipx srcs sens (Some a) false) []) []) []
  = [a (map (spec_elem P F flipx (nth l srcs dsrc) m (nth k sens dsens)) (s_pix (nth k sens dsens)))].
Proof. exact (agg_spec P F g_eqb flipx g_eqb_sound). Qed.

(* the split of the flat pixel axis at the cumulative indices pix_inds gives every sensor exactly
   its own pixels, with equal shapes (reshape) and with different ones (np.split) *)
Theorem C04_pixel_partition : forall (sens : list sensor) (vals : sensor -> list V),
  (forall s, In s sens -> length (vals s) = length (s_pix s)) ->
  (all_same (map s_shape sens) = true ->
     forall s, In s sens -> length (s_pix s) = length (s_pix (hd s sens))) ->
  (if all_same (map s_shape sens)
   then chunks (hd 0 (map (fun s => length (s_pix s)) sens)) (length sens)
   else split_lens (map (fun s => length (s_pix s)) sens)) (flat_map vals sens)
  = map vals sens.
Proof. exact shape_row_split. Qed.
End AnyRigidAlgebra.

Print Assumptions C04_sensor_spec.
Print Assumptions C04_sensor_vs_positions.
Print Assumptions C04_three_branches.
Print Assumptions C04_handedness.
Print Assumptions C04_agg_spec.
Print Assumptions C04_pixel_partition.

(* non-vacuity: three sensors with different pixel shapes (none / (2,3) / (2,2,3)), static,
   translating and rotating paths, one left-handed, with an aggregator: hypotheses hold and the
   model equals the specification *)
Open Scope Z_scope.
Definition r90 := mkOct P102 true false false.
Definition ex4_srcs : list xsrc :=
  [Bare (mkLeaf [(1, 0, 0); (2, 0, 0)] [oct_one; r90] 0%nat [3]); Bare (mkLeaf [(0, 2, 0)] [r90] 2%nat [1; 1])].
Definition ex4_sens : list xsens :=
  [mkSens [(0, 0, 0)] [r90] [(0, 0, 0)] [1%nat; 3%nat] false;
   mkSens [(1, 1, 1); (1, 1, 2); (1, 1, 3)] [r90; r90; r90] [(0, 0, 1); (1, 0, 0)] [2%nat; 3%nat] true;
   mkSens [(0, 1, 0); (0, 2, 0)] [oct_one; r90] [(1, 1, 0); (1, 0, 0); (0, 1, 0); (0, 0, 2)] [2%nat; 2%nat; 3%nat] false].
Example C04_nonvacuous :
  ex4_srcs <> [] /\ Forall (wf_src (list Z)) ex4_srcs /\ Forall wf_sensor ex4_sens /\
  wf_shapes ex4_sens (agg_of 1) /\ all_same (map (@s_shape OctOps) ex4_sens) = false /\
  xgetBH ex4_srcs ex4_sens 1 false = xspec ex4_srcs ex4_sens 1 /\
  unrotated oct_eqb (nth 0 ex4_sens (mkSens [] [] [] [] false)) = false /\
  static_rot oct_eqb (nth 1 ex4_sens (mkSens [] [] [] [] false)) = true /\
  static_rot oct_eqb (nth 2 ex4_sens (mkSens [] [] [] [] false)) = false.
Proof.
  split; [discriminate|]. split; [repeat constructor; cbn; auto; discriminate|].
  split; [repeat constructor; cbn; auto|].
  split; [split; [intros H; vm_compute in H; discriminate|intros H; vm_compute in H; discriminate]|].
  repeat split; reflexivity.
Qed.
