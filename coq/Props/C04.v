(* C04 -- a Sensor reports the global field at its pixels, in its own frame; pixel_agg reduces over
   each sensor's own pixels.  Statements only; every proof is `exact <lemma>`.
   Level2Model.getBH is the hand model of getBH_level2 (tied by correspondence). *)
From Coq Require Import ZArith Bool Arith List.
From MV Require Import Lib.ListZ Lib.Rigid Lib.OctZ Lib.ListIdx Model.Level2Model Model.Level2Exec
  Proofs.Level2D Proofs.Level2E Proofs.Level2C06.
Import ListNotations.
Local Open Scope nat_scope.

Section AnyRigidAlgebra.
Context {O : RigidOps} {L : RigidLaws O}.
Variable P : Type.
Variable F : nat -> P -> V -> V.
Variable g_eqb : G -> G -> bool.            (* the quaternion comparison behind the fast-path flags *)
Variable flipx : V -> V.                    (* B[..., 0] *= -1 *)
Hypothesis g_eqb_sound : forall a b, g_eqb a b = true -> a = b.

(* out[l][m][k][pix] = hand_k ( R_k(m^)^-1 . Bglobal_l(m, R_k(m^) . pix + P_k(m^)) ),  m^ = m
   clipped to the sensor's own path; any number of sensors, any pixel layouts, any path kinds *)
Theorem C04_sensor_spec : forall (srcs : list (@srcin O P)) (sens : list sensor) l m k p dsrc dsens,
  srcs <> [] -> Forall (wf_src P) srcs -> Forall wf_sensor sens -> wf_shapes sens None ->
  l < length srcs -> m < path_len P srcs sens -> k < length sens ->
  p < length (s_pix (nth k sens dsens)) ->
  let s := nth k sens dsens in
  let Rm := clip_nth gone (s_ori s) m in
  let Pm := clip_nth vzero (s_pos s) m in
  let w := act (ginv Rm) (global_field P F (nth l srcs dsrc) m (vadd (act Rm (nth p (s_pix s) vzero)) Pm)) in
  nth p (nth k (nth m (nth l (getBH P F g_eqb flipx srcs sens None false) []) []) []) vzero
  = if s_left s then flipx w else w.
Proof. exact (sensor_spec P F g_eqb flipx g_eqb_sound). Qed.

(* observe_at: the same number as with the pixel's explicit global position as observer,
   expressed in the sensor's axes *)
Theorem C04_sensor_vs_positions :
  forall (srcs : list (@srcin O P)) (sens : list sensor) l m k p dsrc dsens,
  srcs <> [] -> Forall (wf_src P) srcs -> Forall wf_sensor sens -> wf_shapes sens None ->
  l < length srcs -> m < path_len P srcs sens -> k < length sens ->
  p < length (s_pix (nth k sens dsens)) ->
  let s := nth k sens dsens in
  let o := pixel_point s m (nth p (s_pix s) vzero) in
  nth p (nth k (nth m (nth l (getBH P F g_eqb flipx srcs sens None false) []) []) []) vzero
  = sensor_view flipx s m (spec_elem P F flipx (nth l srcs dsrc) m (pos_sensor [o] [1; 3]) o).
Proof. exact (sensor_vs_positions P F g_eqb flipx g_eqb_sound). Qed.

(* the three back-rotation code paths (unrotated / static orientation / rotating path, flags taken
   before tiling, orientations after) all are "inverse of the sensor's own clipped orientation" *)
Theorem C04_three_branches : forall M (s : sensor) m v,
  wf_sensor s -> length (s_pos s) <= M -> 1 <= M -> m < M ->
  mv g_eqb flipx s (tile_sensor M s) m v = sensor_view flipx s m v.
Proof. exact (mv_is_view g_eqb flipx g_eqb_sound). Qed.

(* a left-handed sensor differs from the same right-handed one by the x flip only *)
Theorem C04_handedness : forall (src : @srcin O P) m (s : sensor) pix,
  spec_elem P F flipx src m (set_left true s) pix
  = flipx (spec_elem P F flipx src m (set_left false s) pix).
Proof. exact (handedness_spec P F flipx). Qed.

(* pixel_agg: out[l][m][k] = agg over sensor k's own pixels, also for different pixel shapes
   (wf_shapes with an aggregator puts no constraint on the shapes) *)
Theorem C04_agg_spec : forall (srcs : list (@srcin O P)) (sens : list sensor) (a : list V -> V) l m k dsrc dsens,
  srcs <> [] -> Forall (wf_src P) srcs -> Forall wf_sensor sens -> wf_shapes sens (Some a) ->
  l < length srcs -> m < path_len P srcs sens -> k < length sens ->
  nth k (nth m (nth l (getBH P F g_eqb flipx srcs sens (Some a) false) []) []) []
  = [a (map (spec_elem P F flipx (nth l srcs dsrc) m (nth k sens dsens)) (s_pix (nth k sens dsens)))].
Proof. exact (agg_spec P F g_eqb flipx g_eqb_sound). Qed.

(* the split of the flat pixel axis at the cumulative indices pix_inds gives every sensor exactly
   its own pixels, with equal shapes (reshape) and with different ones (np.split) *)
Theorem C04_pixel_partition : forall (sens : list sensor) (vals : sensor -> list V),
  (forall s, In s sens -> length (vals s) = length (s_pix s)) ->
  (all_same (map s_shape sens) = true ->
     forall s, In s sens -> length (s_pix s) = length (s_pix (hd s sens))) ->
  (if all_same (map s_shape sens)
   then chunks (hd 0 (map (fun s => length (s_pix s)) sens)) (length sens)
   else split_lens (map (fun s => length (s_pix s)) sens)) (flat_map vals sens)
  = map vals sens.
Proof. exact shape_row_split. Qed.
End AnyRigidAlgebra.

Print Assumptions C04_sensor_spec.
Print Assumptions C04_sensor_vs_positions.
Print Assumptions C04_three_branches.
Print Assumptions C04_handedness.
Print Assumptions C04_agg_spec.
Print Assumptions C04_pixel_partition.

(* non-vacuity: three sensors with different pixel shapes (none / (2,3) / (2,2,3)), static,
   translating and rotating paths, one left-handed, with an aggregator: hypotheses hold and the
   model equals the specification *)
Open Scope Z_scope.
Definition r90 := mkOct P102 true false false.
Definition ex4_srcs : list xsrc :=
  [Bare (mkLeaf [(1, 0, 0); (2, 0, 0)] [oct_one; r90] 0%nat [3]); Bare (mkLeaf [(0, 2, 0)] [r90] 2%nat [1; 1])].
Definition ex4_sens : list xsens :=
  [mkSens [(0, 0, 0)] [r90] [(0, 0, 0)] [1%nat; 3%nat] false;
   mkSens [(1, 1, 1); (1, 1, 2); (1, 1, 3)] [r90; r90; r90] [(0, 0, 1); (1, 0, 0)] [2%nat; 3%nat] true;
   mkSens [(0, 1, 0); (0, 2, 0)] [oct_one; r90] [(1, 1, 0); (1, 0, 0); (0, 1, 0); (0, 0, 2)] [2%nat; 2%nat; 3%nat] false].
Example C04_nonvacuous :
  ex4_srcs <> [] /\ Forall (wf_src (list Z)) ex4_srcs /\ Forall wf_sensor ex4_sens /\
  wf_shapes ex4_sens (agg_of 1) /\ all_same (map (@s_shape OctOps) ex4_sens) = false /\
  xgetBH ex4_srcs ex4_sens 1 false = xspec ex4_srcs ex4_sens 1 /\
  unrotated oct_eqb (nth 0 ex4_sens (mkSens [] [] [] [] false)) = false /\
  static_rot oct_eqb (nth 1 ex4_sens (mkSens [] [] [] [] false)) = true /\
  static_rot oct_eqb (nth 2 ex4_sens (mkSens [] [] [] [] false)) = false.
Proof.
  split; [discriminate|]. split; [repeat constructor; cbn; auto; discriminate|].
  split; [repeat constructor; cbn; auto|].
  split; [split; [intros H; vm_compute in H; discriminate|intros H; vm_compute in H; discriminate]|].
  repeat split; reflexivity.
Qed.

(* ------------------------------------------------------------------ translated index arithmetic
   (Gen/GenL2Arith.v is regenerated from field_wrap_BH.py on every run) *)
Close Scope Z_scope.
From Coq Require Import String.
From MV Require Import Model.L2Arith Gen.GenL2Arith Proofs.L2ArithProofs.
Open Scope string_scope.

Theorem C04_model_uses_translated_arith : arith = expected_arith.
Proof. exact model_uses_translated_arith. Qed.

(* pix_inds = np.cumsum([0] + pix_nums), pix_slice = slice(pix_inds[k], pix_inds[k + 1]): the loop of
   the source over these slices is the model's rotate_sensors with its running offsets *)
Theorem C04_pix_slices_translated : forall {O : RigidOps} (g_eqb : G -> G -> bool) (flipx : V -> V)
    (ss : list (sensor * sensor)) (B : list block),
  get "_getBH_level2" "assign" "pix_inds" 0 arith
    = PCall (PAttr (PName "np") "cumsum") [PBin "+" (PList [PInt 0]) (PName "pix_nums")] [] /\
  rotate_idx g_eqb flipx (cumsum_from 0 (map (fun p => List.length (s_pix (snd p))) ss)) ss 0 B
  = rotate_sensors g_eqb flipx ss 0 B.
Proof. exact @pix_slices_translated. Qed.

(* pixel_agg over axis=tuple(range(3 - B.ndim, -1)) = all pixel axes 3 .. ndim-2 *)
Theorem C04_agg_axes_translated : forall nd : nat, (4 <= nd)%nat ->
  kwarg "axis" (get "_getBH_level2" "assign" "B" 3 arith) = PCall (PName "tuple") [e_agg_range] [] /\
  (exists lo hi, e_agg_range = PCall (PName "range") [lo; hi] [] /\
     evalZ (bind "B.ndim" (Z.of_nat nd) env0) lenv0 lo = Some (3 - Z.of_nat nd)%Z /\
     evalZ env0 lenv0 hi = Some (-1)%Z) /\
  norm_axes (Z.of_nat nd) (3 - Z.of_nat nd) (-1) = seq 3 (nd - 4).
Proof. exact agg_axes_translated. Qed.

(* np.split(B, pix_inds[1:-1], axis=2) gives every sensor its own pixel block *)
Theorem C04_split_translated : forall {A} (nums : list nat) (l : list A),
  nums <> [] -> List.length l = fold_right Nat.add 0%nat nums ->
  arg 1 (get "_getBH_level2" "assign" "Bsplit" 0 arith)
    = PSub (PName "pix_inds") (PSlice (Some (PInt 1)) (Some (PInt (-1)))) /\
  kwarg "axis" (get "_getBH_level2" "assign" "Bsplit" 0 arith) = PInt 2 /\
  np_split (py_slice 1 (-1) (cumsum_from 0 nums)) l = split_lens nums l.
Proof. exact @split_translated. Qed.
Print Assumptions C04_model_uses_translated_arith.
Print Assumptions C04_pix_slices_translated.
Print Assumptions C04_agg_axes_translated.
Print Assumptions C04_split_translated.

(* ------------------------------------------------------------------ the physical instance: V = R^3,
   G = SO(3) (Lib/RigidR3.v) *)
From MV Require Lib.RigidR3.
Theorem C04_sensor_spec_R3 : forall (P : Type) (F : nat -> P -> RigidR3.V3 -> RigidR3.V3)
    (g_eqb : RigidR3.SO3 -> RigidR3.SO3 -> bool) (flipx : RigidR3.V3 -> RigidR3.V3),
  (forall a b, g_eqb a b = true -> a = b) ->
  forall (srcs : list (@srcin RigidR3.R3Ops P)) (sens : list (@sensor RigidR3.R3Ops)) l m k p dsrc dsens,
  srcs <> [] -> Forall (wf_src (O := RigidR3.R3Ops) P) srcs -> Forall wf_sensor sens -> wf_shapes sens None ->
  (l < List.length srcs)%nat -> (m < path_len (O := RigidR3.R3Ops) P srcs sens)%nat -> (k < List.length sens)%nat ->
  (p < List.length (s_pix (nth k sens dsens)))%nat ->
  let s := nth k sens dsens in
  let Rm := clip_nth RigidR3.so3_one (s_ori s) m in
  let Pm := clip_nth RigidR3.v3zero (s_pos s) m in
  let w := RigidR3.so3_act (RigidR3.so3_inv Rm)
             (global_field (O := RigidR3.R3Ops) P F (nth l srcs dsrc) m
                (RigidR3.v3add (RigidR3.so3_act Rm (nth p (s_pix s) RigidR3.v3zero)) Pm)) in
  nth p (nth k (nth m (nth l (getBH (O := RigidR3.R3Ops) P F g_eqb flipx srcs sens None false) []) []) []) RigidR3.v3zero
  = if s_left s then flipx w else w.
Proof. exact (@C04_sensor_spec RigidR3.R3Ops RigidR3.R3Laws). Qed.
Print Assumptions C04_sensor_spec_R3.
