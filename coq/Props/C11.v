(* C11 -- the collection tree stays a consistent forest under any history.
   Statements only; every proof is `exact <lemma>`.

   Model: Model/ForestModel.v (a store of objects indexed by creation order; `step` mirrors, with
   the order of effects and exits of the Python code, BaseCollection.add / remove / the four list
   setters / __init__, BaseGeo.parent / __add__ / copy).  `repaired` is the semantics of the code
   as it is now (add validates the whole argument list incl. duplicates before mutating; the list
   setters refresh the typed views before the tail add; remove looks every child up in the
   current tree) - the harness probes on every run that this is the variant in force.
   `step` returns the state AND the outcome (Ok | ErrBad | ErrOther): the theorems speak about the
   state after EVERY operation, rejected ones included. *)
From Coq Require Import List Bool Arith.
From MV Require Import Gen.GenForest Model.ForestPinned Model.ForestModel Model.ForestExec Proofs.ForestInv
  Proofs.ForestBase Proofs.ForestRm Proofs.ForestMain.
Import ListNotations.

(* Inv s (Proofs/ForestInv.v) =
     every parent is a collection of the store that lists the object exactly once
   /\ every listed child is a live object whose parent is the lister (so: at most one parent)
   /\ only collections have children
   /\ no object is its own ancestor
   /\ sources/sensors/collections are the ordered typed filters of children. *)

(* the main theorem: after every prefix of every history, whatever the outcomes *)
Theorem C11_forest_invariant : forall (h : list op) (k : nat),
  Inv (run repaired [] (firstn k h)).
Proof. exact forest_invariant. Qed.
Print Assumptions C11_forest_invariant.

(* one operation, any outcome, from any consistent state *)
Theorem C11_step_invariant : forall (s : state) (o : op),
  Inv s -> Inv (fst (step repaired s o)).
Proof. exact step_inv. Qed.
Print Assumptions C11_step_invariant.

(* at most one parent *)
Theorem C11_one_parent : forall (h : list op) (x p q : nat),
  let s := run repaired [] h in
  In x (children (get s p)) -> In x (children (get s q)) -> p = q.
Proof. exact one_parent_run. Qed.
Print Assumptions C11_one_parent.

(* no collection contains itself directly or indirectly *)
Theorem C11_no_self_containment : forall (h : list op) (c d : nat),
  ~ below (run repaired [] h) d c c.
Proof. exact no_self_containment_run. Qed.
Print Assumptions C11_no_self_containment.

(* the *_all views are the pre-order flattening of the subtree and its ordered typed filters
   (Flat is the fuel-free flattening relation; the model's flattening is fuel-bounded, the
   theorem shows that the fuel never runs out) *)
Theorem C11_all_views : forall (h : list op) (c : nat),
  let s := run repaired [] h in
  exists r, Flat s (children (get s c)) r /\ children_all s c = r /\
            sources_all s c = filter (is_k KSource s) r /\
            sensors_all s c = filter (is_k KSensor s) r /\
            collections_all s c = filter (is_k KColl s) r.
Proof. exact all_views_run. Qed.
Print Assumptions C11_all_views.

(* non-vacuity: a history that builds a tree, contains a call rejected at its second argument
   (outcome ErrBad) and leaves the first argument untouched *)
Example C11_nonvacuous :
  let h := [NewObj KSensor; NewObj KSource; Ctor [0; 1] false; NewObj KColl] in
  let s := run repaired [] h in
  snd (step repaired s (Add 3 [2; 0] false)) = ErrBad /\
  children (get s 2) = [0; 1] /\
  parent (get (fst (step repaired s (Add 3 [2; 0] false))) 2) = None /\
  parent (get (fst (step repaired s (Add 3 [2; 0] true))) 0) = Some 3.
Proof. vm_compute. repeat split. Qed.

(* the tie to the source text: the methods the model mirrors (BaseCollection.__init__/add/remove/
   _update_src_and_sens/the four setters/*_all, BaseGeo.parent/__add__/copy, rec_obj_remover,
   format_obj_input, filter_objects, check_format_input_obj) are, statement for statement, the ones the
   model was written against: Gen/GenForest.v is regenerated from /repo on every run (AST fingerprints,
   docstrings and layout ignored).  ANY edit of one of them breaks this obligation. *)
Example C11_model_pinned_to_source : forest_fingerprints = pinned_forest_fingerprints.
Proof. reflexivity. Qed.

(* ---- machine-checked record of the defects that were repaired in /repo --------------------- *)
(* magpylib 5.1.1 (all three defects): the invariant does not survive a call rejected part-way *)
Theorem C11_forest_invariant_refuted :
  exists h : list op, Inv [] /\ ~ Inv (run current [] h).
Proof. exact forest_invariant_current_refuted. Qed.
Print Assumptions C11_forest_invariant_refuted.

(* add without up-front validation (5d3ec84 reverted) *)
Theorem C11_add_refuted :
  exists h : list op, Inv [] /\ ~ Inv (run (mkVariant false true true) [] h).
Proof. exact add_variant_refuted. Qed.
Print Assumptions C11_add_refuted.

(* list setters without the refresh (6c169e0 reverted) *)
Theorem C11_views_refuted :
  exists h : list op, Inv [] /\ ~ Inv (run (mkVariant true false true) [] h).
Proof. exact setter_variant_refuted. Qed.
Print Assumptions C11_views_refuted.

(* remove with a membership list computed once (e5b2c21 reverted) *)
Theorem C11_remove_refuted :
  exists h : list op, Inv [] /\ ~ Inv (run (mkVariant true true false) [] h).
Proof. exact remove_variant_refuted. Qed.
Print Assumptions C11_remove_refuted.
