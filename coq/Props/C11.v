(* C11 -- the collection tree stays a consistent forest under any history.
   Statements only; every proof is `exact <lemma>`. *)
From Coq Require Import List Bool Arith.
From MV Require Import Model.ForestModel Model.ForestExec Proofs.ForestInv.
Import ListNotations.

(* magpylib 5.1.1 semantics: the invariant does NOT survive a call rejected part-way *)
Theorem C11_forest_invariant_refuted :
  exists h : list op, Inv [] /\ ~ Inv (run current [] h).
Proof. exact forest_invariant_current_refuted. Qed.
Print Assumptions C11_forest_invariant_refuted.
