(* C08 -- field computation never changes objects, even when it fails; calling again gives the
   identical result.  Statements only; every proof is `exact <lemma>`.
   gen_wrapper / gen_prog are the shape of getBH_level2 and the statement list of _getBH_level2 as
   TRANSLATED from /repo on this run (Gen/GenL2Flow.v); Model/Level2State.v gives them meaning. *)
From Coq Require Import ZArith List Bool Arith.
From MV Require Import Model.Level2State Model.Level2StateExec Gen.GenL2Flow
                       Proofs.Level2StateProofs Proofs.Level2StateRefuted.
Import ListNotations.

(* For every carrier of positions / orientations / attributes, every input of the call, every
   behaviour of the field functions (value / None / raise / wrong shape on the i-th invocation) and
   every failure schedule (an exception before any statement, a crash inside the tiling or the reset
   loop): the objects after the call are the objects before the call, and the same call on the
   resulting objects yields the identical outcome, value, invocation trace and state.
   `renorm` is what Rotation.from_quat does to a stored quaternion when a path is tiled (arbitrary
   function); only a wrapper whose finally keeps a slice of the tiled orientation needs the stored
   quaternions to be fixed points of it -- the wrapper translated from the current source (it puts the
   original path objects back) makes that hypothesis vacuous. *)
Theorem C08_level2_state_restored :
  forall (V Q A GV Val : Type) (dV : V) (dQ : Q) (renorm : Q -> Q) (key_of : A -> option nat)
         (dim_ok exc_ok : A -> bool)
         (pix_shape : A -> list nat) (post : list GV -> Val) (F : nat -> nat -> ginput V Q -> gres GV)
         (c : call) (sch : sched) (cnt : nat) (st : list (obj V Q A)),
    wf_store V Q A st ->
    (gen_wrapper = WFinallyTrim -> fix_store V Q A renorm st) ->
    r_store V Q A Val (getBH_level2 V Q A GV Val dV dQ renorm key_of dim_ok exc_ok pix_shape post F
                                    gen_wrapper gen_prog c sch cnt st) = st /\
    getBH_level2 V Q A GV Val dV dQ renorm key_of dim_ok exc_ok pix_shape post F gen_wrapper gen_prog c sch cnt
      (r_store V Q A Val (getBH_level2 V Q A GV Val dV dQ renorm key_of dim_ok exc_ok pix_shape post F
                                       gen_wrapper gen_prog c sch cnt st))
    = getBH_level2 V Q A GV Val dV dQ renorm key_of dim_ok exc_ok pix_shape post F gen_wrapper gen_prog c sch cnt st.
Proof.
  exact (fun V Q A GV Val dV dQ renorm key_of dim_ok exc_ok pix_shape post F c sch cnt st =>
           restored_and_repeat V Q A GV Val dV dQ renorm key_of dim_ok exc_ok pix_shape post F
                               gen_wrapper gen_prog c sch cnt st (eq_refl true)).
Qed.
Print Assumptions C08_level2_state_restored.

(* the body alone (whatever the wrapper does): attributes are never written and the old paths stay
   prefixes of the new ones at every exit *)
Theorem C08_body_only_extends_paths :
  forall (V Q A GV Val : Type) (dV : V) (dQ : Q) (renorm : Q -> Q) (key_of : A -> option nat)
         (dim_ok exc_ok : A -> bool)
         (pix_shape : A -> list nat) (post : list GV -> Val) (F : nat -> nat -> ginput V Q -> gres GV)
         (c : call) (sch : sched) (cnt : nat) (st : list (obj V Q A)),
    wf_store V Q A st ->
    let st' := r_store V Q A Val (getBH_level2 V Q A GV Val dV dQ renorm key_of dim_ok exc_ok pix_shape post F
                                               WPlain gen_prog c sch cnt st) in
    length st' = length st /\
    forall i o0, nth_error st i = Some o0 -> exists o, nth_error st' i = Some o /\ ext V Q A renorm o0 o.
Proof.
  exact (fun V Q A GV Val dV dQ renorm key_of dim_ok exc_ok pix_shape post F c sch cnt st =>
           plain_only_extends V Q A GV Val dV dQ renorm key_of dim_ok exc_ok pix_shape post F
                              gen_wrapper gen_prog c sch cnt st (eq_refl true)).
Qed.
Print Assumptions C08_body_only_extends_paths.

(* the finding repaired by commit 7b53805 stays machine-checked: the statement list of the old code
   (no `tiled`, no finally) leaves the source with a tiled path ... *)
Theorem C08_level2_state_restored_prefix_refuted :
  exists (c : call) (tab : list beh) (st : list xobj),
    wf_store XV XQ xattr st /\
    r_out XV XQ xattr (list nat) (xrun WPlain prog_prefix c no_sched tab 0 st) = Raised (list nat) EMissing /\
    r_store XV XQ xattr (list nat) (xrun WPlain prog_prefix c no_sched tab 0 st) <> st.
Proof. exact prefix_refuted_field_func_none. Qed.
Print Assumptions C08_level2_state_restored_prefix_refuted.

(* ... also when a custom field function returns None, raises or returns a wrong shape ... *)
Theorem C08_prefix_field_func_faults_refuted :
  forall b, In b [BNone; BRaise; BWrong] ->
    r_store XV XQ xattr (list nat) (xrun WPlain prog_prefix w_call no_sched [b] 0 [w_src (Some 3); w_sens])
    <> [w_src (Some 3); w_sens].
Proof. exact prefix_refuted_field_func_faults. Qed.
Print Assumptions C08_prefix_field_func_faults_refuted.

(* the finding repaired by commit e5d1a5c: if re-normalisation changes a stored quaternion, the trimming
   finally (the code between 7b53805 and e5d1a5c) returns normally with that quaternion changed; the
   restoring finally gives the store back *)
Theorem C08_trimming_finally_renorm_refuted :
  r_out XV XQ xattr (list nat) (xrun_r rn_bump WFinallyTrim prog_trim w_call no_sched [] 0 [w_src (Some 3); w_sens])
    = Returned (list nat) (Some [3]) /\
  r_store XV XQ xattr (list nat) (xrun_r rn_bump WFinallyTrim prog_trim w_call no_sched [] 0 [w_src (Some 3); w_sens])
    <> [w_src (Some 3); w_sens] /\
  r_store XV XQ xattr (list nat) (xrun_r rn_bump WFinallyRestore prog_restore w_call no_sched [] 0 [w_src (Some 3); w_sens])
    = [w_src (Some 3); w_sens].
Proof. exact trimming_finally_renorm_refuted. Qed.
Print Assumptions C08_trimming_finally_renorm_refuted.

(* the static acceptance check separates the shapes: the old statement list is rejected under every
   wrapper, each repaired body is accepted only with the finally that matches what it records *)
Theorem C08_static_check_discriminates :
  wrapper_ok WFinallyTrim prog_trim = true /\ wrapper_ok WFinallyRestore prog_restore = true /\
  wrapper_ok WPlain prog_prefix = false /\ wrapper_ok WFinallyTrim prog_prefix = false /\
  wrapper_ok WFinallyTrim prog_restore = false /\ wrapper_ok WFinallyRestore prog_trim = false.
Proof. exact shapes_accepted. Qed.
Print Assumptions C08_static_check_discriminates.

(* ... and for a crash at any of the 12 statements between the tiling loop and the reset loop *)
Theorem C08_prefix_any_crash_point_refuted :
  forall pc, In pc (seq 25 12) ->
    r_store XV XQ xattr (list nat) (xrun WPlain prog_prefix w_call (anon_at pc) [] 0 [w_src (Some 3); w_sens])
    <> [w_src (Some 3); w_sens].
Proof. exact prefix_refuted_any_crash_point. Qed.
Print Assumptions C08_prefix_any_crash_point_refuted.

(* non-vacuity: on the translated program the witness input is well-formed, the source IS tiled to two
   steps when its field function runs (trace), the call raises, and the store comes back *)
Example C08_nonvacuous :
  let st := [w_src (Some 3); w_sens] in
  let r := xrun gen_wrapper gen_prog w_call no_sched [BRaise] 0 st in
  wf_store XV XQ xattr st /\
  r_out XV XQ xattr (list nat) r = Raised (list nat) ECustom /\
  map t_plens (r_trace XV XQ xattr (list nat) r) = [[2; 2]] /\
  r_store XV XQ xattr (list nat) r = st.
Proof. split; [apply w_wf|]. vm_compute. repeat split. Qed.
