(* C03 -- fields are covariant under a rigid motion of the whole setup.
   Statements only; every proof is `exact <lemma>`.  Everything holds in ANY rigid-motion algebra
   (Lib/Rigid.v: abelian group V, group G acting additively; R^3 with SO(3) is one instance, not
   formalised; Z^3 with the signed permutation matrices is the executable one) and for ANY field
   function F of (key, own properties, local observer).  `getBH` is the model of getBH_level2
   (Model/Level2Model.v), `spec` its element-wise meaning; `move_*` (Model/Level2Move.v) apply the
   motion p -> g.p + t, R -> g*R to every path entry. *)
From Coq Require Import ZArith List Bool Lia.
From MV Require Import Lib.Rigid Lib.OctZ Lib.ListIdx Model.Level2Model Model.Level2Move
  Model.Level2Exec Gen.GenLevel1 Proofs.Level2C03.
From MV Require Lib.RigidR3.
Import ListNotations.

Section AnyRigidAlgebra.
Context {O : RigidOps} {L : RigidLaws O}.

(* getBH_level1: the pose (p, R) is honoured as "local frame placed in the global frame" *)
Theorem C03_level1_frame : forall (P : Type) (F : nat -> P -> V -> V) (k : nat) (p : V) (r : G) (o : V) (pr : P),
  level1 P F k p r o pr = act r (F k pr (act (ginv r) (vsub o p))).
Proof. exact level1_frame. Qed.

(* getBH_level1 re-translated from /repo on every run (translate/gen_level1.py, fail-closed) IS that row function *)
Theorem C03_translated_level1_is_model : forall (P : Type) (F : nat -> P -> V -> V) (k : nat) (p : V) (r : G) (o : V) (pr : P),
  gen_level1 P F k p r o pr = level1 P F k p r o pr.
Proof. exact gen_level1_is_model. Qed.

Theorem C03_level1_local_frame : forall (P : Type) (F : nat -> P -> V -> V) (k : nat) (p : V) (r : G) (x : V) (pr : P),
  level1 P F k p r (vadd (act r x) p) pr = act r (F k pr x).
Proof. exact level1_local_frame. Qed.

Theorem C03_level1_covariant : forall (P : Type) (F : nat -> P -> V -> V) (g : G) (t : V) (k : nat) (p : V) (r : G) (o : V) (pr : P),
  level1 P F k (move_pt g t p) (gmul g r) (move_pt g t o) pr = act g (level1 P F k p r o pr).
Proof. exact level1_covariant. Qed.

(* position observers: all source lists incl. collections, all paths, all g, t, with and without sumup *)
Theorem C03_level2_covariant : forall (P : Type) (F : nat -> P -> V -> V) (g_eqb : G -> G -> bool) (flipx : V -> V),
  (forall a b : G, g_eqb a b = true -> a = b) ->
  forall (g : G) (t : V) (srcs : list (srcin P)) (obs : list V) (sh : list nat) (sumup : bool),
  srcs <> [] -> Forall (wf_src P) srcs -> obs <> [] ->
  getBH P F g_eqb flipx (map (move_src P g t) srcs) [obs_sensor (map (move_pt g t) obs) sh] None sumup
  = out_act g (getBH P F g_eqb flipx srcs [obs_sensor obs sh] None sumup).
Proof. exact level2_covariant. Qed.

(* sensor form: moving sources and sensors together leaves the sensor-frame output unchanged
   (any pixel layouts, handedness, pixel aggregation, sumup) *)
Theorem C03_level2_sensor_invariant : forall (P : Type) (F : nat -> P -> V -> V) (g_eqb : G -> G -> bool) (flipx : V -> V),
  (forall a b : G, g_eqb a b = true -> a = b) ->
  forall (g : G) (t : V) (srcs : list (srcin P)) (sens : list sensor) (agg : option (list V -> V)) (sumup : bool),
  srcs <> [] -> Forall (wf_src P) srcs -> Forall wf_sensor sens -> wf_shapes sens agg ->
  getBH P F g_eqb flipx (map (move_src P g t) srcs) (map (move_sensor g t) sens) agg sumup
  = getBH P F g_eqb flipx srcs sens agg sumup.
Proof. exact level2_sensor_invariant. Qed.

(* the same two facts for the declarative element-wise specification *)
Theorem C03_spec_covariant : forall (P : Type) (F : nat -> P -> V -> V) (flipx : V -> V)
  (g : G) (t : V) (srcs : list (srcin P)) (obs : list V) (sh : list nat),
  Forall (wf_src P) srcs ->
  spec P F flipx (map (move_src P g t) srcs) [obs_sensor (map (move_pt g t) obs) sh] None
  = out_act g (spec P F flipx srcs [obs_sensor obs sh] None).
Proof. exact spec_covariant. Qed.

Theorem C03_spec_invariant : forall (P : Type) (F : nat -> P -> V -> V) (flipx : V -> V)
  (g : G) (t : V) (srcs : list (srcin P)) (sens : list sensor) (agg : option (list V -> V)),
  Forall (wf_src P) srcs -> Forall wf_sensor sens ->
  spec P F flipx (map (move_src P g t) srcs) (map (move_sensor g t) sens) agg = spec P F flipx srcs sens agg.
Proof. exact spec_invariant. Qed.

End AnyRigidAlgebra.

Print Assumptions C03_level1_frame.
Print Assumptions C03_translated_level1_is_model.
Print Assumptions C03_level1_local_frame.
Print Assumptions C03_level1_covariant.
Print Assumptions C03_level2_covariant.
Print Assumptions C03_level2_sensor_invariant.
Print Assumptions C03_spec_covariant.
Print Assumptions C03_spec_invariant.

(* ---- the instance the property is about: R^3 with SO(3) (Lib/RigidR3.v, builder C10: orthogonal matrices
   of determinant 1 acting on real triples, proved to satisfy RigidLaws).  V = R*R*R, G = SO3. *)
Theorem C03_level2_covariant_R3 : forall (P : Type) (F : nat -> P -> RigidR3.V3 -> RigidR3.V3)
  (g_eqb : RigidR3.SO3 -> RigidR3.SO3 -> bool) (flipx : RigidR3.V3 -> RigidR3.V3),
  (forall a b : RigidR3.SO3, g_eqb a b = true -> a = b) ->
  forall (g : RigidR3.SO3) (t : RigidR3.V3) (srcs : list (srcin (O := RigidR3.R3Ops) P)) (obs : list RigidR3.V3)
    (sh : list nat) (sumup : bool),
  srcs <> [] -> Forall (wf_src (O := RigidR3.R3Ops) P) srcs -> obs <> [] ->
  getBH (O := RigidR3.R3Ops) P F g_eqb flipx (map (move_src (O := RigidR3.R3Ops) P g t) srcs)
        [obs_sensor (O := RigidR3.R3Ops) (map (move_pt (O := RigidR3.R3Ops) g t) obs) sh] None sumup
  = out_act (O := RigidR3.R3Ops) g (getBH (O := RigidR3.R3Ops) P F g_eqb flipx srcs [obs_sensor (O := RigidR3.R3Ops) obs sh] None sumup).
Proof. exact (@level2_covariant RigidR3.R3Ops RigidR3.R3Laws). Qed.

Theorem C03_level2_sensor_invariant_R3 : forall (P : Type) (F : nat -> P -> RigidR3.V3 -> RigidR3.V3)
  (g_eqb : RigidR3.SO3 -> RigidR3.SO3 -> bool) (flipx : RigidR3.V3 -> RigidR3.V3),
  (forall a b : RigidR3.SO3, g_eqb a b = true -> a = b) ->
  forall (g : RigidR3.SO3) (t : RigidR3.V3) (srcs : list (srcin (O := RigidR3.R3Ops) P))
    (sens : list (sensor (O := RigidR3.R3Ops))) (agg : option (list RigidR3.V3 -> RigidR3.V3)) (sumup : bool),
  srcs <> [] -> Forall (wf_src (O := RigidR3.R3Ops) P) srcs -> Forall (wf_sensor (O := RigidR3.R3Ops)) sens -> wf_shapes (O := RigidR3.R3Ops) sens agg ->
  getBH (O := RigidR3.R3Ops) P F g_eqb flipx (map (move_src (O := RigidR3.R3Ops) P g t) srcs) (map (move_sensor (O := RigidR3.R3Ops) g t) sens) agg sumup
  = getBH (O := RigidR3.R3Ops) P F g_eqb flipx srcs sens agg sumup.
Proof. exact (@level2_sensor_invariant RigidR3.R3Ops RigidR3.R3Laws). Qed.

Theorem C03_level1_covariant_R3 : forall (P : Type) (F : nat -> P -> RigidR3.V3 -> RigidR3.V3)
  (g : RigidR3.SO3) (t : RigidR3.V3) (k : nat) (p : RigidR3.V3) (r : RigidR3.SO3) (o : RigidR3.V3) (pr : P),
  level1 (O := RigidR3.R3Ops) P F k (move_pt (O := RigidR3.R3Ops) g t p) (@gmul RigidR3.R3Ops g r) (move_pt (O := RigidR3.R3Ops) g t o) pr
  = @act RigidR3.R3Ops g (level1 (O := RigidR3.R3Ops) P F k p r o pr).
Proof. exact (@level1_covariant RigidR3.R3Ops RigidR3.R3Laws). Qed.

Print Assumptions C03_level2_covariant_R3.
Print Assumptions C03_level2_sensor_invariant_R3.
Print Assumptions C03_level1_covariant_R3.

(* non-vacuity: in the executable instance, a bare source and a two-leaf collection with paths of
   different lengths meet the hypotheses, the rotation is not the identity, and the field that is
   rotated is not zero *)
Example C03_nonvacuous :
  let g := mkOct P120 false true true in
  let x1 := mkLeaf [(1, 2, 3); (0, 1, 0)]%Z [mkOct P102 false false true; oct_one] 1%nat [2%Z] in
  let x2 := mkLeaf [(0, -1, 2)]%Z [mkOct P201 true false true] 0%nat [1; -1]%Z in
  let x3 := mkLeaf [(2, 0, 0); (2, 1, 0); (2, 2, 0)]%Z [oct_one; oct_one; mkOct P021 true false false] 2%nat []%Z in
  let srcs : list xsrc := [Bare x1; Coll [x2; x3]] in
  let obs := [(3, 1, -2); (0, 0, 5)]%Z in
  srcs <> [] /\ Forall (wf_src (list Z)) srcs /\ obs <> [] /\
  (forall a b, oct_eqb a b = true -> a = b) /\
  move_pt g (1, -1, 2)%Z (3, 1, -2)%Z <> (3, 1, -2)%Z /\
  getBH (O := OctOps) (list Z) stubF oct_eqb xflip srcs [obs_sensor obs [2; 3]%nat] None false
    <> map (fun _ => map (fun _ => [map (fun _ => (0, 0, 0)%Z) obs]) [0; 1; 2]%nat) srcs.
Proof.
  cbv zeta. repeat split.
  - discriminate.
  - repeat constructor; cbn; try lia; discriminate.
  - discriminate.
  - intros a b H. apply oct_eqb_eq, H.
  - vm_compute. discriminate.
  - vm_compute. discriminate.
Qed.
Print Assumptions C03_nonvacuous.
