(* C15 -- every finite input yields a finite field in bounded time.
   Statements only; every proof is `exact <lemma>`.  The loop tests / bodies / return expressions
   (cel0_cond, cel_iter0_step, ...) are the functions TRANSLATED from /repo's special_cel.py on this
   run (Gen/GenLoop.v); NumR is the real-number instance of the model, NumF the binary64 one.
   What the real-number theorems do NOT cover is exactly what C15_cel_iter_terminates_refuted shows. *)
From Coq Require Import ZArith Reals List Bool.
From MV Require Import Model.LoopNum Gen.GenLoop Model.LoopModel Model.LoopExec Model.LoopPins Proofs.LoopProofs Proofs.LoopFloat.
Import ListNotations.
Local Open Scope R_scope.

(* ---- cel_iter_terminates: N as a function of the start ratio qc/g (contraction rho' >= sqrt rho) *)
Theorem C15_cel_iter0_terminates : forall (N : nat) (qc p g cc ss em kk : R),
  0 < qc -> qc <= g -> 0 < p -> em = g + qc -> kk = g * qc -> g * theta8 ^ (2 ^ N) < qc ->
  exists n v, (n <= N)%nat /\ cel_iter0 NumR N (qc, p, g, cc, ss, em, kk) = Done n v.
Proof. exact cel_iter0_terminates. Qed.
Print Assumptions C15_cel_iter0_terminates.

(* explicit: a ratio above 2^-(2^k) needs at most 27 + k iterations *)
Theorem C15_cel_iter0_terminates_explicit : forall (k : nat) (qc p g cc ss em kk : R),
  0 < qc -> qc <= g -> 0 < p -> em = g + qc -> kk = g * qc -> g * (/ 2) ^ (2 ^ k) < qc ->
  exists n v, (n <= 27 + k)%nat /\ cel_iter0 NumR (27 + k) (qc, p, g, cc, ss, em, kk) = Done n v.
Proof. exact cel_iter0_terminates_explicit. Qed.
Print Assumptions C15_cel_iter0_terminates_explicit.

(* the vectorised loop (all rows iterate until all rows pass the test) *)
Theorem C15_cel_iterv_terminates : forall (N : nat) (rows : list st7R),
  Forall (fun st => iter_start_ok st /\ let '(qc, _, g, _, _, _, _) := st in g * theta8 ^ (2 ^ N) < qc) rows ->
  exists n v, (n <= N)%nat /\ cel_iterv NumR N rows = Done n v /\ length v = length rows.
Proof. exact cel_iterv_terminates. Qed.
Print Assumptions C15_cel_iterv_terminates.

(* the dispatcher cel_iter with the thresholds / fall-through of the current source *)
Theorem C15_cel_iter_terminates : forall rows : list st7R, Forall iter_start_ok rows ->
  exists N n v, cel_iter NumR N rows = Done n v.
Proof. exact cel_iter_terminates. Qed.
Print Assumptions C15_cel_iter_terminates.

(* ---- cel0 (Bulirsch cel, scalar): terminates for 0 < |kc| <= 1, raises for kc = 0 *)
Theorem C15_cel0_terminates : forall (N : nat) (kc p c s : R),
  kc <> 0 -> Rabs kc <= 1 -> theta6 ^ (2 ^ N) < Rabs kc ->
  exists n v, (n <= N)%nat /\ cel0 NumR N kc p c s = Done n v.
Proof. exact cel0_terminates. Qed.
Print Assumptions C15_cel0_terminates.

Theorem C15_cel0_terminates_ex : forall (kc p c s : R), kc <> 0 -> Rabs kc <= 1 ->
  exists N n v, (n <= N)%nat /\ cel0 NumR N kc p c s = Done n v.
Proof. exact cel0_terminates_ex. Qed.
Print Assumptions C15_cel0_terminates_ex.

Theorem C15_cel0_zero_raises : forall fuel p c s, cel0_raises_on_zero = true -> cel0 NumR fuel 0 p c s = Raised.
Proof. exact cel0_zero_raises. Qed.
Print Assumptions C15_cel0_zero_raises.

(* ---- celv (vectorised cel: masked do-while, every unconverged row steps while any row fails) and the dispatcher cel *)
Theorem C15_celv_terminates : forall (N : nat) (rows : list (R * R * R * R)),
  Forall (fun r => let '(kc, _, _, _) := r in kc <> 0 /\ Rabs kc <= 1 /\ theta6 ^ (2 ^ (S N)) < Rabs kc) rows ->
  exists n v, (n <= S N)%nat /\ celv NumR (S N) rows = Done n v /\ length v = length rows.
Proof. exact celv_terminates. Qed.
Print Assumptions C15_celv_terminates.

Theorem C15_cel_terminates : forall rows : list (R * R * R * R),
  Forall (fun r => let '(kc, _, _, _) := r in kc <> 0 /\ Rabs kc <= 1) rows ->
  exists N n v, cel NumR N rows = Done n v.
Proof. exact cel_terminates. Qed.
Print Assumptions C15_cel_terminates.

(* ---- guards_sufficient (partial: circle and cylinder-axial wrappers; the other wrappers are searched) *)
Theorem C15_guards_sufficient_circle_partial : forall (r z d i0 : R),
  let w := Build_cir_row NumR r z d i0 in
  0 <= r -> cir_mask5 NumR w = true ->
  let m := circle_mid NumR (cir_core_in NumR w) in
  0 < cw_r0 NumR w /\ 0 < cm_r NumR m /\ 0 < sqrt (cm_r NumR m) /\ 0 < cm_x0 NumR m /\ 0 < cm_k2 NumR m /\
  0 < cm_q2 NumR m /\ cm_q2 NumR m <= 1 /\ 0 < cm_q NumR m /\ cm_q NumR m <= 1 /\ 0 < cm_p NumR m /\
  iter_start_ok (circle_start1 NumR m) /\ iter_start_ok (circle_start2 NumR m).
Proof. exact circle_guards. Qed.
Print Assumptions C15_guards_sufficient_circle_partial.

Theorem C15_circle_rows_terminate : forall rows : list (cir_row NumR),
  Forall (fun w => 0 <= cw_r NumR w) rows ->
  exists N n1 v1 n2 v2,
    let mids := map (circle_mid NumR) (map (cir_core_in NumR) (filter (cir_mask5 NumR) rows)) in
    cel_iter NumR N (map (circle_start1 NumR) mids) = Done n1 v1 /\
    cel_iter NumR N (map (circle_start2 NumR) mids) = Done n2 v2.
Proof. exact circle_rows_terminate. Qed.
Print Assumptions C15_circle_rows_terminate.

Theorem C15_guards_sufficient_cylinder_axial_partial : forall (z0 r z : R),
  let i := Build_cyl_in NumR z0 r z in
  0 < z0 -> 0 <= r -> cyl_on_edge NumR i = false ->
  let m := cyl_mid_of NumR i in
  0 < ym_dpr NumR m /\ 0 < ym_sq0 NumR m /\ 0 < ym_sq1 NumR m /\
  0 < ym_k0 NumR m /\ ym_k0 NumR m <= 1 /\ 0 < ym_k1 NumR m /\ ym_k1 NumR m <= 1.
Proof. exact cylinder_axial_guards. Qed.
Print Assumptions C15_guards_sufficient_cylinder_axial_partial.

Theorem C15_cylinder_axial_cel0_terminates : forall (z0 r z p c s : R),
  let m := cyl_mid_of NumR (Build_cyl_in NumR z0 r z) in
  0 < z0 -> 0 <= r -> cyl_on_edge NumR (Build_cyl_in NumR z0 r z) = false ->
  exists N n0 v0 n1 v1, cel0 NumR N (ym_k0 NumR m) p c s = Done n0 v0 /\ cel0 NumR N (ym_k1 NumR m) p c s = Done n1 v1.
Proof. exact cylinder_axial_cel0_terminates. Qed.
Print Assumptions C15_cylinder_axial_cel0_terminates.

(* ---- special_el3.py is not modelled: its source text (ast) is the one the search results were derived for *)
Theorem C15_special_el3_pinned : special_el3_fingerprint = special_el3_expected_fingerprint.
Proof. exact special_el3_pinned. Qed.
Print Assumptions C15_special_el3_pinned.

(* ---- the same model in binary64: the loops themselves do NOT terminate on every finite input; they rely
   on their callers' masks.  gap_row = Circle(diameter 2, current 1) seen from (1, 0, 1e-170): (z/r0)^2
   underflows, q2 = q = 0, and with these start values neither cel_iter0 nor cel_iterv ever returns, whatever
   the fuel.  Before fix 588c868 of /repo the wrapper sent this row to the core (mask2 tested z == 0) and
   Circle.getH((1,0,1e-170)) never returned; the mask as it is NOW (abs(z) < 1e-15 r0) excludes the row. *)
Theorem C15_cel_iter_terminates_refuted :
  (PrimFloat.eqb (cm_q2 NumF gap_mid) PrimFloat.zero = true /\ PrimFloat.eqb (cm_q NumF gap_mid) PrimFloat.zero = true) /\
  (forall fuel, cel_iter0 NumF fuel (circle_start1 NumF gap_mid) = OutOfFuel) /\
  (forall fuel, cel_iterv NumF fuel [circle_start1 NumF gap_mid] = OutOfFuel) /\
  (cir_mask5 NumF gap_row = false /\ cir_mask2 NumF gap_row = true).
Proof. exact (conj gap_q2_zero (conj circle_float_diverges0 (conj circle_float_divergesv gap_masked))). Qed.
(* its assumptions (Coq's primitive float / int63 operations, which Print Assumptions lists although
   they are kernel primitives, not axioms) are printed by the check through a separate case file and
   stored in the evidence as refuted_theorem_assumptions *)

(* ---- non-vacuity: the hypotheses are satisfiable *)
Example C15_iter_nonvacuous : exists n v,
  (n <= 28)%nat /\ cel_iter0 NumR 28 (/ 2, 3 / 2, 1, 0, 0, 3 / 2, / 2) = Done n v.
Proof. exact iter_nonvacuous. Qed.
Print Assumptions C15_iter_nonvacuous.

Example C15_circle_guards_nonvacuous : cir_mask5 NumR (Build_cir_row NumR 1 1 2 1) = true /\ 0 <= 1.
Proof. exact circle_guards_nonvacuous. Qed.
Print Assumptions C15_circle_guards_nonvacuous.

Example C15_cylinder_guards_nonvacuous : cyl_on_edge NumR (Build_cyl_in NumR 1 1 2) = false /\ 0 < 1 /\ 0 <= 1.
Proof. exact cylinder_guards_nonvacuous. Qed.
Print Assumptions C15_cylinder_guards_nonvacuous.
