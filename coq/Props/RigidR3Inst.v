(* The physical instance of the abstract rigid-motion algebra: real positions R^3 and proper
   rotations SO(3) = { M | M M^T = I /\ det M = 1 } satisfy RigidLaws, so every theorem stated for
   an arbitrary RigidOps/RigidLaws algebra holds for them; scipy's unit-quaternion representation
   (x, y, z, w) maps into SO(3) homomorphically.  Statements only. *)
From Coq Require Import Reals.
From MV Require Import Lib.Rigid Lib.RigidR3.
Open Scope R_scope.

Theorem R3_is_rigid_algebra : RigidLaws R3Ops.
Proof. exact R3Laws. Qed.

(* what the operations of the instance are *)
Theorem R3_ops_meaning :
  (forall a b : @G R3Ops, mat (gmul a b) = mmul (mat a) (mat b)) /\
  (forall a : @G R3Ops, mat (ginv a) = mtr (mat a)) /\
  mat (@gone R3Ops) = mid /\
  (forall (a : @G R3Ops) (v : @V R3Ops), act a v = mact (mat a) v) /\
  (forall a : @G R3Ops, mmul (mat a) (mtr (mat a)) = mid /\ det3 (mat a) = 1) /\
  (forall a b : @G R3Ops, mat a = mat b -> a = b).
Proof.
  exact (conj mat_mul (conj mat_inv (conj mat_one (conj (fun a v => eq_refl)
          (conj (fun a => conj (orth a) (det1 a)) SO3_eq))))).
Qed.

(* rotations are isometries and keep orientation *)
Theorem R3_act_isometry : forall (g : SO3) (v w : V3),
  dot3 (so3_act g v) (so3_act g w) = dot3 v w /\
  norm3 (v3add (so3_act g v) (v3neg (so3_act g w))) = norm3 (v3add v (v3neg w)).
Proof. exact (fun g v w => conj (act_dot g v w) (act_dist g v w)). Qed.

Theorem R3_act_orientation : forall (g : SO3) (u v w : V3),
  triple3 (so3_act g u) (so3_act g v) (so3_act g w) = triple3 u v w /\
  cross3 (so3_act g u) (so3_act g v) = so3_act g (cross3 u v).
Proof. exact (fun g u v w => conj (act_triple g u v w) (act_cross g u v)). Qed.

(* scipy's representation: unit quaternion (x, y, z, w) -> as_matrix is a proper rotation, and
   Rotation.__mul__ (quaternion product) is the product of G *)
Theorem R3_quat_in_SO3 : forall q : Q4, qnorm2 q = 1 ->
  mmul (quat_to_mat q) (mtr (quat_to_mat q)) = mid /\ det3 (quat_to_mat q) = 1.
Proof. exact (fun q H => conj (quat_to_mat_orth q H) (quat_to_mat_det q H)). Qed.

Theorem R3_quat_product : forall p q : uquat,
  quat_to_rot (uq_mul p q) = gmul (quat_to_rot p) (quat_to_rot q).
Proof. exact quat_to_rot_mul. Qed.

Theorem R3_quat_inverse_and_sign : forall q : Q4,
  quat_to_mat (qconj q) = mtr (quat_to_mat q) /\
  (forall x y z w, quat_to_mat (- x, - y, - z, - w) = quat_to_mat (x, y, z, w)).
Proof. exact (fun q => conj (quat_to_mat_qconj q) quat_to_mat_neg). Qed.

(* non-vacuity: the rotation by 90 degrees about z is an element of G, it turns e_x into e_y,
   and it is the rotation of scipy's quaternion (0, 0, sqrt 2 / 2, sqrt 2 / 2) *)
Example R3_nonvacuous :
  mat rotz90 = mk3 0 (-1) 0 1 0 0 0 0 1 /\ @act R3Ops rotz90 (1, 0, 0) = (0, 1, 0) /\
  quat_to_mat (0, 0, sqrt 2 / 2, sqrt 2 / 2) = mat rotz90.
Proof. exact (conj eq_refl (conj rotz90_acts rotz90_quat)). Qed.

Print Assumptions R3_is_rigid_algebra.
Print Assumptions R3_ops_meaning.
Print Assumptions R3_act_isometry.
Print Assumptions R3_act_orientation.
Print Assumptions R3_quat_in_SO3.
Print Assumptions R3_quat_product.
Print Assumptions R3_quat_inverse_and_sign.
Print Assumptions R3_nonvacuous.
