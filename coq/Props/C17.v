(* C17 -- malformed inputs are rejected at assignment, valid ones stored faithfully.
   Statements only; every proof is `exact <lemma>`.
   check_array_shape, check_format_input_vector/_scalar/_vertices/_cylinder_segment, cylseg_bad (Gen.GenShape) and the
   table `setters` with the literal keyword arguments of every setter's validator call (Gen.GenTables) are TRANSLATED
   from /repo on this run; doc_table / sdoc_table (Model.InputModel) is the documented format transcribed by hand
   from the class docstrings. *)
From Coq Require Import ZArith QArith List Bool String.
From MV Require Import Model.InputTypes Gen.GenShape Gen.GenTables Model.InputModel Proofs.InputProofs.
Import ListNotations.
Open Scope string_scope.
Open Scope Z_scope.

(* for every attribute of the documentation table and EVERY array shape: the translated shape check, with the
   keyword arguments written in that attribute's setter, accepts the shape iff it is a documented one -- except
   for an empty leading axis on the row-array attributes whose code has no lower bound; gap_row is computed from the
   TRANSLATED flags reshape_rejects_empty / mesh_rejects_empty and is false everywhere once the code has the guards *)
Theorem C17_accepts_iff_documented : forall d r s,
  In d doc_table -> find_setter (d_class d) (d_attr d) = Some r -> Forall (fun n => 0 <= n) s ->
  gap_row d && empty_rows s = false ->
  (accepts_shape r s = Ok <-> in_doc (d_shape d) s = true).
Proof. exact accepts_iff_documented_lemma. Qed.
Print Assumptions C17_accepts_iff_documented.

(* on every row that still IS a gap row the full-strength statement is FALSE for the faithful model: shape (0,3)
   passes the validator although an object has at least one position / vertex / face; replayed on the implementation
   by the harness (getB then fails with an internal numpy error).  Vacuous once no gap row is left. *)
Theorem C17_accepts_iff_documented_refuted : forall d, In d doc_table -> gap_row d = true ->
  exists r, find_setter (d_class d) (d_attr d) = Some r /\ Forall (fun n => 0 <= n) [0; 3] /\
            accepts_shape r [0; 3] = Ok /\ in_doc (d_shape d) [0; 3] = false.
Proof. exact accepts_empty_rows_refuted_lemma. Qed.
Print Assumptions C17_accepts_iff_documented_refuted.

Example C17_accepts_iff_documented_nonvacuous :
  forallb (fun d => match find_setter (d_class d) (d_attr d) with Some _ => true | None => false end) doc_table = true
  /\ (exists r, find_setter "Tetrahedron" "vertices" = Some r /\ accepts_shape r [4; 3] = Ok /\
                accepts_shape r [4; 2] = Bad /\ accepts_shape r [5; 3] = Bad)
  /\ (exists r, find_setter "Triangle" "vertices" = Some r /\ accepts_shape r [3; 3] = Ok /\
                accepts_shape r [4; 3] = Bad).
Proof. split; [exact doc_rows_have_setters|]. split; eexists; (split; [vm_compute; reflexivity|]); repeat split. Qed.

(* whole assignments.  For every documented array attribute and every well-formed input -- None, a value that is not
   list/tuple/ndarray, one that numpy cannot convert to float, or a float array of ANY shape with ANY rational
   entries -- the translated setter (validator + value guards + the rest of the setter body) stores the value iff the
   documentation allows it (shape, None, positive sizes, valid cylinder segment, a tetrahedron with volume) and
   otherwise raises the library's input error; it never raises a foreign exception.
   The two exclusions are switched by flags TRANSLATED from the code and disappear when the code has the guard:
   gap_row (an empty leading axis on position / mesh rows while reshape_rejects_empty / mesh_rejects_empty = false),
   input_value_gap (coplanar tetrahedron vertices while tetra_rejects_coplanar = false). *)
Theorem C17_assign_iff_documented : forall d r inp,
  In d doc_table -> find_setter (d_class d) (d_attr d) = Some r -> wf_vinput inp ->
  gap_row d && input_empty_rows inp = false -> input_value_gap d inp = false ->
  (doc_accepts d inp = true -> exists v, assign_vec r inp = Stored v) /\
  (doc_accepts d inp = false -> assign_vec r inp = Rejected).
Proof. exact assign_iff_documented_lemma. Qed.
Print Assumptions C17_assign_iff_documented.

Example C17_assign_iff_documented_nonvacuous :
  (exists r, find_setter "CylinderSegment" "dimension" = Some r /\
     assign_vec r (IArray [5] [1; 2; 1; 0; 360]%Q) = Stored (Some ([5], [1; 2; 1; 0; 360]%Q)) /\
     assign_vec r (IArray [5] [2; 1; 1; 0; 360]%Q) = Rejected /\
     assign_vec r (IArray [5] [1; 2; 1; 0; 361]%Q) = Rejected /\ assign_vec r INone = Stored None)
  /\ (exists r, find_setter "BaseGeo" "position@init" = Some r /\
     assign_vec r (IArray [1; 3] [1; 2; 3]%Q) = Stored (Some ([1; 3], [1; 2; 3]%Q)) /\
     assign_vec r (IArray [2; 2] [1; 2; 3; 4]%Q) = Rejected /\ assign_vec r INone = Rejected).
Proof. split; eexists; (split; [vm_compute; reflexivity|]); repeat split. Qed.

(* while the Tetrahedron.vertices setter has no coplanarity guard the faithful model accepts four coplanar vertices
   (replayed on the implementation: getB then fails with numpy.linalg.LinAlgError) *)
Theorem C17_tetrahedron_coplanar_refuted : tetra_rejects_coplanar = false ->
  exists r, find_setter "Tetrahedron" "vertices" = Some r /\
    coplanar4 [0; 0; 0; 1; 0; 0; 0; 1; 0; 1; 1; 0]%Q = true /\
    assign_vec r (IArray [4; 3] [0; 0; 0; 1; 0; 0; 0; 1; 0; 1; 1; 0]%Q)
      = Stored (Some ([4; 3], [0; 0; 0; 1; 0; 0; 0; 1; 0; 1; 1; 0]%Q)).
Proof. exact tetra_coplanar_refuted_lemma. Qed.
Print Assumptions C17_tetrahedron_coplanar_refuted.

(* the guards exist in the code as it is now (flags TRANSLATED from /repo): no documented row is a gap row and the
   Tetrahedron setter rejects coplanar vertices -- so the two theorems above hold WITHOUT exclusion; removing a guard
   from the code breaks these statements *)
Theorem C17_no_gap_rows : forall d, In d doc_table -> gap_row d = false.
Proof. exact no_gap_rows_lemma. Qed.
Print Assumptions C17_no_gap_rows.

Theorem C17_no_value_gap : forall d inp, input_value_gap d inp = false.
Proof. exact no_value_gap_lemma. Qed.
Print Assumptions C17_no_value_gap.

(* hence, full strength: every documented array attribute, every well-formed input *)
Theorem C17_assign_iff_documented_full : forall d r inp,
  In d doc_table -> find_setter (d_class d) (d_attr d) = Some r -> wf_vinput inp ->
  (doc_accepts d inp = true -> exists v, assign_vec r inp = Stored v) /\
  (doc_accepts d inp = false -> assign_vec r inp = Rejected).
Proof. exact assign_iff_documented_full_lemma. Qed.
Print Assumptions C17_assign_iff_documented_full.

Theorem C17_accepts_iff_documented_full : forall d r s,
  In d doc_table -> find_setter (d_class d) (d_attr d) = Some r -> Forall (fun n => 0 <= n) s ->
  (accepts_shape r s = Ok <-> in_doc (d_shape d) s = true).
Proof. exact accepts_iff_documented_full_lemma. Qed.
Print Assumptions C17_accepts_iff_documented_full.

(* geometry: the translated CylinderSegment guard rejects exactly the invalid region named by the property (negative
   sizes, inner radius above the outer one, reversed or more than 360 degree angle range), for all rationals *)
Theorem C17_cylinder_segment_guard : forall r1 r2 h p1 p2 : Q,
  cylseg_bad r1 r2 h p1 p2 = true <->
  (r2 < r1 \/ p2 < p1 \/ 360 < p2 - p1 \/ r1 < 0 \/ r2 <= 0 \/ h <= 0)%Q.
Proof. exact cylseg_bad_iff. Qed.
Print Assumptions C17_cylinder_segment_guard.

Theorem C17_cylinder_segment_guard_is_doc_complement : forall r1 r2 h p1 p2 : Q,
  cylseg_bad r1 r2 h p1 p2 = negb (cylseg_ok [r1; r2; h; p1; p2]).
Proof. exact cylseg_bad_is_not_ok. Qed.
Print Assumptions C17_cylinder_segment_guard_is_doc_complement.

(* forbid_negative0 (Cuboid / Cylinder dimension) fires exactly when some entry is not positive *)
Theorem C17_forbid_negative0_guard : forall vals : list Q,
  existsb (fun x => Qleb x (qz 0)) vals = negb (all_pos vals).
Proof. exact existsb_nonpos. Qed.
Print Assumptions C17_forbid_negative0_guard.

(* None, the documented "not yet set": stored as None without further arithmetic where documented, rejected with the
   library's input error where not (position, mesh vertices / faces); never a foreign exception *)
Theorem C17_none_is_stored : forall d r, In d doc_table -> find_setter (d_class d) (d_attr d) = Some r ->
  assign_vec r INone = if d_none d then Stored None else Rejected.
Proof. exact none_is_stored_lemma. Qed.
Print Assumptions C17_none_is_stored.

Theorem C17_scalar_none_is_stored : forall d r, In d sdoc_table -> find_setter (sd_class d) (sd_attr d) = Some r ->
  assign_scalar r SNone = if sd_none d then SStored None else SRejected.
Proof. exact scalar_none_is_stored_lemma. Qed.
Print Assumptions C17_scalar_none_is_stored.

(* scalars (current, diameter): EVERY input -- None, a real number, a complex number, a non-number -- is stored iff
   documented (None, any real; not negative for a diameter) and otherwise rejected with the library's input error
   (before /repo 7a9b2fa a complex number raised TypeError: float(complex)) *)
Theorem C17_scalar_assign : forall d r inp, In d sdoc_table -> find_setter (sd_class d) (sd_attr d) = Some r ->
  assign_scalar r inp = if sdoc_accepts d inp
                        then SStored (match inp with SReal q => Some q | _ => None end) else SRejected.
Proof. exact scalar_assign_lemma. Qed.
Print Assumptions C17_scalar_assign.

Example C17_scalar_assign_nonvacuous : exists r, find_setter "Sphere" "diameter" = Some r /\
  assign_scalar r SComplex = SRejected /\ assign_scalar r (SReal (-1 # 2)) = SRejected /\
  assign_scalar r (SReal (3 # 2)) = SStored (Some (3 # 2)) /\ assign_scalar r SNone = SStored None.
Proof. eexists. split; [vm_compute; reflexivity|]. repeat split. Qed.

(* Sensor.handedness, every value: strings are accepted iff "right"/"left"; every other value, hashable or not
   (list, dict, ndarray), is rejected with the library's input error (before /repo 11ae763 an unhashable value made
   the set-membership test raise TypeError) *)
Theorem C17_handedness : exists r, find_setter "Sensor" "handedness" = Some r /\
  forall inp, assign_member r inp =
    match inp with MStr s => if str_mem s ["right"; "left"] then Ok else Bad | _ => Bad end.
Proof. exact handedness_row. Qed.
Print Assumptions C17_handedness.

(* orientation (setter and constructor; check_format_input_orientation is pinned by the translator): None and every
   scipy Rotation with at least one rotation are stored -- None as one unit quaternion, a single rotation as one, a
   stack of n >= 1 as n -- and an EMPTY stack as well as every other value raises the library's input error *)
Theorem C17_orientation_assign : forall a r inp, In a ["orientation"; "orientation@init"] ->
  find_setter "BaseGeo" a = Some r -> wf_oinput inp ->
  assign_orient r inp = if odoc_accepts inp
                        then OStored (match inp with ORot false n => n | _ => 1 end) else ORejected.
Proof. exact orientation_assign_lemma. Qed.
Print Assumptions C17_orientation_assign.

(* the guard against an empty Rotation exists in the code (flag TRANSLATED from /repo; before 5f63352 the setter
   stored an empty path and the constructor raised a numpy ValueError) *)
Theorem C17_orientation_rejects_empty : orientation_rejects_empty = true /\
  exists r, find_setter "BaseGeo" "orientation" = Some r /\ assign_orient r (ORot false 0) = ORejected /\
            assign_orient r (ORot false 3) = OStored 3 /\ assign_orient r (ORot true 1) = OStored 1.
Proof. split; [exact orientation_rejects_empty_lemma|]. eexists. split; [vm_compute; reflexivity|]. repeat split. Qed.
Print Assumptions C17_orientation_rejects_empty.

(* CustomSource.field_func (validate_field_func translated): for every value whose probe calls do not raise, accepted
   iff None or a callable(field, observers, ...) whose B and H probes return None or an ndarray of the probe's
   shape; everything else raises the library's input error *)
Theorem C17_field_func_assign : forall r inp, find_setter "BaseSource" "field_func" = Some r -> wf_finput inp ->
  assign_func "CustomSource" r inp = if fdoc_accepts inp then Ok else Bad.
Proof. exact field_func_assign_lemma. Qed.
Print Assumptions C17_field_func_assign.

Example C17_field_func_assign_nonvacuous : field_func_fields = ["B"; "H"] /\ field_func_probe_shape = [2; 3] /\
  exists r, find_setter "BaseSource" "field_func" = Some r /\
  assign_func "CustomSource" r (FCallable true [FoArray [2; 3]; FoNone]) = Ok /\
  assign_func "CustomSource" r (FCallable true [FoArray [2; 2]; FoArray [2; 3]]) = Bad /\
  assign_func "CustomSource" r (FCallable false []) = Bad /\ assign_func "Cuboid" r FNone = Crash.
Proof. split; [reflexivity|]. split; [reflexivity|]. eexists. split; [vm_compute; reflexivity|]. repeat split. Qed.

(* the documented None ("not yet set") never reaches a core: _getBH_level2 calls check_dimensions and
   check_excitations (call sites and argument names TRANSLATED), each on the FLATTENED source list -- so a None inside
   a (nested) Collection is reported as MagpylibMissingInput too --, and every None-able documented attribute is one
   of the attributes those checks look at (translated tuples; magnetization through its twin polarization;
   Sensor.pixel = None means one pixel at the origin) *)
Theorem C17_completeness_checks :
  forallb (fun c : string * string => String.eqb (snd c) flattened_sources_name) completeness_calls &&
  str_mem "check_dimensions" (map fst completeness_calls) &&
  str_mem "check_excitations" (map fst completeness_calls) &&
  forallb (fun d => negb (d_none d) ||
                    str_mem (d_attr d) (dimension_args ++ excitation_args ++ ["magnetization"; "pixel"])) doc_table &&
  forallb (fun d => negb (sd_none d) || str_mem (sd_attr d) (dimension_args ++ excitation_args)) sdoc_table = true.
Proof. exact completeness_ok_lemma. Qed.
Print Assumptions C17_completeness_checks.

(* accepted values are stored unchanged: same entries, same shape (position: reshaped to (-1,3)) *)
Theorem C17_stored_faithfully : forall r s vals s' vals',
  assign_vec r (IArray s vals) = Stored (Some (s', vals')) ->
  vals' = vals /\ (s' = s \/ s' = [size s / 3; 3]).
Proof. exact stored_faithfully_lemma. Qed.
Print Assumptions C17_stored_faithfully.

(* accepted_then_computable: the rank a registered class announces for a settable attribute in
   _field_func_kwargs_ndim is the rank of the values its setter accepts, plus the source axis *)
Theorem C17_accepted_then_computable : forall c k n a, In (c, k, n, a) rank_pairs -> n = a + 1.
Proof. exact rank_pairs_ok. Qed.
Print Assumptions C17_accepted_then_computable.

Example C17_accepted_then_computable_nonvacuous :
  In ("Tetrahedron", "vertices", 3, 2) rank_pairs /\ In ("Sphere", "diameter", 1, 0) rank_pairs /\
  In ("Cuboid", "polarization", 2, 1) rank_pairs /\ (18 <= Z.of_nat (List.length rank_pairs)).
Proof. vm_compute. repeat split; try (intro; discriminate); tauto. Qed.
