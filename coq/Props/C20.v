(* C20 -- style settings resolve by precedence and never leak.
   All statements are about the executable model Model/StyleModel.v run on the schema, the DEFAULTS tree, the
   constructor table and the colour table that translate/gen_style.py regenerates from /repo on every run
   (Gen/GenStyle.v).  Quantification is over EVERY style class / object class / leaf of that schema, every
   notation, every combination of sources; values range over the per-validator samples of Model/StyleSpec.v
   (sample_vals / two / sv), which is why the schema-wide theorems carry the suffix _partial. *)
From Coq Require Import ZArith List Bool String.
From MV Require Import Lib.STree Model.StyleModel Gen.GenStyle Model.StyleExec Model.StyleSpec.
From MV Require Import Proofs.StyleLW Proofs.StyleReset Proofs.StylePrec Proofs.StyleGen.
Import ListNotations.
Open Scope string_scope.

(* ---- the generic dictionary mechanisms, for all inputs (induction) ---- *)

(* underscore keyword == nested dictionary: a key made of separator-free segments joined by "_" is parsed by
   magic_to_dict into exactly the nested dictionary *)
Theorem notations_equivalent_magic_to_dict :
  forall (k0 : string) (rest : path) (o : option val),
    Forall (fun seg => has_char us seg = false) (k0 :: rest) ->
    magic_to_dict [(join_with "_" (k0 :: rest), Leaf o)] = [(k0, nest rest (Leaf o))].
Proof. exact magic_to_dict_join. Qed.
Print Assumptions notations_equivalent_magic_to_dict.

(* ... and the hypothesis holds for every property name of every generated schema *)
Theorem schema_keys_separator_free : separator_free = true.
Proof. exact separator_free_ok. Qed.
Print Assumptions schema_keys_separator_free.

(* last assignment wins in update_nested_dict, whatever the dictionary was before (any history) *)
Theorem last_assignment_wins_merge :
  forall (p : path) (d : tree) (o : option val), p <> [] ->
    tget p (und false false d (nest p (Leaf o))) = Some (Leaf o).
Proof. exact und_nest_get. Qed.
Print Assumptions last_assignment_wins_merge.

(* filling defaults (replace_None_only) never overrides a value that is already set: precedence of the
   object / show value over every default, for arbitrary dictionaries *)
Theorem precedence_merge_keeps_own_value :
  forall (p : path) (d u : tree) (x : val) (sko : bool),
    tget p d = Some (Leaf (Some x)) -> tget p (und sko true d u) = Some (Leaf (Some x)).
Proof. exact und_fill_keeps. Qed.
Print Assumptions precedence_merge_keeps_own_value.

(* ---- schema-wide, by computation over GenStyle ----
   Each *_all is a closed boolean term of Model/StyleSpec.v: nested `forallb` over EVERY style class (or public
   object class), EVERY leaf of its generated schema, the sample values of the leaf's validator kind, EVERY
   notation (attribute assignment, underscore keyword and nested dictionary passed to update() at every depth)
   and EVERY combination of sources; the only exclusions are written in the term (`shadowed`: the leaf an alias
   property writes to; for reset: leaves the DEFAULTS literal does not mention). *)

(* lw_all: for every style class, every non-shadowed leaf, values v1 v2, notations n1 n2:
   set v1 by n1, then v2 by n2  ==  set v2 alone by attribute assignment (whole as_dict() equal, leaf = v2) *)
Theorem last_assignment_wins_and_notations_equivalent_partial : lw_all = true.
Proof. exact lw_all_ok. Qed.
Print Assumptions last_assignment_wins_and_notations_equivalent_partial.

(* on the alias-shadowed leaf the clause is false in the faithful model *)
Theorem last_assignment_wins_refuted :
  In ("MagnetStyle", schema_MagnetStyle) style_classes /\
  In (p_asize, KNumGe0, false) (sleaves schema_MagnetStyle) /\
  In (VInt 2) (two KNumGe0) /\ In (VFlt 1 2) (two KNumGe0) /\
  In NAttr (notations p_asize) /\ In (NUnder 0) (notations p_asize) /\
  lw_holds schema_MagnetStyle p_asize (VInt 2) (VFlt 1 2) NAttr (NUnder 0) = false /\
  leaf_is schema_MagnetStyle
       (fst (set_leaf schema_MagnetStyle
               (fst (set_leaf schema_MagnetStyle (fresh_state schema_MagnetStyle) p_asize (Some (VInt 2)) NAttr))
               p_asize (Some (VFlt 1 2)) (NUnder 0)))
       p_asize (Some (VInt 2)) = true.
Proof. exact lw_alias_witness. Qed.
Print Assumptions last_assignment_wins_refuted.

(* reject_all: every leaf, every notation: an unknown name gives the name error, every invalid sample value an error *)
Theorem invalid_names_and_values_rejected_partial : reject_all = true.
Proof. exact reject_all_ok. Qed.
Print Assumptions invalid_names_and_values_rejected_partial.

(* prec_all: every public object class, every clearable non-alias non-shadowed leaf that show() accepts, all 16
   combinations of present/absent sources, two notations: resolved = first non-None of
   (show keyword, object's own value, family default, base default) *)
Theorem precedence_partial : prec_all = true.
Proof. exact prec_all_ok. Qed.
Print Assumptions precedence_partial.

Theorem precedence_refuted :
  prec_holds "Cuboid" ["magnetization"; "arrow"; "size"] (VInt 2) (VFlt 1 2) (VInt 0) (VInt 2)
             (mkSrc true true false false) false NAttr = false.
Proof. exact prec_alias_witness. Qed.
Print Assumptions precedence_refuted.

(* every leaf of the DEFAULTS literal is what freshly built settings hold (after its validator) *)
Theorem fresh_settings_hold_the_literal_defaults : literal_all = true.
Proof. exact literal_all_ok. Qed.
Print Assumptions fresh_settings_hold_the_literal_defaults.

(* reset_all: every settings leaf that the DEFAULTS literal mentions and no alias shadows: change it (any
   notation), reset() -> the whole settings tree is the pristine one *)
Theorem reset_restores_partial : reset_all = true.
Proof. exact reset_all_ok. Qed.
Print Assumptions reset_restores_partial.

(* reset() restores NO leaf that the DEFAULTS literal does not mention (every such leaf, every sample value
   different from the pristine one) ... *)
Theorem reset_outside_literal_refuted : reset_none_outside = true.
Proof. exact reset_none_outside_ok. Qed.
Print Assumptions reset_outside_literal_refuted.

Theorem reset_outside_literal_witness_refuted :
  In (p_label, KToStr, false) (sleaves defaults_schema) /\ in_literal p_label = false /\
  reset_holds p_label (VStr "lbl") NAttr = false.
Proof. exact reset_outside_witness. Qed.
Print Assumptions reset_outside_literal_witness_refuted.

(* ... and not the alias-shadowed arrow size either *)
Theorem reset_alias_refuted :
  In (p_msize, KNumGe0, false) (sleaves defaults_schema) /\ in_literal p_msize = true /\
  In (VInt 2) (two KNumGe0) /\ reset_holds p_msize (VInt 2) NAttr = false.
Proof. exact reset_alias_witness. Qed.
Print Assumptions reset_alias_refuted.

(* every public constructor hands `style` to BaseGeo.__init__'s style parameter *)
Theorem constructors_forward_style : ctor_forwards_style = true.
Proof. exact ctor_ok. Qed.
Print Assumptions constructors_forward_style.

Theorem defaults_are_valid : snd (defaults_new colors defaults_schema DEFAULTS) = None.
Proof. exact defaults_build_ok. Qed.
Print Assumptions defaults_are_valid.

(* non-vacuity: the quantifiers inside the *_all terms range over non-empty sets *)
Example c20_nonvacuous :
  (exists cs p k al, In cs style_classes /\ In (p, k, al) (sleaves (snd cs)) /\ shadowed (snd cs) p = false /\
                     two k <> [] /\ notations p <> [] /\ bad_vals k <> []) /\
  (exists p k al, In (p, k, al) (sleaves defaults_schema) /\ in_literal p = true /\
                  shadowed defaults_schema p = false /\ two k <> [] /\ notations_coarse p <> []) /\
  (exists p k al, In (p, k, al) (sleaves defaults_schema) /\ in_literal p = false /\ two k <> []) /\
  (exists cls p k, In cls public_classes /\ In (p, k, false) (sleaves (class_schema cls)) /\
                   prec_leaf k p = true /\ shadowed (class_schema cls) p = false) /\
  all_sources <> [] /\ prec_variants <> [] /\ ctor_style <> [].
Proof. exact c20_nonvacuous_proof. Qed.
Print Assumptions c20_nonvacuous.
