(* C20 -- style settings resolve by precedence and never leak.
   All statements are about the executable model Model/StyleModel.v run on the schema, the DEFAULTS tree, the
   constructor table and the colour table that translate/gen_style.py regenerates from /repo on every run
   (Gen/GenStyle.v).  Quantification is over EVERY style class / object class / leaf of that schema, every
   notation, every combination of sources; values range over the per-validator samples of Model/StyleSpec.v
   (sample_vals / two / sv), which is why those schema-wide theorems carry the suffix _partial.
   (reset is proved for ARBITRARY histories.) *)
From Coq Require Import ZArith List Bool String.
From MV Require Import Lib.STree Model.StyleModel Gen.GenStyle Model.StyleExec Model.StyleSpec.
From MV Require Import Proofs.StyleLW Proofs.StyleReset Proofs.StylePrec Proofs.StyleGen Proofs.StyleOne.
Import ListNotations.
Open Scope string_scope.

(* ---- the generic dictionary mechanisms, for all inputs (induction) ---- *)

(* underscore keyword == nested dictionary: a key made of separator-free segments joined by "_" is parsed by
   magic_to_dict into exactly the nested dictionary *)
Theorem notations_equivalent_magic_to_dict :
  forall (e : env) (k0 : string) (rest : path) (o : option val),
    Forall (fun seg => has_char us seg = false) (k0 :: rest) ->
    magic_to_dict e [(join_with "_" (k0 :: rest), Leaf o)] = [(k0, nest rest (Leaf o))].
Proof. exact magic_to_dict_join. Qed.
Print Assumptions notations_equivalent_magic_to_dict.

(* ... and the hypothesis holds for every property name of every generated schema *)
Theorem schema_keys_separator_free : separator_free = true.
Proof. exact separator_free_ok. Qed.
Print Assumptions schema_keys_separator_free.

(* last assignment wins in update_nested_dict, whatever the dictionary was before (any history) *)
Theorem last_assignment_wins_merge :
  forall (p : path) (d : tree) (o : option val), p <> [] ->
    tget p (und false false d (nest p (Leaf o))) = Some (Leaf o).
Proof. exact und_nest_get. Qed.
Print Assumptions last_assignment_wins_merge.

(* filling defaults (replace_None_only) never overrides a value that is already set: precedence of the
   object / show value over every default, for arbitrary dictionaries *)
Theorem precedence_merge_keeps_own_value :
  forall (p : path) (d u : tree) (x : val) (sko : bool),
    tget p d = Some (Leaf (Some x)) -> tget p (und sko true d u) = Some (Leaf (Some x)).
Proof. exact und_fill_keeps. Qed.
Print Assumptions precedence_merge_keeps_own_value.

(* ---- schema-wide, by computation over GenStyle ----
   Each *_all is a closed boolean term of Model/StyleSpec.v: nested `forallb` over EVERY style class (or public
   object class), EVERY leaf of its generated schema (alias-written leaves included), the sample values of the
   leaf's validator kind, EVERY notation (attribute assignment, underscore keyword and nested dictionary passed
   to update() at every depth) and EVERY combination of sources. *)

(* lw_all: for every style class, every leaf, values v1 v2, notations n1 n2:
   set v1 by n1, then v2 by n2  ==  set v2 alone by attribute assignment (whole as_dict() equal, leaf = v2) *)
Theorem last_assignment_wins_and_notations_equivalent_partial : lw_all = true.
Proof. exact lw_all_ok. Qed.
Print Assumptions last_assignment_wins_and_notations_equivalent_partial.

(* reject_all: every leaf, every notation: an unknown name gives the name error, every invalid sample value an error *)
Theorem invalid_names_and_values_rejected_partial : reject_all = true.
Proof. exact reject_all_ok. Qed.
Print Assumptions invalid_names_and_values_rejected_partial.

(* prec_all: every public object class, every clearable non-alias leaf that show() accepts: all 16 combinations of
   present/absent (show keyword, object, own family default, base default) x two notations, and - where two
   families of the class have the leaf (triangle / triangularmesh next to magnet) - the 16 combinations with the
   more generic family's default set as well: resolved value = first non-None of
   (show keyword, object's own value, own-family default, generic-family default, base default);
   "own family" is the most specific family class (GenStyle.family_spec), not the order get_families lists them *)
Theorem precedence_partial : prec_all = true.
Proof. exact prec_all_ok. Qed.
Print Assumptions precedence_partial.

(* a new object has no own style value: every constructor default of every style class is None and every leaf of
   a new style reads None - except the three listed in ctor_default_exceptions (open findings
   precedence/ctor-default:Class.prop), which prec_all therefore leaves out *)
Theorem new_object_has_no_own_values_partial : ctor_defaults_ok = true /\ fresh_all = true.
Proof. exact (conj ctor_defaults_ok_ok fresh_all_ok). Qed.
Print Assumptions new_object_has_no_own_values_partial.

(* ... and for those exceptions the clause "else the defaults of the object's family" is false: *)
Theorem precedence_ctor_default_refuted :
  prec_holds "Sensor" ["pixel"; "size"] (VInt 3) (VInt 4) (VInt 2) (VInt 5) (VInt 6)
             (mkSrc false false true false false) false NAttr = false /\
  leaf_is (class_schema "Sensor") (fresh_state (class_schema "Sensor")) ["pixel"; "size"] (Some (VInt 1)) = true.
Proof. exact ctor_default_witness. Qed.
Print Assumptions precedence_ctor_default_refuted.

(* ... and `label` is one of those leaves: show(obj, style_label=..) is accepted and wins (5f59f3d) *)
Theorem precedence_covers_label :
  smem "label" valid_keys = true /\ prec_leaf KToStr ["label"] = true /\
  In "Cuboid" public_classes /\ In (["label"], KToStr, false) (sleaves (class_schema "Cuboid")) /\
  prec_holds "Cuboid" ["label"] (VStr "shown") (VStr "own") (VStr "fam") (VStr "gen") (VStr "base")
             (mkSrc true true false false true) false NAttr = true.
Proof. exact show_label_covered. Qed.
Print Assumptions precedence_covers_label.

(* every leaf of the DEFAULTS literal is what freshly built settings hold (after its validator) *)
Theorem fresh_settings_hold_the_literal_defaults : literal_all = true.
Proof. exact literal_all_ok. Qed.
Print Assumptions fresh_settings_hold_the_literal_defaults.

(* reset() after ANY history: whatever operations (object / settings updates and assignments, style setter,
   resets, resolutions; valid or rejected) were run from the import-time settings, reset() gives back exactly the
   import-time settings, without error *)
Theorem reset_restores_after_any_history :
  forall (cls : string) (ops : list op) (obj0 : tree),
    let w := run_world cls (mkW pristine obj0) ops in
    w_def (fst (step cls w OReset)) = pristine /\ o_err (snd (step cls w OReset)) = None.
Proof. exact reset_after_any_history. Qed.
Print Assumptions reset_restores_after_any_history.

(* ... because reset() does not look at the current `display` object at all *)
Theorem reset_ignores_current_settings :
  forall t0 : tree, reset cenv reset_mode defaults_schema (Node [("display", t0)]) DEFAULTS = (pristine, None).
Proof. exact reset_any_state. Qed.
Print Assumptions reset_ignores_current_settings.

(* reset_all (redundant with the above, kept as an executable cross-check through as_dict): EVERY settings leaf,
   in the DEFAULTS literal or not, alias-written or not, changed by any notation, is restored *)
Theorem reset_restores_every_leaf : reset_all = true.
Proof. exact reset_all_ok. Qed.
Print Assumptions reset_restores_every_leaf.

(* one_call_all: within ONE call, for every style class and every ORDERED pair of different (non-alias) leaves
   that share their first segment, in every pair of notations (underscore key / nested dict / underscore head with
   nested rest): style.update({key1: v1, key2: v2}) gives exactly the style of the two attribute assignments -
   both leaves survive whatever the key order (812b0e7) *)
Theorem notations_equivalent_within_one_call_partial : one_call_all = true.
Proof. exact one_call_all_ok. Qed.
Print Assumptions notations_equivalent_within_one_call_partial.

(* ---- the style setter: obj.style = <dict | style instance | anything else> ---- *)
(* assigning an instance of the style class wins over everything assigned before, for every schema / state /
   instance (the dict case is `update`, covered by lw_all) *)
Theorem style_instance_assignment_wins :
  forall (s : schema) (st inst : tree),
    set_style cenv style_setter_takes_instance s st (SInst inst) = (inst, None).
Proof. exact style_instance_takes_over. Qed.
Print Assumptions style_instance_assignment_wins.

Theorem style_setter_rejects_other_values :
  forall (t : bool) (s : schema) (st : tree), set_style cenv t s st SWrong = (st, Some EValue).
Proof. exact style_wrong_rejected. Qed.
Print Assumptions style_setter_rejects_other_values.

(* ---- independence at the dictionary level: who may write into the caller's dictionaries ---- *)
(* the constructor leaves the caller's style dict as it was (form of _process_style_kwargs, from GenStyle) *)
Theorem constructor_leaves_caller_dict :
  forall style kwargs : dict, ctor_caller_dict_after ctor_copies_style style kwargs = style.
Proof. exact ctor_caller_dict_ok. Qed.
Print Assumptions constructor_leaves_caller_dict.

(* objects built from ONE style dict are independent: reading the style of one of them (which consumes its pending
   constructor arguments - the caller's dict itself when no style_ keyword was given) leaves that dict unchanged,
   and a second object built from it gets the style of an object built from its own copy (forms of the BaseGeo.style
   getter and of BaseGeo.__init__ from GenStyle) *)
Theorem objects_from_one_style_dict_independent :
  forall (s : schema) (d : dict),
    shared_dict_after_read pending_style_consumed_by_rebinding d = d /\
    second_object_style pending_style_consumed_by_rebinding s d = obj_new cenv s d [].
Proof. exact shared_ctor_dict_ok. Qed.
Print Assumptions objects_from_one_style_dict_independent.

(* magic_to_dict (first level, form from GenStyle) leaves its argument as it was, for every argument *)
Theorem magic_to_dict_leaves_argument :
  forall arg : dict, magic_caller_arg_after magic_merge_fresh arg = arg.
Proof. exact magic_arg_unchanged. Qed.
Print Assumptions magic_to_dict_leaves_argument.

(* a sub-style instance assigned to another object is taken over as a copy (7961130), and
   Collection.set_children_styles leaves the caller's dict alone (ca81229) *)
Theorem subobject_instance_is_copied : subobject_instance_copied = true.
Proof. exact subobject_copy_ok. Qed.
Print Assumptions subobject_instance_is_copied.

Theorem set_children_styles_leaves_caller_dict : set_children_copies_arg = true.
Proof. exact set_children_copy_ok. Qed.
Print Assumptions set_children_styles_leaves_caller_dict.

(* the temporary resolved style that show() puts on an object is removed in a `finally`: a show() that fails
   part-way cannot leak its keywords into the object's own style *)
Theorem failed_show_cannot_leak : temp_style_restored_in_finally = true.
Proof. exact temp_style_ok. Qed.
Print Assumptions failed_show_cannot_leak.

(* the display recursion hands the show() style arguments on to collection children *)
Theorem show_kwargs_reach_collection_children : recursion_forwards_style_kwargs = true.
Proof. exact recursion_ok. Qed.
Print Assumptions show_kwargs_reach_collection_children.

(* every public constructor hands `style` to BaseGeo.__init__'s style parameter *)
Theorem constructors_forward_style : ctor_forwards_style = true.
Proof. exact ctor_ok. Qed.
Print Assumptions constructors_forward_style.

Theorem defaults_are_valid : snd (defaults_new cenv reset_mode defaults_schema DEFAULTS) = None.
Proof. exact defaults_build_ok. Qed.
Print Assumptions defaults_are_valid.

(* ---- records of the variants before the fixes (clearly not about the current code) ---- *)
Theorem record_alias_listed_by_as_dict_breaks_last_wins :      (* before 4641759 *)
  lw_holds (unhide schema_MagnetStyle) p_asize (VInt 2) (VFlt 1 2) NAttr (NUnder 0) = false /\
  lw_holds schema_MagnetStyle p_asize (VInt 2) (VFlt 1 2) NAttr (NUnder 0) = true.
Proof. exact lw_alias_variant_witness. Qed.
Print Assumptions record_alias_listed_by_as_dict_breaks_last_wins.

Theorem record_merging_reset_keeps_leaves_outside_literal :    (* before f095e9f *)
  In (p_label, KColor, false) (sleaves defaults_schema) /\ in_literal p_label = false /\
  reset_holds_m RMerge p_label (VStr "red") NAttr = false /\
  reset_holds_m RRebuild p_label (VStr "red") NAttr = true.
Proof. exact reset_merge_variant_witness. Qed.
Print Assumptions record_merging_reset_keeps_leaves_outside_literal.

Theorem record_inplace_magic_to_dict_writes_into_argument :    (* before c3df3ef *)
  magic_caller_arg_after false [("path", Node []); ("path_show", Leaf (Some (VBool true)))]
  = [("path", Node [("show", Leaf (Some (VBool true)))]); ("path_show", Leaf (Some (VBool true)))].
Proof. exact magic_arg_inplace_witness. Qed.
Print Assumptions record_inplace_magic_to_dict_writes_into_argument.

Theorem record_style_instance_was_ignored :                   (* before 9298ef3 *)
  forall (s : schema) (st inst : tree), set_style cenv false s st (SInst inst) = (st, None).
Proof. exact style_instance_ignored_record. Qed.
Print Assumptions record_style_instance_was_ignored.

Theorem record_shallow_magic_to_dict_lost_leaves_in_one_call :    (* before 812b0e7 *)
  one_call_pair env_shallow schema_BaseStyle st_base ["path"; "line"; "width"] ["path"; "marker"; "size"]
                (VInt 5) (VInt 9) = false /\
  one_call_pair env_shallow schema_BaseStyle st_base ["path"; "line"; "width"] ["path"; "line"; "color"]
                (VInt 5) (VStr "red") = false /\
  one_call_pair cenv schema_BaseStyle st_base ["path"; "line"; "width"] ["path"; "marker"; "size"]
                (VInt 5) (VInt 9) = true /\
  one_call_pair cenv schema_BaseStyle st_base ["path"; "line"; "width"] ["path"; "line"; "color"]
                (VInt 5) (VStr "red") = true.
Proof. exact one_call_shallow_witness. Qed.
Print Assumptions record_shallow_magic_to_dict_lost_leaves_in_one_call.

(* non-vacuity: the quantifiers inside the *_all terms range over non-empty sets *)
Example c20_nonvacuous :
  (exists cs p k al, In cs style_classes /\ In (p, k, al) (sleaves (snd cs)) /\ shadowed (snd cs) p = true /\
                     two k <> [] /\ notations p <> [] /\ bad_vals k <> []) /\
  (exists p k al, In (p, k, al) (sleaves defaults_schema) /\ in_literal p = true /\
                  two k <> [] /\ notations_coarse p <> []) /\
  (exists p k al, In (p, k, al) (sleaves defaults_schema) /\ in_literal p = false /\ two k <> []) /\
  (exists cls p k, In cls public_classes /\ In (p, k, false) (sleaves (class_schema cls)) /\
                   prec_leaf k p = true /\ (2 <= List.length (spec_families cls p))%nat) /\
  all_sources <> [] /\ gen_sources <> [] /\ prec_variants <> [] /\ ctor_style <> [].
Proof. exact c20_nonvacuous_proof. Qed.
Print Assumptions c20_nonvacuous.
