(* C20 -- style settings resolve by precedence and never leak.
   All statements are about the executable model Model/StyleModel.v run on the schema, the DEFAULTS tree, the
   constructor table and the colour table that translate/gen_style.py regenerates from /repo on every run
   (Gen/GenStyle.v).  Quantification is over EVERY style class / object class / leaf of that schema, every
   notation, every combination of sources; values range over the per-validator samples of Model/StyleSpec.v
   (sample_vals / two / sv), which is why the schema-wide theorems carry the suffix _partial. *)
From Coq Require Import ZArith List Bool String.
From MV Require Import Lib.STree Model.StyleModel Gen.GenStyle Model.StyleExec Model.StyleSpec.
From MV Require Import Proofs.StyleLW Proofs.StyleReset Proofs.StylePrec Proofs.StyleGen.
Import ListNotations.
Open Scope string_scope.

(* ---- the generic dictionary mechanisms, for all inputs (induction) ---- *)

(* underscore keyword == nested dictionary: a key made of separator-free segments joined by "_" is parsed by
   magic_to_dict into exactly the nested dictionary *)
Theorem notations_equivalent_magic_to_dict :
  forall (k0 : string) (rest : path) (o : option val),
    Forall (fun seg => has_char us seg = false) (k0 :: rest) ->
    magic_to_dict [(join_with "_" (k0 :: rest), Leaf o)] = [(k0, nest rest (Leaf o))].
Proof. exact magic_to_dict_join. Qed.
Print Assumptions notations_equivalent_magic_to_dict.

(* ... and the hypothesis holds for every property name of every generated schema *)
Theorem schema_keys_separator_free :
  forall cs n, In cs (("defaults", defaults_schema) :: style_classes) -> In n (all_names (snd cs)) ->
               has_char us n = false.
Proof. exact separator_free_forall. Qed.
Print Assumptions schema_keys_separator_free.

(* last assignment wins in update_nested_dict, whatever the dictionary was before (any history) *)
Theorem last_assignment_wins_merge :
  forall (p : path) (d : tree) (o : option val), p <> [] ->
    tget p (und false false d (nest p (Leaf o))) = Some (Leaf o).
Proof. exact und_nest_get. Qed.
Print Assumptions last_assignment_wins_merge.

(* filling defaults (replace_None_only) never overrides a value that is already set: precedence of the
   object / show value over every default, for arbitrary dictionaries *)
Theorem precedence_merge_keeps_own_value :
  forall (p : path) (d u : tree) (x : val) (sko : bool),
    tget p d = Some (Leaf (Some x)) -> tget p (und sko true d u) = Some (Leaf (Some x)).
Proof. exact und_fill_keeps. Qed.
Print Assumptions precedence_merge_keeps_own_value.

(* ---- schema-wide, by computation over GenStyle ---- *)

Theorem last_assignment_wins_and_notations_equivalent_partial :
  forall cs p k al v1 v2 n1 n2,
    In cs style_classes -> In (p, k, al) (sleaves (snd cs)) -> shadowed (snd cs) p = false ->
    In v1 (two k) -> In v2 (two k) -> In n1 (notations p) -> In n2 (notations p) ->
    lw_holds (snd cs) p v1 v2 n1 n2 = true.
Proof. exact lw_forall. Qed.
Print Assumptions last_assignment_wins_and_notations_equivalent_partial.

(* without the exclusion of alias-shadowed leaves the clause is false in the faithful model *)
Theorem last_assignment_wins_refuted :
  ~ (forall cs p k al v1 v2 n1 n2,
       In cs style_classes -> In (p, k, al) (sleaves (snd cs)) ->
       In v1 (two k) -> In v2 (two k) -> In n1 (notations p) -> In n2 (notations p) ->
       lw_holds (snd cs) p v1 v2 n1 n2 = true).
Proof. exact lw_unrestricted_false. Qed.
Print Assumptions last_assignment_wins_refuted.

Theorem invalid_names_and_values_rejected_partial :
  forall cs p k al n,
    In cs style_classes -> In (p, k, al) (sleaves (snd cs)) -> In n (notations p) ->
    rejects_name (snd cs) p n = true /\
    forall v, In v (bad_vals k) -> rejects_value (snd cs) p v n = true.
Proof. exact reject_forall. Qed.
Print Assumptions invalid_names_and_values_rejected_partial.

Theorem precedence_partial :
  forall cls p k src nested n,
    In cls public_classes -> In (p, k, false) (sleaves (class_schema cls)) -> prec_leaf k p = true ->
    shadowed (class_schema cls) p = false -> In src all_sources -> In (nested, n) prec_variants ->
    prec_holds cls p (sv k 0) (sv k 1) (sv k 2) (sv k 3) src nested n = true.
Proof. exact prec_forall. Qed.
Print Assumptions precedence_partial.

Theorem precedence_refuted :
  prec_holds "Cuboid" ["magnetization"; "arrow"; "size"] (VInt 2) (VFlt 1 2) (VInt 0) (VInt 2)
             (mkSrc true true false false) false NAttr = false.
Proof. exact prec_alias_witness. Qed.
Print Assumptions precedence_refuted.

Theorem fresh_settings_hold_the_literal_defaults :
  forall p k al, In (p, k, al) (sleaves defaults_schema) -> literal_holds p k = true.
Proof. exact literal_forall. Qed.
Print Assumptions fresh_settings_hold_the_literal_defaults.

Theorem reset_restores_partial :
  forall p k al v n,
    In (p, k, al) (sleaves defaults_schema) -> in_literal p = true -> shadowed defaults_schema p = false ->
    In v (two k) -> In n (notations_coarse p) -> reset_holds p v n = true.
Proof. exact reset_forall. Qed.
Print Assumptions reset_restores_partial.

(* reset() restores NO leaf that the DEFAULTS literal does not mention ... *)
Theorem reset_outside_literal_refuted :
  forall p k al v,
    In (p, k, al) (sleaves defaults_schema) -> in_literal p = false -> In v (two k) ->
    reset_holds p v NAttr = false.
Proof. exact reset_outside_forall. Qed.
Print Assumptions reset_outside_literal_refuted.

(* ... and not the alias-shadowed arrow size either *)
Theorem reset_alias_refuted :
  In (p_msize, KNumGe0, false) (sleaves defaults_schema) /\ in_literal p_msize = true /\
  In (VInt 2) (two KNumGe0) /\ reset_holds p_msize (VInt 2) NAttr = false.
Proof. exact reset_alias_witness. Qed.
Print Assumptions reset_alias_refuted.

Theorem constructors_forward_style :
  forall cls ok why, In (cls, (ok, why)) ctor_style -> ok = true.
Proof. exact ctor_forall. Qed.
Print Assumptions constructors_forward_style.

(* non-vacuity: the quantifiers above range over non-empty sets, and the hypotheses are satisfiable *)
Example c20_nonvacuous :
  List.length style_classes = 8 /\ List.length (sleaves defaults_schema) = 158 /\
  List.length (sleaves schema_MagnetStyle) = 33 /\
  shadowed schema_MagnetStyle ["magnetization"; "arrow"; "color"] = false /\
  In NAttr (notations ["magnetization"; "arrow"; "color"]) /\
  two KColor = [VStr "red"; VStr "blue"] /\
  List.length all_sources = 16 /\ List.length public_classes = 16 /\
  reset_outside_literal_witness_exists = true.
Proof. exact c20_nonvacuous_proof. Qed.
Print Assumptions c20_nonvacuous.
