(* C20 -- style settings resolve by precedence and never leak *)
From Coq Require Import ZArith List Bool String.
From MV Require Import Lib.STree Model.StyleModel Gen.GenStyle Model.StyleExec Proofs.StyleProofs.
Import ListNotations.
Open Scope string_scope.

Theorem defaults_are_valid : snd (defaults_new colors defaults_schema DEFAULTS) = None.
Proof. exact defaults_build_ok. Qed.
Print Assumptions defaults_are_valid.
