(* C02 -- B = mu0*H + J everywhere; J = mu0*M; J reports the polarization inside and 0 outside;
   currents, dipoles and triangle sheets have J = M = 0; polarization = mu0 * magnetization for every
   history of assignments.  Statements only; every proof is `exact <lemma>`.

   The wrapper models (Model/WrapModel.v) are per-row transcriptions of the BHJM_* functions; the theorems hold
   for EVERY core function, EVERY value of the tolerance literals (class Tols), every mu0 <> 0 and every row, in
   ANY field with Leibniz equality whose boolean tests are sound (instances: Qc below; R).  The models follow the
   code after the repairs 41540a4 (Cylinder edge), 77d60b2 (CylinderSegment surface), 99f877e (Tetrahedron one mask),
   so no theorem about the field outputs carries an exclusion any more.  The one remaining `_refuted` theorem is
   about the SOURCE's constants (Gen/GenConst.v): the setters' constant is not magpylib.mu_0. *)
From Coq Require Import List Bool ZArith QArith Qcanon Field.
From MV Require Import Gen.GenConst Gen.GenWrapTol Model.WrapModel Model.WrapExec Model.WrapSrc
                       Proofs.WrapProofs Proofs.WrapWitness Proofs.WrapGroup.
Import ListNotations.

Section AnyField.
Context {N : NumOps} {T : Tols}.
Hypothesis Fth : field_theory f0 f1 fadd fmul fsub fopp fdiv finv (@eq F).
Hypothesis feqb_eq : forall x y : F, feqb x y = true -> x = y.
Hypothesis fltb_irrefl : forall x : F, fltb x x = false.
Variable mu0 : F.
Hypothesis mu0_nz : mu0 <> f0.

(* the property on one output row of a magnet: (b, h, j, m) are the B, H, J, M outputs *)
Let magnet (b h j m pol : vec) (inside : bool) : Prop :=
  b = vadd (vmuls h mu0) j /\ j = vmuls m mu0 /\
  j = vsel inside pol /\ (j = pol \/ j = vzero) /\ (pol <> vzero -> (j = pol <-> inside = true)).
(* ... and of a current, dipole or triangle sheet *)
Let current (b h j m : vec) : Prop :=
  b = vadd (vmuls h mu0) j /\ j = vmuls m mu0 /\ j = vzero /\ m = vzero.

Theorem C02_cuboid : forall (core : cub_row -> vec) (r : cub_row),
  magnet (bhjm_cuboid core mu0 FB r) (bhjm_cuboid core mu0 FH r) (bhjm_cuboid core mu0 FJ r)
         (bhjm_cuboid core mu0 FM r) (cu_pol r) (cub_inside r).
Proof. exact (cuboid_full Fth mu0 mu0_nz). Qed.

(* Cylinder: every row, the edge included (there B = H = J = M = 0); the J / M mask is the closed body minus the edge *)
Theorem C02_cylinder : forall (tv ax : F -> F -> F -> cyl_row -> vec) (r : cyl_row),
  magnet (bhjm_cylinder tv ax mu0 FB r) (bhjm_cylinder tv ax mu0 FH r) (bhjm_cylinder tv ax mu0 FJ r)
         (bhjm_cylinder tv ax mu0 FM r) (cy_pol r) (cyl_inside0 r && negb (cyl_on_edge r)).
Proof. exact (cylinder_full Fth feqb_eq mu0 mu0_nz). Qed.

(* CylinderSegment: a batch is computed row by row given ONE batch-level flag (is any row off the surface?) *)
Theorem C02_segment_batch_is_rowwise : forall (core : seg_row -> vec) (f : fld) (rows : list seg_row),
  bhjm_seg_batch core mu0 f rows = map (bhjm_seg_row core mu0 f (existsb seg_not_on_surf rows)) rows.
Proof. exact (fun core f rows => eq_refl). Qed.

(* ... and every row r of EVERY batch (the all-on-surface exit included) satisfies the property with the mask
   "inside the tolerance body and off its surface" -- which does not depend on the other rows of the batch *)
Theorem C02_segment : forall (core : seg_row -> vec) (rows : list seg_row) (r : seg_row), In r rows ->
  let out f := bhjm_seg_row core mu0 f (existsb seg_not_on_surf rows) r in
  magnet (out FB) (out FH) (out FJ) (out FM) (cs_pol r) (seg_inside r && seg_not_on_surf r).
Proof. exact (seg_batch_full Fth mu0 mu0_nz). Qed.

(* BHJM_cylinder_segment_internal (object interface): segments as above, 360-degree sections as
   Cylinder(r2) - Cylinder(r1); every row, either value of the batch flag *)
Theorem C02_segment_internal_batch_is_rowwise :
  forall (core : seg_row -> vec) (tv ax : F -> F -> F -> cyl_row -> vec) (f : fld) (rows : list seg_row),
  bhjm_seg_internal_batch core tv ax mu0 f rows =
  map (bhjm_seg_internal_row core tv ax mu0 f (existsb seg_not_on_surf (filter seg_is_segment rows))) rows.
Proof. exact (fun core tv ax f rows => eq_refl). Qed.

Theorem C02_segment_internal :
  forall (core : seg_row -> vec) (tv ax : F -> F -> F -> cyl_row -> vec) (a : bool) (r : seg_row),
  let out f := bhjm_seg_internal_row core tv ax mu0 f a r in
  out FB = vadd (vmuls (out FH) mu0) (out FJ) /\ out FJ = vmuls (out FM) mu0.
Proof. exact (seg_internal_row_full Fth feqb_eq mu0 mu0_nz). Qed.

Theorem C02_sphere : forall r : sph_row,
  magnet (bhjm_sphere mu0 FB r) (bhjm_sphere mu0 FH r) (bhjm_sphere mu0 FJ r) (bhjm_sphere mu0 FM r)
         (sp_pol r) (negb (sph_out r)).
Proof. exact (sphere_full Fth mu0 mu0_nz). Qed.

(* Tetrahedron: B, J and M all use the mask of the vertices as given (commit 99f877e) *)
Theorem C02_tetrahedron : forall (core : tri_row -> vec) (io : inout) (r : tet_row),
  magnet (bhjm_tetrahedron core mu0 io FB r) (bhjm_tetrahedron core mu0 io FH r)
         (bhjm_tetrahedron core mu0 io FJ r) (bhjm_tetrahedron core mu0 io FM r) (te_pol r) (tet_inside io r).
Proof. exact (tetrahedron_full Fth mu0 mu0_nz). Qed.

(* (in exact arithmetic the mask of the re-ordered vertices would be the same; in binary64 it was not, see known findings) *)
Theorem C02_tetrahedron_mask_chirality : forall (io : inout) (r : tet_row),
  tet_inside io (chirality r) = tet_inside io r.
Proof. exact (tet_inside_chirality Fth fltb_irrefl). Qed.

(* TriangularMesh: row i of a batch, for every inside oracle and every mesh comparison *)
Theorem C02_trimesh : forall (core : tri_row -> vec) (mi : list tri -> vec -> bool) (me : list tri -> list tri -> bool)
  (io : inout) (meshes : list (list tri)) (i : nat) (r : msh_row),
  magnet (bhjm_trimesh_row core mi me mu0 io FB meshes (i, r)) (bhjm_trimesh_row core mi me mu0 io FH meshes (i, r))
         (bhjm_trimesh_row core mi me mu0 io FJ meshes (i, r)) (bhjm_trimesh_row core mi me mu0 io FM meshes (i, r))
         (ms_pol r) (msh_ins mi me io meshes i r).
Proof. exact (trimesh_row_full Fth mu0 mu0_nz). Qed.

Theorem C02_triangle : forall (core : tri_row -> vec) (r : tri_row),
  current (bhjm_triangle core mu0 FB r) (bhjm_triangle core mu0 FH r) (bhjm_triangle core mu0 FJ r) (bhjm_triangle core mu0 FM r).
Proof. exact (triangle_full Fth mu0 mu0_nz). Qed.

Theorem C02_circle : forall (core : cir_row -> vec) (r : cir_row),
  current (bhjm_circle core mu0 FB r) (bhjm_circle core mu0 FH r) (bhjm_circle core mu0 FJ r) (bhjm_circle core mu0 FM r).
Proof. exact (circle_full Fth mu0). Qed.

Theorem C02_polyline : forall (core : pol_row -> vec) (r : pol_row),
  current (bhjm_polyline core mu0 FB r) (bhjm_polyline core mu0 FH r) (bhjm_polyline core mu0 FJ r) (bhjm_polyline core mu0 FM r).
Proof. exact (polyline_full Fth mu0). Qed.

Theorem C02_polyline_batch_is_rowwise : forall (core : pol_row -> vec) (f : fld) (rows : list pol_row),
  bhjm_polyline_batch core mu0 f rows = map (bhjm_polyline core mu0 f) rows.
Proof. exact (polyline_batch_rows Fth mu0). Qed.

Theorem C02_dipole : forall (core : dip_row -> vec) (r : dip_row),
  current (bhjm_dipole core mu0 FB r) (bhjm_dipole core mu0 FH r) (bhjm_dipole core mu0 FJ r) (bhjm_dipole core mu0 FM r).
Proof. exact (dipole_full Fth mu0). Qed.

(* attributes: after ANY history of polarization= / magnetization= assignments (vectors or None), starting from
   any synchronized state, both are unset or polarization = c * magnetization, c the setters' constant *)
Theorem C02_attr_sync : forall (h : list assign) (s : exc),
  exc_sync mu0 s -> exc_sync mu0 (exc_run mu0 mu0 s h).
Proof. exact (exc_run_sync Fth mu0 mu0_nz). Qed.

(* ... and every assignment re-establishes the relation whatever the state before it (observations - reads through the
   getters, getJ/getM, copy - are modelled as leaving the pair unchanged; the correspondence reads through the public
   getters after every operation, so a getter with hidden state diverges from the model) *)
Theorem C02_attr_assign : forall (s : exc) (a : assign), a <> Observe -> exc_sync mu0 (exc_step mu0 mu0 s a).
Proof. exact (fun s a => exc_assign_sync Fth mu0 s a mu0_nz). Qed.

(* getBH_level1 returns orientation.apply(wrapper output): for EVERY 3x3 matrix m the property survives the pose, and
   J reports the polarization expressed in the observer frame (m applied to pol); the observer transformation only
   selects which local row the wrapper sees *)
Theorem C02_level1_magnet : forall (m : mat) (local : fld -> vec) (pol : vec) (inside : bool),
  magnet (local FB) (local FH) (local FJ) (local FM) pol inside ->
  magnet (level1 m local FB) (level1 m local FH) (level1 m local FJ) (level1 m local FM) (mapply m pol) inside.
Proof. exact (level1_magnet Fth mu0). Qed.

Theorem C02_level1_current : forall (m : mat) (local : fld -> vec),
  current (local FB) (local FH) (local FJ) (local FM) ->
  current (level1 m local FB) (level1 m local FH) (level1 m local FJ) (level1 m local FM).
Proof. exact (level1_current Fth mu0). Qed.

End AnyField.

Print Assumptions C02_cuboid.
Print Assumptions C02_cylinder.
Print Assumptions C02_segment_batch_is_rowwise.
Print Assumptions C02_segment.
Print Assumptions C02_segment_internal_batch_is_rowwise.
Print Assumptions C02_segment_internal.
Print Assumptions C02_sphere.
Print Assumptions C02_tetrahedron.
Print Assumptions C02_tetrahedron_mask_chirality.
Print Assumptions C02_trimesh.
Print Assumptions C02_triangle.
Print Assumptions C02_circle.
Print Assumptions C02_polyline.
Print Assumptions C02_polyline_batch_is_rowwise.
Print Assumptions C02_dipole.
Print Assumptions C02_attr_sync.
Print Assumptions C02_attr_assign.
Print Assumptions C02_level1_magnet.
Print Assumptions C02_level1_current.

(* the grouping loop of BHJM_magnet_trimesh (in_out = "auto", after commit 8fe828e), for ALL lists of meshes and any
   reflexive mesh comparison: every row i is visited, and the mesh its inside test (msh_ins, hence J = pol <-> ...)
   uses is mesh k for a run k..i of rows whose meshes all compare equal to mesh k -- in particular row i's own *)
Theorem C02_trimesh_grouping : forall (N : NumOps) (me : list tri -> list tri -> bool),
  (forall m, me m m = true) ->
  forall (meshes : list (list tri)) (i : nat), (i < length meshes)%nat ->
  exists k, mesh_used me meshes i = Some k /\ (k <= i)%nat /\
            forall j, (k <= j <= i)%nat -> me (nth j meshes []) (nth k meshes []) = true.
Proof. exact (@mesh_used_spec). Qed.
Print Assumptions C02_trimesh_grouping.

(* ------------------------------------------------------------------ GenConst obligations (source constants) *)
(* every `mu_0` / `MU0` name of the package and every bare use of it has the value of magpylib.mu_0 *)
Theorem C02_single_mu0_names : all_sites_exported mu0_name_sites = true.
Proof. exact name_sites_single. Qed.
Theorem C02_single_mu0_uses : all_sites_exported mu0_use_sites = true.
Proof. exact use_sites_single. Qed.
(* the two setters use one constant, and it is not zero: C02_attr_sync applies with c = that constant *)
Theorem C02_setters_one_constant : c_setter_mag = c_setter_pol /\ c_setter_mag <> 0%Qc.
Proof. exact (conj setters_agree setter_nz). Qed.
(* inventory of constant expressions that are numerically mu_0 or 1/mu_0 without going through the name: the two
   setter sites, the factor 1/(4*pi*1e-7) inside current_circle_Hfield and `1e-7 / MU0` inside
   magnet_cylinder_segment_Hfield -- nothing else anywhere in the package *)
Theorem C02_literal_inventory :
  length mu0_literal_sites = 1%nat /\ length inv_mu0_literal_sites = 2%nat /\ length mu0_mixed_sites = 1%nat /\
  forallb (fun sq => Qeq_bool (snd sq) mu0_setter_magnetization) mu0_literal_sites = true /\
  forallb (fun sq => near_one (snd sq * mu0_setter_magnetization) (1 # 1000000000000000)) inv_mu0_literal_sites = true /\
  forallb (fun sq => near_one (snd sq * four_pi_b64) (2 # 10000000000)) mu0_mixed_sites = true.
Proof. exact literal_inventory. Qed.
Print Assumptions C02_literal_inventory.
(* statement order of both setters, translated from the source: on every path both attributes are written once and no
   call (validation, warning, ...) - nothing that can raise - lies between the two writes *)
Theorem C02_setters_atomic : setters_atomic = true.
Proof. exact setters_atomic_ok. Qed.
Print Assumptions C02_setters_atomic.
Print Assumptions C02_single_mu0_names.
Print Assumptions C02_single_mu0_uses.
Print Assumptions C02_setters_one_constant.

(* ------------------------------------------------------------------ where the faithful model violates the property *)
(* the setters' constant (4*pi*1e-7) is NOT magpylib.mu_0: after `magnetization = (1, 0, 0)` the attributes
   do not obey polarization = mu_0 * magnetization *)
Theorem C02_attr_sync_refuted :
  Qeq_bool mu0_setter_magnetization mu0_exported = false /\
  ~ exc_sync mu0_src (exc_run c_setter_mag c_setter_pol exc_init [SetMag (Some (z 1, z 0, z 0))]).
Proof. exact (conj setter_constant_differs attr_sync_violates). Qed.
Print Assumptions C02_attr_sync_refuted.

(* ------------------------------------------------------------------ non-vacuity: Qc (with the source's tolerances and
   constants) meets every hypothesis of the section, and the exclusions are satisfiable *)
Example C02_nonvacuous :
  field_theory (@f0 QcOps) f1 fadd fmul fsub fopp fdiv finv (@eq Qc) /\
  (forall x y : Qc, feqb x y = true -> x = y) /\ (forall x : Qc, fltb x x = false) /\
  mu0_src <> 0%Qc /\ mu0_stub <> 0%Qc /\
  (* the special sets are inhabited at the source's tolerances: a Cylinder edge row, a segment shell row *)
  cyl_on_edge (T := SrcTols) w_cyl_edge = true /\ cyl_inside0 w_cyl_edge = true /\
  seg_not_on_surf (T := SrcTols) w_seg_on = false /\ seg_inside (T := SrcTols) w_seg_on = true /\
  In w_seg_on [w_seg_on; w_seg_off].
Proof.
  split; [exact Qc_field|]. split; [exact Qc_feqb_eq|]. split; [exact Qc_fltb_irrefl|].
  split; [exact mu0_src_nz|]. split; [exact mu0_stub_nz|].
  repeat split; try (vm_compute; reflexivity). left. reflexivity.
Qed.
Print Assumptions C02_nonvacuous.
