(* C02 -- B = mu0*H + J everywhere; J = mu0*M; J reports the polarization inside and 0 outside;
   currents, dipoles and triangle sheets have J = M = 0; polarization = mu0 * magnetization for every
   history of assignments.  Statements only; every proof is `exact <lemma>`.

   The wrapper models (Model/WrapModel.v) are per-row transcriptions of the BHJM_* functions; the theorems hold
   for EVERY core function, EVERY value of the tolerance literals (class Tols), every mu0 <> 0 and every row, in
   ANY field with Leibniz equality whose boolean tests are sound (instances: Qc below; R).  Where the faithful
   model violates the property the theorem carries the exact exclusion and a `_refuted` theorem exhibits the
   violating row at the SOURCE's tolerances and constants (Gen/GenWrapTol.v, Gen/GenConst.v). *)
From Coq Require Import List Bool ZArith QArith Qcanon Field.
From MV Require Import Gen.GenConst Gen.GenWrapTol Model.WrapModel Model.WrapExec Model.WrapSrc
                       Proofs.WrapProofs Proofs.WrapWitness Proofs.WrapGroup.
Import ListNotations.

Section AnyField.
Context {N : NumOps} {T : Tols}.
Hypothesis Fth : field_theory f0 f1 fadd fmul fsub fopp fdiv finv (@eq F).
Hypothesis feqb_eq : forall x y : F, feqb x y = true -> x = y.
Hypothesis fltb_irrefl : forall x : F, fltb x x = false.
Variable mu0 : F.
Hypothesis mu0_nz : mu0 <> f0.

(* the property on one output row of a magnet: (b, h, j, m) are the B, H, J, M outputs *)
Let magnet (b h j m pol : vec) (inside : bool) : Prop :=
  b = vadd (vmuls h mu0) j /\ j = vmuls m mu0 /\
  j = vsel inside pol /\ (j = pol \/ j = vzero) /\ (pol <> vzero -> (j = pol <-> inside = true)).
(* ... and of a current, dipole or triangle sheet *)
Let current (b h j m : vec) : Prop :=
  b = vadd (vmuls h mu0) j /\ j = vmuls m mu0 /\ j = vzero /\ m = vzero.

Theorem C02_cuboid : forall (core : cub_row -> vec) (r : cub_row),
  magnet (bhjm_cuboid core mu0 FB r) (bhjm_cuboid core mu0 FH r) (bhjm_cuboid core mu0 FJ r)
         (bhjm_cuboid core mu0 FM r) (cu_pol r) (cub_inside r).
Proof. exact (cuboid_full Fth mu0 mu0_nz). Qed.

(* Cylinder: everywhere except at edge points of a polarized body (see C02_cylinder_edge_refuted) *)
Theorem C02_cylinder_partial : forall (tv ax : F -> F -> F -> cyl_row -> vec) (r : cyl_row),
  cyl_on_edge r = false \/ cy_pol r = vzero \/ cyl_inside0 r = false ->
  magnet (bhjm_cylinder tv ax mu0 FB r) (bhjm_cylinder tv ax mu0 FH r) (bhjm_cylinder tv ax mu0 FJ r)
         (bhjm_cylinder tv ax mu0 FM r) (cy_pol r) (cyl_inside0 r).
Proof. exact (cylinder_full Fth feqb_eq mu0 mu0_nz). Qed.

Theorem C02_cylinder_JM : forall (tv ax : F -> F -> F -> cyl_row -> vec) (r : cyl_row),
  let j := bhjm_cylinder tv ax mu0 FJ r in
  j = vmuls (bhjm_cylinder tv ax mu0 FM r) mu0 /\ j = vsel (cyl_inside0 r) (cy_pol r) /\
  (j = cy_pol r \/ j = vzero) /\ (cy_pol r <> vzero -> (j = cy_pol r <-> cyl_inside0 r = true)).
Proof. exact (cylinder_JM_full Fth mu0 mu0_nz). Qed.

(* CylinderSegment: a batch is computed row by row given ONE batch-level flag (is any row off the surface?) *)
Theorem C02_segment_batch_is_rowwise : forall (core : seg_row -> vec) (f : fld) (rows : list seg_row),
  bhjm_seg_batch core mu0 f rows = map (bhjm_seg_row core mu0 f (existsb seg_not_on_surf rows)) rows.
Proof. exact (fun core f rows => eq_refl). Qed.

(* flag = true: everywhere except at surface points of a polarized body (see C02_segment_surface_refuted) *)
Theorem C02_segment_partial : forall (core : seg_row -> vec) (r : seg_row),
  seg_not_on_surf r = true \/ seg_inside r = false \/ cs_pol r = vzero ->
  magnet (bhjm_seg_row core mu0 FB true r) (bhjm_seg_row core mu0 FH true r) (bhjm_seg_row core mu0 FJ true r)
         (bhjm_seg_row core mu0 FM true r) (cs_pol r) (seg_inside r).
Proof. exact (seg_row_full Fth mu0 mu0_nz). Qed.

(* flag = false (every row of the batch on a surface): all outputs are zero *)
Theorem C02_segment_all_on_surface : forall (core : seg_row -> vec) (r : seg_row),
  let out f := bhjm_seg_row core mu0 f false r in
  out FB = vadd (vmuls (out FH) mu0) (out FJ) /\ out FJ = vmuls (out FM) mu0 /\ out FJ = vzero.
Proof. exact (seg_row_all_surface Fth mu0). Qed.

Theorem C02_segment_JM : forall (core : seg_row -> vec) (a : bool) (r : seg_row),
  bhjm_seg_row core mu0 FJ a r = vmuls (bhjm_seg_row core mu0 FM a r) mu0.
Proof. exact (seg_row_JM Fth mu0 mu0_nz). Qed.

(* BHJM_cylinder_segment_internal (object interface): segments as above, 360-degree sections as
   Cylinder(r2) - Cylinder(r1); B = mu0*H + J under the exclusions of the parts; J = mu0*M always *)
Theorem C02_segment_internal_partial :
  forall (core : seg_row -> vec) (tv ax : F -> F -> F -> cyl_row -> vec) (a : bool) (r : seg_row),
  (if seg_is_segment r
   then seg_not_on_surf r = true \/ seg_inside r = false \/ cs_pol r = vzero
   else (cyl_on_edge (seg_as_cyl r (cs_r2 r)) = false \/ cs_pol r = vzero \/ cyl_inside0 (seg_as_cyl r (cs_r2 r)) = false)
        /\ (fneqb (cs_r1 r) f0 = true ->
            cyl_on_edge (seg_as_cyl r (cs_r1 r)) = false \/ cs_pol r = vzero \/ cyl_inside0 (seg_as_cyl r (cs_r1 r)) = false)) ->
  bhjm_seg_internal_row core tv ax mu0 FB a r =
  vadd (vmuls (bhjm_seg_internal_row core tv ax mu0 FH a r) mu0) (bhjm_seg_internal_row core tv ax mu0 FJ a r).
Proof. exact (seg_internal_row_BHJ Fth feqb_eq mu0 mu0_nz). Qed.

Theorem C02_segment_internal_JM :
  forall (core : seg_row -> vec) (tv ax : F -> F -> F -> cyl_row -> vec) (a : bool) (r : seg_row),
  bhjm_seg_internal_row core tv ax mu0 FJ a r = vmuls (bhjm_seg_internal_row core tv ax mu0 FM a r) mu0.
Proof. exact (seg_internal_row_JM Fth mu0 mu0_nz). Qed.

Theorem C02_sphere : forall r : sph_row,
  magnet (bhjm_sphere mu0 FB r) (bhjm_sphere mu0 FH r) (bhjm_sphere mu0 FJ r) (bhjm_sphere mu0 FM r)
         (sp_pol r) (negb (sph_out r)).
Proof. exact (sphere_full Fth mu0 mu0_nz). Qed.

(* Tetrahedron: J tests the vertices as given, B those re-ordered by check_chirality -- the same mask *)
Theorem C02_tetrahedron : forall (core : tri_row -> vec) (io : inout) (r : tet_row),
  magnet (bhjm_tetrahedron core mu0 io FB r) (bhjm_tetrahedron core mu0 io FH r)
         (bhjm_tetrahedron core mu0 io FJ r) (bhjm_tetrahedron core mu0 io FM r) (te_pol r) (tet_inside io r).
Proof. exact (tetrahedron_full Fth fltb_irrefl mu0 mu0_nz). Qed.

Theorem C02_tetrahedron_mask_chirality : forall (io : inout) (r : tet_row),
  tet_inside io (chirality r) = tet_inside io r.
Proof. exact (tet_inside_chirality Fth fltb_irrefl). Qed.

(* TriangularMesh: row i of a batch, for every inside oracle and every mesh comparison *)
Theorem C02_trimesh : forall (core : tri_row -> vec) (mi : list tri -> vec -> bool) (me : list tri -> list tri -> bool)
  (io : inout) (meshes : list (list tri)) (i : nat) (r : msh_row),
  magnet (bhjm_trimesh_row core mi me mu0 io FB meshes (i, r)) (bhjm_trimesh_row core mi me mu0 io FH meshes (i, r))
         (bhjm_trimesh_row core mi me mu0 io FJ meshes (i, r)) (bhjm_trimesh_row core mi me mu0 io FM meshes (i, r))
         (ms_pol r) (msh_ins mi me io meshes i r).
Proof. exact (trimesh_row_full Fth mu0 mu0_nz). Qed.

Theorem C02_triangle : forall (core : tri_row -> vec) (r : tri_row),
  current (bhjm_triangle core mu0 FB r) (bhjm_triangle core mu0 FH r) (bhjm_triangle core mu0 FJ r) (bhjm_triangle core mu0 FM r).
Proof. exact (triangle_full Fth mu0 mu0_nz). Qed.

Theorem C02_circle : forall (core : cir_row -> vec) (r : cir_row),
  current (bhjm_circle core mu0 FB r) (bhjm_circle core mu0 FH r) (bhjm_circle core mu0 FJ r) (bhjm_circle core mu0 FM r).
Proof. exact (circle_full Fth mu0). Qed.

Theorem C02_polyline : forall (core : pol_row -> vec) (r : pol_row),
  current (bhjm_polyline core mu0 FB r) (bhjm_polyline core mu0 FH r) (bhjm_polyline core mu0 FJ r) (bhjm_polyline core mu0 FM r).
Proof. exact (polyline_full Fth mu0). Qed.

Theorem C02_polyline_batch_is_rowwise : forall (core : pol_row -> vec) (f : fld) (rows : list pol_row),
  bhjm_polyline_batch core mu0 f rows = map (bhjm_polyline core mu0 f) rows.
Proof. exact (polyline_batch_rows Fth mu0). Qed.

Theorem C02_dipole : forall (core : dip_row -> vec) (r : dip_row),
  current (bhjm_dipole core mu0 FB r) (bhjm_dipole core mu0 FH r) (bhjm_dipole core mu0 FJ r) (bhjm_dipole core mu0 FM r).
Proof. exact (dipole_full Fth mu0). Qed.

(* attributes: after ANY history of polarization= / magnetization= assignments (vectors or None), starting from
   any synchronized state, both are unset or polarization = c * magnetization, c the setters' constant *)
Theorem C02_attr_sync : forall (h : list assign) (s : exc),
  exc_sync mu0 s -> exc_sync mu0 (exc_run mu0 mu0 s h).
Proof. exact (exc_run_sync Fth mu0 mu0_nz). Qed.

End AnyField.

Print Assumptions C02_cuboid.
Print Assumptions C02_cylinder_partial.
Print Assumptions C02_cylinder_JM.
Print Assumptions C02_segment_batch_is_rowwise.
Print Assumptions C02_segment_partial.
Print Assumptions C02_segment_all_on_surface.
Print Assumptions C02_segment_JM.
Print Assumptions C02_segment_internal_partial.
Print Assumptions C02_segment_internal_JM.
Print Assumptions C02_sphere.
Print Assumptions C02_tetrahedron.
Print Assumptions C02_tetrahedron_mask_chirality.
Print Assumptions C02_trimesh.
Print Assumptions C02_triangle.
Print Assumptions C02_circle.
Print Assumptions C02_polyline.
Print Assumptions C02_polyline_batch_is_rowwise.
Print Assumptions C02_dipole.
Print Assumptions C02_attr_sync.

(* the grouping loop of BHJM_magnet_trimesh (in_out = "auto", after commit 8fe828e), for ALL lists of meshes and any
   reflexive mesh comparison: every row i is visited, and the mesh its inside test (msh_ins, hence J = pol <-> ...)
   uses is mesh k for a run k..i of rows whose meshes all compare equal to mesh k -- in particular row i's own *)
Theorem C02_trimesh_grouping : forall (N : NumOps) (me : list tri -> list tri -> bool),
  (forall m, me m m = true) ->
  forall (meshes : list (list tri)) (i : nat), (i < length meshes)%nat ->
  exists k, mesh_used me meshes i = Some k /\ (k <= i)%nat /\
            forall j, (k <= j <= i)%nat -> me (nth j meshes []) (nth k meshes []) = true.
Proof. exact (@mesh_used_spec). Qed.
Print Assumptions C02_trimesh_grouping.

(* ------------------------------------------------------------------ GenConst obligations (source constants) *)
(* every `mu_0` / `MU0` name of the package and every bare use of it has the value of magpylib.mu_0 *)
Theorem C02_single_mu0_names : all_sites_exported mu0_name_sites = true.
Proof. exact name_sites_single. Qed.
Theorem C02_single_mu0_uses : all_sites_exported mu0_use_sites = true.
Proof. exact use_sites_single. Qed.
(* the two setters use one constant, and it is not zero: C02_attr_sync applies with c = that constant *)
Theorem C02_setters_one_constant : c_setter_mag = c_setter_pol /\ c_setter_mag <> 0%Qc.
Proof. exact (conj setters_agree setter_nz). Qed.
Print Assumptions C02_single_mu0_names.
Print Assumptions C02_single_mu0_uses.
Print Assumptions C02_setters_one_constant.

(* ------------------------------------------------------------------ where the faithful model violates the property *)
(* the setters' constant (4*pi*1e-7) is NOT magpylib.mu_0: after `magnetization = (1, 0, 0)` the attributes
   do not obey polarization = mu_0 * magnetization *)
Theorem C02_attr_sync_refuted :
  Qeq_bool mu0_setter_magnetization mu0_exported = false /\
  ~ exc_sync mu0_src (exc_run c_setter_mag c_setter_pol exc_init [SetMag (Some (z 1, z 0, z 0))]).
Proof. exact (conj setter_constant_differs attr_sync_violates). Qed.
Print Assumptions C02_attr_sync_refuted.

(* Cylinder d = 2, h = 2, pol = (0,0,1), observer (1, 0, 1) on the edge: B = H = 0, J = pol *)
Theorem C02_cylinder_edge_refuted :
  cyl_on_edge w_cyl_edge = true /\ cyl_inside0 w_cyl_edge = true /\
  bhjm_cylinder stub_cyl_tv stub_cyl_ax mu0_src FB w_cyl_edge <>
  vadd (vmuls (bhjm_cylinder stub_cyl_tv stub_cyl_ax mu0_src FH w_cyl_edge) mu0_src)
       (bhjm_cylinder stub_cyl_tv stub_cyl_ax mu0_src FJ w_cyl_edge).
Proof. exact (conj (proj1 w_cyl_edge_on_edge) (conj (proj2 w_cyl_edge_on_edge) cylinder_edge_violates)). Qed.
Print Assumptions C02_cylinder_edge_refuted.

(* CylinderSegment, observer on the outer shell, in one batch with an off-surface observer: B = H = 0, J = pol;
   alone in its batch the same row has J = 0 *)
Theorem C02_segment_surface_refuted :
  (let out f := nth 0 (bhjm_seg_batch (stub_seg mu0_src) mu0_src f [w_seg_on; w_seg_off]) vzero in
   out FB <> vadd (vmuls (out FH) mu0_src) (out FJ)) /\
  nth 0 (bhjm_seg_batch (stub_seg mu0_src) mu0_src FJ [w_seg_on]) vzero <>
  nth 0 (bhjm_seg_batch (stub_seg mu0_src) mu0_src FJ [w_seg_on; w_seg_off]) vzero.
Proof. exact (conj segment_surface_violates segment_surface_batch_dependent). Qed.
Print Assumptions C02_segment_surface_refuted.

(* ------------------------------------------------------------------ non-vacuity: Qc (with the source's tolerances and
   constants) meets every hypothesis of the section, and the exclusions are satisfiable *)
Example C02_nonvacuous :
  field_theory (@f0 QcOps) f1 fadd fmul fsub fopp fdiv finv (@eq Qc) /\
  (forall x y : Qc, feqb x y = true -> x = y) /\ (forall x : Qc, fltb x x = false) /\
  mu0_src <> 0%Qc /\ mu0_stub <> 0%Qc /\
  cyl_on_edge (T := SrcTols) {| cy_r := q 1 2; cy_c := z 1; cy_s := z 0; cy_z := z 0; cy_d := z 2; cy_h := z 2;
                               cy_pol := (z 0, z 0, z 1); cy_pxy := z 0; cy_dphi := z 0 |} = false /\
  seg_not_on_surf (T := SrcTols) w_seg_off = true.
Proof.
  split; [exact Qc_field|]. split; [exact Qc_feqb_eq|]. split; [exact Qc_fltb_irrefl|].
  split; [exact mu0_src_nz|]. split; [exact mu0_stub_nz|]. split; vm_compute; reflexivity.
Qed.
Print Assumptions C02_nonvacuous.
