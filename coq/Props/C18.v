(* C18 -- copy() yields an equal, fully independent, parentless object.
   Statements only; every proof is `exact <lemma>`.

   Model: Model/CopyModel.v = ForestModel (the tree) + a cell heap: every object owns one cell per
   mutable attribute buffer, one for the `_style_kwargs` dict and, once created, one for the style
   object graph.  copy = clear parent -> deepcopy -> restore parent -> label iteration (which
   creates the lazily un-initialised style of the ORIGINAL when kwargs are pending, without
   changing what it shows) -> keyword overrides on the clone.  Python's deepcopy is MODELLED
   (a clone of the subtree in which every reachable cell is fresh), not verified.
   WF s: the tree satisfies the C11 invariant, one cell record per object, every cell of a live
   object lies inside the heap.  view s i = what reading object i shows (token of every attribute
   slot, token of the effective style, label).  lown s i = the cells a live object can reach. *)
From Coq Require Import List Bool Arith.
From MV Require Import Model.ForestModel Model.ForestExec Model.CopyModel
  Proofs.ForestInv Proofs.CopyBase Proofs.CopyProofs.
Import ListNotations.

Theorem C18_copy_parentless : forall s x kws, WF s -> live (fs s) x = true ->
  parent (get (fs (copy s x kws)) (length (fs s) + x)) = None.
Proof. exact copy_parentless. Qed.
Print Assumptions C18_copy_parentless.

(* the whole copied state satisfies the C11 invariant (so in particular the links inside the copy
   are consistent) and the clone of every object o of the subtree (id n + o) mirrors o *)
Theorem C18_copy_subtree_consistent : forall s x kws, WF s -> live (fs s) x = true ->
  let t := fs (copy s x kws) in let n := length (fs s) in
  Inv t /\
  forall o, in_subtree (fs s) x o = true ->
    kd t (n + o) = kd (fs s) o /\
    children (get t (n + o)) = shift n (children (get (fs s) o)) /\
    (o <> x -> parent (get t (n + o)) = option_map (Nat.add n) (parent (get (fs s) o))).
Proof. exact copy_subtree_consistent. Qed.
Print Assumptions C18_copy_subtree_consistent.

(* the original tree (incl. the parent link of x) and everything the original objects show are
   unchanged, whatever the keyword overrides *)
Theorem C18_copy_leaves_original : forall s x kws, WF s -> live (fs s) x = true ->
  forall i, i < length (fs s) ->
    get (fs (copy s x kws)) i = get (fs s) i /\
    (is_junk (fs s) i = false -> view (copy s x kws) i = view s i).
Proof. exact copy_leaves_original. Qed.
Print Assumptions C18_copy_leaves_original.

(* no cell is reachable from both an original object (id < n) and an object of the copy *)
Theorem C18_copy_separated : forall s x kws, WF s -> live (fs s) x = true ->
  forall i j c, i < length (fs s) -> length (fs s) <= j ->
    In c (lown (copy s x kws) i) -> ~ In c (lown (copy s x kws) j).
Proof. exact copy_separated. Qed.
Print Assumptions C18_copy_separated.

(* hence: a write of any value into any cell of one side changes no reading on the other side *)
Theorem C18_mutation_frame : forall s x kws, WF s -> live (fs s) x = true ->
  let s' := copy s x kws in
  forall i j c v, i < length (fs s) -> length (fs s) <= j ->
    (In c (lown s' i) -> is_junk (fs s') j = false -> view (write s' c v) j = view s' j) /\
    (In c (lown s' j) -> is_junk (fs s') i = false -> view (write s' c v) i = view s' i).
Proof. exact mutation_frame. Qed.
Print Assumptions C18_mutation_frame.

(* equal values; the label of the root is iterated exactly when a style exists or is pending *)
Theorem C18_copy_equal : forall s x, WF s -> live (fs s) x = true ->
  let s' := copy s x [] in let n := length (fs s) in
  forall o, in_subtree (fs s) x o = true ->
    fst (view s' (n + o)) = fst (view s o) /\
    snd (view s' (n + o)) =
      if Nat.eqb o x then
        match style_cell (cget s x), skw_pending (cget s x) with
        | None, false => lab (cget s x)
        | _, _ => iterate_label (lab (cget s x)) end
      else lab (cget s o).
Proof. exact copy_equal. Qed.
Print Assumptions C18_copy_equal.

(* non-vacuity: a well-formed world (a collection holding a sensor whose style kwargs are still
   pending) in which the hypotheses of all theorems hold *)
Example C18_nonvacuous : WF ex_world /\ live (fs ex_world) 1 = true /\
  in_subtree (fs ex_world) 1 0 = true /\ skw_pending (cget ex_world 0) = true.
Proof. exact ex_world_wf. Qed.

(* keyword overrides: setattr(obj_copy, name, value) rebinds the slot to a cell that did not exist
   before (the VALUE is stored, never the buffer that was passed, even when the caller passes one of
   the original's own arrays) ... *)
Theorem C18_override_step_fresh : forall u y j v,
  y < length (co u) -> j < length (attrs (cget u y)) ->
  let u' := apply_kw u y (KwAttr j v) in
  nth j (attrs (cget u' y)) 0 = length (heap u) /\
  hget u' (length (heap u)) = v /\
  (Bounded u -> forall i, ~ In (length (heap u)) (lown u i)).
Proof. exact override_step_fresh. Qed.
Print Assumptions C18_override_step_fresh.

(* ... so that after the whole copy no attribute cell of the clone, overridden or not, can be
   reached from an original object (instance of C18_copy_separated for the override cells) *)
Theorem C18_override_cells_separated : forall s x kws, WF s -> live (fs s) x = true ->
  let s' := copy s x kws in let y := length (fs s) + x in
  forall c, In c (attrs (cget s' y)) ->
  forall i, i < length (fs s) -> ~ In c (lown s' i).
Proof. exact override_cells_separated. Qed.
Print Assumptions C18_override_cells_separated.
