(* C18 -- copy() yields an equal, fully independent, parentless object.
   Statements only; every proof is `exact <lemma>`.

   Model: Model/CopyModel.v = ForestModel (the tree) + a cell heap: every object owns one cell per
   mutable attribute buffer, one for the `_style_kwargs` dict and, once created, one for the style
   object graph.  copy = clear parent -> deepcopy -> restore parent -> label iteration (which
   creates the lazily un-initialised style of the ORIGINAL when kwargs are pending, without
   changing what it shows) -> keyword overrides on the clone.  Python's deepcopy is MODELLED
   (a clone of the subtree in which every reachable cell is fresh), not verified.
   WF s: the tree satisfies the C11 invariant, one cell record per object, every cell of a live
   object lies inside the heap.  view s i = what reading object i shows (token of every attribute
   slot, token of the effective style, label).  lown s i = the cells a live object can reach. *)
From Coq Require Import List Bool Arith.
From MV Require Import Gen.GenForest Model.ForestPinned Model.ForestModel Model.ForestExec Model.CopyModel
  Model.LabelModel Proofs.ForestInv Proofs.CopyBase Proofs.CopyProofs Proofs.LabelProofs Proofs.ForestFrame Proofs.CopyFrame Model.KwModel Proofs.KwProofs.
Import ListNotations.
From Coq Require String.
Import String.StringSyntax.
Local Open Scope string_scope.

Theorem C18_copy_parentless : forall s x kws, WF s -> live (fs s) x = true ->
  parent (get (fs (copy s x kws)) (length (fs s) + x)) = None.
Proof. exact copy_parentless. Qed.
Print Assumptions C18_copy_parentless.

(* the whole copied state satisfies the C11 invariant (so in particular the links inside the copy
   are consistent) and the clone of every object o of the subtree (id n + o) mirrors o *)
Theorem C18_copy_subtree_consistent : forall s x kws, WF s -> live (fs s) x = true ->
  let t := fs (copy s x kws) in let n := length (fs s) in
  Inv t /\
  forall o, in_subtree (fs s) x o = true ->
    kd t (n + o) = kd (fs s) o /\
    children (get t (n + o)) = shift n (children (get (fs s) o)) /\
    (o <> x -> parent (get t (n + o)) = option_map (Nat.add n) (parent (get (fs s) o))).
Proof. exact copy_subtree_consistent. Qed.
Print Assumptions C18_copy_subtree_consistent.

(* the original tree (incl. the parent link of x) and everything the original objects show are
   unchanged, whatever the keyword overrides *)
Theorem C18_copy_leaves_original : forall s x kws, WF s -> live (fs s) x = true ->
  forall i, i < length (fs s) ->
    get (fs (copy s x kws)) i = get (fs s) i /\
    (is_junk (fs s) i = false -> view (copy s x kws) i = view s i).
Proof. exact copy_leaves_original. Qed.
Print Assumptions C18_copy_leaves_original.

(* no cell is reachable from both an original object (id < n) and an object of the copy *)
Theorem C18_copy_separated : forall s x kws, WF s -> live (fs s) x = true ->
  forall i j c, i < length (fs s) -> length (fs s) <= j ->
    In c (lown (copy s x kws) i) -> ~ In c (lown (copy s x kws) j).
Proof. exact copy_separated. Qed.
Print Assumptions C18_copy_separated.

(* hence: a write of any value into any cell of one side changes no reading on the other side *)
Theorem C18_mutation_frame : forall s x kws, WF s -> live (fs s) x = true ->
  let s' := copy s x kws in
  forall i j c v, i < length (fs s) -> length (fs s) <= j ->
    (In c (lown s' i) -> is_junk (fs s') j = false -> view (write s' c v) j = view s' j) /\
    (In c (lown s' j) -> is_junk (fs s') i = false -> view (write s' c v) i = view s' i).
Proof. exact mutation_frame. Qed.
Print Assumptions C18_mutation_frame.

(* equal values; the label of the root is iterated exactly when a style exists or is pending *)
Theorem C18_copy_equal : forall s x, WF s -> live (fs s) x = true ->
  let s' := copy s x [] in let n := length (fs s) in
  forall o, in_subtree (fs s) x o = true ->
    fst (view s' (n + o)) = fst (view s o) /\
    snd (view s' (n + o)) =
      if Nat.eqb o x then
        match style_cell (cget s x), skw_pending (cget s x) with
        | None, false => lab (cget s x)
        | _, _ => iterate_label (lab (cget s x)) end
      else lab (cget s o).
Proof. exact copy_equal. Qed.
Print Assumptions C18_copy_equal.

(* non-vacuity: a well-formed world (a collection holding a sensor whose style kwargs are still
   pending) in which the hypotheses of all theorems hold *)
Example C18_nonvacuous : WF ex_world /\ live (fs ex_world) 1 = true /\
  in_subtree (fs ex_world) 1 0 = true /\ skw_pending (cget ex_world 0) = true.
Proof. exact ex_world_wf. Qed.

(* keyword overrides: setattr(obj_copy, name, value) rebinds the slot to a cell that did not exist
   before (the VALUE is stored, never the buffer that was passed, even when the caller passes one of
   the original's own arrays) ... *)
Theorem C18_override_step_fresh : forall u y j v,
  y < length (co u) -> j < length (attrs (cget u y)) ->
  let u' := apply_kw u y (KwAttr j v) in
  nth j (attrs (cget u' y)) 0 = length (heap u) /\
  hget u' (length (heap u)) = v /\
  (Bounded u -> forall i, ~ In (length (heap u)) (lown u i)).
Proof. exact override_step_fresh. Qed.
Print Assumptions C18_override_step_fresh.

(* ... so that after the whole copy no attribute cell of the clone, overridden or not, can be
   reached from an original object (instance of C18_copy_separated for the override cells) *)
Theorem C18_override_cells_separated : forall s x kws, WF s -> live (fs s) x = true ->
  let s' := copy s x kws in let y := length (fs s) + x in
  forall c, In c (attrs (cget s' y)) ->
  forall i, i < length (fs s) -> ~ In c (lown s' i).
Proof. exact override_cells_separated. Qed.
Print Assumptions C18_override_cells_separated.

(* ---- independence under ANY later history.  After the copy (state u0 with N = n + n objects: the
   originals are the ids < n, the objects of the copy the ids n..N-1), apply any finite sequence `ls` of
   operations to ONE side b (b = true: the originals; b = false: the copy):
     LTree o   a C11 tree operation (add, remove, parent assignment, children/sources/sensors/
               collections assignment) that mentions objects of side b only,
     LWrite c v  an in-place write into a cell reachable from a live object of side b,
     LKw i k   a rebinding setter / style update / label assignment on a live object i of side b,
     LNew ..   creation of a NEW object (Sensor(..), Cuboid(..), Collection(); Collection(a, b) and a + b
               are LNew followed by LTree (Add ..)); it belongs to side b,
     LCopy x kws  a further copy() (with overrides) of an object of side b; its objects belong to side b
   (`sideb n N b` puts every id >= N, i.e. every object created later, on side b; lrun_ok checks the
   side conditions along the run).  Then for every object j of the OTHER side nothing observable
   changes: its record (parent, children, sources, sensors, collections), its flattened views, and
   everything it shows (attribute values, effective style, label). *)
Theorem C18_later_ops_frame : forall s x kws, WF s -> live (fs s) x = true ->
  let u0 := copy s x kws in let n := length (fs s) in
  forall (b : bool) (ls : list lop),
  let side := sideb n (n + n) b in
  lrun_ok side b u0 ls ->
  let u := lrun u0 ls in
  forall j, side j <> b ->
    get (fs u) j = get (fs u0) j /\
    children_all (fs u) j = children_all (fs u0) j /\
    sources_all (fs u) j = sources_all (fs u0) j /\
    sensors_all (fs u) j = sensors_all (fs u0) j /\
    collections_all (fs u) j = collections_all (fs u0) j /\
    (is_junk (fs u0) j = false -> view u j = view u0 j).
Proof. exact later_ops_frame. Qed.
Print Assumptions C18_later_ops_frame.

(* the underlying footprint theorem of the C11 model, for an ARBITRARY partition `side` of the ids that
   no parent/children link crosses: an operation (creating ones included: Collection(..), +, copy)
   that mentions only objects of side b changes only objects of side b, keeps the kinds of the old
   objects, puts the g objects it creates on side b, and keeps the partition closed *)
Theorem C18_step_frame : forall (side : nat -> bool) (b : bool) (s : state) (o : op),
  Inv s -> Closed side s -> (forall i, length s <= i -> side i = b) -> op_on_all side b o ->
  exists g, FRg side b g s (fst (step repaired s o)).
Proof. exact step_frame_all. Qed.
Print Assumptions C18_step_frame.

Example C18_later_ops_nonvacuous :
  lrun_ok (sideb 2 4 false) false (copy ex_world 1 [])
    [LTree (Remove 3 [2] true ERaise); LKw 2 (KwAttr 0 7); LNew KColl [1; 2] 0 0 None;
     LTree (Add 4 [2] false); LCopy 4 []; LKw 3 (KwStyle 5)].
Proof. exact later_ops_example. Qed.

(* ---- the iterated label on actual (ASCII) strings: Model/LabelModel.v mirrors add_iteration_suffix
   (maximal run of trailing digits incremented with its width kept, otherwise `_01` appended, no second
   `_`); num s = the number a label ends with (0 if none) *)
Theorem C18_label_counter : forall s : chars, num (iter_chars s) = S (num s).
Proof. exact num_iter. Qed.
Print Assumptions C18_label_counter.

(* the label of a copy always differs from the label of the original (any ASCII label, also '') *)
Theorem C18_label_differs : forall s : String.string, iter_str s <> s.
Proof. exact iter_str_differs. Qed.
Print Assumptions C18_label_differs.

(* copies of copies never repeat a label *)
Theorem C18_label_iterates_distinct : forall (s : chars) (j k : nat), iterN j s = iterN k s -> j = k.
Proof. exact iterates_distinct. Qed.
Print Assumptions C18_label_iterates_distinct.

(* but iterating is NOT injective on labels: 'a' and 'a_' (and 'a_00') all give 'a_01' - copies of
   DIFFERENT originals may get the same label (the property text does not ask for more) *)
Theorem C18_label_injective_refuted :
  exists a b : String.string, a <> b /\ iter_str a = iter_str b.
Proof. exact iter_not_injective. Qed.
Print Assumptions C18_label_injective_refuted.

(* ---- the style keywords of copy(): Model/KwModel.v mirrors BaseGeo._process_style_kwargs (keys = the
   part after `style_`; a value is `option nat`, None = Python's None).  The processed dictionary answers,
   for EVERY key, the value the caller gave last for it - also when that value is None - and otherwise
   what the `style=` dictionary said; nothing is dropped. *)
Theorem C18_style_kwargs_faithful : forall (style : option dict) (kws : list (nat * pyval)) (k : nat) (d : dict),
  kws <> [] -> process_style_kwargs style kws = Some d ->
  lookup k d = match given k kws with
               | Some v => Some v
               | None => match style with Some s => lookup k s | None => None end
               end.
Proof. exact process_faithful. Qed.
Print Assumptions C18_style_kwargs_faithful.

Theorem C18_style_kwargs_none_kept : forall (style : option dict) (kws : list (nat * pyval)) (k : nat) (d : dict),
  process_style_kwargs style kws = Some d -> given k kws = Some None -> lookup k d = Some None.
Proof. exact none_is_kept. Qed.
Print Assumptions C18_style_kwargs_none_kept.

(* the tie to the source text for the methods CopyModel mirrors: BaseGeo.copy, the lazy style getter,
   the parent setter, _process_style_kwargs and add_iteration_suffix are the ones the model was written against (AST
   fingerprints regenerated from /repo on every run); any edit of one of them breaks this obligation *)
Definition c18_methods : list String.string :=
  (["BaseGeo.copy"; "BaseGeo.style:getter"; "BaseGeo.parent:setter"; "BaseGeo._process_style_kwargs";
   "utility.add_iteration_suffix"])%list.
Definition pick (l : list (String.string * String.string)) : list (String.string * String.string) :=
  filter (fun p => existsb (String.eqb (fst p)) c18_methods) l.
Example C18_model_pinned_to_source :
  pick forest_fingerprints = pick pinned_forest_fingerprints /\ length (pick forest_fingerprints) = 5.
Proof. split; reflexivity. Qed.
