(* C16 -- TriangularMesh status checks are right and orientation is normalised.
   Statements only; every proof is `exact <lemma>`.
   Model: Model/MeshModel.v (hand model of get_open_edges / get_disconnected_faces_subsets /
   get_inwards_mask / fix_trimesh_orientation on index triples, tied to /repo by the exact
   correspondence of every run); notions: Model/MeshSpec.v. *)
From Coq Require Import NArith List Bool Arith Permutation.
From MV Require Import Model.MeshModel Model.MeshSpec Model.MeshExec Proofs.MeshOpenProofs.
Import ListNotations.

(* ---------------------------------------------------------------- check_open *)
(* status_open is False exactly when every undirected edge lies in no face or in exactly two *)
Theorem C16_open_iff : forall fs, Forall nondegenerate fs ->
  (get_open_edges fs = [] <-> closed_mesh fs).
Proof. exact open_iff. Qed.
Print Assumptions C16_open_iff.

Theorem C16_status_open_iff : forall fs, Forall nondegenerate fs ->
  (status_open fs = false <-> closed_mesh fs).
Proof. exact status_open_iff. Qed.
Print Assumptions C16_status_open_iff.

(* the rows returned (status_open_data) are exactly the sorted undirected edges whose number of
   incident faces is neither 0 nor 2, without repetition, in lexicographic order *)
Theorem C16_open_edges_spec : forall fs e, Forall nondegenerate fs ->
  (In e (get_open_edges fs) <-> is_sorted e /\ incident e fs <> 0 /\ incident e fs <> 2).
Proof. exact open_edges_spec. Qed.
Print Assumptions C16_open_edges_spec.

(* invariance under face permutation and any per-face reordering of the three indices
   (cyclic rotation and reversed winding): the very same array is returned *)
Theorem C16_open_invariant_order_winding : forall fs fs', mesh_equiv fs fs' ->
  get_open_edges fs = get_open_edges fs' /\ status_open fs = status_open fs'.
Proof. exact open_invariant_equiv. Qed.
Print Assumptions C16_open_invariant_order_winding.

(* invariance under vertex renumbering: the open edges are renamed, the flag is unchanged *)
Theorem C16_open_invariant_renumbering : forall r fs, injective r ->
  Permutation (get_open_edges (map (rename_face r) fs)) (map (rename_edge r) (get_open_edges fs))
  /\ status_open (map (rename_face r) fs) = status_open fs.
Proof. exact open_invariant_rename. Qed.
Print Assumptions C16_open_invariant_renumbering.

(* non-vacuity: the tetrahedron is nondegenerate and closed, and becomes open when a face is deleted *)
Example C16_open_nonvacuous :
  let tet := [(0, 1, 2); (0, 3, 1); (1, 3, 2); (2, 3, 0)]%N in
  Forall nondegenerate tet /\ closed_mesh tet /\ status_open tet = false /\ status_open (tl tet) = true.
Proof. exact open_nonvacuous. Qed.
Print Assumptions C16_open_nonvacuous.

(* ---------------------------------------------------------------- check_disconnected *)
From MV Require Import Proofs.MeshCompProofs Proofs.MeshOrientProofs.
From Coq Require Import Relations.

(* two faces of the mesh lie in the same returned subset exactly when they are linked by a chain of
   faces of the mesh in which consecutive faces share a vertex *)
Theorem C16_components_spec : forall fs f g, In f fs -> In g fs ->
  (together (get_disconnected_faces_subsets fs) f g <-> connected fs f g).
Proof. exact components_spec. Qed.
Print Assumptions C16_components_spec.

(* the subsets form a partition of the face list into non-empty, pairwise disjoint parts *)
Theorem C16_components_partition : forall fs,
  let P := get_disconnected_faces_subsets fs in
  (forall f, In f fs -> exists s, In s P /\ In f s) /\
  (forall s f, In s P -> In f s -> In f fs) /\
  (forall s, In s P -> s <> []) /\
  ForallOrdPairs disjoint_faces P.
Proof. exact components_partition. Qed.
Print Assumptions C16_components_partition.

(* status_disconnected is True exactly when two faces of the mesh are not linked *)
Theorem C16_status_disconnected_iff : forall fs,
  status_disconnected fs = true <-> exists f g, In f fs /\ In g fs /\ ~ connected fs f g.
Proof. exact status_disconnected_iff. Qed.
Print Assumptions C16_status_disconnected_iff.

(* invariance under face permutation and per-face cyclic / reversed winding *)
Theorem C16_disconnected_invariant_order_winding : forall fs fs', mesh_equiv fs fs' ->
  status_disconnected fs = status_disconnected fs'.
Proof. exact status_disconnected_equiv. Qed.
Print Assumptions C16_disconnected_invariant_order_winding.

(* invariance under vertex renumbering: the flag, and the partition itself *)
Theorem C16_disconnected_invariant_renumbering : forall r fs, injective r ->
  status_disconnected (map (rename_face r) fs) = status_disconnected fs.
Proof. exact status_disconnected_rename. Qed.
Print Assumptions C16_disconnected_invariant_renumbering.

Theorem C16_components_invariant_renumbering : forall r fs f g, injective r -> In f fs -> In g fs ->
  (together (get_disconnected_faces_subsets (map (rename_face r) fs)) (rename_face r f) (rename_face r g)
   <-> together (get_disconnected_faces_subsets fs) f g).
Proof. exact together_rename. Qed.
Print Assumptions C16_components_invariant_renumbering.

Example C16_components_nonvacuous :
  status_disconnected two_tets = true /\ status_disconnected (firstn 4 two_tets) = false /\
  length (get_disconnected_faces_subsets two_tets) = 2.
Proof. exact components_nonvacuous. Qed.
Print Assumptions C16_components_nonvacuous.

(* ---------------------------------------------------------------- reorient_faces *)
(* for EVERY answer of the geometric seed test (any function of the seed face): reorientation returns the same faces in the same order,
   face i reversed exactly when mask[i] is set; open edges and both index-level flags are unchanged *)
Theorem C16_reorientation_preserves_mesh : forall fs oracle,
  let fs' := fix_trimesh_orientation fs oracle in
  mesh_equiv fs fs' /\
  length fs' = length fs /\
  (forall i, i < length fs ->
     nth i fs' dface = if nth i (get_inwards_mask fs oracle) false then flip_face (nth i fs dface) else nth i fs dface) /\
  get_open_edges fs' = get_open_edges fs /\
  status_open fs' = status_open fs /\
  status_disconnected fs' = status_disconnected fs.
Proof. exact reorientation_preserves. Qed.
Print Assumptions C16_reorientation_preserves_mesh.

(* propagation_consistent, for ALL meshes and EVERY answer of the geometric seed test: if some choice of per-face
   reversals makes the mesh consistently wound (no directed edge used twice, i.e. two faces sharing an edge
   traverse it in opposite directions; this covers every closed orientable edge-manifold mesh, connected or
   not), then the reoriented mesh is consistently wound.  What the seed test decides is only the global
   reversal of each edge-connected group. *)
From MV Require Import Proofs.MeshPropagProofs.
Theorem C16_propagation_consistent : forall tris oracle,
  orientable tris -> consistent (fix_trimesh_orientation tris oracle).
Proof. exact propagation_consistent. Qed.
Print Assumptions C16_propagation_consistent.

Example C16_propagation_nonvacuous : orientable tet.
Proof. exact tet_orientable. Qed.
Print Assumptions C16_propagation_nonvacuous.

(* all faces outward, GIVEN a right seed test (the ray casting itself is floating-point geometry and is searched,
   not proved): let inw say which of the given faces are wound inwards, i.e. reversing exactly those gives a
   consistently wound mesh.  Every seed call is is_facet_inwards(msh[seed], msh) with the whole mesh, so its answer
   is a function `orc` of the seed face alone; if orc agrees with inw on every face, then the mask is inw and the
   result is that consistently wound mesh - for every order of faces, any number of groups, nested or not. *)
Theorem C16_all_outward_given_right_seeds : forall tris (inw : list bool) (orc : face -> bool),
  length inw = length tris -> consistent (apply_mask tris inw) ->
  (forall i, i < length tris -> orc (nth i tris dface) = nth i inw false) ->
  get_inwards_mask tris orc = inw /\ fix_trimesh_orientation tris orc = apply_mask tris inw.
Proof. exact all_outward. Qed.
Print Assumptions C16_all_outward_given_right_seeds.

Example C16_all_outward_nonvacuous :
  let inw := [true; false; true; false] in
  let tris := apply_mask tet inw in
  let orc := fun f => negb (face_in tet f) in
  length inw = length tris /\ consistent (apply_mask tris inw) /\
  (forall i, i < length tris -> orc (nth i tris dface) = nth i inw false) /\
  fix_trimesh_orientation tris orc = tet.
Proof. exact all_outward_nonvacuous. Qed.
Print Assumptions C16_all_outward_nonvacuous.

(* PARTIAL (bounded family only, decided by vm_compute): on the tetrahedron with any of the 16 subsets of its faces
   reversed, the two possible answers of the seed test give exactly opposite windings of every face (the
   orientation is determined by the seed bit).  This clause is not proved for all meshes. *)
Theorem C16_seed_bit_determines_partial : forall m, In m (masks 4) ->
  let fs := apply_mask tet m in
  consistent (fix_trimesh_orientation fs (fun _ => false)) /\ consistent (fix_trimesh_orientation fs (fun _ => true)) /\
  list_eqb_face (fix_trimesh_orientation fs (fun _ => true)) (map flip_face (fix_trimesh_orientation fs (fun _ => false))) = true.
Proof. exact tet_orientation_bounded. Qed.
Print Assumptions C16_seed_bit_determines_partial.

(* ---------------------------------------------------------------- tie to the source text *)
(* the model and the search were written against exactly this text of the mesh functions (hand model: index-level
   functions; only searched: the floating-point seed test and self-intersection test incl. their normalisations
   and tolerances; TriangularMesh constructors and check methods).  Gen.GenMesh is regenerated from /repo on
   every run; any edit of one of these functions breaks this Example. *)
From MV Require Import Gen.GenMesh Model.MeshPinned.
Example C16_model_pinned_to_source : mesh_fingerprints = pinned_mesh_fingerprints.
Proof. vm_compute. reflexivity. Qed.
Print Assumptions C16_model_pinned_to_source.
