(* C19 -- show() draws each object where it is and does not alter it.
   Statements only; every proof is `exact <lemma>`.

   PARTIAL: what is proved is the placement pipeline (frame selection, rigid placement, unit rescale, path
   line, style save/replace/restore) and three local shape generators that are exact tables: make_Cuboid, the
   Polyline line, make_Triangle, make_Tetrahedron, and -- over R -- the Circle line, make_Prism (Cylinder),
   make_CylinderSegment, make_Ellipsoid (Sphere) vertex formulas and the make_Dipole rotation.  NOT modelled:
   the facet index tables of the round bodies, make_Pyramid / make_Arrow vertex tables, the Sensor mesh
   (sensor_mesh.py) and pixel/hull assembly of make_Sensor, TriangularMesh (vertices passed through), mesh-line
   and orientation-symbol decorations, magnetization arrows, colouring/slicing.  In
   C19_drawn_copies_partial the local vertex list `local` is an arbitrary input, and that those local vertices
   lie on the body's surface and span its extent is checked on the implementation by the harness, not proved.
   get_unit_factor / _UNIT_PREFIX / unit_prefix are TRANSLATED from /repo on this run (Gen.GenUnits). *)
From Coq Require Import ZArith QArith List Bool Sorted Reals Permutation.
From MV Require Import Lib.ListZ Lib.Rigid Lib.OctZ Gen.GenUnits
  Model.DisplayModel Model.DisplayExec Model.DisplayUnits Model.DisplayTriangle Model.DisplayShapes
  Proofs.DisplayProofs Proofs.DisplayUnitsProofs Proofs.DisplayTriangleProofs Proofs.DisplayShapesProofs
  Model.DisplayCircle Proofs.DisplayCircleProofs Gen.GenShapes Model.DisplayRound Proofs.DisplayRoundProofs
  Model.DisplayDipole Proofs.DisplayDipoleProofs.
Import ListNotations.
Open Scope Z_scope.

Section AnyRigidAlgebraWithScaling.
Context {O : RigidOps} {L : RigidLaws O} {SO : ScaleOps O} {SL : ScaleLaws O SO}.

(* place_and_orient_model3d, every argument combination (the early exit ignores `scale`) *)
Theorem C19_place_and_orient : forall (o : option G) (p : option V) (sc lf : Sc) (v : V),
  (o = None -> p = None -> sis_one lf = true -> sc = sone) ->
  place o p sc lf v =
  smul lf (vadd (smul sc (act (match o with Some R => R | None => gone end) v))
                (match p with Some p => p | None => vzero end)).
Proof. exact place_general. Qed.

(* a local vertex v of an object with pose (R, p), after get_generic_traces3D and get_frames' rescale
   by the unit factor f, is drawn at f.(R v + p) *)
Theorem C19_placed_vertex : forall (R : G) (p : V) (f : Sc) (v : V),
  drawn_vertex R p f v = smul f (vadd (act R v) p).
Proof. exact drawn_vertex_lem. Qed.

(* nested local placements compose with the object pose: dipole arrow, sensor pixels, extra model3d *)
Theorem C19_nested_placements : forall (M R : G) (q p : V) (sc f : Sc) (v : V),
  dipole_vertex M R p f v = smul f (vadd (act (gmul R M) v) p) /\
  pixel_vertex q R p f v = smul f (vadd (act R v) (vadd (act R q) p)) /\
  extra_vertex sc R p f v = smul f (vadd (smul sc (act R v)) p).
Proof. exact (fun M R q p sc f v => conj (dipole_vertex_lem M R p f v)
                                   (conj (pixel_vertex_lem q R p f v) (extra_vertex_lem sc R p f v))). Qed.

(* the path line passes through every path position, in order, in the announced unit *)
Theorem C19_path_trace_through_positions : forall (path : list pose) (f : Sc),
  path_trace_shown path f =
  if 1 <? zlen path then Some (map (fun pq : pose => smul f (fst pq)) path) else None.
Proof. exact path_trace_shown_lem. Qed.

(* the copies of an object drawn by show(): one per effective frame index e, each the local model placed
   with the pose the path has AT e -- for every path, selector, factor and local model (`local` is an input:
   partial, see header) *)
Theorem C19_drawn_copies_partial : forall (path : list pose) (s : selector) (f : Sc) (local : list V),
  object_frames path s f local =
  option_map (map (fun e => map (fun v => smul f (vadd (act (snd (nthZ pose0 path e)) v)
                                                       (fst (nthZ pose0 path e)))) local))
             (effective_inds (zlen path) s).
Proof. exact object_frames_lem. Qed.

End AnyRigidAlgebraWithScaling.
Print Assumptions C19_place_and_orient.
Print Assumptions C19_placed_vertex.
Print Assumptions C19_nested_placements.
Print Assumptions C19_path_trace_through_positions.
Print Assumptions C19_drawn_copies_partial.


(* frame selection, for ALL path lengths n >= 1 and all selections that numpy can index
   (list entries >= -n): indexing succeeds, every drawn index is a path index, the drawn indices are
   exactly the documented ones, there is at least one, and they are strictly increasing *)
Theorem C19_frame_indices_valid : forall n s, 1 <= n -> admissible n s ->
  exists es, effective_inds n s = Some es /\
    (forall e, In e es -> 0 <= e < n) /\
    (forall e, In e es <-> displayed n s e) /\
    es <> [] /\
    StronglySorted Z.lt (frame_inds n s).
Proof. exact frame_indices_valid_lem. Qed.
Print Assumptions C19_frame_indices_valid.

(* a list entry below -n is an IndexError (nothing is drawn; show raises) *)
Theorem C19_frames_out_of_range : forall n l, 1 <= n -> Exists (fun i => i < - n) l ->
  effective_inds n (SelList l) = None.
Proof. exact frames_out_of_range_lem. Qed.
Print Assumptions C19_frames_out_of_range.

(* unit factor, on the functions translated from the source.
   completeness: every SI prefix of the specification is accepted with factor * 10^e = 1 *)
Theorem C19_unit_factor_table : forall pref e, In (pref, e) si_prefix_spec ->
  factor_matches (display_unit_factor (pref ++ metre)) e = true.
Proof. exact unit_factor_table_lem. Qed.
Print Assumptions C19_unit_factor_table.

(* soundness for EVERY unit string: an accepted units_length is <SI prefix>m and coordinates are
   multiplied by the reciprocal of that prefix *)
Theorem C19_unit_factor_sound : forall (s : pystr) (r : uf_result),
  display_unit_factor s = r -> r <> UF_invalid ->
  exists pref e, s = pref ++ metre /\ In (pref, e) si_prefix_spec /\ factor_matches r e = true.
Proof. exact unit_factor_sound_lem. Qed.
Print Assumptions C19_unit_factor_sound.

(* units_length='auto': the unit string built from unit_prefix is always accepted (hence scaled as announced) *)
Theorem C19_auto_unit_valid : forall t : Z, display_unit_factor (auto_units_length t) <> UF_invalid.
Proof. exact auto_unit_valid_lem. Qed.
Print Assumptions C19_auto_unit_valid.

(* get_traces_3D: after the loop over objects -- completed or left by an exception raised in ANY body --
   every object's _style slot holds the reference it held before and every style reachable before has
   its old content; bodies may edit the temporary copy, re-point the slot of their object, allocate *)
Theorem C19_show_restores_style : forall (Sty : Type)
    (jobs : list (Z * option Z * (heap Sty -> heap Sty * outcome))) (h : heap Sty),
  wf_heap Sty h ->
  Forall (fun j : Z * option Z * (heap Sty -> heap Sty * outcome) =>
            (match snd (fst j) with Some r => r < fresh Sty h | None => True end) /\
            body_frame Sty (fst (fst j)) (snd j)) jobs ->
  let h' := fst (show_loop Sty jobs h) in
  (forall o, slot Sty h' o = slot Sty h o) /\ (forall o, style_of Sty h' o = style_of Sty h o).
Proof. exact show_restores_style_lem. Qed.
Print Assumptions C19_show_restores_style.

(* ---- local shape generators that are modelled exactly *)
(* make_Cuboid: the 8 drawn vertices are exactly the 8 corners (+-a/2, +-b/2, +-c/2) (coordinates doubled): every
   vertex lies on the surface (on three faces) and every corner is drawn -- the model spans the full extent in
   every direction; for ALL dimensions *)
Theorem C19_cuboid_vertices_are_the_corners : forall a b c v,
  In v (cuboid_vertices_x2 (a, b, c)) <->
  exists sx sy sz, (sx = 1 \/ sx = -1) /\ (sy = 1 \/ sy = -1) /\ (sz = 1 \/ sz = -1) /\ v = (sx * a, sy * b, sz * c).
Proof. exact cuboid_vertices_are_the_corners_lem. Qed.
Print Assumptions C19_cuboid_vertices_are_the_corners.

(* each of the 12 drawn triangles joins three different corners lying in one face of the box *)
Theorem C19_cuboid_facets_on_faces : forall a b c f,
  In f cuboid_facets ->
  let '(i, j, k) := f in
  0 <= i < 8 /\ 0 <= j < 8 /\ 0 <= k < 8 /\ i <> j /\ j <> k /\ i <> k /\
  exists ax sg, (ax < 3)%nat /\ (sg = 1 \/ sg = -1) /\
    let vs := cuboid_vertices_x2 (a, b, c) in
    coord ax (nthZ (0, 0, 0) vs i) = sg * coord ax (a, b, c) /\
    coord ax (nthZ (0, 0, 0) vs j) = sg * coord ax (a, b, c) /\
    coord ax (nthZ (0, 0, 0) vs k) = sg * coord ax (a, b, c).
Proof. exact cuboid_facets_on_faces_lem. Qed.
Print Assumptions C19_cuboid_facets_on_faces.

(* each of the 6 faces is tiled by exactly two of the 12 facets, split along a diagonal *)
Theorem C19_cuboid_faces_tiled : forallb face_tiled all_faces = true /\ length cuboid_facets = 12%nat.
Proof. exact cuboid_faces_tiled_lem. Qed.
Print Assumptions C19_cuboid_faces_tiled.

(* make_Polyline: the current line passes through the conductor's vertices, in order, at every displayed pose *)
Theorem C19_polyline_through_points : forall (O : RigidOps) (L : RigidLaws O) (SO : ScaleOps O) (SL : ScaleLaws O SO)
    (path : list pose) (s : selector) (f : Sc) (vertices : list V),
  polyline_frames path s f vertices =
  option_map (map (fun e => map (fun v => smul f (vadd (act (snd (nthZ pose0 path e)) v)
                                                       (fst (nthZ pose0 path e)))) vertices))
             (effective_inds (zlen path) s).
Proof. exact (fun O L SO SL => @polyline_through_points_lem O L SO SL). Qed.
Print Assumptions C19_polyline_through_points.

(* make_Circle (line trace, over the real numbers; tied only by a float comparison with the figure): every drawn
   point is on the loop x^2 + y^2 = (d/2)^2, z = 0; the line starts at angle 0, ends at 2 pi with first point =
   last point (closed, once around), in equal steps of 2 pi / (base - 1) *)
Theorem C19_circle_on_loop : forall (base : nat) (d : R) (k : nat),
  let '(x, y, z) := circle_point base d k in (x * x + y * y = (d / 2) * (d / 2) /\ z = 0)%R.
Proof. exact circle_on_loop_lem. Qed.
Print Assumptions C19_circle_on_loop.

Theorem C19_circle_closed_once_around : forall (base : nat) (d : R), (2 <= base)%nat ->
  (linspace_2pi base 0 = 0 /\ linspace_2pi base (base - 1) = 2 * PI)%R /\
  circle_point base d (base - 1) = circle_point base d 0 /\
  (forall k, linspace_2pi base (S k) - linspace_2pi base k = 2 * PI / INR (base - 1))%R.
Proof. exact (fun base d Hb => conj (conj (proj1 (circle_closed_lem base d Hb)) (proj1 (proj2 (circle_closed_lem base d Hb))))
                                   (conj (proj2 (proj2 (circle_closed_lem base d Hb))) (circle_step_lem base))). Qed.
Print Assumptions C19_circle_closed_once_around.

(* make_Tetrahedron: the drawn vertices are the object's four vertices (check_chirality may exchange the last
   two) and the translated triangle table consists of four different corner triples each leaving out a different
   vertex: the four faces *)
Theorem C19_tetrahedron_vertices : forall p0 p1 p2 p3, Permutation (tetra_vertices p0 p1 p2 p3) [p0; p1; p2; p3].
Proof. exact tetra_vertices_lem. Qed.
Print Assumptions C19_tetrahedron_vertices.

Theorem C19_tetrahedron_faces : tetra_table_ok = true.
Proof. exact tetra_table_lem. Qed.
Print Assumptions C19_tetrahedron_faces.

(* make_CylinderSegment (over R; tied by float comparison and AST fingerprint): for EVERY vertex count N, block b
   and index k the vertex has radius r1 or r2 and height +-h/2; with np.linspace modelled as
   phi1 + k (phi2 - phi1)/(N - 1) the arc angles start exactly at phi1, end exactly at phi2, stay in between and
   advance in equal steps -- for every N >= 2 (the code's minimum is 5) *)
Theorem C19_segment_vertex_on_surface : forall (r1 r2 h phi1 phi2 : R) (N b k : nat),
  let '(x, y, z) := seg_vertex r1 r2 h phi1 phi2 N b k in
  (x * x + y * y = seg_radius r1 r2 b * seg_radius r1 r2 b /\ (z = h / 2 \/ z = - (h / 2)) /\
   (seg_radius r1 r2 b = r1 \/ seg_radius r1 r2 b = r2))%R.
Proof. exact seg_vertex_on_surface_lem. Qed.
Print Assumptions C19_segment_vertex_on_surface.

Theorem C19_segment_angles_full_extent : forall (phi1 phi2 : R) (N : nat), (2 <= N)%nat ->
  (seg_phi phi1 phi2 N 0 = phi1 /\ seg_phi phi1 phi2 N (N - 1) = phi2 /\
   (phi1 <= phi2 -> forall k, (k <= N - 1)%nat -> phi1 <= seg_phi phi1 phi2 N k <= phi2) /\
   (forall k, seg_phi phi1 phi2 N (S k) - seg_phi phi1 phi2 N k = (phi2 - phi1) / INR (N - 1)))%R.
Proof. exact seg_angles_lem. Qed.
Print Assumptions C19_segment_angles_full_extent.

Theorem C19_segment_blocks : forall r1 r2 h : R,
  (seg_radius r1 r2 0, seg_z h 0) = (r1, (h / 2)%R) /\ (seg_radius r1 r2 1, seg_z h 1) = (r2, (h / 2)%R) /\
  (seg_radius r1 r2 2, seg_z h 2) = (r1, (- (h / 2))%R) /\ (seg_radius r1 r2 3, seg_z h 3) = (r2, (- (h / 2))%R).
Proof. exact seg_blocks_lem. Qed.
Print Assumptions C19_segment_blocks.

(* make_Prism (Cylinder): rim vertices at radius d/2 and height +-h/2, cap centres on the axis at +-h/2, rim
   angles from 0 in steps of 2 pi / N once around *)
Theorem C19_cylinder_rim_on_surface : forall (d h : R) (N : nat) (top : bool) (k : nat),
  let '(x, y, z) := prism_rim d h N top k in
  (x * x + y * y = (d / 2) * (d / 2) /\ z = (if top then h / 2 else - (h / 2)))%R.
Proof. exact prism_rim_on_surface_lem. Qed.
Print Assumptions C19_cylinder_rim_on_surface.

Theorem C19_cylinder_caps_and_angles : forall (h : R) (top : bool) (N k : nat), (1 <= N)%nat ->
  prism_centre h top = (0, 0, if top then h / 2 else - (h / 2))%R /\
  (prism_t N 0 = 0 /\ prism_t N (S k) - prism_t N k = 2 * PI / INR N /\ prism_t N N = 2 * PI)%R.
Proof. exact (fun h top N k HN => conj (prism_centre_lem h top) (prism_angles_lem N k HN)). Qed.
Print Assumptions C19_cylinder_caps_and_angles.

(* make_Ellipsoid / Sphere: every grid point lies on the ellipsoid with semi-axes a/2, b/2, c/2 (on the sphere
   of diameter d); the poles are grid points (full extent along z) *)
Theorem C19_ellipsoid_vertex_on_surface : forall (a b c : R) (N i j : nat), (a <> 0 -> b <> 0 -> c <> 0 ->
  let '(x, y, z) := ell_vertex a b c N i j in
  (x / (a / 2)) * (x / (a / 2)) + (y / (b / 2)) * (y / (b / 2)) + (z / (c / 2)) * (z / (c / 2)) = 1)%R.
Proof. exact ell_vertex_on_surface_lem. Qed.
Print Assumptions C19_ellipsoid_vertex_on_surface.

Theorem C19_sphere_vertex_on_surface : forall (d : R) (N i j : nat),
  let '(x, y, z) := ell_vertex d d d N i j in (x * x + y * y + z * z = (d / 2) * (d / 2))%R.
Proof. exact sphere_vertex_on_surface_lem. Qed.
Print Assumptions C19_sphere_vertex_on_surface.

Theorem C19_ellipsoid_poles : forall (a b c : R) (N j : nat), (2 <= N)%nat ->
  (ell_vertex a b c N 0 j = (0 * sin (ell_phi N j) * a * (1 / 2), 0 * cos (ell_phi N j) * b * (1 / 2), - 1 * c * (1 / 2)) /\
   ell_vertex a b c N (N - 1) j = (0 * sin (ell_phi N j) * a * (1 / 2), 0 * cos (ell_phi N j) * b * (1 / 2), 1 * c * (1 / 2)))%R.
Proof. exact ell_poles_lem. Qed.
Print Assumptions C19_ellipsoid_poles.

(* make_Dipole: the rotation applied to the arrow model (built along +z) takes +z exactly onto the moment
   direction, for EVERY unit vector -- including +z (no rotation) and -z (the replacement-axis branch) *)
Theorem C19_dipole_rotation : forall a b c : R, (a * a + b * b + c * c = 1)%R ->
  rotvec_apply (dipole_rotvec (a, b, c)) zaxis = (a, b, c).
Proof. exact dipole_rotation_lem. Qed.
Print Assumptions C19_dipole_rotation.

(* RECORD (seeded defect C19-C, not the current code): without the replacement axis a moment along -z is drawn
   pointing along +z *)
Theorem C19_record_seed_C19C_dipole_antiparallel :
  rotvec_apply (dipole_rotvec_seed_C19C (0, 0, -1)%R) zaxis = zaxis.
Proof. exact dipole_seed_C19C_record. Qed.
Print Assumptions C19_record_seed_C19C_dipole_antiparallel.

(* make_Triangle as of /repo 2fa0af8 (integer facets, coordinates x1000; exact on the representable facets, see
   Model/DisplayTriangle.v).  A facet not magnetised along its normal is drawn as exactly its three vertices *)
Theorem C19_triangle_plain_exact : forall mag v0 v1 v2,
  tri_thickened mag v0 v1 v2 = false ->
  make_triangle_x1000 mag v0 v1 v2 = Some [v3smul 1000 v0; v3smul 1000 v1; v3smul 1000 v2] /\
  Forall (fun d => dot3 (tri_vec v0 v1 v2) (v3sub d (v3smul 1000 v0)) = 0)
         [v3smul 1000 v0; v3smul 1000 v1; v3smul 1000 v2].
Proof. exact triangle_plain_exact_lem. Qed.
Print Assumptions C19_triangle_plain_exact.

(* a facet magnetised along its normal (or not at all) is thickened: every drawn vertex is off the plane by
   1e-3 * sqrt|vec| -- a LENGTH: with q = sqrt|vec|, q * (n.(d - 1000 v0)) = +-|vec|^2, i.e. 1000 * distance = q *)
Theorem C19_triangle_thick_offset : forall mag v0 v1 v2 l d,
  tri_thickened mag v0 v1 v2 = true -> make_triangle_x1000 mag v0 v1 v2 = Some l -> In d l ->
  let n := tri_vec v0 v1 v2 in let q := tri_root v0 v1 v2 in
  0 < q /\ q * q * (q * q) = dot3 n n /\
  (q * dot3 n (v3sub d (v3smul 1000 v0)) = dot3 n n \/ q * dot3 n (v3sub d (v3smul 1000 v0)) = - dot3 n n).
Proof. exact triangle_thick_offset_lem. Qed.
Print Assumptions C19_triangle_thick_offset.

(* POSITIVE, replaces the refutation of the code before 2fa0af8: in either branch and at EVERY size, every
   drawn vertex is within 4e-3 x size of the facet's plane *)
Theorem C19_triangle_on_surface : forall mag v0 v1 v2 l,
  make_triangle_x1000 mag v0 v1 v2 = Some l -> forallb (near_plane v0 v1 v2) l = true.
Proof. exact triangle_on_surface_lem. Qed.
Print Assumptions C19_triangle_on_surface.

(* |vec|^2 = (1000 * offset)^4 <= 12 size^4 for EVERY integer facet, representable or not: offset <= 1.87e-3 size *)
Theorem C19_triangle_offset_bound : forall v0 v1 v2,
  tri_nn v0 v1 v2 <= 12 * (tri_size v0 v1 v2 * tri_size v0 v1 v2) * (tri_size v0 v1 v2 * tri_size v0 v1 v2)
  /\ 0 <= tri_size v0 v1 v2.
Proof. exact tri_nn_bound. Qed.
Print Assumptions C19_triangle_offset_bound.

(* SCALE LAW: rescaling the facet by s > 0 rescales the whole drawn model, offset included, by s *)
Theorem C19_triangle_scale_law : forall s mag v0 v1 v2 l, 0 < s ->
  make_triangle_x1000 mag v0 v1 v2 = Some l ->
  make_triangle_x1000 mag (scale_facet s v0) (scale_facet s v1) (scale_facet s v2) = Some (map (v3smul s) l).
Proof. exact triangle_scale_law_lem. Qed.
Print Assumptions C19_triangle_scale_law.

(* RECORD (not about the current code): before 2fa0af8 the offset was 1e-3 * vec, an area; the facet
   (0,0,0),(100,0,0),(0,100,0) magnetised along z was drawn 10 units off its plane *)
Theorem C19_record_pre_2fa0af8_triangle_off_surface :
  existsb (fun d => negb (near_plane (0, 0, 0) (100, 0, 0) (0, 100, 0) d))
          (make_triangle_pre_2fa0af8_x1000 (0, 0, 1) (0, 0, 0) (100, 0, 0) (0, 100, 0)) = true.
Proof. exact triangle_pre_2fa0af8_record. Qed.
Print Assumptions C19_record_pre_2fa0af8_triangle_off_surface.

(* ---- non-vacuity *)
(* representable thickened facets exist, in and out of the coordinate planes (the hypotheses of the triangle
   theorems are satisfiable) *)
Example C19_triangle_nonvacuous :
  make_triangle_x1000 (0, 0, 1) (0, 0, 0) (100, 0, 0) (0, 100, 0)
    = Some [(0, 0, -100); (100000, 0, -100); (0, 100000, -100); (0, 0, 100); (100000, 0, 100); (0, 100000, 100)] /\
  tri_vec (0, 0, 0) (21, -14, 0) (21, -12, -1) = (14, 21, 42) /\
  make_triangle_x1000 (0, 0, 0) (0, 0, 0) (21, -14, 0) (21, -12, -1)
    = Some [(-2, -3, -6); (20998, -14003, -6); (20998, -12003, -1006);
            (2, 3, 6); (21002, -13997, 6); (21002, -11997, -994)].
Proof. exact triangle_examples. Qed.
Print Assumptions C19_triangle_nonvacuous.

(* the section hypotheses are satisfiable: Z^3 with signed permutations and integer scalars *)
Example C19_algebra_nonvacuous : ScaleLaws OctOps OctScale.
Proof. exact OctScaleLaws. Qed.
Print Assumptions C19_algebra_nonvacuous.

(* the hypotheses of C19_show_restores_style hold for a run in which a body edits its temporary style
   and a later body raises *)
Example C19_show_restores_style_nonvacuous :
  wf_heap Z ex_heap /\
  Forall (fun j : Z * option Z * (heap Z -> heap Z * outcome) =>
            (match snd (fst j) with Some r => r < fresh Z ex_heap | None => True end) /\
            body_frame Z (fst (fst j)) (snd j)) ex_jobs /\
  snd (show_loop Z ex_jobs ex_heap) = Raised /\
  fresh Z (fst (show_loop Z ex_jobs ex_heap)) = 6.
Proof. exact ex_show_hyps. Qed.
Print Assumptions C19_show_restores_style_nonvacuous.

(* a selection with out-of-range, duplicate and negative entries on a path of length 4 *)
Example C19_frames_nonvacuous :
  effective_inds 4 (SelList [7; -1; 1; 1; -4]) = Some [0; 3; 1; 3] /\
  effective_inds 7 (SelInt 3) = Some [0; 3; 6] /\ effective_inds 7 (SelInt (-3)) = Some [0; 3; 6] /\
  effective_inds 8 (SelInt 3) = Some [1; 4; 7] /\ effective_inds 8 (SelInt (-3)) = Some [0; 3; 6].
Proof. vm_compute. repeat split. Qed.
Print Assumptions C19_frames_nonvacuous.
