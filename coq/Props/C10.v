(* C10 -- operations on a Collection keep every child's pose relative to it.
   Statements only; every proof is `exact <lemma>` so that nothing is weakened here.
   The model (Model/CompoundModel.v) is built on Model/PathModel.v and on path_padding_param /
   pad_slice_path TRANSLATED from /repo on this run (Gen/GenPath.v).

   Vocabulary: a tree node is addressed by the list of child indices from the root (tpath);
   `tree_step t (p, x)` is the user call `node_at(p).<x>`; rel_pose c d i is the pose of d in
   the frame of c at path index i: (R_c^-1 (p_d - p_c), R_c^-1 R_d). *)
From Coq Require Import ZArith List Bool.
From MV Require Import Lib.ListZ Lib.Rigid Lib.OctZ Gen.GenPath Model.PathModel Model.CompoundModel
  Proofs.PathProofs Proofs.CompoundProofs Proofs.CompoundOps Proofs.CompoundRel Proofs.CompoundThm
  Proofs.CompoundMain.
Import ListNotations.
Open Scope Z_scope.

Section AnyRigidAlgebra.
Context {O : RigidOps} {L : RigidLaws O}.

(* "operating on a child alone changes only that child": a call on the node at p leaves the
   pose paths of every node that is not p or below p exactly as they were *)
Theorem C10_child_op_frame : forall (t : node) (p : tpath) (x : op) (q : tpath) (c : node),
  is_prefix p q = false -> subtree_at q t = Some c ->
  exists c', subtree_at q (tree_step t (p, x)) = Some c' /\ nobj c' = nobj c.
Proof. exact op_frame. Qed.

(* every operation keeps all path arrays of the whole tree of equal length >= 1 *)
Theorem C10_tree_lengths_invariant : forall (t : node) (px : tpath * op),
  wf_tree t -> wf_op (snd px) -> wf_tree (tree_step t px).
Proof. exact wf_tree_step. Qed.

(* ONE operation (move / rotate with any anchor and start / position= / orientation= /
   reset_path) on the collection at p.  c is that collection or any collection below it, d any
   node below c with the same path length: the pose of d in the frame of c is the old one at the
   edge-padded / end-sliced index clamp(i - b), and literally unchanged when the path length is. *)
Theorem C10_relative_pose_step :
  forall (t : node) (p g' dl : tpath) (x : op) (c d : node),
  wf_tree t -> wf_op x ->
  subtree_at (p ++ g') t = Some c -> subtree_at dl c = Some d ->
  zlen (pos (nobj c)) = zlen (pos (nobj d)) ->
  exists c' d' b,
    subtree_at (p ++ g') (tree_step t (p, x)) = Some c' /\ subtree_at dl c' = Some d' /\
    wf (nobj c') /\ wf (nobj d') /\ zlen (pos (nobj c')) = zlen (pos (nobj d')) /\
    (forall i, 0 <= i < zlen (pos (nobj c')) ->
       rel_pose (nobj c') (nobj d') i =
       rel_pose (nobj c) (nobj d) (clampZ (i - b) 0 (zlen (pos (nobj c)) - 1))) /\
    (zlen (pos (nobj c')) = zlen (pos (nobj c)) ->
       forall i, 0 <= i < zlen (pos (nobj c)) ->
         rel_pose (nobj c') (nobj d') i = rel_pose (nobj c) (nobj d) i).
Proof. exact relative_pose_step. Qed.

(* ANY finite history of such operations, each applied to c itself, to a collection containing
   c, or to a node that does not contain d (so: anything except operating on d or on a
   sub-collection of c that contains d, which legitimately moves d alone).  Nested to any
   depth; the index maps of the steps compose to clamp(i - b, lo, hi). *)
Theorem C10_relative_pose_invariant :
  forall (t : node) (g dl : tpath) (c d : node) (h : list (tpath * op)),
  wf_tree t -> subtree_at g t = Some c -> subtree_at dl c = Some d ->
  zlen (pos (nobj c)) = zlen (pos (nobj d)) ->
  Forall (fun px => wf_op (snd px) /\
            (is_prefix (fst px) g = true \/ is_prefix (fst px) (g ++ dl) = false)) h ->
  exists c' d' b lo hi,
    subtree_at g (tree_run t h) = Some c' /\ subtree_at dl c' = Some d' /\
    wf (nobj c') /\ wf (nobj d') /\ zlen (pos (nobj c')) = zlen (pos (nobj d')) /\
    0 <= lo <= hi /\ hi <= zlen (pos (nobj c)) - 1 /\
    forall i, 0 <= i < zlen (pos (nobj c')) ->
      rel_pose (nobj c') (nobj d') i = rel_pose (nobj c) (nobj d) (clampZ (i - b) lo hi).
Proof. exact relative_pose_invariant. Qed.

(* all members at once: histories of operations on c or on collections containing c (or
   outside c) move the frame and ALL members that share its path length by ONE index map *)
Theorem C10_collection_frame_invariant :
  forall (t : node) (g : tpath) (c : node) (h : list (tpath * op)),
  wf_tree t -> subtree_at g t = Some c ->
  Forall (fun px => wf_op (snd px) /\
            (is_prefix (fst px) g = true \/
             (is_prefix (fst px) g = false /\ is_prefix g (fst px) = false))) h ->
  exists c' b lo hi,
    subtree_at g (tree_run t h) = Some c' /\ wf (nobj c') /\
    0 <= lo <= hi /\ hi <= zlen (pos (nobj c)) - 1 /\
    forall dl d, subtree_at dl c = Some d -> zlen (pos (nobj d)) = zlen (pos (nobj c)) ->
      exists d', subtree_at dl c' = Some d' /\ wf (nobj d') /\
        zlen (pos (nobj d')) = zlen (pos (nobj c')) /\
        forall i, 0 <= i < zlen (pos (nobj c')) ->
          rel_pose (nobj c') (nobj d') i = rel_pose (nobj c) (nobj d) (clampZ (i - b) lo hi).
Proof. exact collection_frame_invariant. Qed.

(* consequence: what any sensor s of the collection reads (at any pixel offset x) of any source d
   of the collection, for an arbitrary field function f of the source in its own frame
   (element formula R_s^-1 R_d f(R_d^-1 (p_s + R_s x - p_d))), is the old value at the same
   clamped index -- with one index map for all sensors and sources, hence also for their sum *)
Theorem C10_own_sensor_field_invariant :
  forall (t : node) (g : tpath) (c : node) (h : list (tpath * op)),
  wf_tree t -> subtree_at g t = Some c ->
  Forall (fun px => wf_op (snd px) /\
            (is_prefix (fst px) g = true \/
             (is_prefix (fst px) g = false /\ is_prefix g (fst px) = false))) h ->
  exists c' b lo hi,
    subtree_at g (tree_run t h) = Some c' /\
    0 <= lo <= hi /\ hi <= zlen (pos (nobj c)) - 1 /\
    forall ds s dd d,
      subtree_at ds c = Some s -> zlen (pos (nobj s)) = zlen (pos (nobj c)) ->
      subtree_at dd c = Some d -> zlen (pos (nobj d)) = zlen (pos (nobj c)) ->
      exists s' d', subtree_at ds c' = Some s' /\ subtree_at dd c' = Some d' /\
        zlen (pos (nobj s')) = zlen (pos (nobj c')) /\ zlen (pos (nobj d')) = zlen (pos (nobj c')) /\
        forall (f : V -> V) (x : V) i, 0 <= i < zlen (pos (nobj c')) ->
          elem_field f x (pose_at (nobj s') i) (pose_at (nobj d') i) =
          elem_field f x (pose_at (nobj s) (clampZ (i - b) lo hi))
                         (pose_at (nobj d) (clampZ (i - b) lo hi)).
Proof. exact own_sensor_field_invariant. Qed.

End AnyRigidAlgebra.

Print Assumptions C10_child_op_frame.
Print Assumptions C10_tree_lengths_invariant.
Print Assumptions C10_relative_pose_step.
Print Assumptions C10_relative_pose_invariant.
Print Assumptions C10_collection_frame_invariant.
Print Assumptions C10_own_sensor_field_invariant.

(* ---- non-vacuity: a concrete 3-level tree (executable instance Z^3 x octahedral group) and
   a history on the root, a nested collection and a leaf meets every hypothesis *)
Definition ex_leaf (a : Z) : @node OctOps :=
  Node (init_pose (O := OctOps) (Vector [(a, 1, 0); (a, 2, 0)]) None) [].
Definition ex_tree : @node OctOps :=
  Node (init_pose (O := OctOps) (Vector [(0, 0, 1); (0, 0, 2)]) None)
    [ex_leaf 1;
     Node (init_pose (O := OctOps) (Vector [(5, 0, 0); (6, 0, 0)])
             (Some (Scalar (mkOct P120 false false false))))
          [ex_leaf 2; ex_leaf 3]].
Definition ex_hist : list (tpath * @op OctOps) :=
  [([], Rotate (Vector [mkOct P201 false false false; mkOct P120 false false false]) None (Some (-3)));
   ([1%nat], Move (Scalar (1, 1, 1)) None);
   ([0%nat], Move (Scalar (0, 0, 7)) None);
   ([], SetOri (Some (Scalar (mkOct P021 true false false))));
   ([1%nat], Reset)].

Example C10_nonvacuous :
  wf_tree ex_tree /\
  (exists c d, subtree_at [1%nat] ex_tree = Some c /\ subtree_at [1%nat] c = Some d /\
               zlen (pos (nobj c)) = zlen (pos (nobj d))) /\
  Forall (fun px => wf_op (snd px) /\
            (is_prefix (fst px) [1%nat] = true \/ is_prefix (fst px) ([1%nat] ++ [1%nat]) = false))
         ex_hist /\
  option_map (fun c' => zlen (pos (nobj c'))) (subtree_at [1%nat] (tree_run ex_tree ex_hist)) = Some 1.
Proof.
  split; [|split; [|split]].
  - vm_compute. repeat split; try reflexivity; try (intro; discriminate).
  - eexists; eexists. split; [reflexivity|]. split; [reflexivity|]. vm_compute. reflexivity.
  - unfold ex_hist. repeat apply Forall_cons; try apply Forall_nil; cbn [fst snd];
      (split; [cbv; repeat split; try (intro; discriminate)
              | first [left; reflexivity | right; reflexivity]]).
  - vm_compute. reflexivity.
Qed.
Print Assumptions C10_nonvacuous.

(* ---- the precondition "members share the collection's path length" cannot be dropped:
   a collection with path length 1 holding a child with path length 2; appending one step
   (vector input, start='auto') gives paths of length 2 and 3 -- the child's path no longer
   has the collection's length and its relative position at the last common index changed *)
Example C10_shared_length_is_needed :
  let t : @node OctOps :=
    Node (init_pose (O := OctOps) (Scalar (0, 0, 0)) None)
         [Node (init_pose (O := OctOps) (Vector [(1, 0, 0); (2, 0, 0)]) None) []] in
  let t' := tree_step t ([], Move (Vector [(0, 5, 0)]) None) in
  wf_tree t /\
  option_map (fun c => zlen (pos (nobj c))) (subtree_at [] t') = Some 2 /\
  option_map (fun d => zlen (pos (nobj d))) (subtree_at [0%nat] t') = Some 3 /\
  option_map (fun d => rel_pose (nobj t') (nobj d) 1) (subtree_at [0%nat] t')
    <> option_map (fun d => rel_pose (nobj t) (nobj d) 1) (subtree_at [0%nat] t).
Proof.
  cbv zeta. split; [vm_compute; repeat split; try reflexivity; try (intro; discriminate)|].
  split; [vm_compute; reflexivity|]. split; [vm_compute; reflexivity|].
  vm_compute. discriminate.
Qed.
Print Assumptions C10_shared_length_is_needed.

(* ---- the PHYSICAL instance: real positions R^3, proper rotations SO(3) (Lib/RigidR3.v).
   The two main theorems, instantiated; they depend on the standard-library reals axioms and on
   proof irrelevance (equality of rotations = equality of their matrices). *)
From MV Require Import Lib.RigidR3.

Theorem C10_relative_pose_invariant_R3 :
  forall (t : @node R3Ops) (g dl : tpath) (c d : @node R3Ops) (h : list (tpath * @op R3Ops)),
  wf_tree t -> subtree_at g t = Some c -> subtree_at dl c = Some d ->
  zlen (pos (nobj c)) = zlen (pos (nobj d)) ->
  Forall (fun px => wf_op (snd px) /\
            (is_prefix (fst px) g = true \/ is_prefix (fst px) (g ++ dl) = false)) h ->
  exists c' d' b lo hi,
    subtree_at g (tree_run t h) = Some c' /\ subtree_at dl c' = Some d' /\
    wf (nobj c') /\ wf (nobj d') /\ zlen (pos (nobj c')) = zlen (pos (nobj d')) /\
    0 <= lo <= hi /\ hi <= zlen (pos (nobj c)) - 1 /\
    forall i, 0 <= i < zlen (pos (nobj c')) ->
      rel_pose (nobj c') (nobj d') i = rel_pose (nobj c) (nobj d) (clampZ (i - b) lo hi).
Proof. exact (@relative_pose_invariant R3Ops R3Laws). Qed.

Theorem C10_own_sensor_field_invariant_R3 :
  forall (t : @node R3Ops) (g : tpath) (c : @node R3Ops) (h : list (tpath * @op R3Ops)),
  wf_tree t -> subtree_at g t = Some c ->
  Forall (fun px => wf_op (snd px) /\
            (is_prefix (fst px) g = true \/
             (is_prefix (fst px) g = false /\ is_prefix g (fst px) = false))) h ->
  exists c' b lo hi,
    subtree_at g (tree_run t h) = Some c' /\
    0 <= lo <= hi /\ hi <= zlen (pos (nobj c)) - 1 /\
    forall ds s dd d,
      subtree_at ds c = Some s -> zlen (pos (nobj s)) = zlen (pos (nobj c)) ->
      subtree_at dd c = Some d -> zlen (pos (nobj d)) = zlen (pos (nobj c)) ->
      exists s' d', subtree_at ds c' = Some s' /\ subtree_at dd c' = Some d' /\
        zlen (pos (nobj s')) = zlen (pos (nobj c')) /\ zlen (pos (nobj d')) = zlen (pos (nobj c')) /\
        forall (f : V3 -> V3) (x : V3) i, 0 <= i < zlen (pos (nobj c')) ->
          elem_field (O := R3Ops) f x (pose_at (nobj s') i) (pose_at (nobj d') i) =
          elem_field (O := R3Ops) f x (pose_at (nobj s) (clampZ (i - b) lo hi))
                                      (pose_at (nobj d) (clampZ (i - b) lo hi)).
Proof. exact (@own_sensor_field_invariant R3Ops R3Laws). Qed.

Print Assumptions C10_relative_pose_invariant_R3.
Print Assumptions C10_own_sensor_field_invariant_R3.

(* non-vacuity over the reals: a collection holding one child, rotated by 90 degrees about z *)
From Coq Require Import Reals.
Example C10_nonvacuous_R3 :
  let t : @node R3Ops :=
    Node (init_pose (O := R3Ops) (Scalar (0, 0, 0)%R) None)
         [Node (init_pose (O := R3Ops) (Scalar (1, 0, 0)%R) None) []] in
  wf_tree t /\
  Forall (fun px : tpath * @op R3Ops => wf_op (snd px) /\
            (is_prefix (fst px) [] = true \/ is_prefix (fst px) ([] ++ [0%nat]) = false))
         [([], Rotate (Scalar rotz90) None None)].
Proof.
  cbv zeta. split.
  - cbn. unfold wf. cbn. repeat split; try reflexivity; try (intro; discriminate).
  - repeat constructor; cbn; try reflexivity; try (intro; discriminate).
Qed.
Print Assumptions C10_nonvacuous_R3.

(* ---- tie by translation (Gen/GenPathFlow.v, re-derived from /repo on every run): the children loops
   of BaseTransform.move / _rotate and of the BaseGeo setters forward exactly what CompoundModel
   forwards; the compound anchor is the slice of the handed-down parent path *)
From Coq Require Import String.
From MV Require Import Gen.GenPathFlow Model.L2Arith Model.PathFlow Proofs.PathFlowProofs.
Open Scope string_scope.
Open Scope Z_scope.

Theorem C10_flow_translated : flow = expected_flow.
Proof. exact flow_translated. Qed.

Section FlowSemantics.
Context {O : RigidOps}.

Theorem C10_move_children_translated :
  forall (o : obj) (ch : list node) (d : inp V) (st : option Z),
  (callee e_move_child, arg 0 e_move_child, nargs e_move_child, kwnames e_move_child, kwarg "start" e_move_child)
    = (PAttr (PName "child") "move", PName "displacement", 1%nat, ["start"], PName "start") /\
  (callee e_move_self, arg 0 e_move_self, arg 1 e_move_self, kwnames e_move_self, kwarg "start" e_move_self)
    = (PName "apply_move", PName "self", PName "displacement", ["start"], PName "start") /\
  move_t (Node o ch) d st = Node (apply_move o d st) (map (fun c => move_t c d st) ch).
Proof. exact move_children_translated. Qed.

Theorem C10_rotate_children_translated :
  exists f, interp_ppth e_rot_ppth = Some f /\
  (callee e_rot_child, arg 0 e_rot_child, nargs e_rot_child, kwnames e_rot_child) =
    (PAttr (PName "child") "_rotate", PName "rotation", 1%nat, ["anchor"; "start"; "parent_path"]) /\
  (kwarg "anchor" e_rot_child, kwarg "start" e_rot_child, kwarg "parent_path" e_rot_child) =
    (PName "anchor", PName "start", PName "ppth") /\
  (callee e_rot_self, arg 0 e_rot_self, arg 1 e_rot_self, kwnames e_rot_self) =
    (PName "apply_rotation", PName "self", PName "rotation", ["anchor"; "start"; "parent_path"]) /\
  (kwarg "anchor" e_rot_self, kwarg "start" e_rot_self, kwarg "parent_path" e_rot_self) =
    (PName "anchor", PName "start", PName "parent_path") /\
  get "rotate" "return" "" 0 flow =
    PCall (PAttr (PName "self") "_rotate") []
          [("rotation", PName "rotation"); ("anchor", PName "anchor"); ("start", PName "start")] /\
  forall (o : obj) (ch : list node) (r : inp G) (a : option (inp V)) (st : option Z) (pp : option (list V)),
    rotate_t (Node o ch) r a st pp =
    Node (apply_rotation o r a st pp)
         (map (fun c => rotate_t c r a st (Some (f (list V) (PathModel.pos o) pp))) ch).
Proof. exact rotate_children_translated. Qed.

(* no stored position array is updated in place (fix 57d6fdd: Collection.move(child.position, ...)) *)
Theorem C10_path_copy_translated :
  get "path_padding" "assign" "ppath" 0 flow =
    PCall (PAttr (PAttr (PName "target_object") "_position") "copy") [] [] /\
  get "path_padding" "assign" "opath" 0 flow =
    PCall (PAttr (PAttr (PName "target_object") "_orientation") "as_quat") [] [].
Proof. exact path_copy_translated. Qed.

Theorem C10_children_first_translated :
  (exists i j, index_of "_rotate" "for" (fun _ => true) 0 flow = Some i /\
               index_of "_rotate" "expr" (is_call_of (PName "apply_rotation")) 0 flow = Some j /\ (i < j)%nat) /\
  (exists i j, index_of "move" "for" (fun _ => true) 0 flow = Some i /\
               index_of "move" "expr" (is_call_of (PName "apply_move")) 0 flow = Some j /\ (i < j)%nat).
Proof. exact children_first_translated. Qed.

Theorem C10_parent_anchor_model : forall (o : obj) (r : inp G) (st : option Z) (pp : list V),
  let '(ppath, opath, newstart, e, _) := path_padding (is_scalar r) (ilen r) st o in
  let '(padding, s2) := path_padding_param (is_scalar r) (zlen pp) (e - newstart) st in
  let pp' := match padding with Some (b, a) => edge_pad vzero b a pp | None => pp end in
  apply_rotation o r None st (Some pp) =
  {| PathModel.pos := upd_range newstart e
              (fun j p => vadd (act (iget gone r j) (vsub p (nthZ vzero pp' (s2 + j))))
                               (nthZ vzero pp' (s2 + j))) ppath;
     ori := upd_range newstart e (fun j q => gmul (iget gone r j) q) opath |}.
Proof. exact parent_anchor_model. Qed.

Theorem C10_position_setter_translated :
  forall (o : obj) (c : node) (rest : list node) (ps : list V),
  get "position.setter" "assign" "old_pos" 0 flow = SELFPOS /\
  psp_args e_ps_ori = Some (SELFPOS, PName "oriQ") /\
  psp_args e_ps_old = Some (SELFPOS, PName "old_pos") /\
  psp_args e_ps_child = Some (SELFPOS, CHILDPOS) /\
  get "position.setter" "assign" "rel_child_pos" 0 flow = PBin "-" (PName "child_pos") (PName "old_pos") /\
  find_nth "position.setter" "assign" "child.position" 0 flow =
    Some (PBin "+" SELFPOS (PName "rel_child_pos")) /\
  set_position_t (Node o (c :: rest)) ps =
    Node {| PathModel.pos := ps; ori := pad_slice_path gone ps (ori o) |}
      (let old_pos := pad_slice_path vzero ps (PathModel.pos o) in
       let child_pos := pad_slice_path vzero ps (PathModel.pos (nobj c)) in
       let rel_child_pos := zipw vsub child_pos old_pos in
       set_position_t c (zipw vadd ps rel_child_pos) :: setpos_children set_position_t ps old_pos rest).
Proof. exact position_setter_translated. Qed.

Theorem C10_orientation_setter_translated :
  psp_args e_os_pos = Some (PName "oriQ", SELFPOS) /\
  psp_args e_os_child = Some (SELFPOS, CHILDPOS) /\
  e_os_oldpad = PCall (PAttr (PName "R") "from_quat")
                  [PCall (PAttr (PName "np") "squeeze")
                     [PCall (PName "pad_slice_path") [PName "oriQ"; PName "old_oriQ"] []] []] [] /\
  (callee e_os_rot, arg 0 e_os_rot, kwnames e_os_rot, kwarg "anchor" e_os_rot, kwarg "start" e_os_rot) =
    (PAttr (PName "child") "rotate",
     PBin "*" (PAttr (PName "self") "orientation") (PCall (PAttr (PName "old_ori_pad") "inv") [] []),
     ["anchor"; "start"], SELFPOS, PInt 0) /\
  (find_nth "reset_path" "assign" "self.position" 0 flow, find_nth "reset_path" "assign" "self.orientation" 0 flow)
    = (Some (PTuple [PInt 0; PInt 0; PInt 0]), Some PNone).
Proof. exact orientation_setter_translated. Qed.

End FlowSemantics.

Print Assumptions C10_flow_translated.
Print Assumptions C10_move_children_translated.
Print Assumptions C10_rotate_children_translated.
Print Assumptions C10_children_first_translated.
Print Assumptions C10_path_copy_translated.
Print Assumptions C10_parent_anchor_model.
Print Assumptions C10_position_setter_translated.
Print Assumptions C10_orientation_setter_translated.
