(* C01 -- returned fields equal the magnetostatic integrals they claim to solve.
   Statements only; every proof is `exact <lemma>`.  All theorems are about the models of
   Model/CoreModel.v instantiated with Coq's real numbers (NumR); the models are tied to the
   implementation by the float correspondence of harness/props/C01.py (which validates the
   model, it proves nothing), binary64 rounding is outside every theorem. *)
From Coq Require Import Reals.
From Coquelicot Require Import Coquelicot.
From MV Require Import Model.CoreNum Model.CoreModel Model.CoreSpec Proofs.CoreProofs.
Open Scope R_scope.

(* Dipole: for every moment and every observer off the dipole, dipole_Hfield is the point-dipole
   formula H = (3 (m.r) r/|r|^5 - m/|r|^3)/(4 pi), and BHJM_dipole gives B = mu0 H *)
Theorem C01_dipole_is_point_dipole : forall (mu0 : R) (o m : RV3), o <> (0, 0, 0) ->
  dipole_BH NumR FB mu0 o m = Rvscale mu0 (point_dipole_H o m)
  /\ dipole_BH NumR FH mu0 o m = point_dipole_H o m.
Proof. exact dipole_B_spec. Qed.
Print Assumptions C01_dipole_is_point_dipole.

(* Sphere, outside branch: B and H of BHJM_magnet_sphere equal the point-dipole field of the
   sphere's total moment m = J (pi |d|^3 / 6) / mu0 (which is the exterior field of a
   homogeneously polarised sphere; THAT textbook fact is not formalised) *)
Theorem C01_sphere_outside_is_dipole : forall (mu0 d : R) (o P : RV3),
  mu0 <> 0 -> Rabs d / 2 < Rnorm o ->
  sphere_BH NumR FB mu0 o d P = Rvscale mu0 (point_dipole_H o (sphere_moment mu0 d P))
  /\ sphere_BH NumR FH mu0 o d P = point_dipole_H o (sphere_moment mu0 d P).
Proof. exact sphere_outside_spec. Qed.
Print Assumptions C01_sphere_outside_is_dipole.

Example C01_sphere_outside_nonvacuous : Rabs 1 / 2 < Rnorm (1, 0, 0) /\ (1, 0, 0) <> (0, 0, 0).
Proof. exact sphere_outside_nonvacuous. Qed.
