(* C01 -- returned fields equal the magnetostatic integrals they claim to solve.
   Statements only; every proof is `exact <lemma>`.  All theorems are about the models of
   Model/CoreModel.v instantiated with Coq's real numbers (NumR); the models are tied to the
   implementation by the float correspondence of harness/props/C01.py (which validates the
   model, it proves nothing), binary64 rounding is outside every theorem. *)
From Coq Require Import Reals.
From Coquelicot Require Import Coquelicot.
From MV Require Import Lib.Rigid Gen.GenCore Gen.GenCuboid Model.CuboidCore Model.CorePinned Model.CoreNum Model.CoreModel Model.CoreSpec Model.CoreFrame
  Proofs.CoreProofs Proofs.CoreIntegrals Proofs.CorePolyline Proofs.CoreCuboidInt Proofs.CoreFrameProofs Proofs.CoreFloatWitness.
Open Scope R_scope.

(* Dipole: for every moment and every observer off the dipole, dipole_Hfield is the point-dipole
   formula H = (3 (m.r) r/|r|^5 - m/|r|^3)/(4 pi), and BHJM_dipole gives B = mu0 H *)
Theorem C01_dipole_is_point_dipole : forall (mu0 : R) (o m : RV3), o <> (0, 0, 0) ->
  dipole_BH NumR FB mu0 o m = Rvscale mu0 (point_dipole_H o m)
  /\ dipole_BH NumR FH mu0 o m = point_dipole_H o m.
Proof. exact dipole_B_spec. Qed.
Print Assumptions C01_dipole_is_point_dipole.

(* Sphere, outside branch: B and H of BHJM_magnet_sphere equal the point-dipole field of the
   sphere's total moment m = J (pi |d|^3 / 6) / mu0 (which is the exterior field of a
   homogeneously polarised sphere; THAT textbook fact is not formalised) *)
Theorem C01_sphere_outside_is_dipole : forall (mu0 d : R) (o P : RV3),
  mu0 <> 0 -> Rabs d / 2 < Rnorm o ->
  sphere_BH NumR FB mu0 o d P = Rvscale mu0 (point_dipole_H o (sphere_moment mu0 d P))
  /\ sphere_BH NumR FH mu0 o d P = point_dipole_H o (sphere_moment mu0 d P).
Proof. exact sphere_outside_spec. Qed.
Print Assumptions C01_sphere_outside_is_dipole.

Example C01_sphere_outside_nonvacuous : Rabs 1 / 2 < Rnorm (1, 0, 0) /\ (1, 0, 0) <> (0, 0, 0).
Proof. exact sphere_outside_nonvacuous. Qed.

(* Circle, observer on the axis (d <> 0): the mask logic of BHJM_circle selects the on-axis branch
   and every component of its value is the Biot-Savart loop integral over phi in [0, 2 pi] *)
Theorem C01_circle_on_axis_is_biot_savart : forall (cur d z : R) (i : nat), d <> 0 ->
  exists h, circle_H NumR (0, 0, z) d cur = Some h /\
    is_RInt (bs_circle_integrand cur (Rabs (d / 2)) (0, 0, z) i) 0 (2 * PI) (comp i h).
Proof. exact circle_on_axis_spec. Qed.
Print Assumptions C01_circle_on_axis_is_biot_savart.

(* Polyline segment (current_polyline_Hfield + BHJM_current_polyline for one segment, as of /repo ed8562c), IN FULL:
   for p1 <> p2 and every observer whose distance from the supporting line is at least 1e-15 segment
   lengths (|(p2-p1) x (o-p1)| >= 1e-15 |p2-p1|^2: exactly the observers that pass the code's on-line
   mask `norm_o4 < 1e-15`), every component of the returned H is the Biot-Savart line integral
   I/(4 pi) Int_0^1 ((p2-p1) x (o - l(s)))_i / |o - l(s)|^3 ds,  l(s) = p1 + s (p2-p1)  (Coquelicot is_RInt:
   the integral exists and has this value).  All three branches mask2/mask3/mask4 are covered. *)
Theorem C01_polyline_segment_is_biot_savart : forall (cur : R) (o p1 p2 : RV3) (i : nat),
  p1 <> p2 ->
  1 / 1000000000000000 * segA o p1 p2 <= Rnorm (segX o p1 p2) ->
  is_RInt (bs_segment_integrand cur o p1 p2 i) 0 1 (comp i (polyline_H NumR o p1 p2 cur)).
Proof. exact polyline_segment_is_biot_savart. Qed.
Print Assumptions C01_polyline_segment_is_biot_savart.

Example C01_polyline_nonvacuous :
  (0, 0, 0) <> (1, 0, 0) /\ 1 / 1000000000000000 * segA (0, 1, 0) (0, 0, 0) (1, 0, 0) <= Rnorm (segX (0, 1, 0) (0, 0, 0) (1, 0, 0)).
Proof. exact polyline_nonvacuous. Qed.

(* ... and ON the supporting line (e.g. on the extension of the segment) the on-line mask returns 0, which is the
   integral (the cross product in the integrand vanishes identically).  Not covered by any theorem: observers
   with 0 < distance < 1e-15 segment lengths from the line, where the code returns 0 by design. *)
Theorem C01_polyline_on_line_is_biot_savart : forall (cur : R) (o p1 p2 : RV3) (i : nat),
  p1 <> p2 -> segX o p1 p2 = (0, 0, 0) ->
  is_RInt (bs_segment_integrand cur o p1 p2 i) 0 1 (comp i (polyline_H NumR o p1 p2 cur)).
Proof. exact polyline_on_line_is_biot_savart. Qed.
Print Assumptions C01_polyline_on_line_is_biot_savart.

(* Cuboid, PARTIAL (stretch theorem of DESIGN 5/C01).  About magnet_cuboid_Bfield as TRANSLATED from /repo on every
   run (Gen/GenCuboid.v: the six corner-sum terms and the contribution table; Model/CuboidCore.v: octant folding and sign
   matrices; both owned by C05/C13 and imported read-only), with numpy's arctan2 (CoreNum.Ratan2):
   for a z-polarised cuboid and every observer ABOVE THE TOP FACE (z > dz/2, any x, y) the z-component of B equals
   J/(4 pi) * (Coulombian integral of the top face's surface charge +J  -  that of the bottom face), each face integral
   being the iterated Riemann integral  Int_{-a}^{a} Int_{-b}^{b} h / |o - r'|^3 dy' dx'  of the normal component of the
   point-charge kernel, h = distance of the observer from the face's plane; second conjunct: both the outer and every inner
   integral exist (is_RInt), i.e. face_integral is a genuine integral.
   PARTIAL because: only polarisation along z and only the field component along z (term ff1z), only observers beyond the
   faces in z; the in-plane position enters through the code's octant folding (fold_x x = |x|, fold_y y = -|y|): that
   the face integral is invariant under these reflections is not formalised; the integral is an iterated 1-D integral, not a
   2-D surface integral; x/y-polarised parts, log terms (the three ff2 terms), inside observers and the six other classes stay unproved. *)
Theorem C01_cuboid_polz_above_is_coulomb_partial :
  (forall x y z dx dy dz J : R, 0 < dz -> dz / 2 < z ->
     comp 2 (cuboid_B Ratan2 (x, y, z) (dx, dy, dz) (0, 0, J))
     = J / (4 * PI) * (face_integral (z - dz / 2) (fold_x x) (fold_y y) (dx / 2) (dy / 2)
                       - face_integral (z + dz / 2) (fold_x x) (fold_y y) (dx / 2) (dy / 2)))
  /\ (forall h x y a b : R, 0 < h ->
        is_RInt (fun x' => RInt (fun y' => coulomb_kern h (x - x') (y - y')) (- b) b) (- a) a (face_integral h x y a b)
        /\ (forall x', is_RInt (fun y' => coulomb_kern h (x - x') (y - y')) (- b) b
                         (RInt (fun y' => coulomb_kern h (x - x') (y - y')) (- b) b))).
Proof. exact cuboid_polz_above_is_coulomb_partial. Qed.
Print Assumptions C01_cuboid_polz_above_is_coulomb_partial.

(* getBH_level1: in every rigid-motion algebra, the field returned at the global image
   (R ol + p) of a local point ol is the rotated local field R F(ol) *)
Theorem C01_level1_frame : forall (O : RigidOps) (L : RigidLaws O) (F : V -> V) (p : V) (r : G) (ol : V),
  level1_row F p r (to_global p r ol) = act r (F ol).
Proof. exact (@level1_frame). Qed.
Print Assumptions C01_level1_frame.

(* Recorded finding biot-savart/Polyline:outside:edge-extension: witnessed on the binary64 instance of
   the SAME model by Proofs/CoreFloatWitness.v (polyline_ext_witness_true, vm_compute; compiled with this
   file through the Require above).  It is not restated here because Print Assumptions lists Coq's
   primitive-float operations (PrimFloat.add ...) which the harness does not accept as assumptions. *)

(* The tie, inside Coq: the implementation functions modelled by CoreModel.v / CoreFrame.v have, on
   this run, exactly the source text (AST fingerprint, regenerated from /repo into Gen/GenCore.v)
   against which the model was written *)
Example C01_model_pinned_to_source : core_fingerprints = pinned_fingerprints.
Proof. vm_compute. reflexivity. Qed.
