(* C15 -- guards_sufficient for wrappers whose models belong to other properties (imported read-only):
   Model/CoreModel.v (dipole, sphere, polyline: hand models tied by the C01 correspondence) and Gen/GenCuboid.v
   (TRANSLATED from /repo on every run).  Statements only; proofs are `exact`.  All over the reals. *)
From Coq Require Import Reals ZArith Bool List.
From MV Require Import Model.CoreNum Model.CoreModel Gen.GenCuboid Proofs.GuardProofs.
Local Open Scope R_scope.

(* Dipole: off r == 0 (the documented singular point, and over R exactly the dipole's location) r^5, r^3, 4, pi are non-zero *)
Theorem C15_guards_sufficient_dipole : forall x y z : R,
  let r := sqrt (x * x + y * y + z * z) in
  (Reqb r 0 = false -> 0 < r /\ pow5 NumR r <> 0 /\ pow3 NumR r <> 0 /\ c4 NumR <> 0 /\ cpi NumR <> 0) /\
  (r = 0 <-> x = 0 /\ y = 0 /\ z = 0).
Proof. exact dipole_guards. Qed.
Print Assumptions C15_guards_sufficient_dipole.

(* Sphere: the outside branch (r > |d|/2) divides by r^5 > 0 and 3; the inside branch divides by constants only *)
Theorem C15_guards_sufficient_sphere : forall (x y z d : R),
  sphere_out NumR (x, y, z) d = true ->
  let r := sqrt (x * x + y * y + z * z) in 0 < r /\ pow5 NumR r <> 0 /\ c3 NumR <> 0.
Proof. exact sphere_guards. Qed.
Print Assumptions C15_guards_sufficient_sphere.

(* Polyline (formula as of /repo ed8562c, after the division by the segment length): off the line (not mask1)
   norm_o4, norm_cros, norm_o1, norm_o2 and the denominator of deltaSin_beyond are positive *)
Theorem C15_guards_sufficient_polyline : forall qo q1 q2 : V3 NumR,
  let d := vsub NumR q1 q2 in
  let t := vdot NumR (vsub NumR qo q1) d in
  let q4 := vadd NumR q1 (vscale NumR t d) in
  let w := vsub NumR qo q4 in
  let no4 := vnorm NumR w in
  let nc := vnorm NumR (vcross NumR (vsub NumR q2 q1) w) in
  let no1 := vnorm NumR (vsub NumR qo q1) in
  let no2 := vnorm NumR (vsub NumR qo q2) in
  let n41 := vnorm NumR (vsub NumR q4 q1) in
  let n42 := vnorm NumR (vsub NumR q4 q2) in
  sumsq3 d = 1 -> Rltb no4 (e15 NumR) = false ->
  0 < no4 /\ 0 < nc /\ 0 < no1 /\ 0 < no2 /\ 0 <= n41 /\ 0 <= n42 /\ 1 <= n41 + n42 /\
  0 < no1 * no2 * (n41 * no2 + n42 * no1).
Proof. exact polyline_guards. Qed.
Print Assumptions C15_guards_sufficient_polyline.

(* Cuboid (partial: the ln arguments; arctan2 is total on finite arguments and needs no guard): ff2x, ff2y, ff2z of the
   translated cuboid_ff are ln(arg) - ln(arg) of cub_ln_args, and for the folded observer (x >= 0, y <= 0, z <= 0) off
   the three extended edge lines through the corner (a, -b, -c) all six arguments are positive *)
Theorem C15_cuboid_ln_args_are_the_translated_ones : forall at2 x y z a b c,
  let '(_, _, _, f2x, f2y, f2z) := cuboid_ff at2 x y z a b c in
  let '((X1, X2), (Y1, Y2), (Z1, Z2)) := cub_ln_args x y z a b c in
  f2x = ln X1 - ln X2 /\ f2y = ln Y1 - ln Y2 /\ f2z = ln Z1 - ln Z2.
Proof. exact cuboid_ff_ln_args. Qed.
Print Assumptions C15_cuboid_ln_args_are_the_translated_ones.

Theorem C15_guards_sufficient_cuboid_partial : forall x y z a b c : R,
  0 < a -> 0 < b -> 0 < c -> 0 <= x -> y <= 0 -> z <= 0 ->
  ~ (y + b = 0 /\ z + c = 0 /\ x - a <= 0) ->
  ~ (x - a = 0 /\ z + c = 0 /\ 0 <= y + b) ->
  ~ (x - a = 0 /\ y + b = 0 /\ 0 <= z + c) ->
  let '((X1, X2), (Y1, Y2), (Z1, Z2)) := cub_ln_args x y z a b c in
  0 < X1 /\ 0 < X2 /\ 0 < Y1 /\ 0 < Y2 /\ 0 < Z1 /\ 0 < Z2.
Proof. exact cuboid_ln_guards. Qed.
Print Assumptions C15_guards_sufficient_cuboid_partial.

Example C15_cuboid_guards_nonvacuous :
  let '((X1, X2), (Y1, Y2), (Z1, Z2)) := cub_ln_args 2 (-3) (-3) 1 1 1 in
  0 < X1 /\ 0 < X2 /\ 0 < Y1 /\ 0 < Y2 /\ 0 < Z1 /\ 0 < Z2.
Proof. exact cuboid_ln_guards_nonvacuous. Qed.
Print Assumptions C15_cuboid_guards_nonvacuous.
