(* C14 -- returned fields obey the integral laws of magnetostatics.   PARTIAL.

   Statements only; every proof is `exact <lemma>`.

   What is NOT here: a statement about the flux of B through a closed surface or the circulation
   of H around a closed loop in three dimensions.  The installed libraries have no surface
   integral and no divergence / Stokes theorem (Coquelicot: one-dimensional RInt only), so the
   integral laws themselves are not provable with them.  What is proved, for the models of
   Model/CoreModel.v over Coq's reals (tied to the implementation by the float correspondence
   of harness/props/C14.py), is
     * the LOCAL form of both laws where it is tractable: div F = 0 and curl F = 0 for
       F = B and F = H of the dipole (off the dipole) and of the sphere (exterior and interior);
     * the source term of both laws for the sphere: B - mu0 H = J 1_inside.
   Cuboid, Cylinder, CylinderSegment, Tetrahedron, TriangularMesh, the general Circle branch,
   Polyline, collections, arbitrary surfaces / loops: quadrature sweep on the implementation
   only (search, not proof). *)
From Coq Require Import Reals.
From Coquelicot Require Import Coquelicot.
From MV Require Import Model.CoreNum Model.CoreModel Model.CoreSpec Model.LawsModel Proofs.LawsProofs.
Open Scope R_scope.

(* dipole_Hfield / BHJM_dipole, B and H: differentiable, divergence-free and curl-free at every
   observer off the dipole *)
Theorem C14_dipole_source_free_partial : forall (f : field) (mu0 : R) (m o : RV3),
  o <> (0, 0, 0) -> source_free_at (dipBH f mu0 m) o.
Proof. exact dipole_BH_source_free. Qed.
Print Assumptions C14_dipole_source_free_partial.

(* BHJM_magnet_sphere, B and H, outside the sphere: inherited from the dipole *)
Theorem C14_sphere_exterior_source_free_partial : forall (f : field) (mu0 d : R) (P o : RV3),
  mu0 <> 0 -> Rabs d / 2 < Rnorm o -> source_free_at (sphBH f mu0 d P) o.
Proof. exact sphere_exterior_source_free. Qed.
Print Assumptions C14_sphere_exterior_source_free_partial.

(* ... and strictly inside (uniform field) *)
Theorem C14_sphere_interior_source_free_partial : forall (f : field) (mu0 d : R) (P o : RV3),
  mu0 <> 0 -> Rnorm o < Rabs d / 2 -> source_free_at (sphBH f mu0 d P) o.
Proof. exact sphere_interior_source_free. Qed.
Print Assumptions C14_sphere_interior_source_free_partial.

(* link to C02: B - mu0 H = J 1_inside is the source term of both laws *)
Theorem C14_sphere_B_mu0H_J : forall (mu0 d : R) (P o : RV3), mu0 <> 0 ->
  sphBH FB mu0 d P o = Rvadd (Rvscale mu0 (sphBH FH mu0 d P o)) (sphJ d P o).
Proof. exact sphere_B_mu0H_J. Qed.
Print Assumptions C14_sphere_B_mu0H_J.

Theorem C14_dipole_B_mu0H : forall (mu0 : R) (m o : RV3),
  dipBH FB mu0 m o = Rvscale mu0 (dipBH FH mu0 m o).
Proof. exact dipole_B_is_mu0_H. Qed.
Print Assumptions C14_dipole_B_mu0H.

(* jump conditions at the sphere surface (what makes the integral laws hold for surfaces and
   loops that cut through the magnet boundary): along every ray t |-> t*o through a surface
   point o, the normal component of B and the tangential components of H are continuous at the
   surface (t = 1) ... *)
Theorem C14_sphere_normal_B_continuous : forall (mu0 d : R) (P o : RV3),
  mu0 <> 0 -> 0 < Rabs d -> Rnorm o = Rabs d / 2 ->
  continuous (fun t => Rdot (sphBH FB mu0 d P (radial t o)) o) 1.
Proof. exact sphere_normal_B_continuous. Qed.
Print Assumptions C14_sphere_normal_B_continuous.

Theorem C14_sphere_tangential_H_continuous : forall (mu0 d : R) (P o : RV3) (i : nat),
  mu0 <> 0 -> 0 < Rabs d -> Rnorm o = Rabs d / 2 ->
  continuous (fun t => comp i (Rcross (sphBH FH mu0 d P (radial t o)) o)) 1.
Proof. exact sphere_tangential_H_continuous. Qed.
Print Assumptions C14_sphere_tangential_H_continuous.

(* ... while the normal component of H jumps by (P.o)/mu0 = M.o, the surface pole density
   that B - mu0 H = J 1_inside puts into div H *)
Theorem C14_sphere_normal_H_jump : forall (mu0 d : R) (P o : RV3) (t : R),
  mu0 <> 0 -> 0 < Rabs d -> Rnorm o = Rabs d / 2 ->
  (0 < t <= 1 -> Rdot (sphBH FH mu0 d P (radial t o)) o = - (1 / 3) * (Rdot P o / mu0))
  /\ (1 < t -> Rdot (sphBH FH mu0 d P (radial t o)) o = 2 / 3 * (Rdot P o / mu0) / (t * t * t)).
Proof. exact sphere_normal_H_ray. Qed.
Print Assumptions C14_sphere_normal_H_jump.

(* Circle, on-axis branch of BHJM_circle: a one-dimensional Ampere statement.  The line integral
   of H_z along the axis from -L to L is I L / sqrt(L^2 + r0^2) and differs from the threading
   current I by at most |I| r0^2 / L^2.  (That the return path at infinity contributes nothing,
   and any other loop, are NOT proved.) *)
Theorem C14_circle_axis_ampere_partial : forall (d cur L : R), d <> 0 -> 0 < L ->
  is_RInt (circ_axis d cur) (- L) L (cur * (L / sqrt (L * L + Rabs (d / 2) * Rabs (d / 2))))
  /\ Rabs (cur * (L / sqrt (L * L + Rabs (d / 2) * Rabs (d / 2))) - cur)
     <= Rabs cur * (Rabs (d / 2) * Rabs (d / 2) / (L * L)).
Proof. exact circle_axis_ampere. Qed.
Print Assumptions C14_circle_axis_ampere_partial.

(* non-vacuity: the hypotheses of the theorems above are satisfiable *)
Example C14_nonvacuous :
  (1, 0, 0) <> (0, 0, 0) /\ Rabs 1 / 2 < Rnorm (1, 0, 0) /\ Rnorm (0, 0, 0) < Rabs 1 / 2
  /\ Rnorm (1 / 2, 0, 0) = Rabs 1 / 2 /\ 0 < Rabs 1.
Proof. exact laws_nonvacuous. Qed.
