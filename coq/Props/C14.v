(* C14 -- returned fields obey the integral laws of magnetostatics.   PARTIAL.

   Statements only; every proof is `exact <lemma>`.

   What is NOT here: a statement about the flux of B through a closed surface or the circulation
   of H around a closed loop in three dimensions.  The installed libraries have no surface
   integral and no divergence / Stokes theorem (Coquelicot: one-dimensional RInt only), so the
   integral laws themselves are not provable with them.  What is proved, for the models of
   Model/CoreModel.v over Coq's reals (tied to the implementation by the float correspondence
   of harness/props/C14.py), is
     * the LOCAL form of both laws where it is tractable: F differentiable, div F = 0 and
       curl F = 0 for F = B and F = H of the dipole (off the dipole), of the sphere (exterior
       and interior), and for H of a CLOSED Polyline (clear of the wire's supporting lines);
       for an open vertex chain div H = 0 and curl H = the two end-point source terms;
     * the jump conditions at the sphere surface (normal B and tangential H continuous, normal
       H jumps by M.n) that make the laws hold for surfaces / loops cutting the boundary;
     * the source term of both laws: B - mu0 H = J 1_inside (sphere), B = mu0 H (dipole);
     * one honest one-dimensional integral: Ampere's law along the axis of a Circle.
   Cuboid, Cylinder, CylinderSegment, Tetrahedron, TriangularMesh, the general (off-axis)
   Circle branch, collections, arbitrary surfaces / loops: quadrature sweep on the
   implementation only (search, not proof). *)
From Coq Require Import Reals.
From Coquelicot Require Import Coquelicot.
From Coq Require Import List.
From MV Require Import Model.CoreNum Model.CoreModel Model.CoreSpec Model.LawsModel Proofs.LawsProofs Proofs.LawsPolyline.
Open Scope R_scope.

(* dipole_Hfield / BHJM_dipole, B and H: differentiable, divergence-free and curl-free at every
   observer off the dipole *)
Theorem C14_dipole_source_free_partial : forall (f : field) (mu0 : R) (m o : RV3),
  o <> (0, 0, 0) -> source_free_at (dipBH f mu0 m) o.
Proof. exact dipole_BH_source_free. Qed.
Print Assumptions C14_dipole_source_free_partial.

(* BHJM_magnet_sphere, B and H, outside the sphere: inherited from the dipole *)
Theorem C14_sphere_exterior_source_free_partial : forall (f : field) (mu0 d : R) (P o : RV3),
  mu0 <> 0 -> Rabs d / 2 < Rnorm o -> source_free_at (sphBH f mu0 d P) o.
Proof. exact sphere_exterior_source_free. Qed.
Print Assumptions C14_sphere_exterior_source_free_partial.

(* ... and strictly inside (uniform field) *)
Theorem C14_sphere_interior_source_free_partial : forall (f : field) (mu0 d : R) (P o : RV3),
  mu0 <> 0 -> Rnorm o < Rabs d / 2 -> source_free_at (sphBH f mu0 d P) o.
Proof. exact sphere_interior_source_free. Qed.
Print Assumptions C14_sphere_interior_source_free_partial.

(* link to C02: B - mu0 H = J 1_inside is the source term of both laws *)
Theorem C14_sphere_B_mu0H_J : forall (mu0 d : R) (P o : RV3), mu0 <> 0 ->
  sphBH FB mu0 d P o = Rvadd (Rvscale mu0 (sphBH FH mu0 d P o)) (sphJ d P o).
Proof. exact sphere_B_mu0H_J. Qed.
Print Assumptions C14_sphere_B_mu0H_J.

Theorem C14_dipole_B_mu0H : forall (mu0 : R) (m o : RV3),
  dipBH FB mu0 m o = Rvscale mu0 (dipBH FH mu0 m o).
Proof. exact dipole_B_is_mu0_H. Qed.
Print Assumptions C14_dipole_B_mu0H.

(* jump conditions at the sphere surface (what makes the integral laws hold for surfaces and
   loops that cut through the magnet boundary): along every ray t |-> t*o through a surface
   point o, the normal component of B and the tangential components of H are continuous at the
   surface (t = 1) ... *)
Theorem C14_sphere_normal_B_continuous : forall (mu0 d : R) (P o : RV3),
  mu0 <> 0 -> 0 < Rabs d -> Rnorm o = Rabs d / 2 ->
  continuous (fun t => Rdot (sphBH FB mu0 d P (radial t o)) o) 1.
Proof. exact sphere_normal_B_continuous. Qed.
Print Assumptions C14_sphere_normal_B_continuous.

Theorem C14_sphere_tangential_H_continuous : forall (mu0 d : R) (P o : RV3) (i : nat),
  mu0 <> 0 -> 0 < Rabs d -> Rnorm o = Rabs d / 2 ->
  continuous (fun t => comp i (Rcross (sphBH FH mu0 d P (radial t o)) o)) 1.
Proof. exact sphere_tangential_H_continuous. Qed.
Print Assumptions C14_sphere_tangential_H_continuous.

(* ... while the normal component of H jumps by (P.o)/mu0 = M.o, the surface pole density
   that B - mu0 H = J 1_inside puts into div H *)
Theorem C14_sphere_normal_H_jump : forall (mu0 d : R) (P o : RV3) (t : R),
  mu0 <> 0 -> 0 < Rabs d -> Rnorm o = Rabs d / 2 ->
  (0 < t <= 1 -> Rdot (sphBH FH mu0 d P (radial t o)) o = - (1 / 3) * (Rdot P o / mu0))
  /\ (1 < t -> Rdot (sphBH FH mu0 d P (radial t o)) o = 2 / 3 * (Rdot P o / mu0) / (t * t * t)).
Proof. exact sphere_normal_H_ray. Qed.
Print Assumptions C14_sphere_normal_H_jump.

(* Circle, on-axis branch of BHJM_circle: a one-dimensional Ampere statement.  The line integral
   of H_z along the axis from -L to L is I L / sqrt(L^2 + r0^2) and differs from the threading
   current I by at most |I| r0^2 / L^2.  (That the return path at infinity contributes nothing,
   and any other loop, are NOT proved.) *)
Theorem C14_circle_axis_ampere_partial : forall (d cur L : R), d <> 0 -> 0 < L ->
  is_RInt (circ_axis d cur) (- L) L (cur * (L / sqrt (L * L + Rabs (d / 2) * Rabs (d / 2))))
  /\ Rabs (cur * (L / sqrt (L * L + Rabs (d / 2) * Rabs (d / 2))) - cur)
     <= Rabs cur * (Rabs (d / 2) * Rabs (d / 2) / (L * L)).
Proof. exact circle_axis_ampere. Qed.
Print Assumptions C14_circle_axis_ampere_partial.

(* non-vacuity: the hypotheses of the theorems above are satisfiable *)
Example C14_nonvacuous :
  (1, 0, 0) <> (0, 0, 0) /\ Rabs 1 / 2 < Rnorm (1, 0, 0) /\ Rnorm (0, 0, 0) < Rabs 1 / 2
  /\ Rnorm (1 / 2, 0, 0) = Rabs 1 / 2 /\ 0 < Rabs 1.
Proof. exact laws_nonvacuous. Qed.
Print Assumptions C14_nonvacuous.

(* ------------------------------------------------------------------ Polyline (closed current loops)
   The model of current_polyline_Hfield (all three sign branches) equals the textbook field of
   a straight current segment whenever the segment is not degenerate and the observer is off
   the code's on-line threshold (distance to the supporting line >= 1e-15 segment lengths) *)
Theorem C14_polyline_segment_closed_form : forall (o p1 p2 : RV3) (cur : R),
  p1 <> p2 ->
  1 / 1000000000000000 * Rdot (Rvsub p2 p1) (Rvsub p2 p1) <= sqrt (seg_D (Rvsub o p1) (Rvsub p2 p1)) ->
  polyline_H NumR o p1 p2 cur = seg_H cur p1 p2 o.
Proof. exact polyline_is_seg_H. Qed.
Print Assumptions C14_polyline_segment_closed_form.

(* the field summed over a vertex chain (current_vertices_field) is differentiable and
   divergence-free clear of the conductor's supporting lines, and its curl is exactly the
   difference of the point-source terms cur/(4 pi) v/|v|^3 at the two ends of the chain ... *)
Theorem C14_polyline_chain_div_curl : forall (cur : R) (vs : list RV3) (o d : RV3),
  poly_clear o vs ->
  differentiable_at (poly_sum cur vs) o
  /\ divergence (poly_sum cur vs) o = 0
  /\ curl (poly_sum cur vs) o
     = Rvsub (pointK cur (Rvsub o (last vs d))) (pointK cur (Rvsub o (hd d vs))).
Proof. exact polyline_chain_laws. Qed.
Print Assumptions C14_polyline_chain_div_curl.

(* ... so for a CLOSED Polyline (first vertex = last vertex) H is curl-free and divergence-free:
   the local form of "circulation of H = threading current" away from the wire.  (The step from
   curl H = 0 to the value of the circulation around a linking loop is Stokes + the singular
   contribution of the wire: NOT proved.) *)
Theorem C14_closed_polyline_source_free_partial : forall (cur : R) (vs : list RV3) (o d : RV3),
  hd d vs = last vs d -> poly_clear o vs -> source_free_at (poly_sum cur vs) o.
Proof. exact closed_polyline_source_free. Qed.
Print Assumptions C14_closed_polyline_source_free_partial.

(* the same for B of a closed Polyline (every segment row times mu0): div B = 0 (and curl B = 0) *)
Theorem C14_closed_polyline_B_source_free_partial : forall (mu0 cur : R) (vs : list RV3) (o d : RV3),
  hd d vs = last vs d -> poly_clear o vs -> source_free_at (poly_sumB mu0 cur vs) o.
Proof. exact closed_polyline_B_source_free. Qed.
Print Assumptions C14_closed_polyline_B_source_free_partial.

Example C14_polyline_nonvacuous :
  let vs := ((0, 0, 0) :: (1, 0, 0) :: (0, 1, 0) :: (0, 0, 0) :: nil)%list in
  poly_clear (0, 0, 1) vs /\ hd (0, 0, 0) vs = last vs (0, 0, 0).
Proof. exact polyline_nonvacuous. Qed.
Print Assumptions C14_polyline_nonvacuous.
