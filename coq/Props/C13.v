(* C13 -- a body gives the same field however it is represented or subdivided.
   Statements only; every proof is `exact <lemma>`.  The models (Model/ReprModel.v) mirror BHJM_magnet_sphere,
   BHJM_dipole, BHJM_cylinder_segment_internal, the J/M branches of BHJM_magnet_cylinder, the
   np.unique(return_inverse) construction of TriangularMesh.from_mesh / from_triangles, and
   TriangularMesh.to_TriangleCollection; they are tied to /repo by the correspondence of harness/props/C13.py.
   The closed-form terms, the assembling table and the flip sign tables of magnet_cuboid_Bfield and the placement of
   the between-the-bases test of BHJM_magnet_cylinder are TRANSLATED from /repo on every run (Gen/GenCuboid.v,
   Gen/GenCylMask.v).
   NOT proved here (searched numerically only): identities between different closed forms
   (Cuboid = mesh = tetrahedra, Cylinder = sum of segments, Polyline -> Circle), rotated cuboid partitions. *)
From Coq Require Import ZArith Reals List Bool.
From MV Require Import Lib.Rigid Lib.OctZ Gen.GenCuboid Gen.GenCylMask Model.ReprModel Model.ReprExec Proofs.ReprProofs Proofs.ReprExecProofs
  Proofs.ReprCuboid Proofs.ReprUnique Proofs.ReprFlip Proofs.ReprAngles.
Import ListNotations.

(* ---- Sphere (outside) = Dipole with moment M*V = (J/mu0) * pi d^3/6 : all four fields, every observer with
        |o| > |d|/2, every polarization, every mu0 <> 0 *)
Theorem C13_sphere_outside_is_dipole :
  forall (fld : fieldT) (mu0 d : R) (p o : @vec RNum),
    mu0 <> 0%R -> @sphere_out RNum o d = true ->
    @sphere_row RNum fld mu0 o d p = @bhjm_dipole RNum fld mu0 o (@sphere_moment RNum mu0 d p).
Proof. exact sphere_outside_is_dipole_R. Qed.
Print Assumptions C13_sphere_outside_is_dipole.

(* ---- the full-cylinder shortcut of BHJM_cylinder_segment_internal: in ANY batch, for ANY numeric carrier, any
        BHJM_cylinder_segment and any row-wise BHJM_magnet_cylinder, a row with not (phi2 - phi1 < 360) gets
        Cylinder(2 r2, h) - [r1 != 0] Cylinder(2 r1, h), for each of the four fields *)
Theorem C13_full_segment_is_cylinder :
  forall (N : NumOps) (seg : fieldT -> list (@srow N) -> list (@vec N)) (cyl1 : fieldT -> @crow N -> @vec N)
         (fld : fieldT) (rows : list (@srow N)) (i : nat) (x : @srow N),
    nth_error rows i = Some x -> mask_segment x = false ->
    nth_error (seg_internal seg (fun f rs => map (cyl1 f) rs) fld rows) i =
    Some (let '(_, _, (r1, _, _, _, _)) := x in
          if neqb N r1 (nofZ N 0) then cyl1 fld (outer_row x)
          else vsub3 (cyl1 fld (outer_row x)) (cyl1 fld (inner_row x))).
Proof. exact (@full_segment_is_cylinder_gen). Qed.
Print Assumptions C13_full_segment_is_cylinder.

(* rows with phi2 - phi1 < 360 get exactly what BHJM_cylinder_segment returned for them *)
Theorem C13_segment_rows_pass_through :
  forall (N : NumOps) (seg : fieldT -> list (@srow N) -> list (@vec N)) (cyl1 : fieldT -> @crow N -> @vec N)
         (fld : fieldT) (rows : list (@srow N)) (i : nat) (x : @srow N) (v : @vec N),
    nth_error rows i = Some x -> mask_segment x = true ->
    nth_error (seg fld (gather (map mask_segment rows) rows)) (rank (map mask_segment rows) i) = Some v ->
    nth_error (seg_internal seg (fun f rs => map (cyl1 f) rs) fld rows) i = Some v.
Proof. exact (@segment_rows_pass_through). Qed.
Print Assumptions C13_segment_rows_pass_through.

(* J of the full-angle segment through the shortcut and the J branch of BHJM_magnet_cylinder: the polarization
   exactly in r1 < r <= r2, |z| <= h/2 (the bore is excluded), zero outside *)
Theorem C13_full_segment_J :
  forall (mu0 ox oy oz : R) (p : @vec RNum) (r1 r2 h phi1 phi2 : R),
    let x : @srow RNum := ((ox, oy, oz), p, (r1, r2, h, phi1, phi2)) in
    let r := sqrt (ox * ox + oy * oy) in
    (0 <= r1 <= r2)%R -> (0 < r2)%R ->
    (((r1 = 0 \/ r1 < r) /\ r <= r2 /\ Rabs oz <= h / 2)%R ->
       @full_cylinder_spec RNum (@cyl_JM_row RNum mu0) FJ x = p) /\
    (((0 < r1 /\ r <= r1) \/ r2 < r \/ h / 2 < Rabs oz)%R ->
       @full_cylinder_spec RNum (@cyl_JM_row RNum mu0) FJ x = vzero3).
Proof. exact full_segment_J_R. Qed.
Print Assumptions C13_full_segment_J.

Theorem C13_full_segment_M :
  forall (mu0 : R) (x : @srow RNum), mu0 <> 0%R ->
    @full_cylinder_spec RNum (@cyl_JM_row RNum mu0) FM x =
    vdivs (@full_cylinder_spec RNum (@cyl_JM_row RNum mu0) FJ x) mu0.
Proof. exact full_segment_M_R. Qed.
Print Assumptions C13_full_segment_M.

(* B = mu0 H + J is inherited by the shortcut from whatever Cylinder computation satisfies it *)
Theorem C13_full_segment_BHJ :
  forall (cyl1 : fieldT -> @crow RNum -> @vec RNum) (mu0 : R) (x : @srow RNum),
    (forall y, cyl1 FB y = @vmap2 RNum Rplus (@vmuls RNum (cyl1 FH y) mu0) (cyl1 FJ y)) ->
    full_cylinder_spec cyl1 FB x =
    @vmap2 RNum Rplus (@vmuls RNum (full_cylinder_spec cyl1 FH x) mu0) (full_cylinder_spec cyl1 FJ x).
Proof. exact full_segment_BHJ_R. Qed.
Print Assumptions C13_full_segment_BHJ.

(* ---- section angles beyond +-360 degrees (/repo 526c29b): the prologue of BHJM_cylinder_segment reduces the angles by whole
        turns; for every valid section (integers degrees) the reduced angles lie in [-360, 360], keep the span and differ
        by whole turns (the same body); sections in range are untouched; two descriptions of one body that leave the
        range on the same side are reduced to the SAME angles; the full-angle dispatch ignores whole turns *)
Theorem C13_segment_angles_reduced_in_range :
  forall phi1 phi2 : Z, (phi1 < phi2)%Z -> (phi2 - phi1 <= 360)%Z ->
    let '(q1, q2) := seg_reduce phi1 phi2 in
    (-360 <= q1 /\ q2 <= 360 /\ q2 - q1 = phi2 - phi1 /\ exists k, q1 = phi1 - 360 * k /\ q2 = phi2 - 360 * k)%Z.
Proof. exact seg_reduce_in_range. Qed.
Print Assumptions C13_segment_angles_reduced_in_range.

Theorem C13_segment_angles_in_range_untouched :
  forall phi1 phi2 : Z, (-360 <= phi1)%Z -> (phi2 <= 360)%Z -> seg_reduce phi1 phi2 = (phi1, phi2).
Proof. exact seg_reduce_identity_in_range. Qed.
Print Assumptions C13_segment_angles_in_range_untouched.

Theorem C13_segment_angles_whole_turns_equivalent :
  forall phi1 phi2 k : Z, (phi1 < phi2)%Z -> (phi2 - phi1 <= 360)%Z ->
    ((360 < phi2 -> 360 < phi2 + 360 * k -> seg_reduce (phi1 + 360 * k) (phi2 + 360 * k) = seg_reduce phi1 phi2) /\
     (phi2 <= 360 -> phi2 + 360 * k <= 360 -> phi1 < -360 -> phi1 + 360 * k < -360 ->
        seg_reduce (phi1 + 360 * k) (phi2 + 360 * k) = seg_reduce phi1 phi2))%Z.
Proof. intros phi1 phi2 k H1 H2. split; [apply seg_reduce_shift_same|apply seg_reduce_shift_same_below]; assumption. Qed.
Print Assumptions C13_segment_angles_whole_turns_equivalent.

Theorem C13_full_angle_dispatch_ignores_whole_turns :
  forall (o p : @vec ZNum) (r1 r2 h phi1 phi2 k : Z),
    @mask_segment ZNum (o, p, (r1, r2, h, phi1 + 360 * k, phi2 + 360 * k)%Z) = @mask_segment ZNum (o, p, (r1, r2, h, phi1, phi2)).
Proof. exact mask_segment_shift. Qed.
Print Assumptions C13_full_angle_dispatch_ignores_whole_turns.

(* ---- from_mesh / from_triangles: vertices[faces] = mesh, one face per input triangle, all indices in range;
        for every vertex type with a decidable equality and every mesh *)
Theorem C13_mesh_roundtrip :
  forall (A : Type) (eqb ltb : A -> A -> bool), (forall x y, eqb x y = true <-> x = y) ->
  forall (d : A) (mesh : list (tri3 A)),
    index_faces d (mesh_vertices eqb ltb mesh) (mesh_faces eqb ltb mesh) = mesh.
Proof. exact (@mesh_roundtrip_gen). Qed.
Print Assumptions C13_mesh_roundtrip.

Theorem C13_mesh_faces_shape :
  forall (A : Type) (eqb ltb : A -> A -> bool), (forall x y, eqb x y = true <-> x = y) ->
  forall (mesh : list (tri3 A)),
    length (mesh_faces eqb ltb mesh) = length mesh /\
    Forall (fun '(i, j, k) => let n := length (mesh_vertices eqb ltb mesh) in (i < n /\ j < n /\ k < n)%nat)
           (mesh_faces eqb ltb mesh).
Proof. exact (@mesh_faces_shape). Qed.
Print Assumptions C13_mesh_faces_shape.

(* the vertex list contains exactly the input vertices *)
Theorem C13_mesh_vertices_complete :
  forall (A : Type) (eqb ltb : A -> A -> bool), (forall x y, eqb x y = true <-> x = y) ->
  forall (mesh : list (tri3 A)) (v : A),
    In v (mesh_vertices eqb ltb mesh) <-> In v (flatten3 mesh).
Proof. exact (@mesh_vertices_complete). Qed.
Print Assumptions C13_mesh_vertices_complete.

(* the vertex list is strictly sorted in the row order and duplicate-free (np.unique), for every strict total
   order given as a boolean test; numpy's lexicographic order on integer rows is one *)
Theorem C13_mesh_vertices_sorted_nodup :
  forall (A : Type) (eqb ltb : A -> A -> bool),
    (forall x y, eqb x y = true <-> x = y) -> (forall x, ltb x x = false) ->
    (forall x y z, ltb x y = true -> ltb y z = true -> ltb x z = true) ->
    (forall x y, eqb x y = false -> ltb x y = false -> ltb y x = true) ->
  forall (mesh : list (tri3 A)),
    Sorted.StronglySorted (fun a b => ltb a b = true) (mesh_vertices eqb ltb mesh) /\
    NoDup (mesh_vertices eqb ltb mesh).
Proof. exact (@mesh_vertices_sorted_nodup). Qed.
Print Assumptions C13_mesh_vertices_sorted_nodup.

Theorem C13_mesh_vertices_sorted_nodup_Z3 :
  forall (mesh : list (tri3 z3)),
    Sorted.StronglySorted (fun a b => z3_ltb a b = true) (mesh_vertices z3_eqb z3_ltb mesh) /\
    NoDup (mesh_vertices z3_eqb z3_ltb mesh).
Proof. exact z3_mesh_vertices_sorted_nodup. Qed.
Print Assumptions C13_mesh_vertices_sorted_nodup_Z3.

(* ---- to_TriangleCollection: one Triangle per face, each with the face's vertices, the mesh polarization and the
        mesh pose; the collection has the mesh pose.  In every rigid-motion algebra. *)
Theorem C13_to_TriangleCollection :
  forall (O : RigidOps) (L : RigidLaws O) (Pol : Type) (pol : Pol) (mesh : list (tri3 V)) (pos : V) (ori : G),
    to_triangle_collection Pol pol mesh pos ori =
    ((pos, ori), map (fun v => mkTri Pol v pol pos ori) mesh).
Proof. exact (@to_collection_spec). Qed.
Print Assumptions C13_to_TriangleCollection.

(* ---- stretch: Cuboid = sum of its parts under an axis-aligned cut (cuboid_axis_partition), B, H, J and M.
   TRANSLATED from magnet_cuboid_Bfield on this run (Gen/GenCuboid.v): cuboid_ff (the six closed-form terms: three
   arctan2 sums, three log terms), cuboid_contrib (the table that assembles B from them) and qs_flipx/y/z (the sign
   tables of the octant flip).  box_B_code is component j of the B-field the function computes for the Cuboid
   [x0,x1]x[y0,y1]x[z0,z1] seen from p, INCLUDING the flip (observer mirrored into the octant x>=0, y<=0, z<=0 of the
   box, contributions multiplied by the product of the sign tables of the mirrors applied).
   Proved for every function at2 in the place of arctan2 that is odd in its first argument and satisfies
   at2 y (-x) = cc y - at2 y x for y <> 0 (numpy's arctan2 does: C13_numpy_arctan2_hypotheses), every polarization,
   every box, every cut position and EVERY observer off the planes of the faces and of the cut:
   the flipped evaluation equals the direct one (each term is even or odd under each mirror with exactly the sign of
   the translated tables), and whole = part 1 + part 2 for cuts along x, y and z.
   J, M, H follow BHJM_magnet_cuboid on a general row: J = polarization where (|x|-a < RTOL a) & ..., M = J/mu0,
   H = (B - J[inside])/mu0, for every RTOL >= 0 and observers farther than RTOL * half-size from the planes.
   Still outside: rotated poses (the boxes share one frame), the special rows (null polarization or dimension,
   observer on an edge), binary64 rounding. *)
Section CuboidPartition.
Variable at2 : R -> R -> R.
Variable cc : R -> R.
Hypothesis at2_odd : forall y x, y <> 0%R -> at2 (- y)%R x = (- at2 y x)%R.
Hypothesis at2_refl : forall y x, y <> 0%R -> at2 y (- x)%R = (cc y - at2 y x)%R.

Theorem C13_cuboid_flip_is_identity :
  forall (pol : R * R * R) (j : nat) (x y z a b c : R), off_planes x y z a b c ->
    cuboid_B_code at2 pol j x y z a b c = combine_terms cuboid_contrib pol j (fun i => term at2 i x y z a b c).
Proof. exact (cuboid_flip_is_identity at2 cc at2_odd at2_refl). Qed.

Theorem C13_cuboid_axis_partition_B_x :
  forall (pol : R * R * R) (j : nat) (px py pz x0 xm x1 y0 y1 z0 z1 : R),
    px <> x0 -> px <> xm -> px <> x1 -> py <> y0 -> py <> y1 -> pz <> z0 -> pz <> z1 ->
    box_B_code at2 pol j px py pz x0 x1 y0 y1 z0 z1 =
    (box_B_code at2 pol j px py pz x0 xm y0 y1 z0 z1 + box_B_code at2 pol j px py pz xm x1 y0 y1 z0 z1)%R.
Proof. exact (box_B_code_cut_x at2 cc at2_odd at2_refl). Qed.
Theorem C13_cuboid_axis_partition_B_y :
  forall (pol : R * R * R) (j : nat) (px py pz x0 x1 y0 ym y1 z0 z1 : R),
    px <> x0 -> px <> x1 -> py <> y0 -> py <> ym -> py <> y1 -> pz <> z0 -> pz <> z1 ->
    box_B_code at2 pol j px py pz x0 x1 y0 y1 z0 z1 =
    (box_B_code at2 pol j px py pz x0 x1 y0 ym z0 z1 + box_B_code at2 pol j px py pz x0 x1 ym y1 z0 z1)%R.
Proof. exact (box_B_code_cut_y at2 cc at2_odd at2_refl). Qed.
Theorem C13_cuboid_axis_partition_B_z :
  forall (pol : R * R * R) (j : nat) (px py pz x0 x1 y0 y1 z0 zm z1 : R),
    px <> x0 -> px <> x1 -> py <> y0 -> py <> y1 -> pz <> z0 -> pz <> zm -> pz <> z1 ->
    box_B_code at2 pol j px py pz x0 x1 y0 y1 z0 z1 =
    (box_B_code at2 pol j px py pz x0 x1 y0 y1 z0 zm + box_B_code at2 pol j px py pz x0 x1 y0 y1 zm z1)%R.
Proof. exact (box_B_code_cut_z at2 cc at2_odd at2_refl). Qed.

Theorem C13_cuboid_axis_partition_H_x :
  forall (mu0 eps : R) (pol : R * R * R) (j : nat) (px py pz x0 xm x1 y0 y1 z0 z1 : R),
    mu0 <> 0%R -> (0 <= eps)%R -> (x0 < xm < x1)%R ->
    clear_of eps (x1 - x0) px x0 -> clear_of eps (x1 - x0) px xm -> clear_of eps (x1 - x0) px x1 ->
    py <> y0 -> py <> y1 -> pz <> z0 -> pz <> z1 ->
    box_H at2 mu0 eps pol j px py pz x0 x1 y0 y1 z0 z1 =
    (box_H at2 mu0 eps pol j px py pz x0 xm y0 y1 z0 z1 + box_H at2 mu0 eps pol j px py pz xm x1 y0 y1 z0 z1)%R.
Proof. exact (box_H_cut_x at2 cc at2_odd at2_refl). Qed.
Theorem C13_cuboid_axis_partition_H_y :
  forall (mu0 eps : R) (pol : R * R * R) (j : nat) (px py pz x0 x1 y0 ym y1 z0 z1 : R),
    mu0 <> 0%R -> (0 <= eps)%R -> (y0 < ym < y1)%R ->
    clear_of eps (y1 - y0) py y0 -> clear_of eps (y1 - y0) py ym -> clear_of eps (y1 - y0) py y1 ->
    px <> x0 -> px <> x1 -> pz <> z0 -> pz <> z1 ->
    box_H at2 mu0 eps pol j px py pz x0 x1 y0 y1 z0 z1 =
    (box_H at2 mu0 eps pol j px py pz x0 x1 y0 ym z0 z1 + box_H at2 mu0 eps pol j px py pz x0 x1 ym y1 z0 z1)%R.
Proof. exact (box_H_cut_y at2 cc at2_odd at2_refl). Qed.
Theorem C13_cuboid_axis_partition_H_z :
  forall (mu0 eps : R) (pol : R * R * R) (j : nat) (px py pz x0 x1 y0 y1 z0 zm z1 : R),
    mu0 <> 0%R -> (0 <= eps)%R -> (z0 < zm < z1)%R ->
    clear_of eps (z1 - z0) pz z0 -> clear_of eps (z1 - z0) pz zm -> clear_of eps (z1 - z0) pz z1 ->
    px <> x0 -> px <> x1 -> py <> y0 -> py <> y1 ->
    box_H at2 mu0 eps pol j px py pz x0 x1 y0 y1 z0 z1 =
    (box_H at2 mu0 eps pol j px py pz x0 x1 y0 y1 z0 zm + box_H at2 mu0 eps pol j px py pz x0 x1 y0 y1 zm z1)%R.
Proof. exact (box_H_cut_z at2 cc at2_odd at2_refl). Qed.
End CuboidPartition.
Print Assumptions C13_cuboid_flip_is_identity.
Print Assumptions C13_cuboid_axis_partition_B_x.
Print Assumptions C13_cuboid_axis_partition_B_y.
Print Assumptions C13_cuboid_axis_partition_B_z.
Print Assumptions C13_cuboid_axis_partition_H_x.
Print Assumptions C13_cuboid_axis_partition_H_y.
Print Assumptions C13_cuboid_axis_partition_H_z.

(* J (and M = J / mu0 by definition of box_M): the inside masks of the parts add up to the mask of the whole *)
Theorem C13_cuboid_axis_partition_J :
  forall (eps : R) (pol : R * R * R) (j : nat) (px py pz : R), (0 <= eps)%R ->
  (forall x0 xm x1 y0 y1 z0 z1, (x0 < xm < x1)%R ->
     clear_of eps (x1 - x0) px x0 -> clear_of eps (x1 - x0) px xm -> clear_of eps (x1 - x0) px x1 ->
     box_J eps pol j px py pz x0 x1 y0 y1 z0 z1 =
     (box_J eps pol j px py pz x0 xm y0 y1 z0 z1 + box_J eps pol j px py pz xm x1 y0 y1 z0 z1)%R) /\
  (forall x0 x1 y0 ym y1 z0 z1, (y0 < ym < y1)%R ->
     clear_of eps (y1 - y0) py y0 -> clear_of eps (y1 - y0) py ym -> clear_of eps (y1 - y0) py y1 ->
     box_J eps pol j px py pz x0 x1 y0 y1 z0 z1 =
     (box_J eps pol j px py pz x0 x1 y0 ym z0 z1 + box_J eps pol j px py pz x0 x1 ym y1 z0 z1)%R) /\
  (forall x0 x1 y0 y1 z0 zm z1, (z0 < zm < z1)%R ->
     clear_of eps (z1 - z0) pz z0 -> clear_of eps (z1 - z0) pz zm -> clear_of eps (z1 - z0) pz z1 ->
     box_J eps pol j px py pz x0 x1 y0 y1 z0 z1 =
     (box_J eps pol j px py pz x0 x1 y0 y1 z0 zm + box_J eps pol j px py pz x0 x1 y0 y1 zm z1)%R).
Proof. exact box_J_cut_all. Qed.
Print Assumptions C13_cuboid_axis_partition_J.

(* numpy's arctan2 (on the reals) meets the two hypotheses: the section above is not vacuous and applies to it *)
Theorem C13_numpy_arctan2_hypotheses :
  (forall y x, y <> 0%R -> np_arctan2 (- y)%R x = (- np_arctan2 y x)%R) /\
  (forall y x, y <> 0%R -> np_arctan2 y (- x)%R = (np_cc y - np_arctan2 y x)%R).
Proof. exact at2_hyps_satisfiable. Qed.
Print Assumptions C13_numpy_arctan2_hypotheses.

Theorem C13_cuboid_axis_partition_B_numpy :
  forall (pol : R * R * R) (j : nat) (px py pz x0 xm x1 y0 y1 z0 z1 : R),
    px <> x0 -> px <> xm -> px <> x1 -> py <> y0 -> py <> y1 -> pz <> z0 -> pz <> z1 ->
    box_B_code np_arctan2 pol j px py pz x0 x1 y0 y1 z0 z1 =
    (box_B_code np_arctan2 pol j px py pz x0 xm y0 y1 z0 z1 + box_B_code np_arctan2 pol j px py pz xm x1 y0 y1 z0 z1)%R.
Proof. exact (box_B_code_cut_x np_arctan2 np_cc np_arctan2_odd np_arctan2_refl). Qed.
Print Assumptions C13_cuboid_axis_partition_B_numpy.

(* each translated term IS an eight-corner sum (arctan2 terms unconditionally, log terms off the face planes) *)
Theorem C13_cuboid_terms_are_corner_sums_partial :
  forall (at2 : R -> R -> R) (k : nat) (x y z a b c : R), (k < 6)%nat -> off_planes x y z a b c ->
    term at2 k x y z a b c =
    (- corner_sum (cornerF at2 k) (x - a) (x + a) (y - b) (y + b) (z - c) (z + c))%R.
Proof. exact term_corner. Qed.
Print Assumptions C13_cuboid_terms_are_corner_sums_partial.

(* any number of consecutive slabs: the corner sums telescope *)
Theorem C13_corner_sum_slabs_partial :
  forall (F : R -> R -> R -> R) (cuts : list R) (x0 y0 y1 z0 z1 : R),
    slab_sum F x0 cuts y0 y1 z0 z1 = corner_sum F x0 (last cuts x0) y0 y1 z0 z1.
Proof. exact slab_sum_telescopes. Qed.
Print Assumptions C13_corner_sum_slabs_partial.

(* ---- non-vacuity: the hypotheses are satisfiable and the executable models run *)
Example C13_nonvacuous :
  (* a full-angle hollow row (index 1) and a full-angle solid row (index 2) behind a segment row, integer batch *)
  (let rows : list zsrow := [((1, 2, 3), (1, 0, 0), (1, 2, 3, 0, 90));
                             ((4, 5, 6), (0, 1, 0), (1, 2, 3, 0, 360));
                             ((7, 8, 9), (0, 0, 1), (0, 2, 3, 0, 360))]%Z in
   let outer : list zcrow := [((4, 5, 6), (0, 1, 0), (4, 3)); ((7, 8, 9), (0, 0, 1), (4, 3))]%Z in
   let inner : list zcrow := [((4, 5, 6), (0, 1, 0), (2, 3))]%Z in
   map (@mask_segment ZNum) rows = [true; false; false] /\
   nth_error (@seg_internal ZNum stub_seg stub_cyl FB rows) 1 =
     Some (@vsub3 ZNum (nth 0 (stub_cyl FB outer) (0, 0, 0)%Z) (nth 0 (stub_cyl FB inner) (0, 0, 0)%Z)) /\
   nth_error (@seg_internal ZNum stub_seg stub_cyl FB rows) 2 = nth_error (stub_cyl FB outer) 1) /\
  (* a mesh with shared vertices *)
  (let mesh : list (tri3 z3) := [((0, 0, 0), (1, 0, 0), (0, 1, 0)); ((1, 0, 0), (0, 1, 0), (0, 0, 1))]%Z in
   mesh_vertices z3_eqb z3_ltb mesh = [(0, 0, 0); (0, 0, 1); (0, 1, 0); (1, 0, 0)]%Z /\
   mesh_faces z3_eqb z3_ltb mesh = [(0, 3, 2); (3, 2, 1)]%nat) /\
  (* an observer outside a sphere *)
  @sphere_out RNum (1, 0, 0)%R 1%R = true /\
  (* an observer off all planes of a cut cuboid, beyond all centres (no flip) *)
  (3 <> -1 /\ 3 <> 0 /\ 3 <> 1 /\ -2 <> -1 /\ -2 <> 1 /\ off_planes 3 (-2) (-2) 1 1 1)%R.
Proof. exact C13_nonvacuous_witness2. Qed.

From Coq Require Import Floats.
(* ---- binary64, the between-the-bases decision of the full-angle shortcut.
   Positive, for EVERY numeric carrier (binary64 included) and the placement of the test the code has now (before the
   scaling, /repo b977b89; the flag GenCylMask.cyl_bases_before_scaling is translated on every run and cyl_JM_row
   follows it): a point that is not between the bases gets J = 0 - 0 from the shortcut - the decision depends on z and
   h only, so the outer and the inner cylinder cannot disagree. *)
Theorem C13_full_segment_J_outside_bases_any_carrier :
  forall (N : NumOps) (mu0 : num N) (o p : @vec N) (r1 r2 h phi1 phi2 : num N),
    let '(ox, oy, oz) := o in
    nleb N (nabs N oz) (ndiv N h (nofZ N 2)) = false ->
    @full_cylinder_spec N (@cyl_JM_row_gen N true mu0) FJ (o, p, (r1, r2, h, phi1, phi2)) =
    if neqb N r1 (nofZ N 0) then vzero3 else vsub3 vzero3 vzero3.
Proof. exact full_segment_J_outside_bases. Qed.
Print Assumptions C13_full_segment_J_outside_bases_any_carrier.

(* the row of the former defect (CylinderSegment(dimension=(0.8205, 1.222, 1.86, 0, 360), polarization=(0,0,1),
   position=(0,0,-0.1635)) at the observer (0.2216.., 0.3452.., -0.1635-0.93): full angle, in the bore, one ulp below
   the plane of the bottom face) now gives J = 0 on binary64 *)
Theorem C13_full_segment_J_binary64_witness_repaired :
  @full_cylinder_spec FNum (@cyl_JM_row_gen FNum true mu0_f) FJ bore_witness = (0, 0, 0)%float.
Proof. exact bore_witness_current_variant. Qed.

(* OLD-VARIANT RECORD (defect fixed by b977b89; known_findings/C13.json status fixed): with the test AFTER the
   scaling the same model run on floats returned J = (0, 0, -1) in the empty bore *)
Theorem C13_full_segment_J_binary64_old_variant_refuted :
  @mask_segment FNum bore_witness = false /\
  (let '((ox, oy, oz), _, (r1, _, h, _, _)) := bore_witness in
   PrimFloat.ltb (PrimFloat.sqrt (ox * ox + oy * oy)) r1 = true /\
   PrimFloat.ltb (h / 2) (PrimFloat.abs oz) = true)%float /\
  @full_cylinder_spec FNum (@cyl_JM_row_gen FNum false mu0_f) FJ bore_witness = (0, 0, -1)%float.
Proof. exact bore_witness_old_variant. Qed.
(* no Print Assumptions for the two binary64 statements: it lists the kernel's primitive float / int63 operations
   (PrimFloat.mul, ...), which are not axioms of the development; they are closed by vm_compute *)
