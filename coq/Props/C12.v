(* C12 -- results are invariant under the choice of the length unit.
   Statements only; every proof is `exact <lemma>`.

   GenTol.functions is REGENERATED from /repo on every run (translate/gen_tol.py): for each anchored
   entry point the comparisons it evaluates (one Dim.bexpr per array element), the field components it
   returns and the arguments it hands to parameters of known dimension (Dim.dexpr), and the dimension
   of every input element under two scalings:
     Glen f : lengths have degree 2 (half units), everything else 0   -- the change of the length unit
     Gexc f : polarization / current / moment have degree 2            -- the excitation magnitude
   `scale G (sqrt s) rho` multiplies a variable of degree 2 by s, of degree -2 by 1/s (lemmas below).
   All theorems are over the real numbers with PARTIAL semantics (x/0, sqrt of a negative number are
   undefined), for EVERY interpretation fn0 of the opaque functions of dimensionless arguments
   (log, sin, cos, mod, cel, el3, the dimensionless cylinder cores) and every interpretation fnh of
   arctan2 that is invariant under a common positive factor.  binary64 rounding, under/overflow are
   outside.  `_partial`: the ids in DimProofs.exclusions (absolute tolerances against lengths, values
   selected by them, the un-modelled cylinder-segment core) are NOT covered -- they are the findings
   and the not-modelled list of this property; a new non-homogeneous comparison breaks the build. *)
From Coq Require Import Reals ZArith String List Bool.
From MV Require Import Lib.Dim Gen.GenTol Proofs.DimProofs.
Import ListNotations.
Open Scope string_scope.
Open Scope R_scope.

(* the reflexive obligation: everything GenTol contains passes the dimension check, except the table *)
Theorem C12_dimension_check : forallb (check_fn exclusions) functions = true.
Proof. exact all_functions_ok. Qed.
Print Assumptions C12_dimension_check.

(* the exclusion table is tight: it lists EXACTLY the ids that fail the dimension check on the current tree
   (a repaired site must leave the table and is proved from then on) *)
Theorem C12_exclusions_tight :
  forallb (fun id => mem id exclusions) failing = true /\ forallb (fun id => mem id failing) exclusions = true.
Proof. exact exclusions_tight. Qed.
Print Assumptions C12_exclusions_tight.

(* every branch decision (comparison) outside the exclusion table is unchanged when all lengths are
   multiplied by s > 0, and when all excitations are multiplied by s > 0 *)
Theorem C12_masks_scale_invariant_partial :
  forall (f : fn_record) (id : string) (cs : list bexpr) (c : bexpr),
  In f functions -> In (id, cs) (fn_cmps f) -> mem id exclusions = false -> In c cs ->
  forall (fn0 fnh : string -> list R -> option R), scale_invariant fnh ->
  forall (s : R) (rho : string -> R), 0 < s ->
    evalb fn0 fnh (scale (Glen f) (sqrt s) rho) c = evalb fn0 fnh rho c /\
    evalb fn0 fnh (scale (Gexc f) (sqrt s) rho) c = evalb fn0 fnh rho c.
Proof. exact masks_scale_invariant. Qed.
Print Assumptions C12_masks_scale_invariant_partial.

(* every returned field component outside the table obeys the scale law of its stated degrees (kl, ke):
   it is multiplied by sqrt(s)^kl under the length scaling and by sqrt(s)^ke under the excitation
   scaling (and is undefined after scaling iff it was undefined before) *)
Theorem C12_core_degree_partial :
  forall (f : fn_record) (id : string) (kl ke : Z) (e : dexpr),
  In f functions -> In (id, (kl, ke), e) (fn_rets f) -> mem id exclusions = false ->
  forall (fn0 fnh : string -> list R -> option R), scale_invariant fnh ->
  forall (s : R) (rho : string -> R), 0 < s ->
    eval fn0 fnh (scale (Glen f) (sqrt s) rho) e = option_map (Rmult (powerRZ (sqrt s) kl)) (eval fn0 fnh rho e) /\
    eval fn0 fnh (scale (Gexc f) (sqrt s) rho) e = option_map (Rmult (powerRZ (sqrt s) ke)) (eval fn0 fnh rho e).
Proof. exact core_degree. Qed.
Print Assumptions C12_core_degree_partial.

(* which classes that covers, with which degrees: ALL returned components (B, H, and J, M where the
   wrapper computes them) of these entry points have exactly these degrees and none is excluded:
   dipole length^-3, circle and polyline length^-1, sphere / cuboid / cylinder / triangle / tetrahedron unit
   independent; all proportional to the excitation *)
Theorem C12_core_degree_table : forallb returns_proved
  [("dipole", (-6, 2)%Z); ("sphere", (0, 2)%Z); ("cuboid", (0, 2)%Z); ("cylinder", (0, 2)%Z);
   ("circle", (-2, 2)%Z); ("polyline", (-2, 2)%Z); ("triangle", (0, 2)%Z); ("tetrahedron", (0, 2)%Z)] = true.
Proof. exact return_table_ok. Qed.
Print Assumptions C12_core_degree_table.

(* arguments handed to mask_inside_trimesh / lines_end_in_trimesh / BHJM_triangle (entry points of their
   own) have the dimension those entry points assume *)
Theorem C12_call_arguments_partial :
  forall (f : fn_record) (id : string) (kl ke : Z) (e : dexpr),
  In f functions -> In (id, (kl, ke), e) (fn_args f) -> mem id exclusions = false ->
  forall (fn0 fnh : string -> list R -> option R), scale_invariant fnh ->
  forall (s : R) (rho : string -> R), 0 < s ->
    eval fn0 fnh (scale (Glen f) (sqrt s) rho) e = option_map (Rmult (powerRZ (sqrt s) kl)) (eval fn0 fnh rho e) /\
    eval fn0 fnh (scale (Gexc f) (sqrt s) rho) e = option_map (Rmult (powerRZ (sqrt s) ke)) (eval fn0 fnh rho e).
Proof. exact call_args_dimension. Qed.
Print Assumptions C12_call_arguments_partial.

(* reading of the abstract scaling *)
Theorem C12_scale_multiplies_lengths : forall (G : env) (s : R) (rho : string -> R) (x : string),
  0 < s -> G x = Some 2%Z -> scale G (sqrt s) rho x = s * rho x.
Proof. exact scale_len. Qed.
Print Assumptions C12_scale_multiplies_lengths.

Theorem C12_scale_keeps_dimensionless : forall (G : env) (s : R) (rho : string -> R) (x : string),
  G x = Some 0%Z -> scale G (sqrt s) rho x = rho x.
Proof. exact scale_dimless. Qed.
Print Assumptions C12_scale_keeps_dimensionless.

Theorem C12_factor_inverse_length : forall s : R, 0 < s -> powerRZ (sqrt s) (-2) = / s.
Proof. exact powerRZ_sqrt_m2. Qed.
Print Assumptions C12_factor_inverse_length.

Theorem C12_factor_inverse_cube : forall s : R, 0 < s -> powerRZ (sqrt s) (-6) = / (s * s * s).
Proof. exact powerRZ_sqrt_m6. Qed.

Theorem C12_factor_proportional : forall s : R, 0 < s -> powerRZ (sqrt s) 2 = s.
Proof. exact sqrt_sq_pz. Qed.
Print Assumptions C12_factor_inverse_cube.
Print Assumptions C12_factor_proportional.

(* non-vacuity: the hypotheses of the two main theorems are satisfiable (sphere: the inside/outside
   comparison r > r_sphere and the first returned component) *)
Example C12_masks_nonvacuous :
  exists id cs c, In sphere_rec functions /\ In (id, cs) (fn_cmps sphere_rec) /\ mem id exclusions = false /\
    In c cs /\ scale_invariant (fun _ _ => Some 0).
Proof. exact masks_nonvacuous. Qed.
Print Assumptions C12_masks_nonvacuous.

Example C12_core_degree_nonvacuous :
  exists id e, In (id, (0, 2)%Z, e) (fn_rets sphere_rec) /\ mem id exclusions = false.
Proof. exact rets_nonvacuous. Qed.
Print Assumptions C12_core_degree_nonvacuous.

(* ------------------------------------------------------------------ refuted: the OPEN exclusions are real.
   For each still-open non-homogeneous site there is a valuation rho and a unit change t > 0 (here t = 2: every
   length multiplied by 4) such that, for EVERY interpretation of the opaque functions, the comparison taken
   from the current source decides differently after the unit change (refutes).  (The absolute numbers of
   lines_end_in_trimesh, the ray start offset, is_facet_inwards and segments_intersect_facets are still in the source but
   are now applied to a unit-size copy of the mesh, i.e. to dimensionless data: they are no longer refutable and are
   proved invariant above.)  Proved by the rational evaluator of
   Proofs/DimQ.v (sound for the real semantics) and vm_compute; pick_cmp / pick_arg look the obligation up by
   its id in the regenerated GenTol (a missing id gives BConst true / Const 0, which cannot be refuted). *)
From MV Require Import Proofs.DimQ Proofs.DimRefute.

Theorem C12_cylinder_segment_margin_refuted :
  refutes cylseg_rec (pick_cmp cylseg_rec "cylinder_segment>BHJM_cylinder_segment>r < r2 + 1e-14" 0).
Proof. exact cylseg_margin_refuted. Qed.

Theorem C12_cylinder_segment_close_refuted :
  refutes cylseg_rec (pick_cmp cylseg_rec
    "cylinder_segment>BHJM_cylinder_segment>close(r, r2)>np.isclose(arg1, arg2, rtol=1e-12, atol=1e-12)" 0).
Proof. exact cylseg_close_refuted. Qed.

Theorem C12_determine_cases_close_refuted :
  refutes cases_rec (pick_cmp cases_rec
    "cylinder_segment_cases>determine_cases>close(r, 0)>np.isclose(arg1, arg2, rtol=1e-12, atol=1e-12)" 0).
Proof. exact cases_close_refuted. Qed.

Print Assumptions C12_cylinder_segment_margin_refuted.
Print Assumptions C12_cylinder_segment_close_refuted.
Print Assumptions C12_determine_cases_close_refuted.

(* the refuted records are entries of GenTol.functions *)
Theorem C12_refuted_records_in_functions :
  In cylseg_rec functions /\ In cases_rec functions.
Proof. exact recs_in_functions. Qed.
Print Assumptions C12_refuted_records_in_functions.
