(* C09 -- move/rotate and the pose setters follow the documented path semantics.
   Statements only; every proof is `exact <lemma>` so that nothing is weakened here.
   path_padding_param and pad_slice_path are the functions TRANSLATED from /repo on this run. *)
From Coq Require Import ZArith List Bool.
From MV Require Import Lib.ListZ Lib.Rigid Lib.OctZ Gen.GenPath Model.PathModel Proofs.PathProofs.
Import ListNotations.
Open Scope Z_scope.

(* the translated padding arithmetic: for all lengths n>=1, k>=0 and every start *)
Theorem C09_padding_param : forall sc n k st, 1 <= n -> 0 <= k -> (sc = true -> k = 1) ->
  let '(pad, s) := path_padding_param sc n k st in
  let b := match pad with Some (b, _) => b | None => 0 end in
  let a := match pad with Some (_, a) => a | None => 0 end in
  let s1 := start1 sc n st in
  b = Z.max 0 (- s1) /\ s = Z.max 0 s1 /\ 0 <= a /\ b + n + a = Z.max (b + n) (s + k).
Proof. exact ppp_spec. Qed.
Print Assumptions C09_padding_param.

Section AnyRigidAlgebra.
Context {O : RigidOps}.

Theorem C09_move_spec : forall (o : obj) (d : inp V) (st : option Z),
  wf o -> wf_inp d -> apply_move o d st = spec_move o d st.
Proof. exact move_spec. Qed.

Theorem C09_rotate_spec : forall (o : obj) (r : inp G) (a : option (inp V)) (st : option Z),
  wf o -> wf_inp r ->
  let '(a', r') := match a with
                   | Some a => let '(a', r') := multi_anchor a r in (Some a', r')
                   | None => (None, r) end in
  wf_inp r' ->
  apply_rotation o r a st None = spec_rotate o r' (anchor_fun a') st.
Proof. exact rotate_spec_no_parent. Qed.

Theorem C09_multi_anchor : forall (a : inp V) (r : inp G), wf_inp a -> wf_inp r ->
  let '(a', r') := multi_anchor a r in
  wf_inp a' /\ wf_inp r' /\
  (is_scalar r' = false -> is_scalar a' = false -> ilen a' = ilen r') /\
  ilen r' = Z.max (ilen r) (match a with Scalar _ => 1 | Vector xs => zlen xs end) /\
  (forall j, 0 <= j < ilen r' ->
     iget gone r' j = iget gone r (Z.min j (ilen r - 1)) /\
     iget vzero a' j = iget vzero a (Z.min j (ilen a - 1))).
Proof. exact multi_anchor_wf. Qed.

Theorem C09_set_position : forall (o : obj) (p : inp V), wf o -> wf_inp p ->
  set_position o p = {| pos := as_rows p; ori := spec_fit gone (ilen p) (ori o) |}.
Proof. exact set_position_spec. Qed.

Theorem C09_set_orientation : forall (o : obj) (r : option (inp G)),
  wf o -> match r with Some r => wf_inp r | None => True end ->
  let qs := match r with None => [gone] | Some r => as_rows r end in
  set_orientation o r = {| pos := spec_fit vzero (zlen qs) (pos o); ori := qs |}.
Proof. exact set_orientation_spec. Qed.

(* position and orientation paths have equal length >= 1 after EVERY history *)
Theorem C09_lengths_invariant : forall (h : list op) (o : obj),
  wf o -> Forall wf_op h -> wf (run o h).
Proof. exact wf_run. Qed.

Theorem C09_init_wf : forall p r, wf_inp p ->
  match r with Some r => wf_inp r | None => True end -> wf (init_pose p r).
Proof. exact wf_init. Qed.

End AnyRigidAlgebra.

Print Assumptions C09_move_spec.
Print Assumptions C09_rotate_spec.
Print Assumptions C09_multi_anchor.
Print Assumptions C09_set_position.
Print Assumptions C09_set_orientation.
Print Assumptions C09_lengths_invariant.
Print Assumptions C09_init_wf.

(* non-vacuity: a concrete object and history in the executable instance meet the hypotheses *)
Example C09_nonvacuous :
  let o := init_pose (O := OctOps) (Vector [(1, 2, 3); (4, 5, 6)]) None in
  let h := [Move (Vector [(1, 0, 0); (2, 0, 0); (3, 0, 0)]) (Some (-5));
            Rotate (Scalar (mkOct P120 false true true)) (Some (Scalar (0, 0, 1))) None] in
  wf o /\ Forall wf_op h /\ zlen (pos (run o h)) = 5.
Proof.
  cbv zeta. split; [|split].
  - apply wf_init; cbv; [discriminate|exact I].
  - repeat constructor; cbv; discriminate.
  - vm_compute. reflexivity.
Qed.
Print Assumptions C09_nonvacuous.

(* ---- the physical instance: positions in R^3, orientations in SO(3) (Lib/RigidR3.v, matrices with
   M M^T = I and det M = 1; scipy's quaternion product is the group law there, RigidR3.quat_to_rot_mul).
   The path semantics holds verbatim for it. *)
From MV Require Import Lib.RigidR3.

Theorem C09_move_spec_R3 : forall (o : @obj R3Ops) (d : inp V3) (st : option Z),
  wf o -> wf_inp d -> apply_move o d st = spec_move o d st.
Proof. exact (@move_spec R3Ops). Qed.

Theorem C09_rotate_spec_R3 : forall (o : @obj R3Ops) (r : inp SO3) (a : option (inp V3)) (st : option Z),
  wf o -> wf_inp r ->
  let '(a', r') := match a with
                   | Some a => let '(a', r') := multi_anchor a r in (Some a', r')
                   | None => (None, r) end in
  wf_inp r' ->
  apply_rotation o r a st None = spec_rotate o r' (anchor_fun a') st.
Proof. exact (@rotate_spec_no_parent R3Ops). Qed.

Theorem C09_lengths_invariant_R3 : forall (h : list (@op R3Ops)) (o : @obj R3Ops),
  wf o -> Forall wf_op h -> wf (run o h).
Proof. exact (@wf_run R3Ops). Qed.

Print Assumptions C09_move_spec_R3.
Print Assumptions C09_rotate_spec_R3.
Print Assumptions C09_lengths_invariant_R3.
