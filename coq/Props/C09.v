(* C09 -- move/rotate and the pose setters follow the documented path semantics.
   Statements only; every proof is `exact <lemma>` so that nothing is weakened here.
   path_padding_param and pad_slice_path are the functions TRANSLATED from /repo on this run. *)
From Coq Require Import ZArith List Bool.
From MV Require Import Lib.ListZ Lib.Rigid Lib.OctZ Gen.GenPath Model.PathModel Proofs.PathProofs.
Import ListNotations.
Open Scope Z_scope.

(* the translated padding arithmetic: for all lengths n>=1, k>=0 and every start *)
Theorem C09_padding_param : forall sc n k st, 1 <= n -> 0 <= k -> (sc = true -> k = 1) ->
  let '(pad, s) := path_padding_param sc n k st in
  let b := match pad with Some (b, _) => b | None => 0 end in
  let a := match pad with Some (_, a) => a | None => 0 end in
  let s1 := start1 sc n st in
  b = Z.max 0 (- s1) /\ s = Z.max 0 s1 /\ 0 <= a /\ b + n + a = Z.max (b + n) (s + k).
Proof. exact ppp_spec. Qed.
Print Assumptions C09_padding_param.

Section AnyRigidAlgebra.
Context {O : RigidOps}.

Theorem C09_move_spec : forall (o : obj) (d : inp V) (st : option Z),
  wf o -> wf_inp d -> apply_move o d st = spec_move o d st.
Proof. exact move_spec. Qed.

Theorem C09_rotate_spec : forall (o : obj) (r : inp G) (a : option (inp V)) (st : option Z),
  wf o -> wf_inp r ->
  let '(a', r') := match a with
                   | Some a => let '(a', r') := multi_anchor a r in (Some a', r')
                   | None => (None, r) end in
  wf_inp r' ->
  apply_rotation o r a st None = spec_rotate o r' (anchor_fun a') st.
Proof. exact rotate_spec_no_parent. Qed.

Theorem C09_multi_anchor : forall (a : inp V) (r : inp G), wf_inp a -> wf_inp r ->
  let '(a', r') := multi_anchor a r in
  wf_inp a' /\ wf_inp r' /\
  (is_scalar r' = false -> is_scalar a' = false -> ilen a' = ilen r') /\
  ilen r' = Z.max (ilen r) (match a with Scalar _ => 1 | Vector xs => zlen xs end) /\
  (forall j, 0 <= j < ilen r' ->
     iget gone r' j = iget gone r (Z.min j (ilen r - 1)) /\
     iget vzero a' j = iget vzero a (Z.min j (ilen a - 1))).
Proof. exact multi_anchor_wf. Qed.

Theorem C09_set_position : forall (o : obj) (p : inp V), wf o -> wf_inp p ->
  set_position o p = {| pos := as_rows p; ori := spec_fit gone (ilen p) (ori o) |}.
Proof. exact set_position_spec. Qed.

Theorem C09_set_orientation : forall (o : obj) (r : option (inp G)),
  wf o -> match r with Some r => wf_inp r | None => True end ->
  let qs := match r with None => [gone] | Some r => as_rows r end in
  set_orientation o r = {| pos := spec_fit vzero (zlen qs) (pos o); ori := qs |}.
Proof. exact set_orientation_spec. Qed.

(* position and orientation paths have equal length >= 1 after EVERY history *)
Theorem C09_lengths_invariant : forall (h : list op) (o : obj),
  wf o -> Forall wf_op h -> wf (run o h).
Proof. exact wf_run. Qed.

Theorem C09_init_wf : forall p r, wf_inp p ->
  match r with Some r => wf_inp r | None => True end -> wf (init_pose p r).
Proof. exact wf_init. Qed.

End AnyRigidAlgebra.

Print Assumptions C09_move_spec.
Print Assumptions C09_rotate_spec.
Print Assumptions C09_multi_anchor.
Print Assumptions C09_set_position.
Print Assumptions C09_set_orientation.
Print Assumptions C09_lengths_invariant.
Print Assumptions C09_init_wf.

(* non-vacuity: a concrete object and history in the executable instance meet the hypotheses *)
Example C09_nonvacuous :
  let o := init_pose (O := OctOps) (Vector [(1, 2, 3); (4, 5, 6)]) None in
  let h := [Move (Vector [(1, 0, 0); (2, 0, 0); (3, 0, 0)]) (Some (-5));
            Rotate (Scalar (mkOct P120 false true true)) (Some (Scalar (0, 0, 1))) None] in
  wf o /\ Forall wf_op h /\ zlen (pos (run o h)) = 5.
Proof.
  cbv zeta. split; [|split].
  - apply wf_init; cbv; [discriminate|exact I].
  - repeat constructor; cbv; discriminate.
  - vm_compute. reflexivity.
Qed.
Print Assumptions C09_nonvacuous.

(* REFUTED without the input hypothesis: the implementation's validator check_format_input_orientation
   accepts an EMPTY scipy Rotation (a path of 0 orientations), an input that is not wf_inp.  The faithful
   model of the orientation setter then stores position and orientation paths of length 0, so the clause
   "position and orientation paths always have equal length >= 1" fails: the hypothesis `Forall wf_op h`
   of C09_lengths_invariant is not guaranteed by the implementation's own input check
   (found as lengths/orientation=:empty-rotation; the validator rejects empty Rotations since /repo 5f63352:
   this theorem records what the hypothesis protects against). *)
Theorem C09_lengths_invariant_empty_orientation_refuted :
  let o := init_pose (O := OctOps) (Vector [(1, 2, 3); (4, 5, 6)]) None in
  let x := @SetOri OctOps (Some (Vector [])) in
  wf o /\ ~ wf_op x /\ zlen (pos (step o x)) = 0 /\ zlen (ori (step o x)) = 0 /\ ~ wf (step o x).
Proof.
  cbv zeta. split; [|split; [|split; [|split]]].
  - apply wf_init; cbv; [discriminate|exact I].
  - intros H. vm_compute in H. apply H. reflexivity.
  - vm_compute. reflexivity.
  - vm_compute. reflexivity.
  - intros [H _]. vm_compute in H. apply H. reflexivity.
Qed.
Print Assumptions C09_lengths_invariant_empty_orientation_refuted.

(* ---- the physical instance: positions in R^3, orientations in SO(3) (Lib/RigidR3.v, matrices with
   M M^T = I and det M = 1; scipy's quaternion product is the group law there, RigidR3.quat_to_rot_mul).
   The path semantics holds verbatim for it. *)
From MV Require Import Lib.RigidR3.

Theorem C09_move_spec_R3 : forall (o : @obj R3Ops) (d : inp V3) (st : option Z),
  wf o -> wf_inp d -> apply_move o d st = spec_move o d st.
Proof. exact (@move_spec R3Ops). Qed.

Theorem C09_rotate_spec_R3 : forall (o : @obj R3Ops) (r : inp SO3) (a : option (inp V3)) (st : option Z),
  wf o -> wf_inp r ->
  let '(a', r') := match a with
                   | Some a => let '(a', r') := multi_anchor a r in (Some a', r')
                   | None => (None, r) end in
  wf_inp r' ->
  apply_rotation o r a st None = spec_rotate o r' (anchor_fun a') st.
Proof. exact (@rotate_spec_no_parent R3Ops). Qed.

Theorem C09_lengths_invariant_R3 : forall (h : list (@op R3Ops)) (o : @obj R3Ops),
  wf o -> Forall wf_op h -> wf (run o h).
Proof. exact (@wf_run R3Ops). Qed.

Print Assumptions C09_move_spec_R3.
Print Assumptions C09_rotate_spec_R3.
Print Assumptions C09_lengths_invariant_R3.

(* ---- tie by translation: the statement-level flow of multi_anchor_behavior, path_padding, apply_move,
   apply_rotation, move / _rotate / rotate / rotate_from_*, _init_position_orientation, the setters and
   reset_path is re-derived from /repo on every run (Gen/GenPathFlow.v); it is the structure the hand
   model was written against, and its pad widths / end indices / slices, interpreted, are the numbers
   PathModel computes with. *)
From Coq Require Import String.
From MV Require Import Gen.GenPathFlow Model.L2Arith Model.PathFlow Proofs.PathFlowProofs.
Open Scope string_scope.
Open Scope Z_scope.

Theorem C09_flow_translated : flow = expected_flow.
Proof. exact flow_translated. Qed.

Theorem C09_front_ends_translated : front_ends = expected_front_ends.
Proof. exact front_ends_translated. Qed.

(* every rotate_from_<x> is `rot = R.from_<x>(<its own parameters, unchanged>)` followed by
   `return self.rotate(rot, anchor, start)` (the shape itself is enforced by the translator) *)
Theorem C09_front_ends_passthrough :
  forallb (fun fe => let '(_, _, cargs, rargs) := fe in passthrough cargs && rotate_call_ok rargs)
          front_ends = true.
Proof. exact front_ends_passthrough. Qed.

Theorem C09_euler_front_end :
  In ("rotate_from_euler", "from_euler", [("", "seq"); ("", "angle"); ("degrees", "degrees")],
      [("", "rot"); ("anchor", "anchor"); ("start", "start")]) front_ends.
Proof. exact euler_front_end. Qed.

Section FlowSemantics.
Context {O : RigidOps}.

Theorem C09_multi_anchor_anchor_pad_translated : forall (a : inp V) (r : inp G),
  len0 r >? len0 a = true ->
  pads_as (ma_env (len0 r) (zlen (as_rows a))) e_ma_anchor_pad "anchor"
    (fun B A => multi_anchor a r = (Vector (edge_pad vzero B A (as_rows a)), r)).
Proof. exact multi_anchor_anchor_pad_translated. Qed.

Theorem C09_multi_anchor_rot_pad_translated : forall (a : inp V) (r : inp G),
  len0 r >? len0 a = false -> len0 r <? len0 a = true ->
  pads_as (ma_env (zlen (as_rows r)) (len0 a)) e_ma_rot_pad "inrotQ"
    (fun B A => multi_anchor a r = (a, Vector (edge_pad gone B A (as_rows r)))).
Proof. exact multi_anchor_rot_pad_translated. Qed.

Theorem C09_init_ori_pad_translated : forall (p : inp V) (r : option (inp G)),
  zlen (as_rows p) >? zlen (ori_rows r) = true ->
  pads_as (init_env (zlen (as_rows p)) (zlen (ori_rows r))) e_init_ori_pad "oriQ"
    (fun B A => init_pose p r = {| pos := as_rows p; ori := edge_pad gone B A (ori_rows r) |}).
Proof. exact init_ori_pad_translated. Qed.

Theorem C09_init_pos_pad_translated : forall (p : inp V) (r : option (inp G)),
  zlen (as_rows p) >? zlen (ori_rows r) = false -> zlen (as_rows p) <? zlen (ori_rows r) = true ->
  pads_as (init_env (zlen (as_rows p)) (zlen (ori_rows r))) e_init_pos_pad "pos"
    (fun B A => init_pose p r = {| pos := edge_pad vzero B A (as_rows p); ori := ori_rows r |}).
Proof. exact init_pos_pad_translated. Qed.

Theorem C09_path_padding_translated : forall (sc : bool) (lenvec : Z) (st : option Z) (o : obj),
  let lenip := if sc then 1 else lenvec in
  let '(ppath, opath, s, e, padded) := path_padding sc lenvec st o in
  evalZb (bind "len(inpath)" lenvec env0) (bind "scalar_input" sc benv0) e_pp_lenip = Some lenip /\
  evalZb (bind "len(ppath)" (zlen ppath) (bind "start" s (bind "lenip" lenip env0)))
         (bind "scalar_input" sc benv0) e_pp_end = Some e /\
  (callee e_pp_param, arg 0 e_pp_param, arg 1 e_pp_param, arg 2 e_pp_param, arg 3 e_pp_param) =
    (PName "path_padding_param", PName "scalar_input", PCall (PName "len") [PName "ppath"] [],
     PName "lenip", PName "start") /\
  arg 1 (get "path_padding" "assign" "ppath" 1 flow) = PTuple [PName "padding"; PTuple [PInt 0; PInt 0]] /\
  arg 1 (get "path_padding" "assign" "opath" 1 flow) = PTuple [PName "padding"; PTuple [PInt 0; PInt 0]].
Proof. exact path_padding_translated. Qed.

Theorem C09_parent_anchor_translated : forall (e s s2 la : Z),
  get "apply_rotation" "if" "" 1 flow =
    PBin "and" (PCmp "is" (PName "anchor") PNone) (PCmp "is not" (PName "parent_path") PNone) /\
  evalZb (bind "end" e (bind "newstart" s env0)) benv0 e_ar_len_anchor = Some (e - s) /\
  (callee e_ar_param, arg 0 e_ar_param, arg 1 e_ar_param, arg 2 e_ar_param, arg 3 e_ar_param) =
    (PName "path_padding_param", PCmp "==" (PAttr (PName "inrotQ") "ndim") (PInt 1),
     PSub (PAttr (PName "parent_path") "shape") (PInt 0), PName "len_anchor", PName "start") /\
  exists elo ehi, slice_call e_ar_anchor = Some (PName "parent_path", elo, ehi) /\
    evalZb (bind "start" s2 (bind "len_anchor" la env0)) benv0 elo = Some s2 /\
    evalZb (bind "start" s2 (bind "len_anchor" la env0)) benv0 ehi = Some (s2 + la).
Proof. exact parent_anchor_translated. Qed.

End FlowSemantics.

Print Assumptions C09_flow_translated.
Print Assumptions C09_front_ends_translated.
Print Assumptions C09_front_ends_passthrough.
Print Assumptions C09_euler_front_end.
Print Assumptions C09_multi_anchor_anchor_pad_translated.
Print Assumptions C09_multi_anchor_rot_pad_translated.
Print Assumptions C09_init_ori_pad_translated.
Print Assumptions C09_init_pos_pad_translated.
Print Assumptions C09_path_padding_translated.
Print Assumptions C09_parent_anchor_translated.

(* ---- the physical instance R^3 x SO(3) (Lib/RigidR3.v) *)
From MV Require Import Lib.RigidR3.

Theorem C09_multi_anchor_R3 : forall (a : inp (@V R3Ops)) (r : inp (@G R3Ops)), wf_inp a -> wf_inp r ->
  let '(a', r') := multi_anchor a r in
  wf_inp a' /\ wf_inp r' /\
  (is_scalar r' = false -> is_scalar a' = false -> ilen a' = ilen r') /\
  ilen r' = Z.max (ilen r) (match a with Scalar _ => 1 | Vector xs => zlen xs end) /\
  (forall j, 0 <= j < ilen r' ->
     iget gone r' j = iget gone r (Z.min j (ilen r - 1)) /\
     iget vzero a' j = iget vzero a (Z.min j (ilen a - 1))).
Proof. exact (@multi_anchor_wf R3Ops). Qed.

Theorem C09_set_position_R3 : forall (o : @obj R3Ops) (p : inp (@V R3Ops)), wf o -> wf_inp p ->
  set_position o p = {| pos := as_rows p; ori := spec_fit gone (ilen p) (ori o) |}.
Proof. exact (@set_position_spec R3Ops). Qed.

Theorem C09_set_orientation_R3 : forall (o : @obj R3Ops) (r : option (inp (@G R3Ops))),
  wf o -> match r with Some r => wf_inp r | None => True end ->
  let qs := match r with None => [gone] | Some r => as_rows r end in
  set_orientation o r = {| pos := spec_fit vzero (zlen qs) (pos o); ori := qs |}.
Proof. exact (@set_orientation_spec R3Ops). Qed.

Print Assumptions C09_multi_anchor_R3.
Print Assumptions C09_set_position_R3.
Print Assumptions C09_set_orientation_R3.
