(* Abstract rigid-motion algebra: an abelian group V (positions / field vectors),
   a group G (orientations) acting additively on V.  R^3 with SO(3) is one instance
   (not formalised); Z^3 with the 48 signed permutation matrices is another (OctZ.v)
   and is the one on which the models are executed against the implementation. *)
From Coq Require Import ZArith List.

Class RigidOps := {
  V : Type; G : Type;
  vzero : V; vadd : V -> V -> V; vneg : V -> V;
  gone : G; gmul : G -> G -> G; ginv : G -> G;
  act : G -> V -> V
}.

Definition vsub `{RigidOps} (a b : V) : V := vadd a (vneg b).

Class RigidLaws (O : RigidOps) := {
  vadd_assoc : forall a b c : V, vadd a (vadd b c) = vadd (vadd a b) c;
  vadd_comm : forall a b : V, vadd a b = vadd b a;
  vadd_0_l : forall a : V, vadd vzero a = a;
  vadd_neg_r : forall a : V, vadd a (vneg a) = vzero;
  gmul_assoc : forall a b c : G, gmul a (gmul b c) = gmul (gmul a b) c;
  gmul_1_l : forall a : G, gmul gone a = a;
  gmul_1_r : forall a : G, gmul a gone = a;
  gmul_inv_l : forall a : G, gmul (ginv a) a = gone;
  act_mul : forall (a b : G) (v : V), act (gmul a b) v = act a (act b v);
  act_one : forall v : V, act gone v = v;
  act_add : forall (a : G) (v w : V), act a (vadd v w) = vadd (act a v) (act a w)
}.

Section Derived.
Context {O : RigidOps} {L : RigidLaws O}.

Lemma vadd_0_r a : vadd a vzero = a.
Proof. rewrite vadd_comm. apply vadd_0_l. Qed.

Lemma vadd_neg_l a : vadd (vneg a) a = vzero.
Proof. rewrite vadd_comm. apply vadd_neg_r. Qed.

Lemma vadd_cancel_l a b c : vadd a b = vadd a c -> b = c.
Proof.
  intros H. assert (vadd (vneg a) (vadd a b) = vadd (vneg a) (vadd a c)) by (rewrite H; reflexivity).
  rewrite !vadd_assoc, !vadd_neg_l, !vadd_0_l in H0. exact H0.
Qed.

Lemma vsub_add a b : vadd (vsub a b) b = a.
Proof. unfold vsub. rewrite <- vadd_assoc, vadd_neg_l. apply vadd_0_r. Qed.

Lemma vadd_sub a b : vsub (vadd a b) b = a.
Proof. unfold vsub. rewrite <- vadd_assoc, vadd_neg_r. apply vadd_0_r. Qed.

Lemma vsub_self a : vsub a a = vzero.
Proof. apply vadd_neg_r. Qed.

Lemma vneg_neg a : vneg (vneg a) = a.
Proof.
  apply (vadd_cancel_l (vneg a)). rewrite vadd_neg_r, vadd_neg_l. reflexivity.
Qed.

Lemma vneg_add a b : vneg (vadd a b) = vadd (vneg a) (vneg b).
Proof.
  apply (vadd_cancel_l (vadd a b)). rewrite vadd_neg_r.
  rewrite (vadd_comm (vneg a)). rewrite vadd_assoc. rewrite <- (vadd_assoc a b).
  rewrite vadd_neg_r, vadd_0_r, vadd_neg_r. reflexivity.
Qed.

Lemma act_zero g : act g vzero = vzero.
Proof.
  apply (vadd_cancel_l (act g vzero)). rewrite <- act_add, vadd_0_l, vadd_0_r. reflexivity.
Qed.

Lemma act_neg g v : act g (vneg v) = vneg (act g v).
Proof.
  apply (vadd_cancel_l (act g v)). rewrite <- act_add, !vadd_neg_r. apply act_zero.
Qed.

Lemma act_sub g v w : act g (vsub v w) = vsub (act g v) (act g w).
Proof. unfold vsub. rewrite act_add, act_neg. reflexivity. Qed.

Lemma gmul_inv_r a : gmul a (ginv a) = gone.
Proof.
  rewrite <- (gmul_1_l (gmul a (ginv a))).
  rewrite <- (gmul_inv_l (ginv a)) at 1.
  rewrite <- (gmul_assoc (ginv (ginv a))). rewrite (gmul_assoc (ginv a)).
  rewrite gmul_inv_l, gmul_1_l. apply gmul_inv_l.
Qed.

Lemma act_inv_l g v : act (ginv g) (act g v) = v.
Proof. rewrite <- act_mul, gmul_inv_l. apply act_one. Qed.

Lemma act_inv_r g v : act g (act (ginv g) v) = v.
Proof. rewrite <- act_mul, gmul_inv_r. apply act_one. Qed.

Lemma gmul_cancel_l a x y : gmul a x = gmul a y -> x = y.
Proof.
  intros H. assert (E : gmul (ginv a) (gmul a x) = gmul (ginv a) (gmul a y)) by (rewrite H; reflexivity).
  rewrite !gmul_assoc, !gmul_inv_l, !gmul_1_l in E. exact E.
Qed.

Lemma ginv_mul a b : ginv (gmul a b) = gmul (ginv b) (ginv a).
Proof.
  apply (gmul_cancel_l (gmul a b)). rewrite gmul_inv_r.
  rewrite <- (gmul_assoc a b). rewrite (gmul_assoc b). rewrite gmul_inv_r, gmul_1_l.
  rewrite gmul_inv_r. reflexivity.
Qed.

Lemma ginv_inv a : ginv (ginv a) = a.
Proof.
  rewrite <- (gmul_1_r (ginv (ginv a))). rewrite <- (gmul_inv_l a).
  rewrite gmul_assoc, gmul_inv_l. apply gmul_1_l.
Qed.

Lemma ginv_one : ginv gone = gone.
Proof. rewrite <- (gmul_1_r (ginv gone)). apply gmul_inv_l. Qed.

Lemma act_inj g v w : act g v = act g w -> v = w.
Proof. intros H. rewrite <- (act_inv_l g v), H. apply act_inv_l. Qed.

End Derived.
