(* The PHYSICAL rigid-motion algebra: V = R^3 (stdlib Reals), G = SO(3) = proper rotations
   { M : 3x3 real matrix | M * M^T = I /\ det M = 1 }, gmul = matrix product, ginv = transpose,
   act = matrix-vector product.  `R3Laws : RigidLaws R3Ops` makes every theorem stated for an
   abstract RigidOps/RigidLaws algebra (C03/C04/C06/C09/C10) hold for real positions and real
   rotations.  Also: rotations are isometries and keep orientation (triple product, cross
   product), and the unit-quaternion front end in scipy's convention (x, y, z, w), scalar last:
   quat_to_mat is in G and turns the quaternion product into the matrix product.

   Axioms: the standard-library reals (ClassicalDedekindReals.sig_forall_dec, sig_not_dec,
   FunctionalExtensionality.functional_extensionality_dep) and
   ProofIrrelevance.proof_irrelevance (two elements of G with the same matrix are equal). *)
From Coq Require Import Reals Lra Nsatz ProofIrrelevance.
From MV Require Import Lib.Rigid.
Open Scope R_scope.

Definition V3 := (R * R * R)%type.
Record M3 := mk3 { m11 : R; m12 : R; m13 : R;
                   m21 : R; m22 : R; m23 : R;
                   m31 : R; m32 : R; m33 : R }.

Definition v3zero : V3 := (0, 0, 0).
Definition v3add (a b : V3) : V3 :=
  let '(a1, a2, a3) := a in let '(b1, b2, b3) := b in (a1 + b1, a2 + b2, a3 + b3).
Definition v3neg (a : V3) : V3 := let '(a1, a2, a3) := a in (- a1, - a2, - a3).
Definition dot3 (a b : V3) : R :=
  let '(a1, a2, a3) := a in let '(b1, b2, b3) := b in a1 * b1 + a2 * b2 + a3 * b3.
Definition cross3 (a b : V3) : V3 :=
  let '(a1, a2, a3) := a in let '(b1, b2, b3) := b in
  (a2 * b3 - a3 * b2, a3 * b1 - a1 * b3, a1 * b2 - a2 * b1).
Definition triple3 (a b c : V3) : R := dot3 a (cross3 b c).

Definition mact (m : M3) (v : V3) : V3 :=
  let '(x, y, z) := v in
  (m11 m * x + m12 m * y + m13 m * z,
   m21 m * x + m22 m * y + m23 m * z,
   m31 m * x + m32 m * y + m33 m * z).
Definition mmul (a b : M3) : M3 :=
  mk3 (m11 a * m11 b + m12 a * m21 b + m13 a * m31 b)
      (m11 a * m12 b + m12 a * m22 b + m13 a * m32 b)
      (m11 a * m13 b + m12 a * m23 b + m13 a * m33 b)
      (m21 a * m11 b + m22 a * m21 b + m23 a * m31 b)
      (m21 a * m12 b + m22 a * m22 b + m23 a * m32 b)
      (m21 a * m13 b + m22 a * m23 b + m23 a * m33 b)
      (m31 a * m11 b + m32 a * m21 b + m33 a * m31 b)
      (m31 a * m12 b + m32 a * m22 b + m33 a * m32 b)
      (m31 a * m13 b + m32 a * m23 b + m33 a * m33 b).
Definition mtr (a : M3) : M3 :=
  mk3 (m11 a) (m21 a) (m31 a) (m12 a) (m22 a) (m32 a) (m13 a) (m23 a) (m33 a).
Definition mid : M3 := mk3 1 0 0 0 1 0 0 0 1.
Definition det3 (a : M3) : R :=
  m11 a * (m22 a * m33 a - m23 a * m32 a)
  - m12 a * (m21 a * m33 a - m23 a * m31 a)
  + m13 a * (m21 a * m32 a - m22 a * m31 a).

Ltac m3 := repeat match goal with m : M3 |- _ => destruct m end;
           repeat match goal with v : V3 |- _ => destruct v as [[? ?] ?] end;
           unfold triple3; unfold mmul, mtr, mid, det3, mact, v3add, v3neg, v3zero, dot3, cross3;
           cbn [m11 m12 m13 m21 m22 m23 m31 m32 m33].
Ltac m3ring := m3; first [ring | f_equal; ring | f_equal; [f_equal|]; ring].

(* ---- matrix algebra (ring identities, componentwise) *)
Lemma mmul_assoc a b c : mmul a (mmul b c) = mmul (mmul a b) c.
Proof. m3ring. Qed.
Lemma mmul_id_l a : mmul mid a = a.
Proof. m3ring. Qed.
Lemma mmul_id_r a : mmul a mid = a.
Proof. m3ring. Qed.
Lemma mtr_mmul a b : mtr (mmul a b) = mmul (mtr b) (mtr a).
Proof. m3ring. Qed.
Lemma mtr_mtr a : mtr (mtr a) = a.
Proof. m3ring. Qed.
Lemma det3_mmul a b : det3 (mmul a b) = det3 a * det3 b.
Proof. m3ring. Qed.
Lemma det3_mtr a : det3 (mtr a) = det3 a.
Proof. m3ring. Qed.
Lemma det3_mid : det3 mid = 1.
Proof. m3ring. Qed.
Lemma mact_mmul a b v : mact (mmul a b) v = mact a (mact b v).
Proof. m3ring. Qed.
Lemma mact_mid v : mact mid v = v.
Proof. m3ring. Qed.
Lemma mact_add a v w : mact a (v3add v w) = v3add (mact a v) (mact a w).
Proof. m3ring. Qed.
Lemma dot3_mact a v w : dot3 (mact a v) (mact a w) = dot3 v (mact (mmul (mtr a) a) w).
Proof. m3ring. Qed.
Lemma triple3_mact a u v w : triple3 (mact a u) (mact a v) (mact a w) = det3 a * triple3 u v w.
Proof. m3ring. Qed.

(* a right inverse of a square matrix is a left inverse: M M^T = I, det M = 1  ->  M^T M = I *)
Lemma orth_left a : mmul a (mtr a) = mid -> det3 a = 1 -> mmul (mtr a) a = mid.
Proof.
  destruct a as [a11 a12 a13 a21 a22 a23 a31 a32 a33]. unfold mmul, mtr, mid, det3.
  cbn [m11 m12 m13 m21 m22 m23 m31 m32 m33]. intros H D.
  injection H as H11 H12 H13 H21 H22 H23 H31 H32 H33.
  f_equal; nsatz.
Qed.

(* for a proper rotation every entry equals its own cofactor (M = cof M) *)
Lemma cross3_mact a u v : mmul a (mtr a) = mid -> det3 a = 1 ->
  cross3 (mact a u) (mact a v) = mact a (cross3 u v).
Proof.
  destruct a as [a11 a12 a13 a21 a22 a23 a31 a32 a33]. destruct u as [[u1 u2] u3], v as [[v1 v2] v3].
  unfold mmul, mtr, mid, det3, cross3, mact.
  cbn [m11 m12 m13 m21 m22 m23 m31 m32 m33]. intros H D.
  injection H as H11 H12 H13 H21 H22 H23 H31 H32 H33.
  assert (C11 : a11 = a22 * a33 - a23 * a32) by nsatz.
  assert (C12 : a12 = a23 * a31 - a21 * a33) by nsatz.
  assert (C13 : a13 = a21 * a32 - a22 * a31) by nsatz.
  assert (C21 : a21 = a13 * a32 - a12 * a33) by nsatz.
  assert (C22 : a22 = a11 * a33 - a13 * a31) by nsatz.
  assert (C23 : a23 = a12 * a31 - a11 * a32) by nsatz.
  assert (C31 : a31 = a12 * a23 - a13 * a22) by nsatz.
  assert (C32 : a32 = a13 * a21 - a11 * a23) by nsatz.
  assert (C33 : a33 = a11 * a22 - a12 * a21) by nsatz.
  clear H11 H12 H13 H21 H22 H23 H31 H32 H33 D.
  f_equal; [f_equal|].
  - clear C21 C22 C23 C31 C32 C33. nsatz.
  - clear C11 C12 C13 C31 C32 C33. nsatz.
  - clear C11 C12 C13 C21 C22 C23. nsatz.
Qed.

(* ---- SO(3) *)
Record SO3 := mkSO3 { mat : M3; orth : mmul mat (mtr mat) = mid; det1 : det3 mat = 1 }.

Lemma SO3_eq (a b : SO3) : mat a = mat b -> a = b.
Proof.
  destruct a as [ma oa da], b as [mb ob db]. cbn [mat]. intros E. subst mb.
  rewrite (proof_irrelevance _ oa ob), (proof_irrelevance _ da db). reflexivity.
Qed.

Definition so3_one : SO3.
Proof. refine (mkSO3 mid _ _); m3ring. Defined.

Definition so3_mul (a b : SO3) : SO3.
Proof.
  refine (mkSO3 (mmul (mat a) (mat b)) _ _).
  - rewrite mtr_mmul. rewrite mmul_assoc. rewrite <- (mmul_assoc (mat a)).
    rewrite (orth b), mmul_id_r. apply (orth a).
  - rewrite det3_mmul, (det1 a), (det1 b). ring.
Defined.

Definition so3_inv (a : SO3) : SO3.
Proof.
  refine (mkSO3 (mtr (mat a)) _ _).
  - rewrite mtr_mtr. apply orth_left; [apply (orth a) | apply (det1 a)].
  - rewrite det3_mtr. apply (det1 a).
Defined.

Definition so3_act (a : SO3) (v : V3) : V3 := mact (mat a) v.

Lemma mat_mul a b : mat (so3_mul a b) = mmul (mat a) (mat b).
Proof. reflexivity. Qed.
Lemma mat_inv a : mat (so3_inv a) = mtr (mat a).
Proof. reflexivity. Qed.
Lemma mat_one : mat so3_one = mid.
Proof. reflexivity. Qed.

#[export] Instance R3Ops : RigidOps := {|
  V := V3; G := SO3;
  vzero := v3zero; vadd := v3add; vneg := v3neg;
  gone := so3_one; gmul := so3_mul; ginv := so3_inv; act := so3_act |}.

#[export] Instance R3Laws : RigidLaws R3Ops.
Proof.
  constructor; cbn [V G vzero vadd vneg gone gmul ginv act R3Ops].
  - intros a b c. m3ring.
  - intros a b. m3ring.
  - intros a. m3ring.
  - intros a. m3ring.
  - intros a b c. apply SO3_eq. rewrite !mat_mul. apply mmul_assoc.
  - intros a. apply SO3_eq. rewrite mat_mul, mat_one. apply mmul_id_l.
  - intros a. apply SO3_eq. rewrite mat_mul, mat_one. apply mmul_id_r.
  - intros a. apply SO3_eq. rewrite mat_mul, mat_inv, mat_one.
    apply orth_left; [apply (orth a) | apply (det1 a)].
  - intros a b v. unfold so3_act. rewrite mat_mul. apply mact_mmul.
  - intros v. unfold so3_act. rewrite mat_one. apply mact_mid.
  - intros a v w. unfold so3_act. apply mact_add.
Qed.

(* ---- rotations are isometries and keep orientation *)
Lemma act_dot (g : SO3) (v w : V3) : dot3 (so3_act g v) (so3_act g w) = dot3 v w.
Proof.
  unfold so3_act. rewrite dot3_mact.
  rewrite (orth_left (mat g) (orth g) (det1 g)), mact_mid. reflexivity.
Qed.

Definition norm3 (v : V3) : R := sqrt (dot3 v v).

Lemma act_norm (g : SO3) (v : V3) : norm3 (so3_act g v) = norm3 v.
Proof. unfold norm3. rewrite act_dot. reflexivity. Qed.

(* distances between points are kept *)
Lemma act_dist (g : SO3) (v w : V3) :
  norm3 (v3add (so3_act g v) (v3neg (so3_act g w))) = norm3 (v3add v (v3neg w)).
Proof.
  replace (v3add (so3_act g v) (v3neg (so3_act g w))) with (so3_act g (v3add v (v3neg w))).
  - apply act_norm.
  - unfold so3_act. destruct g as [m o d]. cbn [mat]. m3ring.
Qed.

Lemma act_triple (g : SO3) (u v w : V3) :
  triple3 (so3_act g u) (so3_act g v) (so3_act g w) = triple3 u v w.
Proof. unfold so3_act. rewrite triple3_mact, (det1 g). ring. Qed.

Lemma act_cross (g : SO3) (u v : V3) :
  cross3 (so3_act g u) (so3_act g v) = so3_act g (cross3 u v).
Proof. unfold so3_act. apply cross3_mact; [apply (orth g) | apply (det1 g)]. Qed.

(* ---- unit quaternions, scipy convention (x, y, z, w): scalar LAST *)
Definition Q4 := (R * R * R * R)%type.
Definition qnorm2 (q : Q4) : R := let '(x, y, z, w) := q in x * x + y * y + z * z + w * w.

(* scipy.spatial.transform.Rotation.as_matrix of a (normalised) quaternion *)
Definition quat_to_mat (q : Q4) : M3 :=
  let '(x, y, z, w) := q in
  mk3 (x * x - y * y - z * z + w * w) (2 * (x * y - z * w)) (2 * (x * z + y * w))
      (2 * (x * y + z * w)) (- (x * x) + y * y - z * z + w * w) (2 * (y * z - x * w))
      (2 * (x * z - y * w)) (2 * (y * z + x * w)) (- (x * x) - y * y + z * z + w * w).

(* scipy's compose_quat(p, q) behind Rotation.__mul__: the Hamilton product p (x) q *)
Definition qmul (p q : Q4) : Q4 :=
  let '(px, py, pz, pw) := p in let '(qx, qy, qz, qw) := q in
  (pw * qx + qw * px + (py * qz - pz * qy),
   pw * qy + qw * py + (pz * qx - px * qz),
   pw * qz + qw * pz + (px * qy - py * qx),
   pw * qw - (px * qx + py * qy + pz * qz)).
Definition qconj (q : Q4) : Q4 := let '(x, y, z, w) := q in (- x, - y, - z, w).
Definition qone : Q4 := (0, 0, 0, 1).

Ltac q4 := repeat match goal with q : Q4 |- _ => destruct q as [[[? ?] ?] ?] end;
           unfold quat_to_mat, qmul, qconj, qone, qnorm2, mmul, mtr, mid, det3;
           cbn [m11 m12 m13 m21 m22 m23 m31 m32 m33].

Lemma qnorm2_qmul p q : qnorm2 (qmul p q) = qnorm2 p * qnorm2 q.
Proof. q4. ring. Qed.
Lemma quat_to_mat_qmul p q : quat_to_mat (qmul p q) = mmul (quat_to_mat p) (quat_to_mat q).
Proof. q4. f_equal; ring. Qed.
Lemma quat_to_mat_qconj q : quat_to_mat (qconj q) = mtr (quat_to_mat q).
Proof. q4. f_equal; ring. Qed.
Lemma quat_to_mat_qone : quat_to_mat qone = mid.
Proof. q4. f_equal; ring. Qed.
Lemma quat_to_mat_neg x y z w : quat_to_mat (- x, - y, - z, - w) = quat_to_mat (x, y, z, w).
Proof. unfold quat_to_mat. f_equal; ring. Qed.

Lemma quat_to_mat_orth q : qnorm2 q = 1 -> mmul (quat_to_mat q) (mtr (quat_to_mat q)) = mid.
Proof.
  destruct q as [[[x y] z] w]. unfold qnorm2. intros H. q4.
  f_equal; nsatz.
Qed.
Lemma quat_to_mat_det q : qnorm2 q = 1 -> det3 (quat_to_mat q) = 1.
Proof.
  destruct q as [[[x y] z] w]. unfold qnorm2. intros H. q4.
  replace (_ - _ + _) with ((x * x + y * y + z * z + w * w) * (x * x + y * y + z * z + w * w)
                            * (x * x + y * y + z * z + w * w)) by ring.
  rewrite H. ring.
Qed.

Record uquat := mkUQ { quat : Q4; unitq : qnorm2 quat = 1 }.

Definition uq_mul (p q : uquat) : uquat.
Proof.
  refine (mkUQ (qmul (quat p) (quat q)) _).
  rewrite qnorm2_qmul, (unitq p), (unitq q). ring.
Defined.

(* the rotation a scipy Rotation with (unit) quaternion q stands for *)
Definition quat_to_rot (q : uquat) : SO3 :=
  mkSO3 (quat_to_mat (quat q)) (quat_to_mat_orth _ (unitq q)) (quat_to_mat_det _ (unitq q)).

(* scipy's Rotation product is the product in G *)
Theorem quat_to_rot_mul (p q : uquat) :
  quat_to_rot (uq_mul p q) = gmul (quat_to_rot p) (quat_to_rot q).
Proof. apply SO3_eq. cbn [gmul R3Ops]. rewrite mat_mul. cbn [mat quat_to_rot uq_mul quat]. apply quat_to_mat_qmul. Qed.

(* ---- non-vacuity: the rotation by 90 degrees about z *)
Definition rotz90_mat : M3 := mk3 0 (-1) 0 1 0 0 0 0 1.
Definition rotz90 : SO3.
Proof. refine (mkSO3 rotz90_mat _ _); unfold rotz90_mat; m3ring. Defined.

Lemma rotz90_acts : so3_act rotz90 (1, 0, 0) = (0, 1, 0).
Proof. unfold so3_act, rotz90, rotz90_mat, mact. cbn [mat m11 m12 m13 m21 m22 m23 m31 m32 m33]. repeat f_equal; ring. Qed.

(* the same rotation from its scipy quaternion (0, 0, sin 45, cos 45) *)
Lemma rotz90_quat_gen c : 2 * c * c = 1 -> quat_to_mat (0, 0, c, c) = rotz90_mat.
Proof. intros H. unfold quat_to_mat, rotz90_mat. f_equal; nsatz. Qed.

Lemma rotz90_quat : quat_to_mat (0, 0, sqrt 2 / 2, sqrt 2 / 2) = rotz90_mat.
Proof.
  apply rotz90_quat_gen.
  replace (2 * (sqrt 2 / 2) * (sqrt 2 / 2)) with (sqrt 2 * sqrt 2 / 2) by field.
  rewrite sqrt_sqrt by lra. field.
Qed.
