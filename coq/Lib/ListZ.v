(* Z-indexed list helpers shared by all exact models.
   These are the list-level meanings given to the numpy primitives the
   implementation uses on axis 0 of its arrays (rows = list elements). *)
From Coq Require Import ZArith List Bool Lia.
Import ListNotations.
Open Scope Z_scope.

Section ListZ.
Context {A : Type}.

Definition zlen (l : list A) : Z := Z.of_nat (length l).

(* l[i] for 0 <= i < len l; d outside *)
Definition nthZ (d : A) (l : list A) (i : Z) : A :=
  if i <? 0 then d else nth (Z.to_nat i) l d.

(* python slice l[a:b] for 0 <= a, 0 <= b (already normalised indices) *)
Definition slice (a b : Z) (l : list A) : list A :=
  firstn (Z.to_nat (b - a)) (skipn (Z.to_nat a) l).

(* l[a:b] = f j (l[a+j]) for j in range(b-a): update in place *)
Fixpoint upd_from (f : Z -> A -> A) (j : Z) (n : nat) (l : list A) : list A :=
  match n, l with
  | O, _ => l
  | _, [] => []
  | S n', x :: r => f j x :: upd_from f (j + 1) n' r
  end.

Definition upd_range (a b : Z) (f : Z -> A -> A) (l : list A) : list A :=
  firstn (Z.to_nat a) l ++ upd_from f 0 (Z.to_nat (b - a)) (skipn (Z.to_nat a) l).

(* [f 0; f 1; ...; f (n-1)] *)
Fixpoint tab_from (f : Z -> A) (j : Z) (n : nat) : list A :=
  match n with O => [] | S n' => f j :: tab_from f (j + 1) n' end.
Definition tabulate (n : Z) (f : Z -> A) : list A := tab_from f 0 (Z.to_nat n).

Definition clampZ (i lo hi : Z) : Z := Z.max lo (Z.min i hi).

(* np.pad(l, ((b, a), (0,0)), "edge") *)
Definition edge_pad (d : A) (b a : Z) (l : list A) : list A :=
  repeat (hd d l) (Z.to_nat b) ++ l ++ repeat (last l d) (Z.to_nat a).

(* l[-m:] for 0 < m <= len l  (keep the last m) *)
Definition keep_last (m : Z) (l : list A) : list A :=
  skipn (Z.to_nat (zlen l - m)) l.

(* python l[e:] for any integer e *)
Definition py_slice_from (e : Z) (l : list A) : list A :=
  if e <? 0 then skipn (Z.to_nat (zlen l + e)) l else skipn (Z.to_nat e) l.

End ListZ.

Section Lemmas.
Context {A : Type} (d : A).

Lemma zlen_nonneg (l : list A) : 0 <= zlen l.
Proof. unfold zlen; lia. Qed.

Lemma zlen_app (l1 l2 : list A) : zlen (l1 ++ l2) = zlen l1 + zlen l2.
Proof. unfold zlen; rewrite app_length; lia. Qed.

Lemma zlen_repeat (x : A) n : zlen (repeat x n) = Z.of_nat n.
Proof. unfold zlen; rewrite repeat_length; reflexivity. Qed.

Lemma zlen_nil_iff (l : list A) : zlen l = 0 <-> l = [].
Proof. unfold zlen; destruct l; simpl; split; intros; try congruence; try lia. Qed.

Lemma zlen_pos_nonnil (l : list A) : 1 <= zlen l -> l <> [].
Proof. intros H E. rewrite E in H. unfold zlen in H. simpl in H. lia. Qed.

Lemma zlen_cons (x : A) (l : list A) : zlen (x :: l) = 1 + zlen l.
Proof. unfold zlen. simpl length. lia. Qed.

Lemma zlen_nil : zlen (@nil A) = 0.
Proof. reflexivity. Qed.

Lemma nthZ_nth (l : list A) i : 0 <= i -> nthZ d l i = nth (Z.to_nat i) l d.
Proof. intros H; unfold nthZ. destruct (Z.ltb_spec i 0); [lia|reflexivity]. Qed.

Lemma nth_repeat' (x : A) n i : nth i (repeat x n) d = if (i <? n)%nat then x else d.
Proof. revert i; induction n; intros [|i]; simpl; auto. rewrite IHn. reflexivity. Qed.

Lemma nth_skipn (l : list A) n i : nth i (skipn n l) d = nth (n + i) l d.
Proof.
  revert l; induction n as [|n IH]; intros l; [reflexivity|].
  destruct l as [|x l]; [destruct i; reflexivity|]. simpl. apply IH.
Qed.

Lemma nth_firstn (l : list A) n i :
  nth i (firstn n l) d = if (i <? n)%nat then nth i l d else d.
Proof.
  revert l i; induction n as [|n IH]; intros l i.
  - simpl. destruct i; reflexivity.
  - destruct l as [|x l]; [destruct i as [|i]; simpl; [|destruct (S i <? S n)%nat]; reflexivity|].
    destruct i as [|i]; [reflexivity|]. simpl. rewrite IH. reflexivity.
Qed.

Lemma last_nth (l : list A) : l <> [] -> last l d = nth (length l - 1) l d.
Proof.
  induction l as [|x [|y l] IH]; intros H; try congruence; auto.
  change (last (x :: y :: l) d) with (last (y :: l) d). rewrite IH by congruence.
  replace (length (x :: y :: l) - 1)%nat with (S (length (y :: l) - 1)) by (simpl; lia).
  reflexivity.
Qed.

Lemma zlen_edge_pad b a (l : list A) : 0 <= b -> 0 <= a ->
  zlen (edge_pad d b a l) = b + zlen l + a.
Proof.
  intros Hb Ha; unfold edge_pad. rewrite !zlen_app, !zlen_repeat. lia.
Qed.

Lemma edge_pad_00 (l : list A) : edge_pad d 0 0 l = l.
Proof. unfold edge_pad; simpl. apply app_nil_r. Qed.

(* edge padding = index clamping *)
Lemma nth_edge_pad b a (l : list A) i :
  l <> [] -> 0 <= b -> 0 <= a -> 0 <= i < b + zlen l + a ->
  nthZ d (edge_pad d b a l) i = nthZ d l (clampZ (i - b) 0 (zlen l - 1)).
Proof.
  intros Hl Hb Ha Hi. unfold zlen in *.
  assert (Hlen : (0 < length l)%nat) by (destruct l; simpl; [congruence|lia]).
  rewrite !nthZ_nth by (unfold clampZ; lia).
  unfold edge_pad, clampZ.
  destruct (Z_lt_ge_dec i b).
  - rewrite app_nth1 by (rewrite repeat_length; lia). rewrite nth_repeat'.
    destruct (Nat.ltb_spec (Z.to_nat i) (Z.to_nat b)); try lia.
    replace (Z.to_nat (Z.max 0 (Z.min (i - b) (Z.of_nat (length l) - 1)))) with 0%nat by lia.
    destruct l; simpl; congruence.
  - rewrite app_nth2 by (rewrite repeat_length; lia). rewrite repeat_length.
    destruct (Z_lt_ge_dec (i - b) (Z.of_nat (length l))).
    + rewrite app_nth1 by lia. f_equal. lia.
    + rewrite app_nth2 by lia. rewrite nth_repeat'.
      destruct (Nat.ltb_spec (Z.to_nat i - Z.to_nat b - length l) (Z.to_nat a)); try lia.
      rewrite last_nth by assumption. f_equal. lia.
Qed.

Lemma edge_pad_nonnil b a (l : list A) : l <> [] -> edge_pad d b a l <> [].
Proof.
  intros Hl H. unfold edge_pad in H.
  apply app_eq_nil in H as [_ H]. apply app_eq_nil in H as [H _]. contradiction.
Qed.

(* upd_from / upd_range *)
Lemma length_upd_from f j n (l : list A) : length (upd_from f j n l) = length l.
Proof.
  revert j l; induction n as [|n IH]; intros j [|x l]; simpl; auto.
Qed.

Lemma nth_upd_from f j n (l : list A) i :
  nth i (upd_from f j n l) d =
  if ((i <? n) && (i <? length l))%nat then f (j + Z.of_nat i) (nth i l d) else nth i l d.
Proof.
  revert j l i; induction n as [|n IH]; intros j l i.
  - simpl. destruct l; reflexivity.
  - destruct l as [|x l]; [destruct i; simpl; rewrite ?andb_false_r; reflexivity|].
    destruct i as [|i]; cbn [upd_from nth length].
    + simpl. f_equal. lia.
    + rewrite IH. change (S i <? S n)%nat with (i <? n)%nat.
      change (S i <? S (length l))%nat with (i <? length l)%nat.
      destruct ((i <? n)%nat && (i <? length l)%nat); [f_equal; lia | reflexivity].
Qed.

Lemma zlen_upd_range a b f (l : list A) : 0 <= a <= zlen l -> zlen (upd_range a b f l) = zlen l.
Proof.
  intros H. unfold upd_range, zlen in *. rewrite app_length, length_upd_from.
  rewrite firstn_length, skipn_length. lia.
Qed.

Lemma nth_upd_range a b f (l : list A) i :
  0 <= a -> a <= b <= zlen l -> 0 <= i < zlen l ->
  nthZ d (upd_range a b f l) i =
  if (a <=? i) && (i <? b) then f (i - a) (nthZ d l i) else nthZ d l i.
Proof.
  intros Ha Hb Hi. unfold zlen in *. rewrite !nthZ_nth by lia. unfold upd_range.
  destruct (Z.leb_spec a i); cbn [andb].
  - rewrite app_nth2 by (rewrite firstn_length; lia).
    rewrite firstn_length, nth_upd_from, skipn_length.
    replace (Init.Nat.min (Z.to_nat a) (length l)) with (Z.to_nat a) by lia.
    rewrite nth_skipn.
    replace (Z.to_nat a + (Z.to_nat i - Z.to_nat a))%nat with (Z.to_nat i) by lia.
    destruct (Z.ltb_spec i b).
    + destruct (Nat.ltb_spec (Z.to_nat i - Z.to_nat a) (Z.to_nat (b - a))); try lia.
      destruct (Nat.ltb_spec (Z.to_nat i - Z.to_nat a) (length l - Z.to_nat a)); try lia.
      cbn [andb]. f_equal. lia.
    + destruct (Nat.ltb_spec (Z.to_nat i - Z.to_nat a) (Z.to_nat (b - a))); try lia.
      reflexivity.
  - rewrite app_nth1 by (rewrite firstn_length; lia).
    rewrite nth_firstn. destruct (Nat.ltb_spec (Z.to_nat i) (Z.to_nat a)); [reflexivity|lia].
Qed.

(* tabulate *)
Lemma length_tab_from (f : Z -> A) j n : length (tab_from f j n) = n.
Proof. revert j; induction n; intros; simpl; auto. Qed.

Lemma nth_tab_from (f : Z -> A) j n i : (i < n)%nat -> nth i (tab_from f j n) d = f (j + Z.of_nat i).
Proof.
  revert j i; induction n as [|n IH]; intros j i Hi; [lia|].
  destruct i; simpl. { f_equal; lia. } rewrite IH by lia. f_equal; lia.
Qed.

Lemma zlen_tabulate n (f : Z -> A) : 0 <= n -> zlen (tabulate n f) = n.
Proof. intros; unfold zlen, tabulate. rewrite length_tab_from. lia. Qed.

Lemma nth_tabulate n (f : Z -> A) i : 0 <= i < n -> nthZ d (tabulate n f) i = f i.
Proof.
  intros Hi. rewrite nthZ_nth by lia. unfold tabulate.
  rewrite nth_tab_from by lia. f_equal; lia.
Qed.

(* extensionality by nthZ *)
Lemma nth_ext_Z (l1 l2 : list A) :
  zlen l1 = zlen l2 -> (forall i, 0 <= i < zlen l1 -> nthZ d l1 i = nthZ d l2 i) -> l1 = l2.
Proof.
  intros Hlen H. unfold zlen in *. apply (nth_ext l1 l2 d d); [lia|].
  intros n Hn. specialize (H (Z.of_nat n)).
  rewrite !nthZ_nth in H by lia. rewrite Nat2Z.id in H. apply H. lia.
Qed.

(* keep_last *)
Lemma zlen_keep_last m (l : list A) : 0 <= m <= zlen l -> zlen (keep_last m l) = m.
Proof. intros H; unfold keep_last, zlen in *. rewrite skipn_length. lia. Qed.

Lemma nth_keep_last m (l : list A) i : 0 <= m <= zlen l -> 0 <= i < m ->
  nthZ d (keep_last m l) i = nthZ d l (zlen l - m + i).
Proof.
  intros Hm Hi. unfold keep_last, zlen in *. rewrite !nthZ_nth by lia.
  rewrite nth_skipn. f_equal. lia.
Qed.

(* slice *)
Lemma zlen_slice a b (l : list A) : 0 <= a -> a <= b <= zlen l -> zlen (slice a b l) = b - a.
Proof.
  intros Ha Hb. unfold slice, zlen in *. rewrite firstn_length, skipn_length. lia.
Qed.

Lemma nth_slice a b (l : list A) i : 0 <= a -> a <= b <= zlen l -> 0 <= i < b - a ->
  nthZ d (slice a b l) i = nthZ d l (a + i).
Proof.
  intros Ha Hb Hi. unfold slice, zlen in *. rewrite !nthZ_nth by lia.
  rewrite nth_firstn. destruct (Nat.ltb_spec (Z.to_nat i) (Z.to_nat (b - a))); [|lia].
  rewrite nth_skipn. f_equal. lia.
Qed.

End Lemmas.
