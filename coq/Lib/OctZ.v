(* Z^3 with the 48 signed permutation matrices is a rigid-motion algebra.
   (i) non-vacuity of every theorem proved over RigidLaws;
   (ii) the executable instance on which models are run against the implementation:
   scipy's Rotation is exact (up to 2e-15) on the 24 proper ones. *)
From Coq Require Import ZArith List Bool Lia Ring.
From MV Require Import Lib.Rigid.
Import ListNotations.
Open Scope Z_scope.

Definition V3 := (Z * Z * Z)%type.
Definition M3 := (V3 * V3 * V3)%type.   (* rows *)

Definition v3add (a b : V3) : V3 :=
  let '(a0, a1, a2) := a in let '(b0, b1, b2) := b in (a0 + b0, a1 + b1, a2 + b2).
Definition v3neg (a : V3) : V3 := let '(a0, a1, a2) := a in (- a0, - a1, - a2).
Definition dot3 (a b : V3) : Z :=
  let '(a0, a1, a2) := a in let '(b0, b1, b2) := b in a0 * b0 + a1 * b1 + a2 * b2.
Definition mact (m : M3) (v : V3) : V3 :=
  let '(r0, r1, r2) := m in (dot3 r0 v, dot3 r1 v, dot3 r2 v).
Definition mcol (m : M3) (j : nat) : V3 :=
  let '((a, b, c), (d, e, f), (g, h, i)) := m in
  match j with O => (a, d, g) | S O => (b, e, h) | _ => (c, f, i) end.
Definition mtr (m : M3) : M3 := (mcol m 0, mcol m 1, mcol m 2).
Definition mmul (m n : M3) : M3 :=
  let '(r0, r1, r2) := m in
  let c0 := mcol n 0 in let c1 := mcol n 1 in let c2 := mcol n 2 in
  ((dot3 r0 c0, dot3 r0 c1, dot3 r0 c2),
   (dot3 r1 c0, dot3 r1 c1, dot3 r1 c2),
   (dot3 r2 c0, dot3 r2 c1, dot3 r2 c2)).
Definition mid : M3 := ((1, 0, 0), (0, 1, 0), (0, 0, 1)).

Definition v3eqb (a b : V3) : bool :=
  let '(a0, a1, a2) := a in let '(b0, b1, b2) := b in (a0 =? b0) && (a1 =? b1) && (a2 =? b2).
Definition m3eqb (m n : M3) : bool :=
  let '(a, b, c) := m in let '(d, e, f) := n in v3eqb a d && v3eqb b e && v3eqb c f.

Lemma v3eqb_eq a b : v3eqb a b = true <-> a = b.
Proof.
  destruct a as [[a0 a1] a2], b as [[b0 b1] b2]; simpl.
  rewrite !andb_true_iff, !Z.eqb_eq. split; [intros [[-> ->] ->]; reflexivity | intros H; inversion H; auto].
Qed.
Lemma m3eqb_eq a b : m3eqb a b = true <-> a = b.
Proof.
  destruct a as [[a0 a1] a2], b as [[b0 b1] b2]; simpl.
  rewrite !andb_true_iff, !v3eqb_eq. split; [intros [[-> ->] ->]; reflexivity | intros H; inversion H; auto].
Qed.

Inductive perm3 := P012 | P021 | P102 | P120 | P201 | P210.
Record oct := mkOct { pm : perm3; s0 : bool; s1 : bool; s2 : bool }.

Definition sg (b : bool) : Z := if b then -1 else 1.
Definition unit_row (j : nat) (s : bool) : V3 :=
  match j with O => (sg s, 0, 0) | S O => (0, sg s, 0) | _ => (0, 0, sg s) end.
Definition pidx (p : perm3) : nat * nat * nat :=
  match p with
  | P012 => (0, 1, 2) | P021 => (0, 2, 1) | P102 => (1, 0, 2)
  | P120 => (1, 2, 0) | P201 => (2, 0, 1) | P210 => (2, 1, 0)
  end%nat.
Definition to_mat (g : oct) : M3 :=
  let '(i, j, k) := pidx (pm g) in (unit_row i (s0 g), unit_row j (s1 g), unit_row k (s2 g)).

Definition all_perm := [P012; P021; P102; P120; P201; P210].
Definition all_oct : list oct :=
  flat_map (fun p => flat_map (fun a => flat_map (fun b => map (fun c => mkOct p a b c)
     [false; true]) [false; true]) [false; true]) all_perm.

Definition oct_one := mkOct P012 false false false.
Definition of_mat (m : M3) : oct :=
  match find (fun g => m3eqb (to_mat g) m) all_oct with Some g => g | None => oct_one end.

Definition omul (a b : oct) : oct := of_mat (mmul (to_mat a) (to_mat b)).
Definition oinv (a : oct) : oct := of_mat (mtr (to_mat a)).
Definition oact (a : oct) (v : V3) : V3 := mact (to_mat a) v.

Definition perm_eqb (p q : perm3) : bool :=
  match p, q with
  | P012, P012 | P021, P021 | P102, P102 | P120, P120 | P201, P201 | P210, P210 => true
  | _, _ => false end.
Definition oct_eqb (a b : oct) : bool :=
  perm_eqb (pm a) (pm b) && eqb (s0 a) (s0 b) && eqb (s1 a) (s1 b) && eqb (s2 a) (s2 b).

Lemma oct_eqb_eq a b : oct_eqb a b = true <-> a = b.
Proof.
  destruct a as [p a0 a1 a2], b as [q b0 b1 b2]; unfold oct_eqb; simpl.
  rewrite !andb_true_iff, !eqb_true_iff.
  split.
  - intros [[[Hp ->] ->] ->]. destruct p, q; simpl in Hp; try discriminate; reflexivity.
  - intros H; inversion H; subst. destruct q; simpl; auto.
Qed.

Lemma all_oct_complete g : In g all_oct.
Proof.
  assert (H : existsb (oct_eqb g) all_oct = true).
  { destruct g as [p a b c]; destruct p, a, b, c; reflexivity. }
  apply existsb_exists in H as [x [Hin Hx]]. apply oct_eqb_eq in Hx. subst; exact Hin.
Qed.

Lemma forall_oct (P : oct -> bool) : forallb P all_oct = true -> forall g, P g = true.
Proof. intros H g. rewrite forallb_forall in H. apply H, all_oct_complete. Qed.

Lemma forall_oct2 (P : oct -> oct -> bool) :
  forallb (fun a => forallb (P a) all_oct) all_oct = true -> forall a b, P a b = true.
Proof. intros H a b. apply (forall_oct (P a)). apply (forall_oct _ H). Qed.

Lemma to_mat_inj a b : to_mat a = to_mat b -> a = b.
Proof.
  intros H.
  assert (E : forall a b, implb (m3eqb (to_mat a) (to_mat b)) (oct_eqb a b) = true).
  { apply forall_oct2. vm_compute. reflexivity. }
  specialize (E a b). apply m3eqb_eq in H. rewrite H in E. simpl in E. apply oct_eqb_eq, E.
Qed.

Lemma to_mat_mul a b : to_mat (omul a b) = mmul (to_mat a) (to_mat b).
Proof.
  apply m3eqb_eq. revert a b. apply forall_oct2. vm_compute. reflexivity.
Qed.

Lemma to_mat_one : to_mat oct_one = mid.
Proof. reflexivity. Qed.

Lemma v3_ext (a0 a1 a2 b0 b1 b2 : Z) : a0 = b0 -> a1 = b1 -> a2 = b2 -> (a0, a1, a2) = (b0, b1, b2).
Proof. intros; subst; reflexivity. Qed.
Lemma m3_ext (a0 a1 a2 b0 b1 b2 : V3) : a0 = b0 -> a1 = b1 -> a2 = b2 -> (a0, a1, a2) = (b0, b1, b2).
Proof. intros; subst; reflexivity. Qed.
Ltac v3eq := apply v3_ext; ring.
Ltac m3eq := apply m3_ext; v3eq.

Lemma mmul_assoc a b c : mmul a (mmul b c) = mmul (mmul a b) c.
Proof.
  destruct a as [[[[a0 a1] a2] [[a3 a4] a5]] [[a6 a7] a8]].
  destruct b as [[[[b0 b1] b2] [[b3 b4] b5]] [[b6 b7] b8]].
  destruct c as [[[[c0 c1] c2] [[c3 c4] c5]] [[c6 c7] c8]].
  unfold mmul, mcol, dot3. m3eq.
Qed.

Lemma mact_mmul a b v : mact (mmul a b) v = mact a (mact b v).
Proof.
  destruct a as [[[[a0 a1] a2] [[a3 a4] a5]] [[a6 a7] a8]].
  destruct b as [[[[b0 b1] b2] [[b3 b4] b5]] [[b6 b7] b8]].
  destruct v as [[v0 v1] v2].
  unfold mmul, mact, mcol, dot3. v3eq.
Qed.

Lemma mact_add a v w : mact a (v3add v w) = v3add (mact a v) (mact a w).
Proof.
  destruct a as [[[[a0 a1] a2] [[a3 a4] a5]] [[a6 a7] a8]].
  destruct v as [[v0 v1] v2], w as [[w0 w1] w2].
  unfold mact, v3add, dot3. v3eq.
Qed.

Lemma mact_id v : mact mid v = v.
Proof. destruct v as [[v0 v1] v2]. unfold mact, mid, dot3. v3eq. Qed.

Global Instance OctOps : RigidOps := {|
  V := V3; G := oct;
  vzero := (0, 0, 0); vadd := v3add; vneg := v3neg;
  gone := oct_one; gmul := omul; ginv := oinv; act := oact |}.

Global Instance OctLaws : RigidLaws OctOps.
Proof.
  constructor; cbn [V G vzero vadd vneg gone gmul ginv act OctOps].
  - intros [[a0 a1] a2] [[b0 b1] b2] [[c0 c1] c2]. unfold v3add. v3eq.
  - intros [[a0 a1] a2] [[b0 b1] b2]. unfold v3add. v3eq.
  - intros [[a0 a1] a2]. unfold v3add. v3eq.
  - intros [[a0 a1] a2]. unfold v3add, v3neg. v3eq.
  - intros a b c. apply to_mat_inj. rewrite !to_mat_mul. apply mmul_assoc.
  - intros a. apply oct_eqb_eq. revert a. apply forall_oct. vm_compute. reflexivity.
  - intros a. apply oct_eqb_eq. revert a. apply forall_oct. vm_compute. reflexivity.
  - intros a. apply oct_eqb_eq. revert a. apply forall_oct. vm_compute. reflexivity.
  - intros a b v. unfold oact. rewrite to_mat_mul. apply mact_mmul.
  - intros v. unfold oact. rewrite to_mat_one. apply mact_id.
  - intros a v w. unfold oact. apply mact_add.
Qed.
