(* String-keyed finite trees: the carrier of style dictionaries, style objects and DEFAULTS (C20).
   A python dict is an association list with the dict discipline: assignment to an existing key
   keeps its position, a new key is appended.  Leaf None is python's None. *)
From Coq Require Import ZArith List Bool String Ascii Lia.
Import ListNotations.
Open Scope string_scope.
Open Scope list_scope.

(* canonical python values that occur as style leaves *)
Inductive val :=
| VBool (b : bool)
| VInt (z : Z)
| VFlt (n : Z) (d : positive)      (* a python float, exactly n/d (float.as_integer_ratio) *)
| VStr (s : string)
| VTup (l : list val).             (* tuple or list *)

Inductive tree :=
| Leaf (o : option val)
| Node (kids : list (string * tree)).

Definition dict := list (string * tree).
Definition path := list string.

(* ---------------------------------------------------------------- python dict discipline *)
Fixpoint dget (k : string) (d : dict) : option tree :=
  match d with
  | [] => None
  | (k', v) :: r => if String.eqb k k' then Some v else dget k r
  end.

Fixpoint dset (k : string) (v : tree) (d : dict) : dict :=
  match d with
  | [] => [(k, v)]
  | (k', v') :: r => if String.eqb k k' then (k', v) :: r else (k', v') :: dset k v r
  end.

Definition dmem (k : string) (d : dict) : bool :=
  match dget k d with Some _ => true | None => false end.

Definition keys (d : dict) : list string := map fst d.

(* lookup by path; [] is the tree itself *)
Fixpoint tget (p : path) (t : tree) : option tree :=
  match p with
  | [] => Some t
  | k :: p' => match t with
               | Node d => match dget k d with Some t' => tget p' t' | None => None end
               | Leaf _ => None
               end
  end.

(* write at an existing path (None if some key on the way is missing) *)
Fixpoint tset (p : path) (v : tree) (t : tree) : option tree :=
  match p with
  | [] => Some v
  | k :: p' => match t with
               | Node d => match dget k d with
                           | Some t' => match tset p' v t' with
                                        | Some t'' => Some (Node (dset k t'' d))
                                        | None => None
                                        end
                           | None => None
                           end
               | Leaf _ => None
               end
  end.

(* {p1: {p2: ... {pn: v}}} *)
Fixpoint nest (p : path) (v : tree) : tree :=
  match p with
  | [] => v
  | k :: p' => Node [(k, nest p' v)]
  end.

(* all leaf paths with their values, in dictionary order *)
Fixpoint leaves (t : tree) : list (path * option val) :=
  match t with
  | Leaf o => [([], o)]
  | Node d => (fix go (d : dict) : list (path * option val) :=
                 match d with
                 | [] => []
                 | (k, t') :: r => map (fun pv => (k :: fst pv, snd pv)) (leaves t') ++ go r
                 end) d
  end.

Fixpoint tdepth (t : tree) : nat :=
  match t with
  | Leaf _ => 0
  | Node d => S ((fix go (d : dict) : nat :=
                    match d with [] => 0 | (_, t') :: r => Nat.max (tdepth t') (go r) end) d)
  end.

(* ---------------------------------------------------------------- strings: split / join on one character *)
Fixpoint split_aux (sep : ascii) (s : string) (cur : string -> string) : list string :=
  match s with
  | EmptyString => [cur EmptyString]
  | String c r => if Ascii.eqb c sep then cur EmptyString :: split_aux sep r (fun x => x)
                  else split_aux sep r (fun x => cur (String c x))
  end.
(* python's k.split(sep) for a one-character separator *)
Definition split_on (sep : ascii) (s : string) : list string := split_aux sep s (fun x => x).

Fixpoint join_with (sep : string) (l : list string) : string :=
  match l with
  | [] => ""
  | [x] => x
  | x :: r => String.append x (String.append sep (join_with sep r))
  end.

Fixpoint has_char (c : ascii) (s : string) : bool :=
  match s with
  | EmptyString => false
  | String c' r => Ascii.eqb c c' || has_char c r
  end.

Fixpoint ends_with (suffix s : string) : bool :=
  if String.eqb suffix s then true
  else match s with EmptyString => false | String _ r => ends_with suffix r end.

Fixpoint starts_with (pre s : string) : bool :=
  match pre, s with
  | EmptyString, _ => true
  | String a p', String b s' => Ascii.eqb a b && starts_with p' s'
  | _, _ => false
  end.

(* ---------------------------------------------------------------- python equality on values *)
(* numbers compare across bool / int / float; everything else structurally *)
Definition num_view (v : val) : option (Z * positive) :=
  match v with
  | VBool b => Some (if b then 1%Z else 0%Z, 1%positive)
  | VInt z => Some (z, 1%positive)
  | VFlt n d => Some (n, d)
  | _ => None
  end.

Fixpoint val_eqb (a b : val) : bool :=
  match num_view a, num_view b with
  | Some (n1, d1), Some (n2, d2) => Z.eqb (n1 * Zpos d2) (n2 * Zpos d1)
  | None, None =>
      match a, b with
      | VStr s1, VStr s2 => String.eqb s1 s2
      | VTup l1, VTup l2 =>
          (fix go (l1 l2 : list val) : bool :=
             match l1, l2 with
             | [], [] => true
             | x :: r1, y :: r2 => val_eqb x y && go r1 r2
             | _, _ => false
             end) l1 l2
      | _, _ => false
      end
  | _, _ => false
  end.

(* structural (type-exact) equality, used to compare model output with the implementation *)
Fixpoint val_same (a b : val) : bool :=
  match a, b with
  | VBool x, VBool y => Bool.eqb x y
  | VInt x, VInt y => Z.eqb x y
  | VFlt n1 d1, VFlt n2 d2 => Z.eqb n1 n2 && Pos.eqb d1 d2
  | VStr s1, VStr s2 => String.eqb s1 s2
  | VTup l1, VTup l2 =>
      (fix go (l1 l2 : list val) : bool :=
         match l1, l2 with
         | [], [] => true
         | x :: r1, y :: r2 => val_same x y && go r1 r2
         | _, _ => false
         end) l1 l2
  | _, _ => false
  end.

Definition oval_same (a b : option val) : bool :=
  match a, b with
  | None, None => true
  | Some x, Some y => val_same x y
  | _, _ => false
  end.

Fixpoint tree_same (a b : tree) : bool :=
  match a, b with
  | Leaf x, Leaf y => oval_same x y
  | Node d1, Node d2 =>
      (fix go (d1 d2 : dict) : bool :=
         match d1, d2 with
         | [], [] => true
         | (k1, t1) :: r1, (k2, t2) :: r2 => String.eqb k1 k2 && tree_same t1 t2 && go r1 r2
         | _, _ => false
         end) d1 d2
  | _, _ => false
  end.

(* ---------------------------------------------------------------- basic facts about dicts *)
Lemma dget_dset_same k v d : dget k (dset k v d) = Some v.
Proof.
  induction d as [|[k' v'] r IH]; simpl.
  - rewrite String.eqb_refl. reflexivity.
  - destruct (String.eqb k k') eqn:E; simpl; rewrite E; auto.
Qed.

Lemma dget_dset_other k k' v d : k <> k' -> dget k' (dset k v d) = dget k' d.
Proof.
  intros Hne. induction d as [|[k0 v0] r IH]; simpl.
  - destruct (String.eqb k' k) eqn:E; auto. apply String.eqb_eq in E. congruence.
  - destruct (String.eqb k k0) eqn:E; simpl.
    + apply String.eqb_eq in E. subst k0.
      destruct (String.eqb k' k) eqn:E2; auto. apply String.eqb_eq in E2. congruence.
    + destruct (String.eqb k' k0); auto.
Qed.

Lemma keys_dset_mem k v d : dmem k d = true -> keys (dset k v d) = keys d.
Proof.
  unfold dmem. induction d as [|[k0 v0] r IH]; simpl; [discriminate|].
  destruct (String.eqb k k0) eqn:E; simpl; auto.
  intros H. f_equal. apply IH. exact H.
Qed.

Lemma dget_In k d t : dget k d = Some t -> In (k, t) d.
Proof.
  induction d as [|[k0 v0] r IH]; simpl; [discriminate|].
  destruct (String.eqb k k0) eqn:E.
  - apply String.eqb_eq in E. subst. intros H; inversion H; auto.
  - auto.
Qed.

Lemma dget_none_notin k d : dget k d = None -> ~ In k (keys d).
Proof.
  induction d as [|[k0 v0] r IH]; simpl; [tauto|].
  destruct (String.eqb k k0) eqn:E; [discriminate|].
  apply String.eqb_neq in E. intros H [H1|H1]; [congruence|]. exact (IH H H1).
Qed.

Lemma dget_some_in k d t : dget k d = Some t -> In k (keys d).
Proof.
  intros H. apply dget_In in H. apply (in_map fst) in H. exact H.
Qed.

Lemma dget_first k v r : dget k ((k, v) :: r) = Some v.
Proof. simpl. rewrite String.eqb_refl. reflexivity. Qed.

Lemma dget_skip k k0 v r : k <> k0 -> dget k ((k0, v) :: r) = dget k r.
Proof. intros H. simpl. destruct (String.eqb k k0) eqn:E; auto. apply String.eqb_eq in E. congruence. Qed.

Lemma dset_notin k v d : ~ In k (keys d) -> dset k v d = d ++ [(k, v)].
Proof.
  induction d as [|[k0 v0] r IH]; simpl; auto.
  intros H. destruct (String.eqb k k0) eqn:E.
  - apply String.eqb_eq in E. subst. tauto.
  - f_equal. apply IH. tauto.
Qed.
