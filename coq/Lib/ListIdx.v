(* List-level meanings of the numpy primitives used on axis 0 of stacked arrays, and the
   structural lemmas that relate the flat (tiled / repeated / reshaped) layout to nested
   comprehensions. *)
From Coq Require Import List Arith Lia.
Import ListNotations.

Section Defs.
Context {A : Type}.

(* np.repeat(l, n, axis=0)  /  np.tile(rows, n).reshape(-1, d) *)
Definition repeat_each (n : nat) (l : list A) : list A := flat_map (fun x => repeat x n) l.

(* np.tile(l, (k, 1)) *)
Fixpoint tile (k : nat) (l : list A) : list A :=
  match k with O => [] | S k' => l ++ tile k' l end.

(* row-major reshape of a flat list into k rows of length n *)
Fixpoint chunks (n k : nat) (l : list A) : list (list A) :=
  match k with O => [] | S k' => firstn n l :: chunks n k' (skipn n l) end.

Fixpoint set_nth (i : nat) (x : A) (l : list A) : list A :=
  match l, i with
  | [], _ => []
  | _ :: r, O => x :: r
  | y :: r, S i' => y :: set_nth i' x r
  end.

(* np.delete(l, np.s_[a:b], 0) *)
Definition delete_range (a b : nat) (l : list A) : list A := firstn a l ++ skipn (Nat.max a b) l.

(* np.split(l, cumulative indices) given the piece lengths *)
Fixpoint split_lens (lens : list nat) (l : list A) : list (list A) :=
  match lens with [] => [] | n :: r => firstn n l :: split_lens r (skipn n l) end.

Fixpoint zip_with {B C} (f : A -> B -> C) (l1 : list A) (l2 : list B) : list C :=
  match l1, l2 with x :: r1, y :: r2 => f x y :: zip_with f r1 r2 | _, _ => [] end.

End Defs.

Section Lemmas.
Context {A : Type}.

Lemma repeat_each_app n (l1 l2 : list A) :
  repeat_each n (l1 ++ l2) = repeat_each n l1 ++ repeat_each n l2.
Proof. unfold repeat_each. apply flat_map_app. Qed.

Lemma repeat_each_cons n (x : A) l : repeat_each n (x :: l) = repeat x n ++ repeat_each n l.
Proof. reflexivity. Qed.

Lemma length_repeat_each n (l : list A) : length (repeat_each n l) = length l * n.
Proof.
  induction l as [|x l IH]; [reflexivity|].
  rewrite repeat_each_cons, app_length, repeat_length, IH. simpl. lia.
Qed.

Lemma length_tile k (l : list A) : length (tile k l) = k * length l.
Proof. induction k as [|k IH]; simpl; [reflexivity|]. rewrite app_length, IH. lia. Qed.

Lemma chunks_app n k (a l : list A) : length a = n -> chunks n (S k) (a ++ l) = a :: chunks n k l.
Proof.
  intros H. cbn [chunks]. subst n.
  rewrite firstn_app, Nat.sub_diag, firstn_all, firstn_O, app_nil_r.
  rewrite skipn_app, Nat.sub_diag, skipn_all. reflexivity.
Qed.

Lemma chunks_flat_map {B} n (f : B -> list A) (l : list B) :
  (forall x, In x l -> length (f x) = n) -> chunks n (length l) (flat_map f l) = map f l.
Proof.
  induction l as [|x l IH]; intros H; [reflexivity|].
  cbn [length flat_map map]. rewrite chunks_app by (apply H; left; reflexivity).
  f_equal. apply IH. intros y Hy. apply H. right. exact Hy.
Qed.

Lemma length_flat_map_const {B} n (f : B -> list A) (l : list B) :
  (forall x, In x l -> length (f x) = n) -> length (flat_map f l) = length l * n.
Proof.
  induction l as [|x l IH]; intros H; [reflexivity|].
  cbn [flat_map length]. rewrite app_length, IH, H; [lia|left; reflexivity|].
  intros y Hy. apply H. right. exact Hy.
Qed.

Lemma combine_app {B} (a1 a2 : list A) (b1 b2 : list B) : length a1 = length b1 ->
  combine (a1 ++ a2) (b1 ++ b2) = combine a1 b1 ++ combine a2 b2.
Proof.
  revert b1; induction a1 as [|x a1 IH]; intros [|y b1] H; simpl in *; try discriminate; auto.
  f_equal. apply IH. lia.
Qed.

Lemma combine_repeat_r {B} (l : list A) (y : B) n : length l = n ->
  combine l (repeat y n) = map (fun x => (x, y)) l.
Proof.
  revert n; induction l as [|x l IH]; intros [|n] H; simpl in *; try discriminate; auto.
  f_equal. apply IH. lia.
Qed.

Lemma combine_repeat_l {B} (x : A) (l : list B) n : length l = n ->
  combine (repeat x n) l = map (fun y => (x, y)) l.
Proof.
  revert n; induction l as [|y l IH]; intros [|n] H; simpl in *; try discriminate; auto.
  f_equal. apply IH. lia.
Qed.

Lemma length_set_nth i (x : A) l : length (set_nth i x l) = length l.
Proof. revert i; induction l as [|y l IH]; intros [|i]; simpl; auto. Qed.

Lemma nth_set_nth i j (x d : A) l : i < length l ->
  nth j (set_nth i x l) d = if Nat.eqb j i then x else nth j l d.
Proof.
  revert i j; induction l as [|y l IH]; intros i j Hi; simpl in Hi; [lia|].
  destruct i as [|i], j as [|j]; simpl; auto. apply IH. lia.
Qed.

Lemma set_nth_app_r i (x : A) l1 l2 : length l1 <= i ->
  set_nth i x (l1 ++ l2) = l1 ++ set_nth (i - length l1) x l2.
Proof.
  revert i; induction l1 as [|y l1 IH]; intros i H; simpl in *.
  - rewrite Nat.sub_0_r. reflexivity.
  - destruct i as [|i]; [lia|]. simpl. f_equal. apply IH. lia.
Qed.

Lemma zip_with_map {B C D} (g : B -> C -> D) (f1 : A -> B) (f2 : A -> C) (l : list A) :
  zip_with g (map f1 l) (map f2 l) = map (fun x => g (f1 x) (f2 x)) l.
Proof. induction l as [|x l IH]; simpl; [reflexivity|]. rewrite IH. reflexivity. Qed.

Lemma split_lens_flat_map {B} (f : B -> list A) (l : list B) :
  split_lens (map (fun x => length (f x)) l) (flat_map f l) = map f l.
Proof.
  induction l as [|x l IH]; [reflexivity|]. cbn [map flat_map split_lens].
  rewrite firstn_app, Nat.sub_diag, firstn_all, firstn_O, app_nil_r.
  rewrite skipn_app, Nat.sub_diag, skipn_all. simpl. f_equal. exact IH.
Qed.

Lemma firstn_app_exact (a b : list A) : firstn (length a) (a ++ b) = a.
Proof. rewrite firstn_app, Nat.sub_diag, firstn_all, firstn_O. apply app_nil_r. Qed.

Lemma skipn_app_exact (a b : list A) : skipn (length a) (a ++ b) = b.
Proof. rewrite skipn_app, Nat.sub_diag, skipn_all. reflexivity. Qed.

Lemma map_ext_seq {B} (f g : nat -> B) a n :
  (forall i, a <= i < a + n -> f i = g i) -> map f (seq a n) = map g (seq a n).
Proof.
  intros H. apply map_ext_in. intros i Hi. apply in_seq in Hi. apply H. lia.
Qed.

End Lemmas.
