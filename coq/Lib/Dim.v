(* Dim.v -- dimension-typed expressions (C12).

   dexpr / bexpr / dargs : numeric expressions, boolean decisions, argument lists.
   deg G e     : degree inference (option degree), degrees counted in HALF units of the base
                 dimension so that sqrt is closed: a length has degree 2.
                 `Any` is the degree of the literal 0 (a value that is 0 whenever defined):
                 it is compatible with every degree.  Other numeric literals have degree 0.
   homog G c   : the decision c only compares quantities of equal degree.
   eval / evalb: PARTIAL real semantics (option): x/0, sqrt of a negative number, an unknown
                 decision give None, so that an undefined value cannot fake a scaling law.
   Soundness (proved once, below):
     deg G e = Some (Deg k) -> eval (scale G t rho) e = option_map (Rmult (t^k)) (eval rho e)
     homog G c = true       -> evalb (scale G t rho) c = evalb rho c           for all t > 0
   where scale multiplies every variable of degree k by t^k.  With t = sqrt s a variable of
   degree 2 (a length) is multiplied by s (lemma scale_len).

   Uninterpreted functions: Fn0 f args (ANY function, arguments must be dimensionless) and
   FnH f args (a function that is invariant under a common positive rescaling of its arguments,
   e.g. arctan2; arguments must share one degree).  The interpretations fn0, fnh are section
   variables: every theorem holds for all of them (fnh under the stated invariance hypothesis). *)
From Coq Require Import Reals ZArith String List Bool Lia Lra Psatz.
Import ListNotations.
Open Scope R_scope.

Inductive dexpr : Type :=
| Var (x : string)
| Const (num : Z) (den : positive)
| CPi
| Add (a b : dexpr) | Sub (a b : dexpr) | Mul (a b : dexpr) | Div (a b : dexpr)
| Neg (a : dexpr) | Abs (a : dexpr) | Sqrt (a : dexpr) | Pow (a : dexpr) (n : nat)
| Sign (a : dexpr) | Min (a b : dexpr) | Max (a b : dexpr)
| Fn0 (f : string) (args : dargs)
| FnH (f : string) (args : dargs)
| Ite (c : bexpr) (a b : dexpr)
with bexpr : Type :=
| BLt (a b : dexpr) | BLe (a b : dexpr) | BEq (a b : dexpr)
| BAnd (c d : bexpr) | BOr (c d : bexpr) | BNot (c : bexpr)
| BConst (b : bool) | BUnknown (src : string)
with dargs : Type :=
| ANil | ACons (a : dexpr) (l : dargs).

Scheme dexpr_mut := Induction for dexpr Sort Prop
  with bexpr_mut := Induction for bexpr Sort Prop
  with dargs_mut := Induction for dargs Sort Prop.
Combined Scheme dim_mutind from dexpr_mut, bexpr_mut, dargs_mut.

Inductive degree : Type := Any | Deg (k : Z).

Definition env := string -> option Z.

Definition join (a b : degree) : option degree :=
  match a, b with
  | Any, d => Some d
  | d, Any => Some d
  | Deg j, Deg k => if (j =? k)%Z then Some (Deg j) else None
  end.

Definition join_opt (a b : option degree) : option degree :=
  match a, b with Some x, Some y => join x y | _, _ => None end.

Definition is_some {A} (o : option A) : bool := match o with Some _ => true | None => false end.

Fixpoint deg (G : env) (e : dexpr) : option degree :=
  match e with
  | Var x => option_map Deg (G x)
  | Const n _ => Some (if (n =? 0)%Z then Any else Deg 0)
  | CPi => Some (Deg 0)
  | Add a b => join_opt (deg G a) (deg G b)
  | Sub a b => join_opt (deg G a) (deg G b)
  | Min a b => join_opt (deg G a) (deg G b)
  | Max a b => join_opt (deg G a) (deg G b)
  | Mul a b => match deg G a, deg G b with
               | Some Any, Some _ => Some Any
               | Some (Deg _), Some Any => Some Any
               | Some (Deg j), Some (Deg k) => Some (Deg (j + k))
               | _, _ => None
               end
  | Div a b => match deg G a, deg G b with
               | Some Any, Some (Deg _) => Some Any
               | Some (Deg j), Some (Deg k) => Some (Deg (j - k))
               | _, _ => None
               end
  | Neg a => deg G a
  | Abs a => deg G a
  | Sqrt a => match deg G a with
              | Some Any => Some Any
              | Some (Deg k) => if Z.even k then Some (Deg (k / 2)) else None
              | None => None
              end
  | Pow a n => match deg G a with
               | Some Any => Some (match n with O => Deg 0 | S _ => Any end)
               | Some (Deg k) => Some (Deg (k * Z.of_nat n))
               | None => None
               end
  | Sign a => match deg G a with
              | Some Any => Some Any
              | Some (Deg _) => Some (Deg 0)
              | None => None
              end
  | Fn0 _ args => if args_deg0 G args then Some (Deg 0) else None
  | FnH _ args => match args_same G args with Some _ => Some (Deg 0) | None => None end
  | Ite c a b => if homog G c then join_opt (deg G a) (deg G b) else None
  end
with homog (G : env) (c : bexpr) : bool :=
  match c with
  | BLt a b => is_some (join_opt (deg G a) (deg G b))
  | BLe a b => is_some (join_opt (deg G a) (deg G b))
  | BEq a b => is_some (join_opt (deg G a) (deg G b))
  | BAnd c d => homog G c && homog G d
  | BOr c d => homog G c && homog G d
  | BNot c => homog G c
  | BConst _ => true
  | BUnknown _ => false
  end
with args_deg0 (G : env) (l : dargs) : bool :=
  match l with
  | ANil => true
  | ACons a l => match deg G a with
                 | Some Any => args_deg0 G l
                 | Some (Deg 0) => args_deg0 G l
                 | _ => false
                 end
  end
with args_same (G : env) (l : dargs) : option degree :=
  match l with
  | ANil => Some Any
  | ACons a l => join_opt (deg G a) (args_same G l)
  end.

(* does e have (a degree compatible with) degree k ? *)
Definition has_deg (G : env) (k : Z) (e : dexpr) : bool :=
  match deg G e with
  | Some Any => true
  | Some (Deg j) => (j =? k)%Z
  | None => false
  end.

(* ------------------------------------------------------------------ semantics *)
Definition sgn (x : R) : R := if Rlt_dec 0 x then 1 else if Rlt_dec x 0 then -1 else 0.

Definition lift2 (f : R -> R -> R) (a b : option R) : option R :=
  match a, b with Some x, Some y => Some (f x y) | _, _ => None end.

Definition rltb (x y : R) : bool := if Rlt_dec x y then true else false.
Definition rleb (x y : R) : bool := if Rle_dec x y then true else false.
Definition reqb (x y : R) : bool := if Req_EM_T x y then true else false.

Definition cmp2 (f : R -> R -> bool) (a b : option R) : option bool :=
  match a, b with Some x, Some y => Some (f x y) | _, _ => None end.

Definition bool2 (f : bool -> bool -> bool) (a b : option bool) : option bool :=
  match a, b with Some x, Some y => Some (f x y) | _, _ => None end.

Section Semantics.
Variable fn0 : string -> list R -> option R.
Variable fnh : string -> list R -> option R.
Variable rho : string -> R.

Fixpoint eval (e : dexpr) : option R :=
  match e with
  | Var x => Some (rho x)
  | Const n d => Some (IZR n / IZR (Zpos d))
  | CPi => Some PI
  | Add a b => lift2 Rplus (eval a) (eval b)
  | Sub a b => lift2 Rminus (eval a) (eval b)
  | Mul a b => lift2 Rmult (eval a) (eval b)
  | Div a b => match eval a, eval b with
               | Some x, Some y => if Req_EM_T y 0 then None else Some (x / y)
               | _, _ => None
               end
  | Neg a => option_map Ropp (eval a)
  | Abs a => option_map Rabs (eval a)
  | Sqrt a => match eval a with
              | Some x => if Rle_dec 0 x then Some (sqrt x) else None
              | None => None
              end
  | Pow a n => option_map (fun x => x ^ n) (eval a)
  | Sign a => option_map sgn (eval a)
  | Min a b => lift2 Rmin (eval a) (eval b)
  | Max a b => lift2 Rmax (eval a) (eval b)
  | Fn0 f args => match evals args with Some l => fn0 f l | None => None end
  | FnH f args => match evals args with Some l => fnh f l | None => None end
  | Ite c a b => match evalb c with
                 | Some true => eval a
                 | Some false => eval b
                 | None => None
                 end
  end
with evalb (c : bexpr) : option bool :=
  match c with
  | BLt a b => cmp2 rltb (eval a) (eval b)
  | BLe a b => cmp2 rleb (eval a) (eval b)
  | BEq a b => cmp2 reqb (eval a) (eval b)
  | BAnd c d => bool2 andb (evalb c) (evalb d)
  | BOr c d => bool2 orb (evalb c) (evalb d)
  | BNot c => option_map negb (evalb c)
  | BConst b => Some b
  | BUnknown _ => None
  end
with evals (l : dargs) : option (list R) :=
  match l with
  | ANil => Some []
  | ACons a l => match eval a, evals l with
                 | Some x, Some xs => Some (x :: xs)
                 | _, _ => None
                 end
  end.
End Semantics.
Arguments eval fn0 fnh rho !e.
Arguments evalb fn0 fnh rho !c.
Arguments evals fn0 fnh rho !l.

(* unfolding equations across the mutual block (simpl/cbn cannot refold them) *)
Section Equations.
Variable fn0 fnh : string -> list R -> option R.
Variable rho : string -> R.
Lemma eval_Fn0 f args : eval fn0 fnh rho (Fn0 f args) =
  match evals fn0 fnh rho args with Some l => fn0 f l | None => None end.
Proof. reflexivity. Qed.
Lemma eval_FnH f args : eval fn0 fnh rho (FnH f args) =
  match evals fn0 fnh rho args with Some l => fnh f l | None => None end.
Proof. reflexivity. Qed.
Lemma eval_Ite c a b : eval fn0 fnh rho (Ite c a b) =
  match evalb fn0 fnh rho c with Some true => eval fn0 fnh rho a | Some false => eval fn0 fnh rho b | None => None end.
Proof. reflexivity. Qed.
Lemma evalb_BLt a b : evalb fn0 fnh rho (BLt a b) = cmp2 rltb (eval fn0 fnh rho a) (eval fn0 fnh rho b).
Proof. reflexivity. Qed.
Lemma evalb_BLe a b : evalb fn0 fnh rho (BLe a b) = cmp2 rleb (eval fn0 fnh rho a) (eval fn0 fnh rho b).
Proof. reflexivity. Qed.
Lemma evalb_BEq a b : evalb fn0 fnh rho (BEq a b) = cmp2 reqb (eval fn0 fnh rho a) (eval fn0 fnh rho b).
Proof. reflexivity. Qed.
Lemma evals_ACons a l : evals fn0 fnh rho (ACons a l) =
  match eval fn0 fnh rho a, evals fn0 fnh rho l with Some x, Some xs => Some (x :: xs) | _, _ => None end.
Proof. reflexivity. Qed.
End Equations.

(* every variable of degree k is multiplied by t^k *)
Definition scale (G : env) (t : R) (rho : string -> R) : string -> R :=
  fun x => match G x with Some k => powerRZ t k * rho x | None => rho x end.
Arguments scale : simpl never.

(* invariance of the "homogeneous" uninterpreted functions under a common positive factor *)
Definition scale_invariant (fnh : string -> list R -> option R) : Prop :=
  forall f l c, 0 < c -> fnh f (map (Rmult c) l) = fnh f l.

(* the scaling law a pair (value after scaling, value before) obeys for a degree *)
Definition law (t : R) (d : degree) (o' o : option R) : Prop :=
  match d with
  | Deg k => o' = option_map (Rmult (powerRZ t k)) o
  | Any => o' = o /\ forall v, o = Some v -> v = 0
  end.

Definition laws (t : R) (d : degree) (o' o : option (list R)) : Prop :=
  match d with
  | Deg k => o' = option_map (map (Rmult (powerRZ t k))) o
  | Any => o' = o /\ forall l, o = Some l -> Forall (fun v => v = 0) l
  end.

(* ------------------------------------------------------------------ arithmetic lemmas *)
Lemma pz_pos t k : 0 < t -> 0 < powerRZ t k.
Proof. intros. apply powerRZ_lt; assumption. Qed.

Lemma pz_add t j k : 0 < t -> powerRZ t (j + k) = powerRZ t j * powerRZ t k.
Proof. intros. apply powerRZ_add. lra. Qed.

Lemma pz_sub t j k : 0 < t -> powerRZ t (j - k) * powerRZ t k = powerRZ t j.
Proof. intros. rewrite <- pz_add by assumption. f_equal. lia. Qed.

Lemma pz_0 t : powerRZ t 0 = 1.
Proof. reflexivity. Qed.

Lemma pz_half t k : 0 < t -> Z.even k = true ->
  powerRZ t k = powerRZ t (k / 2) * powerRZ t (k / 2).
Proof.
  intros Ht He. rewrite <- pz_add by assumption. f_equal.
  apply Z.even_spec in He. destruct He as [m ->].
  rewrite Z.mul_comm, Z.div_mul by lia. lia.
Qed.

Lemma pz_pow t k n : 0 < t -> powerRZ t (k * Z.of_nat n) = (powerRZ t k) ^ n.
Proof.
  intros Ht. induction n as [|n IH].
  - simpl. rewrite Z.mul_0_r. reflexivity.
  - replace (k * Z.of_nat (S n))%Z with (k + k * Z.of_nat n)%Z by lia.
    rewrite pz_add by assumption. rewrite IH. reflexivity.
Qed.

Lemma sgn_scale c x : 0 < c -> sgn (c * x) = sgn x.
Proof.
  intros Hc. unfold sgn.
  destruct (Rlt_dec 0 (c * x)), (Rlt_dec 0 x); try reflexivity; try nra;
  destruct (Rlt_dec (c * x) 0), (Rlt_dec x 0); try reflexivity; nra.
Qed.

Lemma sgn_0 : sgn 0 = 0.
Proof. unfold sgn. destruct (Rlt_dec 0 0); [lra|]. reflexivity. Qed.

Lemma Rmin_scale c x y : 0 < c -> Rmin (c * x) (c * y) = c * Rmin x y.
Proof. intros. unfold Rmin. destruct (Rle_dec (c*x) (c*y)), (Rle_dec x y); try reflexivity; nra. Qed.

Lemma Rmax_scale c x y : 0 < c -> Rmax (c * x) (c * y) = c * Rmax x y.
Proof. intros. unfold Rmax. destruct (Rle_dec (c*x) (c*y)), (Rle_dec x y); try reflexivity; nra. Qed.

Lemma Rabs_scale c x : 0 < c -> Rabs (c * x) = c * Rabs x.
Proof. intros. rewrite Rabs_mult. rewrite (Rabs_pos_eq c) by lra. reflexivity. Qed.

Lemma sqrt_scale c x : 0 < c -> 0 <= x -> sqrt (c * c * x) = c * sqrt x.
Proof.
  intros Hc Hx. rewrite sqrt_mult by nra. rewrite sqrt_square by lra. reflexivity.
Qed.

Lemma rltb_scale c x y : 0 < c -> rltb (c * x) (c * y) = rltb x y.
Proof. intros. unfold rltb. destruct (Rlt_dec (c*x) (c*y)), (Rlt_dec x y); try reflexivity; nra. Qed.
Lemma rleb_scale c x y : 0 < c -> rleb (c * x) (c * y) = rleb x y.
Proof. intros. unfold rleb. destruct (Rle_dec (c*x) (c*y)), (Rle_dec x y); try reflexivity; nra. Qed.
Lemma reqb_scale c x y : 0 < c -> reqb (c * x) (c * y) = reqb x y.
Proof. intros. unfold reqb. destruct (Req_EM_T (c*x) (c*y)), (Req_EM_T x y); try reflexivity; nra. Qed.

(* ------------------------------------------------------------------ the law and join *)
Lemma law_weaken t k o' o : law t Any o' o -> law t (Deg k) o' o.
Proof.
  intros [-> Hz]. simpl. destruct o as [v|]; [|reflexivity].
  simpl. rewrite (Hz v eq_refl). f_equal. ring.
Qed.

Lemma law_join_l t x y d o' o : join x y = Some d -> law t x o' o -> law t d o' o.
Proof.
  intros Hj H. destruct x as [|j], y as [|k]; simpl in Hj.
  - inversion Hj; subst. exact H.
  - inversion Hj; subst. apply law_weaken. exact H.
  - inversion Hj; subst. exact H.
  - destruct (Z.eqb_spec j k); inversion Hj; subst. exact H.
Qed.

Lemma law_join_r t x y d o' o : join x y = Some d -> law t y o' o -> law t d o' o.
Proof.
  intros Hj H. destruct x as [|j], y as [|k]; simpl in Hj.
  - inversion Hj; subst. exact H.
  - inversion Hj; subst. exact H.
  - inversion Hj; subst. apply law_weaken. exact H.
  - destruct (Z.eqb_spec j k); inversion Hj; subst. exact H.
Qed.

Lemma laws_weaken t k o' o : laws t Any o' o -> laws t (Deg k) o' o.
Proof.
  intros [-> Hz]. simpl. destruct o as [l|]; [|reflexivity].
  simpl. f_equal. specialize (Hz l eq_refl). induction Hz as [|v l Hv _ IH]; [reflexivity|].
  simpl. rewrite <- IH. rewrite Hv. f_equal. ring.
Qed.

(* a binary operation that commutes with the factor obeys the law of the joined degree *)
Lemma law_lin2 (f : R -> R -> R) t d a' a b' b :
  (forall c x y, 0 < c -> f (c * x) (c * y) = c * f x y) -> f 0 0 = 0 -> 0 < t ->
  law t d a' a -> law t d b' b -> law t d (lift2 f a' b') (lift2 f a b).
Proof.
  intros Hf H0 Ht Ha Hb. destruct d as [|k]; simpl in *.
  - destruct Ha as [-> Ha], Hb as [-> Hb]. split; [reflexivity|].
    intros v. destruct a as [x|], b as [y|]; simpl; try discriminate.
    intros Hv. inversion Hv. rewrite (Ha x eq_refl), (Hb y eq_refl). exact H0.
  - subst. destruct a as [x|], b as [y|]; simpl; try reflexivity.
    f_equal. apply Hf. apply pz_pos; assumption.
Qed.

Lemma cmp_law (f : R -> R -> bool) t d a' a b' b :
  (forall c x y, 0 < c -> f (c * x) (c * y) = f x y) -> 0 < t ->
  law t d a' a -> law t d b' b -> cmp2 f a' b' = cmp2 f a b.
Proof.
  intros Hf Ht Ha Hb. destruct d as [|k]; simpl in *.
  - destruct Ha as [-> _], Hb as [-> _]. reflexivity.
  - subst. destruct a as [x|], b as [y|]; simpl; try reflexivity.
    f_equal. apply Hf. apply pz_pos; assumption.
Qed.

(* ------------------------------------------------------------------ soundness *)
Section Soundness.
Variable fn0 : string -> list R -> option R.
Variable fnh : string -> list R -> option R.
Hypothesis fnh_inv : scale_invariant fnh.
Variable G : env.
Variable t : R.
Hypothesis t_pos : 0 < t.
Variable rho : string -> R.

Local Notation ev := (eval fn0 fnh rho).
Local Notation ev' := (eval fn0 fnh (scale G t rho)).
Local Notation evb := (evalb fn0 fnh rho).
Local Notation evb' := (evalb fn0 fnh (scale G t rho)).
Local Notation evs := (evals fn0 fnh rho).
Local Notation evs' := (evals fn0 fnh (scale G t rho)).

Lemma binop_join (f : R -> R -> R) a b d :
  (forall c x y, 0 < c -> f (c * x) (c * y) = c * f x y) -> f 0 0 = 0 ->
  (forall d, deg G a = Some d -> law t d (ev' a) (ev a)) ->
  (forall d, deg G b = Some d -> law t d (ev' b) (ev b)) ->
  join_opt (deg G a) (deg G b) = Some d ->
  law t d (lift2 f (ev' a) (ev' b)) (lift2 f (ev a) (ev b)).
Proof.
  intros Hf H0 IHa IHb Hj.
  destruct (deg G a) as [x|] eqn:Da; [|discriminate].
  destruct (deg G b) as [y|] eqn:Db; [|discriminate]. simpl in Hj.
  apply law_lin2; try assumption.
  - eapply law_join_l; [exact Hj|]. apply IHa. reflexivity.
  - eapply law_join_r; [exact Hj|]. apply IHb. reflexivity.
Qed.

Lemma cmp_join (f : R -> R -> bool) a b :
  (forall c x y, 0 < c -> f (c * x) (c * y) = f x y) ->
  (forall d, deg G a = Some d -> law t d (ev' a) (ev a)) ->
  (forall d, deg G b = Some d -> law t d (ev' b) (ev b)) ->
  is_some (join_opt (deg G a) (deg G b)) = true ->
  cmp2 f (ev' a) (ev' b) = cmp2 f (ev a) (ev b).
Proof.
  intros Hf IHa IHb Hj.
  destruct (deg G a) as [x|] eqn:Da; [|discriminate].
  destruct (deg G b) as [y|] eqn:Db; [|discriminate]. simpl in Hj.
  destruct (join x y) as [d|] eqn:J; [|discriminate].
  apply (cmp_law f t d); try assumption.
  - eapply law_join_l; [exact J|]. apply IHa. reflexivity.
  - eapply law_join_r; [exact J|]. apply IHb. reflexivity.
Qed.

Theorem dim_sound :
  (forall e d, deg G e = Some d -> law t d (ev' e) (ev e)) /\
  (forall c, homog G c = true -> evb' c = evb c) /\
  (forall l, (args_deg0 G l = true -> evs' l = evs l) /\
             (forall d, args_same G l = Some d -> laws t d (evs' l) (evs l))).
Proof.
  apply dim_mutind.
  - (* Var *) intros x d H. simpl in H.
    destruct (G x) as [k|] eqn:E; [|discriminate]. inversion H; subst.
    cbn. unfold scale. rewrite E. reflexivity.
  - (* Const *) intros n dn d H. simpl in H. inversion H; subst. cbn.
    destruct (Z.eqb_spec n 0).
    + split; [reflexivity|]. intros v Hv. inversion Hv. subst. unfold Rdiv. rewrite Rmult_0_l. reflexivity.
    + cbn. rewrite Rmult_1_l. reflexivity.
  - (* CPi *) intros d H. inversion H; subst. cbn. rewrite Rmult_1_l. reflexivity.
  - (* Add *) intros a IHa b IHb d H. simpl in H. cbn [eval evalb evals].
    apply binop_join; try assumption. intros; ring. ring.
  - (* Sub *) intros a IHa b IHb d H. simpl in H. cbn [eval evalb evals].
    apply binop_join; try assumption. intros; ring. ring.
  - (* Mul *) intros a IHa b IHb d H. simpl in H. cbn [eval evalb evals].
    destruct (deg G a) as [x|] eqn:Da; [|discriminate].
    destruct (deg G b) as [y|] eqn:Db; [|destruct x; discriminate].
    specialize (IHa x eq_refl). specialize (IHb y eq_refl).
    destruct x as [|j].
    + inversion H; subst. simpl in IHa. destruct IHa as [Ea Za]. rewrite Ea.
      assert (Hb : ev' b = None <-> ev b = None).
      { destruct y; simpl in IHb.
        - destruct IHb as [-> _]. tauto.
        - rewrite IHb. destruct (ev b); cbn; split; congruence. }
      cbn. destruct (ev a) as [va|]; cbn; [|split; [reflexivity|discriminate]].
      rewrite (Za va eq_refl).
      destruct (ev' b) as [vb'|] eqn:E1, (ev b) as [vb|] eqn:E2; cbn.
      * split; [f_equal; ring|]. intros v Hv. inversion Hv. ring.
      * exfalso. destruct Hb as [_ Hb]. specialize (Hb eq_refl). discriminate.
      * exfalso. destruct Hb as [Hb _]. specialize (Hb eq_refl). discriminate.
      * split; [reflexivity|discriminate].
    + destruct y as [|k].
      * inversion H; subst. simpl in IHa, IHb. destruct IHb as [Eb Zb]. rewrite Eb, IHa.
        cbn. destruct (ev b) as [vb|]; cbn.
        -- rewrite (Zb vb eq_refl). destruct (ev a) as [va|]; cbn.
           ++ split; [f_equal; ring|]. intros v Hv. inversion Hv. ring.
           ++ split; [reflexivity|discriminate].
        -- destruct (ev a); cbn; (split; [reflexivity|discriminate]).
      * inversion H; subst. simpl in *. rewrite IHa, IHb.
        destruct (ev a) as [va|], (ev b) as [vb|]; cbn; try reflexivity.
        f_equal. rewrite pz_add by assumption. ring.
  - (* Div *) intros a IHa b IHb d H. simpl in H. cbn [eval evalb evals].
    destruct (deg G a) as [x|] eqn:Da; [|discriminate].
    destruct (deg G b) as [y|] eqn:Db; [|destruct x; discriminate].
    specialize (IHa x eq_refl). specialize (IHb y eq_refl).
    destruct y as [|k]; [destruct x; discriminate|]. simpl in IHb.
    pose proof (pz_pos t k t_pos) as Pk.
    destruct x as [|j].
    + inversion H; subst. simpl in IHa. destruct IHa as [Ea Za]. rewrite Ea, IHb.
      destruct (ev a) as [va|]; cbn; [|split; [reflexivity|discriminate]].
      rewrite (Za va eq_refl).
      destruct (ev b) as [vb|]; cbn; [|split; [reflexivity|discriminate]].
      destruct (Req_EM_T (powerRZ t k * vb) 0) as [E|E], (Req_EM_T vb 0) as [E2|E2].
      * split; [reflexivity|discriminate].
      * exfalso. apply E2. nra.
      * exfalso. apply E. rewrite E2. ring.
      * split; [f_equal; unfold Rdiv; ring|]. intros v Hv. inversion Hv. unfold Rdiv. ring.
    + inversion H; subst. simpl in IHa. rewrite IHa, IHb.
      destruct (ev a) as [va|], (ev b) as [vb|]; cbn; try reflexivity.
      destruct (Req_EM_T (powerRZ t k * vb) 0) as [E|E], (Req_EM_T vb 0) as [E2|E2].
      * reflexivity.
      * exfalso. apply E2. nra.
      * exfalso. apply E. rewrite E2. ring.
      * cbn. f_equal. rewrite <- (pz_sub t j k t_pos). field. split; [exact E2|lra].
  - (* Neg *) intros a IHa d H. simpl in H. specialize (IHa d H). cbn [eval evalb evals].
    destruct d as [|k]; simpl in *.
    + destruct IHa as [-> Z0]. split; [reflexivity|]. intros v.
      destruct (eval fn0 fnh rho a) as [x|]; cbn; [|discriminate].
      intros Hv. inversion Hv. rewrite (Z0 x eq_refl). ring.
    + rewrite IHa. destruct (eval fn0 fnh rho a); cbn; [|reflexivity]. f_equal. ring.
  - (* Abs *) intros a IHa d H. simpl in H. specialize (IHa d H). cbn [eval evalb evals].
    destruct d as [|k]; simpl in *.
    + destruct IHa as [-> Z0]. split; [reflexivity|]. intros v.
      destruct (eval fn0 fnh rho a) as [x|]; cbn; [|discriminate].
      intros Hv. inversion Hv. rewrite (Z0 x eq_refl). apply Rabs_R0.
    + rewrite IHa. destruct (eval fn0 fnh rho a); cbn; [|reflexivity]. f_equal.
      apply Rabs_scale. apply pz_pos; assumption.
  - (* Sqrt *) intros a IHa d H. simpl in H. cbn [eval evalb evals].
    destruct (deg G a) as [x|] eqn:Da; [|discriminate]. specialize (IHa x eq_refl).
    destruct x as [|k].
    + inversion H; subst. simpl in IHa. destruct IHa as [-> Z0]. split; [reflexivity|].
      intros v. destruct (eval fn0 fnh rho a) as [x|]; cbn; [|discriminate].
      rewrite (Z0 x eq_refl). destruct (Rle_dec 0 0); [|discriminate].
      intros Hv. inversion Hv. apply sqrt_0.
    + destruct (Z.even k) eqn:Ev; [|discriminate]. inversion H; subst. simpl in IHa |- *.
      rewrite IHa. destruct (eval fn0 fnh rho a) as [x|]; cbn; [|reflexivity].
      pose proof (pz_pos t (k / 2) t_pos) as Ph.
      rewrite (pz_half t k t_pos Ev).
      destruct (Rle_dec 0 (powerRZ t (k / 2) * powerRZ t (k / 2) * x)) as [L|L], (Rle_dec 0 x) as [L2|L2].
      * cbn. f_equal. apply sqrt_scale; assumption.
      * exfalso. apply L2. pose proof (Rmult_lt_0_compat _ _ Ph Ph). nra.
      * exfalso. apply L. pose proof (Rmult_lt_0_compat _ _ Ph Ph). nra.
      * reflexivity.
  - (* Pow *) intros a IHa n d H. simpl in H. cbn [eval evalb evals].
    destruct (deg G a) as [x|] eqn:Da; [|discriminate]. specialize (IHa x eq_refl).
    destruct x as [|k].
    + simpl in IHa. destruct IHa as [-> Z0]. destruct n as [|n]; inversion H; subst; cbn.
      * destruct (eval fn0 fnh rho a); cbn; [|reflexivity]. f_equal. ring.
      * split; [reflexivity|]. intros v.
        destruct (eval fn0 fnh rho a) as [x|]; cbn; [|discriminate].
        intros Hv. inversion Hv. rewrite (Z0 x eq_refl). ring.
    + inversion H; subst. simpl in IHa |- *. rewrite IHa.
      destruct (eval fn0 fnh rho a) as [x|]; cbn; [|reflexivity]. f_equal.
      rewrite Rpow_mult_distr. rewrite pz_pow by assumption. reflexivity.
  - (* Sign *) intros a IHa d H. simpl in H. cbn [eval evalb evals].
    destruct (deg G a) as [x|] eqn:Da; [|discriminate]. specialize (IHa x eq_refl).
    destruct x as [|k]; inversion H; subst; simpl in IHa |- *.
    + destruct IHa as [-> Z0]. split; [reflexivity|]. intros v.
      destruct (eval fn0 fnh rho a) as [x|]; cbn; [|discriminate].
      intros Hv. inversion Hv. rewrite (Z0 x eq_refl). apply sgn_0.
    + rewrite IHa. destruct (eval fn0 fnh rho a) as [x|]; cbn; [|reflexivity]. f_equal.
      rewrite Rmult_1_l. apply sgn_scale. apply pz_pos; assumption.
  - (* Min *) intros a IHa b IHb d H. simpl in H. cbn [eval evalb evals].
    apply binop_join; try assumption. intros; apply Rmin_scale; assumption.
    unfold Rmin. destruct (Rle_dec 0 0); reflexivity.
  - (* Max *) intros a IHa b IHb d H. simpl in H. cbn [eval evalb evals].
    apply binop_join; try assumption. intros; apply Rmax_scale; assumption.
    unfold Rmax. destruct (Rle_dec 0 0); reflexivity.
  - (* Fn0 *) intros f args [IH0 _] d H. simpl in H.
    destruct (args_deg0 G args) eqn:E; [|discriminate]. inversion H; subst.
    rewrite !eval_Fn0. specialize (IH0 eq_refl). rewrite IH0.
    destruct (evals fn0 fnh rho args) as [l|]; cbn; [|reflexivity].
    destruct (fn0 f l); cbn; [|reflexivity]. f_equal. ring.
  - (* FnH *) intros f args [_ IHs] d H. simpl in H.
    destruct (args_same G args) as [x|] eqn:E; [|discriminate]. inversion H; subst.
    specialize (IHs x eq_refl). rewrite !eval_FnH.
    assert (Hk : laws t (Deg 0) (evals fn0 fnh (scale G t rho) args) (evals fn0 fnh rho args) \/
                 exists k, laws t (Deg k) (evals fn0 fnh (scale G t rho) args) (evals fn0 fnh rho args)).
    { destruct x as [|k]; [left; apply laws_weaken; exact IHs | right; exists k; exact IHs]. }
    assert (Hk' : exists k, laws t (Deg k) (evals fn0 fnh (scale G t rho) args) (evals fn0 fnh rho args)).
    { destruct Hk as [Hk|Hk]; [exists 0%Z; exact Hk | exact Hk]. }
    destruct Hk' as [k Hk']. simpl in Hk'. rewrite Hk'.
    destruct (evals fn0 fnh rho args) as [l|]; cbn; [|reflexivity].
    rewrite fnh_inv by (apply pz_pos; assumption).
    destruct (fnh f l); cbn; [|reflexivity]. f_equal. ring.
  - (* Ite *) intros c IHc a IHa b IHb d H. simpl in H.
    destruct (homog G c) eqn:Hc; [|discriminate]. specialize (IHc eq_refl).
    rewrite !eval_Ite. rewrite IHc.
    destruct (deg G a) as [x|] eqn:Da; [|discriminate].
    destruct (deg G b) as [y|] eqn:Db; [|discriminate]. simpl in H.
    destruct (evalb fn0 fnh rho c) as [[|]|].
    + eapply law_join_l; [exact H|]. apply IHa. reflexivity.
    + eapply law_join_r; [exact H|]. apply IHb. reflexivity.
    + destruct d; cbn; [split; [reflexivity|discriminate]|reflexivity].
  - (* BLt *) intros a IHa b IHb H. simpl in H. rewrite !evalb_BLt.
    apply cmp_join; try assumption. intros; apply rltb_scale; assumption.
  - (* BLe *) intros a IHa b IHb H. simpl in H. rewrite !evalb_BLe.
    apply cmp_join; try assumption. intros; apply rleb_scale; assumption.
  - (* BEq *) intros a IHa b IHb H. simpl in H. rewrite !evalb_BEq.
    apply cmp_join; try assumption. intros; apply reqb_scale; assumption.
  - (* BAnd *) intros c IHc d IHd H. simpl in H. apply andb_prop in H. destruct H as [H1 H2].
    cbn. rewrite (IHc H1), (IHd H2). reflexivity.
  - (* BOr *) intros c IHc d IHd H. simpl in H. apply andb_prop in H. destruct H as [H1 H2].
    cbn. rewrite (IHc H1), (IHd H2). reflexivity.
  - (* BNot *) intros c IHc H. simpl in H. cbn [eval evalb evals]. rewrite (IHc H). reflexivity.
  - (* BConst *) intros b _. reflexivity.
  - (* BUnknown *) intros s H. discriminate.
  - (* ANil *) split.
    + intros _. reflexivity.
    + intros d H. simpl in H. inversion H; subst. cbn. split; [reflexivity|].
      intros l Hl. inversion Hl. constructor.
  - (* ACons *) intros a IHa l [IH0 IHs]. split.
    + intros H. simpl in H. rewrite !evals_ACons.
      destruct (deg G a) as [x|] eqn:Da; [|discriminate].
      specialize (IHa x eq_refl).
      assert (Ea : ev' a = ev a /\ args_deg0 G l = true).
      { destruct x as [|k].
        - destruct IHa as [-> _]. split; [reflexivity|exact H].
        - destruct k; try discriminate. split; [|exact H]. simpl in IHa. rewrite IHa.
          destruct (ev a); cbn; [|reflexivity]. f_equal. ring. }
      destruct Ea as [Ea Hl]. rewrite Ea, (IH0 Hl). reflexivity.
    + intros d H. simpl in H.
      destruct (deg G a) as [x|] eqn:Da; [|discriminate].
      destruct (args_same G l) as [y|] eqn:Dl; [|discriminate]. simpl in H.
      specialize (IHa x eq_refl). specialize (IHs y eq_refl).
      pose proof (law_join_l t x y d _ _ H IHa) as La.
      assert (Ls : laws t d (evs' l) (evs l)).
      { destruct x as [|j], y as [|k]; simpl in H.
        - inversion H; subst. exact IHs.
        - inversion H; subst. exact IHs.
        - inversion H; subst. apply laws_weaken. exact IHs.
        - destruct (Z.eqb_spec j k); inversion H; subst. exact IHs. }
      rewrite !evals_ACons.
      destruct d as [|k]; cbn [law laws] in *.
      * destruct La as [-> Za], Ls as [-> Zs]. split; [reflexivity|].
        intros l0. destruct (eval fn0 fnh rho a) as [va|]; [|discriminate].
        destruct (evals fn0 fnh rho l) as [vs|]; [|discriminate].
        intros Hl. inversion Hl. constructor; [apply Za; reflexivity | apply Zs; reflexivity].
      * rewrite La, Ls. destruct (eval fn0 fnh rho a) as [va|]; cbn; [|reflexivity].
        destruct (evals fn0 fnh rho l) as [vs|]; cbn; reflexivity.
Qed.

Corollary deg_sound e k : deg G e = Some (Deg k) ->
  ev' e = option_map (Rmult (powerRZ t k)) (ev e).
Proof. intros H. exact (proj1 dim_sound e (Deg k) H). Qed.

Corollary has_deg_sound e k : has_deg G k e = true ->
  ev' e = option_map (Rmult (powerRZ t k)) (ev e).
Proof.
  unfold has_deg. intros H. destruct (deg G e) as [[|j]|] eqn:D; try discriminate.
  - apply (law_weaken t k). exact (proj1 dim_sound e Any D).
  - apply Z.eqb_eq in H. subst. apply deg_sound. exact D.
Qed.

Corollary homog_sound c : homog G c = true -> evb' c = evb c.
Proof. exact (proj1 (proj2 dim_sound) c). Qed.

End Soundness.

(* with t = sqrt s, a variable of degree 2 (a length) is multiplied by s, one of degree -2 divided *)
Lemma sqrt_sq_pz s : 0 < s -> powerRZ (sqrt s) 2 = s.
Proof. intros. simpl. rewrite Rmult_1_r. apply sqrt_sqrt. lra. Qed.

Lemma scale_len G s rho x : 0 < s -> G x = Some 2%Z -> scale G (sqrt s) rho x = s * rho x.
Proof. intros Hs Hx. unfold scale. rewrite Hx. rewrite sqrt_sq_pz by assumption. reflexivity. Qed.

Lemma scale_dimless G s rho x : G x = Some 0%Z -> scale G (sqrt s) rho x = rho x.
Proof. intros Hx. unfold scale. rewrite Hx. simpl. ring. Qed.

Lemma pz_sqrt_even s k : 0 < s -> powerRZ (sqrt s) (2 * k) = powerRZ s k.
Proof.
  intros Hs. assert (Hq : 0 < sqrt s) by (apply sqrt_lt_R0; assumption).
  replace (2 * k)%Z with (k + k)%Z by lia. rewrite pz_add by assumption.
  rewrite <- powerRZ_mult. rewrite sqrt_sqrt by lra. reflexivity.
Qed.

(* environments from association lists (what the translator emits) *)
Fixpoint env_of (l : list (string * Z)) : env :=
  fun x => match l with
           | [] => None
           | (y, k) :: r => if String.eqb x y then Some k else env_of r x
           end.
