(* C01 -- getBH_level1 honours position and orientation: in any rigid-motion algebra the field
   returned at the global image of a local point is the rotated local field. *)
From MV Require Import Lib.Rigid Model.CoreFrame.

Section FrameProofs.
Context {O : RigidOps} {L : RigidLaws O}.
Variable F : V -> V.

Lemma to_global_inv p r ol : act (ginv r) (vsub (to_global p r ol) p) = ol.
Proof. unfold to_global. rewrite vadd_sub. apply act_inv_l. Qed.

Lemma level1_frame p r ol : level1_row F p r (to_global p r ol) = act r (F ol).
Proof. unfold level1_row. rewrite to_global_inv. reflexivity. Qed.

(* equivalently, for an arbitrary global observer: the local coordinates used are the unique
   ones whose global image is the observer *)
Lemma level1_local_coords p r o :
  to_global p r (act (ginv r) (vsub o p)) = o /\
  level1_row F p r o = act r (F (act (ginv r) (vsub o p))).
Proof. split; [unfold to_global; rewrite act_inv_r; apply vsub_add | reflexivity]. Qed.

End FrameProofs.
