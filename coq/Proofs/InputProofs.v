(* C17 -- proofs about the TRANSLATED validators (Gen/GenShape.v) configured by the TRANSLATED setter table
   (Gen/GenTables.v) against the documented-format table of Model/InputModel.v. *)
From Coq Require Import ZArith QArith List Bool String Lia ZifyBool.
From MV Require Import Model.InputTypes Gen.GenShape Gen.GenTables Model.InputModel.
Import ListNotations.
Open Scope string_scope.
Open Scope Z_scope.

(* ------------------------------------------------------------------ check_array_shape, as a boolean *)
Definition cas_spec (dims : list Z) (m1 len : option Z) (s : shape) : bool :=
  zmem (ndim s) dims &&
  (is_any m1 || match shape_last s with Some x => eq_m1 x m1 | None => false end) &&
  (is_none len || match py_len s with Some x => eq_len x len | None => false end).

(* on arrays of rank >= 1 the translated function never raises a foreign exception and accepts exactly cas_spec;
   on a 0-d array it is Bad unless 0 is an allowed rank (then inp.shape[-1] raises: no setter allows rank 0) *)
Lemma cas_ok_iff dims m1 len s :
  check_array_shape dims m1 len s = Ok <-> cas_spec dims m1 len s = true.
Proof.
  unfold check_array_shape, cas_spec, cor, cmap.
  destruct (zmem (ndim s) dims); simpl; [|split; discriminate].
  destruct m1 as [m|]; simpl.
  - destruct (shape_last s) as [x|]; simpl; [|split; discriminate].
    destruct (x =? m); simpl; [|split; discriminate].
    destruct len as [l|]; simpl; [|tauto].
    destruct (py_len s) as [y|]; simpl; [|split; discriminate].
    destruct (y =? l); simpl; [tauto|split; discriminate].
  - destruct len as [l|]; simpl; [|tauto].
    destruct (py_len s) as [y|]; simpl; [|split; discriminate].
    destruct (y =? l); simpl; [tauto|split; discriminate].
Qed.

Lemma cas_no_crash dims m1 len s :
  zmem 0 dims = false -> check_array_shape dims m1 len s <> Crash.
Proof.
  intros H0. unfold check_array_shape, cor, cmap.
  destruct (zmem (ndim s) dims) eqn:Hm; simpl; [|discriminate].
  destruct s as [|a t]; [unfold ndim in Hm; simpl in Hm; congruence|].
  assert (Hl : exists x, shape_last (a :: t) = Some x) by (eexists; reflexivity).
  destruct Hl as [x Hx]. rewrite Hx. simpl py_len.
  destruct m1 as [m|]; simpl.
  - destruct (x =? m); simpl; [|discriminate].
    destruct len as [l|]; simpl; [|discriminate]. destruct (a =? l); discriminate.
  - destruct len as [l|]; simpl; [|discriminate]. destruct (a =? l); discriminate.
Qed.

(* ------------------------------------------------------------------ ranks *)
Lemma ndim_nil : ndim [] = 0. Proof. reflexivity. Qed.
Lemma ndim_cons a t : ndim (a :: t) = 1 + ndim t.
Proof. unfold ndim. simpl List.length. lia. Qed.
Lemma ndim_nonneg s : 0 <= ndim s. Proof. unfold ndim. lia. Qed.

Lemma zmem_1 x : zmem x [1] = (x =? 1).
Proof. unfold zmem. simpl. apply orb_false_r. Qed.
Lemma zmem_2 x : zmem x [2] = (x =? 2).
Proof. unfold zmem. simpl. apply orb_false_r. Qed.
Lemma zmem_12 x : zmem x [1; 2] = (x =? 1) || (x =? 2).
Proof. unfold zmem. simpl. now rewrite orb_false_r. Qed.
Lemma zmem_range19 x :
  zmem x [1; 2; 3; 4; 5; 6; 7; 8; 9; 10; 11; 12; 13; 14; 15; 16; 17; 18; 19] = (1 <=? x) && (x <=? 19).
Proof. unfold zmem. simpl existsb. lia. Qed.

(* shapes by rank *)
Lemma rank1 s : ndim s = 1 -> exists a, s = [a].
Proof. destruct s as [|a [|b t]]; rewrite ?ndim_cons, ?ndim_nil; intros H; try lia.
  - now exists a.
  - pose proof (ndim_nonneg t). lia. Qed.
Lemma rank2 s : ndim s = 2 -> exists a b, s = [a; b].
Proof. destruct s as [|a [|b [|c t]]]; rewrite ?ndim_cons, ?ndim_nil; intros H; try lia.
  - now exists a, b.
  - pose proof (ndim_nonneg t). lia. Qed.

(* ------------------------------------------------------------------ the five documented shape families *)
Lemma cas_vec n s : cas_spec [1] (Some n) None s = true <-> s = [n].
Proof.
  unfold cas_spec. rewrite zmem_1. cbn [is_any is_none orb eq_m1 eq_len]. rewrite ?andb_true_r.
  split.
  - intros H. apply andb_true_iff in H. destruct H as [H1 H2]. apply Z.eqb_eq in H1.
    destruct (rank1 s H1) as [a ->]. simpl in H2. apply Z.eqb_eq in H2. now subst.
  - intros ->. simpl. now rewrite Z.eqb_refl.
Qed.

Lemma cas_vecpath n s : cas_spec [1; 2] (Some n) None s = true <-> (s = [n] \/ exists m, s = [m; n]).
Proof.
  unfold cas_spec. rewrite zmem_12. cbn [is_any is_none orb eq_m1 eq_len]. rewrite ?andb_true_r.
  split.
  - intros H. apply andb_true_iff in H. destruct H as [H1 H2]. apply orb_true_iff in H1.
    destruct H1 as [H1|H1]; apply Z.eqb_eq in H1.
    + destruct (rank1 s H1) as [a ->]. simpl in H2. apply Z.eqb_eq in H2. left. now subst.
    + destruct (rank2 s H1) as [a [b ->]]. simpl in H2. apply Z.eqb_eq in H2. right. exists a. now subst.
  - intros [->|[m ->]]; simpl; now rewrite Z.eqb_refl.
Qed.

Lemma cas_rows n s : cas_spec [2] (Some n) None s = true <-> exists m, s = [m; n].
Proof.
  unfold cas_spec. rewrite zmem_2. cbn [is_any is_none orb eq_m1 eq_len]. rewrite ?andb_true_r.
  split.
  - intros H. apply andb_true_iff in H. destruct H as [H1 H2]. apply Z.eqb_eq in H1.
    destruct (rank2 s H1) as [a [b ->]]. simpl in H2. apply Z.eqb_eq in H2. exists a. now subst.
  - intros [m ->]. simpl. now rewrite Z.eqb_refl.
Qed.

Lemma cas_mat r n s : cas_spec [2] (Some n) (Some r) s = true <-> s = [r; n].
Proof.
  unfold cas_spec. rewrite zmem_2. cbn [is_any is_none orb eq_m1 eq_len].
  split.
  - intros H. apply andb_true_iff in H. destruct H as [H H3]. apply andb_true_iff in H. destruct H as [H1 H2].
    apply Z.eqb_eq in H1. destruct (rank2 s H1) as [a [b ->]]. simpl in H2, H3.
    apply Z.eqb_eq in H2. apply Z.eqb_eq in H3. now subst.
  - intros ->. simpl. now rewrite !Z.eqb_refl.
Qed.

Lemma cas_grid n s :
  cas_spec [1; 2; 3; 4; 5; 6; 7; 8; 9; 10; 11; 12; 13; 14; 15; 16; 17; 18; 19] (Some n) None s = true <->
  in_doc (DGrid n) s = true.
Proof.
  unfold cas_spec. rewrite zmem_range19. cbn [is_any is_none orb eq_m1 eq_len]. rewrite ?andb_true_r.
  destruct s as [|a t].
  - vm_compute. tauto.
  - unfold in_doc, shape_last, eq_m1.
    assert (H1 : (1 <=? ndim (a :: t)) = true) by (rewrite ndim_cons; pose proof (ndim_nonneg t); lia).
    rewrite H1. simpl andb. tauto.
Qed.

Lemma doc_vec n s : in_doc (DVec n) s = true <-> s = [n].
Proof. destruct s as [|a [|b t]]; simpl; split; try discriminate; try congruence.
  - intros H. apply Z.eqb_eq in H. now subst.
  - intros H. inversion H. apply Z.eqb_refl. Qed.

Lemma doc_vecpath n s : in_doc (DVecOrPath n) s = true <-> (s = [n] \/ exists m, 1 <= m /\ s = [m; n]).
Proof. destruct s as [|a [|b [|c t]]]; simpl; split; try discriminate.
  - intros [H|[m [_ H]]]; discriminate.
  - intros H. apply Z.eqb_eq in H. left. now subst.
  - intros [H|[m [_ H]]]; [inversion H; apply Z.eqb_refl|discriminate].
  - intros H. apply andb_true_iff in H. destruct H as [H1 H2]. right. exists a. split; [lia|].
    apply Z.eqb_eq in H2. now subst.
  - intros [H|[m [Hm H]]]; [discriminate|]. inversion H; subst. rewrite Z.eqb_refl. lia.
  - intros [H|[m [_ H]]]; discriminate.
Qed.

Lemma doc_mat r n s : in_doc (DMat r n) s = true <-> s = [r; n].
Proof. destruct s as [|a [|b [|c t]]]; simpl; split; try discriminate.
  - intros H. apply andb_true_iff in H. destruct H as [H1 H2]. apply Z.eqb_eq in H1, H2. now subst.
  - intros H. inversion H; subst. now rewrite !Z.eqb_refl. Qed.

Lemma doc_rows k n s : in_doc (DRows k n) s = true <-> exists m, k <= m /\ s = [m; n].
Proof. destruct s as [|a [|b [|c t]]]; simpl; split; try discriminate.
  - intros [m [_ H]]; discriminate.
  - intros [m [_ H]]; discriminate.
  - intros H. apply andb_true_iff in H. destruct H as [H1 H2]. exists a. apply Z.eqb_eq in H2. subst. split; [lia|easy].
  - intros [m [Hm H]]. inversion H; subst. rewrite Z.eqb_refl. lia.
  - intros [m [_ H]]; discriminate.
Qed.

(* ------------------------------------------------------------------ accepts_iff_documented *)
Definition shape_nonneg (s : shape) : Prop := Forall (fun n => 0 <= n) s.

Ltac eval_streq :=
  repeat match goal with |- context [String.eqb ?a ?b] =>
    let v := eval vm_compute in (String.eqb a b) in change (String.eqb a b) with v end.

Lemma acc_iff r s : accepts_shape r s = Ok <-> accepts_shape0 r s = Ok /\ empty_guard r s = false.
Proof. unfold accepts_shape. destruct (accepts_shape0 r s), (empty_guard r s); intuition discriminate. Qed.

Lemma vertices_accepts s :
  match check_array_shape (v_dims vertices_cfg) (v_shape_m1 vertices_cfg) (v_length vertices_cfg) s with
  | Ok => match check_format_input_vertices (IArray s []) with
          | Stored _ => Ok | Rejected => Bad | Crashed => Crash end
  | x => x end = Ok <-> exists m, 2 <= m /\ s = [m; 3].
Proof.
  unfold vertices_cfg. cbn [v_dims v_shape_m1 v_length].
  split.
  - destruct (check_array_shape [2] (Some 3) None s) eqn:E; try discriminate.
    apply cas_ok_iff, cas_rows in E. destruct E as [m ->].
    unfold check_format_input_vertices, check_format_input_vector, vertices_cfg.
    cbn. destruct (m <? 2) eqn:Hm; [discriminate|]. intros _. exists m. split; [lia|reflexivity].
  - intros [m [Hm ->]].
    assert (E : check_array_shape [2] (Some 3) None [m; 3] = Ok) by (apply cas_ok_iff, cas_rows; now exists m).
    rewrite E. unfold check_format_input_vertices, check_format_input_vector, vertices_cfg.
    cbn. destruct (m <? 2) eqn:Hm'; [lia|reflexivity].
Qed.

Lemma size_rows m n : size [m; n] = m * n.
Proof. unfold size. simpl. lia. Qed.

(* the three situations of a "rows" attribute without a lower bound in the shape check *)
Lemma vecpath_cases n s : shape_nonneg s -> 1 <= n ->
  (cas_spec [1; 2] (Some n) None s = false /\ in_doc (DVecOrPath n) s = false) \/
  (s = [0; n] /\ cas_spec [1; 2] (Some n) None s = true /\ in_doc (DVecOrPath n) s = false) \/
  (cas_spec [1; 2] (Some n) None s = true /\ in_doc (DVecOrPath n) s = true /\ (size s =? 0) = false /\
   empty_rows s = false).
Proof.
  intros Hs Hn. destruct (cas_spec [1; 2] (Some n) None s) eqn:E.
  - apply cas_vecpath in E. destruct E as [->|[m ->]].
    + right. right. repeat split; [apply doc_vecpath; now left|unfold size; simpl; lia].
    + inversion Hs as [|? ? Hm _]; subst. destruct (Z.eq_dec m 0) as [->|Hm0].
      * right. left. repeat split.
      * right. right. repeat split; [apply doc_vecpath; right; exists m; split; [lia|reflexivity]| |simpl; lia].
        rewrite size_rows. apply Z.eqb_neq. nia.
  - left. split; [reflexivity|]. destruct (in_doc (DVecOrPath n) s) eqn:E'; [|reflexivity].
    apply doc_vecpath in E'.
    assert (cas_spec [1; 2] (Some n) None s = true) by (apply cas_vecpath; destruct E' as [->|[m [_ ->]]]; eauto).
    congruence.
Qed.

Lemma rows1_cases n s : shape_nonneg s ->
  (cas_spec [2] (Some n) None s = false /\ in_doc (DRows 1 n) s = false) \/
  (s = [0; n] /\ cas_spec [2] (Some n) None s = true /\ in_doc (DRows 1 n) s = false) \/
  (exists m t, 1 <= m /\ s = m :: t /\ cas_spec [2] (Some n) None s = true /\ in_doc (DRows 1 n) s = true /\
   empty_rows s = false).
Proof.
  intros Hs. destruct (cas_spec [2] (Some n) None s) eqn:E.
  - apply cas_rows in E. destruct E as [m ->].
    inversion Hs as [|? ? Hm _]; subst. destruct (Z.eq_dec m 0) as [->|Hm0].
    + right. left. repeat split.
    + right. right. exists m, [n]. repeat split; [lia| |simpl; lia]. apply doc_rows. exists m. split; [lia|reflexivity].
  - left. split; [reflexivity|]. destruct (in_doc (DRows 1 n) s) eqn:E'; [|reflexivity].
    apply doc_rows in E'. destruct E' as [m [_ ->]].
    assert (cas_spec [2] (Some n) None [m; n] = true) by (apply cas_rows; eauto). congruence.
Qed.

Ltac row_plain L1 L2 := rewrite acc_iff; unfold accepts_shape0, empty_guard;
  cbn [s_val s_class v_dims v_shape_m1 v_length v_reshape d_shape]; eval_streq; cbn [andb orb];
  rewrite cas_ok_iff, L1, L2; intuition.

Lemma accepts_iff_documented_lemma : forall d r s,
  In d doc_table -> find_setter (d_class d) (d_attr d) = Some r -> shape_nonneg s ->
  gap_row d && empty_rows s = false ->
  (accepts_shape r s = Ok <-> in_doc (d_shape d) s = true).
Proof.
  intros d r s Hin Hf Hs Hgap. simpl in Hin.
  repeat (destruct Hin as [<-|Hin]; [vm_compute in Hf; inversion Hf; subst r; clear Hf|]); try contradiction.
  - (* position *) rewrite acc_iff; unfold accepts_shape0, empty_guard;
      cbn [s_val s_class v_dims v_shape_m1 v_length v_reshape d_shape]; eval_streq; cbn [andb orb].
    rewrite cas_ok_iff, orb_false_r. cbn [gap_row d_shape] in Hgap.
    destruct (vecpath_cases 3 s Hs ltac:(lia)) as [[-> ->]|[[-> [-> ->]]|[-> [-> [-> _]]]]].
    + intuition discriminate.
    + destruct reshape_rejects_empty; simpl in *; intuition discriminate.
    + rewrite andb_false_r. intuition.
  - (* position@init *) rewrite acc_iff; unfold accepts_shape0, empty_guard;
      cbn [s_val s_class v_dims v_shape_m1 v_length v_reshape d_shape]; eval_streq; cbn [andb orb].
    rewrite cas_ok_iff, orb_false_r. cbn [gap_row d_shape] in Hgap.
    destruct (vecpath_cases 3 s Hs ltac:(lia)) as [[-> ->]|[[-> [-> ->]]|[-> [-> [-> _]]]]].
    + intuition discriminate.
    + destruct reshape_rejects_empty; simpl in *; intuition discriminate.
    + rewrite andb_false_r. intuition.
  - row_plain cas_vec doc_vec.
  - row_plain cas_vec doc_vec.
  - (* pixel *) rewrite acc_iff; unfold accepts_shape0, empty_guard;
      cbn [s_val s_class v_dims v_shape_m1 v_length v_reshape d_shape]; eval_streq; cbn [andb orb].
    rewrite cas_ok_iff, cas_grid. intuition.
  - row_plain cas_vec doc_vec.
  - row_plain cas_vec doc_vec.
  - (* CylinderSegment *) rewrite acc_iff; unfold accepts_shape0, empty_guard, cylseg_cfg;
      cbn [s_val s_class v_dims v_shape_m1 v_length v_reshape d_shape]; eval_streq; cbn [andb orb].
    rewrite cas_ok_iff, cas_vec, doc_vec. intuition.
  - row_plain cas_mat doc_mat.
  - row_plain cas_mat doc_mat.
  - (* Polyline *) rewrite acc_iff; unfold accepts_shape0, empty_guard; cbn [s_val s_class d_shape]; eval_streq;
      cbn [andb orb]. rewrite vertices_accepts, doc_rows. intuition.
  - (* TriangularMesh vertices *) rewrite acc_iff; unfold accepts_shape0, empty_guard;
      cbn [s_val s_class v_dims v_shape_m1 v_length v_reshape d_shape]; eval_streq; cbn [andb orb].
    rewrite cas_ok_iff. cbn [gap_row d_shape] in Hgap. simpl (1 =? 1) in Hgap. cbn [andb] in Hgap.
    destruct (rows1_cases 3 s Hs) as [[-> ->]|[[-> [-> ->]]|[m [t [Hm [-> [-> [-> _]]]]]]]].
    + intuition discriminate.
    + destruct mesh_rejects_empty; simpl in *; intuition discriminate.
    + replace (m =? 0) with false by lia. rewrite andb_false_r. intuition.
  - (* TriangularMesh faces *) rewrite acc_iff; unfold accepts_shape0, empty_guard;
      cbn [s_val s_class v_dims v_shape_m1 v_length v_reshape d_shape]; eval_streq; cbn [andb orb].
    rewrite cas_ok_iff. cbn [gap_row d_shape] in Hgap. simpl (1 =? 1) in Hgap. cbn [andb] in Hgap.
    destruct (rows1_cases 3 s Hs) as [[-> ->]|[[-> [-> ->]]|[m [t [Hm [-> [-> [-> _]]]]]]]].
    + intuition discriminate.
    + destruct mesh_rejects_empty; simpl in *; intuition discriminate.
    + replace (m =? 0) with false by lia. rewrite andb_false_r. intuition.
  - row_plain cas_vec doc_vec.
Qed.

(* every row of the documentation table has a translated setter row (the theorem above is not vacuous) *)
Lemma doc_rows_have_setters :
  forallb (fun d => match find_setter (d_class d) (d_attr d) with Some _ => true | None => false end) doc_table = true.
Proof. vm_compute. reflexivity. Qed.

(* the gap, machine-checked: on every row that still is a gap row (no guard in the translated code) an EMPTY path /
   vertex / face array is accepted although not documented *)
Lemma accepts_empty_rows_refuted_lemma :
  forall d, In d doc_table -> gap_row d = true ->
  exists r, find_setter (d_class d) (d_attr d) = Some r /\ shape_nonneg [0; 3] /\
            accepts_shape r [0; 3] = Ok /\ in_doc (d_shape d) [0; 3] = false.
Proof.
  intros d Hin Hg. simpl in Hin.
  repeat (destruct Hin as [<-|Hin]; [try (vm_compute in Hg; discriminate Hg)|]); try contradiction;
    (eexists; split; [vm_compute; reflexivity|split; [repeat constructor; lia|split; vm_compute; reflexivity]]).
Qed.

(* ------------------------------------------------------------------ None *)
(* for every documented attribute: None is stored as None (no arithmetic afterwards) exactly when it is documented
   as "not yet set", and is otherwise rejected with the library's input error -- never a foreign exception *)
Definition none_row_ok (d : doc_row) : bool :=
  match find_setter (d_class d) (d_attr d) with
  | Some r => match assign_vec r INone with
              | Stored None => d_none d
              | Rejected => negb (d_none d)
              | _ => false end
  | None => false end.

Lemma none_is_stored_lemma : forall d r, In d doc_table -> find_setter (d_class d) (d_attr d) = Some r ->
  assign_vec r INone = if d_none d then Stored None else Rejected.
Proof.
  intros d r Hin Hf.
  assert (H : forallb none_row_ok doc_table = true) by (vm_compute; reflexivity).
  rewrite forallb_forall in H. specialize (H d Hin). unfold none_row_ok in H. rewrite Hf in H.
  destruct (assign_vec r INone) as [[v|]| |]; destruct (d_none d); simpl in H; congruence.
Qed.

Definition snone_row_ok (d : sdoc_row) : bool :=
  match find_setter (sd_class d) (sd_attr d) with
  | Some r => match assign_scalar r SNone with SStored None => sd_none d | SRejected => negb (sd_none d) | _ => false end
  | None => false end.

Lemma scalar_none_is_stored_lemma : forall d r, In d sdoc_table -> find_setter (sd_class d) (sd_attr d) = Some r ->
  assign_scalar r SNone = if sd_none d then SStored None else SRejected.
Proof.
  intros d r Hin Hf.
  assert (H : forallb snone_row_ok sdoc_table = true) by (vm_compute; reflexivity).
  rewrite forallb_forall in H. specialize (H d Hin). unfold snone_row_ok in H. rewrite Hf in H.
  destruct (assign_scalar r SNone) as [[v|]| |]; destruct (sd_none d); simpl in H; congruence.
Qed.

(* ------------------------------------------------------------------ rationals *)
Lemma Qltb_lt a b : Qltb a b = true <-> (a < b)%Q.
Proof. unfold Qltb. rewrite negb_true_iff. split.
  - intros H. apply Qnot_le_lt. intros Hle. apply Qle_bool_iff in Hle. congruence.
  - intros H. destruct (Qle_bool b a) eqn:E; [|reflexivity]. apply Qle_bool_iff in E.
    exfalso. now apply (Qlt_not_le a b). Qed.
Lemma Qleb_le a b : Qleb a b = true <-> (a <= b)%Q.
Proof. unfold Qleb. apply Qle_bool_iff. Qed.
Lemma Qgtb_gt a b : Qgtb a b = true <-> (b < a)%Q. Proof. unfold Qgtb. apply Qltb_lt. Qed.
Lemma Qgeb_ge a b : Qgeb a b = true <-> (b <= a)%Q. Proof. unfold Qgeb. apply Qleb_le. Qed.

(* ------------------------------------------------------------------ geometry guards *)
(* the translated CylinderSegment guard rejects exactly: a negative inner radius, a non-positive outer radius or
   height, inner radius above the outer one, a reversed angle range, a range above 360 degrees *)
Lemma cylseg_bad_iff r1 r2 h p1 p2 :
  cylseg_bad r1 r2 h p1 p2 = true <->
  (r2 < r1 \/ p2 < p1 \/ 360 < p2 - p1 \/ r1 < 0 \/ r2 <= 0 \/ h <= 0)%Q.
Proof.
  unfold cylseg_bad. cbv zeta.
  rewrite !orb_true_iff, !Qgtb_gt, !Qltb_lt, !Qleb_le. unfold qz.
  change (inject_Z 360) with 360%Q. change (inject_Z 0) with 0%Q. tauto.
Qed.

(* ... and that region is the complement of the documented one *)
Lemma cylseg_bad_is_not_ok r1 r2 h p1 p2 :
  cylseg_bad r1 r2 h p1 p2 = negb (cylseg_ok [r1; r2; h; p1; p2]).
Proof.
  apply eq_true_iff_eq. rewrite cylseg_bad_iff, negb_true_iff. unfold cylseg_ok.
  rewrite <- not_true_iff_false, !andb_true_iff, !Qleb_le, !Qltb_lt. unfold qz.
  change (inject_Z 360) with 360%Q. change (inject_Z 0) with 0%Q.
  split.
  - intros H [[[[[H1 H2] H3] H4] H5] H6].
    destruct H as [H|[H|[H|[H|[H|H]]]]].
    + now apply (Qlt_not_le _ _ H).
    + now apply (Qlt_not_le _ _ H).
    + now apply (Qlt_not_le _ _ H).
    + now apply (Qlt_not_le _ _ H).
    + now apply (Qlt_not_le _ _ H3).
    + now apply (Qlt_not_le _ _ H4).
  - intros H.
    destruct (Qlt_le_dec r2 r1) as [?|A1]; [tauto|].
    destruct (Qlt_le_dec p2 p1) as [?|A2]; [tauto|].
    destruct (Qlt_le_dec 360 (p2 - p1)) as [?|A3]; [tauto|].
    destruct (Qlt_le_dec r1 0) as [?|A4]; [tauto|].
    destruct (Qlt_le_dec 0 r2) as [A5|?]; [|tauto].
    destruct (Qlt_le_dec 0 h) as [A6|?]; [|tauto].
    exfalso. apply H. tauto.
Qed.

(* forbid_negative0 (Cuboid / Cylinder dimension): rejects exactly the arrays with an entry <= 0 *)
Lemma existsb_nonpos vals : existsb (fun x => Qleb x (qz 0)) vals = negb (all_pos vals).
Proof.
  unfold all_pos. induction vals as [|x t IH]; [reflexivity|]. simpl. rewrite IH.
  unfold Qltb, Qleb. destruct (Qle_bool x (qz 0)); reflexivity.
Qed.

(* ------------------------------------------------------------------ scalar attributes *)
(* current / diameter: for EVERY input (None, a real number, a complex number, not a number) the translated validator
   stores exactly the documented values and rejects the rest with the library's input error *)
Lemma scalar_assign_lemma : forall d r inp, In d sdoc_table -> find_setter (sd_class d) (sd_attr d) = Some r ->
  assign_scalar r inp = if sdoc_accepts d inp
                        then SStored (match inp with SReal q => Some q | _ => None end) else SRejected.
Proof.
  intros d r inp Hin Hf. simpl in Hin.
  repeat (destruct Hin as [<-|Hin]; [vm_compute in Hf; inversion Hf; subst r; clear Hf|]); try contradiction;
    destruct inp as [|q| |]; try reflexivity;
    unfold assign_scalar, sdoc_accepts, check_format_input_scalar; cbn [s_val sd_none sd_nonneg andb negb];
    try reflexivity; destruct (Qltb q (qz 0)); reflexivity.
Qed.

(* ------------------------------------------------------------------ handedness *)
(* every value: a string is accepted iff it is "right" / "left"; anything else -- hashable or not -- is rejected with
   the library's input error (the type test comes before the set membership test, nothing is hashed) *)
Lemma handedness_row : exists r, find_setter "Sensor" "handedness" = Some r /\
  forall inp, assign_member r inp =
    match inp with MStr s => if str_mem s ["right"; "left"] then Ok else Bad | _ => Bad end.
Proof. eexists. split; [vm_compute; reflexivity|]. intros [s| |]; reflexivity. Qed.

(* ------------------------------------------------------------------ accepted_then_computable (ranks) *)
(* every key of a registered class's _field_func_kwargs_ndim that is a settable attribute: the rank the table
   announces to the cores is the rank of an accepted value + 1 (get_src_dict stacks one value per source) *)
Lemma rank_pairs_ok : forall c k n a, In (c, k, n, a) rank_pairs -> n = a + 1.
Proof.
  intros c k n a Hin.
  assert (H : forallb (fun p : string * string * Z * Z => let '(_, _, n, a) := p in n =? a + 1) rank_pairs = true)
    by (vm_compute; reflexivity).
  rewrite forallb_forall in H. specialize (H _ Hin). simpl in H. lia.
Qed.

(* ... and every (registered class, settable key) pair is covered *)
Lemma rank_pairs_cover :
  forallb (fun cr : string * list (string * Z) =>
    forallb (fun kv : string * Z =>
      match find_setter_inh (fst cr) (fst kv) with
      | Some r => match accepted_rank r with Some _ => true | None => false end
      | None => negb (str_mem (fst kv) ["polarization"; "magnetization"; "dimension"; "diameter"; "vertices";
                                        "current"; "moment"])
      end) (snd cr)) registered = true.
Proof. vm_compute. reflexivity. Qed.

(* accepted values are stored unchanged: same entries, same shape (position: reshaped to (-1,3)) *)
Lemma post_guard_stored r v x : post_guard r v = Stored x -> v = Stored x.
Proof.
  unfold post_guard. destruct v as [[[s vals]|]| |]; try (intros H; exact H).
  destruct (row_is "Tetrahedron" "vertices" r && tetra_rejects_coplanar && coplanar4 vals); [discriminate|].
  destruct (String.eqb (s_class r) "TriangularMesh" && mesh_rejects_empty && _); [discriminate|]. intros H; exact H.
Qed.

Lemma stored_faithfully_lemma : forall r s vals s' vals',
  assign_vec r (IArray s vals) = Stored (Some (s', vals')) ->
  vals' = vals /\ (s' = s \/ s' = [size s / 3; 3]).
Proof.
  intros r s vals s' vals' H.
  assert (H' : match run_validator (s_val r) (IArray s vals) with
               | Stored None => if s_post_uses r then Crashed else Stored None
               | x => x end = Stored (Some (s', vals'))).
  { unfold assign_vec in H. apply post_guard_stored in H.
    destruct (String.eqb (s_attr r) "position@init"); [|exact H].
    unfold init_pad in H.
    destruct (match run_validator (s_val r) (IArray s vals) with
              | Stored None => if s_post_uses r then Crashed else Stored None | x => x end)
      as [[[[|m t] v]|]| |]; try discriminate; try exact H.
    destruct (m =? 0); [discriminate|exact H]. }
  clear H. revert H'. unfold run_validator.
  destruct (s_val r) as [c| | | | | | | |]; try discriminate.
  - unfold check_format_input_vector. rewrite andb_false_r.
    destruct (check_array_shape _ _ _ s); try discriminate.
    destruct (v_reshape c).
    + destruct (reshape_rejects_empty && _); [discriminate|].
      unfold reshape_rows3. destruct (size s mod 3 =? 0); [|discriminate].
      intros H. inversion H. tauto.
    + destruct (v_forbid_negative0 c && _); [discriminate|]. intros H. inversion H. tauto.
  - unfold check_format_input_vertices, check_format_input_vector. rewrite andb_false_r.
    destruct (check_array_shape _ _ _ s); try discriminate.
    destruct (v_reshape vertices_cfg).
    + destruct (reshape_rejects_empty && _); [discriminate|].
      unfold reshape_rows3. destruct (size s mod 3 =? 0); [|discriminate].
      destruct (shape_first _); [|discriminate]. destruct (_ <? _); [discriminate|]. intros H. inversion H. tauto.
    + destruct (v_forbid_negative0 vertices_cfg && _); [discriminate|].
      destruct (shape_first s); [|discriminate]. destruct (_ <? _); [discriminate|]. intros H. inversion H. tauto.
  - unfold check_format_input_cylinder_segment, check_format_input_vector. rewrite andb_false_r.
    destruct (check_array_shape _ _ _ s); try discriminate.
    destruct (v_reshape cylseg_cfg).
    + destruct (reshape_rejects_empty && _); [discriminate|].
      unfold reshape_rows3. destruct (size s mod 3 =? 0); [|discriminate].
      destruct vals as [|a [|b [|c [|d [|e [|f t]]]]]]; try discriminate.
      destruct (cylseg_bad _ _ _ _ _); [discriminate|]. intros H. inversion H. tauto.
    + destruct (v_forbid_negative0 cylseg_cfg && _); [discriminate|].
      destruct vals as [|a [|b [|c [|d [|e [|f t]]]]]]; try discriminate.
      destruct (cylseg_bad _ _ _ _ _); [discriminate|]. intros H. inversion H. tauto.
Qed.

(* ------------------------------------------------------------------ whole assignments *)
Lemma vec_arr c s vals : check_format_input_vector c (IArray s vals) =
  match check_array_shape (v_dims c) (v_shape_m1 c) (v_length c) s with
  | Bad => Rejected | Crash => Crashed
  | Ok => if v_reshape c then (if reshape_rejects_empty && (size s =? 0) then Rejected else reshape_rows3 s vals)
          else if v_forbid_negative0 c && existsb (fun x => Qleb x (qz 0)) vals then Rejected
          else Stored (Some (s, vals)) end.
Proof. unfold check_format_input_vector. rewrite andb_false_r. reflexivity. Qed.

Lemma cas_tri dims m1 len s : zmem 0 dims = false ->
  check_array_shape dims m1 len s = if cas_spec dims m1 len s then Ok else Bad.
Proof.
  intros H0. pose proof (cas_ok_iff dims m1 len s) as Hi. pose proof (cas_no_crash dims m1 len s H0) as Hc.
  destruct (cas_spec dims m1 len s); destruct (check_array_shape dims m1 len s); try reflexivity;
    try (exfalso; apply Hc; reflexivity);
    try (destruct Hi as [Hi1 Hi2]; try discriminate (Hi1 eq_refl); try discriminate (Hi2 eq_refl)).
Qed.

Lemma cas_vec_b n s : cas_spec [1] (Some n) None s = in_doc (DVec n) s.
Proof. apply eq_true_iff_eq. rewrite cas_vec, doc_vec. tauto. Qed.
Lemma cas_mat_b r n s : cas_spec [2] (Some n) (Some r) s = in_doc (DMat r n) s.
Proof. apply eq_true_iff_eq. rewrite cas_mat, doc_mat. tauto. Qed.
Lemma cas_grid_b n s :
  cas_spec [1; 2; 3; 4; 5; 6; 7; 8; 9; 10; 11; 12; 13; 14; 15; 16; 17; 18; 19] (Some n) None s = in_doc (DGrid n) s.
Proof. apply eq_true_iff_eq. apply cas_grid. Qed.

Lemma vecpath_size s : in_doc (DVecOrPath 3) s = true -> (size s mod 3 =? 0) = true /\ (size s / 3 =? 0) = false.
Proof.
  intros H. apply doc_vecpath in H. destruct H as [->|[m [Hm ->]]].
  - vm_compute. split; reflexivity.
  - unfold size. simpl fold_right. replace (m * (3 * 1)) with (m * 3) by lia.
    rewrite Z_mod_mult, Z_div_mult by lia. split; lia.
Qed.

Lemma vals5 (vals : list Q) : Z.of_nat (List.length vals) = size [5] ->
  exists a b c d e, vals = [a; b; c; d; e].
Proof.
  unfold size. cbn [fold_right].
  destruct vals as [|a [|b [|c [|d [|e [|f t]]]]]]; cbn [List.length]; intros H; try lia.
  now exists a, b, c, d, e.
Qed.

Definition bad_type_row_ok (d : doc_row) : bool :=
  match find_setter (d_class d) (d_attr d) with
  | Some r => match assign_vec r INotArrayLike, assign_vec r INotFloatable with
              | Rejected, Rejected => true | _, _ => false end
  | None => false end.
Lemma bad_types_rejected : forallb bad_type_row_ok doc_table = true.
Proof. vm_compute. reflexivity. Qed.

Definition input_empty_rows (inp : vinput) : bool :=
  match inp with IArray s _ => empty_rows s | _ => false end.
Definition input_value_gap (d : doc_row) (inp : vinput) : bool :=
  match inp with IArray _ vals => value_gap d vals | _ => false end.

Lemma post_guard_id r v : row_is "Tetrahedron" "vertices" r = false ->
  String.eqb (s_class r) "TriangularMesh" = false -> post_guard r v = v.
Proof. intros H1 H2. unfold post_guard. destruct v as [[[s vals]|]| |]; try reflexivity. now rewrite H1, H2. Qed.

Ltac finish_assign :=
  split; intros Hd; try discriminate Hd; try reflexivity; try (eexists; reflexivity).
Ltac plain_row := rewrite post_guard_id by (vm_compute; reflexivity);
  cbn [s_attr s_val run_validator s_post_uses]; eval_streq; cbn iota.

(* for every documented array attribute and every well-formed input (None, not array-like, not float-convertible, or
   a float array of ANY shape with ANY rational entries): the translated assignment stores the value iff the
   documentation allows it, and otherwise raises the library's input error -- never a foreign exception.
   Exclusions exist only where the translated code has no guard (flags false): empty leading axis on position / mesh
   rows, coplanar tetrahedron vertices. *)
Lemma assign_iff_documented_lemma : forall d r inp,
  In d doc_table -> find_setter (d_class d) (d_attr d) = Some r -> wf_vinput inp ->
  gap_row d && input_empty_rows inp = false -> input_value_gap d inp = false ->
  (doc_accepts d inp = true -> exists v, assign_vec r inp = Stored v) /\
  (doc_accepts d inp = false -> assign_vec r inp = Rejected).
Proof.
  intros d r inp Hin Hf Hwf Hgap Hvg.
  destruct inp as [| | |s vals].
  - (* None *) rewrite (none_is_stored_lemma d r Hin Hf). simpl. destruct (d_none d); finish_assign.
  - pose proof bad_types_rejected as H. rewrite forallb_forall in H. specialize (H d Hin).
    unfold bad_type_row_ok in H. rewrite Hf in H. simpl.
    destruct (assign_vec r INotArrayLike); try discriminate. finish_assign.
  - pose proof bad_types_rejected as H. rewrite forallb_forall in H. specialize (H d Hin).
    unfold bad_type_row_ok in H. rewrite Hf in H. simpl.
    destruct (assign_vec r INotArrayLike); try discriminate.
    destruct (assign_vec r INotFloatable); try discriminate. finish_assign.
  - destruct Hwf as [Hs Hl]. simpl input_empty_rows in Hgap. simpl input_value_gap in Hvg. simpl in Hin.
    repeat (destruct Hin as [<-|Hin]; [vm_compute in Hf; inversion Hf; subst r; clear Hf|]); try contradiction;
      unfold assign_vec, doc_accepts; cbn [d_shape d_value d_none value_ok].
    + (* position *) plain_row. rewrite vec_arr. cbn [v_dims v_shape_m1 v_length v_reshape v_forbid_negative0].
      rewrite cas_tri by reflexivity. rewrite andb_true_r. cbn [gap_row d_shape] in Hgap.
      destruct (vecpath_cases 3 s Hs ltac:(lia)) as [[-> ->]|[[-> [-> ->]]|[-> [E [-> _]]]]].
      * finish_assign.
      * destruct reshape_rejects_empty; simpl in *; [finish_assign|discriminate].
      * rewrite E, andb_false_r. unfold reshape_rows3. destruct (vecpath_size s E) as [-> _]. finish_assign.
    + (* position@init *) plain_row. rewrite vec_arr. cbn [v_dims v_shape_m1 v_length v_reshape v_forbid_negative0].
      rewrite cas_tri by reflexivity. rewrite andb_true_r. cbn [gap_row d_shape] in Hgap.
      destruct (vecpath_cases 3 s Hs ltac:(lia)) as [[-> ->]|[[-> [-> ->]]|[-> [E [-> _]]]]].
      * finish_assign.
      * destruct reshape_rejects_empty; simpl in *; [finish_assign|discriminate].
      * rewrite E, andb_false_r. unfold reshape_rows3. destruct (vecpath_size s E) as [-> E2].
        unfold init_pad. rewrite E2. finish_assign.
    + plain_row. rewrite vec_arr. cbn [v_dims v_shape_m1 v_length v_reshape v_forbid_negative0 andb].
      rewrite cas_tri by reflexivity. rewrite cas_vec_b, andb_true_r. destruct (in_doc (DVec 3) s); finish_assign.
    + plain_row. rewrite vec_arr. cbn [v_dims v_shape_m1 v_length v_reshape v_forbid_negative0 andb].
      rewrite cas_tri by reflexivity. rewrite cas_vec_b, andb_true_r. destruct (in_doc (DVec 3) s); finish_assign.
    + (* pixel *) plain_row. rewrite vec_arr. cbn [v_dims v_shape_m1 v_length v_reshape v_forbid_negative0 andb].
      rewrite cas_tri by reflexivity. rewrite cas_grid_b, andb_true_r. destruct (in_doc (DGrid 3) s); finish_assign.
    + (* Cuboid.dimension *) plain_row. rewrite vec_arr.
      cbn [v_dims v_shape_m1 v_length v_reshape v_forbid_negative0 andb].
      rewrite cas_tri by reflexivity. rewrite cas_vec_b, existsb_nonpos.
      destruct (in_doc (DVec 3) s); [|finish_assign]. destruct (all_pos vals); finish_assign.
    + (* Cylinder.dimension *) plain_row. rewrite vec_arr.
      cbn [v_dims v_shape_m1 v_length v_reshape v_forbid_negative0 andb].
      rewrite cas_tri by reflexivity. rewrite cas_vec_b, existsb_nonpos.
      destruct (in_doc (DVec 2) s); [|finish_assign]. destruct (all_pos vals); finish_assign.
    + (* CylinderSegment.dimension *) plain_row. unfold check_format_input_cylinder_segment. rewrite vec_arr.
      unfold cylseg_cfg. cbn [v_dims v_shape_m1 v_length v_reshape v_forbid_negative0 andb].
      rewrite cas_tri by reflexivity. rewrite cas_vec_b.
      destruct (in_doc (DVec 5) s) eqn:E; [|finish_assign].
      apply doc_vec in E. subst s. destruct (vals5 vals Hl) as [a [b [c [e [f ->]]]]].
      rewrite cylseg_bad_is_not_ok. cbn [andb]. destruct (cylseg_ok [a; b; c; e; f]); finish_assign.
    + (* Tetrahedron.vertices: vector check, then the coplanarity guard when the setter has it *)
      cbn [s_attr s_val run_validator s_post_uses]; eval_streq; cbn iota.
      rewrite vec_arr. cbn [v_dims v_shape_m1 v_length v_reshape v_forbid_negative0 andb].
      rewrite cas_tri by reflexivity. rewrite cas_mat_b.
      destruct (in_doc (DMat 4 3) s); [|finish_assign].
      unfold post_guard, row_is. cbn [s_class s_attr]. eval_streq. cbn [andb].
      unfold value_gap in Hvg. cbn [d_value] in Hvg.
      destruct tetra_rejects_coplanar, (coplanar4 vals); simpl in *; try discriminate; finish_assign.
    + plain_row. rewrite vec_arr. cbn [v_dims v_shape_m1 v_length v_reshape v_forbid_negative0 andb].
      rewrite cas_tri by reflexivity. rewrite cas_mat_b, andb_true_r. destruct (in_doc (DMat 3 3) s); finish_assign.
    + (* Polyline.vertices *) plain_row. unfold check_format_input_vertices. rewrite vec_arr. unfold vertices_cfg.
      cbn [v_dims v_shape_m1 v_length v_reshape v_forbid_negative0 andb].
      rewrite cas_tri by reflexivity. rewrite andb_true_r.
      destruct (cas_spec [2] (Some 3) None s) eqn:E.
      * apply cas_rows in E. destruct E as [m ->]. cbn [shape_first py_len in_doc].
        rewrite Z.eqb_refl, andb_true_r. replace (2 <=? m) with (negb (m <? 2)) by lia.
        destruct (m <? 2); finish_assign.
      * assert (E' : in_doc (DRows 2 3) s = false).
        { destruct (in_doc (DRows 2 3) s) eqn:E'; [|reflexivity]. apply doc_rows in E'. destruct E' as [m [_ ->]].
          assert (cas_spec [2] (Some 3) None [m; 3] = true) by (apply cas_rows; now exists m). congruence. }
        rewrite E'. finish_assign.
    + (* TriangularMesh vertices *) cbn [s_attr s_val run_validator s_post_uses]; eval_streq; cbn iota.
      rewrite vec_arr. cbn [v_dims v_shape_m1 v_length v_reshape v_forbid_negative0 andb].
      rewrite cas_tri by reflexivity. rewrite andb_true_r.
      cbn [gap_row d_shape] in Hgap. simpl (1 =? 1) in Hgap. cbn [andb] in Hgap.
      unfold post_guard, row_is. cbn [s_class s_attr]. eval_streq. cbn [andb].
      destruct (rows1_cases 3 s Hs) as [[-> ->]|[[-> [-> ->]]|[m [t [Hm [-> [-> [-> _]]]]]]]].
      * finish_assign.
      * destruct mesh_rejects_empty; simpl in *; [finish_assign|discriminate].
      * replace (m =? 0) with false by lia. rewrite andb_false_r. finish_assign.
    + (* TriangularMesh faces *) cbn [s_attr s_val run_validator s_post_uses]; eval_streq; cbn iota.
      rewrite vec_arr. cbn [v_dims v_shape_m1 v_length v_reshape v_forbid_negative0 andb].
      rewrite cas_tri by reflexivity. rewrite andb_true_r.
      cbn [gap_row d_shape] in Hgap. simpl (1 =? 1) in Hgap. cbn [andb] in Hgap.
      unfold post_guard, row_is. cbn [s_class s_attr]. eval_streq. cbn [andb].
      destruct (rows1_cases 3 s Hs) as [[-> ->]|[[-> [-> ->]]|[m [t [Hm [-> [-> [-> _]]]]]]]].
      * finish_assign.
      * destruct mesh_rejects_empty; simpl in *; [finish_assign|discriminate].
      * replace (m =? 0) with false by lia. rewrite andb_false_r. finish_assign.
    + plain_row. rewrite vec_arr. cbn [v_dims v_shape_m1 v_length v_reshape v_forbid_negative0 andb].
      rewrite cas_tri by reflexivity. rewrite cas_vec_b, andb_true_r. destruct (in_doc (DVec 3) s); finish_assign.
Qed.

(* as long as the Tetrahedron setter has no coplanarity guard, four coplanar vertices are accepted (the field
   computation then fails with LinAlgError in the implementation) *)
Lemma tetra_coplanar_refuted_lemma : tetra_rejects_coplanar = false ->
  exists r, find_setter "Tetrahedron" "vertices" = Some r /\
    coplanar4 [0; 0; 0; 1; 0; 0; 0; 1; 0; 1; 1; 0]%Q = true /\
    assign_vec r (IArray [4; 3] [0; 0; 0; 1; 0; 0; 0; 1; 0; 1; 1; 0]%Q)
      = Stored (Some ([4; 3], [0; 0; 0; 1; 0; 0; 0; 1; 0; 1; 1; 0]%Q)).
Proof.
  intros H. eexists. split; [vm_compute; reflexivity|]. split; [vm_compute; reflexivity|].
  unfold assign_vec, post_guard. rewrite H. vm_compute. reflexivity.
Qed.

(* ------------------------------------------------------------------ orientation *)
Lemma orientation_rejects_empty_lemma : orientation_rejects_empty = true.
Proof. reflexivity. Qed.

(* both orientation rows (setter and constructor): None and every scipy Rotation with at least one rotation are
   stored (None as one unit quaternion, a single rotation as one, a stack of n >= 1 as n); an EMPTY stack and every
   other value raise the library's input error *)
Lemma orientation_assign_lemma : forall a r inp, In a ["orientation"; "orientation@init"] ->
  find_setter "BaseGeo" a = Some r -> wf_oinput inp ->
  assign_orient r inp = if odoc_accepts inp
                        then OStored (match inp with ORot false n => n | _ => 1 end) else ORejected.
Proof.
  intros a r inp Hin Hf Hwf. simpl in Hin.
  destruct Hin as [<-|[<-|[]]]; vm_compute in Hf; inversion Hf; subst r; clear Hf;
    (destruct inp as [|[|] n|]; try reflexivity);
    unfold assign_orient, odoc_accepts, check_format_input_orientation; cbn [s_val s_attr orb]; eval_streq; cbn [andb];
    rewrite orientation_rejects_empty_lemma; cbn [andb]; simpl in Hwf;
    (destruct (n =? 0) eqn:E; [replace (1 <=? n) with false by lia; reflexivity|
                               replace (1 <=? n) with true by lia; try rewrite E; reflexivity]).
Qed.

(* ------------------------------------------------------------------ field_func *)
Lemma validate_outs_iff outs : ~ In FoRaises outs ->
  validate_outs outs = if forallb (fun o => match o with FoNone => true | FoArray s => shape_eqb s field_func_probe_shape
                                            | _ => false end) outs then Ok else Bad.
Proof.
  induction outs as [|o t IH]; intros Hn; [reflexivity|].
  assert (Ht : ~ In FoRaises t) by (intros H; apply Hn; now right).
  assert (Ho : o <> FoRaises) by (intros H; apply Hn; now left).
  simpl. destruct o as [| |s|]; simpl; try congruence.
  - now rewrite IH.
  - unfold field_func_probe_shape. destruct (shape_eqb s [2; 3]); simpl; [now rewrite IH|reflexivity].
Qed.

(* CustomSource.field_func: for every value whose probe calls do not raise, the translated validator accepts exactly
   None and callables (field, observers, ...) whose B and H probes return None or an ndarray of the probe's shape;
   everything else raises the library's input error *)
Lemma field_func_assign_lemma : forall r inp, find_setter "BaseSource" "field_func" = Some r -> wf_finput inp ->
  assign_func "CustomSource" r inp = if fdoc_accepts inp then Ok else Bad.
Proof.
  intros r inp Hf Hwf. vm_compute in Hf. inversion Hf; subst r; clear Hf.
  unfold assign_func. cbn [s_val]. replace (str_mem "CustomSource" editable_field_func) with true by reflexivity.
  destruct inp as [| |ok outs]; try reflexivity.
  destruct Hwf as [Hl Hn]. unfold validate_field_func, fdoc_accepts.
  rewrite <- Hl, firstn_all. destruct ok; [|reflexivity]. simpl negb. cbn iota. simpl andb.
  apply validate_outs_iff. exact Hn.
Qed.

(* on every other source class the attribute is not settable: the setter raises AttributeError *)
Lemma field_func_not_editable_lemma : forall r inp, find_setter "BaseSource" "field_func" = Some r ->
  forallb (fun cr : string * list (string * Z) =>
    String.eqb (fst cr) "CustomSource" || res_eqb (assign_func (fst cr) r inp) Crash) registered = true.
Proof. intros r inp Hf. vm_compute in Hf. inversion Hf; subst r. destruct inp; vm_compute; reflexivity. Qed.

(* ------------------------------------------------------------------ the guards exist now *)
Lemma no_gap_rows_lemma : forall d, In d doc_table -> gap_row d = false.
Proof.
  intros d Hin. assert (H : forallb (fun d => negb (gap_row d)) doc_table = true) by (vm_compute; reflexivity).
  rewrite forallb_forall in H. specialize (H d Hin). now apply negb_true_iff in H.
Qed.

Lemma no_value_gap_lemma : forall d inp, input_value_gap d inp = false.
Proof.
  intros d [| | |s vals]; try reflexivity. unfold input_value_gap, value_gap.
  destruct (d_value d); reflexivity.
Qed.

Lemma assign_iff_documented_full_lemma : forall d r inp,
  In d doc_table -> find_setter (d_class d) (d_attr d) = Some r -> wf_vinput inp ->
  (doc_accepts d inp = true -> exists v, assign_vec r inp = Stored v) /\
  (doc_accepts d inp = false -> assign_vec r inp = Rejected).
Proof.
  intros d r inp Hin Hf Hwf. apply assign_iff_documented_lemma; auto.
  - now rewrite (no_gap_rows_lemma d Hin).
  - apply no_value_gap_lemma.
Qed.

Lemma accepts_iff_documented_full_lemma : forall d r s,
  In d doc_table -> find_setter (d_class d) (d_attr d) = Some r -> shape_nonneg s ->
  (accepts_shape r s = Ok <-> in_doc (d_shape d) s = true).
Proof.
  intros d r s Hin Hf Hs. apply accepts_iff_documented_lemma; auto. now rewrite (no_gap_rows_lemma d Hin).
Qed.

(* ------------------------------------------------------------------ completeness checks before a field computation *)
Definition completeness_ok : bool :=
  forallb (fun c : string * string => String.eqb (snd c) flattened_sources_name) completeness_calls &&
  str_mem "check_dimensions" (map fst completeness_calls) &&
  str_mem "check_excitations" (map fst completeness_calls) &&
  forallb (fun d => negb (d_none d) ||
                    str_mem (d_attr d) (dimension_args ++ excitation_args ++ ["magnetization"; "pixel"])) doc_table &&
  forallb (fun d => negb (sd_none d) || str_mem (sd_attr d) (dimension_args ++ excitation_args)) sdoc_table.

Lemma completeness_ok_lemma : completeness_ok = true.
Proof. vm_compute. reflexivity. Qed.
