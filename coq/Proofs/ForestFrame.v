(* Footprint of the tree operations: an operation that mentions only objects of one side of a
   partition that is closed under parent/children links changes only objects of that side, and
   keeps the partition closed.  (Side = id below / not below a threshold n; after a copy the
   originals are the ids below n and the clones the ids from n on.) *)
From Coq Require Import List Bool Arith PeanoNat Lia.
From MV Require Import Model.ForestModel Model.ForestExec Proofs.ForestInv Proofs.ForestBase
  Proofs.ForestOps Proofs.ForestRm Proofs.ForestStep Proofs.ForestStep2 Proofs.ForestCopy.
Import ListNotations.

Lemma flat_map_ext_in' {A B} (f g : A -> list B) l :
  (forall a, In a l -> f a = g a) -> flat_map f l = flat_map g l.
Proof.
  induction l as [|a l IH]; intros H; simpl; auto.
  rewrite (H a) by (left; reflexivity). rewrite IH; auto. intros; apply H; right; auto.
Qed.

Section Frame.
Variable side : nat -> bool.      (* an arbitrary partition of the object ids *)
Variable b : bool.

(* no link crosses the partition *)
Definition Closed (s : state) : Prop :=
  (forall p x, In x (chl s p) -> side x = side p) /\
  (forall x p, par s x = Some p -> side p = side x).

(* s' has g more objects than s, all of them on side b; it differs from s only on objects of side
   b; the kinds of the old objects are kept; s' is closed *)
Record FRg (g : nat) (s s' : state) : Prop := mkFR {
  fr_len : length s' = length s + g;
  fr_kd : forall i, i < length s -> kd s' i = kd s i;
  fr_new : forall i, length s <= i -> i < length s + g -> side i = b;
  fr_off : forall i, side i <> b -> get s' i = get s i;
  fr_closed : Closed s' }.
Notation FR := (FRg 0).

Lemma FR_refl s : Closed s -> FR s s.
Proof. intros H. split; auto. intros; lia. Qed.

Lemma FRg_trans g1 g2 s s1 s2 : FRg g1 s s1 -> FRg g2 s1 s2 -> FRg (g1 + g2) s s2.
Proof.
  intros [A1 A2 A3 A4 A5] [B1 B2 B3 B4 B5]. split; auto.
  - lia.
  - intros i Hi. rewrite B2 by lia. apply A2. exact Hi.
  - intros i H1 H2. destruct (Nat.lt_ge_cases i (length s + g1)); [apply A3 | apply B3]; lia.
  - intros i Hi. rewrite B4 by exact Hi. apply A4. exact Hi.
Qed.

Lemma FR_trans s s1 s2 : FR s s1 -> FR s1 s2 -> FR s s2.
Proof. intros A B. apply (FRg_trans 0 0 s s1 s2 A B). Qed.

Lemma FR0_kd s s' : FR s s' -> forall i, kd s' i = kd s i.
Proof.
  intros [A1 A2 _ _ _] i. destruct (Nat.lt_ge_cases i (length s)); auto.
  unfold kd. rewrite !get_oob by lia. reflexivity.
Qed.

Lemma get_upd_other s x f i : i <> x -> get (upd s x f) i = get s i.
Proof. intros H. rewrite get_upd. destruct (Nat.eqb_spec i x); [contradiction | reflexivity]. Qed.

Lemma FR_set_parent s x p : Closed s -> side x = b ->
  (forall c, p = Some c -> side c = b) -> FR s (set_parent s x p).
Proof.
  intros [C1 C2] Hx Hp. split.
  - rewrite sp_length. lia.
  - intros i _. apply sp_kd.
  - intros; lia.
  - intros i Hi. unfold set_parent. apply get_upd_other. intros ->. contradiction.
  - split.
    + intros q y Hy. rewrite sp_chl in Hy. auto.
    + intros y q Hq. rewrite sp_par in Hq. destruct (Nat.eqb y x && Nat.ltb x (length s)) eqn:E; auto.
      apply andb_prop in E. destruct E as [E _]. apply Nat.eqb_eq in E. subst y.
      rewrite (Hp q Hq). auto.
Qed.

Lemma FR_setch s c l : Closed s -> side c = b -> (forall y, In y l -> side y = b) ->
  FR s (setch s c l).
Proof.
  intros [C1 C2] Hc Hl. split.
  - rewrite setch_length. lia.
  - intros i _. apply setch_kd.
  - intros; lia.
  - intros i Hi. unfold setch, refresh, set_children. rewrite !get_upd_other; auto; intros ->; contradiction.
  - split.
    + intros q y Hy. rewrite setch_chl in Hy. destruct (Nat.eqb q c && Nat.ltb c (length s)) eqn:E; auto.
      apply andb_prop in E. destruct E as [E _]. apply Nat.eqb_eq in E. subst q.
      rewrite (Hl y Hy). auto.
    + intros y q Hq. rewrite setch_par in Hq. auto.
Qed.

Lemma FR_rm_at s p x : Closed s -> side p = b -> FR s (rm_at s p x).
Proof.
  intros HC Hp. rewrite rm_at_setch. apply FR_setch; auto.
  intros y Hy. apply In_remove_first in Hy. destruct HC as [C1 _]. rewrite (C1 p y Hy). exact Hp.
Qed.

(* ---------------------------------------------------------------- rec_obj_remover *)
Lemma FR_scan (rec : state -> nat -> state * bool) p x :
  (forall s o, Closed s -> side o = b -> FR s (fst (rec s o))) -> side p = b ->
  forall l s, Closed s -> (forall o, In o l -> side o = b) -> FR s (fst (rm_scan rec p x l s)).
Proof.
  intros Hrec Hp. induction l as [|o rest IH]; intros s HC Hl; simpl.
  - apply FR_refl. exact HC.
  - assert (Hr : forall o', In o' rest -> side o' = b) by (intros; apply Hl; right; auto).
    destruct (Nat.eqb o x).
    + simpl. apply FR_rm_at; auto.
    + destruct (is_coll s o).
      * pose proof (Hrec s o HC (Hl o (or_introl eq_refl))) as F1.
        destruct (rec s o) as [s1 r]. simpl in F1. destruct r; simpl; auto.
        eapply FR_trans; [exact F1|]. apply IH; auto. apply F1.
      * apply IH; auto.
Qed.

Lemma FR_rec_rm x : forall f s p, Closed s -> side p = b -> FR s (fst (rec_rm f s p x)).
Proof.
  induction f as [|f IH]; intros s p HC Hp; simpl.
  - apply FR_refl. exact HC.
  - apply FR_scan; auto. intros o Ho. destruct HC as [C1 _]. rewrite (C1 p o Ho). exact Hp.
Qed.

(* ---------------------------------------------------------------- remove *)
Lemma FR_remove_loop c rc so e : side c = b -> forall objs s, Closed s ->
  (forall o, In o objs -> side o = b) -> FR s (fst (remove_loop true s c rc so objs e)).
Proof.
  intros Hc. induction objs as [|o rest IH]; intros s HC Hl; cbn [remove_loop].
  - apply FR_refl. exact HC.
  - assert (Hr : forall o', In o' rest -> side o' = b) by (intros; apply Hl; right; auto).
    destruct (mem o (self_objs s c rc)).
    + pose proof (FR_rec_rm o (S (fuel_of s)) s c HC Hc) as F1.
      set (s1 := fst (rec_rm (S (fuel_of s)) s c o)) in *.
      assert (F2 : FR s1 (set_parent s1 o None)).
      { apply FR_set_parent; [apply F1 | apply Hl; left; reflexivity | discriminate]. }
      eapply FR_trans; [exact F1|]. eapply FR_trans; [exact F2|]. apply IH; auto. apply F2.
    + destruct e; simpl; try (apply FR_refl; exact HC). apply IH; auto.
Qed.

Lemma FR_remove s c objs rc e : Closed s -> side c = b -> (forall o, In o objs -> side o = b) ->
  FR s (fst (remove repaired s c objs rc e)).
Proof.
  intros HC Hc Hl. unfold remove. destruct (existsb (is_junk s) objs).
  - apply FR_refl. exact HC.
  - apply FR_remove_loop; auto.
Qed.

(* ---------------------------------------------------------------- add *)
Lemma FR_add_mutate c : side c = b -> forall objs s, Closed s ->
  (forall o, In o objs -> side o = b) -> FR s (fst (add_mutate repaired s c objs)).
Proof.
  intros Hc. induction objs as [|o rest IH]; intros s HC Hl; cbn [add_mutate].
  - apply FR_refl. exact HC.
  - assert (Hr : forall o', In o' rest -> side o' = b) by (intros; apply Hl; right; auto).
    assert (Ho : side o = b) by (apply Hl; left; reflexivity).
    assert (G : forall s1, FR s s1 -> FR s (fst (add_mutate repaired (set_parent s1 o (Some c)) c rest))).
    { intros s1 F1.
      assert (F2 : FR s1 (set_parent s1 o (Some c))).
      { apply FR_set_parent; [apply F1 | exact Ho |]. intros c' E. inversion E. subst. exact Hc. }
      eapply FR_trans; [exact F1|]. eapply FR_trans; [exact F2|]. apply IH; auto. apply F2. }
    destruct (par s o) as [p|] eqn:Hp.
    + assert (Hps : side p = b) by (destruct HC as [_ C2]; rewrite (C2 o p Hp); exact Ho).
      pose proof (FR_remove s p [o] true ERaise HC Hps) as F1.
      destruct (remove repaired s p [o] true ERaise) as [s1 r]. simpl in F1.
      assert (F1' : FR s s1) by (apply F1; intros o' [<-|[]]; exact Ho).
      destruct r; simpl; auto.
    + apply G. apply FR_refl. exact HC.
Qed.

Lemma FR_add s c objs ov : Closed s -> side c = b -> (forall o, In o objs -> side o = b) ->
  FR s (fst (add repaired s c objs ov)).
Proof.
  intros HC Hc Hl. unfold add. destruct (existsb (is_junk s) objs); [apply FR_refl; exact HC|].
  cbn [v_atomic repaired]. destruct (add_valid s c ov [] objs); [|apply FR_refl; exact HC].
  pose proof (FR_add_mutate c Hc objs s HC Hl) as F1.
  destruct (add_mutate repaired s c objs) as [s1 r]. simpl in F1. destruct r; simpl; auto.
  eapply FR_trans; [exact F1|]. apply FR_setch; auto; [apply F1|].
  intros y Hy. apply in_app_or in Hy. destruct Hy as [Hy|Hy]; auto.
  destruct (fr_closed _ _ _ F1) as [C1 _]. rewrite (C1 c y Hy). exact Hc.
Qed.

(* ---------------------------------------------------------------- setters *)
Lemma FR_detach_all l : forall s, Closed s -> (forall o, In o l -> side o = b) ->
  FR s (detach_all s l).
Proof.
  induction l as [|o rest IH]; intros s HC Hl; unfold detach_all; simpl.
  - apply FR_refl. exact HC.
  - assert (F1 : FR s (set_parent s o None)).
    { apply FR_set_parent; [exact HC | apply Hl; left; reflexivity | discriminate]. }
    eapply FR_trans; [exact F1|]. apply IH; [apply F1|]. intros; apply Hl; right; auto.
Qed.

Lemma flat_side s want : Closed s -> forall f l, (forall y, In y l -> side y = b) ->
  forall x, In x (flat f s want l) -> side x = b.
Proof.
  intros HC. induction f as [|f IH]; intros l Hl x Hx; simpl in Hx.
  - apply filter_In in Hx. apply Hl. tauto.
  - apply in_flat_map in Hx. destruct Hx as (o & Ho & Hx). apply in_app_or in Hx. destruct Hx as [Hx|Hx].
    + destruct (want o); [|contradiction]. destruct Hx as [<-|[]]. auto.
    + destruct (is_coll s o); [|contradiction]. apply (IH (chl s o)); auto.
      intros y Hy. destruct HC as [C1 _]. rewrite (C1 o y Hy). auto.
Qed.

Lemma FR_set_children_op s c objs : Closed s -> side c = b -> (forall o, In o objs -> side o = b) ->
  FR s (fst (set_children_op repaired s c objs)).
Proof.
  intros HC Hc Hl. unfold set_children_op, maybe_refresh. cbn [v_refresh repaired].
  assert (F1 : FR s (detach_all s (chl s c))).
  { apply FR_detach_all; auto. intros o Ho. destruct HC as [C1 _]. rewrite (C1 c o Ho). exact Hc. }
  assert (F2 : FR (detach_all s (chl s c)) (setch (detach_all s (chl s c)) c [])).
  { apply FR_setch; [apply F1 | exact Hc | intros y []]. }
  eapply FR_trans; [exact F1|]. eapply FR_trans; [exact F2|]. apply FR_add; auto. apply F2.
Qed.

Lemma FR_set_typed_op s c k objs : Closed s -> side c = b -> (forall o, In o objs -> side o = b) ->
  FR s (fst (set_typed_op repaired s c k objs)).
Proof.
  intros HC Hc Hl. unfold set_typed_op, maybe_refresh, drop_typed. cbn [v_refresh repaired].
  set (typed := match k with KSource => sources (get s c) | KSensor => sensors (get s c)
                           | _ => collections (get s c) end).
  assert (Hch : forall P y, In y (filter P (chl s c)) -> side y = b).
  { intros P y Hy. apply filter_In in Hy. destruct Hy as [Hy _]. destruct HC as [C1 _].
    rewrite (C1 c y Hy). exact Hc. }
  set (s0 := detach_all s (filter (fun x => mem x typed) (chl s c))).
  assert (F1 : FR s s0) by (apply FR_detach_all; auto; apply Hch).
  set (s1 := refresh (set_children s0 c (filter (fun x => negb (mem x typed)) (chl s c))) c).
  assert (F2 : FR s0 s1).
  { apply (FR_setch s0 c); [apply F1 | exact Hc | apply Hch]. }
  assert (F12 : FR s s1) by (eapply FR_trans; eauto).
  assert (HA : forall l, (forall o, In o l -> side o = b) -> FR s (fst (add repaired s1 c l true))).
  { intros l Hl'. eapply FR_trans; [exact F12|]. apply FR_add; auto. apply F2. }
  assert (HF : forall kk, match format_typed s1 kk objs with
                          | Some l => forall o, In o l -> side o = b | None => True end).
  { intros kk. unfold format_typed. destruct (existsb (is_junk s1) objs); auto.
    intros o Ho. apply in_flat_map in Ho. destruct Ho as (a & Ha & Ho).
    destruct (is_coll s1 a).
    - apply (flat_side s1 (is_k kk s1) (fr_closed _ _ _ F2) (fuel_of s1) (chl s1 a)); auto.
      intros y Hy. destruct (fr_closed _ _ _ F2) as [C1 _]. rewrite (C1 a y Hy). auto.
    - destruct (is_k kk s1 a); [|contradiction]. destruct Ho as [<-|[]]. auto. }
  destruct k.
  - pose proof (HF KSource) as H. destruct (format_typed s1 KSource objs); simpl; auto.
  - pose proof (HF KSensor) as H. destruct (format_typed s1 KSensor objs); simpl; auto.
  - apply HA. intros o Ho. apply filter_In in Ho. apply Hl. tauto.
  - pose proof (HF KJunk) as H. destruct (format_typed s1 KJunk objs); simpl; auto.
Qed.

Lemma FR_set_parent_op s x p : Closed s -> side x = b -> (forall c, p = Some c -> side c = b) ->
  FR s (fst (set_parent_op repaired s x p)).
Proof.
  intros HC Hx Hp. unfold set_parent_op. destruct p as [c|].
  - destruct (is_coll s c); [|apply FR_refl; exact HC].
    apply FR_add; auto. intros o [<-|[]]. exact Hx.
  - destruct (par s x) as [q|] eqn:Hq; [|apply FR_refl; exact HC].
    assert (Hqs : side q = b) by (destruct HC as [_ C2]; rewrite (C2 x q Hq); exact Hx).
    pose proof (FR_remove s q [x] true ERaise HC Hqs) as F1.
    destruct (remove repaired s q [x] true ERaise) as [s1 r]. simpl in F1.
    assert (F1' : FR s s1) by (apply F1; intros o' [<-|[]]; exact Hx).
    destruct r; simpl; auto. eapply FR_trans; [exact F1'|].
    apply FR_set_parent; [apply F1' | exact Hx | discriminate].
Qed.

(* ---------------------------------------------------------------- one operation *)
(* every object the operation mentions lies on side b *)
Definition op_on (o : op) : Prop :=
  match o with
  | Add c objs _ | Remove c objs _ _ | SetChildren c objs | SetTyped _ c objs =>
      side c = b /\ forall y, In y objs -> side y = b
  | SetParent x p => side x = b /\ forall c, p = Some c -> side c = b
  | _ => False
  end.

Theorem step_frame s o : Closed s -> op_on o -> FR s (fst (step repaired s o)).
Proof.
  intros HC Ho. destruct o as [k|c objs ov|c objs r e|x p|c objs|k c objs|a b0|objs ov|x];
    simpl in Ho; try contradiction; simpl.
  - destruct Ho. destruct (is_coll s c); [apply FR_add; auto | apply FR_refl; auto].
  - destruct Ho. destruct (is_coll s c); [apply FR_remove; auto | apply FR_refl; auto].
  - destruct Ho. destruct (live s x); [apply FR_set_parent_op; auto | apply FR_refl; auto].
  - destruct Ho. destruct (is_coll s c); [apply FR_set_children_op; auto | apply FR_refl; auto].
  - destruct Ho. destruct k; try (apply FR_refl; exact HC);
      (destruct (is_coll s c); [apply FR_set_typed_op; auto | apply FR_refl; auto]).
Qed.


(* ---------------------------------------------------------------- operations that create objects *)
Lemma FRg_new s k : Closed s -> side (length s) = b -> FRg 1 s (s ++ [new_obj k]).
Proof.
  intros [C1 C2] Hs. split.
  - rewrite app_length. simpl. lia.
  - intros i Hi. apply kd_new_lt. exact Hi.
  - intros i H1 H2. replace i with (length s) by lia. exact Hs.
  - intros i Hi. rewrite get_app_cases. destruct (Nat.ltb_spec i (length s)); auto.
    destruct (Nat.eqb_spec i (length s)); [subst; contradiction|]. rewrite get_oob; auto.
  - split.
    + intros p x Hx. destruct (get_new_fields s k p) as (_ & E & _). rewrite E in Hx. auto.
    + intros x p Hp. destruct (get_new_fields s k x) as (E & _). rewrite E in Hp. auto.
Qed.

Lemma FRg_ctor s objs ov : Closed s -> side (length s) = b -> (forall o, In o objs -> side o = b) ->
  FRg 1 s (fst (ctor repaired s objs ov)).
Proof.
  intros HC Hs Hl. unfold ctor. pose proof (FRg_new s KColl HC Hs) as F1.
  apply (FRg_trans 1 0 s (s ++ [new_obj KColl])); auto.
  apply FR_add; auto. apply F1.
Qed.

Lemma FRg_copy s x : Inv s -> live s x = true -> Closed s ->
  (forall i, length s <= i -> side i = b) -> FRg (length s) s (copy_op s x).
Proof.
  intros HI Hx [C1 C2] Hnew. split.
  - apply copy_length.
  - intros i Hi. apply kd_t_old. exact Hi.
  - intros i H1 _. apply Hnew. exact H1.
  - intros i Hi. apply get_copy_old. destruct (Nat.lt_ge_cases i (length s)); auto.
    exfalso. apply Hi. apply Hnew. auto.
  - split.
    + intros q y Hy. destruct (t_cases s x q) as [(L & E)|[(p & -> & Sp)|E]].
      * rewrite E in Hy. auto.
      * rewrite (t_clone s x HI Hx p Sp) in Hy. simpl in Hy.
        apply In_shift in Hy. destruct Hy as (o & -> & _). rewrite !Hnew by lia. reflexivity.
      * rewrite E in Hy. contradiction.
    + intros y q Hq. destruct (t_cases s x y) as [(L & E)|[(o & -> & So)|E]].
      * rewrite E in Hq. auto.
      * rewrite (t_clone s x HI Hx o So) in Hq. simpl in Hq.
        destruct (Nat.eqb o x); [discriminate|].
        destruct (par s o) as [p|]; [|discriminate]. simpl in Hq. inversion Hq.
        rewrite !Hnew by lia. reflexivity.
      * rewrite E in Hq. discriminate.
Qed.

Lemma FRg_newobj s k : Closed s -> side (length s) = b ->
  FRg 1 s (fst (step repaired s (NewObj k))).
Proof.
  intros HC Hs. destruct k; try (simpl; apply FRg_new; assumption).
  change (fst (step repaired s (NewObj KColl))) with (fst (ctor repaired s [] false)).
  apply FRg_ctor; auto. intros o [].
Qed.

(* every object the operation mentions lies on side b (creating operations included) *)
Definition op_on_all (o : op) : Prop :=
  match o with
  | NewObj _ => True
  | Ctor objs _ => forall y, In y objs -> side y = b
  | Plus a b0 => side a = b /\ side b0 = b
  | Copy x => side x = b
  | _ => op_on o
  end.

(* the general footprint theorem: objects created by the operation belong to side b *)
Theorem step_frame_all s o : Inv s -> Closed s -> (forall i, length s <= i -> side i = b) ->
  op_on_all o -> exists g, FRg g s (fst (step repaired s o)).
Proof.
  intros HI HC Hnew Ho.
  assert (Hs : side (length s) = b) by (apply Hnew; lia).
  destruct o as [k|c objs ov|c objs r e|x p|c objs|k c objs|a b0|objs ov|x]; simpl in Ho;
    try (exists 0; apply step_frame; assumption).
  - exists 1. destruct k; try (simpl; apply FRg_new; assumption).
    change (fst (step repaired s (NewObj KColl))) with (fst (ctor repaired s [] false)).
    apply FRg_ctor; auto. intros o [].
  - simpl. destruct Ho as [Ha Hb]. destruct (live s a).
    + exists 1. apply FRg_ctor; auto. intros o [<-|[<-|[]]]; auto.
    + exists 0. apply FR_refl. exact HC.
  - simpl. exists 1. apply FRg_ctor; auto.
  - simpl. destruct (live s x) eqn:Lx.
    + exists (length s). simpl. apply FRg_copy; auto.
    + exists 0. apply FR_refl. exact HC.
Qed.

(* the derived views of an untouched object *)
Lemma flat_agree s s' want want' : Closed s ->
  (forall i, side i <> b -> get s' i = get s i) ->
  (forall i, side i <> b -> want' i = want i) ->
  forall f l, (forall y, In y l -> side y <> b) -> flat f s' want' l = flat f s want l.
Proof.
  intros HC Hg Hw. induction f as [|f IH]; intros l Hl; simpl.
  - apply filter_ext_in. intros y Hy. apply Hw. auto.
  - apply flat_map_ext_in'. intros o Ho. pose proof (Hl o Ho) as So.
    rewrite (Hw o So). f_equal. unfold is_coll, is_k, kd. rewrite (Hg o So).
    destruct (kind_eqb (kind_of (get s o)) KColl); auto.
    apply IH. intros y Hy. destruct HC as [C1 _]. rewrite (C1 o y Hy). exact So.
Qed.

End Frame.
