(* C06: the inventory of batch-level constructs translated from /repo on this run
   (Gen/GenBatch.v) is exactly the reviewed one below, where every entry carries its verdict; and
   the structurally translated loop / switch parameters satisfy the row-independence theorems of
   BatchProofs.v (or refute them). *)
From Coq Require Import List String Arith Bool ZArith Lia.
From MV Require Import Lib.ListIdx Gen.GenBatch Model.BatchModel Proofs.BatchProofs.
Import ListNotations.
Open Scope string_scope.

Inductive verdict :=
  | Modelled (theorem : string)      (* list-level model, `batch = map single` proved *)
  | PartialModel (theorem : string)  (* list-level model, proved up to the stated restriction *)
  | Finding (signature : string)     (* batch dependent: open known finding with this signature (none at present) *)
  | NumericBattery (battery : string) (* not modelled: dedicated batched-vs-single battery of harness/numeric_battery.py on exactly this function *)
  | NumericOnly                      (* not modelled: covered by the vectorised-vs-single search only *)
  | NotFieldPath.                    (* mesh validation helpers, not reached from getB/getH/getJ/getM *)

Definition expected_inventory : list (string * string * string * string * verdict) := [
  (("field_BH_circle.py", "BHJM_circle", "agg if -> rebind+store", "np.any(mask3)"), Modelled "guarded_masked_eval_rowwise");
  (("field_BH_circle.py", "BHJM_circle", "agg if -> store", "np.any(mask5)"), Modelled "guarded_masked_eval_rowwise");
  (("field_BH_cylinder.py", "magnet_cylinder_diametral_Hfield", "agg if -> rebind+store", "np.any(mask_small_r)"), NumericBattery "magnet_cylinder_diametral_Hfield");
  (("field_BH_cylinder.py", "magnet_cylinder_diametral_Hfield", "agg if -> rebind+store", "np.any(mask_general)"), NumericBattery "magnet_cylinder_diametral_Hfield");
  (("field_BH_cylinder.py", "BHJM_magnet_cylinder", "agg if -> rebind+store", "any(mask_pol_tv)"), Modelled "guarded_masked_eval_rowwise");
  (("field_BH_cylinder.py", "BHJM_magnet_cylinder", "agg if -> store", "any(mask_pol_ax)"), Modelled "guarded_masked_eval_rowwise");
  (("field_BH_cylinder.py", "BHJM_magnet_cylinder", "agg if -> store", "any(mask_tv_inside)"), Modelled "guarded_masked_eval_rowwise");
  (("field_BH_cylinder.py", "BHJM_magnet_cylinder", "agg if -> store", "any(mask_ax_inside)"), Modelled "guarded_masked_eval_rowwise");
  (("field_BH_cylinder_segment.py", "magnet_cylinder_segment_Hfield", "agg if -> store", "any(mask)"), Modelled "guarded_masked_eval_rowwise");
  (("field_BH_cylinder_segment.py", "BHJM_cylinder_segment", "agg if-not -> return", "np.any(mask_not_on_surf)"), Modelled "cylseg_JM_gen_rowwise");
  (("field_BH_dipole.py", "dipole_Hfield", "agg if -> call+store", "np.any(mask1)"), Modelled "guarded_masked_eval_rowwise");
  (("field_BH_polyline.py", "current_vertices_field", "agg if -> rebind", "all((v == nvs[0] for v in nvs))"), Modelled "vertex_sets_rowwise");
  (("field_BH_polyline.py", "current_polyline_Hfield", "agg if -> rebind", "np.any(mask1)"), Modelled "guarded_compress_neutral");
  (("field_BH_polyline.py", "current_polyline_Hfield", "agg if -> rebind+return+store", "np.any(mask1)"), Modelled "guarded_masked_eval_rowwise");
  (("field_BH_polyline.py", "BHJM_current_polyline", "agg if -> return", "np.all(mask0)"), Modelled "all_masked_exit_rowwise");
  (("field_BH_polyline.py", "BHJM_current_polyline", "agg if -> rebind", "np.any(mask0)"), Modelled "guarded_compress_neutral");
  (("field_BH_tetrahedron.py", "check_chirality", "agg if -> store", "np.any(dets_neg)"), Modelled "guarded_masked_eval_rowwise");
  (("field_BH_triangularmesh.py", "get_disconnected_faces_subsets", "size-test while -> call+loop+rebind", "len(tria_temp) > 0"), NotFieldPath);
  (("field_BH_triangularmesh.py", "get_disconnected_faces_subsets", "size-test while -> call+loop+rebind", "len(first) > lf"), NotFieldPath);
  (("field_BH_triangularmesh.py", "get_disconnected_faces_subsets", "size-test if -> call+rebind", "len(first.intersection(set(r))) > 0"), NotFieldPath);
  (("field_BH_triangularmesh.py", "lines_end_in_trimesh", "agg if -> rebind+store", "np.any(coincide)"), NumericBattery "lines_end_in_trimesh");
  (("field_BH_triangularmesh.py", "BHJM_magnet_trimesh", "size-test if -> rebind", "mesh.ndim != 1"), Modelled "vertex_sets_rowwise");
  (("field_BH_triangularmesh.py", "BHJM_magnet_trimesh", "for-range-size neighbour-compare", "range(1, len(BHJM) + 1)"), Modelled "trimesh_groups_rowwise");
  (("field_BH_triangularmesh.py", "BHJM_magnet_trimesh", "size-test if -> rebind+store", "new_ind == len(BHJM) or mesh[new_ind].shape != mesh[prev_ind].shape or (not np.all(mesh[new_ind] == mesh[prev_ind]))"), Modelled "trimesh_groups_rowwise");
  (("field_BH_triangularmesh.py", "BHJM_magnet_trimesh", "agg if-not -> rebind+store", "np.all(mesh[new_ind] == mesh[prev_ind])"), Modelled "trimesh_groups_rowwise");
  (("special_cel.py", "celv", "agg while -> rebind+store", "np.any(mask)"), Modelled "masked_loop_rowwise");
  (("special_cel.py", "cel", "size-test if -> return", "n_input < 10"), PartialModel "cel_switch_partial");
  (("special_cel.py", "cel_iter", "size-test if -> loop+rebind+store", "n_input < 15"), Modelled "cel_iter_no_size_dependence");
  (("special_cel.py", "cel_iter", "for-range-size", "range(n_input)"), Modelled "cel_iter_no_size_dependence");
  (("special_cel.py", "cel_iterv", "agg while -> rebind", "np.any(np.fabs(g - qc) >= qc * 1e-08)"), PartialModel "unmasked_loop_partial");
  (("special_el3.py", "el3v", "agg if -> loop+rebind+store", "any(mask2)"), NumericBattery "el3, el3_angle");
  (("special_el3.py", "el3v", "agg if -> raise", "np.any(w == 0)"), NumericBattery "el3, el3_angle");
  (("special_el3.py", "el3v", "agg if -> store", "np.any(mask6)"), Modelled "guarded_masked_eval_rowwise");
  (("special_el3.py", "el3v", "agg if -> store", "np.any(mask6x)"), Modelled "guarded_masked_eval_rowwise");
  (("special_el3.py", "el3v", "agg if -> rebind+store", "np.any(bo)"), NumericBattery "el3, el3_angle");
  (("special_el3.py", "el3v", "agg if -> rebind+store", "np.any(mask7)"), NumericBattery "el3, el3_angle");
  (("special_el3.py", "el3v", "agg if -> rebind+store", "np.any(box)"), NumericBattery "el3, el3_angle");
  (("special_el3.py", "el3v", "agg if -> store", "np.any(mask8)"), Modelled "guarded_masked_eval_rowwise");
  (("special_el3.py", "el3v", "agg if -> store", "np.any(mask8x)"), Modelled "guarded_masked_eval_rowwise");
  (("special_el3.py", "el3v", "agg if -> store", "np.any(mask9)"), Modelled "guarded_masked_eval_rowwise");
  (("special_el3.py", "el3v", "agg while -> rebind+store", "np.any(mask10)"), NumericBattery "el3, el3_angle");
  (("special_el3.py", "el3v", "agg if -> rebind+store", "np.any(bo10)"), NumericBattery "el3, el3_angle");
  (("special_el3.py", "el3v", "agg if -> rebind+store", "np.any(bo10x)"), NumericBattery "el3, el3_angle");
  (("special_el3.py", "el3v", "agg if -> store", "np.any(bo10x_bk)"), Modelled "guarded_masked_eval_rowwise");
  (("special_el3.py", "el3v", "agg if -> rebind+store", "np.any(bo10x_bkx)"), NumericBattery "el3, el3_angle");
  (("special_el3.py", "el3v", "agg if -> rebind+store", "np.any(mask11)"), NumericBattery "el3, el3_angle");
  (("special_el3.py", "el3v", "agg if -> rebind+store", "np.any(bo11)"), NumericBattery "el3, el3_angle");
  (("special_el3.py", "el3v", "agg if -> store", "np.any(bo11x)"), Modelled "guarded_masked_eval_rowwise");
  (("special_el3.py", "el3v", "agg if -> rebind+store", "np.any(bo)"), NumericBattery "el3, el3_angle");
  (("special_el3.py", "el3v", "agg if -> rebind+store", "np.any(box)"), NumericBattery "el3, el3_angle");
  (("special_el3.py", "el3", "size-test if -> return", "n_input < 10"), NumericBattery "el3");
  (("special_el3.py", "el3_angle", "agg if -> store", "np.any(mask1)"), Modelled "guarded_masked_eval_rowwise");
  (("special_el3.py", "el3_angle", "agg if -> store", "np.any(mask2)"), Modelled "guarded_masked_eval_rowwise");
  (("special_el3.py", "el3_angle", "agg if -> rebind+store", "np.any(mask3)"), NumericBattery "el3_angle");
  (("special_el3.py", "el3_angle", "agg if -> store", "np.any(mask3a)"), Modelled "guarded_masked_eval_rowwise");
  (("special_el3.py", "el3_angle", "agg if -> store", "np.any(mask3b)"), Modelled "guarded_masked_eval_rowwise");
  (("special_el3.py", "el3_angle", "agg if -> rebind+store", "np.any(mask3c)"), NumericBattery "el3_angle");
  (("special_el3.py", "el3_angle", "agg if -> rebind+store", "np.any(mask3x)"), NumericBattery "el3_angle");
  (("special_el3.py", "el3_angle", "agg if -> rebind+store", "np.any(mask3xa)"), NumericBattery "el3_angle");
  (("special_el3.py", "el3_angle", "agg if -> rebind+store", "np.any(mask3xb)"), NumericBattery "el3_angle");
  (("special_el3.py", "el3_angle", "agg if -> store", "np.any(mask3xc)"), Modelled "guarded_masked_eval_rowwise");
  (("field_wrap_BH.py", "tile_group_property", "size-test if -> rebind", "not np.isscalar(out[0]) and any((o.shape != out[0].shape for o in out))"), Modelled "vertex_sets_rowwise");
  (("field_wrap_BH.py", "tile_group_property", "agg if -> rebind", "any((o.shape != out[0].shape for o in out))"), Modelled "vertex_sets_rowwise");
  (("field_wrap_BH.py", "_getBH_level2", "agg if-not -> call", "any((isinstance(src, (Tetrahedron, TriangularMesh)) for src in src_list))"), Modelled "getBH_is_spec");
  (("field_wrap_BH.py", "_getBH_level2", "agg comprehension -> none", "all((all(r == unitQ) for r in sens._orientation.as_quat()))"), Modelled "getBH_is_spec");
  (("field_wrap_BH.py", "_getBH_level2", "agg comprehension -> none", "all(r == unitQ)"), Modelled "getBH_is_spec");
  (("field_wrap_BH.py", "_getBH_level2", "size-test if -> loop+rebind", "max_path_len > 1"), Modelled "getBH_is_spec");
  (("field_wrap_BH.py", "_getBH_level2", "for-range-size", "range(lg)"), Modelled "getBH_is_spec");
  (("field_wrap_BH.py", "_getBH_level2", "size-test if -> loop+rebind+store", "num_of_src_list > num_of_sources"), Modelled "getBH_is_spec");
  (("field_wrap_BH.py", "_getBH_level2", "size-test if -> rebind", "sumup and len(sources) > 1"), Modelled "getBH_is_spec")].

(* a construct added to, removed from, or changed in the field modules breaks this proof *)
Theorem batch_inventory : inventory = map fst expected_inventory.
Proof. reflexivity. Qed.

Definition is_finding (v : verdict) : bool := match v with Finding _ => true | _ => false end.
Definition is_unmodelled (v : verdict) : bool := match v with NumericOnly => true | _ => false end.
Definition is_battery (v : verdict) : bool := match v with NumericBattery _ => true | _ => false end.

Theorem inventory_census :
  List.length expected_inventory = 70%nat /\
  List.length (filter (fun e => is_finding (snd e)) expected_inventory) = 0%nat /\
  List.length (filter (fun e => is_unmodelled (snd e)) expected_inventory) = 0%nat /\
  List.length (filter (fun e => is_battery (snd e)) expected_inventory) = 22%nat.
Proof. repeat split; reflexivity. Qed.

(* ---- the translated TriangularMesh loop bounds give every row its own mesh *)
Theorem trimesh_groups_rowwise_gen {M} (meq : M -> M -> bool) (d : M) :
  (forall a b, meq a b = true -> a = b) ->
  forall ms, tm_used meq d trimesh_lo trimesh_hi_off trimesh_last_off ms = ms.
Proof. intros Hs ms. exact (trimesh_groups_rowwise meq d Hs ms). Qed.

(* ---- cel: translated switch; equal to the scalar routine on rows not converged at entry *)
Theorem cel_switch_gen_partial {S} (conv : S -> bool) (step : S -> S) fuel (ss : list S) :
  (forall s, In s ss -> conv s = false) ->
  cel_switch conv step cel_threshold cel_small_returns fuel ss = map (while_loop conv step fuel) ss.
Proof. apply cel_switch_partial. Qed.

(* ---- cel_iter: the translated small-n branch does not return, so n never selects the result *)
Theorem cel_iter_gen_no_size_dependence {S} (conv : S -> bool) (step : S -> S) fuel (ss : list S) :
  cel_iter_switch conv step cel_iter_threshold cel_iter_small_returns fuel ss
  = unmasked_loop conv step fuel ss.
Proof. exact (cel_iter_no_size_dependence conv step cel_iter_threshold fuel ss). Qed.

(* ---- CylinderSegment: J and M are row-wise exactly when the translated flags say so; with the
   exit before the branch and the branch keeping the polarization on the surface, J and M of an
   on-surface row depend on whether another row of the batch is off the surface *)
Definition jm_rowwise_flag (exit_before zero_surf : bool) : bool := negb exit_before || zero_surf.

Lemma flag_true eb zs : jm_rowwise_flag eb zs = true -> eb = false \/ zs = true.
Proof. destruct eb, zs; cbn; auto. Qed.

Theorem cylseg_JM_gen_rowwise {W} (wzero : W) wadd mul_mu0 div_mu0 f (rows : list csrow) :
  div_mu0 wzero = wzero ->
  (f = FJ /\ jm_rowwise_flag cylseg_exit_before_J cylseg_J_zero_on_surface = true) \/
  (f = FM /\ jm_rowwise_flag cylseg_exit_before_M cylseg_M_zero_on_surface = true) ->
  let cs := cylseg wzero wadd mul_mu0 div_mu0 cylseg_exit_before_J cylseg_exit_before_M
                   cylseg_J_zero_on_surface cylseg_M_zero_on_surface in
  cs f rows = flat_map (fun r => cs f [r]) rows.
Proof.
  intros Hd H. cbv zeta. apply cylseg_JM_rowwise_if; [exact Hd|].
  destruct H as [[-> H] | [-> H]]; [left|right]; (split; [reflexivity|apply flag_true, H]).
Qed.

Open Scope Z_scope.
Definition zcyl (e1 e2 z1 z2 : bool) := cylseg (W := Z) 0 Z.add (fun w => 2 * w) (fun w => w / 2) e1 e2 z1 z2.
Definition surf_row := mkCS (W := Z) false true 6 0.     (* on the surface, counted inside, J = 6 *)
Definition far_row := mkCS (W := Z) true false 6 1.

Theorem cylseg_J_refuted_if e1 e2 z1 z2 : jm_rowwise_flag e1 z1 = false ->
  zcyl e1 e2 z1 z2 FJ [surf_row; far_row] <> flat_map (fun r => zcyl e1 e2 z1 z2 FJ [r]) [surf_row; far_row].
Proof. destruct e1, z1; cbn; intros H; try discriminate H. destruct e2, z2; vm_compute; discriminate. Qed.

Theorem cylseg_M_refuted_if e1 e2 z1 z2 : jm_rowwise_flag e2 z2 = false ->
  zcyl e1 e2 z1 z2 FM [surf_row; far_row] <> flat_map (fun r => zcyl e1 e2 z1 z2 FM [r]) [surf_row; far_row].
Proof. destruct e2, z2; cbn; intros H; try discriminate H. destruct e1, z1; vm_compute; discriminate. Qed.

(* as translated on this run *)
Definition zcyl_gen := zcyl cylseg_exit_before_J cylseg_exit_before_M cylseg_J_zero_on_surface cylseg_M_zero_on_surface.
Theorem cylseg_J_gen_refuted :
  jm_rowwise_flag cylseg_exit_before_J cylseg_J_zero_on_surface = false ->
  zcyl_gen FJ [surf_row; far_row] <> flat_map (fun r => zcyl_gen FJ [r]) [surf_row; far_row].
Proof. apply cylseg_J_refuted_if. Qed.
Theorem cylseg_M_gen_refuted :
  jm_rowwise_flag cylseg_exit_before_M cylseg_M_zero_on_surface = false ->
  zcyl_gen FM [surf_row; far_row] <> flat_map (fun r => zcyl_gen FM [r]) [surf_row; far_row].
Proof. apply cylseg_M_refuted_if. Qed.
