(* C20 -- proofs about the style model *)
From Coq Require Import ZArith List Bool String Ascii Lia.
From MV Require Import Lib.STree Model.StyleModel Gen.GenStyle Model.StyleExec.
Import ListNotations.
Open Scope string_scope.
Open Scope list_scope.

Lemma defaults_build_ok : snd defaults0 = None.
Proof. vm_compute. reflexivity. Qed.
