(* C05 -- superposition at level 2: flattening of nested collections (DFS, sensors dropped),
   the collection slice-sum loop, "a collection is one entry holding the sum over its leaves",
   sumup = sum over the entries = one collection of all leaves.  Any rigid-motion algebra, any
   field functions. *)
From Coq Require Import List Arith Bool Lia.
From MV Require Import Lib.Rigid Lib.ListIdx Model.Level2Model Model.Level2Flat
  Proofs.Level2A Proofs.Level2B Proofs.Level2C Proofs.Level2D Proofs.Level2E.
Import ListNotations.

(* ================================================================== flattening *)
Section Flatten.
Context {O : RigidOps}.
Variable P : Type.
Notation leaf := (@leaf O P).
Notation srcin := (@srcin O P).
Notation node := (@node O P).
Notation item := (@item O P).

Lemma node_ind' (Q : node -> Prop) :
  (forall x, Q (NSrc x)) -> (forall s, Q (NSens s)) ->
  (forall cs, Forall Q cs -> Q (NColl cs)) -> forall n, Q n.
Proof.
  intros Hs Hn Hc. fix IH 1. intros [x|s|cs]; [apply Hs|apply Hn|]. apply Hc.
  induction cs as [|c cs IHcs]; constructor; [apply IH|exact IHcs].
Qed.

Lemma item_sources_app (a b : list item) : item_sources P (a ++ b) = item_sources P a ++ item_sources P b.
Proof. unfold item_sources. apply flat_map_app. Qed.

Lemma item_sources_filter (l : list item) :
  item_sources P (filter (allowed P true false) l) = item_sources P l.
Proof.
  induction l as [|[x|s] l IH]; [reflexivity| |]; cbn [filter allowed].
  - change (item_sources P (ISrc P x :: ?l)) with (x :: item_sources P l). rewrite IH. reflexivity.
  - exact IH.
Qed.

(* after filtering with allow="sources" only sources are left, so `len(...)` counts sources *)
Lemma length_filter_sources (l : list item) :
  length (filter (allowed P true false) l) = length (item_sources P l).
Proof.
  induction l as [|[x|s] l IH]; [reflexivity| |]; cbn [filter allowed].
  - change (item_sources P (ISrc P x :: l)) with (x :: item_sources P l). cbn [length]. rewrite IH. reflexivity.
  - exact IH.
Qed.

Lemma fmt_obj_dfs (n : node) : item_sources P (fmt_obj P true false n) = dfs P n.
Proof.
  induction n as [x|s|cs IH] using node_ind'; [reflexivity|reflexivity|].
  cbn [fmt_obj dfs]. rewrite item_sources_filter.
  induction cs as [|c cs IHcs]; [reflexivity|].
  cbn [flat_map]. rewrite item_sources_app. inversion IH as [|? ? H1 H2]; subst.
  rewrite H1, (IHcs H2). reflexivity.
Qed.

(* format_obj_input(collection, allow="sources") lists the collection's sources depth first,
   left to right, sensors dropped *)
Theorem child_sources_dfs (n : node) : child_sources P n = dfs P n.
Proof.
  unfold child_sources, format_obj_input. cbn [flat_map]. rewrite app_nil_r.
  rewrite item_sources_filter. apply fmt_obj_dfs.
Qed.

(* col_len = len(format_obj_input(src, allow="sources")) is the number of leaves *)
Theorem col_len_is_leaf_count (n : node) :
  length (format_obj_input P true false [n]) = length (dfs P n).
Proof.
  rewrite <- child_sources_dfs. unfold child_sources, format_obj_input.
  rewrite length_filter_sources, item_sources_filter. reflexivity.
Qed.

Definition accepted_node (n : node) : Prop :=
  match n with NSrc _ => True | NSens _ => False | NColl cs => dfs P (NColl cs) <> [] end.

Lemma format_src_loop_spec (nodes : list node) :
  match format_src_loop P nodes with
  | Some sl => sl = flat_map (dfs P) nodes /\ sl = src_list (map (to_srcin P) nodes) /\
               Forall accepted_node nodes
  | None => ~ Forall accepted_node nodes
  end.
Proof.
  induction nodes as [|n nodes IH]; [cbn; repeat split; constructor|].
  destruct n as [x|s|cs]; cbn [format_src_loop].
  - destruct (format_src_loop P nodes) as [sl|].
    + destruct IH as (E1 & E2 & Hf). cbn [flat_map map src_list dfs to_srcin leaves app].
      fold (src_list (map (to_srcin P) nodes)). rewrite <- E1. repeat split; [rewrite <- E2; reflexivity|].
      constructor; [exact I|exact Hf].
    + intros H. inversion H; subst. contradiction.
  - intros H. inversion H as [|? ? H1 H2]; subst. exact H1.
  - pose proof (child_sources_dfs (NColl cs)) as Ech.
    destruct (child_sources P (NColl cs)) as [|c0 ch] eqn:E.
    + intros H. inversion H as [|? ? H1 H2]; subst. apply H1. symmetry. exact Ech.
    + destruct (format_src_loop P nodes) as [sl|].
      * destruct IH as (E1 & E2 & Hf). cbn [flat_map map src_list to_srcin leaves].
        fold (src_list (map (to_srcin P) nodes)). rewrite E. rewrite <- E1, <- Ech.
        repeat split; [rewrite <- E2; reflexivity|].
        constructor; [|exact Hf]. cbn [accepted_node]. rewrite <- Ech. discriminate.
      * intros H. inversion H; subst. contradiction.
Qed.

(* format_src_inputs: accepted exactly when the list is non-empty and every entry is a source or a
   collection holding at least one source; then `sources` is the input list, and `src_list` is the
   DFS leaf list, which is what the model's data flow derives from the entries *)
Theorem format_src_inputs_spec (nodes : list node) :
  match format_src_inputs P nodes with
  | Some (srcs, sl) =>
      srcs = nodes /\ nodes <> [] /\ sl = flat_map (dfs P) nodes /\
      sl = src_list (map (to_srcin P) nodes) /\
      (forall n, In n nodes -> accepted_node n /\ leaves (to_srcin P n) = dfs P n /\ dfs P n <> [])
  | None => nodes = [] \/ ~ Forall accepted_node nodes
  end.
Proof.
  unfold format_src_inputs. destruct nodes as [|n0 nodes']; [left; reflexivity|].
  set (nodes := n0 :: nodes'). pose proof (format_src_loop_spec nodes) as H.
  destruct (format_src_loop P nodes) as [sl|]; [|right; exact H].
  destruct H as (E1 & E2 & Hf). repeat split; try assumption; try discriminate.
  - rewrite Forall_forall in Hf. apply Hf. assumption.
  - destruct n as [x|s|cs]; [reflexivity| |apply child_sources_dfs].
    rewrite Forall_forall in Hf. destruct (Hf _ H).
  - rewrite Forall_forall in Hf. specialize (Hf n H). destruct n as [x|s|cs]; [discriminate|destruct Hf|exact Hf].
Qed.

End Flatten.

(* ================================================================== sums *)
Section Sums.
Context {O : RigidOps} {L : RigidLaws O}.

Lemma fold_vadd_init (l : list V) v : fold_left vadd l v = vadd v (vsum l).
Proof.
  revert v. induction l as [|w l IH]; intros v; [symmetry; apply vadd_0_r|].
  cbn [fold_left vsum]. rewrite IH, (IH w). symmetry. apply vadd_assoc.
Qed.

Lemma vsum_cons v (l : list V) : vsum (v :: l) = vadd v (vsum l).
Proof. cbn [vsum]. apply fold_vadd_init. Qed.

Lemma vsum_app (a b : list V) : vsum (a ++ b) = vadd (vsum a) (vsum b).
Proof.
  induction a as [|v a IH]; [symmetry; apply vadd_0_l|].
  cbn [app]. rewrite !vsum_cons, IH. apply vadd_assoc.
Qed.

Lemma vsum_flat_map {X} (f : X -> list V) (l : list X) :
  vsum (flat_map f l) = vsum (map (fun x => vsum (f x)) l).
Proof.
  induction l as [|x l IH]; [reflexivity|]. cbn [flat_map map]. rewrite vsum_app, vsum_cons, IH. reflexivity.
Qed.

Lemma fold_vadd_hom (h : V -> V) : (forall a b, h (vadd a b) = vadd (h a) (h b)) ->
  forall l v, h (fold_left vadd l v) = fold_left vadd (map h l) (h v).
Proof.
  intros Hh. induction l as [|w l IH]; intros v; [reflexivity|].
  cbn [fold_left map]. rewrite IH, Hh. reflexivity.
Qed.

Lemma hom_zero (h : V -> V) : (forall a b, h (vadd a b) = vadd (h a) (h b)) -> h vzero = vzero.
Proof.
  intros Hh. apply (vadd_cancel_l (h vzero)). rewrite <- Hh, vadd_0_l, vadd_0_r. reflexivity.
Qed.

Lemma vsum_hom (h : V -> V) : (forall a b, h (vadd a b) = vadd (h a) (h b)) ->
  forall l, h (vsum l) = vsum (map h l).
Proof.
  intros Hh [|v l]; [apply hom_zero, Hh|]. cbn [vsum map]. apply fold_vadd_hom, Hh.
Qed.

(* sum of equally shaped rows *)
Definition vlist_sum (ls : list (list V)) : list V :=
  match ls with [] => [] | b :: r => fold_left (zip_with vadd) r b end.

Lemma fold_zip_map {X Y} (f : X -> Y -> V) (px : list Y) (r : list X) : forall (a0 : Y -> V),
  fold_left (zip_with vadd) (map (fun x => map (f x) px) r) (map a0 px)
  = map (fun p => fold_left vadd (map (fun x => f x p) r) (a0 p)) px.
Proof.
  induction r as [|x r IH]; intros a0; [reflexivity|].
  cbn [map fold_left]. rewrite zip_with_map. apply (IH (fun p => vadd (a0 p) (f x p))).
Qed.

Lemma vlist_sum_map {X Y} (f : X -> Y -> V) (px : list Y) (l : list X) : l <> [] ->
  vlist_sum (map (fun x => map (f x) px) l) = map (fun p => vsum (map (fun x => f x p) l)) px.
Proof.
  destruct l as [|x r]; [congruence|]. intros _. cbn [map vlist_sum vsum]. apply fold_zip_map.
Qed.

Lemma vlist_sum_single {X} (c : X -> V) (l : list X) : l <> [] ->
  vlist_sum (map (fun x => [c x]) l) = [vsum (map c l)].
Proof.
  destruct l as [|x r]; [congruence|]. intros _. cbn [map vlist_sum vsum].
  generalize (c x). induction r as [|y r IH]; intros v; [reflexivity|].
  cbn [map fold_left zip_with]. apply IH.
Qed.

Lemma fold_out_add {X S} (c : X -> nat -> S -> list V) (Ms : list nat) (Ss : list S) (r : list X) :
  forall (acc : nat -> S -> list V),
  fold_left out_add (map (fun x => map (fun m => map (fun s => c x m s) Ss) Ms) r)
            (map (fun m => map (fun s => acc m s) Ss) Ms)
  = map (fun m => map (fun s => fold_left (zip_with vadd) (map (fun x => c x m s) r) (acc m s)) Ss) Ms.
Proof.
  induction r as [|x r IH]; intros acc; [reflexivity|].
  cbn [map fold_left].
  replace (out_add (map (fun m => map (fun s => acc m s) Ss) Ms) (map (fun m => map (fun s => c x m s) Ss) Ms))
    with (map (fun m => map (fun s => zip_with vadd (acc m s) (c x m s)) Ss) Ms).
  - apply (IH (fun m s => zip_with vadd (acc m s) (c x m s))).
  - unfold out_add. rewrite zip_with_map. apply map_ext. intros m. rewrite zip_with_map. reflexivity.
Qed.

End Sums.

(* ================================================================== superposition *)
Section Super.
Context {O : RigidOps} {L : RigidLaws O}.
Variable P : Type.
Variable F : nat -> P -> V -> V.
Variable g_eqb : G -> G -> bool.
Variable flipx : V -> V.
Notation leaf := (@leaf O P).
Notation srcin := (@srcin O P).

Lemma nth_map_lt {A B} (f : A -> B) (d : A) (d' : B) (l : list A) i : i < length l ->
  nth i (map f l) d' = f (nth i l d).
Proof. intros H. rewrite (nth_indep _ d' (f d)) by (rewrite map_length; exact H). apply map_nth. Qed.

(* one (source entry, path index, sensor) cell of the output *)
Definition cell (agg : option (list V -> V)) (src : srcin) (m : nat) (s : sensor) : list V :=
  let px := map (spec_elem P F flipx src m s) (s_pix s) in
  match agg with None => px | Some a => [a px] end.

Lemma spec_cells (srcs : list srcin) (sens : list sensor) agg :
  spec P F flipx srcs sens agg
  = map (fun src => map (fun m => map (fun s => cell agg src m s) sens)
                        (seq 0 (max_path_len P (src_list srcs) sens))) srcs.
Proof. reflexivity. Qed.

(* the output has one entry per element of `sources`: a collection is ONE entry *)
Theorem spec_one_entry_per_source (srcs : list srcin) (sens : list sensor) agg :
  length (spec P F flipx srcs sens agg) = length srcs.
Proof. unfold spec. apply map_length. Qed.

(* ... and that entry is the sensor's view of the SUM over exactly the leaves of the collection *)
Theorem spec_entry (srcs : list srcin) (sens : list sensor) l m k pix d0 d1 d2 d3 dsrc dsens :
  l < length srcs -> m < max_path_len P (src_list srcs) sens -> k < length sens ->
  pix < length (s_pix (nth k sens dsens)) ->
  nth pix (nth k (nth m (nth l (spec P F flipx srcs sens None) d0) d1) d2) d3
  = sensor_view flipx (nth k sens dsens) m
      (vsum (map (fun x => leaf_field P F x m (pixel_point (nth k sens dsens) m (nth pix (s_pix (nth k sens dsens)) vzero)))
                 (leaves (nth l srcs dsrc)))).
Proof.
  intros Hl Hm Hk Hp. rewrite spec_cells.
  rewrite (nth_map_lt _ dsrc) by exact Hl.
  rewrite (nth_map_lt _ 0) by (rewrite seq_length; exact Hm).
  rewrite seq_nth by exact Hm. cbn [Nat.add].
  rewrite (nth_map_lt _ dsens) by exact Hk.
  unfold cell. rewrite (nth_map_lt _ vzero) by exact Hp. reflexivity.
Qed.

(* ---- sumup *)
Definition sumup_cells (srcs : list srcin) (sens : list sensor) agg : out_t :=
  [map (fun m => map (fun s => vlist_sum (map (fun src => cell agg src m s) srcs)) sens)
       (seq 0 (max_path_len P (src_list srcs) sens))].

Theorem sum_out_spec (srcs : list srcin) (sens : list sensor) agg : srcs <> [] ->
  sum_out (spec P F flipx srcs sens agg) = sumup_cells srcs sens agg.
Proof.
  intros Hne. rewrite spec_cells. unfold sumup_cells.
  set (M := max_path_len P (src_list srcs) sens). clearbody M.
  destruct srcs as [|s0 r]; [congruence|]. cbn [map sum_out vlist_sum]. f_equal.
  apply (fold_out_add (fun x m s => cell agg x m s) (seq 0 M) sens r (fun m s => cell agg s0 m s)).
Qed.

(* without pixel aggregation every vector of the sumup output is the sum over the entries *)
Theorem sumup_cells_none (srcs : list srcin) (sens : list sensor) : srcs <> [] ->
  sumup_cells srcs sens None
  = [map (fun m => map (fun s => map (fun pix => vsum (map (fun src => spec_elem P F flipx src m s pix) srcs))
                                     (s_pix s)) sens)
         (seq 0 (max_path_len P (src_list srcs) sens))].
Proof.
  intros Hne. unfold sumup_cells, cell. f_equal. apply map_ext. intros m. apply map_ext. intros s.
  apply (vlist_sum_map (fun src pix => spec_elem P F flipx src m s pix)). exact Hne.
Qed.

Theorem sumup_cells_agg (srcs : list srcin) (sens : list sensor) a : srcs <> [] ->
  sumup_cells srcs sens (Some a)
  = [map (fun m => map (fun s => [vsum (map (fun src => a (map (spec_elem P F flipx src m s) (s_pix s))) srcs)]) sens)
         (seq 0 (max_path_len P (src_list srcs) sens))].
Proof.
  intros Hne. unfold sumup_cells, cell. f_equal. apply map_ext. intros m. apply map_ext. intros s.
  apply (vlist_sum_single (fun src => a (map (spec_elem P F flipx src m s) (s_pix s)))). exact Hne.
Qed.

(* ---- a collection equals the sum of its leaves evaluated as separate sources *)
Hypothesis flipx_add : forall a b, flipx (vadd a b) = vadd (flipx a) (flipx b).

Lemma sensor_view_add (s : sensor) m a b :
  sensor_view flipx s m (vadd a b) = vadd (sensor_view flipx s m a) (sensor_view flipx s m b).
Proof. unfold sensor_view. rewrite act_add. destruct (s_left s); [apply flipx_add|reflexivity]. Qed.

Lemma src_list_map_Bare (ls : list leaf) : src_list (map Bare ls) = ls.
Proof. induction ls as [|x ls IH]; [reflexivity|]. cbn [map src_list flat_map leaves app]. f_equal. exact IH. Qed.

Lemma spec_elem_sum (srcs : list srcin) m (s : sensor) pix :
  vsum (map (fun src => spec_elem P F flipx src m s pix) srcs)
  = spec_elem P F flipx (Coll (src_list srcs)) m s pix.
Proof.
  unfold spec_elem. cbn [leaves]. unfold src_list. rewrite map_flat_map.
  rewrite vsum_flat_map, (vsum_hom (sensor_view flipx s m)) by (apply sensor_view_add).
  rewrite !map_map. reflexivity.
Qed.

(* sumup over ANY list of entries = ONE collection holding all their leaves (so the grouping of
   the leaves into bare sources and (nested) collections does not matter for the sum) *)
Theorem sumup_is_one_collection (srcs : list srcin) (sens : list sensor) : srcs <> [] ->
  sum_out (spec P F flipx srcs sens None) = spec P F flipx [Coll (src_list srcs)] sens None.
Proof.
  intros Hne. rewrite sum_out_spec, sumup_cells_none by exact Hne.
  unfold spec. cbn [map src_list flat_map leaves]. rewrite app_nil_r. f_equal.
  apply map_ext. intros m. apply map_ext. intros s. apply map_ext. intros pix. apply spec_elem_sum.
Qed.

Corollary collection_is_sum_of_leaves (ls : list leaf) (sens : list sensor) : ls <> [] ->
  spec P F flipx [Coll ls] sens None = sum_out (spec P F flipx (map Bare ls) sens None).
Proof.
  intros Hne. rewrite sumup_is_one_collection by (destruct ls; [congruence|discriminate]).
  rewrite src_list_map_Bare. reflexivity.
Qed.

(* ---- the same for the vectorised computation *)
Hypothesis g_eqb_sound : forall a b, g_eqb a b = true -> a = b.

Lemma getBH_sumup' (srcs : list srcin) (sens : list sensor) agg :
  getBH P F g_eqb flipx srcs sens agg true = sum_out (getBH P F g_eqb flipx srcs sens agg false).
Proof. reflexivity. Qed.

Theorem sumup_spec (srcs : list srcin) (sens : list sensor) agg :
  srcs <> [] -> Forall (wf_src P) srcs -> Forall wf_sensor sens -> wf_shapes sens agg ->
  getBH P F g_eqb flipx srcs sens agg true = sumup_cells srcs sens agg.
Proof.
  intros Hne H1 H2 H3. rewrite getBH_sumup', (getBH_is_spec P F g_eqb flipx g_eqb_sound) by assumption.
  apply sum_out_spec, Hne.
Qed.

Theorem collection_is_one_entry (srcs : list srcin) (sens : list sensor) agg :
  srcs <> [] -> Forall (wf_src P) srcs -> Forall wf_sensor sens -> wf_shapes sens agg ->
  length (getBH P F g_eqb flipx srcs sens agg false) = length srcs.
Proof.
  intros Hne H1 H2 H3. rewrite (getBH_is_spec P F g_eqb flipx g_eqb_sound) by assumption.
  apply spec_one_entry_per_source.
Qed.

Lemma wf_src_all_leaves (srcs : list srcin) : srcs <> [] -> Forall (wf_src P) srcs ->
  wf_src P (Coll (src_list srcs)).
Proof.
  intros Hne Hf. unfold wf_src. cbn [leaves]. split.
  - rewrite Forall_forall in *. intros x Hx. unfold src_list in Hx. apply in_flat_map in Hx as [s [Hs Hx]].
    destruct (Hf s Hs) as [Hl _]. rewrite Forall_forall in Hl. apply Hl, Hx.
  - destruct srcs as [|s0 r]; [congruence|]. rewrite Forall_forall in Hf.
    destruct (Hf s0 (or_introl eq_refl)) as [_ Hl]. cbn [src_list flat_map].
    destruct (leaves s0); [congruence|discriminate].
Qed.

Theorem getBH_sumup_is_one_collection (srcs : list srcin) (sens : list sensor) :
  srcs <> [] -> Forall (wf_src P) srcs -> Forall wf_sensor sens -> wf_shapes sens None ->
  getBH P F g_eqb flipx srcs sens None true
  = getBH P F g_eqb flipx [Coll (src_list srcs)] sens None false.
Proof.
  intros Hne H1 H2 H3. rewrite getBH_sumup', !(getBH_is_spec P F g_eqb flipx g_eqb_sound); try assumption.
  - apply sumup_is_one_collection, Hne.
  - discriminate.
  - constructor; [apply wf_src_all_leaves; assumption|constructor].
Qed.

Theorem getBH_collection_is_sum_of_leaves (ls : list leaf) (sens : list sensor) :
  ls <> [] -> Forall (wf_leaf P) ls -> Forall wf_sensor sens -> wf_shapes sens None ->
  getBH P F g_eqb flipx [Coll ls] sens None false
  = getBH P F g_eqb flipx (map Bare ls) sens None true.
Proof.
  intros Hne H1 H2 H3.
  assert (Hb : Forall (wf_src P) (map Bare ls)).
  { rewrite Forall_forall in *. intros s Hs. apply in_map_iff in Hs as [x [<- Hx]].
    split; [constructor; [apply H1, Hx|constructor]|discriminate]. }
  rewrite getBH_sumup_is_one_collection; try assumption.
  - rewrite src_list_map_Bare. reflexivity.
  - destruct ls; [congruence|discriminate].
Qed.

(* ---- object trees: the entry of a (nested) collection is the sum over its DFS leaves *)
Theorem getBH_nodes_spec (nodes : list (@node O P)) (sens : list sensor) agg :
  (forall x, In x (flat_map (dfs P) nodes) -> wf_leaf P x) ->
  Forall wf_sensor sens -> wf_shapes sens agg ->
  match getBH_nodes P F g_eqb flipx nodes sens agg false with
  | Some out => out = spec P F flipx (map (to_srcin P) nodes) sens agg /\
                length out = length nodes /\
                forall n, In n nodes -> leaves (to_srcin P n) = dfs P n
  | None => nodes = [] \/ ~ Forall (accepted_node P) nodes
  end.
Proof.
  intros Hleaf Hsens Hsh. unfold getBH_nodes.
  pose proof (format_src_inputs_spec P nodes) as H.
  destruct (format_src_inputs P nodes) as [[srcs sl]|]; [|exact H].
  destruct H as (-> & Hne & E1 & E2 & Hall).
  assert (Hwf : Forall (wf_src P) (map (to_srcin P) nodes)).
  { rewrite Forall_forall. intros s Hs. apply in_map_iff in Hs as [n [<- Hn]].
    destruct (Hall n Hn) as (_ & El & Hd). split; rewrite El; [|exact Hd].
    rewrite Forall_forall. intros x Hx. apply Hleaf. apply in_flat_map. exists n. split; assumption. }
  rewrite (getBH_is_spec P F g_eqb flipx g_eqb_sound); try assumption.
  - split; [reflexivity|]. split; [rewrite spec_one_entry_per_source; apply map_length|].
    intros n Hn. apply (Hall n Hn).
  - destruct nodes; [congruence|discriminate].
Qed.

End Super.
