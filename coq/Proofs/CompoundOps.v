(* What each compound operation does to every single object of the operated subtree:
   the recursive tree operations of CompoundModel written as "root object gets F0, every
   object below gets F1" (tmap). *)
From Coq Require Import ZArith List Bool Lia ZifyBool.
From MV Require Import Lib.ListZ Lib.Rigid Gen.GenPath Model.PathModel Proofs.PathProofs
  Model.CompoundModel Proofs.CompoundProofs.
Import ListNotations.
Open Scope Z_scope.

(* ---- pad_slice_path (translated) as an index map *)
Definition fitidx (n m i : Z) : Z := if m <=? n then n - m + i else Z.min i (n - 1).

Section PadSlice.
Context {A B : Type} (d : B).

Lemma pad_slice_len_eq {A'} (p1 : list A) (p1' : list A') (p2 : list B) :
  zlen p1 = zlen p1' -> pad_slice_path d p1 p2 = pad_slice_path d p1' p2.
Proof. intros E. unfold pad_slice_path. rewrite E. reflexivity. Qed.

Lemma pad_slice_same (p1 : list A) (p2 : list B) :
  zlen p1 = zlen p2 -> pad_slice_path d p1 p2 = p2.
Proof.
  intros E. unfold pad_slice_path. rewrite E, Z.sub_diag.
  change (0 >? 0) with false. change (0 <? 0) with false. reflexivity.
Qed.

Lemma zlen_pad_slice (p1 : list A) (p2 : list B) :
  1 <= zlen p1 -> 1 <= zlen p2 -> zlen (pad_slice_path d p1 p2) = zlen p1.
Proof. intros H1 H2. rewrite pad_slice_path_spec by assumption. apply zlen_spec_fit. lia. Qed.

Lemma nth_pad_slice (p1 : list A) (p2 : list B) i :
  1 <= zlen p1 -> 1 <= zlen p2 -> 0 <= i < zlen p1 ->
  nthZ d (pad_slice_path d p1 p2) i = nthZ d p2 (fitidx (zlen p2) (zlen p1) i).
Proof.
  intros H1 H2 Hi. rewrite pad_slice_path_spec by assumption. unfold spec_fit, fitidx.
  rewrite nth_tabulate by lia. destruct (zlen p1 <=? zlen p2); reflexivity.
Qed.

End PadSlice.

Section Ops.
Context {O : RigidOps} {L : RigidLaws O}.

(* ---- move *)
Lemma move_t_tmap d st t : move_t t d st = tmap (fun o => apply_move o d st) t.
Proof.
  induction t as [o ch IH] using node_ind'. cbn [move_t tmap]. f_equal.
  apply map_ext_in. rewrite Forall_forall in IH. exact IH.
Qed.

(* ---- _rotate: below the operated node every object gets the handed-down parent path *)
Lemma rotate_t_some r a st pp t :
  rotate_t t r a st (Some pp) = tmap (fun o => apply_rotation o r a st (Some pp)) t.
Proof.
  induction t as [o ch IH] using node_ind'. cbn [rotate_t tmap]. f_equal.
  apply map_ext_in. rewrite Forall_forall in IH. exact IH.
Qed.

Lemma rotate_t_none r a st o ch :
  rotate_t (Node o ch) r a st None =
  Node (apply_rotation o r a st None)
       (map (tmap (fun y => apply_rotation y r a st (Some (pos o)))) ch).
Proof.
  cbn [rotate_t]. f_equal. apply map_ext. intros c. apply rotate_t_some.
Qed.

(* with an explicit anchor the parent path is never looked at *)
Lemma apply_rotation_anchor_pp o r a st pp :
  apply_rotation o r (Some a) st pp = apply_rotation o r (Some a) st None.
Proof.
  unfold apply_rotation. destruct (multi_anchor a r) as [a' r'].
  destruct (path_padding (is_scalar r') (ilen r') st o) as [[[[ppath opath] s] e] padded].
  reflexivity.
Qed.

Lemma rotate_t_anchor r a st t :
  rotate_t t r (Some a) st None = tmap (fun o => apply_rotation o r (Some a) st None) t.
Proof.
  destruct t as [o ch]. rewrite rotate_t_none. cbn [tmap]. f_equal.
  apply map_ext. intros c. apply tmap_ext. intros y. apply apply_rotation_anchor_pp.
Qed.

(* ---- position setter *)
Definition shift_obj (ps old : list V) (y : obj) : obj :=
  {| pos := zipw vadd ps (zipw vsub (pad_slice_path vzero ps (pos y)) (pad_slice_path vzero ps old));
     ori := pad_slice_path gone ps (ori y) |}.

Definition fit_obj {X} (ps : list X) (y : obj) : obj :=
  {| pos := pad_slice_path vzero ps (pos y); ori := pad_slice_path gone ps (ori y) |}.

Lemma setpos_children_eq rec ps : forall cs old, 1 <= zlen ps -> 1 <= zlen old ->
  setpos_children rec ps old cs =
  map (fun c => rec c (zipw vadd ps (zipw vsub (pad_slice_path vzero ps (pos (nobj c)))
                                              (pad_slice_path vzero ps old)))) cs.
Proof.
  induction cs as [|c rest IH]; intros old Hps Hold; [reflexivity|].
  cbn [setpos_children map]. f_equal.
  change ((fix loop (old_pos : list V) (cs : list node) {struct cs} : list node :=
             match cs with
             | [] => []
             | c0 :: rest0 =>
                 let old_pos0 := pad_slice_path vzero ps old_pos in
                 let child_pos := pad_slice_path vzero ps (pos (nobj c0)) in
                 let rel_child_pos := zipw vsub child_pos old_pos0 in
                 rec c0 (zipw vadd ps rel_child_pos) :: loop old_pos0 rest0
             end) (pad_slice_path vzero ps old) rest)
    with (setpos_children rec ps (pad_slice_path vzero ps old) rest).
  rewrite IH by (try rewrite zlen_pad_slice; lia).
  apply map_ext. intros c0.
  rewrite (pad_slice_same vzero ps (pad_slice_path vzero ps old)) by (rewrite zlen_pad_slice; lia).
  reflexivity.
Qed.

Lemma zlen_shift_pos ps old y : 1 <= zlen ps -> 1 <= zlen old -> 1 <= zlen (pos y) ->
  zlen (zipw vadd ps (zipw vsub (pad_slice_path vzero ps (pos y)) (pad_slice_path vzero ps old)))
  = zlen ps.
Proof. intros. rewrite !zlen_zipw, !zlen_pad_slice by lia. lia. Qed.

Lemma set_position_t_tmap : forall t ps, wf_tree t -> 1 <= zlen ps ->
  set_position_t t ps =
  Node {| pos := ps; ori := pad_slice_path gone ps (ori (nobj t)) |}
       (map (tmap (shift_obj ps (pos (nobj t)))) (nch t)).
Proof.
  induction t as [o ch IH] using node_ind'. intros ps Hwf Hps.
  apply tree_all_node in Hwf. destruct Hwf as [[Hn Heq] Hch].
  cbn [set_position_t nobj nch]. f_equal.
  rewrite setpos_children_eq by lia.
  apply map_ext_in. intros c Hin.
  rewrite Forall_forall in IH, Hch. specialize (IH c Hin). specialize (Hch c Hin).
  destruct c as [oc chc]. cbn [nobj].
  apply tree_all_node in Hch. destruct Hch as [[Hnc Heqc] Hchc].
  set (psc := zipw vadd ps (zipw vsub (pad_slice_path vzero ps (pos oc)) (pad_slice_path vzero ps (pos o)))).
  assert (Hlen : zlen psc = zlen ps) by (apply zlen_shift_pos; lia).
  rewrite IH; [|apply tree_all_node; split; [split; assumption|assumption] | lia].
  cbn [nobj nch tmap]. f_equal.
  - unfold shift_obj. fold psc. f_equal. apply pad_slice_len_eq. exact Hlen.
  - apply map_ext_in. intros g Hg. apply (tmap_ext_all wf).
    2:{ rewrite Forall_forall in Hchc. apply Hchc. exact Hg. }
    intros y [Hny Heqy]. unfold shift_obj. f_equal.
    2:{ apply pad_slice_len_eq. exact Hlen. }
    rewrite !(pad_slice_len_eq vzero psc ps) by exact Hlen.
    apply (nth_ext_Z vzero).
    + rewrite !zlen_zipw, !zlen_pad_slice by lia. lia.
    + intros i Hi. rewrite zlen_zipw, Hlen, zlen_zipw, !zlen_pad_slice in Hi by lia.
      rewrite (nth_zipw vadd vzero vzero vzero) by (rewrite ?zlen_zipw, ?zlen_pad_slice; lia).
      rewrite (nth_zipw vsub vzero vzero vzero) by (rewrite ?zlen_pad_slice; lia).
      unfold psc.
      rewrite (nth_zipw vadd vzero vzero vzero) by (rewrite ?zlen_zipw, ?zlen_pad_slice; lia).
      rewrite (nth_zipw vsub vzero vzero vzero) by (rewrite ?zlen_pad_slice; lia).
      rewrite (nth_zipw vadd vzero vzero vzero) by (rewrite ?zlen_zipw, ?zlen_pad_slice; lia).
      rewrite (nth_zipw vsub vzero vzero vzero) by (rewrite ?zlen_pad_slice; lia).
      apply shift_chain.
Qed.

(* assigning a child its own (fitted) position just fits the whole subtree *)
Lemma set_position_t_fit {X} (ps : list X) t : wf_tree t -> 1 <= zlen ps ->
  set_position_t t (pad_slice_path vzero ps (pos (nobj t))) = tmap (fit_obj ps) t.
Proof.
  intros Hwf Hps. destruct t as [o ch]. pose proof Hwf as Hwf0.
  apply tree_all_node in Hwf. destruct Hwf as [[Hn Heq] Hch]. cbn [nobj].
  set (p1 := pad_slice_path vzero ps (pos o)).
  assert (Hl : zlen p1 = zlen ps) by (apply zlen_pad_slice; lia).
  rewrite set_position_t_tmap by (auto; lia).
  cbn [nobj nch tmap]. f_equal.
  - unfold fit_obj. fold p1. f_equal. apply pad_slice_len_eq. exact Hl.
  - apply map_ext_in. intros g Hg. apply (tmap_ext_all wf).
    2:{ rewrite Forall_forall in Hch. apply Hch. exact Hg. }
    intros y [Hny Heqy]. unfold shift_obj, fit_obj. f_equal.
    2:{ apply pad_slice_len_eq. exact Hl. }
    rewrite !(pad_slice_len_eq vzero p1 ps) by exact Hl. fold p1.
    apply (nth_ext_Z vzero).
    + rewrite !zlen_zipw, !zlen_pad_slice by lia. lia.
    + intros i Hi. rewrite !zlen_zipw, Hl, !zlen_pad_slice in Hi by lia.
      rewrite (nth_zipw vadd vzero vzero vzero) by (rewrite ?zlen_zipw, ?zlen_pad_slice; lia).
      rewrite (nth_zipw vsub vzero vzero vzero) by (rewrite ?zlen_pad_slice; lia).
      apply vadd_vsub_cancel.
Qed.

(* ---- orientation setter *)
Definition setori_rot (qs old_ori : list G) : inp G :=
  rot_mul_inv (squeeze_rot qs) (squeeze_rot (pad_slice_path gone qs old_ori)).

Definition setori_obj (qs old_ori : list G) (newpos : list V) (y : obj) : obj :=
  apply_rotation (fit_obj qs y) (setori_rot qs old_ori) (Some (Vector newpos)) (Some 0) None.

Lemma set_orientation_t_tmap o ch qs : wf_tree (Node o ch) -> 1 <= zlen qs ->
  set_orientation_t (Node o ch) qs =
  Node {| pos := pad_slice_path vzero qs (pos o); ori := qs |}
       (map (tmap (setori_obj qs (ori o) (pad_slice_path vzero qs (pos o)))) ch).
Proof.
  intros Hwf Hqs. apply tree_all_node in Hwf. destruct Hwf as [[Hn Heq] Hch].
  cbn [set_orientation_t pos]. f_equal.
  apply map_ext_in. intros c Hin. rewrite Forall_forall in Hch. specialize (Hch c Hin).
  rewrite (set_position_t_fit (pad_slice_path vzero qs (pos o)) c Hch)
    by (rewrite zlen_pad_slice; lia).
  rewrite rotate_t_anchor. rewrite tmap_tmap.
  apply tmap_ext. intros y. unfold setori_obj, setori_rot. f_equal.
  unfold fit_obj. f_equal; apply pad_slice_len_eq; apply zlen_pad_slice; lia.
Qed.

End Ops.
