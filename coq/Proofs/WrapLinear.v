(* C05 -- the BHJM_* wrappers of WrapModel.v preserve linearity in the polarization:
   if the (abstract, opaque) core of a magnet class is linear in the polarization argument, then the
   wrapper's B, H, J and M are linear in it -- in ANY field whose boolean equality test is sound.
   The masks are geometry-only except the `pol == 0` shortcuts (cuboid: mask_pol_not_null; cylinder:
   mask_pol_tv / mask_pol_ax / mask_pol_not_null), which only skip evaluations whose result is zero for
   a linear core, so they preserve linearity. *)
From Coq Require Import List Bool ZArith Field.
From MV Require Import Model.WrapModel.
Import ListNotations.

Section AnyField.
Context {N : NumOps} {T : Tols}.
Hypothesis Fth : field_theory f0 f1 fadd fmul fsub fopp fdiv finv (@eq F).
Hypothesis feqb_eq : forall x y : F, feqb x y = true -> x = y.
Local Open Scope num_scope.

Add Field FFieldLin : Fth.

(* a J1 + b J2 *)
Definition vlin (a b : F) (u v : vec) : vec := vadd (vmuls u a) (vmuls v b).

Lemma vec_eq3 (a b c a' b' c' : F) : a = a' -> b = b' -> c = c' -> (a, b, c) = (a', b', c').
Proof. intros -> -> ->. reflexivity. Qed.

Ltac dvec := repeat match goal with v : vec |- _ => destruct v as [[? ?] ?] end.
Ltac vring :=
  cbn [vlin vadd vmuls vdivs vsub vzero vsel cyl_to_cart vdot negb]; unfold vzero;
  rewrite ?(Fdiv_def Fth); apply vec_eq3; ring.

Lemma vlin_zero a b : vlin a b vzero vzero = vzero.
Proof. unfold vzero. vring. Qed.

Lemma pol_null_zero' p : pol_is_null p = true -> p = vzero.
Proof.
  destruct p as [[x y] z]. unfold pol_is_null. intros H.
  apply andb_prop in H. destruct H as [H Hz]. apply andb_prop in H. destruct H as [Hx Hy].
  apply feqb_eq in Hx, Hy, Hz. subst. reflexivity.
Qed.

(* ------------------------------------------------------------------ Cuboid *)
Section Cuboid.
Variable core : cub_row -> vec.
Variables o d : vec.
Definition cub (p : vec) : cub_row := {| cu_obs := o; cu_dim := d; cu_pol := p |}.
Hypothesis core_lin : forall a b p1 p2,
  core (cub (vlin a b p1 p2)) = vlin a b (core (cub p1)) (core (cub p2)).

Lemma cub_core_zero : core (cub vzero) = vzero.
Proof.
  rewrite <- (vlin_zero f0 f0) at 1. rewrite core_lin.
  destruct (core (cub vzero)) as [[c1 c2] c3]. vring.
Qed.

(* mask_gen without its polarization factor *)
Definition cub_geo : bool :=
  let '(x, y, z) := o in let '(dx, dy, dz) := d in
  let a := fabs dx / two in let b := fabs dy / two in let c := fabs dz / two in
  let rt := t_cub_surf in
  let dim_not_null := fneqb (a * b * c) f0 in
  let xd := fabs x - a in let yd := fabs y - b in let zd := fabs z - c in
  let sx := fabs xd <? rt * a in let sy := fabs yd <? rt * b in let sz := fabs zd <? rt * c in
  let ix := xd <? rt * a in let iy := yd <? rt * b in let iz := zd <? rt * c in
  let xedge := sy && sz && ix in let yedge := sx && sz && iy in let zedge := sx && sy && iz in
  dim_not_null && negb (xedge || yedge || zedge).

Lemma cub_gen_split p : cub_gen (cub p) = negb (pol_is_null p) && cub_geo.
Proof.
  unfold cub_gen, cub_geo, cub. cbn [cu_obs cu_dim cu_pol].
  destruct o as [[x y] z], d as [[dx dy] dz]. destruct (pol_is_null p); cbn [negb andb]; reflexivity.
Qed.

(* the `pol == 0` shortcut only skips a zero *)
Lemma cub_shortcut p : vsel (cub_gen (cub p)) (core (cub p)) = vsel cub_geo (core (cub p)).
Proof.
  rewrite cub_gen_split. destruct (pol_is_null p) eqn:E; [|reflexivity].
  apply pol_null_zero' in E. subst p. rewrite cub_core_zero. cbn [negb andb vsel]. destruct cub_geo; reflexivity.
Qed.

Lemma cub_inside_indep p q : cub_inside (cub p) = cub_inside (cub q).
Proof. reflexivity. Qed.

Theorem cuboid_wrapper_linear mu0 f a b p1 p2 :
  bhjm_cuboid core mu0 f (cub (vlin a b p1 p2))
  = vlin a b (bhjm_cuboid core mu0 f (cub p1)) (bhjm_cuboid core mu0 f (cub p2)).
Proof.
  unfold bhjm_cuboid. rewrite !cub_shortcut, core_lin.
  rewrite (cub_inside_indep (vlin a b p1 p2) p1), (cub_inside_indep p2 p1).
  cbn [cu_pol cub].
  destruct (core (cub p1)) as [[u1 u2] u3], (core (cub p2)) as [[w1 w2] w3].
  destruct p1 as [[x1 y1] z1], p2 as [[x2 y2] z2].
  destruct f, (cub_inside (cub (x1, y1, z1))), cub_geo; vring.
Qed.
End Cuboid.

(* ------------------------------------------------------------------ Sphere (no separate core) *)
Section Sphere.
Variables (o : vec) (rr dd : F).
Definition sph (p : vec) : sph_row := {| sp_obs := o; sp_r := rr; sp_d := dd; sp_pol := p |}.

Theorem sphere_wrapper_linear mu0 f a b p1 p2 :
  bhjm_sphere mu0 f (sph (vlin a b p1 p2))
  = vlin a b (bhjm_sphere mu0 f (sph p1)) (bhjm_sphere mu0 f (sph p2)).
Proof.
  unfold bhjm_sphere, sph_outside_B, sph_out, sph. cbn [sp_obs sp_r sp_d sp_pol].
  destruct o as [[x y] z], p1 as [[x1 y1] z1], p2 as [[x2 y2] z2].
  destruct f, (fgtb rr (fabs dd / two)); cbn [negb vdot]; vring.
Qed.
End Sphere.

(* ------------------------------------------------------------------ Triangle, Tetrahedron, TriangularMesh *)
Section Tri.
Variable tricore : tri_row -> vec.
Definition trow (ob : vec) (t : tri) (p : vec) : tri_row := {| tr_obs := ob; tr_v := t; tr_pol := p |}.
Hypothesis tri_lin : forall ob t a b p1 p2,
  tricore (trow ob t (vlin a b p1 p2)) = vlin a b (tricore (trow ob t p1)) (tricore (trow ob t p2)).

Theorem triangle_wrapper_linear mu0 f ob t a b p1 p2 :
  bhjm_triangle tricore mu0 f (trow ob t (vlin a b p1 p2))
  = vlin a b (bhjm_triangle tricore mu0 f (trow ob t p1)) (bhjm_triangle tricore mu0 f (trow ob t p2)).
Proof.
  unfold bhjm_triangle. rewrite tri_lin.
  destruct (tricore (trow ob t p1)) as [[u1 u2] u3], (tricore (trow ob t p2)) as [[w1 w2] w3].
  destruct f; vring.
Qed.

Lemma tri_sum_fold mu0 f ob a b p1 p2 faces : forall acc1 acc2,
  fold_left (fun acc t => vadd acc (bhjm_triangle tricore mu0 f (trow ob t (vlin a b p1 p2)))) faces (vlin a b acc1 acc2)
  = vlin a b (fold_left (fun acc t => vadd acc (bhjm_triangle tricore mu0 f (trow ob t p1))) faces acc1)
             (fold_left (fun acc t => vadd acc (bhjm_triangle tricore mu0 f (trow ob t p2))) faces acc2).
Proof.
  induction faces as [|t faces IH]; intros acc1 acc2; [reflexivity|].
  cbn [fold_left]. rewrite <- IH. f_equal. rewrite triangle_wrapper_linear.
  destruct (bhjm_triangle tricore mu0 f (trow ob t p1)) as [[u1 u2] u3].
  destruct (bhjm_triangle tricore mu0 f (trow ob t p2)) as [[w1 w2] w3].
  destruct acc1 as [[x1 y1] z1], acc2 as [[x2 y2] z2]. vring.
Qed.

Theorem tri_sum_linear mu0 f ob faces a b p1 p2 :
  tri_sum tricore mu0 f ob (vlin a b p1 p2) faces
  = vlin a b (tri_sum tricore mu0 f ob p1 faces) (tri_sum tricore mu0 f ob p2 faces).
Proof.
  unfold tri_sum. fold (trow ob). rewrite <- (vlin_zero a b) at 1.
  apply (tri_sum_fold mu0 f ob a b p1 p2 faces vzero vzero).
Qed.

Definition tet (ob v0 v1 v2 v3 p : vec) : tet_row :=
  {| te_obs := ob; te_v0 := v0; te_v1 := v1; te_v2 := v2; te_v3 := v3; te_pol := p |}.

Theorem tetrahedron_wrapper_linear mu0 io f ob v0 v1 v2 v3 a b p1 p2 :
  bhjm_tetrahedron tricore mu0 io f (tet ob v0 v1 v2 v3 (vlin a b p1 p2))
  = vlin a b (bhjm_tetrahedron tricore mu0 io f (tet ob v0 v1 v2 v3 p1))
             (bhjm_tetrahedron tricore mu0 io f (tet ob v0 v1 v2 v3 p2)).
Proof.
  unfold bhjm_tetrahedron, chirality, tet_inside, tet_faces, tet.
  cbn [te_obs te_v0 te_v1 te_v2 te_v3 te_pol].
  destruct (det3 (vsub v1 v0) (vsub v2 v0) (vsub v3 v0) <? f0);
    cbn [te_obs te_v0 te_v1 te_v2 te_v3 te_pol]; rewrite ?tri_sum_linear;
    repeat match goal with |- context [tri_sum tricore mu0 ?g ob ?p ?fs] =>
      let x := fresh "s" in set (x := tri_sum tricore mu0 g ob p fs) in *; clearbody x; destruct x as [[? ?] ?] end;
    destruct p1 as [[x1 y1] z1], p2 as [[x2 y2] z2];
    destruct f, (point_inside io ob v0 v1 v2 v3); vring.
Qed.

(* one row of BHJM_magnet_trimesh; the inside test sees the meshes and the observer only *)
Variable mesh_inside : list tri -> vec -> bool.
Variable mesh_eqb : list tri -> list tri -> bool.
Definition mrow (ob : vec) (m : list tri) (p : vec) : msh_row := {| ms_obs := ob; ms_mesh := m; ms_pol := p |}.

Theorem trimesh_row_wrapper_linear mu0 io f meshes i ob m a b p1 p2 :
  bhjm_trimesh_row tricore mesh_inside mesh_eqb mu0 io f meshes (i, mrow ob m (vlin a b p1 p2))
  = vlin a b (bhjm_trimesh_row tricore mesh_inside mesh_eqb mu0 io f meshes (i, mrow ob m p1))
             (bhjm_trimesh_row tricore mesh_inside mesh_eqb mu0 io f meshes (i, mrow ob m p2)).
Proof.
  unfold bhjm_trimesh_row, msh_base, msh_ins, mrow. cbn [ms_obs ms_mesh ms_pol].
  set (ins := match io with
              | Auto => match mesh_used mesh_eqb meshes i with
                        | Some k => mesh_inside (nth k meshes []) ob | None => false end
              | Inside => true | Outside => false end).
  rewrite ?tri_sum_linear.
  destruct (tri_sum tricore mu0 FB ob p1 m) as [[u1 u2] u3], (tri_sum tricore mu0 FB ob p2 m) as [[w1 w2] w3].
  destruct p1 as [[x1 y1] z1], p2 as [[x2 y2] z2].
  destruct f, ins; vring.
Qed.
End Tri.

(* ------------------------------------------------------------------ CylinderSegment: one row.
   The masks read geometry fields only; the core is opaque (J enters through its angles inside it):
   IF it is linear on three rows of equal geometry, so is the wrapper. *)
Section Seg.
Variable segcore : seg_row -> vec.

Definition seg_geom_eq (r r' : seg_row) : Prop :=
  cs_r r = cs_r r' /\ cs_phi r = cs_phi r' /\ cs_phio2 r = cs_phio2 r' /\ cs_c r = cs_c r' /\ cs_s r = cs_s r' /\
  cs_z r = cs_z r' /\ cs_r1 r = cs_r1 r' /\ cs_r2 r = cs_r2 r' /\ cs_h r = cs_h r' /\
  cs_phi1r r = cs_phi1r r' /\ cs_phi2r r = cs_phi2r r' /\
  cs_phi1 r = cs_phi1 r' /\ cs_phi2 r = cs_phi2 r' /\ cs_red1 r = cs_red1 r' /\ cs_red2 r = cs_red2 r' /\
  cs_pi r = cs_pi r'.

Lemma seg_masks_geom r r' : seg_geom_eq r r' -> seg_masks r = seg_masks r'.
Proof.
  intros (E1 & E2 & E3 & E4 & E5 & E6 & E7 & E8 & E9 & E10 & E11 & E12 & E13 & E14 & E15 & E16). unfold seg_masks.
  rewrite E1, E2, E3, E6, E7, E8, E9, E10, E11, E12, E13, E14, E15, E16. reflexivity.
Qed.

Theorem segment_row_wrapper_linear mu0 f any_off (r12 r1 r2 : seg_row) a b :
  seg_geom_eq r12 r1 -> seg_geom_eq r2 r1 ->
  cs_pol r12 = vlin a b (cs_pol r1) (cs_pol r2) ->
  segcore r12 = vlin a b (segcore r1) (segcore r2) ->
  bhjm_seg_row segcore mu0 f any_off r12
  = vlin a b (bhjm_seg_row segcore mu0 f any_off r1) (bhjm_seg_row segcore mu0 f any_off r2).
Proof.
  intros G12 G2 Hpol Hcore. unfold bhjm_seg_row, seg_inside, seg_not_on_surf.
  rewrite (seg_masks_geom _ _ G12), (seg_masks_geom _ _ G2), Hpol, Hcore.
  destruct G12 as (_ & _ & _ & -> & -> & _), G2 as (_ & _ & _ & -> & -> & _).
  destruct (segcore r1) as [[u1 u2] u3], (segcore r2) as [[w1 w2] w3].
  destruct (cs_pol r1) as [[x1 y1] z1], (cs_pol r2) as [[x2 y2] z2].
  destruct any_off; cbn [negb]; [|vring].
  destruct f, (fst (seg_masks r1)), (snd (seg_masks r1)); cbn [andb]; vring.
Qed.
End Seg.

(* ------------------------------------------------------------------ Cylinder: what the wrapper's structure gives.
   The transverse part enters as  tvcore(geometry, phi - theta) * |J_xy|  with theta, |J_xy| computed by numpy
   (arctan2, sqrt) before the wrapper: linearity in a transverse vector sum is a trigonometric identity inside
   the core and is NOT available here.  Proved: purely axial polarization: B, H, J, M linear in pol_z. *)
Section Cyl.
Variable tvcore : F -> F -> F -> cyl_row -> vec.
Variable axcore : F -> F -> F -> cyl_row -> vec.
Variables (g_r g_c g_s g_z g_d g_h g_dphi : F).
Definition cyl (p : vec) (pxy : F) : cyl_row :=
  {| cy_r := g_r; cy_c := g_c; cy_s := g_s; cy_z := g_z; cy_d := g_d; cy_h := g_h; cy_pol := p; cy_pxy := pxy;
     cy_dphi := g_dphi |}.
(* the cores read geometry and phi - theta only *)
Hypothesis tv_geom : forall z0 rr z p pxy p' pxy', tvcore z0 rr z (cyl p pxy) = tvcore z0 rr z (cyl p' pxy').
Hypothesis ax_geom : forall z0 rr z p pxy p' pxy', axcore z0 rr z (cyl p pxy) = axcore z0 rr z (cyl p' pxy').

(* purely axial polarization: the wrapper without its `pol == 0` tests (they only skip zeros) *)
Definition cyl_ax_closed (mu0 : F) (f : fld) (pz : F) : vec :=
  let r0 := cyl (f0, f0, f0) f0 in
  let '(z0, rr, z) := cyl_scaled r0 in
  let A := axcore z0 rr z r0 in
  let ins := cyl_inside0 r0 in let ne := negb (cyl_on_edge r0) in
  let h := cyl_to_cart g_c g_s (vmuls A pz) in
  match f with
  | FJ => vsel (ins && ne) (f0, f0, pz)
  | FM => vdivs (vsel (ins && ne) (f0, f0, pz)) mu0
  | FB => vsel ne h
  | FH => vdivs (vsel ne (if ins then vsub h (f0, f0, pz) else h)) mu0
  end.

Lemma cylinder_axial_closed mu0 f pz :
  bhjm_cylinder tvcore axcore mu0 f (cyl (f0, f0, pz) f0) = cyl_ax_closed mu0 f pz.
Proof.
  unfold bhjm_cylinder, cyl_ax_closed.
  change (cyl_scaled (cyl (f0, f0, pz) f0)) with (cyl_scaled (cyl (f0, f0, f0) f0)).
  destruct (cyl_scaled (cyl (f0, f0, f0) f0)) as [[z0 rr] z].
  change (cyl_inside0 (cyl (f0, f0, pz) f0)) with (cyl_inside0 (cyl (f0, f0, f0) f0)).
  change (cyl_on_edge (cyl (f0, f0, pz) f0)) with (cyl_on_edge (cyl (f0, f0, f0) f0)).
  rewrite (ax_geom z0 rr z (f0, f0, pz) f0 (f0, f0, f0) f0).
  cbn [cy_pol cyl cy_pxy cy_c cy_s].
  fold (cyl (f0, f0, pz) f0) (cyl (f0, f0, f0) f0).
  destruct (axcore z0 rr z (cyl (f0, f0, f0) f0)) as [[u1 u2] u3].
  destruct (tvcore z0 rr z (cyl (f0, f0, pz) f0)) as [[t1 t2] t3].
  set (ins := cyl_inside0 (cyl (f0, f0, f0) f0)). set (edge := cyl_on_edge (cyl (f0, f0, f0) f0)).
  clearbody ins edge.
  unfold pol_is_null, fneqb.
  destruct (pz =? f0) eqn:E; [apply feqb_eq in E; subst pz|];
    destruct (f0 =? f0); destruct f, ins, edge; cbn [negb andb orb]; vring.
Qed.

Theorem cylinder_wrapper_linear_axial mu0 f a b z1 z2 :
  bhjm_cylinder tvcore axcore mu0 f (cyl (f0, f0, a * z1 + b * z2) f0)
  = vlin a b (bhjm_cylinder tvcore axcore mu0 f (cyl (f0, f0, z1) f0))
             (bhjm_cylinder tvcore axcore mu0 f (cyl (f0, f0, z2) f0)).
Proof.
  rewrite !cylinder_axial_closed. unfold cyl_ax_closed.
  destruct (cyl_scaled (cyl (f0, f0, f0) f0)) as [[z0 rr] z].
  destruct (axcore z0 rr z (cyl (f0, f0, f0) f0)) as [[u1 u2] u3].
  destruct f, (cyl_inside0 (cyl (f0, f0, f0) f0)), (cyl_on_edge (cyl (f0, f0, f0) f0)); cbn [negb andb]; vring.
Qed.
End Cyl.

End AnyField.
