(* C08 -- proofs about Model/Level2State.v: for every program accepted by `prog_ok`, run under the
   try/finally wrapper, the store after the call equals the store before it, whatever the input and
   whatever the failure schedule. *)
From Coq Require Import List Arith Bool PeanoNat Lia.
From MV Require Import Model.Level2State.
Import ListNotations.

Section Proofs.
Variables V Q A GV Val : Type.
Variable dV : V.
Variable dQ : Q.
Variable renorm : Q -> Q.
Variable key_of : A -> option nat.
Variable dim_ok : A -> bool.
Variable exc_ok : A -> bool.
Variable pix_shape : A -> list nat.
Variable post : list GV -> Val.
Variable F : nat -> nat -> ginput V Q -> gres GV.

Local Notation objT := (obj V Q A).
Local Notation storeT := (list (obj V Q A)).
Local Notation updT := (upd V Q A).
Local Notation tile_posT := (tile_pos V Q A dV).
Local Notation tile_oriT := (tile_ori V Q A dQ renorm).
Local Notation tile_objT := (tile_obj V Q A dV dQ renorm).
Local Notation trim_posT := (trim_pos V Q A).
Local Notation trim_oriT := (trim_ori V Q A).
Local Notation trim_objT := (trim_obj V Q A).
Local Notation loop_fullT := (loop_full V Q A).
Local Notation loop_crashT := (loop_crash V Q A).
Local Notation trim_allT := (trim_all V Q A).
Local Notation restore_allT := (restore_all V Q A).
Local Notation mstateT := (mstate V Q A GV).
Local Notation execT := (exec V Q A GV Val dV dQ renorm key_of dim_ok exc_ok pix_shape post F).
Local Notation exec_roT := (exec_ro V Q A GV Val key_of dim_ok exc_ok pix_shape post F).
Local Notation run_bodyT := (run_body V Q A GV Val dV dQ renorm key_of dim_ok exc_ok pix_shape post F).
Local Notation level2T := (getBH_level2 V Q A GV Val dV dQ renorm key_of dim_ok exc_ok pix_shape post F).
Local Notation wf_objT := (wf_obj V Q A).
Local Notation wf_storeT := (wf_store V Q A).
Local Notation fix_storeT := (fix_store V Q A renorm).
Local Notation fixq := (Forall (fun q => renorm q = q)).

(* ---- lists *)
Lemma firstn_len_le {X} (n : nat) (l l0 : list X) :
  firstn n l = l0 -> length l0 = n -> n <= length l.
Proof. intros H1 H2. subst l0. rewrite firstn_length in H2. lia. Qed.

Lemma firstn_app_ge {X} (n : nat) (l x : list X) : n <= length l -> firstn n (l ++ x) = firstn n l.
Proof.
  intros H. rewrite firstn_app. replace (n - length l) with 0 by lia.
  simpl. apply app_nil_r.
Qed.

Lemma firstn_idem {X} (n : nat) (l : list X) : firstn n (firstn n l) = firstn n l.
Proof. rewrite firstn_firstn. rewrite Nat.min_id. reflexivity. Qed.

Lemma nth_error_ext_eq {X} (a b : list X) :
  length a = length b -> (forall i o, nth_error b i = Some o -> nth_error a i = Some o) -> a = b.
Proof.
  revert b. induction a as [|x a IH]; intros [|y b] Hl H; simpl in Hl; try discriminate; auto.
  f_equal.
  - specialize (H 0 y eq_refl). simpl in H. congruence.
  - apply IH; [lia|]. intros i o Hi. apply (H (S i) o Hi).
Qed.

Lemma firstn_In {X} (n : nat) (l : list X) x : In x (firstn n l) -> In x l.
Proof.
  revert l. induction n as [|n IH]; intros [|y l] H; simpl in *; try contradiction.
  destruct H as [H|H]; [left; auto | right; apply IH; auto].
Qed.

(* ---- upd *)
Lemma length_upd i f (st : storeT) : length (updT i f st) = length st.
Proof. revert i. induction st as [|o r IH]; intros [|i]; simpl; auto. Qed.

Lemma nth_error_upd_same i f (st : storeT) :
  nth_error (updT i f st) i = option_map f (nth_error st i).
Proof. revert i. induction st as [|o r IH]; intros [|i]; simpl; auto. Qed.

Lemma nth_error_upd_other i j f (st : storeT) :
  i <> j -> nth_error (updT i f st) j = nth_error st j.
Proof.
  revert i j. induction st as [|o r IH]; intros [|i] [|j] H; simpl; auto; try congruence.
Qed.

(* ---- "o is o0 with possibly longer paths"; the orientation prefix is only guaranteed when the
   original quaternions are fixed points of the re-normalisation *)
Definition ext (o0 o : objT) : Prop :=
  firstn (length (o_pos V Q A o0)) (o_pos V Q A o) = o_pos V Q A o0 /\
  (fixq (o_ori V Q A o0) -> firstn (length (o_pos V Q A o0)) (o_ori V Q A o) = o_ori V Q A o0) /\
  o_attr V Q A o = o_attr V Q A o0 /\
  length (o_ori V Q A o0) = length (o_pos V Q A o0) /\
  length (o_pos V Q A o0) <= length (o_ori V Q A o).

Lemma ext_refl o : wf_objT o -> ext o o.
Proof.
  intros H. unfold wf_obj in H. unfold ext. repeat split; auto.
  - apply firstn_all.
  - intros _. rewrite <- H. apply firstn_all.
  - rewrite H. apply le_n.
Qed.

Lemma ext_wf o0 o : ext o0 o -> wf_objT o0.
Proof. intros (_ & _ & _ & H & _). exact H. Qed.

Lemma map_fix (l : list Q) : fixq l -> map renorm l = l.
Proof. induction 1 as [|q l Hq _ IH]; simpl; [reflexivity|]. rewrite Hq, IH. reflexivity. Qed.

Lemma firstn_map' {X Y} (f : X -> Y) n (l : list X) : firstn n (map f l) = map f (firstn n l).
Proof. revert l. induction n as [|n IH]; intros [|x l]; simpl; auto. rewrite IH. reflexivity. Qed.

Lemma ext_tile_pos k o0 o : ext o0 o -> ext o0 (tile_posT k o).
Proof.
  intros (H1 & H2 & H3 & H4 & H5). unfold ext, tile_pos; simpl. repeat split; auto.
  rewrite firstn_app_ge; auto. eapply firstn_len_le; eauto.
Qed.

Lemma ext_tile_ori k o0 o : ext o0 o -> ext o0 (tile_oriT k o).
Proof.
  intros (H1 & H2 & H3 & H4 & H5). unfold ext, tile_ori; simpl. repeat split; auto.
  - intros Hf. rewrite firstn_map', firstn_app_ge by exact H5. rewrite (H2 Hf). apply map_fix, Hf.
  - rewrite map_length, app_length. lia.
Qed.

Lemma ext_tile_obj k o0 o : ext o0 o -> ext o0 (tile_objT k o).
Proof. intros H. unfold tile_obj. apply ext_tile_ori, ext_tile_pos, H. Qed.

Lemma ext_trim_pos o0 o : ext o0 o -> ext o0 (trim_posT (length (o_pos V Q A o0)) o).
Proof.
  intros (H1 & H2 & H3 & H4 & H5). unfold ext, trim_pos; simpl. repeat split; auto.
  rewrite firstn_idem. exact H1.
Qed.

Lemma ext_trim_ori o0 o : ext o0 o -> ext o0 (trim_oriT (length (o_pos V Q A o0)) o).
Proof.
  intros (H1 & H2 & H3 & H4 & H5). unfold ext, trim_ori; simpl. repeat split; auto.
  - intros Hf. rewrite firstn_idem. exact (H2 Hf).
  - rewrite firstn_length. lia.
Qed.

Lemma ext_trim_obj o0 o : ext o0 o -> ext o0 (trim_objT (length (o_pos V Q A o0)) o).
Proof. intros H. unfold trim_obj. apply ext_trim_ori, ext_trim_pos, H. Qed.

Lemma ext_trim_eq o0 o : ext o0 o -> fixq (o_ori V Q A o0) -> trim_objT (length (o_pos V Q A o0)) o = o0.
Proof.
  intros (H1 & H2 & H3 & H4 & H5) Hf. unfold trim_obj, trim_ori, trim_pos; simpl.
  rewrite H1, (H2 Hf), H3. destruct o0; reflexivity.
Qed.

Lemma trim_obj_self o0 : wf_objT o0 -> trim_objT (length (o_pos V Q A o0)) o0 = o0.
Proof.
  intros H. unfold wf_obj in H. unfold trim_obj, trim_ori, trim_pos; simpl.
  rewrite firstn_all. rewrite <- H. rewrite firstn_all. destruct o0; reflexivity.
Qed.

Lemma trim_pos_self o0 : wf_objT o0 -> trim_posT (length (o_pos V Q A o0)) o0 = o0.
Proof. intros _. unfold trim_pos. rewrite firstn_all. destruct o0; reflexivity. Qed.

(* ---- invariant on stores: every object is an extension of the original one, and is the original
   one unless its index is covered by what the wrapper's finally will undo *)
Definition good (st0 st : storeT) (cl : list nat) : Prop :=
  length st = length st0 /\
  forall i o0, nth_error st0 i = Some o0 ->
    exists o, nth_error st i = Some o /\ ext o0 o /\ (o = o0 \/ In i cl).

Definition lens_ok (st0 : storeT) (l : list (nat * nat)) : Prop :=
  forall i m0 o0, In (i, m0) l -> nth_error st0 i = Some o0 -> m0 = length (o_pos V Q A o0).

Definition saved_ok (st0 : storeT) (l : list (nat * (list V * list Q))) : Prop :=
  forall i pq o0, In (i, pq) l -> nth_error st0 i = Some o0 -> pq = (o_pos V Q A o0, o_ori V Q A o0).

Lemma good_init st cl : wf_storeT st -> good st st cl.
Proof.
  intros H. split; auto. intros i o0 Hi. exists o0. split; [exact Hi|]. split; [|left; reflexivity].
  apply ext_refl. unfold wf_store in H. rewrite Forall_forall in H. apply H.
  eapply nth_error_In; eauto.
Qed.

Lemma good_mono st0 st t t' : incl t t' -> good st0 st t -> good st0 st t'.
Proof.
  intros Hi (Hl & H). split; auto. intros i o0 Ho. destruct (H i o0 Ho) as (o & Hn & He & Hd).
  exists o. split; [exact Hn|]. split; [exact He|].
  destruct Hd as [Hd | Hd]; [left; auto | right; auto].
Qed.

Lemma good_upd st0 st t i f :
  good st0 st t ->
  (forall o0 o, nth_error st0 i = Some o0 -> ext o0 o -> ext o0 (f o)) ->
  (In i t \/ (forall o0, nth_error st0 i = Some o0 -> wf_objT o0 -> f o0 = o0)) ->
  good st0 (updT i f st) t.
Proof.
  intros (Hl & H) Hf Hd. split; [rewrite length_upd; auto|].
  intros j o0 Ho. destruct (H j o0 Ho) as (o & Hn & He & Hdj).
  destruct (Nat.eq_dec i j) as [->|Hne].
  - exists (f o). rewrite nth_error_upd_same, Hn. simpl. split; [reflexivity|]. split; [apply Hf; auto|].
    destruct Hd as [Hd | Hd]; [right; exact Hd|].
    destruct Hdj as [-> | Hdj]; [left; apply Hd; auto; eapply ext_wf; eauto | right; exact Hdj].
  - exists o. rewrite nth_error_upd_other by exact Hne. split; [exact Hn|]. split; [exact He|exact Hdj].
Qed.

Lemma loop_full_good st0 t f l : forall st,
  good st0 st t ->
  (forall i m0 o0 o, In (i, m0) l -> nth_error st0 i = Some o0 -> ext o0 o -> ext o0 (f m0 o)) ->
  (forall i m0, In (i, m0) l ->
     In i t \/ (forall o0, nth_error st0 i = Some o0 -> wf_objT o0 -> f m0 o0 = o0)) ->
  good st0 (loop_fullT f l st) t.
Proof.
  induction l as [|[i m0] l IH]; intros st Hg Hf Hd; simpl; auto.
  unfold loop_full in *. simpl. apply IH.
  - apply good_upd; auto.
    + intros o0 o Ho He. eapply Hf; eauto. left; reflexivity.
    + apply (Hd i m0). left; reflexivity.
  - intros; eapply Hf; eauto. right; eauto.
  - intros; eapply Hd; eauto. right; eauto.
Qed.

Lemma In_select ps (l : list (nat * nat)) x : In x (select ps l) -> In x l.
Proof.
  unfold select. intros H. apply in_flat_map in H. destruct H as (j & _ & H).
  destruct (nth_error l j) as [y|] eqn:E; simpl in H; [|contradiction].
  destruct H as [<-|[]]. eapply nth_error_In; eauto.
Qed.

Lemma loop_crash_good st0 t f fh l lc st :
  good st0 st t ->
  (forall i m0 o0 o, In (i, m0) l -> nth_error st0 i = Some o0 -> ext o0 o -> ext o0 (f m0 o)) ->
  (forall i m0 o0 o, In (i, m0) l -> nth_error st0 i = Some o0 -> ext o0 o -> ext o0 (fh m0 o)) ->
  (forall i m0, In (i, m0) l ->
     In i t \/
     (forall o0, nth_error st0 i = Some o0 -> wf_objT o0 -> f m0 o0 = o0 /\ fh m0 o0 = o0)) ->
  good st0 (loop_crashT f fh l lc st) t.
Proof.
  intros Hg Hf Hfh Hd. unfold loop_crash.
  assert (H1 : good st0 (loop_fullT f (select (lc_done lc) l) st) t).
  { apply loop_full_good; auto.
    - intros i m0 o0 o Hin. apply Hf. eapply In_select; eauto.
    - intros i m0 Hin. destruct (Hd i m0) as [Hx | Hx]; [eapply In_select; eauto | left; auto |].
      right. intros o0 Ho Hw. apply (Hx o0 Ho Hw). }
  destruct (lc_half lc) as [j|]; auto.
  destruct (nth_error l j) as [[i m0]|] eqn:En; auto.
  apply nth_error_In in En. simpl. apply good_upd; auto.
  - intros o0 o. apply Hfh. exact En.
  - destruct (Hd i m0 En) as [Hx | Hx]; [left; auto|]. right. intros o0 Ho Hw. apply (Hx o0 Ho Hw).
Qed.

Lemma trim_all_restores st0 l : fix_storeT st0 ->
  forall st, good st0 st (map fst l) -> lens_ok st0 l -> trim_allT l st = st0.
Proof.
  intros Hfix. unfold fix_store in Hfix. rewrite Forall_forall in Hfix.
  induction l as [|[i m0] l IH]; intros st (Hl & Hg) Hk.
  - simpl. apply nth_error_ext_eq; auto. intros j o0 Ho.
    destruct (Hg j o0 Ho) as (o & Hn & _ & [-> | []]). exact Hn.
  - unfold trim_all, loop_full in *. simpl. apply IH.
    + split; [rewrite length_upd; auto|]. intros j o0 Ho.
      destruct (Hg j o0 Ho) as (o & Hn & He & Hd).
      destruct (Nat.eq_dec i j) as [->|Hne].
      * exists o0. rewrite nth_error_upd_same, Hn. simpl.
        rewrite (Hk j m0 o0 (or_introl eq_refl) Ho).
        rewrite (ext_trim_eq o0 o He (Hfix o0 (nth_error_In _ _ Ho))).
        split; [reflexivity|]. split; [apply ext_refl; eapply ext_wf; eauto | left; reflexivity].
      * exists o. rewrite nth_error_upd_other by exact Hne. split; [exact Hn|]. split; [exact He|].
        destruct Hd as [Hd | [Hd | Hd]]; [left; auto | simpl in Hd; congruence | right; auto].
    + intros j m o0 Hin. apply Hk. right; exact Hin.
Qed.

Lemma restore_all_restores st0 l : forall st,
  good st0 st (map fst l) -> saved_ok st0 l -> restore_allT l st = st0.
Proof.
  induction l as [|[i pq] l IH]; intros st (Hl & Hg) Hk.
  - simpl. apply nth_error_ext_eq; auto. intros j o0 Ho.
    destruct (Hg j o0 Ho) as (o & Hn & _ & [-> | []]). exact Hn.
  - unfold restore_all in *. simpl. apply IH.
    + split; [rewrite length_upd; auto|]. intros j o0 Ho.
      destruct (Hg j o0 Ho) as (o & Hn & He & Hd).
      destruct (Nat.eq_dec i j) as [->|Hne].
      * exists o0. rewrite nth_error_upd_same, Hn. simpl.
        rewrite (Hk j pq o0 (or_introl eq_refl) Ho). unfold set_paths; simpl.
        destruct He as (_ & _ & Ha & Hw & _). rewrite Ha.
        split; [destruct o0; reflexivity|]. split; [apply ext_refl; exact Hw | left; reflexivity].
      * exists o. rewrite nth_error_upd_other by exact Hne. split; [exact Hn|]. split; [exact He|].
        destruct Hd as [Hd | [Hd | Hd]]; [left; auto | simpl in Hd; congruence | right; auto].
    + intros j m o0 Hin. apply Hk. right; exact Hin.
Qed.

(* ---- invariant on machine states *)
Definition cov (w : wrapper) (m : mstateT) : list nat :=
  match w with
  | WPlain => []
  | WFinallyTrim => map fst (m_tiled V Q A GV m)
  | WFinallyRestore => map fst (m_saved V Q A GV m)
  end.

Definition Inv (w : wrapper) (st0 : storeT) (recorded dirty : bool) (m : mstateT) : Prop :=
  good st0 (m_store V Q A GV m) (cov w m) /\
  lens_ok st0 (m_tiled V Q A GV m) /\
  saved_ok st0 (m_saved V Q A GV m) /\
  lens_ok st0 (m_reset V Q A GV m) /\
  (dirty = false -> m_store V Q A GV m = st0) /\
  (recorded = true -> incl (map fst (m_reset V Q A GV m)) (cov w m)).

Definition InvF (w : wrapper) (st0 : storeT) (m : mstateT) : Prop :=
  good st0 (m_store V Q A GV m) (cov w m) /\ lens_ok st0 (m_tiled V Q A GV m) /\
  saved_ok st0 (m_saved V Q A GV m).

Lemma Inv_InvF w st0 r d m : Inv w st0 r d m -> InvF w st0 m.
Proof. intros (H1 & H2 & H3 & _). split; auto. Qed.

Lemma Inv_intro w st0 recorded dirty (m : mstateT) :
  good st0 (m_store V Q A GV m) (cov w m) ->
  lens_ok st0 (m_tiled V Q A GV m) ->
  saved_ok st0 (m_saved V Q A GV m) ->
  lens_ok st0 (m_reset V Q A GV m) ->
  (dirty = false -> m_store V Q A GV m = st0) ->
  (recorded = true -> incl (map fst (m_reset V Q A GV m)) (cov w m)) ->
  Inv w st0 recorded dirty m.
Proof. intros. unfold Inv. tauto. Qed.

Lemma reset_list_lens (st : storeT) srcs sens i m0 :
  In (i, m0) (reset_list V Q A st srcs sens) -> m0 = plen V Q A st i.
Proof.
  unfold reset_list. intros H. apply in_flat_map in H. destruct H as (x & _ & H).
  destruct (Nat.eqb _ _); simpl in H; [contradiction|]. destruct H as [H|[]]. congruence.
Qed.

Definition res_ok (w : wrapper) (st0 : storeT) (r : list instr) (x : res V Q A GV Val) : Prop :=
  match x with
  | Cont _ _ _ _ _ m' => exists rec' dirty', prog_ok w rec' dirty' r = true /\ Inv w st0 rec' dirty' m'
  | Ret _ _ _ _ _ _ m' => InvF w st0 m'
  | Exc _ _ _ _ _ _ m' => InvF w st0 m'
  end.

Lemma exec_ro_ok w st0 c i m recorded dirty r :
  prog_ok w recorded dirty r = true -> Inv w st0 recorded dirty m ->
  res_ok w st0 r
    match exec_roT c i (m_store V Q A GV m) (m_M V Q A GV m) (m_env V Q A GV m) (m_cnt V Q A GV m)
                   (m_trace V Q A GV m) with
    | RCont _ _ e cnt tr => Cont V Q A GV Val (mkM V Q A GV (m_store V Q A GV m) (m_tiled V Q A GV m)
                                (m_saved V Q A GV m) (m_reset V Q A GV m) (m_M V Q A GV m) e cnt tr)
    | RRet _ _ v cnt tr => Ret V Q A GV Val v (mkM V Q A GV (m_store V Q A GV m) (m_tiled V Q A GV m)
                                (m_saved V Q A GV m) (m_reset V Q A GV m) (m_M V Q A GV m)
                                (m_env V Q A GV m) cnt tr)
    | RExc _ _ x cnt tr => Exc V Q A GV Val x (mkM V Q A GV (m_store V Q A GV m) (m_tiled V Q A GV m)
                                (m_saved V Q A GV m) (m_reset V Q A GV m) (m_M V Q A GV m)
                                (m_env V Q A GV m) cnt tr)
    end.
Proof.
  intros Hp Hi. destruct (exec_roT c i _ _ _ _ _); simpl.
  - exists recorded, dirty. split; [exact Hp|]. destruct w; exact Hi.
  - destruct w; eapply Inv_InvF; eauto.
  - destruct w; eapply Inv_InvF; eauto.
Qed.

Lemma in_map_fst {B} i (b : B) (l : list (nat * B)) : In (i, b) l -> In i (map fst l).
Proof. intros H. change i with (fst (i, b)). apply in_map, H. Qed.

Lemma exec_inv w st0 c sch pc i r m recorded dirty :
  prog_ok w recorded dirty (i :: r) = true -> Inv w st0 recorded dirty m ->
  res_ok w st0 r (execT c sch pc i m).
Proof.
  intros Hp Hi. unfold exec. destruct (s_anon sch pc).
  { simpl. eapply Inv_InvF; eauto. }
  destruct i; simpl in Hp;
    try (apply (exec_ro_ok w st0 c _ m recorded dirty r Hp Hi)).
  - (* IPathLens *)
    apply andb_prop in Hp. destruct Hp as [Hd Hp]. apply negb_true_iff in Hd. subst dirty.
    destruct Hi as (Hg & Ht & Hs & Hr & Hc & Hinc). simpl. exists false, false. split; [exact Hp|].
    apply Inv_intro; simpl.
    + destruct w; exact Hg.
    + exact Ht.
    + exact Hs.
    + intros j m0 o0 Hin Ho. apply reset_list_lens in Hin. rewrite (Hc eq_refl) in Hin.
      unfold plen in Hin. rewrite Ho in Hin. exact Hin.
    + exact Hc.
    + discriminate.
  - (* IRecord *)
    destruct Hi as (Hg & Ht & Hs & Hr & Hc & Hinc). simpl. exists (is_trim w), dirty. split; [exact Hp|].
    apply Inv_intro; simpl.
    + eapply good_mono; [|exact Hg]. destruct w; simpl; try apply incl_refl.
      rewrite map_app. apply incl_appl, incl_refl.
    + intros j m0 o0 Hin Ho. apply in_app_or in Hin. destruct Hin; [eapply Ht | eapply Hr]; eauto.
    + exact Hs.
    + exact Hr.
    + exact Hc.
    + destruct w; simpl; try discriminate. intros _. rewrite map_app. apply incl_appr, incl_refl.
  - (* IRecordOrig *)
    apply andb_prop in Hp. destruct Hp as [Hd Hp]. apply negb_true_iff in Hd. subst dirty.
    destruct Hi as (Hg & Ht & Hs & Hr & Hc & Hinc). specialize (Hc eq_refl).
    simpl. exists (is_restore w), false. split; [exact Hp|].
    apply Inv_intro; simpl.
    + eapply good_mono; [|exact Hg]. destruct w; simpl; try apply incl_refl.
      rewrite map_app. apply incl_appl, incl_refl.
    + exact Ht.
    + intros j pq o0 Hin Ho. apply in_app_or in Hin. destruct Hin as [Hin|Hin]; [eapply Hs; eauto|].
      apply in_map_iff in Hin. destruct Hin as ([j' m0] & Heq & _). simpl in Heq.
      injection Heq as Hj Hpq. rewrite <- Hpq, Hj, Hc. unfold paths_of. rewrite Ho. reflexivity.
    + exact Hr.
    + intros _. exact Hc.
    + destruct w; simpl; try discriminate. intros _. rewrite map_app, map_map. simpl.
      apply incl_appr, incl_refl.
  - (* ITile *)
    apply andb_prop in Hp. destruct Hp as [Hrec Hp]. subst recorded.
    destruct Hi as (Hg & Ht & Hs & Hr & Hc & Hinc). specialize (Hinc eq_refl).
    assert (Hcov : forall st', cov w (with_store V Q A GV m st') = cov w m) by (intros; destruct w; reflexivity).
    assert (Hfull : good st0 (loop_fullT (fun m0 => tile_objT (m_M V Q A GV m - m0))
                                 (m_reset V Q A GV m) (m_store V Q A GV m)) (cov w m)).
    { apply loop_full_good; auto.
      - intros; apply ext_tile_obj; auto.
      - intros j m0 Hin. left. apply Hinc. eapply in_map_fst; eauto. }
    destruct (1 <? m_M V Q A GV m).
    + destruct (s_loop sch pc) as [lc|].
      * simpl. unfold InvF. rewrite Hcov. simpl. split; [|split; [exact Ht|exact Hs]].
        apply loop_crash_good; auto.
        -- intros; apply ext_tile_obj; auto.
        -- intros; apply ext_tile_pos; auto.
        -- intros j m0 Hin. left. apply Hinc. eapply in_map_fst; eauto.
      * simpl. exists true, true. split; [exact Hp|].
        apply Inv_intro; rewrite ?Hcov; simpl.
        -- exact Hfull.
        -- exact Ht.
        -- exact Hs.
        -- exact Hr.
        -- discriminate.
        -- intros _. exact Hinc.
    + simpl. exists true, true. split; [exact Hp|].
      apply Inv_intro; simpl.
      * exact Hg.
      * exact Ht.
      * exact Hs.
      * exact Hr.
      * discriminate.
      * intros _. exact Hinc.
  - (* ITrim *)
    destruct Hi as (Hg & Ht & Hs & Hr & Hc & Hinc).
    assert (Hcov : forall st', cov w (with_store V Q A GV m st') = cov w m) by (intros; destruct w; reflexivity).
    assert (Hfull : good st0 (loop_fullT trim_objT (m_reset V Q A GV m) (m_store V Q A GV m)) (cov w m)).
    { apply loop_full_good; auto.
      - intros j m0 o0 o Hin Ho He. rewrite (Hr j m0 o0 Hin Ho). apply ext_trim_obj, He.
      - intros j m0 Hin. right. intros o0 Ho Hw. rewrite (Hr j m0 o0 Hin Ho).
        apply trim_obj_self, Hw. }
    destruct (s_loop sch pc) as [lc|].
    + simpl. unfold InvF. rewrite Hcov. simpl. split; [|split; [exact Ht|exact Hs]].
      apply loop_crash_good; auto.
      * intros j m0 o0 o Hin Ho He. rewrite (Hr j m0 o0 Hin Ho). apply ext_trim_obj, He.
      * intros j m0 o0 o Hin Ho He. rewrite (Hr j m0 o0 Hin Ho). apply ext_trim_pos, He.
      * intros j m0 Hin. right. intros o0 Ho Hw. rewrite (Hr j m0 o0 Hin Ho). split.
        -- apply trim_obj_self, Hw.
        -- apply trim_pos_self, Hw.
    + simpl. exists recorded, true. split; [exact Hp|].
      apply Inv_intro; rewrite ?Hcov; simpl.
      * exact Hfull.
      * exact Ht.
      * exact Hs.
      * exact Hr.
      * discriminate.
      * exact Hinc.
Qed.

Lemma run_body_inv w st0 c sch : forall p pc m recorded dirty,
  prog_ok w recorded dirty p = true -> Inv w st0 recorded dirty m ->
  match run_bodyT c sch pc p m with
  | Cont _ _ _ _ _ m' => InvF w st0 m'
  | Ret _ _ _ _ _ _ m' => InvF w st0 m'
  | Exc _ _ _ _ _ _ m' => InvF w st0 m'
  end.
Proof.
  induction p as [|i r IH]; intros pc m recorded dirty Hp Hi; simpl.
  - eapply Inv_InvF; eauto.
  - pose proof (exec_inv w st0 c sch pc i r m recorded dirty Hp Hi) as H.
    destruct (execT c sch pc i m) as [m'|v m'|x m']; simpl in H; auto.
    destruct H as (rec' & dirty' & Hp' & Hi'). eapply IH; eauto.
Qed.

Lemma init_inv w st cnt : wf_storeT st ->
  Inv w st false false (mkM V Q A GV st [] [] [] 0 (env0 GV) cnt []).
Proof.
  intros Hw. apply Inv_intro; simpl; auto.
  - apply good_init, Hw.
  - intros ? ? ? [].
  - intros ? ? ? [].
  - intros ? ? ? [].
  - intros _. apply incl_nil_l.
Qed.

(* every exit of the wrapped function leaves the store as it found it; a finally that keeps a slice of the
   tiled (re-normalised) orientation needs the stored quaternions to be fixed points of the
   re-normalisation, a finally that puts the original objects back needs nothing *)
Theorem state_restored w p c sch cnt st :
  wrapper_ok w p = true -> wf_storeT st -> (w = WFinallyTrim -> fix_storeT st) ->
  r_store V Q A Val (level2T w p c sch cnt st) = st.
Proof.
  intros Hp Hw Hfix. unfold getBH_level2, wrapper_ok in *.
  pose proof (run_body_inv w st c sch p 0 _ false false Hp (init_inv w st cnt Hw)) as H.
  destruct (run_bodyT c sch 0 p _) as [m'|v m'|x m']; simpl;
    destruct H as (Hg & Hk & Hs); destruct w; simpl in *;
    solve [ apply trim_all_restores; auto | apply restore_all_restores; auto
          | destruct Hg as (Hl & Hg); apply nth_error_ext_eq; auto; intros j o0 Ho;
            destruct (Hg j o0 Ho) as (o & Hn & _ & [-> | []]); exact Hn ].
Qed.

(* ... and therefore calling again (same arguments, same behaviour of the field functions) gives the
   identical outcome, value, trace and state *)
Theorem second_call_identical w p c sch cnt st :
  wrapper_ok w p = true -> wf_storeT st -> (w = WFinallyTrim -> fix_storeT st) ->
  level2T w p c sch cnt (r_store V Q A Val (level2T w p c sch cnt st)) = level2T w p c sch cnt st.
Proof. intros Hp Hw Hf. rewrite state_restored by assumption. reflexivity. Qed.

(* the body alone, whatever the wrapper does afterwards: attributes are never written and the old
   paths stay prefixes of the new ones at every exit *)
Theorem plain_only_extends w p c sch cnt st :
  wrapper_ok w p = true -> wf_storeT st ->
  let st' := r_store V Q A Val (level2T WPlain p c sch cnt st) in
  length st' = length st /\
  forall i o0, nth_error st i = Some o0 -> exists o, nth_error st' i = Some o /\ ext o0 o.
Proof.
  intros Hp Hw. unfold getBH_level2, wrapper_ok in *.
  pose proof (run_body_inv w st c sch p 0 _ false false Hp (init_inv w st cnt Hw)) as H.
  destruct (run_bodyT c sch 0 p _) as [m'|v m'|x m']; simpl;
    destruct H as ((Hl & Hg) & _); (split; [exact Hl|]);
    intros i o0 Ho; destruct (Hg i o0 Ho) as (o & Hn & He & _); exists o; auto.
Qed.

End Proofs.
