(* C20 -- defaults.reset(): on the whole generated settings schema, and after ARBITRARY histories *)
From Coq Require Import ZArith List Bool String Ascii.
From MV Require Import Lib.STree Model.StyleModel Gen.GenStyle Model.StyleExec Model.StyleSpec.
Import ListNotations.
Open Scope string_scope.
Open Scope list_scope.

Lemma literal_all_ok : literal_all = true.
Proof. vm_compute. reflexivity. Qed.

Lemma reset_all_ok : reset_all = true.
Proof. vm_cast_no_check (eq_refl true). Qed.

(* ---------------------------------------------------------------- reset does not look at the current settings *)
(* whatever the `display` object currently is (t0 is a variable), reset() yields the pristine settings *)
Lemma reset_any_state : forall t0 : tree,
  reset cenv reset_mode defaults_schema (Node [("display", t0)]) DEFAULTS = (pristine, None).
Proof. intro t0. vm_compute. reflexivity. Qed.

(* ---------------------------------------------------------------- every operation keeps the settings of that form *)
Definition shape_d (sd : dict) : bool :=
  match sd with [(k, _)] => String.eqb k "display" | _ => false end.
Definition def_shape (d : tree) : bool := match d with Node sd => shape_d sd | Leaf _ => false end.

Lemma def_shape_inv d : def_shape d = true -> exists t0, d = Node [("display", t0)].
Proof.
  destruct d as [o|[|[k t] [|x r]]]; simpl; try discriminate.
  intros H. apply String.eqb_eq in H. subst. eauto.
Qed.

Lemma dset_shape sd t : shape_d sd = true -> shape_d (dset "display" t sd) = true.
Proof.
  destruct sd as [|[k0 t0] [|x r]]; simpl; try discriminate.
  intros H. apply String.eqb_eq in H. subst k0. reflexivity.
Qed.

Section Shape.
Variable sp : schema.
Hypothesis Hna : (match sp with SAlias _ _ _ => false | _ => true end) = true.
Let props : list (string * schema) := [("display", sp)].

Lemma slookup_top k s0 : slookup k props = Some s0 -> k = "display".
Proof.
  unfold props. simpl. destruct (String.eqb k "display") eqn:E; [|discriminate].
  intros _. apply String.eqb_eq. exact E.
Qed.

Lemma setattr_shape sd k v sd' :
  shape_d sd = true -> setattr cenv props sd k v = inl sd' -> shape_d sd' = true.
Proof.
  intros Hs H. unfold setattr in H.
  destruct (slookup k props) as [s0|] eqn:E; [|discriminate H].
  pose proof (slookup_top k s0 E) as Hk. subst k.
  unfold props in E. simpl in E. inversion E; subst s0. clear E.
  destruct sp as [kd|tg kd vis|cn a b ct ps]; [|discriminate Hna|].
  - destruct (set_into cenv (SLeaf kd) v) as [t|e]; [|discriminate H].
    inversion H; subst. apply dset_shape. exact Hs.
  - destruct (set_into cenv (SObj cn a b ct ps) v) as [t|e]; [|discriminate H].
    inversion H; subst. apply dset_shape. exact Hs.
Qed.

Lemma apply_items_shape items : forall sd,
  shape_d sd = true -> shape_d (fst (apply_items cenv props items sd)) = true.
Proof.
  induction items as [|[k v] r IH]; intros sd Hs; simpl; [exact Hs|].
  destruct (setattr cenv props sd k v) as [sd'|e] eqn:E.
  - apply IH. exact (setattr_shape sd k v sd' Hs E).
  - simpl. exact Hs.
Qed.

Variables (cn : string) (a b : bool) (ct : list (string * option val)).
Let S0 : schema := SObj cn a b ct props.

Lemma update_shape st arg m r :
  def_shape st = true -> def_shape (fst (update cenv S0 st arg m r)) = true.
Proof.
  intros Hs. destruct st as [o|sd]; [discriminate Hs|]. unfold update, S0.
  match goal with |- context [und ?x1 ?x2 ?x3 ?x4] => destruct (und x1 x2 x3 x4) as [o|new] end.
  - simpl. exact Hs.
  - pose proof (apply_items_shape new sd Hs) as H.
    destruct (apply_items cenv props new sd) as [sd' e]. simpl in *. exact H.
Qed.

Lemma update_at_shape sub st arg :
  def_shape st = true -> def_shape (fst (update_at S0 st sub arg)) = true.
Proof.
  intros Hs. destruct sub as [|k r].
  - cbn [update_at]. apply update_shape. exact Hs.
  - destruct st as [o|sd]; [discriminate Hs|]. unfold S0. cbn [update_at].
    destruct (slookup k props) as [s1|] eqn:E1; [|exact Hs].
    destruct (dget k sd) as [t|] eqn:E2; [|exact Hs].
    pose proof (slookup_top k s1 E1) as Hk. subst k.
    destruct (update_at s1 t r arg) as [t' e]. simpl. apply dset_shape. exact Hs.
Qed.

Lemma assign_shape p st v t' :
  def_shape st = true -> assign cenv S0 st p v = inl t' -> def_shape t' = true.
Proof.
  intros Hs H. destruct st as [o|sd]; [discriminate Hs|]. unfold S0 in H.
  destruct p as [|k [|k' p']]; cbn [assign] in H.
  - discriminate H.
  - destruct (setattr cenv props sd k v) as [sd'|e] eqn:E; [|discriminate H].
    inversion H; subst. simpl. exact (setattr_shape sd k v sd' Hs E).
  - destruct (slookup k props) as [s1|] eqn:E1; [|discriminate H].
    destruct (dget k sd) as [t|] eqn:E2; [|discriminate H].
    pose proof (slookup_top k s1 E1) as Hk. subst k.
    match type of H with
    | (match ?X with inl _ => _ | inr _ => _ end) = _ => destruct X as [t1|e]; [|discriminate H]
    end.
    inversion H; subst. simpl. apply dset_shape. exact Hs.
Qed.
End Shape.

(* the generated settings schema has exactly one top-level property, `display`, a sub-object *)
Lemma dschema_form :
  exists cn a b ct sp, defaults_schema = SObj cn a b ct [("display", sp)] /\
                       (match sp with SAlias _ _ _ => false | _ => true end) = true.
Proof. unfold defaults_schema. do 5 eexists. split; reflexivity. Qed.

Lemma pristine_shape : def_shape pristine = true.
Proof. vm_compute. reflexivity. Qed.

Lemma step_keeps_shape cls w o :
  def_shape (w_def w) = true -> def_shape (w_def (fst (step cls w o))) = true.
Proof.
  intros Hs. destruct dschema_form as [cn [a [b [ct [sp [Hd Hna]]]]]].
  destruct o as [[|] sub arg|[|] p v|arg|arg| | |kw]; unfold step.
  - pose proof (update_at_shape sp Hna cn a b ct sub (w_def w) arg Hs) as H. rewrite <- Hd in H.
    destruct (update_at defaults_schema (w_def w) sub arg) as [t e]. simpl in *. exact H.
  - destruct (update_at (class_schema cls) (w_obj w) sub arg) as [t e]. simpl. exact Hs.
  - destruct (assign cenv defaults_schema (w_def w) p v) as [t|e] eqn:E; simpl.
    + rewrite Hd in E. exact (assign_shape sp Hna cn a b ct p (w_def w) v t Hs E).
    + exact Hs.
  - destruct (lift_res (w_obj w) (assign cenv (class_schema cls) (w_obj w) p v)) as [t e]. simpl. exact Hs.
  - destruct (set_style cenv style_setter_takes_instance (class_schema cls) (w_obj w) (SDict arg)) as [t e].
    simpl. exact Hs.
  - match goal with |- context [update ?a ?b ?c ?d ?e ?f] => destruct (update a b c d e f) as [inst [e0|]] end.
    + simpl. exact Hs.
    + destruct (set_style cenv style_setter_takes_instance (class_schema cls) (w_obj w) (SInst inst)) as [t e].
      simpl. exact Hs.
  - destruct (set_style cenv style_setter_takes_instance (class_schema cls) (w_obj w) SWrong) as [t e].
    simpl. exact Hs.
  - destruct (def_shape_inv _ Hs) as [t0 Ht]. rewrite Ht. rewrite reset_any_state.
    cbn [fst snd w_def]. exact pristine_shape.
  - destruct (get_style cenv (class_schema cls) (class_families cls) dstyle_schema
                        (def_style_state (w_def w)) valid_keys (w_obj w) (show_style_kwargs kw)) as [t e].
    simpl. exact Hs.
Qed.

Lemma run_keeps_shape cls ops : forall w,
  def_shape (w_def w) = true -> def_shape (w_def (run_world cls w ops)) = true.
Proof.
  induction ops as [|o r IH]; intros w Hs; simpl; [exact Hs|].
  apply IH. apply step_keeps_shape. exact Hs.
Qed.

(* after ANY history of operations (on the object, on the settings, resets, resolutions) starting from the
   import-time settings, reset() gives exactly the import-time settings, without error *)
Lemma reset_after_any_history cls ops w_obj0 :
  let w := run_world cls (mkW pristine w_obj0) ops in
  w_def (fst (step cls w OReset)) = pristine /\ o_err (snd (step cls w OReset)) = None.
Proof.
  intros w.
  assert (Hs : def_shape (w_def w) = true) by (apply run_keeps_shape; exact pristine_shape).
  destruct (def_shape_inv _ Hs) as [t0 Ht].
  unfold step. rewrite Ht. rewrite reset_any_state. cbn [fst snd w_def o_err]. split; reflexivity.
Qed.

(* ---------------------------------------------------------------- record: the variant before f095e9f (merge) *)
Definition p_label : path := ["display"; "style"; "markers"; "color"].

Lemma reset_merge_variant_witness :
  In (p_label, KColor, false) (sleaves defaults_schema) /\ in_literal p_label = false /\
  reset_holds_m RMerge p_label (VStr "red") NAttr = false /\
  reset_holds_m RRebuild p_label (VStr "red") NAttr = true.
Proof.
  split; [|split; [|split]]; try (vm_compute; reflexivity).
  apply (nth_error_In _ (leaf_index defaults_schema p_label)). vm_compute. reflexivity.
Qed.
