(* C20 -- defaults.reset(), on the whole generated settings schema *)
From Coq Require Import ZArith List Bool String Ascii.
From MV Require Import Lib.STree Model.StyleModel Gen.GenStyle Model.StyleExec Model.StyleSpec.
Import ListNotations.
Open Scope string_scope.
Open Scope list_scope.

Lemma forallb_In {A} (f : A -> bool) l x : forallb f l = true -> In x l -> f x = true.
Proof. intros H Hx. exact (proj1 (forallb_forall f l) H x Hx). Qed.

Ltac fa H x Hx := let H' := fresh in pose proof (forallb_In _ _ x H Hx) as H'; cbv beta in H'; clear H; rename H' into H.

Lemma literal_all_ok : literal_all = true.
Proof. vm_compute. reflexivity. Qed.

Lemma literal_forall p k al : In (p, k, al) (sleaves defaults_schema) -> literal_holds p k = true.
Proof. intros H1. pose proof literal_all_ok as H. unfold literal_all in H. fa H (p, k, al) H1. exact H. Qed.

Lemma reset_all_ok : reset_all = true.
Proof. vm_compute. reflexivity. Qed.

Lemma reset_forall p k al v n :
  In (p, k, al) (sleaves defaults_schema) -> in_literal p = true -> shadowed defaults_schema p = false ->
  In v (two k) -> In n (notations_coarse p) -> reset_holds p v n = true.
Proof.
  intros H1 Hl Hs H2 H3. pose proof reset_all_ok as H. unfold reset_all in H.
  fa H (p, k, al) H1. apply orb_prop in H. destruct H as [Hc|H]; [apply orb_prop in Hc; destruct Hc as [Hc|Hc]|].
  - assert (X : negb (in_literal p) = true) by exact Hc. rewrite Hl in X. discriminate X.
  - assert (X : shadowed defaults_schema p = true) by exact Hc. rewrite Hs in X. discriminate X.
  - fa H v H2. fa H n H3. exact H.
Qed.

Lemma reset_none_outside_ok : reset_none_outside = true.
Proof. vm_compute. reflexivity. Qed.

Lemma reset_outside_forall p k al v :
  In (p, k, al) (sleaves defaults_schema) -> in_literal p = false -> In v (two k) -> reset_holds p v NAttr = false.
Proof.
  intros H1 Hl H2. pose proof reset_none_outside_ok as H. unfold reset_none_outside in H.
  fa H (p, k, al) H1. apply orb_prop in H. destruct H as [Hc|H].
  - assert (X : in_literal p = true) by exact Hc. rewrite Hl in X. discriminate X.
  - fa H v H2. assert (X : negb (reset_holds p v NAttr) = true) by exact H.
    destruct (reset_holds p v NAttr); [discriminate X|reflexivity].
Qed.

Definition p_label : path := ["display"; "style"; "base"; "label"].
Definition p_msize : path := ["display"; "style"; "magnet"; "magnetization"; "arrow"; "size"].

Lemma reset_outside_witness :
  In (p_label, KToStr, false) (sleaves defaults_schema) /\ in_literal p_label = false /\
  reset_holds p_label (VStr "lbl") NAttr = false.
Proof.
  split; [|split; vm_compute; reflexivity].
  apply (nth_error_In _ (leaf_index defaults_schema p_label)). vm_compute. reflexivity.
Qed.

Lemma reset_alias_witness :
  In (p_msize, KNumGe0, false) (sleaves defaults_schema) /\ in_literal p_msize = true /\
  In (VInt 2) (two KNumGe0) /\ reset_holds p_msize (VInt 2) NAttr = false.
Proof.
  split; [|split; [vm_compute; reflexivity|split; [left; reflexivity|vm_compute; reflexivity]]].
  apply (nth_error_In _ (leaf_index defaults_schema p_msize)). vm_compute. reflexivity.
Qed.
