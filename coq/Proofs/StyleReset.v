(* C20 -- defaults.reset(), on the whole generated settings schema *)
From Coq Require Import ZArith List Bool String Ascii.
From MV Require Import Lib.STree Model.StyleModel Gen.GenStyle Model.StyleExec Model.StyleSpec.
Import ListNotations.
Open Scope string_scope.
Open Scope list_scope.

Ltac fa H x Hx := rewrite forallb_forall in H; specialize (H x Hx); cbn [fst snd] in H.

Lemma literal_all_ok : literal_all = true.
Proof. vm_compute. reflexivity. Qed.

Lemma literal_forall p k al : In (p, k, al) (sleaves defaults_schema) -> literal_holds p k = true.
Proof. intros H1. pose proof literal_all_ok as H. unfold literal_all in H. fa H (p, k, al) H1. exact H. Qed.

Lemma reset_all_ok : reset_all = true.
Proof. vm_compute. reflexivity. Qed.

Lemma reset_forall p k al v n :
  In (p, k, al) (sleaves defaults_schema) -> in_literal p = true -> shadowed defaults_schema p = false ->
  In v (two k) -> In n (notations_coarse p) -> reset_holds p v n = true.
Proof.
  intros H1 Hl Hs H2 H3. pose proof reset_all_ok as H. unfold reset_all in H.
  fa H (p, k, al) H1. rewrite Hl, Hs in H. cbn [negb orb] in H. fa H v H2. fa H n H3. exact H.
Qed.

Lemma reset_none_outside_ok : reset_none_outside = true.
Proof. vm_compute. reflexivity. Qed.

Lemma reset_outside_forall p k al v :
  In (p, k, al) (sleaves defaults_schema) -> in_literal p = false -> In v (two k) -> reset_holds p v NAttr = false.
Proof.
  intros H1 Hl H2. pose proof reset_none_outside_ok as H. unfold reset_none_outside in H.
  fa H (p, k, al) H1. rewrite Hl in H. rewrite orb_false_l in H. fa H v H2.
  destruct (reset_holds p v NAttr); [discriminate|reflexivity].
Qed.

Lemma reset_outside_witness :
  In (["display"; "style"; "base"; "label"], KToStr, false) (sleaves defaults_schema) /\
  in_literal ["display"; "style"; "base"; "label"] = false /\
  reset_holds ["display"; "style"; "base"; "label"] (VStr "lbl") NAttr = false.
Proof. repeat split; vm_compute; tauto. Qed.

Lemma reset_alias_witness :
  In (["display"; "style"; "magnet"; "magnetization"; "arrow"; "size"], KNumGe0, false) (sleaves defaults_schema) /\
  in_literal ["display"; "style"; "magnet"; "magnetization"; "arrow"; "size"] = true /\
  reset_holds ["display"; "style"; "magnet"; "magnetization"; "arrow"; "size"] (VInt 2) NAttr = false.
Proof. repeat split; vm_compute; tauto. Qed.
