(* C20 -- defaults.reset(), on the whole generated settings schema *)
From Coq Require Import ZArith List Bool String Ascii.
From MV Require Import Lib.STree Model.StyleModel Gen.GenStyle Model.StyleExec Model.StyleSpec.
Import ListNotations.
Open Scope string_scope.
Open Scope list_scope.

Lemma literal_all_ok : literal_all = true.
Proof. vm_compute. reflexivity. Qed.

Lemma reset_all_ok : reset_all = true.
Proof. vm_cast_no_check (eq_refl true). Qed.

Lemma reset_none_outside_ok : reset_none_outside = true.
Proof. vm_cast_no_check (eq_refl true). Qed.

Definition p_label : path := ["display"; "style"; "base"; "label"].
Definition p_msize : path := ["display"; "style"; "magnet"; "magnetization"; "arrow"; "size"].

Lemma reset_outside_witness :
  In (p_label, KToStr, false) (sleaves defaults_schema) /\ in_literal p_label = false /\
  reset_holds p_label (VStr "lbl") NAttr = false.
Proof.
  split; [|split; vm_compute; reflexivity].
  apply (nth_error_In _ (leaf_index defaults_schema p_label)). vm_compute. reflexivity.
Qed.

Lemma reset_alias_witness :
  In (p_msize, KNumGe0, false) (sleaves defaults_schema) /\ in_literal p_msize = true /\
  In (VInt 2) (two KNumGe0) /\ reset_holds p_msize (VInt 2) NAttr = false.
Proof.
  split; [|split; [vm_compute; reflexivity|split; [left; reflexivity|vm_compute; reflexivity]]].
  apply (nth_error_In _ (leaf_index defaults_schema p_msize)). vm_compute. reflexivity.
Qed.
