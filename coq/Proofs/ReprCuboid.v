(* C13 (stretch) -- the closed-form terms of magnet_cuboid_Bfield, as TRANSLATED from /repo on this run
   (Gen/GenCuboid.v), are eight-corner sums; hence they are additive when the cuboid is cut by an axis-aligned plane. *)
From Coq Require Import Reals List Lra Psatz Lia.
From MV Require Import Gen.GenCuboid Model.ReprModel Proofs.ReprProofs.
Import ListNotations.
Local Open Scope R_scope.

Section Atan.
Variable at2 : R -> R -> R.

Definition rad (X Y Z : R) : R := sqrt (X ^ 2 + Y ^ 2 + Z ^ 2).
(* corner functions of the three arctan2 sums *)
Definition Fx (X Y Z : R) : R := at2 (Y * Z) (X * rad X Y Z).
Definition Fy (X Y Z : R) : R := at2 (X * Z) (Y * rad X Y Z).
Definition Fz (X Y Z : R) : R := at2 (X * Y) (Z * rad X Y Z).

Definition ff1x (x y z a b c : R) : R := let '(f, _, _, _, _, _) := cuboid_ff at2 x y z a b c in f.
Definition ff1y (x y z a b c : R) : R := let '(_, f, _, _, _, _) := cuboid_ff at2 x y z a b c in f.
Definition ff1z (x y z a b c : R) : R := let '(_, _, f, _, _, _) := cuboid_ff at2 x y z a b c in f.

Lemma ff1x_corner x y z a b c :
  ff1x x y z a b c = - corner_sum Fx (x - a) (x + a) (y - b) (y + b) (z - c) (z + c).
Proof. unfold ff1x, cuboid_ff, corner_sum, Fx, rad. cbv zeta. ring. Qed.
Lemma ff1y_corner x y z a b c :
  ff1y x y z a b c = - corner_sum Fy (x - a) (x + a) (y - b) (y + b) (z - c) (z + c).
Proof. unfold ff1y, cuboid_ff, corner_sum, Fy, rad. cbv zeta. ring. Qed.
Lemma ff1z_corner x y z a b c :
  ff1z x y z a b c = - corner_sum Fz (x - a) (x + a) (y - b) (y + b) (z - c) (z + c).
Proof. unfold ff1z, cuboid_ff, corner_sum, Fz, rad. cbv zeta. ring. Qed.
End Atan.

(* ---------------- the log terms *)
Lemma rad_gt_abs X Y Z : Y <> 0 \/ Z <> 0 -> Rabs X < rad X Y Z.
Proof.
  intros H. unfold rad. rewrite <- (sqrt_Rsqr_abs X). apply sqrt_lt_1_alt. unfold Rsqr. split; [nra|].
  destruct H as [H|H].
  - assert (0 < Y * Y) by nra. nra.
  - assert (0 < Z * Z) by nra. nra.
Qed.

Lemma rad_plus_pos X Y Z : Y <> 0 \/ Z <> 0 -> 0 < X + rad X Y Z.
Proof. intros H. pose proof (rad_gt_abs X Y Z H). pose proof (Rle_abs (- X)). rewrite Rabs_Ropp in *. lra. Qed.
Lemma rad_minus_pos_y X Y Z : X <> 0 \/ Z <> 0 -> 0 < - Y + rad X Y Z.
Proof.
  intros H. replace (rad X Y Z) with (rad Y X Z) by (unfold rad; f_equal; ring).
  pose proof (rad_gt_abs Y X Z H). pose proof (Rle_abs Y). lra.
Qed.
Lemma rad_minus_pos_z X Y Z : X <> 0 \/ Y <> 0 -> 0 < - Z + rad X Y Z.
Proof.
  intros H. replace (rad X Y Z) with (rad Z X Y) by (unfold rad; f_equal; ring).
  pose proof (rad_gt_abs Z X Y H). pose proof (Rle_abs Z). lra.
Qed.

Lemma ln_prod4 p q r s : 0 < p -> 0 < q -> 0 < r -> 0 < s -> ln (p * q * r * s) = ln p + ln q + ln r + ln s.
Proof.
  intros. rewrite !ln_mult; auto; repeat apply Rmult_lt_0_compat; auto.
Qed.

Definition Gx (X Y Z : R) : R := ln (X + rad X Y Z).
Definition Gy (X Y Z : R) : R := ln (- Y + rad X Y Z).
Definition Gz (X Y Z : R) : R := ln (- Z + rad X Y Z).

Definition ff2x (x y z a b c : R) : R := let '(_, _, _, f, _, _) := cuboid_ff (fun _ _ => 0) x y z a b c in f.
Definition ff2y (x y z a b c : R) : R := let '(_, _, _, _, f, _) := cuboid_ff (fun _ _ => 0) x y z a b c in f.
Definition ff2z (x y z a b c : R) : R := let '(_, _, _, _, _, f) := cuboid_ff (fun _ _ => 0) x y z a b c in f.

(* the log terms do not depend on the arctan2 parameter *)
Lemma ff2_indep at2 x y z a b c :
  (let '(_, _, _, f, g, h) := cuboid_ff at2 x y z a b c in (f, g, h)) = (ff2x x y z a b c, ff2y x y z a b c, ff2z x y z a b c).
Proof. reflexivity. Qed.

Definition off_planes (x y z a b c : R) : Prop :=
  x - a <> 0 /\ x + a <> 0 /\ y - b <> 0 /\ y + b <> 0 /\ z - c <> 0 /\ z + c <> 0.

Lemma ff2x_corner x y z a b c : off_planes x y z a b c ->
  ff2x x y z a b c = - corner_sum Gx (x - a) (x + a) (y - b) (y + b) (z - c) (z + c).
Proof.
  intros (Hxa & Hxp & Hyb & Hyp & Hzc & Hzp).
  unfold ff2x, cuboid_ff, corner_sum, Gx. cbv zeta.
  repeat match goal with |- context [sqrt (?X ^ 2 + ?Y ^ 2 + ?Z ^ 2)] => change (sqrt (X ^ 2 + Y ^ 2 + Z ^ 2)) with (rad X Y Z) end.
  rewrite ln_prod4; [rewrite ln_prod4; [ring|..]|..];
    match goal with |- 0 < ?X + rad ?X ?Y ?Z => apply (rad_plus_pos X Y Z); auto end.
Qed.

Lemma ff2y_corner x y z a b c : off_planes x y z a b c ->
  ff2y x y z a b c = - corner_sum Gy (x - a) (x + a) (y - b) (y + b) (z - c) (z + c).
Proof.
  intros (Hxa & Hxp & Hyb & Hyp & Hzc & Hzp).
  unfold ff2y, cuboid_ff, corner_sum, Gy. cbv zeta.
  repeat match goal with |- context [sqrt (?X ^ 2 + ?Y ^ 2 + ?Z ^ 2)] => change (sqrt (X ^ 2 + Y ^ 2 + Z ^ 2)) with (rad X Y Z) end.
  match goal with |- context [ln (?p * ?q * (?u - ?v) * (?u' - ?v'))] =>
    replace (p * q * (u - v) * (u' - v')) with (p * q * (- u + v) * (- u' + v')) by ring end.
  rewrite ln_prod4; [rewrite ln_prod4; [ring|..]|..];
    match goal with |- 0 < - ?W + rad ?X ?Y ?Z => apply (rad_minus_pos_y X Y Z) || apply (rad_minus_pos_z X Y Z); auto end.
Qed.

Lemma ff2z_corner x y z a b c : off_planes x y z a b c ->
  ff2z x y z a b c = - corner_sum Gz (x - a) (x + a) (y - b) (y + b) (z - c) (z + c).
Proof.
  intros (Hxa & Hxp & Hyb & Hyp & Hzc & Hzp).
  unfold ff2z, cuboid_ff, corner_sum, Gz. cbv zeta.
  repeat match goal with |- context [sqrt (?X ^ 2 + ?Y ^ 2 + ?Z ^ 2)] => change (sqrt (X ^ 2 + Y ^ 2 + Z ^ 2)) with (rad X Y Z) end.
  match goal with |- context [ln (?p * (?u - ?v) * ?q * (?u' - ?v'))] =>
    replace (p * (u - v) * q * (u' - v')) with (p * (- u + v) * q * (- u' + v')) by ring end.
  rewrite ln_prod4; [rewrite ln_prod4; [ring|..]|..];
    match goal with |- 0 < - ?W + rad ?X ?Y ?Z => apply (rad_minus_pos_y X Y Z) || apply (rad_minus_pos_z X Y Z); auto end.
Qed.

(* ---------------- all six terms, indexed as in cuboid_ff / cuboid_contrib *)
Definition term (at2 : R -> R -> R) (k : nat) (x y z a b c : R) : R :=
  let '(t0, t1, t2, t3, t4, t5) := cuboid_ff at2 x y z a b c in nth k [t0; t1; t2; t3; t4; t5] 0.
Definition cornerF (at2 : R -> R -> R) (k : nat) : R -> R -> R -> R :=
  nth k [Fx at2; Fy at2; Fz at2; Gx; Gy; Gz] (fun _ _ _ => 0).

Lemma term_corner at2 k x y z a b c : (k < 6)%nat -> off_planes x y z a b c ->
  term at2 k x y z a b c = - corner_sum (cornerF at2 k) (x - a) (x + a) (y - b) (y + b) (z - c) (z + c).
Proof.
  intros Hk Hoff.
  destruct k as [|[|[|[|[|[|k]]]]]]; try (exfalso; lia).
  - apply (ff1x_corner at2).
  - apply (ff1y_corner at2).
  - apply (ff1z_corner at2).
  - apply (ff2x_corner x y z a b c Hoff).
  - apply (ff2y_corner x y z a b c Hoff).
  - apply (ff2z_corner x y z a b c Hoff).
Qed.

(* the terms of the Cuboid [x0,x1] x [y0,y1] x [z0,z1] seen from p = (px,py,pz), everything in ONE frame:
   magnet_cuboid_Bfield is called with the observer relative to the centre and with the half sizes *)
Definition box_term (at2 : R -> R -> R) (k : nat) (px py pz x0 x1 y0 y1 z0 z1 : R) : R :=
  term at2 k (px - (x0 + x1) / 2) (py - (y0 + y1) / 2) (pz - (z0 + z1) / 2)
             ((x1 - x0) / 2) ((y1 - y0) / 2) ((z1 - z0) / 2).

Lemma box_term_corner at2 k px py pz x0 x1 y0 y1 z0 z1 : (k < 6)%nat ->
  px <> x0 -> px <> x1 -> py <> y0 -> py <> y1 -> pz <> z0 -> pz <> z1 ->
  box_term at2 k px py pz x0 x1 y0 y1 z0 z1 =
  - corner_sum (cornerF at2 k) (px - x1) (px - x0) (py - y1) (py - y0) (pz - z1) (pz - z0).
Proof.
  intros Hk H1 H2 H3 H4 H5 H6. unfold box_term. rewrite term_corner; [|exact Hk|].
  - f_equal. f_equal; field.
  - unfold off_planes. repeat split; intros E.
    + apply H2. lra.
    + apply H1. lra.
    + apply H4. lra.
    + apply H3. lra.
    + apply H6. lra.
    + apply H5. lra.
Qed.

Theorem box_term_cut_x at2 k px py pz x0 xm x1 y0 y1 z0 z1 : (k < 6)%nat ->
  px <> x0 -> px <> xm -> px <> x1 -> py <> y0 -> py <> y1 -> pz <> z0 -> pz <> z1 ->
  box_term at2 k px py pz x0 x1 y0 y1 z0 z1 =
  box_term at2 k px py pz x0 xm y0 y1 z0 z1 + box_term at2 k px py pz xm x1 y0 y1 z0 z1.
Proof.
  intros. rewrite !box_term_corner by assumption.
  rewrite (corner_sum_cut_x _ (px - x1) (px - xm) (px - x0)). ring.
Qed.

Theorem box_term_cut_y at2 k px py pz x0 x1 y0 ym y1 z0 z1 : (k < 6)%nat ->
  px <> x0 -> px <> x1 -> py <> y0 -> py <> ym -> py <> y1 -> pz <> z0 -> pz <> z1 ->
  box_term at2 k px py pz x0 x1 y0 y1 z0 z1 =
  box_term at2 k px py pz x0 x1 y0 ym z0 z1 + box_term at2 k px py pz x0 x1 ym y1 z0 z1.
Proof.
  intros. rewrite !box_term_corner by assumption.
  rewrite (corner_sum_cut_y _ (px - x1) (px - x0) (py - y1) (py - ym) (py - y0)). ring.
Qed.

Theorem box_term_cut_z at2 k px py pz x0 x1 y0 y1 z0 zm z1 : (k < 6)%nat ->
  px <> x0 -> px <> x1 -> py <> y0 -> py <> y1 -> pz <> z0 -> pz <> zm -> pz <> z1 ->
  box_term at2 k px py pz x0 x1 y0 y1 z0 z1 =
  box_term at2 k px py pz x0 x1 y0 y1 z0 zm + box_term at2 k px py pz x0 x1 y0 y1 zm z1.
Proof.
  intros. rewrite !box_term_corner by assumption.
  rewrite (corner_sum_cut_z _ (px - x1) (px - x0) (py - y1) (py - y0) (pz - z1) (pz - zm) (pz - z0)). ring.
Qed.

(* ---------------- the B-field that magnet_cuboid_Bfield assembles from the terms when no octant flip happens
   (observer in the bottQ4 octant x >= 0, y <= 0, z <= 0 of the box: all qsigns are 1), through the TRANSLATED table *)
Definition pick3 (k : nat) (v : R * R * R) : R := let '(a, b, c) := v in nth k [a; b; c] 0.

Definition combine_terms (tbl : list (nat * nat * bool * nat)) (pol : R * R * R) (j : nat) (t : nat -> R) : R :=
  fold_right (fun e acc =>
                let '(k, j', neg, i) := e in
                if Nat.eqb j' j then (if neg : bool then - pick3 k pol * t i else pick3 k pol * t i) + acc else acc)
             0 tbl / (4 * PI).

Definition box_B_noflip (at2 : R -> R -> R) (pol : R * R * R) (j : nat) (px py pz x0 x1 y0 y1 z0 z1 : R) : R :=
  combine_terms cuboid_contrib pol j (fun i => box_term at2 i px py pz x0 x1 y0 y1 z0 z1).

Lemma combine_terms_add tbl pol j (t u v : nat -> R) :
  Forall (fun e => let '(_, _, _, i) := e in t i = u i + v i) tbl ->
  combine_terms tbl pol j t = combine_terms tbl pol j u + combine_terms tbl pol j v.
Proof.
  unfold combine_terms. intros H.
  assert (E : forall l, Forall (fun e : nat * nat * bool * nat => let '(_, _, _, i) := e in t i = u i + v i) l ->
    fold_right (fun e acc => let '(k, j', neg, i) := e in
        if Nat.eqb j' j then (if neg : bool then - pick3 k pol * t i else pick3 k pol * t i) + acc else acc) 0 l =
    fold_right (fun e acc => let '(k, j', neg, i) := e in
        if Nat.eqb j' j then (if neg : bool then - pick3 k pol * u i else pick3 k pol * u i) + acc else acc) 0 l +
    fold_right (fun e acc => let '(k, j', neg, i) := e in
        if Nat.eqb j' j then (if neg : bool then - pick3 k pol * v i else pick3 k pol * v i) + acc else acc) 0 l).
  { induction l as [|[[[k j'] neg] i] l IH]; intros Hl; simpl; [ring|].
    inversion Hl as [|? ? Hi Hl']; subst. rewrite (IH Hl'). rewrite Hi.
    destruct (Nat.eqb j' j); destruct neg; ring. }
  rewrite (E tbl H). pose proof PI_RGT_0. field. lra.
Qed.

Lemma cuboid_contrib_indices : Forall (fun e : nat * nat * bool * nat => let '(_, _, _, i) := e in (i < 6)%nat) cuboid_contrib.
Proof. unfold cuboid_contrib. repeat constructor. Qed.

Theorem box_B_noflip_cut_x at2 pol j px py pz x0 xm x1 y0 y1 z0 z1 :
  px <> x0 -> px <> xm -> px <> x1 -> py <> y0 -> py <> y1 -> pz <> z0 -> pz <> z1 ->
  box_B_noflip at2 pol j px py pz x0 x1 y0 y1 z0 z1 =
  box_B_noflip at2 pol j px py pz x0 xm y0 y1 z0 z1 + box_B_noflip at2 pol j px py pz xm x1 y0 y1 z0 z1.
Proof.
  intros. unfold box_B_noflip. apply combine_terms_add.
  eapply Forall_impl; [|apply cuboid_contrib_indices]. intros [[[k j'] neg] i] Hi.
  apply box_term_cut_x; assumption.
Qed.

Theorem box_B_noflip_cut_y at2 pol j px py pz x0 x1 y0 ym y1 z0 z1 :
  px <> x0 -> px <> x1 -> py <> y0 -> py <> ym -> py <> y1 -> pz <> z0 -> pz <> z1 ->
  box_B_noflip at2 pol j px py pz x0 x1 y0 y1 z0 z1 =
  box_B_noflip at2 pol j px py pz x0 x1 y0 ym z0 z1 + box_B_noflip at2 pol j px py pz x0 x1 ym y1 z0 z1.
Proof.
  intros. unfold box_B_noflip. apply combine_terms_add.
  eapply Forall_impl; [|apply cuboid_contrib_indices]. intros [[[k j'] neg] i] Hi.
  apply box_term_cut_y; assumption.
Qed.

Theorem box_B_noflip_cut_z at2 pol j px py pz x0 x1 y0 y1 z0 zm z1 :
  px <> x0 -> px <> x1 -> py <> y0 -> py <> y1 -> pz <> z0 -> pz <> zm -> pz <> z1 ->
  box_B_noflip at2 pol j px py pz x0 x1 y0 y1 z0 z1 =
  box_B_noflip at2 pol j px py pz x0 x1 y0 y1 z0 zm + box_B_noflip at2 pol j px py pz x0 x1 y0 y1 zm z1.
Proof.
  intros. unfold box_B_noflip. apply combine_terms_add.
  eapply Forall_impl; [|apply cuboid_contrib_indices]. intros [[[k j'] neg] i] Hi.
  apply box_term_cut_z; assumption.
Qed.

From MV Require Import Model.ReprExec Proofs.ReprExecProofs.
Lemma C13_nonvacuous_witness2 :
  (let rows : list zsrow := [((1, 2, 3), (1, 0, 0), (1, 2, 3, 0, 90));
                             ((4, 5, 6), (0, 1, 0), (1, 2, 3, 0, 360));
                             ((7, 8, 9), (0, 0, 1), (0, 2, 3, 0, 360))]%Z in
   let outer : list zcrow := [((4, 5, 6), (0, 1, 0), (4, 3)); ((7, 8, 9), (0, 0, 1), (4, 3))]%Z in
   let inner : list zcrow := [((4, 5, 6), (0, 1, 0), (2, 3))]%Z in
   map (@mask_segment ZNum) rows = [true; false; false] /\
   nth_error (@seg_internal ZNum stub_seg stub_cyl FB rows) 1 =
     Some (@vsub3 ZNum (nth 0 (stub_cyl FB outer) (0, 0, 0)%Z) (nth 0 (stub_cyl FB inner) (0, 0, 0)%Z)) /\
   nth_error (@seg_internal ZNum stub_seg stub_cyl FB rows) 2 = nth_error (stub_cyl FB outer) 1) /\
  (let mesh : list (tri3 z3) := [((0, 0, 0), (1, 0, 0), (0, 1, 0)); ((1, 0, 0), (0, 1, 0), (0, 0, 1))]%Z in
   mesh_vertices z3_eqb z3_ltb mesh = [(0, 0, 0); (0, 0, 1); (0, 1, 0); (1, 0, 0)]%Z /\
   mesh_faces z3_eqb z3_ltb mesh = [(0, 3, 2); (3, 2, 1)]%nat) /\
  @sphere_out RNum (1, 0, 0)%R 1%R = true /\
  (3 <> -1 /\ 3 <> 0 /\ 3 <> 1 /\ -2 <> -1 /\ -2 <> 1 /\ off_planes 3 (-2) (-2) 1 1 1).
Proof.
  destruct C13_nonvacuous_witness as (A & B & C). repeat split; try apply A; try apply B; try exact C;
    unfold off_planes; try lra.
Qed.
