(* C13 (stretch) -- the closed-form terms of magnet_cuboid_Bfield, as TRANSLATED from /repo on this run
   (Gen/GenCuboid.v), are eight-corner sums; hence they are additive when the cuboid is cut by an axis-aligned plane. *)
From Coq Require Import Reals List Lra Psatz.
From MV Require Import Gen.GenCuboid Model.ReprModel Proofs.ReprProofs.
Import ListNotations.
Local Open Scope R_scope.

Section Atan.
Variable at2 : R -> R -> R.

Definition rad (X Y Z : R) : R := sqrt (X ^ 2 + Y ^ 2 + Z ^ 2).
(* corner functions of the three arctan2 sums *)
Definition Fx (X Y Z : R) : R := at2 (Y * Z) (X * rad X Y Z).
Definition Fy (X Y Z : R) : R := at2 (X * Z) (Y * rad X Y Z).
Definition Fz (X Y Z : R) : R := at2 (X * Y) (Z * rad X Y Z).

Definition ff1x (x y z a b c : R) : R := let '(f, _, _, _, _, _) := cuboid_ff at2 x y z a b c in f.
Definition ff1y (x y z a b c : R) : R := let '(_, f, _, _, _, _) := cuboid_ff at2 x y z a b c in f.
Definition ff1z (x y z a b c : R) : R := let '(_, _, f, _, _, _) := cuboid_ff at2 x y z a b c in f.

Lemma ff1x_corner x y z a b c :
  ff1x x y z a b c = - corner_sum Fx (x - a) (x + a) (y - b) (y + b) (z - c) (z + c).
Proof. unfold ff1x, cuboid_ff, corner_sum, Fx, rad. cbv zeta. ring. Qed.
Lemma ff1y_corner x y z a b c :
  ff1y x y z a b c = - corner_sum Fy (x - a) (x + a) (y - b) (y + b) (z - c) (z + c).
Proof. unfold ff1y, cuboid_ff, corner_sum, Fy, rad. cbv zeta. ring. Qed.
Lemma ff1z_corner x y z a b c :
  ff1z x y z a b c = - corner_sum Fz (x - a) (x + a) (y - b) (y + b) (z - c) (z + c).
Proof. unfold ff1z, cuboid_ff, corner_sum, Fz, rad. cbv zeta. ring. Qed.
End Atan.

(* ---------------- the log terms *)
Lemma rad_gt_abs X Y Z : Y <> 0 \/ Z <> 0 -> Rabs X < rad X Y Z.
Proof.
  intros H. unfold rad. rewrite <- (sqrt_Rsqr_abs X). apply sqrt_lt_1_alt. unfold Rsqr. split; [nra|].
  destruct H as [H|H].
  - assert (0 < Y * Y) by nra. nra.
  - assert (0 < Z * Z) by nra. nra.
Qed.

Lemma rad_plus_pos X Y Z : Y <> 0 \/ Z <> 0 -> 0 < X + rad X Y Z.
Proof. intros H. pose proof (rad_gt_abs X Y Z H). pose proof (Rle_abs (- X)). rewrite Rabs_Ropp in *. lra. Qed.
Lemma rad_minus_pos_y X Y Z : X <> 0 \/ Z <> 0 -> 0 < - Y + rad X Y Z.
Proof.
  intros H. replace (rad X Y Z) with (rad Y X Z) by (unfold rad; f_equal; ring).
  pose proof (rad_gt_abs Y X Z H). pose proof (Rle_abs Y). lra.
Qed.
Lemma rad_minus_pos_z X Y Z : X <> 0 \/ Y <> 0 -> 0 < - Z + rad X Y Z.
Proof.
  intros H. replace (rad X Y Z) with (rad Z X Y) by (unfold rad; f_equal; ring).
  pose proof (rad_gt_abs Z X Y H). pose proof (Rle_abs Z). lra.
Qed.

Lemma ln_prod4 p q r s : 0 < p -> 0 < q -> 0 < r -> 0 < s -> ln (p * q * r * s) = ln p + ln q + ln r + ln s.
Proof.
  intros. rewrite !ln_mult; auto; repeat apply Rmult_lt_0_compat; auto.
Qed.

Definition Gx (X Y Z : R) : R := ln (X + rad X Y Z).
Definition Gy (X Y Z : R) : R := ln (- Y + rad X Y Z).
Definition Gz (X Y Z : R) : R := ln (- Z + rad X Y Z).

Definition ff2x (x y z a b c : R) : R := let '(_, _, _, f, _, _) := cuboid_ff (fun _ _ => 0) x y z a b c in f.
Definition ff2y (x y z a b c : R) : R := let '(_, _, _, _, f, _) := cuboid_ff (fun _ _ => 0) x y z a b c in f.
Definition ff2z (x y z a b c : R) : R := let '(_, _, _, _, _, f) := cuboid_ff (fun _ _ => 0) x y z a b c in f.

(* the log terms do not depend on the arctan2 parameter *)
Lemma ff2_indep at2 x y z a b c :
  (let '(_, _, _, f, g, h) := cuboid_ff at2 x y z a b c in (f, g, h)) = (ff2x x y z a b c, ff2y x y z a b c, ff2z x y z a b c).
Proof. reflexivity. Qed.

Definition off_planes (x y z a b c : R) : Prop :=
  x - a <> 0 /\ x + a <> 0 /\ y - b <> 0 /\ y + b <> 0 /\ z - c <> 0 /\ z + c <> 0.

Lemma ff2x_corner x y z a b c : off_planes x y z a b c ->
  ff2x x y z a b c = - corner_sum Gx (x - a) (x + a) (y - b) (y + b) (z - c) (z + c).
Proof.
  intros (Hxa & Hxp & Hyb & Hyp & Hzc & Hzp).
  unfold ff2x, cuboid_ff, corner_sum, Gx. cbv zeta.
  repeat match goal with |- context [sqrt (?X ^ 2 + ?Y ^ 2 + ?Z ^ 2)] => change (sqrt (X ^ 2 + Y ^ 2 + Z ^ 2)) with (rad X Y Z) end.
  rewrite ln_prod4; [rewrite ln_prod4; [ring|..]|..];
    match goal with |- 0 < ?X + rad ?X ?Y ?Z => apply (rad_plus_pos X Y Z); auto end.
Qed.

Lemma ff2y_corner x y z a b c : off_planes x y z a b c ->
  ff2y x y z a b c = - corner_sum Gy (x - a) (x + a) (y - b) (y + b) (z - c) (z + c).
Proof.
  intros (Hxa & Hxp & Hyb & Hyp & Hzc & Hzp).
  unfold ff2y, cuboid_ff, corner_sum, Gy. cbv zeta.
  repeat match goal with |- context [sqrt (?X ^ 2 + ?Y ^ 2 + ?Z ^ 2)] => change (sqrt (X ^ 2 + Y ^ 2 + Z ^ 2)) with (rad X Y Z) end.
  match goal with |- context [ln (?p * ?q * (?u - ?v) * (?u' - ?v'))] =>
    replace (p * q * (u - v) * (u' - v')) with (p * q * (- u + v) * (- u' + v')) by ring end.
  rewrite ln_prod4; [rewrite ln_prod4; [ring|..]|..];
    match goal with |- 0 < - ?W + rad ?X ?Y ?Z => apply (rad_minus_pos_y X Y Z) || apply (rad_minus_pos_z X Y Z); auto end.
Qed.

Lemma ff2z_corner x y z a b c : off_planes x y z a b c ->
  ff2z x y z a b c = - corner_sum Gz (x - a) (x + a) (y - b) (y + b) (z - c) (z + c).
Proof.
  intros (Hxa & Hxp & Hyb & Hyp & Hzc & Hzp).
  unfold ff2z, cuboid_ff, corner_sum, Gz. cbv zeta.
  repeat match goal with |- context [sqrt (?X ^ 2 + ?Y ^ 2 + ?Z ^ 2)] => change (sqrt (X ^ 2 + Y ^ 2 + Z ^ 2)) with (rad X Y Z) end.
  match goal with |- context [ln (?p * (?u - ?v) * ?q * (?u' - ?v'))] =>
    replace (p * (u - v) * q * (u' - v')) with (p * (- u + v) * q * (- u' + v')) by ring end.
  rewrite ln_prod4; [rewrite ln_prod4; [ring|..]|..];
    match goal with |- 0 < - ?W + rad ?X ?Y ?Z => apply (rad_minus_pos_y X Y Z) || apply (rad_minus_pos_z X Y Z); auto end.
Qed.
