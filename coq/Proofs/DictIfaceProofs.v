(* C07 -- proofs about Model/DictIface.v, instantiated with the tables read from /repo on this run (Gen/GenTables.v). *)
From Coq Require Import ZArith List Bool String Lia ZifyBool Arith.
From MV Require Import Model.InputTypes Gen.GenTables Model.DictIface.
Import ListNotations.
Open Scope Z_scope.

(* ------------------------------------------------------------------ small list facts *)
Lemma squeeze_ge2 (s : shape) : Forall (fun d => 2 <= d) s -> squeeze s = s.
Proof.
  induction 1 as [|d s Hd Hs IH]; [reflexivity|].
  unfold squeeze in *. simpl.
  destruct (d =? 1) eqn:E; [lia|]. simpl. now rewrite IH.
Qed.

Lemma ndim_cons (x : Z) (s : shape) : ndim (x :: s) = ndim s + 1.
Proof. unfold ndim. simpl List.length. lia. Qed.

Lemma ndim_nonneg (s : shape) : 0 <= ndim s.
Proof. unfold ndim. lia. Qed.

Lemma zmul2_ones (s : list Z) : zmul2 s (repeat 1 (List.length s)) = s.
Proof. induction s as [|x s IH]; [reflexivity|]. simpl. rewrite IH. f_equal. lia. Qed.

Lemma np_tile_single (s : shape) (n : Z) :
  np_tile_shape s (n :: repeat 1 (List.length s)) = n :: s.
Proof.
  unfold np_tile_shape, pad_left. simpl List.length. rewrite repeat_length.
  assert (E : Nat.max (List.length s) (S (List.length s)) = S (List.length s))
    by (apply Nat.max_r; apply Nat.le_succ_diag_r).
  rewrite E.
  assert (E1 : (S (List.length s) - List.length s)%nat = 1%nat)
    by (rewrite Nat.sub_succ_l by apply Nat.le_refl; now rewrite Nat.sub_diag).
  rewrite E1, Nat.sub_diag. cbn [repeat app zmul2]. rewrite zmul2_ones, Z.mul_1_l. reflexivity.
Qed.

Lemma all_same_const (n : Z) (l : list Z) : Forall (fun x => x = n) l -> all_same l = true.
Proof.
  destruct 1 as [|x l Hx Hl]; [reflexivity|]. simpl. subst x.
  apply forallb_forall. intros y Hy. rewrite Forall_forall in Hl. rewrite (Hl y Hy). apply Z.eqb_refl.
Qed.

Lemma fold_max_const (n : Z) (l : list Z) : Forall (fun x => x = n) l -> fold_left Z.max l n = n.
Proof. induction 1 as [|x l Hx Hl IH]; [reflexivity|]. simpl. subst x. rewrite Z.max_id. exact IH. Qed.

Lemma vec_len_const (n : Z) (l : list Z) : Forall (fun x => x = n) l -> l <> [] -> vec_len_of l = n.
Proof.
  destruct 1 as [|x l Hx Hl]; [congruence|]. intros _. simpl. subst x. now apply fold_max_const.
Qed.

Lemma assoc_In {A} (k : string) (l : list (string * A)) (v : A) : assoc k l = Some v -> In (k, v) l.
Proof.
  induction l as [|[k' v'] l IH]; simpl; [discriminate|].
  destruct (String.eqb k k') eqn:E.
  - intros [= ->]. apply String.eqb_eq in E. subst. now left.
  - intros H. right. now apply IH.
Qed.

Lemma str_mem_In (s : string) (l : list string) : In s l -> str_mem s l = true.
Proof.
  intros H. unfold str_mem. apply existsb_exists. exists s. split; [exact H|apply String.eqb_refl].
Qed.

(* ------------------------------------------------------------------ the general tiling lemma *)
Section Tiles.
Variable ed : string -> Z.
Variable n : Z.
Hypothesis Hn : 1 <= n.

Definition good (it : item) : Prop :=
  ed (it_key it) = ndim (it_shape it) + 1 /\ Forall (fun d => 2 <= d) (it_shape it) /\
  (it_mode it = MRagged -> 2 <= n).

Definition kw_of (items : list item) : list (string * pin) := map (fun it => (it_key it, item_in n it)) items.
Definition out_of (items : list item) : list (string * pval) := map (fun it => (it_key it, item_out n it)) items.

Definition p1_item (it : item) : string * (bool * pval) :=
  (it_key it,
   match it_mode it with
   | MSingle => (false, VArr (it_shape it))
   | MBatch => (false, if n =? 1 then VArr (it_shape it) else VArr (n :: it_shape it))
   | MRagged => (true, VRag n)
   end).
Definition p1_vl (it : item) : list (string * Z) :=
  match it_mode it with
  | MSingle => []
  | _ => if n =? 1 then [] else [(it_key it, n)]
  end.

Lemma phase1_items (items : list item) : Forall good items ->
  phase1 ed (kw_of items) = P1Ok (map p1_item items) (flat_map p1_vl items).
Proof.
  induction 1 as [|it items Hg Hgs IH]; [reflexivity|].
  destruct it as [k s m]. destruct Hg as (Hed & Hs & Hr). simpl in Hed, Hs, Hr.
  unfold kw_of in *. simpl map. unfold phase1; fold phase1. rewrite IH. clear IH.
  unfold p1_item, p1_vl, item_in. simpl it_mode. simpl it_key. simpl it_shape.
  destruct m.
  - (* single *)
    destruct s as [|d s'].
    + simpl secure. cbv iota beta. simpl v_ndim.
      replace (ndim [] =? ed k) with false by (rewrite Hed; unfold ndim; simpl; lia).
      simpl. reflexivity.
    + assert (Hd : 2 <= d) by (inversion Hs; assumption).
      simpl secure. replace (d <=? 0) with false by lia. cbv iota beta. simpl v_ndim.
      replace (ndim (d :: s') =? ed k) with false by lia.
      simpl. reflexivity.
  - (* batch *)
    simpl secure. replace (n <=? 0) with false by lia. cbv iota beta. simpl v_ndim.
    replace (ndim (n :: s) =? ed k) with true by (rewrite ndim_cons; lia).
    simpl orb. cbv iota. simpl v_len. cbv iota beta.
    destruct (n =? 1) eqn:E.
    + simpl. apply Z.eqb_eq in E. rewrite E.
      unfold squeeze. simpl. fold (squeeze s). rewrite (squeeze_ge2 s Hs). reflexivity.
    + simpl. reflexivity.
  - (* ragged *)
    simpl secure. cbv iota beta. rewrite orb_true_r. cbv iota. simpl v_len. cbv iota beta.
    specialize (Hr eq_refl). replace (n =? 1) with false by lia. simpl. reflexivity.
Qed.

Lemma vls_const (items : list item) : Forall (fun x => x = n) (map snd (flat_map p1_vl items)).
Proof.
  induction items as [|it items IH]; [constructor|].
  simpl. rewrite map_app. apply Forall_app. split; [|exact IH].
  unfold p1_vl. destruct (it_mode it); try constructor; destruct (n =? 1); repeat constructor.
Qed.

Lemma vls_nil_1 (items : list item) : n = 1 -> flat_map p1_vl items = [].
Proof.
  intros E. induction items as [|it items IH]; [reflexivity|]. simpl. rewrite IH.
  unfold p1_vl. replace (n =? 1) with true by lia. destruct (it_mode it); reflexivity.
Qed.

Lemma vls_nonnil (items : list item) : n <> 1 -> Exists (fun it => it_mode it <> MSingle) items ->
  map snd (flat_map p1_vl items) <> [].
Proof.
  intros Hn1. induction 1 as [it items Hm | it items _ IH].
  - simpl. unfold p1_vl at 1. destruct (it_mode it); [congruence| |];
      (replace (n =? 1) with false by lia); simpl; discriminate.
  - simpl. rewrite map_app. intros H. apply app_eq_nil in H. destruct H as [_ H]. now apply IH.
Qed.

Lemma vec_len_items (items : list item) :
  (n = 1 \/ Exists (fun it => it_mode it <> MSingle) items) ->
  vec_len_of (map snd (flat_map p1_vl items)) = n.
Proof.
  intros H. destruct (Z.eq_dec n 1) as [E|E].
  - rewrite (vls_nil_1 items E). simpl. lia.
  - destruct H as [H|H]; [contradiction|].
    apply vec_len_const; [apply vls_const|now apply vls_nonnil].
Qed.

Lemma tile_p1_item (it : item) : good it -> tile_item ed n (p1_item it) = (it_key it, item_out n it).
Proof.
  destruct it as [k s m]. intros (Hed & Hs & Hr). simpl in Hed, Hs, Hr.
  unfold p1_item, item_out, tile_item. simpl it_mode. simpl it_key. simpl it_shape.
  assert (Hlt : ndim s <? ed k = true) by lia.
  assert (Hnat : Z.to_nat (ed k - 1) = List.length s) by (rewrite Hed; unfold ndim; lia).
  destruct m.
  - rewrite Hlt. simpl. rewrite Hnat, np_tile_single. reflexivity.
  - destruct (n =? 1) eqn:E.
    + rewrite Hlt. simpl. rewrite Hnat, np_tile_single. reflexivity.
    + replace (ndim (n :: s) <? ed k) with false by (rewrite ndim_cons; lia). reflexivity.
  - reflexivity.
Qed.

Lemma dict_core_tiles (items : list item) :
  Forall good items ->
  (n = 1 \/ Exists (fun it => it_mode it <> MSingle) items) ->
  dict_core ed (kw_of items) = DOk (out_of items).
Proof.
  intros Hg Hex. unfold dict_core. rewrite (phase1_items items Hg).
  rewrite (all_same_const n _ (vls_const items)). simpl negb. cbv iota.
  rewrite (vec_len_items items Hex). f_equal. unfold out_of. rewrite map_map.
  apply map_ext_in. intros it Hin. apply tile_p1_item. rewrite Forall_forall in Hg. now apply Hg.
Qed.
End Tiles.

(* ------------------------------------------------------------------ the tables of this run *)
Lemma registered_ok :
  forallb (class_ok dict_base_ndim dict_default_ndim) registered = true.
Proof. vm_compute. reflexivity. Qed.

Lemma conforms_good (tbl : list (string * Z)) (sp : list spec_entry) (n : Z) (it : item) :
  ranks_match dict_base_ndim dict_default_ndim tbl sp = true ->
  conforms sp n it -> good (expected_dim dict_base_ndim dict_default_ndim tbl) n it.
Proof.
  intros Hr (r & rg & Ha & Hnd & Hs & Hm).
  unfold ranks_match in Hr. rewrite forallb_forall in Hr.
  specialize (Hr _ (assoc_In _ _ _ Ha)). simpl in Hr.
  unfold good. repeat split; [lia|exact Hs|]. intros E. now apply Hm.
Qed.

Theorem dict_iface_tiles : forall c tbl,
  In (c, tbl) registered ->
  exists sp, assoc c spec_table = Some sp /\ keys_match tbl sp = true /\
  forall (n : Z) (uitems : list item) (obs pos ori : item),
    1 <= n ->
    it_key obs = "observers"%string -> it_key pos = "position"%string -> it_key ori = "orientation"%string ->
    Forall (conforms (sp ++ base_spec) n) (uitems ++ [obs; pos; ori]) ->
    (n = 1 \/ Exists (fun it => it_mode it <> MSingle) (uitems ++ [obs; pos; ori])) ->
    dict_level2 dict_base_ndim dict_default_ndim tbl (kw_of n uitems)
                (item_in n obs) (item_in n pos) (item_in n ori)
    = DOk (out_of n (uitems ++ [obs; pos; ori])).
Proof.
  intros c tbl Hin.
  pose proof registered_ok as Hok. rewrite forallb_forall in Hok. specialize (Hok _ Hin).
  unfold class_ok in Hok. simpl fst in Hok. simpl snd in Hok.
  destruct (assoc c spec_table) as [sp|] eqn:Es; [|discriminate].
  apply andb_true_iff in Hok. destruct Hok as [Hk Hr].
    exists sp. split; [reflexivity|]. split; [exact Hk|].
    intros n uitems obs pos ori Hn Ko Kp Kr Hc Hm.
    unfold dict_level2.
    replace (kw_of n uitems ++ [("observers"%string, item_in n obs); ("position"%string, item_in n pos);
                                ("orientation"%string, item_in n ori)])%list
      with (kw_of n (uitems ++ [obs; pos; ori])%list).
    2:{ unfold kw_of. rewrite map_app. simpl. now rewrite Ko, Kp, Kr. }
    apply dict_core_tiles; [exact Hn| |exact Hm].
    eapply Forall_impl; [|exact Hc]. intros it. now apply conforms_good.
Qed.

(* record of the defect fixed by /repo commit 3bc026d, machine-checked on the model: with the rank table {polarization: 2, mesh: 3} one (4,3,3) mesh is
   counted as 4 instances -- rejected next to 2 observers, and silently accepted as four "instances" of rank 2 next to
   4 observers -- and a per-instance (2,4,3,3) array is neither counted nor are the single observers tiled to it *)
Definition mesh3_table : list (string * Z) := [("polarization", 2); ("mesh", 3)]%string.

Theorem mesh_rank3_mistiles :
  dict_level2 dict_base_ndim dict_default_ndim mesh3_table
              [("polarization"%string, PArr [3]); ("mesh"%string, PArr [4; 3; 3])] (PArr [2; 3]) (PArr [3]) (PArr [4])
  = DBad
  /\ dict_level2 dict_base_ndim dict_default_ndim mesh3_table
              [("polarization"%string, PArr [3]); ("mesh"%string, PArr [4; 3; 3])] (PArr [4; 3]) (PArr [3]) (PArr [4])
  = DOk [("polarization"%string, VArr [4; 3]); ("mesh"%string, VArr [4; 3; 3]); ("observers"%string, VArr [4; 3]);
         ("position"%string, VArr [4; 3]); ("orientation"%string, VArr [4; 4])]
  /\ dict_level2 dict_base_ndim dict_default_ndim mesh3_table
              [("polarization"%string, PArr [3]); ("mesh"%string, PArr [2; 4; 3; 3])] (PArr [3]) (PArr [3]) (PArr [4])
  = DOk [("polarization"%string, VArr [1; 3]); ("mesh"%string, VArr [2; 4; 3; 3]); ("observers"%string, VArr [1; 3]);
         ("position"%string, VArr [1; 3]); ("orientation"%string, VArr [1; 4])].
Proof. vm_compute. repeat split; reflexivity. Qed.

(* the same three calls with the entry the spec asks for *)
Theorem mesh_rank4_tiles :
  let t := [("polarization", 2); ("mesh", 4)]%string in
  dict_level2 dict_base_ndim dict_default_ndim t
              [("polarization"%string, PArr [3]); ("mesh"%string, PArr [4; 3; 3])] (PArr [2; 3]) (PArr [3]) (PArr [4])
  = DOk [("polarization"%string, VArr [2; 3]); ("mesh"%string, VArr [2; 4; 3; 3]); ("observers"%string, VArr [2; 3]);
         ("position"%string, VArr [2; 3]); ("orientation"%string, VArr [2; 4])]
  /\ dict_level2 dict_base_ndim dict_default_ndim t
              [("polarization"%string, PArr [3]); ("mesh"%string, PArr [2; 4; 3; 3])] (PArr [3]) (PArr [3]) (PArr [4])
  = DOk [("polarization"%string, VArr [2; 3]); ("mesh"%string, VArr [2; 4; 3; 3]); ("observers"%string, VArr [2; 3]);
         ("position"%string, VArr [2; 3]); ("orientation"%string, VArr [2; 4])].
Proof. vm_compute. split; reflexivity. Qed.

(* non-vacuity: the hypotheses of dict_iface_tiles are satisfiable for a registered class *)
Definition ex_items : list item :=
  [mkItem "polarization" [3] MSingle; mkItem "dimension" [3] MBatch]%string.
Definition ex_obs := mkItem "observers" [3] MBatch.
Definition ex_pos := mkItem "position" [3] MSingle.
Definition ex_ori := mkItem "orientation" [4] MSingle.

Lemma conforms_dec_ok (sp : list spec_entry) (n : Z) (it : item) (r : Z) (rg : bool) :
  assoc (it_key it) sp = Some (r, rg) -> ndim (it_shape it) = r ->
  forallb (fun d => 2 <=? d) (it_shape it) = true ->
  (it_mode it = MRagged -> rg = true /\ 2 <= n) -> conforms sp n it.
Proof.
  intros Ha Hn Hf Hm. exists r, rg. repeat split; try assumption; try (now apply Hm).
  apply Forall_forall. intros d Hd. rewrite forallb_forall in Hf. specialize (Hf d Hd). lia.
Qed.

Lemma nonvacuous :
  exists tbl sp, In ("Cuboid"%string, tbl) registered /\
    assoc "Cuboid"%string spec_table = Some sp /\
    Forall (conforms (sp ++ base_spec) 5) (ex_items ++ [ex_obs; ex_pos; ex_ori]) /\
    Exists (fun it => it_mode it <> MSingle) (ex_items ++ [ex_obs; ex_pos; ex_ori]) /\
    dict_level2 dict_base_ndim dict_default_ndim tbl (kw_of 5 ex_items)
                (item_in 5 ex_obs) (item_in 5 ex_pos) (item_in 5 ex_ori)
    = DOk [("polarization"%string, VArr [5; 3]); ("dimension"%string, VArr [5; 3]);
           ("observers"%string, VArr [5; 3]); ("position"%string, VArr [5; 3]); ("orientation"%string, VArr [5; 4])].
Proof.
  destruct (assoc "Cuboid"%string registered) as [tbl|] eqn:E; [|vm_compute in E; discriminate].
  exists tbl. eexists. split; [now apply assoc_In|].
  split; [reflexivity|].
  split.
  { repeat constructor;
      (eapply conforms_dec_ok; [reflexivity|reflexivity|reflexivity|simpl; intros H; discriminate]). }
  split. { right. left. simpl. discriminate. }
  vm_compute in E. injection E as <-. vm_compute. reflexivity.
Qed.

(* ------------------------------------------------------------------ the entry is necessary *)
Lemma length_zmul2 (a b : list Z) : List.length a = List.length b -> List.length (zmul2 a b) = List.length a.
Proof.
  revert b. induction a as [|x a IH]; intros [|y b] H; simpl in *; try discriminate; [reflexivity|].
  f_equal. apply IH. now injection H.
Qed.

Lemma length_pad_left (d : nat) (l : list Z) : (List.length l <= d)%nat -> List.length (pad_left d l) = d.
Proof. intros H. unfold pad_left. rewrite app_length, repeat_length. lia. Qed.

Lemma length_np_tile (s reps : list Z) :
  List.length (np_tile_shape s reps) = Nat.max (List.length s) (List.length reps).
Proof.
  unfold np_tile_shape. rewrite length_zmul2; rewrite !length_pad_left; auto using Nat.le_max_l, Nat.le_max_r.
Qed.

(* the rank entry (instance rank + 1) is NECESSARY: with any other entry for a keyword, a call that gives this keyword
   once and n observers is not tiled to (n, instance shape) *)
Lemma rank_entry_necessary (ed : string -> Z) (key : string) (s : shape) :
  ed "observers"%string = 2 ->
  Forall (fun d => 2 <= d) s ->
  ed key <> ndim s + 1 ->
  exists n, 2 <= n /\
    dict_core ed [(key, item_in n (mkItem key s MSingle)); ("observers"%string, PArr [n; 3])]
    <> DOk [(key, VArr (n :: s)); ("observers"%string, VArr [n; 3])].
Proof.
  intros Hobs Hs Hne.
  set (n := match s with [] => 2 | d :: _ => d + 1 end).
  assert (Hn : 2 <= n) by (subst n; destruct s as [|d s']; [lia|inversion Hs; lia]).
  exists n. split; [exact Hn|].
  unfold dict_core, item_in. simpl it_mode. simpl it_shape. cbv iota.
  unfold phase1.
  assert (Eobs : secure (PArr [n; 3]) = SOk false (VArr [n; 3])).
  { simpl. replace (n <=? 0) with false by lia. reflexivity. }
  rewrite Eobs. cbv iota beta. simpl v_ndim.
  replace (ndim [n; 3] =? ed "observers"%string) with true by (rewrite Hobs; reflexivity).
  simpl orb. cbv iota. simpl v_len. cbv iota beta.
  replace (n =? 1) with false by lia. simpl andb. cbv iota. simpl negb. cbv iota.
  destruct s as [|d s'].
  - (* scalar parameter *)
    simpl secure. cbv iota beta. simpl v_ndim.
    destruct (ndim [] =? ed key) eqn:E.
    + simpl. discriminate.
    + simpl.
      destruct (ndim [] <? ed key) eqn:E2.
      * simpl. intros H. injection H as H _.
        apply (f_equal (@List.length Z)) in H. rewrite length_np_tile in H. simpl in H.
        rewrite repeat_length in H. unfold ndim in *. simpl in *. lia.
      * simpl. intros H. discriminate.
  - assert (Hd : 2 <= d) by (inversion Hs; assumption).
    subst n. simpl secure. replace (d <=? 0) with false by lia. cbv iota beta. simpl v_ndim.
    destruct (ndim (d :: s') =? ed key) eqn:E.
    + simpl orb. cbv iota. simpl v_len. cbv iota beta.
      replace (d =? 1) with false by lia. simpl andb. cbv iota. simpl negb. cbv iota.
      simpl app. simpl map. unfold all_same. simpl forallb.
      replace (d =? d + 1) with false by lia. simpl. discriminate.
    + simpl orb. cbv iota beta. simpl andb. cbv iota. simpl app. simpl map. simpl all_same. simpl negb. cbv iota.
      simpl vec_len_of.
      destruct (ndim (d :: s') <? ed key) eqn:E2.
      * simpl andb. cbv iota. intros H. injection H as H _.
        apply (f_equal (@List.length Z)) in H. rewrite length_np_tile in H. simpl in H.
        rewrite repeat_length in H. rewrite ndim_cons in *. unfold ndim in *. lia.
      * simpl andb. cbv iota. intros H. injection H. intros. lia.
Qed.

(* ------------------------------------------------------------------ role inference *)
Theorem role_inference : forall (self : mobj) (n_inputs : nat),
  (flat_sources self <> [] -> flat_sensors self <> [] ->
     validate_getBH_inputs self n_inputs = if Nat.eqb n_inputs 0 then VRoles ASelf ASelf else VBad) /\
  (flat_sources self = [] -> validate_getBH_inputs self n_inputs = VRoles AInputs ASelf) /\
  (flat_sources self <> [] -> flat_sensors self = [] ->
     validate_getBH_inputs self n_inputs = VRoles ASelf (if Nat.eqb n_inputs 1 then AInput0 else AInputs)).
Proof.
  intros self k. unfold validate_getBH_inputs.
  destruct (flat_sources self) as [|s ss]; destruct (flat_sensors self) as [|q qs]; simpl;
    repeat split; intros; try congruence; destruct (Nat.eqb k 1); reflexivity.
Qed.

(* the collection itself always takes the role(s) it has objects for, and never a role it has no objects for
   unless it has no sources at all (then it is the observer side: documented "collection of sensors") *)
Corollary role_self : forall self k s o, validate_getBH_inputs self k = VRoles s o ->
  (s = ASelf <-> flat_sources self <> []) /\ (flat_sources self <> [] -> flat_sensors self <> [] -> k = 0%nat).
Proof.
  intros self k s o. unfold validate_getBH_inputs.
  destruct (flat_sources self) as [|a l]; destruct (flat_sensors self) as [|b l']; simpl.
  - intros [= <- <-]. split; [split; [discriminate|congruence]|congruence].
  - intros [= <- <-]. split; [split; [discriminate|congruence]|congruence].
  - destruct (Nat.eqb k 1); intros [= <- <-]; (split; [split; [discriminate|reflexivity]|congruence]).
  - destruct (Nat.eqb k 0) eqn:E; [|discriminate]. intros [= <- <-]. apply Nat.eqb_eq in E.
    split; [split; [discriminate|reflexivity]|intros; exact E].
Qed.

(* ------------------------------------------------------------------ dataframe order *)
Section DF.
Context {A B : Type}.

Lemma length_prod2 (a : list A) (b : list B) : List.length (prod2 a b) = (List.length a * List.length b)%nat.
Proof.
  unfold prod2. induction a as [|x a IH]; [reflexivity|].
  simpl. rewrite app_length, map_length, IH. reflexivity.
Qed.

Lemma nth_prod2 (a : list A) (b : list B) (da : A) (db : B) (i j : nat) :
  (i < List.length a)%nat -> (j < List.length b)%nat ->
  nth (i * List.length b + j) (prod2 a b) (da, db) = (nth i a da, nth j b db).
Proof.
  unfold prod2. revert i. induction a as [|x a IH]; intros i Hi Hj; [simpl in Hi; lia|].
  simpl flat_map. destruct i as [|i].
  - simpl. rewrite app_nth1 by (rewrite map_length; exact Hj).
    rewrite (nth_indep _ (da, db) (x, db)) by (rewrite map_length; exact Hj).
    now rewrite (map_nth (pair x)).
  - simpl in Hi. rewrite app_nth2; rewrite map_length; [|simpl; lia].
    replace (S i * List.length b + j - List.length b)%nat with (i * List.length b + j)%nat by (simpl; lia).
    simpl nth. apply IH; lia.
Qed.
End DF.

Lemma length_concat_rect {A} (n : nat) (ll : list (list A)) :
  Forall (fun l => List.length l = n) ll -> List.length (List.concat ll) = (List.length ll * n)%nat.
Proof. induction 1 as [|l ll Hl _ IH]; [reflexivity|]. simpl. rewrite app_length, IH, Hl. reflexivity. Qed.

Lemma nth_concat_rect {A} (n : nat) (ll : list (list A)) (d : A) (i j : nat) :
  Forall (fun l => List.length l = n) ll -> (i < List.length ll)%nat -> (j < n)%nat ->
  nth (i * n + j) (List.concat ll) d = nth j (nth i ll []) d.
Proof.
  intros H. revert i. induction H as [|l ll Hl _ IH]; intros i Hi Hj; [simpl in Hi; lia|].
  simpl List.concat. destruct i as [|i].
  - simpl. apply app_nth1. lia.
  - simpl in Hi. rewrite app_nth2 by (simpl; lia).
    replace (S i * n + j - List.length l)%nat with (i * n + j)%nat by (simpl; lia).
    simpl nth. apply IH; lia.
Qed.

Section DF4.
Context {Lab V : Type}.
Variables (L M K P : nat) (Bv : list (list (list (list V)))).
Hypothesis HB : rect4 L M K P Bv.

Let row3 (Bl : list (list (list V))) : list V := List.concat (map (fun Blm => List.concat Blm) Bl).

Lemma HB_len : List.length Bv = L. Proof. exact (proj1 HB). Qed.

Lemma HB_l (l : nat) : (l < L)%nat ->
  List.length (nth l Bv []) = M /\
  Forall (fun Blm => List.length Blm = K /\ Forall (fun Blmk => List.length Blmk = P) Blm) (nth l Bv []).
Proof.
  intros Hl. destruct HB as [HL HF]. rewrite Forall_forall in HF. apply HF. apply nth_In. lia.
Qed.

Lemma len_inner (Blm : list (list V)) :
  List.length Blm = K /\ Forall (fun Blmk => List.length Blmk = P) Blm -> List.length (List.concat Blm) = (K * P)%nat.
Proof. intros [H1 H2]. rewrite (length_concat_rect P Blm H2), H1. reflexivity. Qed.

Lemma len_row3 (Bl : list (list (list V))) :
  List.length Bl = M /\ Forall (fun Blm => List.length Blm = K /\ Forall (fun Blmk => List.length Blmk = P) Blm) Bl ->
  List.length (row3 Bl) = (M * (K * P))%nat.
Proof.
  intros [H1 H2]. unfold row3. rewrite (length_concat_rect (K * P)).
  - now rewrite map_length, H1.
  - apply Forall_forall. intros x Hx. apply in_map_iff in Hx. destruct Hx as (y & <- & Hy).
    apply len_inner. rewrite Forall_forall in H2. now apply H2.
Qed.

Lemma length_df_values : List.length (df_values Bv) = (L * (M * (K * P)))%nat.
Proof.
  unfold df_values. fold row3. rewrite (length_concat_rect (M * (K * P))).
  - now rewrite map_length, HB_len.
  - apply Forall_forall. intros x Hx. apply in_map_iff in Hx. destruct Hx as (y & <- & Hy).
    apply len_row3. destruct HB as [_ HF]. rewrite Forall_forall in HF. now apply HF.
Qed.

Lemma nth_df_values (dv : V) (l m k p : nat) : (l < L)%nat -> (m < M)%nat -> (k < K)%nat -> (p < P)%nat ->
  nth (l * (M * (K * P)) + (m * (K * P) + (k * P + p))) (df_values Bv) dv = at4 dv Bv l m k p.
Proof.
  intros Hl Hm Hk Hp. unfold df_values, at4. fold row3.
  assert (HKP : (k * P + p < K * P)%nat) by nia.
  assert (HMKP : (m * (K * P) + (k * P + p) < M * (K * P))%nat) by nia.
  rewrite (nth_concat_rect (M * (K * P))); [| |rewrite map_length, HB_len; exact Hl|exact HMKP].
  2:{ apply Forall_forall. intros x Hx. apply in_map_iff in Hx. destruct Hx as (y & <- & Hy).
      apply len_row3. destruct HB as [_ HF]. rewrite Forall_forall in HF. now apply HF. }
  rewrite (nth_indep _ [] (row3 [])) by (rewrite map_length, HB_len; exact Hl).
  rewrite (map_nth row3). destruct (HB_l l Hl) as [HM HF]. unfold row3.
  rewrite (nth_concat_rect (K * P)); [| |rewrite map_length, HM; exact Hm|exact HKP].
  2:{ apply Forall_forall. intros x Hx. apply in_map_iff in Hx. destruct Hx as (y & <- & Hy).
      apply len_inner. rewrite Forall_forall in HF. now apply HF. }
  rewrite (nth_indep _ [] (List.concat [])) by (rewrite map_length, HM; exact Hm).
  rewrite (map_nth (fun Blm => List.concat Blm)).
  assert (Hlm : List.length (nth m (nth l Bv []) []) = K /\
                Forall (fun Blmk => List.length Blmk = P) (nth m (nth l Bv []) [])).
  { rewrite Forall_forall in HF. apply HF. apply nth_In. lia. }
  destruct Hlm as [HK HP].
  apply (nth_concat_rect P); [exact HP|lia|exact Hp].
Qed.
End DF4.

Theorem dataframe_order : forall (Lab V : Type) (dl : Lab) (dv : V)
    (src_ids sens_ids : list Lab) (M P : nat) (B : list (list (list (list V)))) (l m k p : nat),
  let L := List.length src_ids in
  let K := List.length sens_ids in
  rect4 L M K P B -> (l < L)%nat -> (m < M)%nat -> (k < K)%nat -> (p < P)%nat ->
  List.length (dataframe src_ids M sens_ids P B) = (L * M * K * P)%nat /\
  nth (((l * M + m) * K + k) * P + p) (dataframe src_ids M sens_ids P B) ((dl, (0%nat, (dl, 0%nat))), dv)
  = ((nth l src_ids dl, (m, (nth k sens_ids dl, p))), at4 dv B l m k p).
Proof.
  intros Lab V dl dv src_ids sens_ids M P B l m k p L K HB Hl Hm Hk Hp.
  assert (Hlab : List.length (df_labels src_ids M sens_ids P) = (L * (M * (K * P)))%nat).
  { unfold df_labels. rewrite !length_prod2, !seq_length. reflexivity. }
  assert (Hval : List.length (df_values B) = (L * (M * (K * P)))%nat) by (apply (length_df_values L M K P B HB)).
  unfold dataframe. split.
  - rewrite combine_length, Hlab, Hval. rewrite Nat.min_id. ring.
  - rewrite combine_nth by (rewrite Hlab, Hval; reflexivity).
    replace (((l * M + m) * K + k) * P + p)%nat with (l * (M * (K * P)) + (m * (K * P) + (k * P + p)))%nat by ring.
    f_equal.
    + unfold df_labels.
      assert (E3 : List.length (prod2 sens_ids (seq 0 P)) = (K * P)%nat)
        by (rewrite length_prod2, seq_length; reflexivity).
      assert (E2 : List.length (prod2 (seq 0 M) (prod2 sens_ids (seq 0 P))) = (M * (K * P))%nat)
        by (rewrite length_prod2, seq_length, E3; reflexivity).
      rewrite <- E2. rewrite (nth_prod2 src_ids _ dl (0%nat, (dl, 0%nat)) l); [|exact Hl|rewrite E2; nia].
      f_equal. rewrite <- E3.
      rewrite (nth_prod2 (seq 0 M) _ 0%nat (dl, 0%nat) m); [|rewrite seq_length; exact Hm|rewrite E3; nia].
      rewrite seq_nth by exact Hm. simpl plus. f_equal.
      replace P with (List.length (seq 0 P)) at 1 by apply seq_length.
      rewrite (nth_prod2 sens_ids (seq 0 P) dl 0%nat k p); [|exact Hk|rewrite seq_length; exact Hp].
      rewrite seq_nth by exact Hp. reflexivity.
    + apply (nth_df_values L M K P B HB dv l m k p Hl Hm Hk Hp).
Qed.

(* the source column has exactly as many labels as the (summed) array has source rows *)
Theorem df_src_ids_length : forall (Lab : Type) (sumup : bool) (sl : Lab) (labels : list Lab),
  labels <> [] ->
  List.length (df_src_ids sumup sl labels) = if sumup then 1%nat else List.length labels.
Proof.
  intros Lab sumup sl labels Hne. unfold df_src_ids. destruct sumup; simpl; [|reflexivity].
  destruct labels as [|a [|b r]]; [congruence|reflexivity|reflexivity].
Qed.
