(* copy (structure): cloning the subtree below x keeps the forest invariant; the clone is a
   parentless, consistent, isomorphic subtree; the original objects are untouched. *)
From Coq Require Import List Bool Arith PeanoNat Lia.
From MV Require Import Model.ForestModel Model.ForestExec Proofs.ForestInv Proofs.ForestBase
  Proofs.ForestOps Proofs.ForestRm Proofs.ForestDepth Proofs.ForestStep.
Import ListNotations.

Lemma copy_length s x : length (copy_op s x) = length s + length s.
Proof. unfold copy_op. rewrite app_length, map_length, seq_length. reflexivity. Qed.

Lemma get_copy s x i :
  get (copy_op s x) i =
  if Nat.ltb i (length s) then get s i
  else if Nat.ltb i (length s + length s) then clone_obj s x (i - length s) else junk_obj.
Proof.
  unfold copy_op. destruct (Nat.ltb_spec i (length s)).
  - apply get_app_l. exact H.
  - destruct (Nat.ltb_spec i (length s + length s)).
    + unfold get. rewrite app_nth2 by lia.
      rewrite (nth_indep _ junk_obj (clone_obj s x 0)) by (rewrite map_length, seq_length; lia).
      rewrite map_nth. rewrite seq_nth by lia. reflexivity.
    + apply get_oob. rewrite app_length, map_length, seq_length. lia.
Qed.

Lemma get_copy_old s x i : i < length s -> get (copy_op s x) i = get s i.
Proof. intros H. rewrite get_copy. apply Nat.ltb_lt in H. rewrite H. reflexivity. Qed.

Lemma get_copy_clone s x o : o < length s ->
  get (copy_op s x) (length s + o) = clone_obj s x o.
Proof.
  intros H. rewrite get_copy.
  destruct (Nat.ltb_spec (length s + o) (length s)); [lia|].
  destruct (Nat.ltb_spec (length s + o) (length s + length s)); [|lia].
  f_equal. lia.
Qed.

Lemma count_shift n o l : count (n + o) (shift n l) = count o l.
Proof.
  induction l as [|y r IH]; simpl; auto. rewrite IH.
  destruct (Nat.eqb_spec y o); destruct (Nat.eqb_spec (n + y) (n + o)); auto; lia.
Qed.

Lemma In_shift n y l : In y (shift n l) <-> exists o, y = n + o /\ In o l.
Proof.
  unfold shift. rewrite in_map_iff. split; intros (o & A & B); exists o; auto.
Qed.

Lemma filter_shift (f g : nat -> bool) n l : (forall y, In y l -> f (n + y) = g y) ->
  filter f (shift n l) = shift n (filter g l).
Proof.
  induction l as [|y r IH]; intros H; simpl; auto.
  rewrite H by (left; reflexivity). rewrite IH by (intros; apply H; right; auto).
  destruct (g y); reflexivity.
Qed.

Section Copy.
Variables (s : state) (x : nat).
Hypothesis HI : Inv s.
Hypothesis Hx : live s x = true.
Let n := length s.
Let t := copy_op s x.
Let S o := in_subtree s x o = true.

Lemma x_lt : x < n.
Proof. unfold live in Hx. apply andb_prop in Hx. destruct Hx as [A _]. apply Nat.ltb_lt in A. exact A. Qed.
Lemma x_nonjunk : kd s x <> KJunk.
Proof.
  unfold live in Hx. apply andb_prop in Hx. destruct Hx as [_ A].
  apply is_junk_kd. destruct (is_junk s x); auto; discriminate.
Qed.

Lemma S_cases o : S o <-> o = x \/ exists d, below s d x o.
Proof.
  unfold S, in_subtree. rewrite orb_true_iff, Nat.eqb_eq, mem_In. split; intros [A|A]; auto.
  - right. unfold children_all in A. apply flat_sound in A.
    destruct A as [A|(q & d & Hq & Cq & B & _)].
    + exists 1. apply below_child. exact A.
    + exists (Datatypes.S d). eapply below_step; eauto.
  - right. destruct A as (d & B). unfold children_all, fuel_of.
    apply (flat_complete s (w_all s) d x o B).
    + pose proof (upn_bound s d o x HI (below_upn s HI d x o B)). lia.
    + destruct (below_listed _ _ _ _ B) as (q & Hq).
      unfold w_all. destruct (inv_child _ HI q o Hq) as (_ & K & _).
      apply is_junk_kd in K. rewrite K. reflexivity.
Qed.

Lemma S_lt o : S o -> o < n /\ kd s o <> KJunk.
Proof.
  intros H. apply S_cases in H. destruct H as [->|(d & B)].
  - split; [apply x_lt | apply x_nonjunk].
  - destruct (below_listed _ _ _ _ B) as (q & Hq). destruct (inv_child _ HI q o Hq) as (A & K & _).
    auto.
Qed.

Lemma S_child p o : S p -> In o (chl s p) -> S o.
Proof.
  intros Hp Ho. apply S_cases. right. apply S_cases in Hp.
  assert (Cp : is_coll s p = true).
  { apply is_coll_kd. destruct (kd s p) eqn:K; auto;
    rewrite (inv_leaf _ HI p) in Ho by congruence; contradiction. }
  destruct Hp as [->|(d & B)].
  - exists 1. apply below_child. exact Ho.
  - exists (Datatypes.S d). eapply below_snoc; eauto.
Qed.

Lemma S_parent o p : S o -> o <> x -> par s o = Some p -> S p.
Proof.
  intros Ho Hne Hp. apply S_cases in Ho. destruct Ho as [->|(d & B)]; [congruence|].
  apply S_cases. apply (below_upn s HI) in B. inversion B; subst.
  - left. congruence.
  - right. assert (q = p) by congruence. subst q. exists d0. apply upn_below; auto.
Qed.

Lemma S_x : S x.
Proof. apply S_cases. auto. Qed.

(* x is not a child of anything inside its own subtree *)
Lemma x_not_child p : S p -> ~ In x (chl s p).
Proof.
  intros Hp Hin. destruct (inv_child _ HI p x Hin) as (_ & _ & Px).
  apply S_cases in Hp. destruct Hp as [->|(d & B)].
  - apply (inv_acyclic _ HI x). apply anc_parent. exact Px.
  - apply (inv_acyclic _ HI x). apply (below_upn s HI) in B. apply upn_anc in B.
    eapply anc_step; eauto.
Qed.

(* ---- fields of the copied state *)
Lemma t_old i : i < n -> get t i = get s i.
Proof. apply get_copy_old. Qed.

Lemma t_clone o : S o -> get t (n + o) =
  mkObj (kd s o) (if Nat.eqb o x then None else option_map (Nat.add n) (par s o))
        (shift n (chl s o)) (shift n (sources (get s o))) (shift n (sensors (get s o)))
        (shift n (collections (get s o))).
Proof.
  intros H. unfold t, n. rewrite get_copy_clone by (apply S_lt; exact H).
  unfold clone_obj. unfold S in H. rewrite H. reflexivity.
Qed.

Lemma t_dead o : o < n -> ~ S o -> get t (n + o) = junk_obj.
Proof.
  intros L H. unfold t, n. rewrite get_copy_clone by exact L. unfold clone_obj.
  unfold S in H. destruct (in_subtree s x o); [exfalso; auto | reflexivity].
Qed.

Lemma t_cases i : (i < n /\ get t i = get s i) \/
                  (exists o, i = n + o /\ S o) \/
                  get t i = junk_obj.
Proof.
  destruct (Nat.lt_ge_cases i n) as [L|L].
  - left. split; auto. apply t_old. exact L.
  - destruct (Nat.lt_ge_cases i (n + n)) as [L2|L2].
    + destruct (in_subtree s x (i - n)) eqn:E.
      * right. left. exists (i - n). split; [lia | exact E].
      * right. right. replace i with (n + (i - n)) by lia. apply t_dead; [lia|].
        unfold S. congruence.
    + right. right. apply get_oob. unfold t. rewrite copy_length. fold n. lia.
Qed.

Lemma kd_t_old i : i < n -> kd t i = kd s i.
Proof. intros H. unfold kd. rewrite t_old; auto. Qed.
Lemma kd_t_clone o : S o -> kd t (n + o) = kd s o.
Proof. intros H. unfold kd. rewrite t_clone; auto. Qed.

Lemma copy_inv : Inv t.
Proof.
  split.
  - (* parent lists the child once *)
    intros i q Hq. destruct (t_cases i) as [(L & E)|[(o & -> & So)|E]].
    + rewrite E in Hq. destruct (inv_parent _ HI i q Hq) as (A & B & C).
      fold n in A. unfold t at 1. rewrite copy_length. fold n. rewrite kd_t_old, t_old by exact A.
      repeat split; auto. lia.
    + rewrite t_clone in Hq by exact So. simpl in Hq.
      destruct (Nat.eqb_spec o x); [discriminate|].
      destruct (par s o) as [p|] eqn:Hp; [|discriminate]. simpl in Hq. inversion Hq. subst q.
      pose proof (S_parent o p So n0 Hp) as Sp.
      destruct (inv_parent _ HI o p Hp) as (A & B & C).
      unfold t at 1. rewrite copy_length. fold n. rewrite kd_t_clone, t_clone by exact Sp.
      simpl. rewrite count_shift. repeat split; auto. fold n in A. lia.
    + rewrite E in Hq. discriminate.
  - (* a listed child points back *)
    intros q y Hy. destruct (t_cases q) as [(L & E)|[(p & -> & Sp)|E]].
    + rewrite E in Hy. destruct (inv_child _ HI q y Hy) as (A & B & C). fold n in A.
      unfold t at 1. rewrite copy_length. fold n. rewrite kd_t_old, t_old by exact A.
      repeat split; auto. lia.
    + rewrite t_clone in Hy by exact Sp. simpl in Hy. apply In_shift in Hy.
      destruct Hy as (o & -> & Ho). pose proof (S_child p o Sp Ho) as So.
      destruct (inv_child _ HI p o Ho) as (A & B & C). fold n in A.
      unfold t at 1. rewrite copy_length. fold n. rewrite kd_t_clone, t_clone by exact So.
      simpl. repeat split; auto; [lia|].
      destruct (Nat.eqb_spec o x).
      * subst o. exfalso. exact (x_not_child p Sp Ho).
      * rewrite C. reflexivity.
    + rewrite E in Hy. contradiction.
  - (* only collections have children *)
    intros i Hi. destruct (t_cases i) as [(L & E)|[(o & -> & So)|E]].
    + rewrite E. apply (inv_leaf _ HI). rewrite kd_t_old in Hi; auto.
    + rewrite t_clone by exact So. simpl. rewrite kd_t_clone in Hi by exact So.
      rewrite (inv_leaf _ HI o Hi). reflexivity.
    + rewrite E. reflexivity.
  - (* acyclic: project a cycle of the copied state onto the original one *)
    set (proj := fun i => if Nat.ltb i n then i else i - n).
    assert (P : forall i q, par t i = Some q -> par s (proj i) = Some (proj q)).
    { intros i q Hq. unfold proj. destruct (t_cases i) as [(L & E)|[(o & -> & So)|E]].
      - rewrite E in Hq. destruct (inv_parent _ HI i q Hq) as (A & _). fold n in A.
        apply Nat.ltb_lt in L. apply Nat.ltb_lt in A. rewrite L, A. exact Hq.
      - rewrite t_clone in Hq by exact So. simpl in Hq.
        destruct (Nat.eqb o x); [discriminate|].
        destruct (par s o) as [p|] eqn:Hp; [|discriminate]. simpl in Hq. inversion Hq. subst q.
        destruct (Nat.ltb_spec (n + o) n); [lia|]. destruct (Nat.ltb_spec (n + p) n); [lia|].
        replace (n + o - n) with o by lia. replace (n + p - n) with p by lia. exact Hp.
      - rewrite E in Hq. discriminate. }
    assert (A : forall i j, anc t i j -> anc s (proj i) (proj j)).
    { intros i j H. induction H as [i q Hq | i q a Hq Ha IH].
      - apply anc_parent. apply P. exact Hq.
      - eapply anc_step; [apply P; exact Hq | exact IH]. }
    intros i C. apply (inv_acyclic _ HI (proj i)). apply A. exact C.
  - (* typed views *)
    intros c. unfold views_ok. destruct (t_cases c) as [(L & E)|[(o & -> & So)|E]].
    + rewrite E. destruct (inv_views _ HI c) as (V1 & V2 & V3).
      assert (F : forall kk, filter (is_k kk t) (chl s c) = filter (is_k kk s) (chl s c)).
      { intros kk. apply filter_ext_in. intros y Hy. unfold is_k. rewrite kd_t_old; auto.
        apply (inv_child _ HI c y Hy). }
      rewrite !F. auto.
    + rewrite t_clone by exact So. simpl. destruct (inv_views _ HI o) as (V1 & V2 & V3).
      assert (F : forall kk, filter (is_k kk t) (shift n (chl s o)) =
                             shift n (filter (is_k kk s) (chl s o))).
      { intros kk. apply filter_shift. intros y Hy. unfold is_k. rewrite kd_t_clone; auto.
        eapply S_child; eauto. }
      rewrite !F, <- V1, <- V2, <- V3. auto.
    + rewrite E. simpl. auto.
Qed.

(* the original objects are untouched *)
Lemma copy_old_untouched i : i < n -> get t i = get s i.
Proof. apply t_old. Qed.

(* the root of the clone has no parent; the clone of o mirrors o *)
Lemma copy_root_parentless : par t (n + x) = None.
Proof. rewrite t_clone by apply S_x. simpl. rewrite Nat.eqb_refl. reflexivity. Qed.

Lemma copy_iso o : S o ->
  kd t (n + o) = kd s o /\ chl t (n + o) = shift n (chl s o) /\
  (o <> x -> par t (n + o) = option_map (Nat.add n) (par s o)).
Proof.
  intros So. rewrite kd_t_clone by exact So. rewrite t_clone by exact So. simpl.
  repeat split; auto. intros H. destruct (Nat.eqb_spec o x); [contradiction | reflexivity].
Qed.
End Copy.
