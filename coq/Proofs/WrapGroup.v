(* The mesh grouping loop of BHJM_magnet_trimesh (in_out = "auto"), after commit 8fe828e: every row is
   visited, and the mesh its inside test uses is the first mesh of a run of rows whose meshes all compare
   equal to it -- in particular equal to the row's own mesh. *)
From Coq Require Import List Bool Arith Lia.
From MV Require Import Model.WrapModel.
Import ListNotations.

Section Group.
Context {N : NumOps}.
Variable me : list tri -> list tri -> bool.
Hypothesis me_refl : forall m, me m m = true.
Variable meshes : list (list tri).
Let n := length meshes.
Let mesh i := nth i meshes [].

Definition good (s : nat * nat) : Prop :=
  let '(a, b) := s in a < b /\ forall j, a <= j < b -> me (mesh j) (mesh a) = true.

Definition covers (acc : list (nat * nat)) (p : nat) : Prop :=
  forall i, i < p -> exists a b, In (a, b) acc /\ a <= i < b.

Lemma loop_inv : forall fuel new prev acc,
  prev < new -> new + fuel = S n -> (new <= n /\ prev < n) \/ (new = S n /\ prev = n) ->
  Forall good acc -> covers acc prev ->
  (forall j, prev <= j < new -> j < n -> me (mesh j) (mesh prev) = true) ->
  let res := group_loop me meshes n new prev fuel acc in
  Forall good res /\ covers res n.
Proof.
  induction fuel as [|fuel IH]; intros new prev acc Hlt Hf Hp Hg Hc Hcur; cbn.
  - split; [exact Hg|]. destruct Hp as [Hp | [_ Hp]]; [lia|]. subst prev. exact Hc.
  - destruct Hp as [[_ Hp] | Hp]; [|lia].
    assert (Hclose : forall b, prev < b -> b <= new -> b <= n ->
              Forall good (acc ++ [(prev, b)]) /\ covers (acc ++ [(prev, b)]) b).
    { intros b Hb1 Hb2 Hb3. split.
      - apply Forall_app. split; [exact Hg|]. constructor; [|constructor].
        split; [exact Hb1|]. intros j Hj. apply Hcur; lia.
      - intros i Hi. destruct (Nat.lt_ge_cases i prev) as [Hip | Hip].
        + destruct (Hc i Hip) as (a & b' & Hin & Hab). exists a, b'.
          split; [apply in_or_app; left; exact Hin|exact Hab].
        + exists prev, b. split; [apply in_or_app; right; left; reflexivity|lia]. }
    destruct (Nat.eqb new n) eqn:En.
    + apply Nat.eqb_eq in En. subst new. cbn [orb].
      destruct (Hclose n Hlt (le_n _) (le_n _)) as [G C].
      apply IH; [lia | lia | right; split; reflexivity | exact G | exact C | intros j Hj Hjn; lia].
    + apply Nat.eqb_neq in En. cbn [orb].
      assert (Hnew : new < n) by lia.
      destruct (me (nth new meshes []) (nth prev meshes [])) eqn:Em; cbn [negb].
      * apply IH; [lia | lia | left; lia | exact Hg | exact Hc |].
        intros j Hj Hjn. destruct (Nat.eq_dec j new) as [->|Hne]; [exact Em|]. apply Hcur; lia.
      * destruct (Hclose new Hlt (le_n _) (Nat.lt_le_incl _ _ Hnew)) as [G C].
        apply IH; [lia | lia | left; lia | exact G | exact C |].
        intros j Hj Hjn. assert (j = new) by lia. subst j. apply me_refl.
Qed.

Lemma slices_spec : Forall good (mesh_slices me meshes) /\ covers (mesh_slices me meshes) n.
Proof.
  unfold mesh_slices. apply loop_inv.
  - lia.
  - reflexivity.
  - unfold n. lia.
  - constructor.
  - intros i Hi. lia.
  - intros j Hj Hjn. assert (j = 0) by lia. subst j. apply me_refl.
Qed.

(* every row i is visited; the mesh used for it starts a run [k, i] of rows whose meshes compare equal to mesh k *)
Theorem mesh_used_spec : forall i, i < n ->
  exists k, mesh_used me meshes i = Some k /\ k <= i /\
            forall j, k <= j <= i -> me (mesh j) (mesh k) = true.
Proof.
  intros i Hi. destruct slices_spec as [Hg Hc]. unfold mesh_used.
  destruct (Hc i Hi) as (a & b & Hin & Hab).
  destruct (find (fun s : nat * nat => let '(a0, b0) := s in Nat.leb a0 i && Nat.ltb i b0) (mesh_slices me meshes))
    as [[a' b']|] eqn:Hf.
  - apply find_some in Hf. destruct Hf as [Hin' Hab'].
    apply andb_prop in Hab'. destruct Hab' as [H1 H2]. apply Nat.leb_le in H1. apply Nat.ltb_lt in H2.
    rewrite Forall_forall in Hg. specialize (Hg _ Hin'). cbn in Hg. destruct Hg as [_ Hg].
    exists a'. split; [reflexivity|]. split; [exact H1|]. intros j Hj. apply Hg. lia.
  - exfalso. pose proof (find_none _ _ Hf _ Hin) as Hn.
    assert (E : Nat.leb a i && Nat.ltb i b = true).
    { apply andb_true_intro. split; [apply Nat.leb_le|apply Nat.ltb_lt]; lia. }
    change (Nat.leb a i && Nat.ltb i b = false) in Hn. rewrite E in Hn. discriminate.
Qed.

End Group.
