(* Proofs about WrapModel: B = mu0*H + J, J = mu0*M, J in {pol, 0} for every wrapper, every core,
   every row -- in ANY field (Leibniz equality) whose boolean equality test is sound. *)
From Coq Require Import List Bool ZArith Field Lia.
From MV Require Import Model.WrapModel.
Import ListNotations.

Section AnyField.
Context {N : NumOps} {T : Tols}.
Hypothesis Fth : field_theory f0 f1 fadd fmul fsub fopp fdiv finv (@eq F).
Hypothesis feqb_eq : forall x y : F, feqb x y = true -> x = y.
Hypothesis fltb_irrefl : forall x : F, fltb x x = false.
Local Open Scope num_scope.

Add Field FField : Fth.

Variable mu0 : F.
Hypothesis mu0_nz : mu0 <> f0.

(* the relation the property states, on one output row *)
Definition consistent (b h j m : vec) : Prop :=
  b = vadd (vmuls h mu0) j /\ j = vmuls m mu0.

Ltac dvec := repeat match goal with v : vec |- _ => destruct v as [[? ?] ?] end.
Lemma vec_eq (a b c a' b' c' : F) : a = a' -> b = b' -> c = c' -> (a, b, c) = (a', b', c').
Proof. intros -> -> ->. reflexivity. Qed.
Ltac vfield := cbn; unfold vzero; cbn; try reflexivity; apply vec_eq; field; auto.

Lemma fneqb_false x y : fneqb x y = false -> x = y.
Proof. unfold fneqb. intros H. apply feqb_eq. destruct (x =? y); [reflexivity|discriminate]. Qed.

Lemma pol_null_zero p : pol_is_null p = true -> p = vzero.
Proof.
  destruct p as [[x y] z]. unfold pol_is_null. intros H.
  apply andb_prop in H. destruct H as [H Hz]. apply andb_prop in H. destruct H as [Hx Hy].
  apply feqb_eq in Hx, Hy, Hz. subst. reflexivity.
Qed.

Lemma vsel_cases b v : vsel b v = v \/ vsel b v = vzero.
Proof. destruct b; [left|right]; reflexivity. Qed.

Lemma vsel_iff b v : v <> vzero -> (vsel b v = v <-> b = true).
Proof.
  intros Hv. destruct b; cbn; split; intros H; try reflexivity; try discriminate.
  exfalso. apply Hv. symmetry. exact H.
Qed.

(* ------------------------------------------------------------------ Cuboid *)
Lemma cuboid_consistent core r :
  consistent (bhjm_cuboid core mu0 FB r) (bhjm_cuboid core mu0 FH r)
             (bhjm_cuboid core mu0 FJ r) (bhjm_cuboid core mu0 FM r).
Proof.
  unfold consistent, bhjm_cuboid. destruct (cub_inside r), (cub_gen r); cbn [vsel];
  destruct (core r) as [[c1 c2] c3]; destruct (cu_pol r) as [[p1 p2] p3]; split; vfield.
Qed.

Lemma cuboid_J core r : bhjm_cuboid core mu0 FJ r = vsel (cub_inside r) (cu_pol r).
Proof. reflexivity. Qed.

(* ------------------------------------------------------------------ Cylinder *)
Lemma cylinder_JM tv ax r :
  bhjm_cylinder tv ax mu0 FJ r = vmuls (bhjm_cylinder tv ax mu0 FM r) mu0.
Proof.
  unfold bhjm_cylinder. destruct (cyl_scaled r) as [[z0 rr] z]. destruct (cy_pol r) as [[px py] pz].
  destruct (cyl_inside0 r && negb (cyl_on_edge r)); vfield.
Qed.

Lemma cylinder_J tv ax r : bhjm_cylinder tv ax mu0 FJ r = vsel (cyl_inside r) (cy_pol r).
Proof.
  unfold bhjm_cylinder, cyl_inside. destruct (cyl_scaled r) as [[z0 rr] z]. destruct (cy_pol r) as [[px py] pz]. reflexivity.
Qed.

(* B = mu0*H + J for EVERY row (after commit 41540a4 the edge is no exception) *)
Lemma cylinder_BHJ tv ax r :
  bhjm_cylinder tv ax mu0 FB r =
  vadd (vmuls (bhjm_cylinder tv ax mu0 FH r) mu0) (bhjm_cylinder tv ax mu0 FJ r).
Proof.
  unfold bhjm_cylinder.
  destruct (cyl_scaled r) as [[z0 rr] z]. destruct (cy_pol r) as [[px py] pz] eqn:Hpol.
  destruct (pol_is_null (px, py, pz)) eqn:Hnull.
  - apply pol_null_zero in Hnull. injection Hnull as -> -> ->.
    cbn [negb andb]. rewrite !andb_false_r. cbn [andb].
    destruct (cyl_inside0 r && negb (cyl_on_edge r)); cbn [vsel cyl_to_cart vzero vmuls vadd vdivs]; vfield.
  - cbn [negb andb].
    destruct (cyl_on_edge r) eqn:Hedge.
    + cbn [negb andb]. rewrite !andb_false_r. cbn [andb vsel cyl_to_cart vzero vmuls vadd vdivs]. vfield.
    + cbn [negb andb]. rewrite !andb_true_r.
      destruct (fneqb px f0) eqn:Hx; destruct (fneqb py f0) eqn:Hy; destruct (fneqb pz f0) eqn:Hz;
      try (apply fneqb_false in Hx; subst px); try (apply fneqb_false in Hy; subst py);
      try (apply fneqb_false in Hz; subst pz);
      cbn [orb andb];
      destruct (cyl_inside0 r); cbn [andb vsel];
      destruct (tv z0 rr z r) as [[t1 t2] t3]; destruct (ax z0 rr z r) as [[a1 a2] a3];
      cbn [vmuls vadd vsub vdivs cyl_to_cart vzero]; vfield.
Qed.

(* ------------------------------------------------------------------ CylinderSegment *)
Lemma seg_row_JM core a r :
  bhjm_seg_row core mu0 FJ a r = vmuls (bhjm_seg_row core mu0 FM a r) mu0.
Proof.
  unfold bhjm_seg_row. destruct a; cbn [negb]; [|vfield].
  destruct (seg_inside r && seg_not_on_surf r); destruct (cs_pol r) as [[p1 p2] p3]; vfield.
Qed.

Lemma seg_row_J core r : bhjm_seg_row core mu0 FJ true r = vsel (seg_inside_J r) (cs_pol r).
Proof. reflexivity. Qed.

(* B = mu0*H + J for EVERY row and either value of the batch flag (after commit 77d60b2) *)
Lemma seg_row_BHJ core a r :
  bhjm_seg_row core mu0 FB a r =
  vadd (vmuls (bhjm_seg_row core mu0 FH a r) mu0) (bhjm_seg_row core mu0 FJ a r).
Proof.
  unfold bhjm_seg_row. destruct a; cbn [negb]; [|vfield].
  destruct (cs_pol r) as [[p1 p2] p3] eqn:Hp.
  destruct (cyl_to_cart (cs_c r) (cs_s r) (core r)) as [[h1 h2] h3].
  destruct (seg_not_on_surf r) eqn:Hoff; destruct (seg_inside r) eqn:Hin; cbn [vsel andb]; vfield.
Qed.

Lemma seg_all_on_surface core f r : bhjm_seg_row core mu0 f false r = vzero.
Proof. reflexivity. Qed.

Lemma seg_batch_rows core f rows :
  bhjm_seg_batch core mu0 f rows = map (bhjm_seg_row core mu0 f (existsb seg_not_on_surf rows)) rows.
Proof. reflexivity. Qed.

(* J of a row of a batch is [inside and off the surface] * pol, whatever the rest of the batch *)
Lemma seg_batch_J core rows r : In r rows ->
  bhjm_seg_row core mu0 FJ (existsb seg_not_on_surf rows) r = vsel (seg_inside_J r) (cs_pol r).
Proof.
  intros Hin. destruct (existsb seg_not_on_surf rows) eqn:E; [reflexivity|].
  assert (Hoff : seg_not_on_surf r = false).
  { destruct (seg_not_on_surf r) eqn:Ho; [|reflexivity].
    assert (X : existsb seg_not_on_surf rows = true) by (apply existsb_exists; exists r; split; assumption).
    rewrite X in E. discriminate. }
  unfold seg_inside_J. rewrite Hoff, andb_false_r. reflexivity.
Qed.

Lemma seg_internal_row_BHJ core tv ax a r :
  bhjm_seg_internal_row core tv ax mu0 FB a r =
  vadd (vmuls (bhjm_seg_internal_row core tv ax mu0 FH a r) mu0) (bhjm_seg_internal_row core tv ax mu0 FJ a r).
Proof.
  unfold bhjm_seg_internal_row. destruct (seg_is_segment r).
  - apply seg_row_BHJ.
  - rewrite (cylinder_BHJ tv ax (seg_as_cyl r (cs_r2 r))).
    destruct (fneqb (cs_r1 r) f0); [|reflexivity].
    rewrite (cylinder_BHJ tv ax (seg_as_cyl r (cs_r1 r))).
    destruct (bhjm_cylinder tv ax mu0 FH (seg_as_cyl r (cs_r2 r))) as [[a1 a2] a3].
    destruct (bhjm_cylinder tv ax mu0 FJ (seg_as_cyl r (cs_r2 r))) as [[b1 b2] b3].
    destruct (bhjm_cylinder tv ax mu0 FH (seg_as_cyl r (cs_r1 r))) as [[c1 c2] c3].
    destruct (bhjm_cylinder tv ax mu0 FJ (seg_as_cyl r (cs_r1 r))) as [[d1 d2] d3].
    vfield.
Qed.

Lemma seg_internal_row_JM core tv ax a r :
  bhjm_seg_internal_row core tv ax mu0 FJ a r = vmuls (bhjm_seg_internal_row core tv ax mu0 FM a r) mu0.
Proof.
  unfold bhjm_seg_internal_row. destruct (seg_is_segment r).
  - apply seg_row_JM.
  - rewrite !cylinder_JM.
    destruct (fneqb (cs_r1 r) f0); [|reflexivity].
    destruct (bhjm_cylinder tv ax mu0 FM (seg_as_cyl r (cs_r2 r))) as [[a1 a2] a3].
    destruct (bhjm_cylinder tv ax mu0 FM (seg_as_cyl r (cs_r1 r))) as [[c1 c2] c3].
    vfield.
Qed.

(* ------------------------------------------------------------------ Sphere *)
Lemma sphere_consistent r :
  consistent (bhjm_sphere mu0 FB r) (bhjm_sphere mu0 FH r) (bhjm_sphere mu0 FJ r) (bhjm_sphere mu0 FM r).
Proof.
  unfold consistent, bhjm_sphere. generalize (two / fofZ 3). intros k.
  destruct (sph_out r); cbn [negb vsel];
  destruct (sph_outside_B r) as [[b1 b2] b3]; destruct (sp_pol r) as [[p1 p2] p3]; split; vfield.
Qed.

Lemma sphere_J r : bhjm_sphere mu0 FJ r = vsel (negb (sph_out r)) (sp_pol r).
Proof. reflexivity. Qed.

(* ------------------------------------------------------------------ Triangle, Circle, Polyline, Dipole: J = M = 0 *)
Lemma triangle_consistent core r :
  consistent (bhjm_triangle core mu0 FB r) (bhjm_triangle core mu0 FH r)
             (bhjm_triangle core mu0 FJ r) (bhjm_triangle core mu0 FM r)
  /\ bhjm_triangle core mu0 FJ r = vzero /\ bhjm_triangle core mu0 FM r = vzero.
Proof.
  unfold consistent, bhjm_triangle. destruct (core r) as [[c1 c2] c3]. repeat split; vfield.
Qed.

Lemma circle_consistent core r :
  consistent (bhjm_circle core mu0 FB r) (bhjm_circle core mu0 FH r)
             (bhjm_circle core mu0 FJ r) (bhjm_circle core mu0 FM r)
  /\ bhjm_circle core mu0 FJ r = vzero /\ bhjm_circle core mu0 FM r = vzero.
Proof.
  unfold consistent, bhjm_circle. cbv zeta.
  match goal with |- context [if cir_general r then ?a else ?b] =>
    destruct (if cir_general r then a else b) as [[c1 c2] c3] end.
  repeat split; vfield.
Qed.

Lemma polyline_consistent core r :
  consistent (bhjm_polyline core mu0 FB r) (bhjm_polyline core mu0 FH r)
             (bhjm_polyline core mu0 FJ r) (bhjm_polyline core mu0 FM r)
  /\ bhjm_polyline core mu0 FJ r = vzero /\ bhjm_polyline core mu0 FM r = vzero.
Proof.
  unfold consistent, bhjm_polyline. destruct (vsel (negb (pol_mask0 r)) (core r)) as [[c1 c2] c3].
  repeat split; vfield.
Qed.

Lemma polyline_batch_rows core f rows :
  bhjm_polyline_batch core mu0 f rows = map (bhjm_polyline core mu0 f) rows.
Proof.
  unfold bhjm_polyline_batch.
  assert (Hz : forall g, (forall r, In r rows -> g r = vzero) -> map (fun _ => vzero) rows = map g rows).
  { intros g Hg. induction rows as [|x l IH]; [reflexivity|]. cbn. rewrite Hg by (left; reflexivity).
    f_equal. apply IH. intros r Hr. apply Hg. right. exact Hr. }
  destruct f; try reflexivity.
  - destruct (forallb pol_mask0 rows) eqn:Hall; [|reflexivity].
    apply Hz. intros r Hr. rewrite forallb_forall in Hall. unfold bhjm_polyline. rewrite (Hall r Hr).
    cbn. unfold vzero. apply vec_eq; ring.
  - destruct (forallb pol_mask0 rows) eqn:Hall; [|reflexivity].
    apply Hz. intros r Hr. rewrite forallb_forall in Hall. unfold bhjm_polyline. rewrite (Hall r Hr).
    reflexivity.
Qed.

Lemma dipole_consistent core r :
  consistent (bhjm_dipole core mu0 FB r) (bhjm_dipole core mu0 FH r)
             (bhjm_dipole core mu0 FJ r) (bhjm_dipole core mu0 FM r)
  /\ bhjm_dipole core mu0 FJ r = vzero /\ bhjm_dipole core mu0 FM r = vzero.
Proof.
  unfold consistent, bhjm_dipole. destruct (core r) as [[c1 c2] c3]. repeat split; vfield.
Qed.

(* ------------------------------------------------------------------ Tetrahedron *)
Lemma chirality_pol r : te_pol (chirality r) = te_pol r.
Proof. unfold chirality. destruct (_ <? f0); reflexivity. Qed.

Lemma fltb_neq x : (x <? f0) = true -> x <> f0.
Proof. intros H E. subst x. rewrite fltb_irrefl in H. discriminate. Qed.

Lemma det3_swap a b c : det3 a c b = - det3 a b c.
Proof. destruct a as [[? ?] ?], b as [[? ?] ?], c as [[? ?] ?]. unfold det3. ring. Qed.

(* the inside test does not see the exchange of p2 and p3 made by check_chirality *)
Lemma tet_inside_chirality io r : tet_inside io (chirality r) = tet_inside io r.
Proof.
  unfold chirality.
  destruct (det3 (vsub (te_v1 r) (te_v0 r)) (vsub (te_v2 r) (te_v0 r)) (vsub (te_v3 r) (te_v0 r)) <? f0) eqn:Hd;
    [|reflexivity].
  apply fltb_neq in Hd.
  destruct io; try reflexivity.
  unfold tet_inside, point_inside, bary. cbn [te_obs te_v0 te_v1 te_v2 te_v3].
  destruct (te_obs r) as [[o1 o2] o3]. destruct (te_v0 r) as [[a1 a2] a3]. destruct (te_v1 r) as [[b1 b2] b3].
  destruct (te_v2 r) as [[c1 c2] c3]. destruct (te_v3 r) as [[d1 d2] d3].
  cbn [vsub] in *.
  set (A := (b1 - a1, b2 - a2, b3 - a3)) in *. set (B := (c1 - a1, c2 - a2, c3 - a3)) in *.
  set (C := (d1 - a1, d2 - a2, d3 - a3)) in *. set (Q := (o1 - a1, o2 - a2, o3 - a3)) in *.
  assert (Hs : det3 A C B <> f0).
  { intros E. apply Hd. rewrite det3_swap in E.
    replace (det3 A B C) with (- - det3 A B C) by ring. rewrite E. ring. }
  assert (E1 : det3 Q C B / det3 A C B = det3 Q B C / det3 A B C).
  { subst A B C Q. unfold det3 in *. field. split; assumption. }
  assert (E2 : det3 A Q B / det3 A C B = det3 A B Q / det3 A B C).
  { subst A B C Q. unfold det3 in *. field. split; assumption. }
  assert (E3 : det3 A C Q / det3 A C B = det3 A Q C / det3 A B C).
  { subst A B C Q. unfold det3 in *. field. split; assumption. }
  rewrite E1, E2, E3.
  set (l1 := det3 Q B C / det3 A B C). set (l2 := det3 A Q C / det3 A B C). set (l3 := det3 A B Q / det3 A B C).
  replace (l1 + l3 + l2) with (l1 + l2 + l3) by ring.
  destruct (f0 <=? l1), (f0 <=? l2), (f0 <=? l3), (l1 <=? f1), (l2 <=? f1), (l3 <=? f1); reflexivity.
Qed.

Lemma tetrahedron_consistent core io r :
  consistent (bhjm_tetrahedron core mu0 io FB r) (bhjm_tetrahedron core mu0 io FH r)
             (bhjm_tetrahedron core mu0 io FJ r) (bhjm_tetrahedron core mu0 io FM r).
Proof.
  unfold consistent, bhjm_tetrahedron. cbv zeta.
  rewrite chirality_pol.
  generalize (chirality r). intros r'.
  unfold tri_sum, tet_faces. cbn [fold_left]. unfold bhjm_triangle.
  repeat match goal with |- context [core ?x] => destruct (core x) as [[? ?] ?] end.
  destruct (te_pol r) as [[p1 p2] p3].
  destruct (tet_inside io r); split; vfield.
Qed.

Lemma tetrahedron_J core io r : bhjm_tetrahedron core mu0 io FJ r = vsel (tet_inside io r) (te_pol r).
Proof. reflexivity. Qed.

(* ------------------------------------------------------------------ TriangularMesh *)
Lemma trimesh_row_consistent core mi me io meshes ir :
  consistent (bhjm_trimesh_row core mi me mu0 io FB meshes ir) (bhjm_trimesh_row core mi me mu0 io FH meshes ir)
             (bhjm_trimesh_row core mi me mu0 io FJ meshes ir) (bhjm_trimesh_row core mi me mu0 io FM meshes ir).
Proof.
  destruct ir as [i r]. unfold consistent, bhjm_trimesh_row, msh_base. cbv zeta.
  generalize (tri_sum core mu0 FB (ms_obs r) (ms_pol r) (ms_mesh r)). intros [[b1 b2] b3].
  destruct (ms_pol r) as [[p1 p2] p3].
  destruct (msh_ins mi me io meshes i r); split; vfield.
Qed.

Lemma trimesh_row_J core mi me io meshes i r :
  bhjm_trimesh_row core mi me mu0 io FJ meshes (i, r) = vsel (msh_ins mi me io meshes i r) (ms_pol r).
Proof.
  unfold bhjm_trimesh_row, msh_base. cbv zeta. destruct (ms_pol r) as [[p1 p2] p3].
  destruct (msh_ins mi me io meshes i r); vfield.
Qed.

Lemma trimesh_batch_rows core mi me io f rows :
  bhjm_trimesh_batch core mi me mu0 io f rows =
  map (bhjm_trimesh_row core mi me mu0 io f (map ms_mesh rows)) (combine (seq 0 (length rows)) rows).
Proof. reflexivity. Qed.

(* ------------------------------------------------------------------ excitation attributes *)
Lemma exc_step_sync c s a : c <> f0 -> exc_sync c s -> exc_sync c (exc_step c c s a).
Proof.
  intros Hc Hs. destruct a as [[p|]|[m|]|]; cbn; try exact I; try reflexivity; try exact Hs.
  destruct p as [[p1 p2] p3]. vfield.
Qed.

Lemma exc_run_sync c : c <> f0 -> forall h s, exc_sync c s -> exc_sync c (exc_run c c s h).
Proof.
  intros Hc h. induction h as [|a h IH]; intros s Hs; [exact Hs|].
  cbn. apply IH. apply exc_step_sync; assumption.
Qed.

(* every assignment re-establishes the relation whatever the state before it *)
Lemma exc_assign_sync c s a : c <> f0 -> a <> Observe -> exc_sync c (exc_step c c s a).
Proof.
  intros Hc Ha. destruct a as [[p|]|[m|]|]; cbn; try exact I; try reflexivity; [|contradiction].
  destruct p as [[p1 p2] p3]. vfield.
Qed.

Lemma exc_init_sync c : exc_sync c exc_init.
Proof. exact I. Qed.

(* with two different constants the relation holds for the constant of the LAST assignment only *)
Lemma exc_setmag_value c_mul c_div s m :
  e_pol (exc_step c_mul c_div s (SetMag (Some m))) = Some (vmuls m c_mul).
Proof. reflexivity. Qed.

(* ------------------------------------------------------------------ the property per wrapper, in one statement *)
Definition magnet_spec (b h j m pol : vec) (inside : bool) : Prop :=
  b = vadd (vmuls h mu0) j /\ j = vmuls m mu0 /\
  j = vsel inside pol /\ (j = pol \/ j = vzero) /\ (pol <> vzero -> (j = pol <-> inside = true)).
Definition current_spec (b h j m : vec) : Prop :=
  b = vadd (vmuls h mu0) j /\ j = vmuls m mu0 /\ j = vzero /\ m = vzero.

Lemma J_spec b pol j : j = vsel b pol -> j = vsel b pol /\ (j = pol \/ j = vzero) /\ (pol <> vzero -> (j = pol <-> b = true)).
Proof. intros ->. split; [reflexivity|]. split; [apply vsel_cases|]. intros H. apply vsel_iff. exact H. Qed.

Lemma cuboid_full core r :
  magnet_spec (bhjm_cuboid core mu0 FB r) (bhjm_cuboid core mu0 FH r) (bhjm_cuboid core mu0 FJ r)
              (bhjm_cuboid core mu0 FM r) (cu_pol r) (cub_inside r).
Proof. destruct (cuboid_consistent core r) as [H1 H2]. split; [exact H1|]. split; [exact H2|]. apply J_spec. reflexivity. Qed.

Lemma cylinder_full tv ax r :
  magnet_spec (bhjm_cylinder tv ax mu0 FB r) (bhjm_cylinder tv ax mu0 FH r) (bhjm_cylinder tv ax mu0 FJ r)
              (bhjm_cylinder tv ax mu0 FM r) (cy_pol r) (cyl_inside r).
Proof.
  split; [apply cylinder_BHJ|]. split; [apply cylinder_JM|]. apply J_spec. apply cylinder_J.
Qed.

(* a row r of ANY batch rows (the batch-level exit included) *)
Lemma seg_batch_full core rows r : In r rows ->
  let out f := bhjm_seg_row core mu0 f (existsb seg_not_on_surf rows) r in
  magnet_spec (out FB) (out FH) (out FJ) (out FM) (cs_pol r) (seg_inside_J r).
Proof.
  intros Hin. cbv zeta. split; [apply seg_row_BHJ|]. split; [apply seg_row_JM|]. apply J_spec.
  apply seg_batch_J. exact Hin.
Qed.

Lemma seg_internal_row_full core tv ax a r :
  let out f := bhjm_seg_internal_row core tv ax mu0 f a r in
  out FB = vadd (vmuls (out FH) mu0) (out FJ) /\ out FJ = vmuls (out FM) mu0.
Proof. cbv zeta. split; [apply seg_internal_row_BHJ|apply seg_internal_row_JM]. Qed.

Lemma sphere_full r :
  magnet_spec (bhjm_sphere mu0 FB r) (bhjm_sphere mu0 FH r) (bhjm_sphere mu0 FJ r) (bhjm_sphere mu0 FM r)
              (sp_pol r) (negb (sph_out r)).
Proof. destruct (sphere_consistent r) as [H1 H2]. split; [exact H1|]. split; [exact H2|]. apply J_spec. reflexivity. Qed.

Lemma tetrahedron_full core io r :
  magnet_spec (bhjm_tetrahedron core mu0 io FB r) (bhjm_tetrahedron core mu0 io FH r)
              (bhjm_tetrahedron core mu0 io FJ r) (bhjm_tetrahedron core mu0 io FM r) (te_pol r) (tet_inside io r).
Proof.
  destruct (tetrahedron_consistent core io r) as [H1 H2]. split; [exact H1|]. split; [exact H2|].
  apply J_spec. reflexivity.
Qed.

Lemma trimesh_row_full core mi me io meshes i r :
  magnet_spec (bhjm_trimesh_row core mi me mu0 io FB meshes (i, r)) (bhjm_trimesh_row core mi me mu0 io FH meshes (i, r))
              (bhjm_trimesh_row core mi me mu0 io FJ meshes (i, r)) (bhjm_trimesh_row core mi me mu0 io FM meshes (i, r))
              (ms_pol r) (msh_ins mi me io meshes i r).
Proof.
  destruct (trimesh_row_consistent core mi me io meshes (i, r)) as [H1 H2]. split; [exact H1|]. split; [exact H2|].
  apply J_spec. apply trimesh_row_J.
Qed.

Lemma triangle_full core r :
  current_spec (bhjm_triangle core mu0 FB r) (bhjm_triangle core mu0 FH r) (bhjm_triangle core mu0 FJ r) (bhjm_triangle core mu0 FM r).
Proof. destruct (triangle_consistent core r) as [[H1 H2] [H3 H4]]. repeat split; assumption. Qed.
Lemma circle_full core r :
  current_spec (bhjm_circle core mu0 FB r) (bhjm_circle core mu0 FH r) (bhjm_circle core mu0 FJ r) (bhjm_circle core mu0 FM r).
Proof. destruct (circle_consistent core r) as [[H1 H2] [H3 H4]]. repeat split; assumption. Qed.
Lemma polyline_full core r :
  current_spec (bhjm_polyline core mu0 FB r) (bhjm_polyline core mu0 FH r) (bhjm_polyline core mu0 FJ r) (bhjm_polyline core mu0 FM r).
Proof. destruct (polyline_consistent core r) as [[H1 H2] [H3 H4]]. repeat split; assumption. Qed.
Lemma dipole_full core r :
  current_spec (bhjm_dipole core mu0 FB r) (bhjm_dipole core mu0 FH r) (bhjm_dipole core mu0 FJ r) (bhjm_dipole core mu0 FM r).
Proof. destruct (dipole_consistent core r) as [[H1 H2] [H3 H4]]. repeat split; assumption. Qed.

Lemma seg_internal_batch_rows core tv ax f rows :
  bhjm_seg_internal_batch core tv ax mu0 f rows =
  map (bhjm_seg_internal_row core tv ax mu0 f (existsb seg_not_on_surf (filter seg_is_segment rows))) rows.
Proof. reflexivity. Qed.

(* ------------------------------------------------------------------ level 1: the pose keeps the property, with the
   polarization expressed in the observer frame *)
Lemma mapply_lin m h j : mapply m (vadd (vmuls h mu0) j) = vadd (vmuls (mapply m h) mu0) (mapply m j).
Proof.
  destruct m as [[[[a1 a2] a3] [[b1 b2] b3]] [[c1 c2] c3]]. destruct h as [[h1 h2] h3]. destruct j as [[j1 j2] j3].
  cbn. apply vec_eq; ring.
Qed.
Lemma mapply_scal m v : mapply m (vmuls v mu0) = vmuls (mapply m v) mu0.
Proof.
  destruct m as [[[[a1 a2] a3] [[b1 b2] b3]] [[c1 c2] c3]]. destruct v as [[v1 v2] v3]. cbn. apply vec_eq; ring.
Qed.
Lemma mapply_zero m : mapply m vzero = vzero.
Proof. destruct m as [[[[a1 a2] a3] [[b1 b2] b3]] [[c1 c2] c3]]. unfold vzero. cbn. apply vec_eq; ring. Qed.

Lemma level1_magnet m local pol inside :
  magnet_spec (local FB) (local FH) (local FJ) (local FM) pol inside ->
  magnet_spec (level1 m local FB) (level1 m local FH) (level1 m local FJ) (level1 m local FM) (mapply m pol) inside.
Proof.
  intros (H1 & H2 & H3 & _). unfold level1.
  split; [rewrite H1 at 1; apply mapply_lin|]. split; [rewrite H2 at 1; apply mapply_scal|].
  apply J_spec. rewrite H3. destruct inside; cbn [vsel]; [reflexivity|apply mapply_zero].
Qed.

Lemma level1_current m local :
  current_spec (local FB) (local FH) (local FJ) (local FM) ->
  current_spec (level1 m local FB) (level1 m local FH) (level1 m local FJ) (level1 m local FM).
Proof.
  intros (H1 & H2 & H3 & H4). unfold level1.
  split; [rewrite H1 at 1; apply mapply_lin|]. split; [rewrite H2 at 1; apply mapply_scal|].
  rewrite H3, H4. split; apply mapply_zero.
Qed.

End AnyField.
