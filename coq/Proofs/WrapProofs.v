(* Proofs about WrapModel: B = mu0*H + J, J = mu0*M, J in {pol, 0} for every wrapper, every core,
   every row -- in ANY field (Leibniz equality) whose boolean equality test is sound. *)
From Coq Require Import List Bool ZArith Field Lia.
From MV Require Import Model.WrapModel.
Import ListNotations.

Section AnyField.
Context {N : NumOps}.
Hypothesis Fth : field_theory f0 f1 fadd fmul fsub fopp fdiv finv (@eq F).
Hypothesis feqb_eq : forall x y : F, feqb x y = true -> x = y.
Hypothesis fltb_irrefl : forall x : F, fltb x x = false.
Local Open Scope num_scope.

Add Field FField : Fth.

Variable mu0 : F.
Hypothesis mu0_nz : mu0 <> f0.

(* the relation the property states, on one output row *)
Definition consistent (b h j m : vec) : Prop :=
  b = vadd (vmuls h mu0) j /\ j = vmuls m mu0.

Ltac dvec := repeat match goal with v : vec |- _ => destruct v as [[? ?] ?] end.
Lemma vec_eq (a b c a' b' c' : F) : a = a' -> b = b' -> c = c' -> (a, b, c) = (a', b', c').
Proof. intros -> -> ->. reflexivity. Qed.
Ltac vfield := cbn; unfold vzero; cbn; try reflexivity; apply vec_eq; field; auto.

Lemma fneqb_false x y : fneqb x y = false -> x = y.
Proof. unfold fneqb. intros H. apply feqb_eq. destruct (x =? y); [reflexivity|discriminate]. Qed.

Lemma pol_null_zero p : pol_is_null p = true -> p = vzero.
Proof.
  destruct p as [[x y] z]. unfold pol_is_null. intros H.
  apply andb_prop in H. destruct H as [H Hz]. apply andb_prop in H. destruct H as [Hx Hy].
  apply feqb_eq in Hx, Hy, Hz. subst. reflexivity.
Qed.

Lemma vsel_cases b v : vsel b v = v \/ vsel b v = vzero.
Proof. destruct b; [left|right]; reflexivity. Qed.

Lemma vsel_iff b v : v <> vzero -> (vsel b v = v <-> b = true).
Proof.
  intros Hv. destruct b; cbn; split; intros H; try reflexivity; try discriminate.
  exfalso. apply Hv. symmetry. exact H.
Qed.

(* ------------------------------------------------------------------ Cuboid *)
Lemma cuboid_consistent core r :
  consistent (bhjm_cuboid core mu0 FB r) (bhjm_cuboid core mu0 FH r)
             (bhjm_cuboid core mu0 FJ r) (bhjm_cuboid core mu0 FM r).
Proof.
  unfold consistent, bhjm_cuboid. destruct (cub_inside r), (cub_gen r); cbn [vsel];
  destruct (core r) as [[c1 c2] c3]; destruct (cu_pol r) as [[p1 p2] p3]; split; vfield.
Qed.

Lemma cuboid_J core r : bhjm_cuboid core mu0 FJ r = vsel (cub_inside r) (cu_pol r).
Proof. reflexivity. Qed.

(* ------------------------------------------------------------------ Cylinder *)
Lemma cylinder_JM tv ax r :
  bhjm_cylinder tv ax mu0 FJ r = vmuls (bhjm_cylinder tv ax mu0 FM r) mu0.
Proof.
  unfold bhjm_cylinder. destruct (cyl_scaled r) as [[z0 rr] z]. destruct (cy_pol r) as [[px py] pz].
  destruct (cyl_inside0 r); vfield.
Qed.

Lemma cylinder_J tv ax r : bhjm_cylinder tv ax mu0 FJ r = vsel (cyl_inside0 r) (cy_pol r).
Proof.
  unfold bhjm_cylinder. destruct (cyl_scaled r) as [[z0 rr] z]. destruct (cy_pol r) as [[px py] pz]. reflexivity.
Qed.

(* B = mu0*H + J holds OFF the edge (or for zero polarization, or outside the closed body) *)
Lemma cylinder_BHJ tv ax r :
  cyl_on_edge r = false \/ cy_pol r = vzero \/ cyl_inside0 r = false ->
  bhjm_cylinder tv ax mu0 FB r =
  vadd (vmuls (bhjm_cylinder tv ax mu0 FH r) mu0) (bhjm_cylinder tv ax mu0 FJ r).
Proof.
  intros Hex. unfold bhjm_cylinder.
  destruct (cyl_scaled r) as [[z0 rr] z]. destruct (cy_pol r) as [[px py] pz] eqn:Hpol.
  assert (Hcase : cyl_on_edge r = false \/ (px = f0 /\ py = f0 /\ pz = f0) \/ cyl_inside0 r = false).
  { destruct Hex as [H | [H | H]]; auto. right; left. injection H as -> -> ->. auto. }
  clear Hex.
  destruct (pol_is_null (px, py, pz)) eqn:Hnull.
  - apply pol_null_zero in Hnull. injection Hnull as -> -> ->.
    cbn [negb andb]. rewrite !andb_false_r. cbn [andb].
    destruct (cyl_inside0 r); cbn [vsel cyl_to_cart vzero vmuls vadd vdivs]; vfield.
  - cbn [negb andb].
    destruct (cyl_on_edge r) eqn:Hedge.
    + cbn [negb andb]. rewrite !andb_false_r. cbn [andb].
      destruct Hcase as [H | [(-> & -> & ->) | H]]; [discriminate | | rewrite H];
      try destruct (cyl_inside0 r); cbn [vsel cyl_to_cart vzero vmuls vadd vdivs]; vfield.
    + clear Hcase. cbn [negb andb]. rewrite !andb_true_r.
      destruct (fneqb px f0) eqn:Hx; destruct (fneqb py f0) eqn:Hy; destruct (fneqb pz f0) eqn:Hz;
      try (apply fneqb_false in Hx; subst px); try (apply fneqb_false in Hy; subst py);
      try (apply fneqb_false in Hz; subst pz);
      cbn [orb andb];
      destruct (cyl_inside0 r); cbn [andb vsel];
      destruct (tv z0 rr z r) as [[t1 t2] t3]; destruct (ax z0 rr z r) as [[a1 a2] a3];
      cbn [vmuls vadd vsub vdivs cyl_to_cart vzero]; vfield.
Qed.


(* ------------------------------------------------------------------ CylinderSegment *)
Lemma seg_row_JM core a r :
  bhjm_seg_row core mu0 FJ a r = vmuls (bhjm_seg_row core mu0 FM a r) mu0.
Proof.
  unfold bhjm_seg_row. destruct a; cbn [negb]; [|vfield].
  destruct (seg_inside r); destruct (cs_pol r) as [[p1 p2] p3]; vfield.
Qed.

Lemma seg_row_J core r : bhjm_seg_row core mu0 FJ true r = vsel (seg_inside r) (cs_pol r).
Proof. reflexivity. Qed.

(* off the surface (or outside the tolerance body, or pol = 0) the row is consistent, in every batch *)
Lemma seg_row_BHJ core a r :
  seg_not_on_surf r = true \/ seg_inside r = false \/ cs_pol r = vzero ->
  bhjm_seg_row core mu0 FB a r =
  vadd (vmuls (bhjm_seg_row core mu0 FH a r) mu0) (bhjm_seg_row core mu0 FJ a r).
Proof.
  intros Hex. unfold bhjm_seg_row. destruct a; cbn [negb]; [|vfield].
  destruct (cs_pol r) as [[p1 p2] p3] eqn:Hp.
  destruct (cyl_to_cart (cs_c r) (cs_s r) (core r)) as [[h1 h2] h3].
  destruct (seg_not_on_surf r) eqn:Hoff; destruct (seg_inside r) eqn:Hin; cbn [vsel];
  try solve [vfield].
  destruct Hex as [H | [H | H]]; try discriminate. injection H as -> -> ->. vfield.
Qed.

(* a batch in which NO row is off the surface returns zeros for all four fields (consistent, but J = 0) *)
Lemma seg_all_on_surface core f r : bhjm_seg_row core mu0 f false r = vzero.
Proof. reflexivity. Qed.

Lemma seg_batch_rows core f rows :
  bhjm_seg_batch core mu0 f rows = map (bhjm_seg_row core mu0 f (existsb seg_not_on_surf rows)) rows.
Proof. reflexivity. Qed.

Lemma seg_internal_row_BHJ core tv ax a r :
  (if seg_is_segment r
   then seg_not_on_surf r = true \/ seg_inside r = false \/ cs_pol r = vzero
   else (cyl_on_edge (seg_as_cyl r (cs_r2 r)) = false \/ cs_pol r = vzero \/ cyl_inside0 (seg_as_cyl r (cs_r2 r)) = false)
        /\ (fneqb (cs_r1 r) f0 = true ->
            cyl_on_edge (seg_as_cyl r (cs_r1 r)) = false \/ cs_pol r = vzero \/ cyl_inside0 (seg_as_cyl r (cs_r1 r)) = false)) ->
  bhjm_seg_internal_row core tv ax mu0 FB a r =
  vadd (vmuls (bhjm_seg_internal_row core tv ax mu0 FH a r) mu0) (bhjm_seg_internal_row core tv ax mu0 FJ a r).
Proof.
  unfold bhjm_seg_internal_row. destruct (seg_is_segment r).
  - apply seg_row_BHJ.
  - intros [H2 H1]. rewrite (cylinder_BHJ tv ax (seg_as_cyl r (cs_r2 r)) H2).
    destruct (fneqb (cs_r1 r) f0); [|reflexivity].
    rewrite (cylinder_BHJ tv ax (seg_as_cyl r (cs_r1 r)) (H1 eq_refl)).
    destruct (bhjm_cylinder tv ax mu0 FH (seg_as_cyl r (cs_r2 r))) as [[a1 a2] a3].
    destruct (bhjm_cylinder tv ax mu0 FJ (seg_as_cyl r (cs_r2 r))) as [[b1 b2] b3].
    destruct (bhjm_cylinder tv ax mu0 FH (seg_as_cyl r (cs_r1 r))) as [[c1 c2] c3].
    destruct (bhjm_cylinder tv ax mu0 FJ (seg_as_cyl r (cs_r1 r))) as [[d1 d2] d3].
    vfield.
Qed.

Lemma seg_internal_row_JM core tv ax a r :
  bhjm_seg_internal_row core tv ax mu0 FJ a r = vmuls (bhjm_seg_internal_row core tv ax mu0 FM a r) mu0.
Proof.
  unfold bhjm_seg_internal_row. destruct (seg_is_segment r).
  - apply seg_row_JM.
  - rewrite !cylinder_JM.
    destruct (fneqb (cs_r1 r) f0); [|reflexivity].
    destruct (bhjm_cylinder tv ax mu0 FM (seg_as_cyl r (cs_r2 r))) as [[a1 a2] a3].
    destruct (bhjm_cylinder tv ax mu0 FM (seg_as_cyl r (cs_r1 r))) as [[c1 c2] c3].
    vfield.
Qed.

(* ------------------------------------------------------------------ Sphere *)
Lemma sphere_consistent r :
  consistent (bhjm_sphere mu0 FB r) (bhjm_sphere mu0 FH r) (bhjm_sphere mu0 FJ r) (bhjm_sphere mu0 FM r).
Proof.
  unfold consistent, bhjm_sphere. destruct (sph_out r); cbn [negb vsel];
  destruct (sph_outside_B r) as [[b1 b2] b3]; destruct (sp_pol r) as [[p1 p2] p3]; split; vfield.
Qed.

Lemma sphere_J r : bhjm_sphere mu0 FJ r = vsel (negb (sph_out r)) (sp_pol r).
Proof. reflexivity. Qed.

(* ------------------------------------------------------------------ Triangle, Circle, Polyline, Dipole: J = M = 0 *)
Lemma triangle_consistent core r :
  consistent (bhjm_triangle core mu0 FB r) (bhjm_triangle core mu0 FH r)
             (bhjm_triangle core mu0 FJ r) (bhjm_triangle core mu0 FM r)
  /\ bhjm_triangle core mu0 FJ r = vzero /\ bhjm_triangle core mu0 FM r = vzero.
Proof.
  unfold consistent, bhjm_triangle. destruct (core r) as [[c1 c2] c3]. repeat split; vfield.
Qed.

Lemma circle_consistent core r :
  consistent (bhjm_circle core mu0 FB r) (bhjm_circle core mu0 FH r)
             (bhjm_circle core mu0 FJ r) (bhjm_circle core mu0 FM r)
  /\ bhjm_circle core mu0 FJ r = vzero /\ bhjm_circle core mu0 FM r = vzero.
Proof.
  unfold consistent, bhjm_circle.
  destruct (if cir_general r then core r
            else if cir_mask3 r && negb (cir_mask1 r) then (f0, f0, cir_axis_Hz r) else vzero) as [[c1 c2] c3].
  repeat split; vfield.
Qed.

Lemma polyline_consistent core r :
  consistent (bhjm_polyline core mu0 FB r) (bhjm_polyline core mu0 FH r)
             (bhjm_polyline core mu0 FJ r) (bhjm_polyline core mu0 FM r)
  /\ bhjm_polyline core mu0 FJ r = vzero /\ bhjm_polyline core mu0 FM r = vzero.
Proof.
  unfold consistent, bhjm_polyline. destruct (vsel (negb (pol_mask0 r)) (core r)) as [[c1 c2] c3].
  repeat split; vfield.
Qed.

Lemma polyline_batch_rows core f rows :
  bhjm_polyline_batch core mu0 f rows = map (bhjm_polyline core mu0 f) rows.
Proof.
  unfold bhjm_polyline_batch.
  assert (Hz : forall g, (forall r, In r rows -> g r = vzero) -> map (fun _ => vzero) rows = map g rows).
  { intros g Hg. induction rows as [|x l IH]; [reflexivity|]. cbn. rewrite Hg by (left; reflexivity).
    f_equal. apply IH. intros r Hr. apply Hg. right. exact Hr. }
  destruct f; try reflexivity.
  - destruct (forallb pol_mask0 rows) eqn:Hall; [|reflexivity].
    apply Hz. intros r Hr. rewrite forallb_forall in Hall. unfold bhjm_polyline. rewrite (Hall r Hr).
    cbn. reflexivity.
  - destruct (forallb pol_mask0 rows) eqn:Hall; [|reflexivity].
    apply Hz. intros r Hr. rewrite forallb_forall in Hall. unfold bhjm_polyline. rewrite (Hall r Hr).
    reflexivity.
Qed.

Lemma dipole_consistent core r :
  consistent (bhjm_dipole core mu0 FB r) (bhjm_dipole core mu0 FH r)
             (bhjm_dipole core mu0 FJ r) (bhjm_dipole core mu0 FM r)
  /\ bhjm_dipole core mu0 FJ r = vzero /\ bhjm_dipole core mu0 FM r = vzero.
Proof.
  unfold consistent, bhjm_dipole. destruct (core r) as [[c1 c2] c3]. repeat split; vfield.
Qed.

End AnyField.
