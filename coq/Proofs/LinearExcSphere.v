(* C05 -- sphere: linear in the polarization (split from LinearExc.v so the files build in parallel) *)
From Coq Require Import Reals Lra ZArith Bool List Field.
From MV Require Import Model.CoreNum Model.CoreModel Model.CoreSpec Proofs.CoreProofs Proofs.LinearExcBase.
Open Scope R_scope.

Theorem sphere_linear (f : field) (mu0 : R) (o : RV3) (d : R) (P1 P2 : RV3) (a b : R) :
  sphere_BH NumR f mu0 o d (lin a b P1 P2)
  = lin a b (sphere_BH NumR f mu0 o d P1) (sphere_BH NumR f mu0 o d P2).
Proof.
  destruct o as [[x y] z], P1 as [[p1 p2] p3], P2 as [[q1 q2] q3].
  unfold lin, Rvadd, Rvscale. destruct f; unfold_all; destr_ifs; apply triple_eq; unfold Rdiv; ring.
Qed.

