(* C14 -- proofs for the Polyline model: the model of current_polyline_Hfield equals the textbook
   closed form of a straight current segment off its (thickened) supporting line; that closed
   form is divergence-free and its curl is the difference of two point-source terms at the end
   points; hence the summed field of a CLOSED vertex chain is divergence-free and curl-free.
   Over R with Coquelicot. *)
From Coq Require Import Reals Lra Lia Psatz ZArith Bool List.
From Coquelicot Require Import Coquelicot.
From MV Require Import Model.CoreNum Model.CoreModel Model.CoreSpec Model.LawsModel Proofs.LawsProofs.
Import ListNotations.
Open Scope R_scope.

(* ================================================================== closed form: Jacobian and laws *)

(* field of the segment 0 -> e at the point a *)
Definition seg_G (cur : R) (e a : RV3) : RV3 :=
  Rvscale (cur / (4 * PI) * (seg_S a e / seg_D a e)) (Rcross e a).

Definition seg_J (cur : R) (a e : RV3) (r1 q1 r2 q2 : R) (i j : nat) : R :=
  let b := Rvsub a e in
  let al := Rdot a e in let be := Rdot b e in
  let D := seg_D a e in
  let S := al / r1 - be / r2 in
  let N := Rcross e a in
  let dN := comp i (Rcross e (upd j (0, 0, 0) 1)) in
  let dD := 2 * Rdot e e * comp j a - 2 * al * comp j e in
  let dS := comp j e / r1 - al * comp j a / q1 - comp j e / r2 + be * comp j b / q2 in
  cur / (4 * PI) * (dN * (S / D) + comp i N * ((dS * D - S * dD) / (D * D))).

Lemma is_derive_NSD (N S D : R -> R) t n' s' d' c :
  is_derive N t n' -> is_derive S t s' -> is_derive D t d' -> D t <> 0 ->
  is_derive (fun u => c * (S u / D u) * N u) t
            (c * (n' * (S t / D t) + N t * ((s' * D t - S t * d') / (D t * D t)))).
Proof.
  intros HN HS HD H0.
  auto_derive.
  - repeat split; try (eexists; eassumption); assumption.
  - assert (EN : Derive (fun x : R => N x) t = n') by (apply is_derive_unique; exact HN).
    assert (ES : Derive (fun x : R => S x) t = s') by (apply is_derive_unique; exact HS).
    assert (ED : Derive (fun x : R => D x) t = d') by (apply is_derive_unique; exact HD).
    rewrite EN, ES, ED.
    field. exact H0.
Qed.

Section Laws.
Variables a0 a1 a2 e0 e1 e2 r1 r2 cur : R.
Let a : RV3 := (a0, a1, a2).
Let e : RV3 := (e0, e1, e2).
Hypothesis Hr1 : r1 <> 0.
Hypothesis Hr2 : r2 <> 0.
Hypothesis HD : seg_D a e <> 0.
Hypothesis H1 : Rdot a a <> 0.
Hypothesis H2 : Rdot (Rvsub a e) (Rvsub a e) <> 0.

Let J := seg_J cur a e r1 (r1 * Rdot a a) r2 (r2 * Rdot (Rvsub a e) (Rvsub a e)).

Lemma seg_div : J 0%nat 0%nat + J 1%nat 1%nat + J 2%nat 2%nat = 0.
Proof.
  pose proof PI_RGT_0 as Hpi.
  unfold J, seg_J, seg_D, a, e, Rcross, Rvsub, Rdot, comp, upd in *.
  field; repeat split; try assumption; try lra.
Qed.

(* curl = K(a - e) - K(a), K(v) = cur/(4 pi) v / |v|^3 *)
Lemma seg_curl :
  J 2%nat 1%nat - J 1%nat 2%nat = cur / (4 * PI) * ((a0 - e0) / (r2 * Rdot (Rvsub a e) (Rvsub a e)) - a0 / (r1 * Rdot a a))
  /\ J 0%nat 2%nat - J 2%nat 0%nat = cur / (4 * PI) * ((a1 - e1) / (r2 * Rdot (Rvsub a e) (Rvsub a e)) - a1 / (r1 * Rdot a a))
  /\ J 1%nat 0%nat - J 0%nat 1%nat = cur / (4 * PI) * ((a2 - e2) / (r2 * Rdot (Rvsub a e) (Rvsub a e)) - a2 / (r1 * Rdot a a)).
Proof.
  pose proof PI_RGT_0 as Hpi.
  unfold J, seg_J, seg_D, a, e, Rcross, Rvsub, Rdot, comp, upd in *.
  repeat split; field; repeat split; try assumption; try lra.
Qed.
End Laws.

Lemma seg_pos a e : 0 < seg_D a e -> 0 < Rdot a a /\ 0 < Rdot (Rvsub a e) (Rvsub a e).
Proof.
  destruct a as [[a0 a1] a2], e as [[e0 e1] e2]. unfold seg_D, Rdot, Rvsub. intros H. split.
  - set (rho := a0 * a0 + a1 * a1 + a2 * a2) in *.
    set (ee := e0 * e0 + e1 * e1 + e2 * e2) in *.
    set (al := a0 * e0 + a1 * e1 + a2 * e2) in *.
    assert (0 <= ee) by (unfold ee; nra). assert (0 <= al * al) by nra.
    destruct (Rle_lt_dec rho 0) as [Hle|Hlt]; [|exact Hlt].
    assert (ee * rho <= 0) by nra. nra.
  - assert (H' : 0 < (e0 * e0 + e1 * e1 + e2 * e2) *
        ((a0 - e0) * (a0 - e0) + (a1 - e1) * (a1 - e1) + (a2 - e2) * (a2 - e2)) -
        ((a0 - e0) * e0 + (a1 - e1) * e1 + (a2 - e2) * e2) * ((a0 - e0) * e0 + (a1 - e1) * e1 + (a2 - e2) * e2)).
    { eapply Rlt_le_trans; [exact H|]. apply Req_le. ring. }
    set (rho := (a0 - e0) * (a0 - e0) + (a1 - e1) * (a1 - e1) + (a2 - e2) * (a2 - e2)) in *.
    set (ee := e0 * e0 + e1 * e1 + e2 * e2) in *.
    set (be := (a0 - e0) * e0 + (a1 - e1) * e1 + (a2 - e2) * e2) in *.
    assert (0 <= ee) by (unfold ee; nra). assert (0 <= be * be) by nra.
    destruct (Rle_lt_dec rho 0) as [Hle|Hlt]; [|exact Hlt].
    assert (ee * rho <= 0) by nra. nra.
Qed.

Definition seg_dS (a e : RV3) (j : nat) : R :=
  let b := Rvsub a e in
  let r1 := sqrt (Rdot a a) in let r2 := sqrt (Rdot b b) in
  comp j e / r1 - Rdot a e * comp j a / (r1 * r1 * r1) - comp j e / r2 + Rdot b e * comp j b / (r2 * r2 * r2).
Definition seg_dD (a e : RV3) (j : nat) : R := 2 * Rdot e e * comp j a - 2 * Rdot a e * comp j e.

Lemma seg_S_deriv a e j : (j < 3)%nat -> 0 < Rdot a a -> 0 < Rdot (Rvsub a e) (Rvsub a e) ->
  is_derive (fun t => seg_S (upd j a t) e) (comp j a) (seg_dS a e j).
Proof.
  destruct a as [[a0 a1] a2], e as [[e0 e1] e2]. intros Hj H1 H2.
  assert (Hr1 : 0 < sqrt (Rdot (a0, a1, a2) (a0, a1, a2))) by (apply sqrt_lt_R0; exact H1).
  assert (Hr2 : 0 < sqrt (Rdot (Rvsub (a0, a1, a2) (e0, e1, e2)) (Rvsub (a0, a1, a2) (e0, e1, e2)))) by (apply sqrt_lt_R0; exact H2).
  destruct j as [|[|[|j]]]; try lia;
  unfold seg_S, seg_dS, Rvsub, Rdot, comp, upd in *; unfold Rminus in *; auto_derive;
  try (repeat split; try assumption; try (apply Rgt_not_eq; assumption); fail "side");
  match type of Hr1 with 0 < ?s1 => set (r1 := s1) in * end;
  match type of Hr2 with 0 < ?s2 => set (r2 := s2) in * end;
  clearbody r1 r2; field; split; lra.
Qed.

Lemma seg_D_deriv a e j : (j < 3)%nat ->
  is_derive (fun t => seg_D (upd j a t) e) (comp j a) (seg_dD a e j).
Proof.
  destruct a as [[a0 a1] a2], e as [[e0 e1] e2]. intros Hj.
  destruct j as [|[|[|j]]]; try lia;
  unfold seg_D, seg_dD, Rdot, comp, upd; auto_derive; try exact I; ring.
Qed.

Lemma seg_N_deriv a e i j : (i < 3)%nat -> (j < 3)%nat ->
  is_derive (fun t => comp i (Rcross e (upd j a t))) (comp j a) (comp i (Rcross e (upd j (0, 0, 0) 1))).
Proof.
  destruct a as [[a0 a1] a2], e as [[e0 e1] e2]. intros Hi Hj.
  destruct j as [|[|[|j]]]; try lia; (destruct i as [|[|[|i]]]; try lia);
  unfold Rcross, comp, upd; auto_derive; try exact I; ring.
Qed.

Lemma upd_self j a : (j < 3)%nat -> upd j a (comp j a) = a.
Proof. destruct a as [[a0 a1] a2]. destruct j as [|[|[|j]]]; try lia; reflexivity. Qed.

Lemma seg_G_jacobian cur e a : 0 < seg_D a e ->
  has_jacobian (seg_G cur e) a
    (seg_J cur a e (sqrt (Rdot a a)) (sqrt (Rdot a a) * sqrt (Rdot a a) * sqrt (Rdot a a))
           (sqrt (Rdot (Rvsub a e) (Rvsub a e)))
           (sqrt (Rdot (Rvsub a e) (Rvsub a e)) * sqrt (Rdot (Rvsub a e) (Rvsub a e)) * sqrt (Rdot (Rvsub a e) (Rvsub a e)))).
Proof.
  intros HD i j Hi Hj. destruct (seg_pos _ _ HD) as [H1 H2].
  apply (is_derive_ext (fun t => cur / (4 * PI) * (seg_S (upd j a t) e / seg_D (upd j a t) e)
                                 * comp i (Rcross e (upd j a t)))).
  - intros t. unfold seg_G. rewrite comp_scale. reflexivity.
  - pose proof (is_derive_NSD (fun t => comp i (Rcross e (upd j a t))) (fun t => seg_S (upd j a t) e)
                  (fun t => seg_D (upd j a t) e) (comp j a) _ _ _ (cur / (4 * PI))
                  (seg_N_deriv a e i j Hi Hj) (seg_S_deriv a e j Hj H1 H2) (seg_D_deriv a e j Hj)) as HH.
    cbv beta in HH. rewrite !(upd_self j a Hj) in HH.
    apply HH. apply Rgt_not_eq. exact HD.
Qed.

(* ================================================================== model = closed form *)

Lemma g_mono_pos W x y : 0 < W -> 0 <= x <= y ->
  x / sqrt (W + x * x) <= y / sqrt (W + y * y).
Proof.
  intros HW [Hx Hxy].
  assert (Hsx : 0 < sqrt (W + x * x)) by (apply sqrt_lt_R0; nra).
  assert (Hsy : 0 < sqrt (W + y * y)) by (apply sqrt_lt_R0; nra).
  assert (Hsx2 : sqrt (W + x * x) * sqrt (W + x * x) = W + x * x) by (apply sqrt_sqrt; nra).
  assert (Hsy2 : sqrt (W + y * y) * sqrt (W + y * y) = W + y * y) by (apply sqrt_sqrt; nra).
  set (sx := sqrt (W + x * x)) in *. set (sy := sqrt (W + y * y)) in *.
  apply (Rmult_le_reg_r (sx * sy)); [apply Rmult_lt_0_compat; assumption|].
  replace (x / sx * (sx * sy)) with (x * sy) by (field; lra).
  replace (y / sy * (sx * sy)) with (y * sx) by (field; lra).
  destruct (Rle_lt_dec (x * sy) (y * sx)) as [H|H]; [exact H|exfalso].
  assert (0 <= y * sx) by nra.
  assert ((y * sx) * (y * sx) < (x * sy) * (x * sy)) by nra.
  assert (y * y * (W + x * x) < x * x * (W + y * y)) by nra.
  assert (x * x <= y * y) by nra. nra.
Qed.

Lemma g_mono W x y : 0 < W -> x <= y ->
  x / sqrt (W + x * x) <= y / sqrt (W + y * y).
Proof.
  intros HW Hxy.
  assert (Hsx : 0 < sqrt (W + x * x)) by (apply sqrt_lt_R0; nra).
  assert (Hsy : 0 < sqrt (W + y * y)) by (apply sqrt_lt_R0; nra).
  destruct (Rle_lt_dec 0 x) as [Hx|Hx].
  - apply g_mono_pos; lra.
  - destruct (Rle_lt_dec 0 y) as [Hy|Hy].
    + apply Rle_trans with 0.
      * apply Rlt_le. unfold Rdiv. rewrite <- (Rmult_0_l (/ sqrt (W + x * x))).
        apply Rmult_lt_compat_r; [apply Rinv_0_lt_compat; exact Hsx|exact Hx].
      * apply Rmult_le_pos; [exact Hy|apply Rlt_le, Rinv_0_lt_compat; exact Hsy].
    + pose proof (g_mono_pos W (- y) (- x) HW ltac:(lra)) as H.
      replace (- y * - y) with (y * y) in H by ring. replace (- x * - x) with (x * x) in H by ring.
      replace (- y / sqrt (W + y * y)) with (- (y / sqrt (W + y * y))) in H by (field; lra).
      replace (- x / sqrt (W + x * x)) with (- (x / sqrt (W + x * x))) in H by (field; lra).
      set (gx := x / sqrt (W + x * x)) in *. set (gy := y / sqrt (W + y * y)) in *. lra.
Qed.

(* deltaSin_beyond (the cancellation-free form used when the foot of the perpendicular lies beyond
   an end of the segment) equals the signed difference of sines *)
Lemma dSb_identity W al R1 R2 N4 :
  R1 * R1 = W + al * al -> R2 * R2 = W + (al - 1) * (al - 1) -> N4 * N4 = W ->
  0 < R1 -> 0 < R2 -> al * R2 + (al - 1) * R1 <> 0 ->
  N4 * N4 * (al + (al - 1)) / (R1 * R2 * (al * R2 + (al - 1) * R1)) = al / R1 - (al - 1) / R2.
Proof.
  intros H1 H2 H4 HR1 HR2 Hd. rewrite H4.
  assert (key : (al * R2 - (al - 1) * R1) * (al * R2 + (al - 1) * R1) = W * (al + (al - 1))).
  { transitivity (al * al * (R2 * R2) - (al - 1) * (al - 1) * (R1 * R1)); [ring|rewrite H1, H2; ring]. }
  rewrite <- key. field. repeat split; lra.
Qed.

(* the sign cases of current_polyline_Hfield collapse to one signed expression *)
Lemma deltaSin_cases W al R1 R2 N4 : 0 < W ->
  R1 = sqrt (W + al * al) -> R2 = sqrt (W + (al - 1) * (al - 1)) -> N4 * N4 = W ->
  let n41 := Rabs al in let n42 := Rabs (al - 1) in
  let s1 := n41 / R1 in let s2 := n42 / R2 in
  let m2 := Rltb 1 n41 && Rltb n42 n41 in
  let m3 := Rltb 1 n42 && Rltb n41 n42 in
  let dSb := N4 * N4 * (n41 + n42) / (R1 * R2 * (n41 * R2 + n42 * R1)) in
  (if m2 then dSb else if m3 then dSb else Rabs (s1 + s2))
  = al / R1 - (al - 1) / R2.
Proof.
  intros HW HR1 HR2 HN4. cbv zeta.
  assert (Hmono : 0 <= al / R1 - (al - 1) / R2).
  { subst R1 R2. pose proof (g_mono W (al - 1) al HW ltac:(lra)). lra. }
  assert (Hq2 : 0 < W + (al - 1) * (al - 1)).
  { pose proof (Rle_0_sqr (al - 1)) as Hs. unfold Rsqr in Hs. lra. }
  assert (H1 : 0 < R1) by (subst R1; apply sqrt_lt_R0; nra).
  assert (H2 : 0 < R2) by (subst R2; apply sqrt_lt_R0; exact Hq2).
  assert (HR1s : R1 * R1 = W + al * al) by (subst R1; apply sqrt_sqrt; nra).
  assert (HR2s : R2 * R2 = W + (al - 1) * (al - 1)) by (subst R2; apply sqrt_sqrt; lra).
  clear HR1 HR2.
  (* the two "beyond an end" situations *)
  assert (Hpos : 1 < al ->
            N4 * N4 * (al + (al - 1)) / (R1 * R2 * (al * R2 + (al - 1) * R1)) = al / R1 - (al - 1) / R2).
  { intros Hal. apply (dSb_identity W); try assumption. apply Rgt_not_eq.
    assert (0 < al * R2) by (apply Rmult_lt_0_compat; lra).
    assert (0 < (al - 1) * R1) by (apply Rmult_lt_0_compat; lra). lra. }
  assert (Hneg : al < 0 ->
            N4 * N4 * (- al + - (al - 1)) / (R1 * R2 * (- al * R2 + - (al - 1) * R1)) = al / R1 - (al - 1) / R2).
  { intros Hal.
    assert (Hd : al * R2 + (al - 1) * R1 < 0).
    { assert (0 < (- al) * R2) by (apply Rmult_lt_0_compat; lra).
      assert (0 < (- (al - 1)) * R1) by (apply Rmult_lt_0_compat; lra). lra. }
    rewrite <- (dSb_identity W al R1 R2 N4) by (try assumption; lra).
    field. repeat split; lra. }
  destruct (Rltb 1 (Rabs al)) eqn:Ea; destruct (Rltb (Rabs (al - 1)) (Rabs al)) eqn:Eb; cbn [andb].
  - (* mask2: al > 1 *)
    apply Rltb_true in Ea, Eb.
    assert (Hal : 1 < al).
    { destruct (Rle_lt_dec al 0) as [Hn|Hp].
      - rewrite (Rabs_left1 al) in Eb by lra. rewrite Rabs_left1 in Eb by lra. lra.
      - rewrite (Rabs_pos_eq al) in Ea by lra. exact Ea. }
    rewrite (Rabs_pos_eq al) by lra. rewrite (Rabs_pos_eq (al - 1)) by lra.
    apply Hpos. exact Hal.
  - (* not mask2 by second test: then mask3 *)
    apply Rltb_true in Ea. apply Rltb_false in Eb.
    assert (Hal : al < 0).
    { destruct (Rle_lt_dec 0 al) as [Hp|Hn]; [|exact Hn]. exfalso.
      rewrite (Rabs_pos_eq al) in * by lra.
      rewrite (Rabs_pos_eq (al - 1)) in Eb by lra. lra. }
    rewrite (Rabs_left al) by lra. rewrite (Rabs_left (al - 1)) by lra.
    destruct (Rltb 1 (- (al - 1))) eqn:Ec; destruct (Rltb (- al) (- (al - 1))) eqn:Ed; cbn [andb];
      try (apply Rltb_false in Ec; lra); try (apply Rltb_false in Ed; lra).
    apply Hneg. exact Hal.
  - apply Rltb_false in Ea. apply Rltb_true in Eb.
    assert (Hal : 0 < al <= 1).
    { destruct (Rle_lt_dec al 0) as [Hn|Hp].
      - rewrite (Rabs_left1 al) in Eb by lra. rewrite Rabs_left1 in Eb by lra. lra.
      - rewrite (Rabs_pos_eq al) in Ea by lra. lra. }
    rewrite (Rabs_pos_eq al) by lra. rewrite (Rabs_left1 (al - 1)) by lra.
    destruct (Rltb 1 (- (al - 1))) eqn:Ec; cbn [andb]; [apply Rltb_true in Ec; lra|].
    replace (al / R1 + - (al - 1) / R2) with (al / R1 - (al - 1) / R2) by (field; lra).
    apply Rabs_pos_eq. exact Hmono.
  - apply Rltb_false in Ea. apply Rltb_false in Eb.
    destruct (Rle_lt_dec 0 al) as [Hp|Hn].
    + rewrite (Rabs_pos_eq al) in * by lra.
      assert (al - 1 <= 0) by lra. rewrite (Rabs_left1 (al - 1)) in * by lra.
      destruct (Rltb 1 (- (al - 1))) eqn:Ec; cbn [andb]; [apply Rltb_true in Ec; lra|].
      replace (al / R1 + - (al - 1) / R2) with (al / R1 - (al - 1) / R2) by (field; lra).
      apply Rabs_pos_eq. exact Hmono.
    + rewrite (Rabs_left al) in * by lra. rewrite (Rabs_left (al - 1)) in * by lra.
      destruct (Rltb 1 (- (al - 1))) eqn:Ec; destruct (Rltb (- al) (- (al - 1))) eqn:Ed; cbn [andb];
        try (apply Rltb_false in Ed; lra).
      * apply Hneg. exact Hn.
      * apply Rltb_false in Ec. lra.
Qed.

Definition Rvdivs (a : RV3) (t : R) : RV3 := let '(a0, a1, a2) := a in (a0 / t, a1 / t, a2 / t).

Definition poly_inner (q1 q2 qo : RV3) (n12 cur : R) : (nat * RV3) :=
  let t := Rdot (Rvsub qo q1) (Rvsub q1 q2) in
  let q4 := Rvadd q1 (Rvscale t (Rvsub q1 q2)) in
  let no4 := Rnorm (Rvsub qo q4) in
  if Rltb no4 (1 / 1000000000000000) then (1%nat, (0, 0, 0)) else
  let cros := Rcross (Rvsub q2 q1) (Rvsub qo q4) in
  let nc := Rnorm cros in
  let eB := Rvdivs cros nc in
  let no1 := Rnorm (Rvsub qo q1) in
  let no2 := Rnorm (Rvsub qo q2) in
  let n41 := Rnorm (Rvsub q4 q1) in
  let n42 := Rnorm (Rvsub q4 q2) in
  let s1 := n41 / no1 in
  let s2 := n42 / no2 in
  let m2 := Rltb 1 n41 && Rltb n42 n41 in
  let m3 := Rltb 1 n42 && Rltb n41 n42 in
  let br := if m2 then 2%nat else if m3 then 3%nat else 4%nat in
  let dSb := no4 * no4 * (n41 + n42) / (no1 * no2 * (n41 * no2 + n42 * no1)) in
  let dS := if m2 then dSb else if m3 then dSb else Rabs (s1 + s2) in
  let c (e : R) := dS / no4 * e / n12 * cur / (4 * PI) in
  let '(e0, e1, e2) := eB in
  (br, (c e0, c e1, c e2)).

Section Inner.
Variables q1 q2 qo : RV3.
Let E := Rvsub q2 q1.
Let A := Rvsub qo q1.
Let al := Rdot A E.
Let W := Rdot A A - al * al.
Hypothesis Hunit : Rdot E E = 1.

Lemma in_t : Rdot (Rvsub qo q1) (Rvsub q1 q2) = - al.
Proof. unfold al, A, E. destruct q1 as [[u0 u1] u2], q2 as [[v0 v1] v2], qo as [[x0 x1] x2]. unfold Rdot, Rvsub. ring. Qed.

Let q4 := Rvadd q1 (Rvscale (- al) (Rvsub q1 q2)).

Lemma in_o4 : Rdot (Rvsub qo q4) (Rvsub qo q4) = W.
Proof.
  unfold W, q4, al, A. generalize Hunit. unfold E.
  destruct q1 as [[u0 u1] u2], q2 as [[v0 v1] v2], qo as [[x0 x1] x2].
  unfold Rdot, Rvsub, Rvadd, Rvscale. intros H.
  set (EE := (v0 - u0) * (v0 - u0) + (v1 - u1) * (v1 - u1) + (v2 - u2) * (v2 - u2)) in *.
  set (a := (x0 - u0) * (v0 - u0) + (x1 - u1) * (v1 - u1) + (x2 - u2) * (v2 - u2)).
  transitivity ((x0 - u0) * (x0 - u0) + (x1 - u1) * (x1 - u1) + (x2 - u2) * (x2 - u2) - a * a + a * a * (EE - 1)).
  - unfold a, EE. ring.
  - rewrite H. ring.
Qed.

Lemma in_cros : Rcross (Rvsub q2 q1) (Rvsub qo q4) = Rcross E A.
Proof.
  unfold q4, al, A, E. destruct q1 as [[u0 u1] u2], q2 as [[v0 v1] v2], qo as [[x0 x1] x2].
  unfold Rcross, Rdot, Rvsub, Rvadd, Rvscale. apply triple_eq; ring.
Qed.

Lemma in_nc : Rdot (Rcross E A) (Rcross E A) = W.
Proof.
  unfold W, al. generalize Hunit. unfold A, E.
  destruct q1 as [[u0 u1] u2], q2 as [[v0 v1] v2], qo as [[x0 x1] x2].
  unfold Rcross, Rdot, Rvsub. intros H.
  set (EE := (v0 - u0) * (v0 - u0) + (v1 - u1) * (v1 - u1) + (v2 - u2) * (v2 - u2)) in *.
  set (AA := (x0 - u0) * (x0 - u0) + (x1 - u1) * (x1 - u1) + (x2 - u2) * (x2 - u2)).
  set (a := (x0 - u0) * (v0 - u0) + (x1 - u1) * (v1 - u1) + (x2 - u2) * (v2 - u2)).
  transitivity (EE * AA - a * a).
  - unfold a, EE, AA. ring.
  - rewrite H. ring.
Qed.

Lemma in_41 : Rdot (Rvsub q4 q1) (Rvsub q4 q1) = al * al.
Proof.
  generalize Hunit. unfold q4. fold E. unfold E.
  set (a := al). clearbody a.
  destruct q1 as [[u0 u1] u2], q2 as [[v0 v1] v2].
  unfold Rdot, Rvsub, Rvadd, Rvscale. intros H.
  set (EE := (v0 - u0) * (v0 - u0) + (v1 - u1) * (v1 - u1) + (v2 - u2) * (v2 - u2)) in *.
  transitivity (a * a * EE); [unfold EE; ring|rewrite H; ring].
Qed.

Lemma in_42 : Rdot (Rvsub q4 q2) (Rvsub q4 q2) = (al - 1) * (al - 1).
Proof.
  generalize Hunit. unfold q4. unfold E.
  set (a := al). clearbody a.
  destruct q1 as [[u0 u1] u2], q2 as [[v0 v1] v2].
  unfold Rdot, Rvsub, Rvadd, Rvscale. intros H.
  set (EE := (v0 - u0) * (v0 - u0) + (v1 - u1) * (v1 - u1) + (v2 - u2) * (v2 - u2)) in *.
  transitivity ((a - 1) * (a - 1) * EE); [unfold EE; ring|rewrite H; ring].
Qed.

Lemma in_R1 : Rdot (Rvsub qo q1) (Rvsub qo q1) = W + al * al.
Proof. unfold W, A. ring. Qed.

Lemma in_R2 : Rdot (Rvsub qo q2) (Rvsub qo q2) = W + (al - 1) * (al - 1).
Proof.
  unfold W, al. generalize Hunit. unfold A, E.
  destruct q1 as [[u0 u1] u2], q2 as [[v0 v1] v2], qo as [[x0 x1] x2].
  unfold Rdot, Rvsub. intros H.
  set (EE := (v0 - u0) * (v0 - u0) + (v1 - u1) * (v1 - u1) + (v2 - u2) * (v2 - u2)) in *.
  set (AA := (x0 - u0) * (x0 - u0) + (x1 - u1) * (x1 - u1) + (x2 - u2) * (x2 - u2)).
  set (a := (x0 - u0) * (v0 - u0) + (x1 - u1) * (v1 - u1) + (x2 - u2) * (v2 - u2)).
  transitivity (AA - 2 * a + EE); [unfold AA, a, EE; ring|rewrite H; ring].
Qed.

Lemma sqrt_sq_abs x : sqrt (x * x) = Rabs x.
Proof. rewrite <- sqrt_Rsqr_abs. reflexivity. Qed.

(* the modelled branches 2,3,4 all give the same closed form *)
Lemma poly_inner_formula n12 cur :
  1 / 1000000000000000 <= sqrt W -> n12 <> 0 ->
  snd (poly_inner q1 q2 qo n12 cur) =
  Rvscale ((al / sqrt (W + al * al) - (al - 1) / sqrt (W + (al - 1) * (al - 1))) / W / n12 * cur / (4 * PI))
          (Rcross E A).
Proof.
  intros Hoff Hn.
  assert (HW : 0 < W).
  { destruct (Rle_lt_dec W 0) as [Hle|Hlt]; [|exact Hlt]. rewrite sqrt_neg_0 in Hoff by exact Hle. lra. }
  assert (HsW : 0 < sqrt W) by (apply sqrt_lt_R0; exact HW).
  unfold poly_inner. rewrite in_t. fold q4. unfold Rnorm.
  rewrite in_o4, in_cros, in_nc, in_41, in_42, in_R1, in_R2, !sqrt_sq_abs.
  destruct (Rltb (sqrt W) (1 / 1000000000000000)) eqn:Eb; [apply Rltb_true in Eb; lra|].
  assert (HWW : sqrt W * sqrt W = W) by (apply sqrt_sqrt; lra).
  pose proof (deltaSin_cases W al _ _ (sqrt W) HW eq_refl eq_refl HWW) as HdS. cbv zeta in HdS.
  cbv zeta. rewrite HdS.
  destruct (Rcross E A) as [[n0 n1] n2]. unfold Rvdivs, Rvscale. cbn [snd].
  pose proof PI_RGT_0 as Hpi.
  assert (H1 : 0 < sqrt (W + al * al)) by (apply sqrt_lt_R0; nra).
  assert (H2 : 0 < sqrt (W + (al - 1) * (al - 1))).
  { apply sqrt_lt_R0. pose proof (Rle_0_sqr (al - 1)) as Hs. unfold Rsqr in Hs. lra. }
  set (R1 := sqrt (W + al * al)) in *. set (R2 := sqrt (W + (al - 1) * (al - 1))) in *.
  set (sw := sqrt W) in *. clearbody R1 R2 sw.
  rewrite <- HWW. apply triple_eq; field; repeat split; lra.
Qed.
End Inner.


Lemma polyline_is_inner o p1 p2 cur :
  polyline_H_br NumR o p1 p2 cur =
  if veqb NumR p1 p2 then (0%nat, (0, 0, 0)) else
  let n12 := Rnorm (Rvsub p1 p2) in
  poly_inner (Rvdivs p1 n12) (Rvdivs p2 n12) (Rvdivs o n12) n12 cur.
Proof.
  destruct o as [[x y] z], p1 as [[a1 a2] a3], p2 as [[b1 b2] b3].
  unfold polyline_H_br. destruct (veqb _ _ _); reflexivity.
Qed.

Lemma veqb_false p1 p2 : p1 <> p2 -> veqb NumR p1 p2 = false.
Proof.
  destruct p1 as [[a1 a2] a3], p2 as [[b1 b2] b3]. intros H. unfold veqb. cbn.
  destruct (Reqb a1 b1) eqn:E1; [|reflexivity]. destruct (Reqb a2 b2) eqn:E2; [|reflexivity].
  destruct (Reqb a3 b3) eqn:E3; [|reflexivity].
  apply Reqb_true in E1, E2, E3. subst. congruence.
Qed.

Lemma vdivs_sub u v L : Rvsub (Rvdivs u L) (Rvdivs v L) = Rvscale (/ L) (Rvsub u v).
Proof. destruct u as [[u0 u1] u2], v as [[v0 v1] v2]. unfold Rvsub, Rvdivs, Rvscale. apply triple_eq; unfold Rdiv; ring. Qed.
Lemma dot_scale s u v : Rdot (Rvscale s u) (Rvscale s v) = s * s * Rdot u v.
Proof. destruct u as [[u0 u1] u2], v as [[v0 v1] v2]. unfold Rdot, Rvscale. ring. Qed.
Lemma cross_scale s u v : Rcross (Rvscale s u) (Rvscale s v) = Rvscale (s * s) (Rcross u v).
Proof. destruct u as [[u0 u1] u2], v as [[v0 v1] v2]. unfold Rcross, Rvscale. apply triple_eq; ring. Qed.
Lemma scale_scale s t v : Rvscale s (Rvscale t v) = Rvscale (s * t) v.
Proof. destruct v as [[v0 v1] v2]. unfold Rvscale. apply triple_eq; ring. Qed.
Lemma dot_sub_sub a e : Rdot (Rvsub a e) (Rvsub a e) = Rdot a a - 2 * Rdot a e + Rdot e e.
Proof. destruct a as [[u0 u1] u2], e as [[v0 v1] v2]. unfold Rdot, Rvsub. ring. Qed.
Lemma dot_sub_l a e : Rdot (Rvsub a e) e = Rdot a e - Rdot e e.
Proof. destruct a as [[u0 u1] u2], e as [[v0 v1] v2]. unfold Rdot, Rvsub. ring. Qed.
Lemma dot_swap_sub p1 p2 : Rdot (Rvsub p1 p2) (Rvsub p1 p2) = Rdot (Rvsub p2 p1) (Rvsub p2 p1).
Proof. destruct p1 as [[u0 u1] u2], p2 as [[v0 v1] v2]. unfold Rdot, Rvsub. ring. Qed.
Lemma dot_pos_neq p1 p2 : p1 <> p2 -> 0 < Rdot (Rvsub p2 p1) (Rvsub p2 p1).
Proof.
  destruct p1 as [[u0 u1] u2], p2 as [[v0 v1] v2]. intros H. unfold Rdot, Rvsub.
  apply sumsq_pos. intros E. inversion E. apply H. apply triple_eq; lra.
Qed.

(* off the (thickened) supporting line and for a non-degenerate segment, the model of
   current_polyline_Hfield equals the closed form seg_H *)
Theorem polyline_is_seg o p1 p2 cur :
  let a := Rvsub o p1 in let e := Rvsub p2 p1 in
  p1 <> p2 -> 1 / 1000000000000000 * Rdot e e <= sqrt (seg_D a e) ->
  polyline_H NumR o p1 p2 cur = Rvscale (cur / (4 * PI) * (seg_S a e / seg_D a e)) (Rcross e a).
Proof.
  cbv zeta. intros Hne Hoff.
  pose proof (dot_pos_neq _ _ Hne) as Hee.
  set (a := Rvsub o p1) in *. set (e := Rvsub p2 p1) in *.
  unfold polyline_H. rewrite polyline_is_inner, (veqb_false _ _ Hne). cbv zeta.
  unfold Rnorm at 1 2 3 4. rewrite dot_swap_sub. fold e.
  set (L := sqrt (Rdot e e)).
  assert (HL : 0 < L) by (apply sqrt_lt_R0; exact Hee).
  assert (HLL : L * L = Rdot e e) by (apply sqrt_sqrt; lra).
  assert (HiL : 0 < / L) by (apply Rinv_0_lt_compat; exact HL).
  assert (Hunit : Rdot (Rvsub (Rvdivs p2 L) (Rvdivs p1 L)) (Rvsub (Rvdivs p2 L) (Rvdivs p1 L)) = 1).
  { rewrite vdivs_sub, dot_scale. fold e. rewrite <- HLL. field. lra. }
  (* seg_D > 0 *)
  assert (HD : 0 < seg_D a e).
  { destruct (Rle_lt_dec (seg_D a e) 0) as [Hle|Hlt]; [|exact Hlt].
    rewrite sqrt_neg_0 in Hoff by exact Hle. nra. }
  destruct (seg_pos _ _ HD) as [H1 H2].
  assert (HW : Rdot (Rvsub (Rvdivs o L) (Rvdivs p1 L)) (Rvsub (Rvdivs o L) (Rvdivs p1 L))
               - Rdot (Rvsub (Rvdivs o L) (Rvdivs p1 L)) (Rvsub (Rvdivs p2 L) (Rvdivs p1 L))
                 * Rdot (Rvsub (Rvdivs o L) (Rvdivs p1 L)) (Rvsub (Rvdivs p2 L) (Rvdivs p1 L))
               = seg_D a e / (L * L * (L * L))).
  { rewrite !vdivs_sub, !dot_scale. fold a e. unfold seg_D. rewrite <- HLL. field. lra. }
  rewrite poly_inner_formula; [|exact Hunit| |lra].
  2:{ rewrite HW. unfold Rdiv. rewrite sqrt_mult_alt by lra.
      replace (/ (L * L * (L * L))) with ((/ (L * L)) * (/ (L * L))) by (field; lra).
      rewrite sqrt_square by (apply Rlt_le, Rinv_0_lt_compat; nra).
      apply (Rmult_le_reg_r (L * L)); [nra|].
      replace (sqrt (seg_D a e) * / (L * L) * (L * L)) with (sqrt (seg_D a e)) by (field; lra).
      rewrite HLL. lra. }
  rewrite HW.
  rewrite !vdivs_sub. fold a e. rewrite cross_scale, scale_scale, !dot_scale.
  (* the two square roots *)
  replace (seg_D a e / (L * L * (L * L)) + / L * / L * Rdot a e * (/ L * / L * Rdot a e))
    with ((/ L * / L) * Rdot a a) by (unfold seg_D; rewrite <- HLL; field; lra).
  replace (seg_D a e / (L * L * (L * L)) + (/ L * / L * Rdot a e - 1) * (/ L * / L * Rdot a e - 1))
    with ((/ L * / L) * Rdot (Rvsub a e) (Rvsub a e))
    by (rewrite dot_sub_sub; unfold seg_D; rewrite <- HLL; field; lra).
  rewrite (sqrt_mult_alt (/ L * / L) (Rdot a a)) by nra.
  rewrite (sqrt_mult_alt (/ L * / L) (Rdot (Rvsub a e) (Rvsub a e))) by nra.
  rewrite !sqrt_square by lra.
  unfold seg_S. rewrite dot_sub_l.
  assert (Hr1 : 0 < sqrt (Rdot a a)) by (apply sqrt_lt_R0; exact H1).
  assert (Hr2 : 0 < sqrt (Rdot (Rvsub a e) (Rvsub a e))) by (apply sqrt_lt_R0; exact H2).
  pose proof PI_RGT_0 as Hpi.
  set (r1 := sqrt (Rdot a a)) in *. set (r2 := sqrt (Rdot (Rvsub a e) (Rvsub a e))) in *.
  rewrite <- HLL. set (D := seg_D a e) in *. set (al := Rdot a e).
  clearbody r1 r2 D al.
  f_equal. field. repeat split; lra.
Qed.

(* ================================================================== chains *)
(* ---- Jacobian algebra *)
Definition jdiv (J : nat -> nat -> R) : R := J 0%nat 0%nat + J 1%nat 1%nat + J 2%nat 2%nat.
Definition jcurl (J : nat -> nat -> R) : RV3 :=
  (J 2%nat 1%nat - J 1%nat 2%nat, J 0%nat 2%nat - J 2%nat 0%nat, J 1%nat 0%nat - J 0%nat 1%nat).

Lemma jacobian_div_curl F o J : has_jacobian F o J ->
  differentiable_at F o /\ divergence F o = jdiv J /\ curl F o = jcurl J.
Proof.
  intros HJ. destruct (jacobian_partial _ _ _ HJ) as [Hd Hp].
  split; [exact Hd|]. unfold divergence, curl, jdiv, jcurl. rewrite !Hp by lia. split; reflexivity.
Qed.

Lemma comp_add u v i : comp i (Rvadd u v) = comp i u + comp i v.
Proof. destruct u as [[u0 u1] u2], v as [[v0 v1] v2]. destruct i as [|[|i]]; reflexivity. Qed.

Lemma jacobian_add F G o JF JG : has_jacobian F o JF -> has_jacobian G o JG ->
  has_jacobian (fun p => Rvadd (F p) (G p)) o (fun i j => JF i j + JG i j).
Proof.
  intros HF HG i j Hi Hj.
  apply (is_derive_ext (fun t => comp i (F (upd j o t)) + comp i (G (upd j o t)))).
  - intros t. rewrite comp_add. reflexivity.
  - apply @is_derive_plus; [apply HF|apply HG]; assumption.
Qed.

Lemma jacobian_zero o : has_jacobian (fun _ => (0, 0, 0)) o (fun _ _ => 0).
Proof.
  intros i j Hi Hj. apply (is_derive_ext (fun _ => 0)).
  - intros t. destruct i as [|[|i]]; reflexivity.
  - apply @is_derive_const.
Qed.

Lemma upd_sub j o p t : Rvsub (upd j o t) p = upd j (Rvsub o p) (t - comp j p).
Proof. destruct o as [[x y] z], p as [[p0 p1] p2]. destruct j as [|[|j]]; reflexivity. Qed.
Lemma comp_sub j o p : comp j (Rvsub o p) = comp j o - comp j p.
Proof. destruct o as [[x y] z], p as [[p0 p1] p2]. destruct j as [|[|j]]; reflexivity. Qed.

Lemma jacobian_shift G p o J : has_jacobian G (Rvsub o p) J ->
  has_jacobian (fun o' => G (Rvsub o' p)) o J.
Proof.
  intros HJ i j Hi Hj.
  apply (is_derive_ext (fun t => (fun s => comp i (G (upd j (Rvsub o p) s))) (t - comp j p))).
  - intros t. cbv beta. rewrite upd_sub. reflexivity.
  - pose proof (HJ i j Hi Hj) as H. rewrite comp_sub in H.
    pose proof (is_derive_comp (fun s => comp i (G (upd j (Rvsub o p) s))) (fun t => t - comp j p)
                  (comp j o) (J i j) 1 H) as HH.
    assert (Hs : is_derive (fun t : R => t - comp j p) (comp j o) 1) by (auto_derive; [exact I|ring]).
    specialize (HH Hs). replace (J i j) with (scal 1 (J i j)); [exact HH|].
    unfold scal; simpl; unfold mult; simpl; ring.
Qed.


Lemma jacobian_ext_loc F G o J : has_jacobian F o J ->
  (forall j, (j < 3)%nat -> locally (comp j o) (fun t => G (upd j o t) = F (upd j o t))) ->
  has_jacobian G o J.
Proof.
  intros HJ Hloc i j Hi Hj.
  apply (is_derive_ext_loc (fun t => comp i (F (upd j o t)))).
  - generalize (Hloc j Hj). apply filter_imp. intros t Ht. rewrite Ht. reflexivity.
  - apply HJ; assumption.
Qed.

Lemma seg_D_line_continuous o p e j : (j < 3)%nat ->
  continuous (fun t => seg_D (Rvsub (upd j o t) p) e) (comp j o).
Proof.
  destruct o as [[x y] z], p as [[p0 p1] p2], e as [[e0 e1] e2]. intros Hj.
  destruct j as [|[|[|j]]]; try lia; unfold seg_D, Rdot, Rvsub, upd, comp;
  match goal with |- continuous ?f ?x0 => apply (ex_derive_continuous f x0) end; auto_derive; exact I.
Qed.

Lemma seg_clear_D o p1 p2 : seg_clear o p1 p2 -> 0 < seg_D (Rvsub o p1) (Rvsub p2 p1).
Proof.
  intros [Hne Hc]. pose proof (dot_pos_neq _ _ Hne) as Hee.
  destruct (Rle_lt_dec (seg_D (Rvsub o p1) (Rvsub p2 p1)) 0) as [Hle|Hlt]; [|exact Hlt].
  rewrite sqrt_neg_0 in Hc by exact Hle. nra.
Qed.

Lemma seg_clear_locally o p1 p2 j : (j < 3)%nat -> seg_clear o p1 p2 ->
  locally (comp j o) (fun t => seg_clear (upd j o t) p1 p2).
Proof.
  intros Hj [Hne Hc]. pose proof (dot_pos_neq _ _ Hne) as Hee.
  set (c := 1 / 1000000000000000 * Rdot (Rvsub p2 p1) (Rvsub p2 p1)) in *.
  assert (Hc0 : 0 <= c) by (unfold c; nra).
  apply lt_sqrt_iff in Hc; [|exact Hc0].
  pose proof (seg_D_line_continuous o p1 (Rvsub p2 p1) j Hj) as Hcont.
  assert (Hopen : locally (comp j o) (fun t => c * c < seg_D (Rvsub (upd j o t) p1) (Rvsub p2 p1))).
  { apply (Hcont (fun u => c * c < u)). apply (open_gt (c * c)).
    rewrite upd_self by exact Hj. exact Hc. }
  generalize Hopen. apply filter_imp. intros t Ht. split; [exact Hne|].
  apply lt_sqrt_iff; [exact Hc0|exact Ht].
Qed.

Lemma sqrt_cube x : 0 < x -> sqrt x * sqrt x * sqrt x = sqrt x * x.
Proof. intros H. rewrite sqrt_sqrt by lra. ring. Qed.

(* one segment of the Polyline model: differentiable, divergence-free, and its curl is the
   difference of two point-source terms at the end points *)
Lemma seg_model_jacobian cur p1 p2 o : seg_clear o p1 p2 ->
  exists J, has_jacobian (fun o' => polyline_H NumR o' p1 p2 cur) o J
            /\ jdiv J = 0
            /\ jcurl J = Rvsub (pointK cur (Rvsub o p2)) (pointK cur (Rvsub o p1)).
Proof.
  intros Hcl. pose proof (seg_clear_D _ _ _ Hcl) as HD.
  set (a := Rvsub o p1) in *. set (e := Rvsub p2 p1) in *.
  destruct (seg_pos _ _ HD) as [H1 H2].
  assert (Hb : Rvsub a e = Rvsub o p2).
  { unfold a, e. destruct o as [[x y] z], p1 as [[u0 u1] u2], p2 as [[v0 v1] v2].
    unfold Rvsub. apply triple_eq; ring. }
  eexists. split; [|split].
  - apply (jacobian_ext_loc (fun o' => seg_G cur e (Rvsub o' p1))).
    + apply jacobian_shift. apply seg_G_jacobian. exact HD.
    + intros j Hj. generalize (seg_clear_locally o p1 p2 j Hj Hcl). apply filter_imp.
      intros t [Hne Hc]. unfold seg_G. apply polyline_is_seg; [exact Hne|apply Rlt_le; exact Hc].
  - fold a. rewrite !sqrt_cube by assumption.
    destruct a as [[a0 a1] a2], e as [[e0 e1] e2]. unfold jdiv.
    apply seg_div; try (apply Rgt_not_eq; try apply sqrt_lt_R0; assumption).
  - fold a. rewrite !sqrt_cube by assumption. rewrite <- Hb.
    assert (Hr1 : 0 < sqrt (Rdot a a)) by (apply sqrt_lt_R0; exact H1).
    assert (Hr2 : 0 < sqrt (Rdot (Rvsub a e) (Rvsub a e))) by (apply sqrt_lt_R0; exact H2).
    pose proof PI_RGT_0 as Hpi.
    destruct a as [[a0 a1] a2], e as [[e0 e1] e2]. unfold jcurl.
    destruct (seg_curl a0 a1 a2 e0 e1 e2 _ _ cur (Rgt_not_eq _ _ Hr1) (Rgt_not_eq _ _ Hr2)
                (Rgt_not_eq _ _ HD) (Rgt_not_eq _ _ H1) (Rgt_not_eq _ _ H2)) as (C0 & C1 & C2).
    rewrite C0, C1, C2. unfold pointK, Rnorm.
    set (r1 := sqrt (Rdot (a0, a1, a2) (a0, a1, a2))) in *.
    set (r2 := sqrt (Rdot (Rvsub (a0, a1, a2) (e0, e1, e2)) (Rvsub (a0, a1, a2) (e0, e1, e2)))) in *.
    set (rho1 := Rdot (a0, a1, a2) (a0, a1, a2)) in *.
    set (rho2 := Rdot (Rvsub (a0, a1, a2) (e0, e1, e2)) (Rvsub (a0, a1, a2) (e0, e1, e2))) in *.
    unfold Rvscale, Rvsub.
    apply triple_eq; field; repeat split; lra.
Qed.


Lemma jdiv_add JF JG : jdiv (fun i j => JF i j + JG i j) = jdiv JF + jdiv JG.
Proof. unfold jdiv. ring. Qed.
Lemma jcurl_add JF JG : jcurl (fun i j => JF i j + JG i j) = Rvadd (jcurl JF) (jcurl JG).
Proof. unfold jcurl, Rvadd. apply triple_eq; ring. Qed.
Lemma Rvsub_self v : Rvsub v v = (0, 0, 0).
Proof. destruct v as [[a b] c]. unfold Rvsub. apply triple_eq; ring. Qed.
Lemma Rvsub_chain u v w : Rvadd (Rvsub v u) (Rvsub w v) = Rvsub w u.
Proof. destruct u as [[u0 u1] u2], v as [[v0 v1] v2], w as [[w0 w1] w2]. unfold Rvadd, Rvsub. apply triple_eq; ring. Qed.

(* open or closed vertex chain: divergence-free; curl = difference of the end-point terms *)
Lemma poly_sum_jacobian cur o d : forall vs, poly_clear o vs ->
  exists J, has_jacobian (poly_sum cur vs) o J /\ jdiv J = 0
            /\ jcurl J = Rvsub (pointK cur (Rvsub o (last vs d))) (pointK cur (Rvsub o (hd d vs))).
Proof.
  induction vs as [|v1 tl IH]; intros Hcl.
  - exists (fun _ _ => 0). split; [apply jacobian_zero|]. split; [unfold jdiv; ring|].
    cbn [last hd]. rewrite Rvsub_self. unfold jcurl. apply triple_eq; ring.
  - destruct tl as [|v2 tl'].
    + exists (fun _ _ => 0). split; [apply jacobian_zero|]. split; [unfold jdiv; ring|].
      cbn [last hd]. rewrite Rvsub_self. unfold jcurl. apply triple_eq; ring.
    + destruct Hcl as [Hseg Hrest].
      destruct (IH Hrest) as (Jt & HJt & Hdt & Hct).
      destruct (seg_model_jacobian cur v1 v2 o Hseg) as (Js & HJs & Hds & Hcs).
      exists (fun i j => Js i j + Jt i j). split; [|split].
      * change (poly_sum cur (v1 :: v2 :: tl')) with
          (fun p => Rvadd (polyline_H NumR p v1 v2 cur) (poly_sum cur (v2 :: tl') p)).
        apply jacobian_add; assumption.
      * rewrite jdiv_add, Hds, Hdt. ring.
      * rewrite jcurl_add, Hcs, Hct. cbn [hd]. 
        change (last (v1 :: v2 :: tl') d) with (last (v2 :: tl') d).
        apply Rvsub_chain.
Qed.

(* closed Polyline loops: the summed field of the model is differentiable, divergence-free and
   curl-free at every observer clear of all supporting lines *)
Theorem closed_polyline_source_free cur vs o d :
  hd d vs = last vs d -> poly_clear o vs -> source_free_at (poly_sum cur vs) o.
Proof.
  intros Hclosed Hcl. destruct (poly_sum_jacobian cur o d vs Hcl) as (J & HJ & Hd & Hc).
  destruct (jacobian_div_curl _ _ _ HJ) as (H1 & H2 & H3).
  split; [exact H1|]. split; [rewrite H2; exact Hd|].
  rewrite H3, Hc, Hclosed. apply Rvsub_self.
Qed.

(* any (open) chain: divergence-free *)
Theorem polyline_div_free cur vs o :
  poly_clear o vs -> differentiable_at (poly_sum cur vs) o /\ divergence (poly_sum cur vs) o = 0.
Proof.
  intros Hcl. destruct (poly_sum_jacobian cur o (0, 0, 0) vs Hcl) as (J & HJ & Hd & Hc).
  destruct (jacobian_div_curl _ _ _ HJ) as (H1 & H2 & H3).
  split; [exact H1|rewrite H2; exact Hd].
Qed.

(* non-vacuity: a unit triangle in the plane z = 0 and the observer (0,0,1) *)
Lemma poly_clear_nonvacuous :
  poly_clear (0, 0, 1) [(0, 0, 0); (1, 0, 0); (0, 1, 0); (0, 0, 0)].
Proof.
  assert (Hs : forall x, 1 <= x -> 1 <= sqrt x).
  { intros x Hx. rewrite <- sqrt_1. apply sqrt_le_1_alt. exact Hx. }
  cbn [poly_clear]. unfold seg_clear, seg_D, Rdot, Rvsub. repeat split.
  - intros E; inversion E; lra.
  - eapply Rlt_le_trans; [|apply Hs]; lra.
  - intros E; inversion E; lra.
  - eapply Rlt_le_trans; [|apply Hs]; lra.
  - intros E; inversion E; lra.
  - eapply Rlt_le_trans; [|apply Hs]; lra.
Qed.

(* ------------------------------------------------------------------ B = mu0 H for the chain *)
Lemma poly_sumB_scale mu0 cur o : forall vs, poly_sumB mu0 cur vs o = Rvscale mu0 (poly_sum cur vs o).
Proof.
  induction vs as [|v1 tl IH].
  - unfold poly_sumB, poly_sum. cbn [poly_sumB_gen poly_sum_gen]. unfold_core. apply triple_eq; ring.
  - destruct tl as [|v2 tl'].
    + unfold poly_sumB, poly_sum. cbn [poly_sumB_gen poly_sum_gen]. unfold_core. apply triple_eq; ring.
    + change (poly_sumB mu0 cur (v1 :: v2 :: tl') o)
        with (Rvadd (polyline_BH NumR FB mu0 o v1 v2 cur) (poly_sumB mu0 cur (v2 :: tl') o)).
      change (poly_sum cur (v1 :: v2 :: tl') o)
        with (Rvadd (polyline_H NumR o v1 v2 cur) (poly_sum cur (v2 :: tl') o)).
      rewrite IH. unfold polyline_BH.
      destruct (polyline_H NumR o v1 v2 cur) as [[h0 h1] h2].
      destruct (poly_sum cur (v2 :: tl') o) as [[s0 s1] s2].
      unfold Rvadd. unfold_core. apply triple_eq; ring.
Qed.

Theorem closed_polyline_B_source_free mu0 cur vs o d :
  hd d vs = last vs d -> poly_clear o vs -> source_free_at (poly_sumB mu0 cur vs) o.
Proof.
  intros Hclosed Hcl. destruct (poly_sum_jacobian cur o d vs Hcl) as (J & HJ & Hd & Hc).
  rewrite Hclosed, Rvsub_self in Hc. unfold jcurl in Hc. injection Hc as C0 C1 C2.
  apply (source_free_of_jacobian _ _ (fun i j => mu0 * J i j)).
  - apply (jacobian_scale_loc (poly_sum cur vs)); [exact HJ|].
    intros j Hj. apply filter_forall. intros t. apply poly_sumB_scale.
  - apply jac_laws_scale. unfold jac_laws. unfold jdiv in Hd. repeat split; assumption.
Qed.

(* ------------------------------------------------------------------ statements used by Props/C14.v *)
Lemma polyline_is_seg_H o p1 p2 cur :
  p1 <> p2 ->
  1 / 1000000000000000 * Rdot (Rvsub p2 p1) (Rvsub p2 p1) <= sqrt (seg_D (Rvsub o p1) (Rvsub p2 p1)) ->
  polyline_H NumR o p1 p2 cur = seg_H cur p1 p2 o.
Proof. exact (polyline_is_seg o p1 p2 cur). Qed.

Lemma polyline_chain_laws cur vs o d : poly_clear o vs ->
  differentiable_at (poly_sum cur vs) o
  /\ divergence (poly_sum cur vs) o = 0
  /\ curl (poly_sum cur vs) o
     = Rvsub (pointK cur (Rvsub o (last vs d))) (pointK cur (Rvsub o (hd d vs))).
Proof.
  intros Hcl. destruct (poly_sum_jacobian cur o d vs Hcl) as (J & HJ & Hd & Hc).
  destruct (jacobian_div_curl _ _ _ HJ) as (H1 & H2 & H3).
  split; [exact H1|]. split; [rewrite H2; exact Hd|rewrite H3; exact Hc].
Qed.

Lemma polyline_nonvacuous :
  let vs := [(0, 0, 0); (1, 0, 0); (0, 1, 0); (0, 0, 0)] in
  poly_clear (0, 0, 1) vs /\ hd (0, 0, 0) vs = last vs (0, 0, 0).
Proof. split; [exact poly_clear_nonvacuous|reflexivity]. Qed.
