(* C13 -- the angle reduction of BHJM_cylinder_segment (integers degrees): for every valid section (phi1 < phi2,
   span <= 360) the reduced angles lie in [-360, 360], differ from the given ones by a whole number of turns (same
   span, same body), sections already in range are untouched, and describing the same body k turns further gives
   reduced angles that again differ by whole turns only (and coincide whenever both descriptions leave the range on
   the same side by less than ... see seg_reduce_shift_same for the exact statement). *)
From Coq Require Import ZArith Lia Bool.
From MV Require Import Model.ReprModel Model.ReprExec.
Local Open Scope Z_scope.

Lemma zceil_div_spec a : let q := zceil_div a 360 in 360 * (q - 1) < a <= 360 * q.
Proof.
  unfold zceil_div. pose proof (Z.div_mod (- a) 360 ltac:(lia)). pose proof (Z.mod_pos_bound (- a) 360 ltac:(lia)). lia.
Qed.

Theorem seg_reduce_in_range phi1 phi2 : phi1 < phi2 -> phi2 - phi1 <= 360 ->
  let '(q1, q2) := seg_reduce phi1 phi2 in
  -360 <= q1 /\ q2 <= 360 /\ q2 - q1 = phi2 - phi1 /\ exists k, q1 = phi1 - 360 * k /\ q2 = phi2 - 360 * k.
Proof.
  intros H1 H2. unfold seg_reduce, seg_turns.
  destruct (360 <? phi2) eqn:E1.
  - apply Z.ltb_lt in E1. pose proof (zceil_div_spec (phi2 - 360)) as S. cbv zeta in S.
    repeat split; try lia. eexists; split; reflexivity.
  - apply Z.ltb_ge in E1. destruct (phi1 <? -360) eqn:E2.
    + apply Z.ltb_lt in E2. pose proof (zceil_div_spec (-360 - phi1)) as S. cbv zeta in S.
      repeat split; try lia. eexists; split; reflexivity.
    + apply Z.ltb_ge in E2. repeat split; try lia. exists 0. lia.
Qed.

Theorem seg_reduce_identity_in_range phi1 phi2 : -360 <= phi1 -> phi2 <= 360 -> seg_reduce phi1 phi2 = (phi1, phi2).
Proof.
  intros H1 H2. unfold seg_reduce, seg_turns.
  assert (E1 : (360 <? phi2) = false) by (apply Z.ltb_ge; lia).
  assert (E2 : (phi1 <? -360) = false) by (apply Z.ltb_ge; lia).
  rewrite E1, E2. f_equal; lia.
Qed.

(* a section that leaves the range above: its reduction is THE representative with 0 < phi2' <= 360; so two
   descriptions of one body that both exceed +360 (or both fall below -360) are reduced to the same angles *)
Theorem seg_reduce_shift_same phi1 phi2 k : phi1 < phi2 -> phi2 - phi1 <= 360 -> 360 < phi2 -> 360 < phi2 + 360 * k ->
  seg_reduce (phi1 + 360 * k) (phi2 + 360 * k) = seg_reduce phi1 phi2.
Proof.
  intros H1 H2 H3 H4. unfold seg_reduce, seg_turns.
  assert (E1 : (360 <? phi2) = true) by (apply Z.ltb_lt; lia).
  assert (E2 : (360 <? phi2 + 360 * k) = true) by (apply Z.ltb_lt; lia).
  rewrite E1, E2.
  pose proof (zceil_div_spec (phi2 - 360)) as S1. pose proof (zceil_div_spec (phi2 + 360 * k - 360)) as S2.
  cbv zeta in S1, S2.
  assert (zceil_div (phi2 + 360 * k - 360) 360 = zceil_div (phi2 - 360) 360 + k) by lia.
  f_equal; lia.
Qed.

Theorem seg_reduce_shift_same_below phi1 phi2 k : phi1 < phi2 -> phi2 - phi1 <= 360 ->
  phi2 <= 360 -> phi2 + 360 * k <= 360 -> phi1 < -360 -> phi1 + 360 * k < -360 ->
  seg_reduce (phi1 + 360 * k) (phi2 + 360 * k) = seg_reduce phi1 phi2.
Proof.
  intros H1 H2 H3 H4 H5 H6. unfold seg_reduce, seg_turns.
  assert (E1 : (360 <? phi2) = false) by (apply Z.ltb_ge; lia).
  assert (E2 : (360 <? phi2 + 360 * k) = false) by (apply Z.ltb_ge; lia).
  assert (E3 : (phi1 <? -360) = true) by (apply Z.ltb_lt; lia).
  assert (E4 : (phi1 + 360 * k <? -360) = true) by (apply Z.ltb_lt; lia).
  rewrite E1, E2, E3, E4.
  pose proof (zceil_div_spec (-360 - phi1)) as S1. pose proof (zceil_div_spec (-360 - (phi1 + 360 * k))) as S2.
  cbv zeta in S1, S2.
  assert (zceil_div (-360 - (phi1 + 360 * k)) 360 = zceil_div (-360 - phi1) 360 - k) by lia.
  f_equal; lia.
Qed.

(* the full-angle dispatch of BHJM_cylinder_segment_internal does not see whole turns at all *)
Theorem mask_segment_shift (o p : @vec ZNum) (r1 r2 h phi1 phi2 k : Z) :
  @mask_segment ZNum (o, p, (r1, r2, h, phi1 + 360 * k, phi2 + 360 * k)) = @mask_segment ZNum (o, p, (r1, r2, h, phi1, phi2)).
Proof. unfold mask_segment. cbn [nltb nsub nofZ ZNum]. f_equal. lia. Qed.
