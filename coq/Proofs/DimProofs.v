(* C12 -- proofs: the dimension check of everything GenTol.v contains, lifted to real semantics.

   check_fn excl f : every comparison of f is homogeneous under the length scaling AND under the
   excitation scaling, every degree obligation (returned field component, argument handed to a
   parameter of known dimension) has the stated degrees -- except the ids listed in excl.
   `exclusions` is the hand-written table of the ids that are NOT homogeneous on the current tree
   (absolute tolerances against lengths); a NEW non-homogeneous comparison is not in the table and
   breaks `all_functions_ok`.  The table is TIGHT (`exclusions_tight`): an id that no longer fails must be
   removed, so a repaired site (triangle_Bfield `ind > 1e-12*l`, f10bc6f; mask_inside_enclosing_box relative
   eps, ac0d0ea; the orientation seed test and the self-intersection test, which now run on a
   unit-size copy of the mesh, e19e649 / c030c9e; the inside test of mask_inside_trimesh,
   which now runs on a unit-size copy of points and faces, 246d13b) is proved from then on and re-introducing an absolute tolerance there breaks the proof. *)
From Coq Require Import Reals ZArith String List Bool Lia Lra.
From MV Require Import Lib.Dim Gen.GenTol.
Import ListNotations.
Open Scope string_scope.

Definition mem (x : string) (l : list string) : bool := existsb (String.eqb x) l.

Definition Glen (f : fn_record) : env := env_of (fn_env_len f).
Definition Gexc (f : fn_record) : env := env_of (fn_env_exc f).

Definition cmp_ok (f : fn_record) (c : bexpr) : bool := homog (Glen f) c && homog (Gexc f) c.

Definition deg_ok (f : fn_record) (k : Z * Z) (e : dexpr) : bool :=
  has_deg (Glen f) (fst k) e && has_deg (Gexc f) (snd k) e.

Definition cmps_ok (excl : list string) (f : fn_record) : bool :=
  forallb (fun ic : string * list bexpr => mem (fst ic) excl || forallb (cmp_ok f) (snd ic)) (fn_cmps f).

Definition degs_ok (excl : list string) (f : fn_record) (l : list (string * (Z * Z) * dexpr)) : bool :=
  forallb (fun d : string * (Z * Z) * dexpr => mem (fst (fst d)) excl || deg_ok f (snd (fst d)) (snd d)) l.

Definition check_fn (excl : list string) (f : fn_record) : bool :=
  cmps_ok excl f && degs_ok excl f (fn_rets f) && degs_ok excl f (fn_args f).

(* the ids that fail the check (evaluated by the harness to learn the ACTIVE exclusions) *)
Definition failing_degs (f : fn_record) (l : list (string * (Z * Z) * dexpr)) : list string :=
  map (fun d => fst (fst d)) (filter (fun d : string * (Z * Z) * dexpr => negb (deg_ok f (snd (fst d)) (snd d))) l).
Definition failing_fn (f : fn_record) : list string :=
  map fst (filter (fun ic : string * list bexpr => negb (forallb (cmp_ok f) (snd ic))) (fn_cmps f)) ++
  failing_degs f (fn_rets f) ++ failing_degs f (fn_args f).
Definition failing : list string := flat_map failing_fn functions.

(* ------------------------------------------------------------------ the exclusion table
   every entry is an absolute tolerance (or a fixed offset) compared with / added to a length, a value
   computed behind such a decision, or the un-modelled cylinder-segment core; each one points to a
   finding of known_findings/C12.json or to the `not modelled` list of harness/props/C12.meta.json *)
Definition exclusions : list string := [
  (* cylinder segment: close() = isclose(rtol=1e-12, atol=1e-12) on lengths, +-1e-14 margins on lengths *)
  "cylinder_segment>BHJM_cylinder_segment>r1 - 1e-14 < r";
  "cylinder_segment>BHJM_cylinder_segment>r < r2 + 1e-14";
  "cylinder_segment>BHJM_cylinder_segment>z1 - 1e-14 < z";
  "cylinder_segment>BHJM_cylinder_segment>z < z2 + 1e-14";
  "cylinder_segment>BHJM_cylinder_segment>close(z, z1)>np.isclose(arg1, arg2, rtol=1e-12, atol=1e-12)";
  "cylinder_segment>BHJM_cylinder_segment>close(z, z2)>np.isclose(arg1, arg2, rtol=1e-12, atol=1e-12)";
  "cylinder_segment>BHJM_cylinder_segment>close(r, r1)>np.isclose(arg1, arg2, rtol=1e-12, atol=1e-12)";
  "cylinder_segment>BHJM_cylinder_segment>close(r, r2)>np.isclose(arg1, arg2, rtol=1e-12, atol=1e-12)";
  "cylinder_segment_cases>determine_cases>close(z, z1)>np.isclose(arg1, arg2, rtol=1e-12, atol=1e-12)";
  "cylinder_segment_cases>determine_cases>close(r, 0)>np.isclose(arg1, arg2, rtol=1e-12, atol=1e-12)";
  "cylinder_segment_cases>determine_cases>close(r1, 0)>np.isclose(arg1, arg2, rtol=1e-12, atol=1e-12)";
  "cylinder_segment_cases>determine_cases>close(r, r1)>np.isclose(arg1, arg2, rtol=1e-12, atol=1e-12)";
  (* cylinder segment field: selected by the masks above; the closed-form core is not modelled *)
  "cylinder_segment>BHJM_cylinder_segment[field=B]>return.0"; "cylinder_segment>BHJM_cylinder_segment[field=B]>return.1";
  "cylinder_segment>BHJM_cylinder_segment[field=B]>return.2";
  "cylinder_segment>BHJM_cylinder_segment[field=H]>return.0"; "cylinder_segment>BHJM_cylinder_segment[field=H]>return.1";
  "cylinder_segment>BHJM_cylinder_segment[field=H]>return.2";
  "cylinder_segment>BHJM_cylinder_segment[field=J]>return.0"; "cylinder_segment>BHJM_cylinder_segment[field=J]>return.1";
  "cylinder_segment>BHJM_cylinder_segment[field=J]>return.2";
  "cylinder_segment>BHJM_cylinder_segment[field=M]>return.0"; "cylinder_segment>BHJM_cylinder_segment[field=M]>return.1";
  "cylinder_segment>BHJM_cylinder_segment[field=M]>return.2"
].

(* one vm_compute: the failing ids, once *)
Definition failing_now : list string := Eval vm_compute in failing.
Lemma failing_now_eq : failing = failing_now.
Proof. vm_compute. reflexivity. Qed.

Lemma failing_excluded : forallb (fun id => mem id exclusions) failing_now = true.
Proof. vm_compute. reflexivity. Qed.

(* tightness: every excluded id really fails the dimension check on the current tree *)
Lemma exclusions_fail : forallb (fun id => mem id failing_now) exclusions = true.
Proof. vm_compute. reflexivity. Qed.

Lemma exclusions_tight :
  forallb (fun id => mem id exclusions) failing = true /\ forallb (fun id => mem id failing) exclusions = true.
Proof. rewrite failing_now_eq. split; [exact failing_excluded | exact exclusions_fail]. Qed.

(* ------------------------------------------------------------------ failing -> check *)
Lemma filter_map_mem {A} (g : A -> string) (p : A -> bool) (excl : list string) (l : list A) :
  forallb (fun id => mem id excl) (map g (filter (fun x => negb (p x)) l)) = true ->
  forallb (fun x => mem (g x) excl || p x) l = true.
Proof.
  induction l as [|x l IH]; simpl; [reflexivity|]. destruct (p x) eqn:E; simpl.
  - intros H. rewrite orb_true_r. simpl. apply IH, H.
  - intros H. apply andb_prop in H. destruct H as [H1 H2]. rewrite H1. simpl. apply IH, H2.
Qed.

Lemma forallb_app_inv {A} (p : A -> bool) l1 l2 : forallb p (l1 ++ l2) = true ->
  forallb p l1 = true /\ forallb p l2 = true.
Proof. rewrite forallb_app. intros H. apply andb_prop in H. exact H. Qed.

Lemma failing_fn_check excl f : forallb (fun id => mem id excl) (failing_fn f) = true -> check_fn excl f = true.
Proof.
  unfold failing_fn, failing_degs, check_fn, cmps_ok, degs_ok. intros H.
  apply forallb_app_inv in H. destruct H as [H1 H]. apply forallb_app_inv in H. destruct H as [H2 H3].
  rewrite (filter_map_mem fst (fun ic => forallb (cmp_ok f) (snd ic)) excl _ H1).
  rewrite (filter_map_mem (fun d : string * (Z * Z) * dexpr => fst (fst d))
             (fun d => deg_ok f (snd (fst d)) (snd d)) excl _ H2).
  rewrite (filter_map_mem (fun d : string * (Z * Z) * dexpr => fst (fst d))
             (fun d => deg_ok f (snd (fst d)) (snd d)) excl _ H3).
  reflexivity.
Qed.

Lemma failing_check excl (fs : list fn_record) :
  forallb (fun id => mem id excl) (flat_map failing_fn fs) = true -> forallb (check_fn excl) fs = true.
Proof.
  induction fs as [|f fs IH]; simpl; [reflexivity|]. intros H.
  apply forallb_app_inv in H. destruct H as [H1 H2].
  rewrite (failing_fn_check excl f H1). simpl. apply IH, H2.
Qed.

Lemma all_functions_ok : forallb (check_fn exclusions) functions = true.
Proof.
  apply failing_check. change (flat_map failing_fn functions) with failing.
  rewrite failing_now_eq. exact failing_excluded.
Qed.

(* ------------------------------------------------------------------ lifting to the real semantics *)
Open Scope R_scope.
Lemma sqrt_pos s : 0 < s -> 0 < sqrt s.
Proof. apply sqrt_lt_R0. Qed.

Lemma masks_scale_invariant (f : fn_record) (id : string) (cs : list bexpr) (c : bexpr) :
  In f functions -> In (id, cs) (fn_cmps f) -> mem id exclusions = false -> In c cs ->
  forall (fn0 fnh : string -> list R -> option R), scale_invariant fnh ->
  forall (s : R) (rho : string -> R), 0 < s ->
    evalb fn0 fnh (scale (Glen f) (sqrt s) rho) c = evalb fn0 fnh rho c /\
    evalb fn0 fnh (scale (Gexc f) (sqrt s) rho) c = evalb fn0 fnh rho c.
Proof.
  intros Hf Hid Hex Hc fn0 fnh Hinv s rho Hs.
  pose proof all_functions_ok as A. rewrite forallb_forall in A. specialize (A f Hf).
  unfold check_fn in A. apply andb_prop in A. destruct A as [A _]. apply andb_prop in A. destruct A as [A _].
  unfold cmps_ok in A. rewrite forallb_forall in A. specialize (A (id, cs) Hid). cbn [fst snd] in A.
  rewrite Hex in A. cbn [orb] in A. rewrite forallb_forall in A. specialize (A c Hc).
  unfold cmp_ok in A. apply andb_prop in A. destruct A as [A1 A2].
  split; apply homog_sound; auto using sqrt_pos.
Qed.

Lemma degs_sound (f : fn_record) (l : list (string * (Z * Z) * dexpr)) id kl ke e :
  degs_ok exclusions f l = true -> In (id, (kl, ke), e) l -> mem id exclusions = false ->
  forall (fn0 fnh : string -> list R -> option R), scale_invariant fnh ->
  forall (s : R) (rho : string -> R), 0 < s ->
    eval fn0 fnh (scale (Glen f) (sqrt s) rho) e = option_map (Rmult (powerRZ (sqrt s) kl)) (eval fn0 fnh rho e) /\
    eval fn0 fnh (scale (Gexc f) (sqrt s) rho) e = option_map (Rmult (powerRZ (sqrt s) ke)) (eval fn0 fnh rho e).
Proof.
  intros A Hid Hex fn0 fnh Hinv s rho Hs.
  unfold degs_ok in A. rewrite forallb_forall in A. specialize (A _ Hid). cbn [fst snd] in A.
  rewrite Hex in A. cbn [orb] in A. unfold deg_ok in A. cbn [fst snd] in A. apply andb_prop in A. destruct A as [A1 A2].
  split; apply has_deg_sound; auto using sqrt_pos.
Qed.

Lemma core_degree (f : fn_record) id kl ke e :
  In f functions -> In (id, (kl, ke), e) (fn_rets f) -> mem id exclusions = false ->
  forall (fn0 fnh : string -> list R -> option R), scale_invariant fnh ->
  forall (s : R) (rho : string -> R), 0 < s ->
    eval fn0 fnh (scale (Glen f) (sqrt s) rho) e = option_map (Rmult (powerRZ (sqrt s) kl)) (eval fn0 fnh rho e) /\
    eval fn0 fnh (scale (Gexc f) (sqrt s) rho) e = option_map (Rmult (powerRZ (sqrt s) ke)) (eval fn0 fnh rho e).
Proof.
  intros Hf. pose proof all_functions_ok as A. rewrite forallb_forall in A. specialize (A f Hf).
  unfold check_fn in A. apply andb_prop in A. destruct A as [A _]. apply andb_prop in A. destruct A as [_ A].
  apply degs_sound. exact A.
Qed.

Lemma call_args_dimension (f : fn_record) id kl ke e :
  In f functions -> In (id, (kl, ke), e) (fn_args f) -> mem id exclusions = false ->
  forall (fn0 fnh : string -> list R -> option R), scale_invariant fnh ->
  forall (s : R) (rho : string -> R), 0 < s ->
    eval fn0 fnh (scale (Glen f) (sqrt s) rho) e = option_map (Rmult (powerRZ (sqrt s) kl)) (eval fn0 fnh rho e) /\
    eval fn0 fnh (scale (Gexc f) (sqrt s) rho) e = option_map (Rmult (powerRZ (sqrt s) ke)) (eval fn0 fnh rho e).
Proof.
  intros Hf. pose proof all_functions_ok as A. rewrite forallb_forall in A. specialize (A f Hf).
  unfold check_fn in A. apply andb_prop in A. destruct A as [_ A].
  apply degs_sound. exact A.
Qed.

(* ------------------------------------------------------------------ the table of proved field degrees
   (half units: -6 = length^-3, -2 = length^-1, 0 = unit independent; 2 = proportional to the excitation) *)
Definition proved_return_degrees : list (string * (Z * Z)) :=
  [("dipole", (-6, 2)%Z); ("sphere", (0, 2)%Z); ("cuboid", (0, 2)%Z); ("cylinder", (0, 2)%Z);
   ("circle", (-2, 2)%Z); ("polyline", (-2, 2)%Z); ("triangle", (0, 2)%Z); ("tetrahedron", (0, 2)%Z)].

Definition zz_eqb (a b : Z * Z) : bool := (fst a =? fst b)%Z && (snd a =? snd b)%Z.

Definition returns_proved (nk : string * (Z * Z)) : bool :=
  existsb (fun f => String.eqb (fn_name f) (fst nk) &&
                    negb (match fn_rets f with [] => true | _ => false end) &&
                    forallb (fun d : string * (Z * Z) * dexpr =>
                               zz_eqb (snd (fst d)) (snd nk) && negb (mem (fst (fst d)) exclusions)) (fn_rets f))
          functions.

Lemma return_table_ok : forallb returns_proved proved_return_degrees = true.
Proof. vm_compute. reflexivity. Qed.

(* how the abstract scaling reads: with t = sqrt s a length is multiplied by s, 1/length divided by s,
   1/length^3 divided by s^3, a dimensionless quantity is unchanged *)
Lemma powerRZ_sqrt_m2 s : 0 < s -> powerRZ (sqrt s) (-2) = / s.
Proof.
  intros Hs. replace (-2)%Z with (2 * -1)%Z by lia. rewrite pz_sqrt_even by assumption.
  simpl. rewrite Rmult_1_r. reflexivity.
Qed.
Lemma powerRZ_sqrt_m6 s : 0 < s -> powerRZ (sqrt s) (-6) = / (s * s * s).
Proof.
  intros Hs. replace (-6)%Z with (2 * -3)%Z by lia. rewrite pz_sqrt_even by assumption.
  simpl. rewrite Rmult_1_r. f_equal. ring.
Qed.
Lemma powerRZ_sqrt_0 s : powerRZ (sqrt s) 0 = 1.
Proof. reflexivity. Qed.

(* non-vacuity: a covered comparison and a covered return component, with hypotheses that hold *)
Definition sphere_rec : fn_record :=
  mkFn "sphere" env_len_sphere env_exc_sphere cmps_sphere rets_sphere args_sphere.

Lemma masks_nonvacuous :
  exists id cs c, In sphere_rec functions /\ In (id, cs) (fn_cmps sphere_rec) /\ mem id exclusions = false /\
    In c cs /\ scale_invariant (fun _ _ => Some 0).
Proof.
  eexists. eexists. eexists.
  split; [unfold functions; right; left; reflexivity|].
  split; [unfold sphere_rec, fn_cmps, cmps_sphere; left; reflexivity|].
  split; [vm_compute; reflexivity|].
  split; [left; reflexivity|].
  intros f l c _. reflexivity.
Qed.

Lemma rets_nonvacuous :
  exists id e, In (id, (0, 2)%Z, e) (fn_rets sphere_rec) /\ mem id exclusions = false.
Proof.
  eexists. eexists. split; [unfold sphere_rec, fn_rets, rets_sphere; left; reflexivity|].
  vm_compute; reflexivity.
Qed.
