(* C01 -- proofs about the formula models over R. *)
From Coq Require Import Reals Lra Lia Psatz ZArith Bool.
From Coquelicot Require Import Coquelicot.
From MV Require Import Model.CoreNum Model.CoreModel Model.CoreSpec.
Open Scope R_scope.

Ltac unfold_model :=
  cbv beta iota zeta delta
    [dipole_H dipole_BH dipole_inf sphere_BH sphere_out polyline_H polyline_H_br polyline_BH
     circle_branch_of circle_axis_Hz circle_H circle_BH
     vsub vadd vscale vdivs vmuls vdot vnorm vcross veqb sq pow3 pow5 pow32 zero3
     c0 c1 c2 c3 c4 cpi e15 half
     NumR carrier nadd nsub nmul ndiv nopp nsqrt nabs nltb neqb nofZ npi nln natan2
     point_dipole_H Rdot Rnorm Rcross Rvsub Rvadd Rvscale comp fst snd].

Lemma Reqb_true a b : Reqb a b = true <-> a = b.
Proof. unfold Reqb. destruct (Req_EM_T a b); split; congruence. Qed.
Lemma Reqb_false a b : Reqb a b = false <-> a <> b.
Proof. unfold Reqb. destruct (Req_EM_T a b); split; congruence. Qed.
Lemma Rltb_true a b : Rltb a b = true <-> a < b.
Proof. unfold Rltb. destruct (Rlt_dec a b); split; congruence. Qed.
Lemma Rltb_false a b : Rltb a b = false <-> b <= a.
Proof. unfold Rltb. destruct (Rlt_dec a b); split; try congruence; lra. Qed.

Lemma triple_eq (a b c a' b' c' : R) : a = a' -> b = b' -> c = c' -> (a, b, c) = (a', b', c').
Proof. intros; subst; reflexivity. Qed.

Lemma sumsq_pos x y z : (x, y, z) <> (0, 0, 0) -> 0 < x * x + y * y + z * z.
Proof.
  intros H. destruct (Req_dec x 0) as [Hx|Hx]; [destruct (Req_dec y 0) as [Hy|Hy];
    [destruct (Req_dec z 0) as [Hz|Hz]|]|]; subst; try congruence; nra.
Qed.

Lemma sqrt_sumsq_pos x y z : (x, y, z) <> (0, 0, 0) -> 0 < sqrt (x * x + y * y + z * z).
Proof. intros H. apply sqrt_lt_R0, sumsq_pos, H. Qed.

(* ------------------------------------------------------------------ dipole *)
Lemma dipole_H_spec (o m : RV3) : o <> (0, 0, 0) -> dipole_H NumR o m = point_dipole_H o m.
Proof.
  destruct o as [[x y] z], m as [[mx my] mz]. intros Ho.
  pose proof (sqrt_sumsq_pos x y z Ho) as Hr. pose proof PI_RGT_0 as Hpi.
  unfold_model.
  destruct (Reqb (sqrt (x * x + y * y + z * z)) 0) eqn:E.
  - apply Reqb_true in E. lra.
  - set (r := sqrt (x * x + y * y + z * z)) in *.
    apply triple_eq; field; lra.
Qed.

Lemma dipole_B_spec (mu0 : R) (o m : RV3) : o <> (0, 0, 0) ->
  dipole_BH NumR FB mu0 o m = Rvscale mu0 (point_dipole_H o m)
  /\ dipole_BH NumR FH mu0 o m = point_dipole_H o m.
Proof.
  intros Ho. split.
  - unfold dipole_BH. rewrite dipole_H_spec by exact Ho.
    destruct (point_dipole_H o m) as [[a b] c]. unfold_model. apply triple_eq; ring.
  - unfold dipole_BH. apply dipole_H_spec, Ho.
Qed.

(* ------------------------------------------------------------------ sphere
   outside branch = field of the point dipole with the sphere's total moment
   m = J * V / mu0, V = pi d^3 / 6 *)
Definition sphere_moment (mu0 d : R) (P : RV3) : RV3 := Rvscale (PI * Rabs d ^ 3 / 6 / mu0) P.

Lemma sphere_outside_spec (mu0 d : R) (o P : RV3) :
  mu0 <> 0 -> Rabs d / 2 < Rnorm o ->
  sphere_BH NumR FB mu0 o d P = Rvscale mu0 (point_dipole_H o (sphere_moment mu0 d P))
  /\ sphere_BH NumR FH mu0 o d P = point_dipole_H o (sphere_moment mu0 d P).
Proof.
  destruct o as [[x y] z], P as [[px py] pz]. intros Hmu Hout.
  pose proof PI_RGT_0 as Hpi. pose proof (Rabs_pos d) as Hd.
  unfold sphere_moment. revert Hout. unfold_model. intros Hout.
  set (r := sqrt (x * x + y * y + z * z)) in *.
  assert (Hr : 0 < r) by lra.
  assert (Hrr : r * r = x * x + y * y + z * z).
  { unfold r. rewrite sqrt_sqrt; [reflexivity|nra]. }
  destruct (Rltb (Rabs d / 2) r) eqn:E; [|apply Rltb_false in E; lra].
  clearbody r. split; apply triple_eq; field; lra.
Qed.

(* inside branch: B = 2J/3, H = -J/(3 mu0) (uniform). That this equals the Coulombian
   integral of the sphere's surface charge is NOT proved (see Props/C01.v). *)
Lemma sphere_inside_value (mu0 d : R) (o P : RV3) :
  mu0 <> 0 -> Rnorm o <= Rabs d / 2 ->
  sphere_BH NumR FB mu0 o d P = Rvscale (2 / 3) P
  /\ sphere_BH NumR FH mu0 o d P = Rvscale (- / (3 * mu0)) P.
Proof.
  destruct o as [[x y] z], P as [[px py] pz]. intros Hmu Hin.
  revert Hin. unfold_model. intros Hin.
  destruct (Rltb (Rabs d / 2) (sqrt (x * x + y * y + z * z))) eqn:E; [apply Rltb_true in E; lra|].
  split; apply triple_eq; field; lra.
Qed.

Lemma sphere_outside_nonvacuous : Rabs 1 / 2 < Rnorm (1, 0, 0) /\ (1, 0, 0) <> (0, 0, 0).
Proof.
  split.
  - unfold Rnorm, Rdot. replace (1 * 1 + 0 * 0 + 0 * 0) with 1 by ring.
    rewrite sqrt_1, Rabs_R1. lra.
  - intros H. inversion H. lra.
Qed.
