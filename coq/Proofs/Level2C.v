(* Level-2 data flow, part C: the in-place collection slice-sum/delete loop returns, at index l,
   the sum over exactly the leaves of source l (C05), for every list of sources. *)
From Coq Require Import List Arith Bool Lia.
From MV Require Import Lib.Rigid Lib.ListIdx Model.Level2Model.
Import ListNotations.

Section Reduce.
Context {O : RigidOps}.
Variable P : Type.
Notation leaf := (@leaf O P).
Notation srcin := (@srcin O P).

Fixpoint reduce_spec (srcs : list srcin) (B : list block) : list block :=
  match srcs with
  | [] => []
  | s :: r => let n := length (leaves s) in sum_blocks (firstn n B) :: reduce_spec r (skipn n B)
  end.

Lemma set_nth_0 {A} (x : A) l : l <> [] -> set_nth 0 x l = x :: tl l.
Proof. destruct l; [congruence|reflexivity]. Qed.

Theorem reduce_loop_spec (srcs : list srcin) :
  forall (done B : list block),
  (forall s, In s srcs -> leaves s <> []) ->
  length B = length (src_list srcs) ->
  reduce_loop P srcs (length done) (done ++ B) = done ++ reduce_spec srcs B.
Proof.
  induction srcs as [|s srcs IH]; intros done B Hne Hlen.
  - cbn in *. destruct B; [reflexivity|discriminate].
  - cbn [reduce_loop reduce_spec].
    assert (Hs : leaves s <> []) by (apply Hne; left; reflexivity).
    cbn [src_list flat_map] in Hlen. fold (src_list srcs) in Hlen. rewrite app_length in Hlen.
    destruct s as [x|ls]; cbn [leaves length] in *.
    + (* bare source: nothing happens, the index advances *)
      destruct B as [|b B]; [discriminate|].
      replace (done ++ b :: B) with ((done ++ [b]) ++ B) by (rewrite <- app_assoc; reflexivity).
      replace (S (length done)) with (length (done ++ [b])) by (rewrite app_length; simpl; lia).
      rewrite IH.
      * rewrite <- app_assoc. reflexivity.
      * intros s Hin. apply Hne. right. exact Hin.
      * simpl in Hlen. lia.
    + set (n := length ls) in *.
      assert (Hn : 1 <= n) by (destruct ls; [congruence|unfold n; simpl; lia]).
      assert (HB : n <= length B) by lia.
      rewrite skipn_app_exact.
      rewrite set_nth_app_r by lia. rewrite Nat.sub_diag.
      assert (HBne : B <> []) by (destruct B; [simpl in HB; lia|congruence]).
      rewrite set_nth_0 by exact HBne.
      set (v := sum_blocks (firstn n B)).
      unfold delete_range.
      replace (Nat.max (length done + 1) (length done + n)) with (length done + n) by lia.
      replace (done ++ v :: tl B) with ((done ++ [v]) ++ tl B) by (rewrite <- app_assoc; reflexivity).
      replace (length done + 1) with (length (done ++ [v])) by (rewrite app_length; simpl; lia).
      rewrite firstn_app_exact.
      replace (length done + n) with (length (done ++ [v]) + (n - 1)) by (rewrite app_length; simpl; lia).
      rewrite skipn_app, skipn_all2 by lia.
      replace (length (done ++ [v]) + (n - 1) - length (done ++ [v])) with (n - 1) by lia.
      cbn [app].
      replace (skipn (n - 1) (tl B)) with (skipn n B)
        by (destruct B as [|b B']; [congruence|]; destruct n; [lia|]; simpl; rewrite Nat.sub_0_r; reflexivity).
      replace (S (length done)) with (length (done ++ [v])) by (rewrite app_length; simpl; lia).
      rewrite IH.
      * rewrite <- app_assoc. reflexivity.
      * intros s Hin. apply Hne. right. exact Hin.
      * rewrite skipn_length. lia.
Qed.

Lemma reduce_spec_map (blockof : leaf -> block) (srcs : list srcin) :
  reduce_spec srcs (map blockof (src_list srcs))
  = map (fun s => sum_blocks (map blockof (leaves s))) srcs.
Proof.
  induction srcs as [|s srcs IH]; [reflexivity|].
  cbn [reduce_spec src_list flat_map map]. fold (src_list srcs).
  rewrite map_app. rewrite <- (map_length blockof (leaves s)).
  rewrite firstn_app_exact, skipn_app_exact. f_equal. exact IH.
Qed.

Lemma all_singletons (srcs : list srcin) :
  (forall s, In s srcs -> leaves s <> []) ->
  length (src_list srcs) <= length srcs ->
  forall s, In s srcs -> exists x, leaves s = [x].
Proof.
  induction srcs as [|s0 srcs IH]; intros Hne Hlen s Hin; [destruct Hin|].
  cbn [src_list flat_map length] in Hlen. fold (src_list srcs) in Hlen. rewrite app_length in Hlen.
  assert (H0 : 1 <= length (leaves s0)).
  { destruct (leaves s0) eqn:E; [exfalso; apply (Hne s0 (or_introl eq_refl)); exact E|simpl; lia]. }
  assert (Hge : length srcs <= length (src_list srcs)).
  { clear -Hne. induction srcs as [|s1 srcs IH1]; [simpl; lia|].
    cbn [src_list flat_map length]. fold (src_list srcs). rewrite app_length.
    assert (1 <= length (leaves s1)).
    { destruct (leaves s1) eqn:E; [exfalso; apply (Hne s1); [right; left; reflexivity|exact E]|simpl; lia]. }
    assert (length srcs <= length (src_list srcs)).
    { apply IH1. intros s Hs. apply Hne. destruct Hs as [->|Hs]; [left; reflexivity|right; right; exact Hs]. }
    lia. }
  destruct Hin as [->|Hin].
  - destruct (leaves s) as [|x [|y r]] eqn:E; [simpl in H0; lia|exists x; reflexivity|simpl in Hlen; lia].
  - apply IH; [intros s' Hs'; apply Hne; right; exact Hs'|lia|exact Hin].
Qed.

(* the whole reduction step, including the `num_of_src_list > num_of_sources` guard *)
Theorem reduce_collections_spec (blockof : leaf -> block) (srcs : list srcin) :
  (forall s, In s srcs -> leaves s <> []) ->
  reduce_collections P srcs (map blockof (src_list srcs))
  = map (fun s => sum_blocks (map blockof (leaves s))) srcs.
Proof.
  intros Hne. unfold reduce_collections.
  destruct (Nat.ltb_spec (length srcs) (length (src_list srcs))) as [Hlt|Hge].
  - pose proof (reduce_loop_spec srcs [] (map blockof (src_list srcs)) Hne) as H.
    cbn [length app] in H. rewrite H by apply map_length. apply reduce_spec_map.
  - pose proof (all_singletons srcs Hne Hge) as Hsing.
    clear Hge. induction srcs as [|s srcs IH]; [reflexivity|].
    cbn [src_list flat_map map]. fold (src_list srcs). rewrite map_app.
    destruct (Hsing s (or_introl eq_refl)) as [x Hx]. rewrite Hx. cbn [map app sum_blocks fold_left].
    f_equal. apply IH.
    + intros s' Hs'. apply Hne. right. exact Hs'.
    + intros s' Hs'. apply Hsing. right. exact Hs'.
Qed.

End Reduce.
