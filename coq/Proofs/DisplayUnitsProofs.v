(* C19 -- the unit factor of get_unit_factor (generated from the source) against the SI table *)
From Coq Require Import ZArith QArith List Bool Lia ZifyBool.
From MV Require Import Gen.GenUnits Model.DisplayUnits.
Import ListNotations.
Open Scope Z_scope.

Lemma str_eqb_eq a b : str_eqb a b = true <-> a = b.
Proof.
  revert b; induction a as [|x a IH]; intros [|y b]; simpl; split; intros H; try congruence; try reflexivity.
  - apply andb_true_iff in H as [H1 H2]. apply Z.eqb_eq in H1. apply IH in H2. congruence.
  - inversion H; subst. rewrite Z.eqb_refl. simpl. apply IH. reflexivity.
Qed.

Lemma dict_get_In {B} (d : list (pystr * B)) k v :
  dict_get d k = Some v -> In (k, v) d.
Proof.
  induction d as [|[k' w] d IH]; simpl; [discriminate|].
  destruct (dict_get d k) as [u|] eqn:E.
  - intros H. inversion H; subst. right. apply IH. reflexivity.
  - destruct (str_eqb k' k) eqn:E2; [|discriminate].
    intros H. inversion H; subst. apply str_eqb_eq in E2. subst. left. reflexivity.
Qed.

Lemma spec_lookup_In pref p l : spec_lookup pref p l = true -> In (pref, p) l.
Proof.
  induction l as [|[k e] l IH]; simpl; [discriminate|].
  intros H. apply orb_true_iff in H as [H|H].
  - apply andb_true_iff in H as [H1 H2]. apply str_eqb_eq in H1. apply Z.eqb_eq in H2. subst. left. reflexivity.
  - right. apply IH, H.
Qed.

(* completeness: every SI prefix of the specification is accepted with the right factor *)
Lemma unit_factor_table_lem :
  forall pref e, In (pref, e) si_prefix_spec ->
  factor_matches (display_unit_factor (pref ++ metre)) e = true.
Proof.
  assert (H : forallb spec_entry_ok si_prefix_spec = true) by (vm_compute; reflexivity).
  rewrite forallb_forall in H. intros pref e Hin. apply (H (pref, e) Hin).
Qed.

Lemma prefs_in_spec_ok : prefs_in_spec = true.
Proof. vm_compute. reflexivity. Qed.

(* soundness, for EVERY string: whatever unit string is accepted is <SI prefix>m and the factor is
   the reciprocal of that prefix *)
Lemma unit_factor_sound_lem (s : pystr) (r : uf_result) :
  display_unit_factor s = r -> r <> UF_invalid ->
  exists pref e, s = pref ++ metre /\ In (pref, e) si_prefix_spec /\ factor_matches r e = true.
Proof.
  intros Hr Hv. unfold display_unit_factor, get_unit_factor in Hr.
  change display_target_unit with metre in Hr.
  destruct (str_eqb s metre) eqn:Em.
  - apply str_eqb_eq in Em. subst s r. exists [], 0. split; [reflexivity|]. split; [|vm_compute; reflexivity].
    vm_compute. tauto.
  - destruct (negb (str_len s =? 0)) eqn:E0.
    2:{ subst r. exfalso. apply Hv. reflexivity. }
    destruct (str_len s >=? 2) eqn:E2.
    + destruct (str_eqb (skipn 1 s) metre) eqn:Es.
      * destruct (dict_get (unit_prefix_reversed ++ uf_extra_prefixes) (firstn 1 s)) as [p|] eqn:Ed.
        2:{ subst r. exfalso. apply Hv. reflexivity. }
        destruct (str_len s >? 2) eqn:E3.
        { subst r. exfalso. apply Hv. reflexivity. }
        apply dict_get_In in Ed.
        pose proof prefs_in_spec_ok as Hp. unfold prefs_in_spec in Hp. rewrite forallb_forall in Hp.
        specialize (Hp _ Ed). cbn [fst snd] in Hp. apply spec_lookup_In in Hp.
        apply str_eqb_eq in Es.
        exists (firstn 1 s), p. split; [rewrite <- Es; symmetry; apply firstn_skipn|]. split; [exact Hp|].
        subst r. pose proof (unit_factor_table_lem _ _ Hp) as Ht.
        unfold display_unit_factor, get_unit_factor in Ht.
        (* evaluate the function on the canonical string pref ++ metre: finite check over the spec *)
        clear - Hp.
        assert (H : forallb (fun pe : pystr * Z => factor_matches (UF_power (snd pe)) (snd pe)) si_prefix_spec = true)
          by (vm_compute; reflexivity).
        rewrite forallb_forall in H. apply (H _ Hp).
      * subst r. exfalso. apply Hv. reflexivity.
    + assert (Es : str_eqb [] metre = false) by reflexivity. rewrite Es in Hr.
      subst r. exfalso. apply Hv. reflexivity.
Qed.

(* the automatic choice units_length = f"{prefix}m" is always an accepted unit *)
Lemma zdict_get_In {B} (d : list (Z * B)) k v : zdict_get d k = Some v -> In (k, v) d.
Proof.
  induction d as [|[k' w] d IH]; simpl; [discriminate|].
  destruct (zdict_get d k) as [u|] eqn:E.
  - intros H. inversion H; subst. right. apply IH. reflexivity.
  - destruct (k' =? k) eqn:E2; [|discriminate]. intros H. inversion H; subst.
    apply Z.eqb_eq in E2. subst. left. reflexivity.
Qed.

Lemma auto_unit_valid_lem (t : Z) : display_unit_factor (auto_units_length t) <> UF_invalid.
Proof.
  unfold auto_units_length, auto_prefix.
  destruct (zdict_get unit_prefix_table (auto_digits t)) as [p|] eqn:E.
  - apply zdict_get_In in E.
    assert (H : forallb (fun ep : Z * pystr =>
                  match display_unit_factor (snd ep ++ auto_unit_suffix) with UF_invalid => false | _ => true end)
                  unit_prefix_table = true) by (vm_compute; reflexivity).
    rewrite forallb_forall in H. specialize (H _ E). cbn [snd] in H.
    destruct (display_unit_factor (p ++ auto_unit_suffix)); congruence.
  - vm_compute. discriminate.
Qed.

(* the automatic unit never exceeds the magnitude: table key chosen = 3*floor(t/3) *)
Lemma auto_digits_spec t : auto_digits t <= t < auto_digits t + 3 /\ auto_digits t mod 3 = 0.
Proof.
  unfold auto_digits. pose proof (Z.div_mod t 3 ltac:(lia)). pose proof (Z.mod_pos_bound t 3 ltac:(lia)).
  split; [lia|]. apply Z.mod_mul. lia.
Qed.
