(* Preservation of the forest invariant by the building blocks: detach / attach / commit
   (the loop invariant J of BaseCollection.add), rec_obj_remover, remove. *)
From Coq Require Import List Bool Arith PeanoNat Lia.
From MV Require Import Model.ForestModel Model.ForestExec Proofs.ForestInv Proofs.ForestBase.
Import ListNotations.

(* ---------------------------------------------------------------- loop invariant of add
   D = arguments already given the parent c but not yet appended to c's children *)
Record J (s : state) (c : nat) (D : list nat) : Prop := mkJ {
  j_parent : forall x p, par s x = Some p ->
      p < length s /\ kd s p = KColl /\
      count x (chl s p) + (if Nat.eqb p c then count x D else 0) = 1;
  j_child : forall p x, In x (chl s p) -> x < length s /\ kd s x <> KJunk /\ par s x = Some p;
  j_pend : forall x, In x D -> x < length s /\ kd s x <> KJunk /\ par s x = Some c;
  j_leaf : forall i, kd s i <> KColl -> chl s i = [];
  j_acyclic : acyclic s;
  j_views : Views s }.

Lemma Inv_J s c : Inv s -> J s c [].
Proof.
  intros [H1 H2 H3 H4 H5]. split; auto.
  - intros x p Hp. destruct (H1 x p Hp) as (A & B & C). repeat split; auto.
    simpl. destruct (Nat.eqb p c); lia.
  - intros x [].
Qed.

Lemma J_Inv s c : J s c [] -> Inv s.
Proof.
  intros [H1 H2 H3 H4 H5 H6]. split; auto.
  intros x p Hp. destruct (H1 x p Hp) as (A & B & C). repeat split; auto.
  simpl in C. destruct (Nat.eqb p c); lia.
Qed.

Ltac eqb_true H :=
  let E := fresh "E" in apply andb_prop in H; destruct H as [H E]; apply Nat.eqb_eq in H.

(* ---------------------------------------------------------------- detach *)
Definition detach (s : state) (p o : nat) : state := set_parent (rm_at s p o) o None.

Lemma rm_at_setch s p x : rm_at s p x = setch s p (remove_first x (chl s p)).
Proof. reflexivity. Qed.

Lemma detach_length s p o : length (detach s p o) = length s.
Proof. unfold detach. rewrite sp_length, rm_at_setch, setch_length. reflexivity. Qed.
Lemma detach_kd s p o y : kd (detach s p o) y = kd s y.
Proof. unfold detach. rewrite sp_kd, rm_at_setch, setch_kd. reflexivity. Qed.
Lemma detach_par s p o y :
  par (detach s p o) y = if Nat.eqb y o && Nat.ltb o (length s) then None else par s y.
Proof. unfold detach. rewrite sp_par, rm_at_setch, setch_par, setch_length. reflexivity. Qed.
Lemma detach_chl s p o y :
  chl (detach s p o) y =
  if Nat.eqb y p && Nat.ltb p (length s) then remove_first o (chl s p) else chl s y.
Proof. unfold detach. rewrite sp_chl, rm_at_setch, setch_chl. reflexivity. Qed.

Lemma detach_sub s p o x q : par (detach s p o) x = Some q -> par s x = Some q.
Proof. rewrite detach_par. destruct (_ && _); congruence. Qed.

Lemma J_detach s c D p o : J s c D -> par s o = Some p -> ~ In o D -> J (detach s p o) c D.
Proof.
  intros [H1 H2 H3 H4 H5 H6] Hp HD.
  destruct (H1 o p Hp) as (Lp & Kp & Cp).
  assert (Co : count o (chl s p) = 1).
  { apply count_0 in HD. destruct (Nat.eqb p c); lia. }
  pose proof (par_lt _ _ _ Hp) as Lo.
  split.
  - intros x q Hq. rewrite detach_par in Hq.
    destruct (Nat.eqb x o && Nat.ltb o (length s)) eqn:E; [discriminate|].
    assert (Hxo : x <> o).
    { intros ->. rewrite Nat.eqb_refl in E. apply Nat.ltb_lt in Lo. rewrite Lo in E. discriminate. }
    destruct (H1 x q Hq) as (A & B & C). rewrite detach_length, detach_kd. repeat split; auto.
    rewrite detach_chl. destruct (Nat.eqb q p && Nat.ltb p (length s)) eqn:E2; auto.
    eqb_true E2. subst q. rewrite count_remove_first_other by auto. exact C.
  - intros q x Hx. rewrite detach_chl in Hx. rewrite detach_length, detach_kd, detach_par.
    destruct (Nat.eqb q p && Nat.ltb p (length s)) eqn:E2.
    + eqb_true E2. subst q. assert (Hxo : x <> o).
      { intros ->. apply count_pos in Hx. rewrite count_remove_first_same in Hx. lia. }
      apply In_remove_first in Hx. destruct (H2 p x Hx) as (A & B & C). repeat split; auto.
      destruct (Nat.eqb_spec x o); [contradiction|]. simpl. exact C.
    + destruct (H2 q x Hx) as (A & B & C). repeat split; auto.
      destruct (Nat.eqb_spec x o).
      * subst x. rewrite Hp in C. inversion C. subst q. rewrite Nat.eqb_refl in E2.
        apply Nat.ltb_lt in Lp. rewrite Lp in E2. discriminate.
      * simpl. exact C.
  - intros x Hx. destruct (H3 x Hx) as (A & B & C).
    rewrite detach_length, detach_kd, detach_par. repeat split; auto.
    destruct (Nat.eqb_spec x o); [subst; contradiction|]. simpl. exact C.
  - intros i Hi. rewrite detach_kd in Hi. rewrite detach_chl.
    destruct (Nat.eqb i p && Nat.ltb p (length s)) eqn:E2; auto.
    eqb_true E2. subst i. contradiction.
  - eapply acyclic_sub; [|exact H5]. intros x q. apply detach_sub.
  - unfold detach. apply views_set_parent. rewrite rm_at_setch. apply views_setch. exact H6.
Qed.

(* ---------------------------------------------------------------- attach (parent pointer only) *)
Lemma count_snoc x l o : count x (l ++ [o]) = count x l + (if Nat.eqb o x then 1 else 0).
Proof. rewrite count_app. simpl. lia. Qed.

Lemma J_attach s c D o : J s c D -> par s o = None -> o < length s -> kd s o <> KJunk ->
  ~ In o D -> c <> o -> ~ anc s c o -> c < length s -> kd s c = KColl ->
  J (set_parent s o (Some c)) c (D ++ [o]).
Proof.
  intros [H1 H2 H3 H4 H5 H6] Hp Lo Ko HD Hco Hanc Lc Kc.
  assert (Lo' : Nat.ltb o (length s) = true) by (apply Nat.ltb_lt; exact Lo).
  assert (Hnl : forall q, ~ In o (chl s q)).
  { intros q Hq. destruct (H2 q o Hq) as (_ & _ & C). congruence. }
  split.
  - intros x q Hq. rewrite sp_par in Hq. rewrite sp_length, sp_kd, sp_chl.
    destruct (Nat.eqb_spec x o).
    + subst x. rewrite Lo' in Hq. simpl in Hq. inversion Hq. subst q. repeat split; auto.
      rewrite Nat.eqb_refl. rewrite count_snoc, Nat.eqb_refl.
      pose proof (Hnl c) as N. apply count_0 in N. apply count_0 in HD. lia.
    + simpl in Hq. destruct (H1 x q Hq) as (A & B & C). repeat split; auto.
      rewrite count_snoc. destruct (Nat.eqb_spec o x); [congruence|].
      destruct (Nat.eqb q c); lia.
  - intros q x Hx. rewrite sp_chl in Hx. rewrite sp_length, sp_kd, sp_par.
    destruct (H2 q x Hx) as (A & B & C). repeat split; auto.
    destruct (Nat.eqb_spec x o); [subst; exfalso; eapply Hnl; eauto|]. simpl. exact C.
  - intros x Hx. rewrite sp_length, sp_kd, sp_par. apply in_app_or in Hx. destruct Hx as [Hx|[Hx|[]]].
    + destruct (H3 x Hx) as (A & B & C). repeat split; auto.
      destruct (Nat.eqb_spec x o); [subst; contradiction|]. simpl. exact C.
    + subst x. rewrite Nat.eqb_refl, Lo'. simpl. auto.
  - intros i Hi. rewrite sp_kd in Hi. rewrite sp_chl. auto.
  - apply acyclic_new_edge; auto.
  - apply views_set_parent. exact H6.
Qed.

(* ---------------------------------------------------------------- commit *)
Lemma J_commit s c D : J s c D -> Inv (setch s c (chl s c ++ D)).
Proof.
  intros [H1 H2 H3 H4 H5 H6]. split.
  - intros x q Hq. rewrite setch_par in Hq. rewrite setch_length, setch_kd, setch_chl.
    destruct (H1 x q Hq) as (A & B & C). repeat split; auto.
    destruct (Nat.eqb_spec q c).
    + subst q. apply Nat.ltb_lt in A. rewrite A. simpl. rewrite count_app. exact C.
    + simpl. lia.
  - intros q x Hx. rewrite setch_chl in Hx. rewrite setch_length, setch_kd, setch_par.
    destruct (Nat.eqb q c && Nat.ltb c (length s)) eqn:E.
    + eqb_true E. subst q. apply in_app_or in Hx. destruct Hx as [Hx|Hx]; auto.
    + auto.
  - intros i Hi. rewrite setch_kd in Hi. rewrite setch_chl.
    destruct (Nat.eqb i c && Nat.ltb c (length s)) eqn:E; auto.
    eqb_true E. subst i. rewrite (H4 c Hi). simpl. destruct D as [|d D]; auto.
    exfalso. destruct (H3 d (or_introl eq_refl)) as (_ & _ & C).
    destruct (H1 d c C) as (_ & K & _). contradiction.
  - eapply acyclic_sub; [|exact H5]. intros x q. rewrite setch_par. auto.
  - apply views_setch. exact H6.
Qed.
