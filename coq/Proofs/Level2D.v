(* Level-2 data flow, part D: path tiling = index clipping; sums of comprehension blocks;
   sensor back-rotation on pixel slices; pixel split/aggregation. *)
From Coq Require Import List Arith Bool Lia.
From MV Require Import Lib.ListZ Lib.Rigid Lib.ListIdx Model.Level2Model Proofs.Level2A.
Import ListNotations.

Section Tiling.
Context {A : Type} (d : A).

Lemma last_nth' (l : list A) : l <> [] -> last l d = nth (length l - 1) l d.
Proof.
  induction l as [|x [|y l] IH]; intros H; try congruence; auto.
  change (last (x :: y :: l) d) with (last (y :: l) d). rewrite IH by congruence.
  replace (length (x :: y :: l) - 1) with (S (length (y :: l) - 1)) by (simpl; lia). reflexivity.
Qed.

Lemma length_tile_path M (p : list A) : length p <= M -> length (tile_path d M p) = M.
Proof. intros H. unfold tile_path. rewrite app_length, repeat_length. lia. Qed.

Lemma nth_tile_path M (p : list A) m : 1 <= length p -> m < M ->
  nth m (tile_path d M p) d = clip_nth d p m.
Proof.
  intros Hp Hm. unfold tile_path, clip_nth.
  destruct (Nat.lt_ge_cases m (length p)) as [Hlt|Hge].
  - rewrite app_nth1 by exact Hlt. f_equal. lia.
  - rewrite app_nth2 by exact Hge. rewrite nth_repeat'.
    destruct (Nat.ltb_spec (m - length p) (M - length p)); [|lia].
    rewrite last_nth' by (destruct p; [simpl in Hp; lia|congruence]). f_equal. lia.
Qed.

Lemma clip_nth_lt (p : list A) m : m < length p -> clip_nth d p m = nth m p d.
Proof. intros H. unfold clip_nth. f_equal. lia. Qed.

End Tiling.

Section Sums.
Context {O : RigidOps}.

Lemma sum_blocks_comprehension {X} (f : X -> nat -> V -> V) (ls : list X) (pm : nat -> list V) M :
  ls <> [] ->
  sum_blocks (map (fun x => map (fun m => map (fun o => f x m o) (pm m)) (seq 0 M)) ls)
  = map (fun m => map (fun o => vsum (map (fun x => f x m o) ls)) (pm m)) (seq 0 M).
Proof.
  destruct ls as [|x r]; [congruence|intros _]. cbn [map sum_blocks vsum].
  generalize (f x) as a. induction r as [|y r IH]; intros a; [reflexivity|].
  cbn [map fold_left].
  assert (E : block_add (map (fun m => map (fun o => a m o) (pm m)) (seq 0 M))
                        (map (fun m => map (fun o => f y m o) (pm m)) (seq 0 M))
              = map (fun m => map (fun o => vadd (a m o) (f y m o)) (pm m)) (seq 0 M)).
  { unfold block_add. rewrite zip_with_map. apply map_ext. intros m. apply zip_with_map. }
  rewrite E. apply (IH (fun m o => vadd (a m o) (f y m o))).
Qed.

End Sums.

Section Slices.
Context {A : Type}.

Lemma upd_slice_app (f : A -> A) (pre mid post : list A) a b :
  length pre = a -> b = a + length mid ->
  upd_slice a b f (pre ++ mid ++ post) = pre ++ map f mid ++ post.
Proof.
  intros Ha Hb. unfold upd_slice. subst a b.
  rewrite firstn_app_exact, skipn_app_exact.
  replace (length pre + length mid - length pre) with (length mid) by lia.
  rewrite firstn_app_exact.
  rewrite (app_assoc pre mid post). replace (length pre + length mid) with (length (pre ++ mid)) by apply app_length.
  rewrite skipn_app_exact. reflexivity.
Qed.

Lemma mapi_map_seq {B C} (f : nat -> B -> C) (g : nat -> B) M :
  mapi f (map g (seq 0 M)) = map (fun m => f m (g m)) (seq 0 M).
Proof.
  unfold mapi. rewrite map_length, seq_length.
  rewrite <- (map_id (seq 0 M)) at 1. rewrite combine_map_same, map_map. reflexivity.
Qed.

End Slices.

Section Sensors.
Context {O : RigidOps}.
Variable P : Type.
Variable g_eqb : G -> G -> bool.
Variable flipx : V -> V.
Notation srcin := (@srcin O P).

(* what the three code paths + handedness do to one vector of sensor s at path index m *)
Definition mv (s0 s : sensor) (m : nat) (v : V) : V :=
  let w := if unrotated g_eqb s0 then v
           else act (ginv (if static_rot g_eqb s0 then nth 0 (s_ori s) gone else nth m (s_ori s) gone)) v in
  if s_left s then flipx w else w.

Lemma rotate_sensor_rows (s0 s : sensor) a (srcs : list srcin) M
      (pre mid post : srcin -> nat -> list V) :
  (forall src m, length (pre src m) = a) ->
  (forall src m, length (mid src m) = length (s_pix s)) ->
  rotate_sensor g_eqb flipx s0 s a (a + length (s_pix s))
    (map (fun src => map (fun m => pre src m ++ mid src m ++ post src m) (seq 0 M)) srcs)
  = map (fun src => map (fun m => pre src m ++ map (mv s0 s m) (mid src m) ++ post src m) (seq 0 M)) srcs.
Proof.
  intros Hpre Hmid. unfold rotate_sensor, mv.
  destruct (unrotated g_eqb s0).
  - destruct (s_left s).
    + rewrite map_map. apply map_ext. intros src. rewrite map_map. apply map_ext. intros m.
      apply upd_slice_app; [apply Hpre|rewrite Hmid; reflexivity].
    + apply map_ext. intros src. apply map_ext. intros m. rewrite map_id. reflexivity.
  - destruct (s_left s).
    + rewrite !map_map. apply map_ext. intros src. rewrite mapi_map_seq, map_map.
      apply map_ext. intros m.
      rewrite upd_slice_app by (try apply Hpre; rewrite Hmid; reflexivity).
      rewrite upd_slice_app by (try apply Hpre; rewrite map_length, Hmid; reflexivity).
      rewrite map_map. reflexivity.
    + rewrite map_map. apply map_ext. intros src. rewrite mapi_map_seq.
      apply map_ext. intros m.
      apply upd_slice_app; [apply Hpre|rewrite Hmid; reflexivity].
Qed.

Theorem rotate_sensors_rows (ss : list (sensor * sensor)) : forall a (srcs : list srcin) M
      (pre : srcin -> nat -> list V) (seg : sensor * sensor -> srcin -> nat -> list V),
  (forall src m, length (pre src m) = a) ->
  (forall p src m, In p ss -> length (seg p src m) = length (s_pix (snd p))) ->
  rotate_sensors g_eqb flipx ss a
    (map (fun src => map (fun m => pre src m ++ flat_map (fun p => seg p src m) ss) (seq 0 M)) srcs)
  = map (fun src => map (fun m => pre src m ++
                           flat_map (fun p => map (mv (fst p) (snd p) m) (seg p src m)) ss) (seq 0 M)) srcs.
Proof.
  induction ss as [|[s0 s] ss IH]; intros a srcs M pre seg Hpre Hseg; [reflexivity|].
  cbn [rotate_sensors flat_map fst snd].
  rewrite (rotate_sensor_rows s0 s a srcs M pre (seg (s0, s))
             (fun src m => flat_map (fun p => seg p src m) ss)).
  - pose proof (IH (a + length (s_pix s)) srcs M
                   (fun src m => pre src m ++ map (mv s0 s m) (seg (s0, s) src m)) seg) as H.
    erewrite map_ext; [rewrite H|].
    + apply map_ext. intros src. apply map_ext. intros m. rewrite <- app_assoc. reflexivity.
    + intros src m. rewrite app_length, map_length, Hpre.
      rewrite (Hseg (s0, s) src m (or_introl eq_refl)). reflexivity.
    + intros p src m Hp. apply Hseg. right. exact Hp.
    + intros src. cbn beta. apply map_ext. intros m. rewrite <- app_assoc. reflexivity.
  - exact Hpre.
  - intros src m. apply (Hseg (s0, s) src m). left. reflexivity.
Qed.

End Sensors.

Section Pixels.
Context {O : RigidOps}.

Lemma shape_row_split (sens : list sensor) (vals : sensor -> list V) :
  (forall s, In s sens -> length (vals s) = length (s_pix s)) ->
  (all_same (map s_shape sens) = true ->
     forall s, In s sens -> length (s_pix s) = length (s_pix (hd s sens))) ->
  (if all_same (map s_shape sens)
   then chunks (hd 0 (map (fun s => length (s_pix s)) sens)) (length sens)
   else split_lens (map (fun s => length (s_pix s)) sens)) (flat_map vals sens)
  = map vals sens.
Proof.
  intros Hlen Hsame. destruct (all_same (map s_shape sens)) eqn:E.
  - destruct sens as [|s0 sens]; [reflexivity|].
    apply chunks_flat_map. intros s Hs. rewrite Hlen by exact Hs.
    cbn [map hd]. apply (Hsame eq_refl s Hs).
  - erewrite map_ext_in; [apply split_lens_flat_map|].
    intros s Hs. cbn beta. symmetry. apply Hlen. exact Hs.
Qed.

End Pixels.
