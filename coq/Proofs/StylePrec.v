(* C20 -- precedence show keyword > object > family default > base default, on the whole generated schema *)
From Coq Require Import ZArith List Bool String Ascii.
From MV Require Import Lib.STree Model.StyleModel Gen.GenStyle Model.StyleExec Model.StyleSpec.
Import ListNotations.
Open Scope string_scope.
Open Scope list_scope.

Lemma forallb_In {A} (f : A -> bool) l x : forallb f l = true -> In x l -> f x = true.
Proof. intros H Hx. exact (proj1 (forallb_forall f l) H x Hx). Qed.

Ltac fa H x Hx := let H' := fresh in pose proof (forallb_In _ _ x H Hx) as H'; cbv beta in H'; clear H; rename H' into H.

Lemma prec_all_ok : prec_all = true.
Proof. vm_compute. reflexivity. Qed.

Lemma prec_forall cls p k src nested n :
  In cls public_classes -> In (p, k, false) (sleaves (class_schema cls)) -> prec_leaf k p = true ->
  shadowed (class_schema cls) p = false -> In src all_sources -> In (nested, n) prec_variants ->
  prec_holds cls p (sv k 0) (sv k 1) (sv k 2) (sv k 3) src nested n = true.
Proof.
  intros H1 H2 Hl Hs H3 H4. pose proof prec_all_ok as H. unfold prec_all in H.
  fa H cls H1. fa H (p, k, false) H2.
  apply orb_prop in H. destruct H as [Hc|H]; [apply orb_prop in Hc; destruct Hc as [Hc|Hc];
                                              [apply orb_prop in Hc; destruct Hc as [Hc|Hc]|]|].
  - assert (X : negb (prec_leaf k p) = true) by exact Hc. rewrite Hl in X. discriminate X.
  - discriminate Hc.
  - assert (X : shadowed (class_schema cls) p = true) by exact Hc. rewrite Hs in X. discriminate X.
  - fa H src H3. fa H (nested, n) H4. exact H.
Qed.

(* show(cuboid, style_magnetization_arrow_size=2) on a cuboid whose arrow size was set to 0.5: resolves to 0.5 *)
Lemma prec_alias_witness :
  prec_holds "Cuboid" ["magnetization"; "arrow"; "size"] (VInt 2) (VFlt 1 2) (VInt 0) (VInt 2)
             (mkSrc true true false false) false NAttr = false.
Proof. vm_compute. reflexivity. Qed.
