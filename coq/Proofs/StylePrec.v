(* C20 -- precedence show keyword > object > own family default > generic family default > base default,
   on the whole generated schema *)
From Coq Require Import ZArith List Bool String Ascii.
From MV Require Import Lib.STree Model.StyleModel Gen.GenStyle Model.StyleExec Model.StyleSpec.
Import ListNotations.
Open Scope string_scope.
Open Scope list_scope.

Lemma prec_all_ok : prec_all = true.
Proof. vm_cast_no_check (eq_refl true). Qed.

(* `label` is a leaf of every style; as long as the DEFAULTS literal does not list it, show(obj, style_label=..)
   is rejected: validate_style_keys only knows the first-level keys of the literal.  (Once the literal lists it,
   the hypothesis is false and `label` is covered by prec_all like every other leaf.) *)
Lemma show_label_witness :
  smem "label" valid_keys = false ->
  snd (get_style colors (class_schema "Cuboid") (class_families "Cuboid") dstyle_schema
                 (def_style_state pristine) valid_keys (fresh_state (class_schema "Cuboid"))
                 (show_style_kwargs [("style_label", Leaf (Some (VStr "lbl")))])) = Some EValue
  /\ has_leaf (class_schema "Cuboid") ["label"] = true.
Proof.
  intros H. vm_compute in H.
  first [discriminate H | split; vm_compute; reflexivity].
Qed.
