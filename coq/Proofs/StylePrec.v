(* C20 -- precedence show keyword > object > own family default > generic family default > base default,
   on the whole generated schema *)
From Coq Require Import ZArith List Bool String Ascii.
From MV Require Import Lib.STree Model.StyleModel Gen.GenStyle Model.StyleExec Model.StyleSpec.
Import ListNotations.
Open Scope string_scope.
Open Scope list_scope.

Lemma prec_all_ok : prec_all = true.
Proof. vm_cast_no_check (eq_refl true). Qed.

(* show() accepts style_label: `label` is among the first-level keys of the DEFAULTS literal, so it is one of
   the leaves prec_all ranges over (for every class) *)
Lemma show_label_covered :
  smem "label" valid_keys = true /\ prec_leaf KToStr ["label"] = true /\
  In "Cuboid" public_classes /\ In (["label"], KToStr, false) (sleaves (class_schema "Cuboid")) /\
  prec_holds "Cuboid" ["label"] (VStr "shown") (VStr "own") (VStr "fam") (VStr "gen") (VStr "base")
             (mkSrc true true false false true) false NAttr = true.
Proof.
  split; [vm_compute; reflexivity|]. split; [vm_compute; reflexivity|].
  split; [vm_compute; tauto|].
  split; [apply (nth_error_In _ (leaf_index (class_schema "Cuboid") ["label"])); vm_compute; reflexivity|].
  vm_compute. reflexivity.
Qed.
