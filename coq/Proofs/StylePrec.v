(* C20 -- precedence show keyword > object > own family default > generic family default > base default,
   on the whole generated schema *)
From Coq Require Import ZArith List Bool String Ascii.
From MV Require Import Lib.STree Model.StyleModel Gen.GenStyle Model.StyleExec Model.StyleSpec.
Import ListNotations.
Open Scope string_scope.
Open Scope list_scope.

Lemma prec_all_ok : prec_all = true.
Proof. vm_cast_no_check (eq_refl true). Qed.

(* show() accepts style_label: `label` is among the first-level keys of the DEFAULTS literal, so it is one of
   the leaves prec_all ranges over (for every class) *)
Lemma show_label_covered :
  smem "label" valid_keys = true /\ prec_leaf KToStr ["label"] = true /\
  In "Cuboid" public_classes /\ In (["label"], KToStr, false) (sleaves (class_schema "Cuboid")) /\
  prec_holds "Cuboid" ["label"] (VStr "shown") (VStr "own") (VStr "fam") (VStr "gen") (VStr "base")
             (mkSrc true true false false true) false NAttr = true.
Proof.
  split; [vm_compute; reflexivity|]. split; [vm_compute; reflexivity|].
  split; [vm_compute; tauto|].
  split; [apply (nth_error_In _ (leaf_index (class_schema "Cuboid") ["label"])); vm_compute; reflexivity|].
  vm_compute. reflexivity.
Qed.

(* a new object's style holds no value: all constructor defaults of the style classes are None, except the listed
   ones; and every leaf of a new style reads None, with the same exceptions *)
Lemma ctor_defaults_ok_ok : ctor_defaults_ok = true.
Proof. vm_compute. reflexivity. Qed.

Lemma fresh_all_ok : fresh_all = true.
Proof. vm_compute. reflexivity. Qed.

(* the exceptions violate the precedence clause: with ONLY the family default of sensor.pixel.size set (to 2),
   a new Sensor resolves pixel.size to its constructor default 1 *)
Lemma ctor_default_witness :
  prec_holds "Sensor" ["pixel"; "size"] (VInt 3) (VInt 4) (VInt 2) (VInt 5) (VInt 6)
             (mkSrc false false true false false) false NAttr = false /\
  leaf_is (class_schema "Sensor") (fresh_state (class_schema "Sensor")) ["pixel"; "size"] (Some (VInt 1)) = true.
Proof. split; vm_compute; reflexivity. Qed.
