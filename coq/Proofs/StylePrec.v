(* C20 -- precedence show keyword > object > family default > base default, on the whole generated schema *)
From Coq Require Import ZArith List Bool String Ascii.
From MV Require Import Lib.STree Model.StyleModel Gen.GenStyle Model.StyleExec Model.StyleSpec.
Import ListNotations.
Open Scope string_scope.
Open Scope list_scope.

Lemma prec_all_ok : prec_all = true.
Proof. vm_cast_no_check (eq_refl true). Qed.

(* show(cuboid, style_magnetization_arrow_size=2) on a cuboid whose arrow size was set to 0.5: resolves to 0.5 *)
Lemma prec_alias_witness :
  prec_holds "Cuboid" ["magnetization"; "arrow"; "size"] (VInt 2) (VFlt 1 2) (VInt 0) (VInt 2)
             (mkSrc true true false false) false NAttr = false.
Proof. vm_compute. reflexivity. Qed.
