(* C20 -- precedence show keyword > object > own family default > generic family default > base default,
   on the whole generated schema *)
From Coq Require Import ZArith List Bool String Ascii.
From MV Require Import Lib.STree Model.StyleModel Gen.GenStyle Model.StyleExec Model.StyleSpec.
Import ListNotations.
Open Scope string_scope.
Open Scope list_scope.

Lemma prec_all_ok : prec_all = true.
Proof. vm_cast_no_check (eq_refl true). Qed.

(* `label` is a leaf of every style, but show(obj, style_label=..) is rejected: validate_style_keys only knows
   the first-level keys of the DEFAULTS literal, which has no `label` *)
Lemma show_label_witness :
  snd (get_style colors (class_schema "Cuboid") (class_families "Cuboid") dstyle_schema
                 (def_style_state pristine) valid_keys (fresh_state (class_schema "Cuboid"))
                 (show_style_kwargs [("style_label", Leaf (Some (VStr "lbl")))])) = Some EValue
  /\ has_leaf (class_schema "Cuboid") ["label"] = true.
Proof. split; vm_compute; reflexivity. Qed.
