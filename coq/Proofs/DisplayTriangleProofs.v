(* C19 -- make_Triangle: the un-thickened branch is exact; the thickened branch leaves the surface at large scale *)
From Coq Require Import ZArith List Bool Lia.
From MV Require Import Lib.OctZ Model.DisplayExec Model.DisplayTriangle.
Import ListNotations.
Open Scope Z_scope.

Lemma dot3_cross_self_l a b : dot3 (cross3 a b) a = 0.
Proof. destruct a as [[a0 a1] a2], b as [[b0 b1] b2]. unfold dot3, cross3. ring. Qed.

(* not thickened: the three drawn vertices are the facet's vertices (times 1000), exactly in its plane *)
Lemma triangle_plain_exact_lem mag v0 v1 v2 :
  tri_thickened mag v0 v1 v2 = false ->
  make_triangle_x1000 mag v0 v1 v2 = [v3smul 1000 v0; v3smul 1000 v1; v3smul 1000 v2] /\
  Forall (fun d => dot3 (tri_vec v0 v1 v2) (v3sub d (v3smul 1000 v0)) = 0) (make_triangle_x1000 mag v0 v1 v2).
Proof.
  intros H. unfold make_triangle_x1000. rewrite H. split; [reflexivity|].
  destruct v0 as [[x0 y0] z0], v1 as [[x1 y1] z1], v2 as [[x2 y2] z2].
  repeat constructor; unfold tri_vec, cross3, v3sub, v3add, v3neg, v3smul, dot3; ring.
Qed.

(* thickened: every drawn vertex is off the plane by exactly |vec|^2 (in units of 1e-3 |vec|): an AREA used as
   a length *)
Lemma triangle_thick_offset_lem mag v0 v1 v2 d :
  tri_thickened mag v0 v1 v2 = true -> In d (make_triangle_x1000 mag v0 v1 v2) ->
  let n := tri_vec v0 v1 v2 in
  dot3 n (v3sub d (v3smul 1000 v0)) = dot3 n n \/ dot3 n (v3sub d (v3smul 1000 v0)) = - dot3 n n.
Proof.
  intros H Hin. unfold make_triangle_x1000 in Hin. rewrite H in Hin.
  destruct v0 as [[x0 y0] z0], v1 as [[x1 y1] z1], v2 as [[x2 y2] z2].
  cbn [In] in Hin.
  destruct Hin as [<-|[<-|[<-|[<-|[<-|[<-|[]]]]]]];
    unfold tri_vec, cross3, v3sub, v3add, v3neg, v3smul, dot3; [right|right|right|left|left|left]; ring.
Qed.

(* REFUTED: "the drawn vertices of a Triangle lie on its surface (within 4e-3 of its size)" *)
Lemma triangle_on_surface_refuted_lem :
  ~ (forall mag v0 v1 v2, triangle_on_surface mag v0 v1 v2 = true).
Proof.
  intros H. specialize (H (0, 0, 1) (0, 0, 0) (100, 0, 0) (0, 100, 0)). vm_compute in H. discriminate.
Qed.

(* at size ~1 the same facet passes: the defect is the scale law, not the hack as such *)
Lemma triangle_unit_size_ok : triangle_on_surface (0, 0, 1) (0, 0, 0) (1, 0, 0) (0, 1, 0) = true.
Proof. vm_compute. reflexivity. Qed.
