(* C19 -- make_Triangle (code as of 2fa0af8): both branches, offset, on-surface bound, scale law *)
From Coq Require Import ZArith List Bool Lia Psatz.
From MV Require Import Lib.OctZ Model.DisplayExec Model.DisplayTriangle.
Import ListNotations.
Open Scope Z_scope.

Lemma plane1 v0 v1 v2 : dot3 (tri_vec v0 v1 v2) (v3sub v1 v0) = 0.
Proof. destruct v0 as [[x0 y0] z0], v1 as [[x1 y1] z1], v2 as [[x2 y2] z2].
  unfold tri_vec, cross3, v3sub, v3add, v3neg, dot3. ring. Qed.
Lemma plane2 v0 v1 v2 : dot3 (tri_vec v0 v1 v2) (v3sub v2 v0) = 0.
Proof. destruct v0 as [[x0 y0] z0], v1 as [[x1 y1] z1], v2 as [[x2 y2] z2].
  unfold tri_vec, cross3, v3sub, v3add, v3neg, dot3. ring. Qed.
Lemma plane0 n v0 : dot3 n (v3sub v0 v0) = 0.
Proof. destruct n as [[a b] c], v0 as [[x0 y0] z0]. unfold v3sub, v3add, v3neg, dot3. ring. Qed.

Lemma dot_plus n v v0 e :
  dot3 n (v3sub (v3add (v3smul 1000 v) e) (v3smul 1000 v0)) = 1000 * dot3 n (v3sub v v0) + dot3 n e.
Proof. destruct n as [[a b] c], v as [[x y] z], v0 as [[x0 y0] z0], e as [[e0 e1] e2].
  unfold v3sub, v3add, v3neg, v3smul, dot3. ring. Qed.
Lemma dot_minus n v v0 e :
  dot3 n (v3sub (v3sub (v3smul 1000 v) e) (v3smul 1000 v0)) = 1000 * dot3 n (v3sub v v0) - dot3 n e.
Proof. destruct n as [[a b] c], v as [[x y] z], v0 as [[x0 y0] z0], e as [[e0 e1] e2].
  unfold v3sub, v3add, v3neg, v3smul, dot3. ring. Qed.
Lemma dot_smul n q e : q * dot3 n e = dot3 n (v3smul q e).
Proof. destruct n as [[a b] c], e as [[e0 e1] e2]. unfold v3smul, dot3. ring. Qed.

(* not thickened: the three drawn vertices are the facet's vertices (times 1000), exactly in its plane *)
Lemma triangle_plain_exact_lem mag v0 v1 v2 :
  tri_thickened mag v0 v1 v2 = false ->
  make_triangle_x1000 mag v0 v1 v2 = Some [v3smul 1000 v0; v3smul 1000 v1; v3smul 1000 v2] /\
  Forall (fun d => dot3 (tri_vec v0 v1 v2) (v3sub d (v3smul 1000 v0)) = 0)
         [v3smul 1000 v0; v3smul 1000 v1; v3smul 1000 v2].
Proof.
  intros H. unfold make_triangle_x1000. rewrite H. split; [reflexivity|].
  destruct v0 as [[x0 y0] z0], v1 as [[x1 y1] z1], v2 as [[x2 y2] z2].
  repeat constructor; unfold tri_vec, cross3, v3sub, v3add, v3neg, v3smul, dot3; ring.
Qed.

Lemma tri_repr_spec v0 v1 v2 : tri_repr v0 v1 v2 = true ->
  let q := tri_root v0 v1 v2 in
  0 < q /\ q * q * (q * q) = tri_nn v0 v1 v2 /\
  v3smul q (v3div (tri_vec v0 v1 v2) q) = tri_vec v0 v1 v2.
Proof.
  unfold tri_repr. intros H. apply andb_true_iff in H as [H H3]. apply andb_true_iff in H as [H1 H2].
  apply Z.ltb_lt in H1. apply Z.eqb_eq in H2. apply v3eqb_eq in H3. auto.
Qed.

(* thickened (representable facet): every drawn vertex is off the plane by 1e-3 * sqrt|vec|:
   q * (n . (d - 1000 v0)) = +- |vec|^2  with q = sqrt|vec|, i.e. the distance times 1000 is |vec| / q = q *)
Lemma triangle_thick_offset_lem mag v0 v1 v2 l d :
  tri_thickened mag v0 v1 v2 = true -> make_triangle_x1000 mag v0 v1 v2 = Some l -> In d l ->
  let n := tri_vec v0 v1 v2 in let q := tri_root v0 v1 v2 in
  0 < q /\ q * q * (q * q) = dot3 n n /\
  (q * dot3 n (v3sub d (v3smul 1000 v0)) = dot3 n n \/ q * dot3 n (v3sub d (v3smul 1000 v0)) = - dot3 n n).
Proof.
  intros H Hm Hin. unfold make_triangle_x1000 in Hm. rewrite H in Hm.
  destruct (tri_repr v0 v1 v2) eqn:Hr; [|discriminate].
  apply tri_repr_spec in Hr. cbv zeta in Hr. destruct Hr as [Hq [Hq4 Hdiv]].
  inversion Hm; subst l; clear Hm. cbv zeta. split; [exact Hq|]. split; [exact Hq4|].
  set (n := tri_vec v0 v1 v2) in *. set (q := tri_root v0 v1 v2) in *. set (e := v3div n q) in *.
  assert (He : q * dot3 n e = dot3 n n) by (rewrite dot_smul, Hdiv; reflexivity).
  pose proof (plane1 v0 v1 v2) as P1. pose proof (plane2 v0 v1 v2) as P2. pose proof (plane0 n v0) as P0.
  fold n in P1, P2.
  cbn [In] in Hin.
  destruct Hin as [<-|[<-|[<-|[<-|[<-|[<-|[]]]]]]];
    rewrite ?dot_plus, ?dot_minus, ?P0, ?P1, ?P2; [right|right|right|left|left|left]; lia.
Qed.

(* |vec|^2 <= 12 L^4 for EVERY facet (L = largest coordinate extent) *)
Lemma sq_bound L x y u w : 0 <= L -> -L <= x <= L -> -L <= y <= L -> -L <= u <= L -> -L <= w <= L ->
  (x * y - u * w) * (x * y - u * w) <= 4 * (L * L) * (L * L).
Proof.
  intros HL Hx Hy Hu Hw.
  assert (A : - (L * L) <= x * y <= L * L) by nia.
  assert (B : - (L * L) <= u * w <= L * L) by nia.
  set (p := x * y) in *. set (r := u * w) in *. set (M := L * L) in *. nia.
Qed.

Lemma ext3_bound a b c : let e := ext3 a b c in 0 <= e /\ -e <= b - a <= e /\ -e <= c - b <= e /\ -e <= c - a <= e.
Proof. unfold ext3. lia. Qed.

Lemma tri_nn_bound v0 v1 v2 :
  tri_nn v0 v1 v2 <= 12 * (tri_size v0 v1 v2 * tri_size v0 v1 v2) * (tri_size v0 v1 v2 * tri_size v0 v1 v2)
  /\ 0 <= tri_size v0 v1 v2.
Proof.
  destruct v0 as [[x0 y0] z0], v1 as [[x1 y1] z1], v2 as [[x2 y2] z2].
  unfold tri_nn, tri_vec, cross3, v3sub, v3add, v3neg, dot3, tri_size.
  pose proof (ext3_bound x0 x1 x2) as Hx. pose proof (ext3_bound y0 y1 y2) as Hy. pose proof (ext3_bound z0 z1 z2) as Hz.
  cbv zeta in Hx, Hy, Hz.
  set (L := Z.max (ext3 x0 x1 x2) (Z.max (ext3 y0 y1 y2) (ext3 z0 z1 z2))).
  assert (HL : 0 <= L) by (unfold L; lia).
  assert (Ax : -L <= x1 + - x0 <= L) by (unfold L; lia). assert (Bx : -L <= x2 + - x1 <= L) by (unfold L; lia).
  assert (Ay : -L <= y1 + - y0 <= L) by (unfold L; lia). assert (By : -L <= y2 + - y1 <= L) by (unfold L; lia).
  assert (Az : -L <= z1 + - z0 <= L) by (unfold L; lia). assert (Bz : -L <= z2 + - z1 <= L) by (unfold L; lia).
  pose proof (sq_bound L _ _ _ _ HL Ay Bz Az By) as S1.
  pose proof (sq_bound L _ _ _ _ HL Az Bx Ax Bz) as S2.
  pose proof (sq_bound L _ _ _ _ HL Ax By Ay Bx) as S3.
  split; [|exact HL]. lia.
Qed.

(* POSITIVE (replaces the refutation of the old code): every drawn vertex of a representable facet, in either
   branch, at EVERY size, is within 4e-3 x size of the facet's plane *)
Lemma triangle_on_surface_lem mag v0 v1 v2 l :
  make_triangle_x1000 mag v0 v1 v2 = Some l -> forallb (near_plane v0 v1 v2) l = true.
Proof.
  intros Hm. apply forallb_forall. intros d Hd. unfold near_plane. apply Z.leb_le.
  pose proof (tri_nn_bound v0 v1 v2) as [Hb HL]. unfold tri_nn in Hb.
  set (L := tri_size v0 v1 v2) in *. set (n := tri_vec v0 v1 v2) in *.
  destruct (tri_thickened mag v0 v1 v2) eqn:Ht.
  - destruct (triangle_thick_offset_lem mag v0 v1 v2 l d Ht Hm Hd) as [Hq [Hq4 Ho]].
    fold n in Hq4, Ho. set (q := tri_root v0 v1 v2) in *.
    set (o := dot3 n (v3sub d (v3smul 1000 v0))) in *. set (N := dot3 n n) in *.
    assert (Hqo : q * o * (q * o) = N * N) by (destruct Ho as [-> | ->]; ring).
    (* q^2 <= 16 L^2 because q^4 = N <= 12 L^4 *)
    assert (Hq2 : q * q <= 4 * (L * L)).
    { destruct (Z_le_gt_dec (q * q) (4 * (L * L))) as [Hle|Hgt]; [exact Hle|]. exfalso.
      assert (4 * (L * L) + 1 <= q * q) by lia.
      assert ((4 * (L * L) + 1) * (4 * (L * L) + 1) <= q * q * (q * q)) by nia. nia. }
    (* o^2 * q^2 = N^2 = N * q^4  =>  o^2 = N * q^2 *)
    assert (Ho2 : o * o = N * (q * q)).
    { assert (q * q * (o * o) = q * q * (N * (q * q))).
      { replace (q * q * (N * (q * q))) with (N * (q * q * (q * q))) by ring. rewrite Hq4. rewrite <- Hqo. ring. }
      apply Z.mul_reg_l with (q * q); [nia|assumption]. }
    rewrite Ho2. assert (HN : 0 <= N) by (rewrite <- Hq4; nia).
    apply Z.le_trans with (N * (4 * (L * L))); [apply Z.mul_le_mono_nonneg_l; assumption|].
    assert (0 <= N * (L * L)) by (apply Z.mul_nonneg_nonneg; nia). lia.
  - destruct (triangle_plain_exact_lem mag v0 v1 v2 Ht) as [E F]. rewrite E in Hm. inversion Hm; subst l.
    rewrite Forall_forall in F. fold n in F. rewrite (F d Hd).
    assert (0 <= dot3 n n) by (destruct n as [[a b] c]; unfold dot3; nia).
    change (0 * 0) with 0. apply Z.mul_nonneg_nonneg; [|assumption].
    apply Z.mul_nonneg_nonneg; [|assumption]. lia.
Qed.

(* SCALE LAW: rescaling a representable facet by an integer s > 0 rescales the whole drawn model -- offset
   included -- by s *)
Lemma tri_vec_scale s v0 v1 v2 :
  tri_vec (scale_facet s v0) (scale_facet s v1) (scale_facet s v2) = v3smul (s * s) (tri_vec v0 v1 v2).
Proof. destruct v0 as [[x0 y0] z0], v1 as [[x1 y1] z1], v2 as [[x2 y2] z2].
  unfold scale_facet, tri_vec, cross3, v3sub, v3add, v3neg, v3smul. apply v3_ext; ring. Qed.

Lemma cross_smul_r m k n : cross3 m (v3smul k n) = v3smul k (cross3 m n).
Proof. destruct m as [[a b] c], n as [[x y] z]. unfold cross3, v3smul. apply v3_ext; ring. Qed.

Lemma v3smul_zero_iff k v : k <> 0 -> (v3smul k v = (0, 0, 0) <-> v = (0, 0, 0)).
Proof. destruct v as [[x y] z]. unfold v3smul. intros Hk. split; intros H; inversion H.
  - f_equal; [f_equal|]; nia.
  - f_equal; [f_equal|]; ring. Qed.

Lemma smul_comm_1000 s v : v3smul 1000 (scale_facet s v) = v3smul s (v3smul 1000 v).
Proof. destruct v as [[x y] z]. unfold scale_facet, v3smul. apply v3_ext; ring. Qed.
Lemma smul_add s a b : v3add (v3smul s a) (v3smul s b) = v3smul s (v3add a b).
Proof. destruct a as [[x y] z], b as [[x' y'] z']. unfold v3smul, v3add. apply v3_ext; ring. Qed.
Lemma smul_sub s a b : v3sub (v3smul s a) (v3smul s b) = v3smul s (v3sub a b).
Proof. destruct a as [[x y] z], b as [[x' y'] z']. unfold v3smul, v3sub, v3add, v3neg. apply v3_ext; ring. Qed.

Lemma triangle_scale_law_lem s mag v0 v1 v2 l : 0 < s ->
  make_triangle_x1000 mag v0 v1 v2 = Some l ->
  make_triangle_x1000 mag (scale_facet s v0) (scale_facet s v1) (scale_facet s v2) = Some (map (v3smul s) l).
Proof.
  intros Hs Hm. unfold make_triangle_x1000 in *.
  assert (Hth : tri_thickened mag (scale_facet s v0) (scale_facet s v1) (scale_facet s v2) = tri_thickened mag v0 v1 v2).
  { unfold tri_thickened. rewrite tri_vec_scale, cross_smul_r.
    destruct (v3eqb (cross3 mag (tri_vec v0 v1 v2)) (0, 0, 0)) eqn:E.
    - apply v3eqb_eq in E. rewrite E. apply v3eqb_eq. unfold v3smul. f_equal; [f_equal|]; ring.
    - destruct (v3eqb (v3smul (s * s) (cross3 mag (tri_vec v0 v1 v2))) (0, 0, 0)) eqn:E2; [|reflexivity].
      apply v3eqb_eq in E2. apply v3smul_zero_iff in E2; [|nia]. apply v3eqb_eq in E2. congruence. }
  rewrite Hth. destruct (tri_thickened mag v0 v1 v2).
  2:{ inversion Hm; subst l. cbn [map]. rewrite !smul_comm_1000. reflexivity. }
  destruct (tri_repr v0 v1 v2) eqn:Hr; [|discriminate].
  pose proof (tri_repr_spec _ _ _ Hr) as Hspec. cbv zeta in Hspec. destruct Hspec as [Hq [Hq4 Hdiv]].
  set (n := tri_vec v0 v1 v2) in *. set (q := tri_root v0 v1 v2) in *. set (e := v3div n q) in *.
  assert (Hnn : tri_nn (scale_facet s v0) (scale_facet s v1) (scale_facet s v2) = (s * q) * (s * q) * ((s * q) * (s * q))).
  { unfold tri_nn. rewrite tri_vec_scale. fold n. unfold tri_nn in Hq4. fold n in Hq4.
    destruct n as [[a b] c]. unfold v3smul, dot3 in *. nia. }
  assert (Hroot : tri_root (scale_facet s v0) (scale_facet s v1) (scale_facet s v2) = s * q).
  { unfold tri_root. rewrite Hnn. rewrite Z.sqrt_square by nia. apply Z.sqrt_square. nia. }
  assert (Hdiv' : v3div (tri_vec (scale_facet s v0) (scale_facet s v1) (scale_facet s v2)) (s * q) = v3smul s e).
  { rewrite tri_vec_scale. fold n. rewrite <- Hdiv. destruct e as [[e0 e1] e2]. unfold v3smul, v3div.
    apply v3_ext.
    - replace (s * s * (q * e0)) with (s * e0 * (s * q)) by ring. apply Z.div_mul. nia.
    - replace (s * s * (q * e1)) with (s * e1 * (s * q)) by ring. apply Z.div_mul. nia.
    - replace (s * s * (q * e2)) with (s * e2 * (s * q)) by ring. apply Z.div_mul. nia. }
  assert (Hr' : tri_repr (scale_facet s v0) (scale_facet s v1) (scale_facet s v2) = true).
  { unfold tri_repr. rewrite Hroot, Hnn, Hdiv'. rewrite tri_vec_scale. fold n.
    apply andb_true_iff. split; [apply andb_true_iff; split|].
    - apply Z.ltb_lt. nia.
    - apply Z.eqb_eq. reflexivity.
    - apply v3eqb_eq. rewrite <- Hdiv. destruct e as [[e0 e1] e2]. unfold v3smul. apply v3_ext; ring. }
  rewrite Hr', Hroot, Hdiv'. inversion Hm; subst l. cbn [map].
  rewrite !smul_comm_1000, !smul_add, !smul_sub. reflexivity.
Qed.

(* non-vacuity: representable thickened facets exist, in and out of the coordinate planes *)
Lemma triangle_examples :
  make_triangle_x1000 (0, 0, 1) (0, 0, 0) (100, 0, 0) (0, 100, 0)
    = Some [(0, 0, -100); (100000, 0, -100); (0, 100000, -100); (0, 0, 100); (100000, 0, 100); (0, 100000, 100)] /\
  tri_vec (0, 0, 0) (21, -14, 0) (21, -12, -1) = (14, 21, 42) /\
  make_triangle_x1000 (0, 0, 0) (0, 0, 0) (21, -14, 0) (21, -12, -1)
    = Some [(-2, -3, -6); (20998, -14003, -6); (20998, -12003, -1006);
            (2, 3, 6); (21002, -13997, 6); (21002, -11997, -994)].
Proof. vm_compute. repeat split; reflexivity. Qed.

(* RECORD: the code before 2fa0af8 drew the same facet 10 units (10% of its size) off its plane *)
Lemma triangle_pre_2fa0af8_record :
  existsb (fun d => negb (near_plane (0, 0, 0) (100, 0, 0) (0, 100, 0) d))
          (make_triangle_pre_2fa0af8_x1000 (0, 0, 1) (0, 0, 0) (100, 0, 0) (0, 100, 0)) = true.
Proof. vm_compute. reflexivity. Qed.
