(* Basic facts about the store primitives of ForestModel (get / upd / set_parent / set_children /
   refresh / append) and about the ancestor relation. *)
From Coq Require Import List Bool Arith PeanoNat Lia.
From MV Require Import Model.ForestModel Model.ForestExec Proofs.ForestInv.
Import ListNotations.

Notation par s x := (parent (get s x)).
Notation chl s x := (children (get s x)).

(* ---------------------------------------------------------------- upd / get *)
Lemma upd_length s i f : length (upd s i f) = length s.
Proof. revert i; induction s as [|o r IH]; intros [|i]; simpl; auto. Qed.

Lemma get_upd s i f j :
  get (upd s i f) j = if Nat.eqb j i && Nat.ltb i (length s) then f (get s i) else get s j.
Proof.
  unfold get. revert i j; induction s as [|o r IH]; intros i j.
  - simpl. rewrite andb_false_r. destruct i; reflexivity.
  - destruct i as [|i], j as [|j]; simpl; try reflexivity.
    rewrite IH. reflexivity.
Qed.

Lemma get_oob s i : length s <= i -> get s i = junk_obj.
Proof. intros H. unfold get. apply nth_overflow. exact H. Qed.

Lemma par_lt s x p : par s x = Some p -> x < length s.
Proof.
  intros H. destruct (Nat.lt_ge_cases x (length s)) as [L|L]; auto.
  rewrite get_oob in H by exact L. discriminate.
Qed.

Lemma chl_lt s p x : In x (chl s p) -> p < length s.
Proof.
  intros H. destruct (Nat.lt_ge_cases p (length s)) as [L|L]; auto.
  rewrite get_oob in H by exact L. contradiction.
Qed.

Lemma get_app_l s t i : i < length s -> get (s ++ t) i = get s i.
Proof. intros H. unfold get. apply app_nth1. exact H. Qed.

Lemma get_app_new s o : get (s ++ [o]) (length s) = o.
Proof. unfold get. rewrite app_nth2 by lia. rewrite Nat.sub_diag. reflexivity. Qed.

(* ---------------------------------------------------------------- projections of the primitives *)
Lemma sp_length s x p : length (set_parent s x p) = length s.
Proof. apply upd_length. Qed.
Lemma sc_length s c l : length (set_children s c l) = length s.
Proof. apply upd_length. Qed.
Lemma rf_length s c : length (refresh s c) = length s.
Proof. apply upd_length. Qed.

Lemma sp_par s x p y :
  par (set_parent s x p) y = if Nat.eqb y x && Nat.ltb x (length s) then p else par s y.
Proof. unfold set_parent. rewrite get_upd. destruct (_ && _); reflexivity. Qed.
Lemma sp_chl s x p y : chl (set_parent s x p) y = chl s y.
Proof.
  unfold set_parent. rewrite get_upd. destruct (Nat.eqb y x && _) eqn:E; auto.
  apply andb_prop in E. destruct E as [E _]. apply Nat.eqb_eq in E. subst. reflexivity.
Qed.
Lemma sp_kd s x p y : kd (set_parent s x p) y = kd s y.
Proof.
  unfold kd, set_parent. rewrite get_upd. destruct (Nat.eqb y x && _) eqn:E; auto.
  apply andb_prop in E. destruct E as [E _]. apply Nat.eqb_eq in E. subst. reflexivity.
Qed.

Lemma sc_par s c l y : par (set_children s c l) y = par s y.
Proof.
  unfold set_children. rewrite get_upd. destruct (Nat.eqb y c && _) eqn:E; auto.
  apply andb_prop in E. destruct E as [E _]. apply Nat.eqb_eq in E. subst. reflexivity.
Qed.
Lemma sc_chl s c l y :
  chl (set_children s c l) y = if Nat.eqb y c && Nat.ltb c (length s) then l else chl s y.
Proof. unfold set_children. rewrite get_upd. destruct (_ && _); reflexivity. Qed.
Lemma sc_kd s c l y : kd (set_children s c l) y = kd s y.
Proof.
  unfold kd, set_children. rewrite get_upd. destruct (Nat.eqb y c && _) eqn:E; auto.
  apply andb_prop in E. destruct E as [E _]. apply Nat.eqb_eq in E. subst. reflexivity.
Qed.

Lemma rf_par s c y : par (refresh s c) y = par s y.
Proof.
  unfold refresh. rewrite get_upd. destruct (Nat.eqb y c && _) eqn:E; auto.
  apply andb_prop in E. destruct E as [E _]. apply Nat.eqb_eq in E. subst. reflexivity.
Qed.
Lemma rf_chl s c y : chl (refresh s c) y = chl s y.
Proof.
  unfold refresh. rewrite get_upd. destruct (Nat.eqb y c && _) eqn:E; auto.
  apply andb_prop in E. destruct E as [E _]. apply Nat.eqb_eq in E. subst. reflexivity.
Qed.
Lemma rf_kd s c y : kd (refresh s c) y = kd s y.
Proof.
  unfold kd, refresh. rewrite get_upd. destruct (Nat.eqb y c && _) eqn:E; auto.
  apply andb_prop in E. destruct E as [E _]. apply Nat.eqb_eq in E. subst. reflexivity.
Qed.

Lemma is_k_ext k s s' : (forall y, kd s' y = kd s y) -> forall y, is_k k s' y = is_k k s y.
Proof. intros H y. unfold is_k. rewrite H. reflexivity. Qed.

Lemma filter_is_k_ext k s s' l : (forall y, kd s' y = kd s y) ->
  filter (is_k k s') l = filter (is_k k s) l.
Proof. intros H. apply filter_ext. intros y. apply is_k_ext. exact H. Qed.

(* ---------------------------------------------------------------- the views clause *)
Definition Views (s : state) : Prop := forall c, views_ok s c.

Lemma views_oob s c : length s <= c -> views_ok s c.
Proof. intros H. unfold views_ok. rewrite get_oob by exact H. simpl. auto. Qed.

Lemma views_set_parent s x p : Views s -> Views (set_parent s x p).
Proof.
  intros H c. specialize (H c). unfold views_ok in *.
  rewrite !(filter_is_k_ext _ s (set_parent s x p)) by (intros; apply sp_kd).
  unfold set_parent. rewrite get_upd. destruct (Nat.eqb c x && _) eqn:E; auto.
  apply andb_prop in E. destruct E as [E _]. apply Nat.eqb_eq in E. subst. simpl. exact H.
Qed.

(* the combined primitive: assign the children list and refresh the typed lists *)
Definition setch (s : state) (c : nat) (l : list nat) : state := refresh (set_children s c l) c.

Lemma setch_length s c l : length (setch s c l) = length s.
Proof. unfold setch. rewrite rf_length, sc_length. reflexivity. Qed.
Lemma setch_par s c l y : par (setch s c l) y = par s y.
Proof. unfold setch. rewrite rf_par, sc_par. reflexivity. Qed.
Lemma setch_chl s c l y :
  chl (setch s c l) y = if Nat.eqb y c && Nat.ltb c (length s) then l else chl s y.
Proof. unfold setch. rewrite rf_chl, sc_chl. reflexivity. Qed.
Lemma setch_kd s c l y : kd (setch s c l) y = kd s y.
Proof. unfold setch. rewrite rf_kd, sc_kd. reflexivity. Qed.

Lemma views_setch s c l : Views s -> Views (setch s c l).
Proof.
  intros H d. specialize (H d). unfold views_ok in *.
  rewrite !(filter_is_k_ext _ s (setch s c l)) by (intros; apply setch_kd).
  unfold setch, refresh. rewrite get_upd. rewrite sc_length.
  destruct (Nat.eqb d c && Nat.ltb c (length s)) eqn:E.
  - simpl. rewrite !(filter_is_k_ext _ s (set_children s c l)) by (intros; apply sc_kd). auto.
  - unfold set_children. rewrite get_upd. rewrite E. exact H.
Qed.

Lemma views_refresh s c : Views s -> Views (refresh s c).
Proof.
  intros H d. specialize (H d). unfold views_ok in *.
  rewrite !(filter_is_k_ext _ s (refresh s c)) by (intros; apply rf_kd).
  unfold refresh. rewrite get_upd. destruct (Nat.eqb d c && Nat.ltb c (length s)) eqn:E; auto.
Qed.

(* ---------------------------------------------------------------- ancestors *)
Lemma anc_trans s x y z : anc s x y -> anc s y z -> anc s x z.
Proof.
  intros H. revert z. induction H as [x p Hp | x p a Hp Ha IH]; intros z Hz.
  - eapply anc_step; eauto.
  - eapply anc_step; eauto.
Qed.

(* fewer edges, fewer ancestors *)
Lemma anc_sub s s' : (forall x p, par s' x = Some p -> par s x = Some p) ->
  forall x y, anc s' x y -> anc s x y.
Proof.
  intros H x y A. induction A as [x p Hp | x p a Hp Ha IH].
  - apply anc_parent. auto.
  - eapply anc_step; eauto.
Qed.

Definition acyclic (s : state) : Prop := forall x, ~ anc s x x.

Lemma acyclic_sub s s' : (forall x p, par s' x = Some p -> par s x = Some p) ->
  acyclic s -> acyclic s'.
Proof. intros H A x C. apply (A x). eapply anc_sub; eauto. Qed.

(* one new edge o -> c *)
Lemma anc_new_edge s o c : c <> o -> ~ anc s c o ->
  forall x y, anc (set_parent s o (Some c)) x y ->
    anc s x y \/ ((x = o \/ anc s x o) /\ (y = c \/ anc s c y)).
Proof.
  intros Hne Hno x y A. induction A as [x p Hp | x p a Hp Ha IH].
  - rewrite sp_par in Hp. destruct (Nat.eqb x o && _) eqn:E.
    + apply andb_prop in E. destruct E as [E _]. apply Nat.eqb_eq in E. inversion Hp. subst.
      right. auto.
    + left. apply anc_parent. exact Hp.
  - rewrite sp_par in Hp. destruct (Nat.eqb x o && _) eqn:E.
    + apply andb_prop in E. destruct E as [E _]. apply Nat.eqb_eq in E. inversion Hp. subst.
      destruct IH as [IH | [[IH|IH] _]].
      * right. auto.
      * congruence.
      * contradiction.
    + destruct IH as [IH | [[IH|IH] IH2]].
      * left. eapply anc_step; eauto.
      * subst p. right. split; auto. right. apply anc_parent. exact Hp.
      * right. split; auto. right. eapply anc_step; eauto.
Qed.

Lemma acyclic_new_edge s o c : acyclic s -> c <> o -> ~ anc s c o ->
  acyclic (set_parent s o (Some c)).
Proof.
  intros A Hne Hno x C. apply (anc_new_edge s o c Hne Hno) in C.
  destruct C as [C | [[C1|C1] [C2|C2]]].
  - exact (A x C).
  - congruence.
  - subst x. contradiction.
  - subst x. contradiction.
  - apply Hno. eapply anc_trans; eauto.
Qed.

(* the ancestors of a node that is not below o do not change when o gets another parent *)
Lemma anc_unaffected s o q : forall x y, x <> o -> ~ anc s x o ->
  anc (set_parent s o q) x y -> anc s x y.
Proof.
  intros x y Hx Hn A. induction A as [x p Hp | x p a Hp Ha IH].
  - rewrite sp_par in Hp. destruct (Nat.eqb x o && _) eqn:E.
    + apply andb_prop in E. destruct E as [E _]. apply Nat.eqb_eq in E. congruence.
    + apply anc_parent. exact Hp.
  - rewrite sp_par in Hp. destruct (Nat.eqb x o && _) eqn:E.
    + apply andb_prop in E. destruct E as [E _]. apply Nat.eqb_eq in E. congruence.
    + eapply anc_step; eauto. apply IH.
      * intros ->. apply Hn. apply anc_parent. exact Hp.
      * intros C. apply Hn. eapply anc_step; eauto.
Qed.

(* ---------------------------------------------------------------- count / mem / remove_first *)
Lemma count_app x l1 l2 : count x (l1 ++ l2) = count x l1 + count x l2.
Proof. induction l1; simpl; auto. rewrite IHl1. lia. Qed.

Lemma count_0 x l : count x l = 0 <-> ~ In x l.
Proof.
  induction l as [|y r IH]; simpl.
  - tauto.
  - destruct (Nat.eqb_spec y x).
    + split; [lia | intros H; exfalso; apply H; auto].
    + simpl. rewrite IH. split; [intros H [C|C]; auto | intros H C; apply H; auto].
Qed.

Lemma count_pos x l : In x l <-> 0 < count x l.
Proof.
  destruct (count x l) eqn:E.
  - apply count_0 in E. split; [contradiction | lia].
  - split; [lia|]. intros _. destruct (in_dec Nat.eq_dec x l) as [I|I]; auto.
    apply count_0 in I. lia.
Qed.

Lemma mem_In x l : mem x l = true <-> In x l.
Proof.
  unfold mem. rewrite existsb_exists. split.
  - intros (y & Hy & E). apply Nat.eqb_eq in E. subst. exact Hy.
  - intros H. exists x. split; auto. apply Nat.eqb_refl.
Qed.

Lemma mem_false x l : mem x l = false <-> ~ In x l.
Proof. rewrite <- mem_In. destruct (mem x l); split; congruence. Qed.

Lemma count_remove_first_same x l : count x (remove_first x l) = count x l - 1.
Proof.
  induction l as [|y r IH]; simpl; auto.
  destruct (Nat.eqb_spec y x).
  - simpl. lia.
  - simpl. destruct (Nat.eqb_spec y x); try congruence. simpl. exact IH.
Qed.

Lemma count_remove_first_other x y l : y <> x -> count y (remove_first x l) = count y l.
Proof.
  intros H. induction l as [|z r IH]; simpl; auto.
  destruct (Nat.eqb_spec z x).
  - subst. destruct (Nat.eqb_spec x y); try congruence. reflexivity.
  - simpl. rewrite IH. reflexivity.
Qed.

Lemma In_remove_first x y l : In y (remove_first x l) -> In y l.
Proof.
  induction l as [|z r IH]; simpl; auto.
  destruct (Nat.eqb_spec z x); intros H; auto. destruct H; auto.
Qed.

Lemma count_filter x f l : count x (filter f l) = if f x then count x l else 0.
Proof.
  induction l as [|y r IH]; simpl.
  - destruct (f x); reflexivity.
  - destruct (f y) eqn:Fy; simpl; rewrite IH; destruct (Nat.eqb_spec y x); subst.
    + rewrite Fy. reflexivity.
    + destruct (f x); reflexivity.
    + rewrite Fy. reflexivity.
    + destruct (f x); reflexivity.
Qed.
