(* C15 -- machine-checked binary64 counterexamples (vm_compute on Coq's primitive floats, which
   implement IEEE-754 binary64 round-to-nearest-even like numpy).  These are statements about the
   FLOAT instance of the same model whose REAL instance is proved to terminate in LoopProofs.v:
   the hypothesis "z <> 0 -> (z/r0)^2 > 0" of circle_guards is false in binary64. *)
From Coq Require Import ZArith List Bool.
From Coq Require Import Floats.PrimFloat.
From MV Require Import Model.LoopNum Gen.GenLoop Model.LoopModel Model.LoopExec.
Import ListNotations.

(* once a state is a fixed point of the body and still satisfies the test, no fuel suffices *)
Lemma stuck_forever {St} (cond : St -> bool) (step : St -> St) (s : St) :
  cond s = true -> step s = s -> forall fuel n, while_loop cond step fuel n s = OutOfFuel.
Proof.
  intros Hc Hs. induction fuel as [|f IH]; intros n; simpl; rewrite Hc; auto. rewrite Hs. apply IH.
Qed.

Lemma stuck_after_one {St} (cond : St -> bool) (step : St -> St) (s : St) :
  cond s = true -> cond (step s) = true -> step (step s) = step s ->
  forall fuel, while_loop cond step fuel 0 s = OutOfFuel.
Proof.
  intros H0 H1 H2 [|f]; simpl; rewrite H0; auto. apply stuck_forever; auto.
Qed.

(* Circle(diameter = 2, current = 1), observer (1, 0, 1e-170): r = 1, z = 1e-170 *)
Definition gap_row : cir_row NumF := Build_cir_row NumF 1%float 0x1.3529ba7d19eafp-565%float 2%float 1%float.
Definition gap_mid : cir_mid NumF := circle_mid NumF (cir_core_in NumF gap_row).

(* since fix 588c868 of /repo the on-wire mask uses abs(z) < 1e-15 * r0: this row is now masked
   (before the fix, with `z == 0`, it took the general branch and the call never returned) *)
Lemma gap_masked : cir_mask5 NumF gap_row = false /\ cir_mask2 NumF gap_row = true.
Proof. vm_compute. split; reflexivity. Qed.

(* ... but z**2 underflows: q2 = 0 and the loop start value qc = q = 0 *)
Lemma gap_q2_zero : PrimFloat.eqb (cm_q2 NumF gap_mid) 0%float = true /\ PrimFloat.eqb (cm_q NumF gap_mid) 0%float = true.
Proof. vm_compute. split; reflexivity. Qed.

(* the scalar loop never exits on these start values, whatever the fuel *)
Theorem circle_float_diverges0 : forall fuel, cel_iter0 NumF fuel (circle_start1 NumF gap_mid) = OutOfFuel.
Proof.
  intros fuel. unfold cel_iter0.
  rewrite (stuck_after_one (cel_iter0_cond NumF) (cel_iter0_step NumF) (circle_start1 NumF gap_mid)); auto;
    vm_compute; reflexivity.
Qed.

(* neither does the vectorised loop *)
Theorem circle_float_divergesv : forall fuel, cel_iterv NumF fuel [circle_start1 NumF gap_mid] = OutOfFuel.
Proof.
  intros fuel. unfold cel_iterv.
  rewrite (stuck_after_one (existsb (cel_iterv_cond NumF)) (map (cel_iterv_step NumF)) [circle_start1 NumF gap_mid]);
    auto; vm_compute; reflexivity.
Qed.

