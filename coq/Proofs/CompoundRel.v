(* Relative poses are kept: pairwise lemmas for every operation, then the step and history
   theorems of C10. *)
From Coq Require Import ZArith List Bool Lia ZifyBool.
From MV Require Import Lib.ListZ Lib.Rigid Gen.GenPath Model.PathModel Proofs.PathProofs
  Model.CompoundModel Proofs.CompoundProofs Proofs.CompoundOps.
Import ListNotations.
Open Scope Z_scope.

(* the translated padding arithmetic once more, for ANY input length k (the anchor slice
   taken from the parent path has length end - start, also for scalar input) *)
Lemma ppp_spec_any sc n k st : 1 <= n -> 0 <= k ->
  let '(pad, s) := path_padding_param sc n k st in
  let b := match pad with Some (b, _) => b | None => 0 end in
  let a := match pad with Some (_, a) => a | None => 0 end in
  let s1 := start1 sc n st in
  b = Z.max 0 (- s1) /\ s = Z.max 0 s1 /\ 0 <= a /\ b + n + a = Z.max (b + n) (s + k).
Proof.
  intros Hn Hk. unfold path_padding_param, start1.
  destruct st as [s|]; [|destruct sc]; cbn -[Z.add Z.sub Z.ltb Z.gtb Z.max Z.opp];
  repeat match goal with |- context[if ?c then _ else _] => destruct c eqn:? end;
  repeat match goal with H : context[if ?c then _ else _] |- _ => destruct c eqn:? end;
  cbn -[Z.add Z.sub Z.ltb Z.gtb Z.max Z.opp]; lia.
Qed.

Section Rel.
Context {O : RigidOps} {L : RigidLaws O}.

(* ---- apply_rotation for every parent_path: which anchor function it uses *)
Definition prep (a : option (inp V)) (r : inp G) : option (inp V) * inp G :=
  match a with
  | Some a => let '(a', r') := multi_anchor a r in (Some a', r')
  | None => (None, r)
  end.

Definition anc_of (n : Z) (r' : inp G) (a' : option (inp V)) (st : option Z)
    (pp : option (list V)) : option (Z -> V) :=
  match a', pp with
  | Some a, _ => Some (iget vzero a)
  | None, Some pp =>
      let sc := is_scalar r' in
      let k := if sc then 1 else ilen r' in
      let len_anchor := (if sc then pp_n' sc n k st else pp_s sc n st + k) - pp_s sc n st in
      let '(padding, start2) := path_padding_param sc (zlen pp) len_anchor st in
      let pp' := match padding with Some (b, a) => edge_pad vzero b a pp | None => pp end in
      Some (fun j => nthZ vzero pp' (start2 + j))
  | None, None => None
  end.

Lemma rotate_spec_gen (o : obj) (r : inp G) (a : option (inp V)) (st : option Z) pp :
  wf o -> wf_inp (snd (prep a r)) ->
  apply_rotation o r a st pp =
  spec_rotate o (snd (prep a r)) (anc_of (zlen (pos o)) (snd (prep a r)) (fst (prep a r)) st pp) st.
Proof.
  intros Hwf. unfold apply_rotation, prep.
  destruct (match a with
            | Some a0 => let '(a', r') := multi_anchor a0 r in (Some a', r')
            | None => (None, r) end) as [a' r'] eqn:E.
  cbn [fst snd]. intros Hr'.
  pose proof (path_padding_spec (is_scalar r') (ilen r') st o Hwf) as H.
  assert (Hl : is_scalar r' = false -> 0 <= ilen r') by (intros _; unfold wf_inp in Hr'; lia).
  specialize (H Hl). cbn zeta in H.
  destruct (path_padding (is_scalar r') (ilen r') st o) as [[[[ppath opath] s] e] padded].
  destruct H as (Hs & He & Hlp & Hlo & Hnth & _). subst s. subst e.
  apply (rotate_core_spec o r' (anc_of (zlen (pos o)) r' a' st pp) st ppath opath); auto.
Qed.

Lemma wf_prep a r : wf_inp r -> match a with Some a => wf_inp a | None => True end ->
  wf_inp (snd (prep a r)).
Proof.
  intros Hr Ha. unfold prep. destruct a as [a|]; [|exact Hr].
  pose proof (multi_anchor_wf a r Ha Hr) as M. destruct (multi_anchor a r) as [a' r'].
  cbn [snd]. apply M.
Qed.

Lemma wf_apply_rotation o r a st pp : wf o -> wf_inp r ->
  match a with Some a => wf_inp a | None => True end -> wf (apply_rotation o r a st pp).
Proof.
  intros Hwf Hr Ha. rewrite rotate_spec_gen by (auto using wf_prep).
  apply wf_spec_rotate; auto using wf_prep.
Qed.

(* the anchor taken from the parent path when parent and member have the same path length:
   it is the (padded) parent position at the very index being rotated *)
Lemma anc_of_parent (n : Z) (r' : inp G) st (pc : list V) :
  wf_inp r' -> zlen pc = n -> 1 <= n ->
  let sc := is_scalar r' in let k := if sc then 1 else ilen r' in
  exists a, anc_of n r' None st (Some pc) = Some a /\
    forall i, pp_s sc n st <= i < pp_n' sc n k st -> (sc = true \/ i < pp_s sc n st + k) ->
      a (i - pp_s sc n st) = nthZ vzero pc (clampZ (i - pp_b sc n st) 0 (n - 1)).
Proof.
  intros Hr Hpc Hn sc k. unfold anc_of. fold sc. fold k. rewrite Hpc.
  assert (Hk : 0 <= k) by (unfold k; destruct sc; unfold wf_inp in Hr; lia).
  pose proof (pp_bounds sc n k st Hn Hk) as (Hs0 & Hsk & Hn1).
  set (la := (if sc then pp_n' sc n k st else pp_s sc n st + k) - pp_s sc n st).
  assert (Hla : 0 <= la) by (unfold la; destruct sc; lia).
  pose proof (ppp_spec_any sc n la st Hn Hla) as H.
  destruct (path_padding_param sc n la st) as [pad s2].
  eexists. split; [reflexivity|].
  intros i Hi Hin. cbn beta.
  assert (Hpcn : pc <> []) by (apply zlen_pos_nonnil; lia).
  fold (pp_b sc n st) in H. fold (pp_s sc n st) in H.
  destruct pad as [[b a]|]; cbn zeta in H; destruct H as (Hb & Hs & Ha & Hlen).
  - unfold pp_b, pp_s in *. rewrite nth_edge_pad by (auto; unfold la in *; destruct sc; lia).
    rewrite Hpc. f_equal. f_equal. lia.
  - unfold pp_b, pp_s in *. f_equal. unfold clampZ. unfold la in *. destruct sc; lia.
Qed.

(* ---- the relation every operation establishes between a collection c, a member d with the
   same path length, and what they have become (c', d') *)
Definition keepsb (b : Z) (c d c' d' : obj) : Prop :=
  wf c' /\ wf d' /\ zlen (pos c') = zlen (pos d') /\
  (forall i, 0 <= i < zlen (pos c') ->
     rel_pose c' d' i = rel_pose c d (clampZ (i - b) 0 (zlen (pos c) - 1)))
  /\ (zlen (pos c') = zlen (pos c) -> b = 0).

(* the shift of the path index made by pad_slice_path: keep the last m / pad at the end *)
Definition fitb (n m : Z) : Z := if m <=? n then m - n else 0.

(* generic: both paths rewritten by spec_path with per-index maps that keep the relative pose *)
Lemma keeps_spec_path (c d : obj) k sc st (fpc fpd : Z -> V -> V) (fqc fqd : Z -> G -> G) :
  wf c -> wf d -> zlen (pos c) = zlen (pos d) -> 0 <= k ->
  let n := zlen (pos c) in
  (forall i, pp_s sc n st <= i < pp_n' sc n k st -> (sc = true \/ i < pp_s sc n st + k) ->
     let j := i - pp_s sc n st in
     let io := clampZ (i - pp_b sc n st) 0 (n - 1) in
     let pc := nthZ vzero (pos c) io in let pd := nthZ vzero (pos d) io in
     let qc := nthZ gone (ori c) io in let qd := nthZ gone (ori d) io in
     act (ginv (fqc j qc)) (vsub (fpd j pd) (fpc j pc)) = act (ginv qc) (vsub pd pc) /\
     gmul (ginv (fqc j qc)) (fqd j qd) = gmul (ginv qc) qd) ->
  keepsb (pp_b sc (zlen (pos c)) st) c d
    {| pos := spec_path vzero (pos c) k sc st fpc; ori := spec_path gone (ori c) k sc st fqc |}
    {| pos := spec_path vzero (pos d) k sc st fpd; ori := spec_path gone (ori d) k sc st fqd |}.
Proof.
  intros [Hnc Hec] [Hnd Hed] Hlen Hk n Hrel.
  assert (Hd : zlen (pos d) = n) by (unfold n; lia).
  assert (Hoc : zlen (ori c) = n) by (unfold n; lia).
  assert (Hod : zlen (ori d) = n) by (unfold n; lia).
  pose proof (pp_bounds sc n k st Hnc Hk) as (Hs0 & Hsk & Hn1).
  unfold keepsb, wf. cbn [pos ori].
  rewrite !zlen_spec_path by lia. rewrite Hd, Hoc, Hod. fold n.
  split; [lia|]. split; [lia|]. split; [reflexivity|].
  split.
  - intros i Hi. unfold rel_pose. cbn [pos ori].
    rewrite !nth_spec_path by (rewrite ?Hd, ?Hoc, ?Hod; exact Hi). cbn zeta.
    rewrite Hd, Hoc, Hod. fold n.
    destruct ((pp_s sc n st <=? i) && (sc || (i <? pp_s sc n st + k))) eqn:E; [|reflexivity].
    assert (Hr : pp_s sc n st <= i < pp_n' sc n k st) by lia.
    assert (Hr2 : sc = true \/ i < pp_s sc n st + k) by (destruct sc; [left; reflexivity|right; lia]).
    destruct (Hrel i Hr Hr2) as [E1 E2]. cbn zeta in E1, E2. rewrite E1, E2. reflexivity.
  - unfold pp_n', pp_b in *. lia.
Qed.

Lemma keeps_move (c d : obj) (dd : inp V) st :
  wf c -> wf d -> zlen (pos c) = zlen (pos d) -> wf_inp dd ->
  keepsb (pp_b (is_scalar dd) (zlen (pos c)) st) c d (apply_move c dd st) (apply_move d dd st).
Proof.
  intros Hc Hd Hlen Hdd. rewrite !move_spec by assumption. unfold spec_move.
  apply keeps_spec_path; auto.
  - destruct (is_scalar dd); unfold wf_inp in Hdd; lia.
  - intros i _ _. cbn zeta. split; [|reflexivity]. rewrite vsub_add_cancel_r. reflexivity.
Qed.

(* both rotated with the same anchor function *)
Lemma keeps_spec_rotate_same (c d : obj) r' (a : Z -> V) st :
  wf c -> wf d -> zlen (pos c) = zlen (pos d) -> wf_inp r' ->
  keepsb (pp_b (is_scalar r') (zlen (pos c)) st) c d
    (spec_rotate c r' (Some a) st) (spec_rotate d r' (Some a) st).
Proof.
  intros Hc Hd Hlen Hr. unfold spec_rotate.
  apply keeps_spec_path; auto.
  - destruct (is_scalar r'); unfold wf_inp in Hr; lia.
  - intros i _ _. cbn zeta. split; [apply rel_rot_same | apply gmul_inv_mul].
Qed.

Lemma anc_of_len_some n r' a' st pp : exists a, anc_of n r' a' st (Some pp) = Some a.
Proof.
  unfold anc_of. destruct a' as [a0|]; [eexists; reflexivity|].
  cbn zeta. destruct (path_padding_param _ _ _ _) as [pad s2]. eexists; reflexivity.
Qed.

(* below the operated node: same rotation input, same anchor input, same handed-down parent path *)
Lemma keeps_rot_below (c d : obj) r a st pp :
  wf c -> wf d -> zlen (pos c) = zlen (pos d) -> wf_inp r ->
  match a with Some a => wf_inp a | None => True end ->
  keepsb (pp_b (is_scalar (snd (prep a r))) (zlen (pos c)) st) c d
    (apply_rotation c r a st (Some pp)) (apply_rotation d r a st (Some pp)).
Proof.
  intros Hc Hd Hlen Hr Ha.
  rewrite !rotate_spec_gen by (auto using wf_prep). rewrite <- Hlen.
  destruct (anc_of_len_some (zlen (pos c)) (snd (prep a r)) (fst (prep a r)) st pp) as [af ->].
  apply keeps_spec_rotate_same; auto using wf_prep.
Qed.

(* the operated collection itself (no parent path) and a member, explicit anchor *)
Lemma keeps_rot_top_anchor (c d : obj) r a st pp :
  wf c -> wf d -> zlen (pos c) = zlen (pos d) -> wf_inp r -> wf_inp a ->
  keepsb (pp_b (is_scalar (snd (prep (Some a) r))) (zlen (pos c)) st) c d
    (apply_rotation c r (Some a) st None) (apply_rotation d r (Some a) st (Some pp)).
Proof.
  intros Hc Hd Hlen Hr Ha.
  rewrite !rotate_spec_gen by (auto using (wf_prep (Some a))).
  unfold anc_of. destruct (fst (prep (Some a) r)) as [a0|] eqn:E.
  - apply keeps_spec_rotate_same; auto using (wf_prep (Some a)).
  - exfalso. unfold prep in E. destruct (multi_anchor a r). discriminate.
Qed.

(* the operated collection turns in place, the member rotates about the collection's path *)
Lemma keeps_rot_top_none (c d : obj) r st :
  wf c -> wf d -> zlen (pos c) = zlen (pos d) -> wf_inp r ->
  keepsb (pp_b (is_scalar r) (zlen (pos c)) st) c d
    (apply_rotation c r None st None) (apply_rotation d r None st (Some (pos c))).
Proof.
  intros Hc Hd Hlen Hr.
  rewrite !rotate_spec_gen by (auto using (wf_prep None)). cbn [prep fst snd].
  rewrite <- Hlen.
  destruct (anc_of_parent (zlen (pos c)) r st (pos c) Hr eq_refl (proj1 Hc)) as (af & -> & Haf).
  cbn [anc_of]. unfold spec_rotate.
  apply keeps_spec_path; auto.
  - destruct (is_scalar r); unfold wf_inp in Hr; lia.
  - intros i Hi Hin. cbn zeta. rewrite (Haf i Hi Hin).
    split; [apply rel_rot_parent | apply gmul_inv_mul].
Qed.

(* ---- setters *)
Lemma clamp_fitidx n m i : 1 <= n -> 1 <= m -> 0 <= i < m ->
  clampZ (i - fitb n m) 0 (n - 1) = fitidx n m i.
Proof. intros. unfold clampZ, fitidx, fitb. destruct (Z.leb_spec m n); lia. Qed.

Lemma wf_shift_obj ps old y : 1 <= zlen ps -> 1 <= zlen old -> wf y -> wf (shift_obj ps old y).
Proof.
  intros Hps Hold [Hn Heq]. unfold wf, shift_obj. cbn [pos ori].
  rewrite zlen_shift_pos, zlen_pad_slice by lia. lia.
Qed.

Lemma nth_shift_pos ps old y i : 1 <= zlen ps -> 1 <= zlen old -> 1 <= zlen (pos y) ->
  0 <= i < zlen ps ->
  nthZ vzero (pos (shift_obj ps old y)) i =
  vadd (nthZ vzero ps i) (vsub (nthZ vzero (pos y) (fitidx (zlen (pos y)) (zlen ps) i))
                               (nthZ vzero old (fitidx (zlen old) (zlen ps) i))).
Proof.
  intros Hps Hold Hy Hi. unfold shift_obj. cbn [pos].
  rewrite (nth_zipw vadd vzero vzero vzero) by (rewrite ?zlen_zipw, ?zlen_pad_slice; lia).
  rewrite (nth_zipw vsub vzero vzero vzero) by (rewrite ?zlen_pad_slice; lia).
  rewrite !nth_pad_slice by lia. reflexivity.
Qed.

Lemma keeps_setpos_top (c d : obj) ps :
  wf c -> wf d -> zlen (pos c) = zlen (pos d) -> 1 <= zlen ps ->
  keepsb (fitb (zlen (pos c)) (zlen ps)) c d
    {| pos := ps; ori := pad_slice_path gone ps (ori c) |} (shift_obj ps (pos c) d).
Proof.
  intros [Hnc Hec] [Hnd Hed] Hlen Hps. unfold keepsb.
  split; [unfold wf; cbn [pos ori]; rewrite zlen_pad_slice by lia; lia|].
  split; [apply wf_shift_obj; [lia|lia|split; assumption]|].
  cbn [pos]. split; [unfold shift_obj; cbn [pos]; rewrite zlen_shift_pos by lia; reflexivity|].
  split.
  - intros i Hi. rewrite clamp_fitidx by lia. unfold rel_pose.
    rewrite nth_shift_pos by lia. cbn [pos ori].
    unfold shift_obj; cbn [ori]. rewrite !nth_pad_slice by lia.
    rewrite <- Hlen, <- Hec, <- Hed, <- Hlen.
    rewrite vsub_add_l. reflexivity.
  - intros E. unfold fitb. rewrite E. destruct (Z.leb_spec (zlen (pos c)) (zlen (pos c))); lia.
Qed.

Lemma keeps_setpos_below (c d : obj) ps old :
  wf c -> wf d -> zlen (pos c) = zlen (pos d) -> 1 <= zlen ps -> 1 <= zlen old ->
  keepsb (fitb (zlen (pos c)) (zlen ps)) c d (shift_obj ps old c) (shift_obj ps old d).
Proof.
  intros [Hnc Hec] [Hnd Hed] Hlen Hps Hold. unfold keepsb.
  split; [apply wf_shift_obj; [lia|lia|split; assumption]|].
  split; [apply wf_shift_obj; [lia|lia|split; assumption]|].
  split; [unfold shift_obj; cbn [pos]; rewrite !zlen_shift_pos by lia; reflexivity|].
  assert (Hl : zlen (pos (shift_obj ps old c)) = zlen ps)
    by (unfold shift_obj; cbn [pos]; apply zlen_shift_pos; lia).
  rewrite Hl.
  split.
  - intros i Hi. rewrite clamp_fitidx by lia. unfold rel_pose.
    rewrite !nth_shift_pos by lia.
    unfold shift_obj; cbn [ori]. rewrite !nth_pad_slice by lia.
    rewrite <- Hlen, <- Hec, <- Hed, <- Hlen.
    rewrite shift_cancel. reflexivity.
  - intros E. unfold fitb. rewrite E. destruct (Z.leb_spec (zlen (pos c)) (zlen (pos c))); lia.
Qed.

(* ---- orientation setter: what the rotation handed to the children does, index by index *)
Definition setori_D (qs oo : list G) (i : Z) : G :=
  gmul (nthZ gone qs i) (ginv (nthZ gone (pad_slice_path gone qs oo) i)).

Lemma setori_rot_prep qs oo (A : list V) : 1 <= zlen qs -> 1 <= zlen oo -> zlen A = zlen qs ->
  exists xs, prep (Some (Vector A)) (setori_rot qs oo) = (Some (Vector A), Vector xs) /\
    zlen xs = zlen qs /\ forall i, 0 <= i < zlen qs -> nthZ gone xs i = setori_D qs oo i.
Proof.
  intros Hqs Hoo HA. unfold setori_rot, squeeze_rot, prep.
  assert (Hf : zlen (pad_slice_path gone qs oo) = zlen qs) by (apply zlen_pad_slice; lia).
  rewrite Hf. destruct (Z.eqb_spec (zlen qs) 1) as [E1|E1]; cbn [rot_mul_inv].
  - unfold multi_anchor. rewrite HA, E1.
    change (0 >? 1) with false. change (0 <? 1) with true. cbn [as_rows].
    change (zlen [gmul (nthZ gone qs 0) (ginv (nthZ gone (pad_slice_path gone qs oo) 0))]) with 1.
    change (1 - 1) with 0. rewrite edge_pad_00.
    eexists. split; [reflexivity|]. split; [reflexivity|].
    intros i Hi. assert (i = 0) by lia. subst i. reflexivity.
  - unfold multi_anchor. rewrite zlen_zipw, Hf, HA, Z.min_id.
    destruct (Z.gtb_spec (zlen qs) (zlen qs)); [lia|].
    destruct (Z.ltb_spec (zlen qs) (zlen qs)); [lia|].
    eexists. split; [reflexivity|]. split; [rewrite zlen_zipw, Hf; lia|].
    intros i Hi. rewrite (nth_zipw _ gone gone gone) by lia. reflexivity.
Qed.

Lemma setori_obj_spec qs oo (A : list V) (y : obj) :
  1 <= zlen qs -> 1 <= zlen oo -> zlen A = zlen qs -> wf y ->
  let m := zlen qs in
  let y' := setori_obj qs oo A y in
  wf y' /\ zlen (pos y') = m /\
  forall i, 0 <= i < m ->
    let io := fitidx (zlen (pos y)) m i in
    nthZ vzero (pos y') i =
      vadd (act (setori_D qs oo i) (vsub (nthZ vzero (pos y) io) (nthZ vzero A i))) (nthZ vzero A i) /\
    nthZ gone (ori y') i = gmul (setori_D qs oo i) (nthZ gone (ori y) io).
Proof.
  intros Hqs Hoo HA [Hny Hey] m y'.
  destruct (setori_rot_prep qs oo A Hqs Hoo HA) as (xs & Hprep & Hxl & Hxn).
  assert (Hfy : wf (fit_obj qs y)).
  { unfold wf, fit_obj; cbn [pos ori]. rewrite !zlen_pad_slice by lia. lia. }
  assert (Hfl : zlen (pos (fit_obj qs y)) = m)
    by (unfold fit_obj; cbn [pos]; apply zlen_pad_slice; lia).
  assert (Hfo : zlen (ori (fit_obj qs y)) = m)
    by (unfold fit_obj; cbn [ori]; apply zlen_pad_slice; lia).
  assert (Hwx : wf_inp (Vector xs)) by (unfold wf_inp; cbn [ilen]; lia).
  unfold y', setori_obj.
  rewrite rotate_spec_gen by (rewrite ?Hprep; auto).
  rewrite Hprep. cbn [fst snd anc_of].
  split; [apply wf_spec_rotate; assumption|].
  unfold spec_rotate. cbn [pos ori is_scalar ilen].
  assert (Eb : pp_b false m (Some 0) = 0) by (unfold pp_b, start1; cbn; lia).
  assert (Es : pp_s false m (Some 0) = 0) by (unfold pp_s, start1; cbn; lia).
  assert (En : pp_n' false m (zlen xs) (Some 0) = m) by (unfold pp_n'; rewrite Eb, Es, Hxl; fold m; lia).
  split; [rewrite zlen_spec_path by lia; rewrite Hfl; exact En|].
  intros i Hi. cbn zeta.
  rewrite !nth_spec_path by (rewrite ?Hfl, ?Hfo, En; exact Hi). cbn zeta.
  rewrite Hfl, Hfo, Es, Eb.
  replace ((0 <=? i) && (false || (i <? 0 + zlen xs))) with true by (symmetry; lia).
  replace (clampZ (i - 0) 0 (m - 1)) with i by (unfold clampZ; lia).
  replace (i - 0) with i by lia. cbn [iget].
  rewrite Hxn by exact Hi.
  unfold fit_obj; cbn [pos ori]. rewrite !nth_pad_slice by (fold m; lia). fold m.
  rewrite <- Hey. split; reflexivity.
Qed.

Lemma keeps_setori_top (c d : obj) qs :
  wf c -> wf d -> zlen (pos c) = zlen (pos d) -> 1 <= zlen qs ->
  keepsb (fitb (zlen (pos c)) (zlen qs)) c d {| pos := pad_slice_path vzero qs (pos c); ori := qs |}
            (setori_obj qs (ori c) (pad_slice_path vzero qs (pos c)) d).
Proof.
  intros [Hnc Hec] [Hnd Hed] Hlen Hqs.
  assert (HA : zlen (pad_slice_path vzero qs (pos c)) = zlen qs) by (apply zlen_pad_slice; lia).
  destruct (setori_obj_spec qs (ori c) _ d Hqs ltac:(lia) HA (conj Hnd Hed)) as (Hwd & Hld & Hnth).
  unfold keepsb. split; [unfold wf; cbn [pos ori]; lia|]. split; [exact Hwd|].
  cbn [pos]. split; [lia|]. rewrite HA.
  split.
  - intros i Hi. rewrite clamp_fitidx by lia. unfold rel_pose. cbn [pos ori].
    destruct (Hnth i Hi) as [-> ->]. unfold setori_D.
    rewrite !nth_pad_slice by lia. rewrite <- Hlen, <- Hec.
    rewrite rel_setori, rel_setori_g. reflexivity.
  - intros E. unfold fitb. rewrite E. destruct (Z.leb_spec (zlen (pos c)) (zlen (pos c))); lia.
Qed.

Lemma keeps_setori_below (c d : obj) qs oo (A : list V) :
  wf c -> wf d -> zlen (pos c) = zlen (pos d) -> 1 <= zlen qs -> 1 <= zlen oo ->
  zlen A = zlen qs ->
  keepsb (fitb (zlen (pos c)) (zlen qs)) c d (setori_obj qs oo A c) (setori_obj qs oo A d).
Proof.
  intros Hc Hd Hlen Hqs Hoo HA.
  destruct (setori_obj_spec qs oo A c Hqs Hoo HA Hc) as (Hwc & Hlc & Hnc).
  destruct (setori_obj_spec qs oo A d Hqs Hoo HA Hd) as (Hwd & Hld & Hnd).
  destruct Hc as [Hc1 Hc2]. destruct Hd as [Hd1 Hd2].
  unfold keepsb. split; [exact Hwc|]. split; [exact Hwd|]. split; [lia|]. rewrite Hlc.
  split.
  - intros i Hi. rewrite clamp_fitidx by lia. unfold rel_pose.
    destruct (Hnc i Hi) as [-> ->]. destruct (Hnd i Hi) as [-> ->]. rewrite <- Hlen.
    rewrite rel_rot_same, gmul_inv_mul. reflexivity.
  - intros E. unfold fitb. rewrite E. destruct (Z.leb_spec (zlen (pos c)) (zlen (pos c))); lia.
Qed.

(* two steps in a row when the second keeps the path length (reset_path) *)
Lemma keeps_trans_same b1 b2 (c d c1 d1 c2 d2 : obj) :
  keepsb b1 c d c1 d1 -> keepsb b2 c1 d1 c2 d2 -> zlen (pos c2) = zlen (pos c1) ->
  keepsb b1 c d c2 d2.
Proof.
  intros (Hw1 & Hw1' & Hl1 & Hr1 & Hb1) (Hw2 & Hw2' & Hl2 & Hr2 & Hb2) E.
  specialize (Hb2 E). subst b2.
  unfold keepsb. split; [exact Hw2|]. split; [exact Hw2'|]. split; [exact Hl2|].
  split.
  - intros i Hi. rewrite Hr2 by exact Hi.
    replace (clampZ (i - 0) 0 (zlen (pos c1) - 1)) with i by (unfold clampZ; lia).
    apply Hr1. lia.
  - intros E2. apply Hb1. lia.
Qed.

Lemma keeps_self b (c c' : obj) :
  wf c' -> (zlen (pos c') = zlen (pos c) -> b = 0) -> keepsb b c c c' c'.
Proof.
  intros Hw Hb. unfold keepsb. split; [exact Hw|]. split; [exact Hw|]. split; [reflexivity|].
  split; [|exact Hb]. intros i _. rewrite !rel_pose_self. reflexivity.
Qed.

End Rel.
