(* Depth of a consistent forest is bounded by the number of objects (pigeonhole), hence the
   fuel-bounded flattening of the model is complete in every state satisfying the invariant. *)
From Coq Require Import List Bool Arith PeanoNat Lia.
From MV Require Import Model.ForestModel Model.ForestExec Proofs.ForestInv Proofs.ForestBase
  Proofs.ForestOps Proofs.ForestRm.
Import ListNotations.

(* p is the d-th ancestor of x *)
Inductive upn (s : state) : nat -> nat -> nat -> Prop :=
| upn_one x p : par s x = Some p -> upn s 1 x p
| upn_more d x q p : par s x = Some q -> upn s d q p -> upn s (S d) x p.

Lemma anc_upn s x y : anc s x y -> exists d, upn s d x y.
Proof.
  induction 1 as [x p Hp | x p a Hp Ha (d & IH)].
  - exists 1. constructor. exact Hp.
  - exists (S d). econstructor; eauto.
Qed.

Lemma upn_anc s d x y : upn s d x y -> anc s x y.
Proof. induction 1; [apply anc_parent; auto | eapply anc_step; eauto]. Qed.

(* the nodes on the way up are pairwise different and all inside the store *)
Lemma upn_nodes s : Inv s -> forall d x p, upn s d x p ->
  exists L, length L = S d /\ NoDup L /\ (forall y, In y L -> y < length s) /\
            (forall y, In y L -> y = x \/ anc s x y).
Proof.
  intros HI. induction 1 as [x p Hp | d x q p Hq Hu (L & Len & ND & Lt & An)].
  - exists [x; p]. repeat split.
    + constructor.
      * intros [E|[]]. subst p. apply (inv_acyclic _ HI x). apply anc_parent. exact Hp.
      * constructor; [intros []|constructor].
    + intros y [<-|[<-|[]]].
      * eapply par_lt; eauto.
      * apply (inv_parent _ HI x p Hp).
    + intros y [<-|[<-|[]]]; auto. right. apply anc_parent. exact Hp.
  - exists (x :: L). repeat split.
    + simpl. lia.
    + constructor; auto. intros Hx. apply An in Hx. apply (inv_acyclic _ HI x).
      destruct Hx as [<-|Hx]; [apply anc_parent; auto | eapply anc_step; eauto].
    + intros y [<-|Hy]; auto. eapply par_lt; eauto.
    + intros y [<-|Hy]; auto. right. apply An in Hy.
      destruct Hy as [->|Hy]; [apply anc_parent; auto | eapply anc_step; eauto].
Qed.

Lemma upn_bound s d x p : Inv s -> upn s d x p -> d < length s.
Proof.
  intros HI H. destruct (upn_nodes s HI d x p H) as (L & Len & ND & Lt & _).
  assert (length L <= length (seq 0 (length s))).
  { apply NoDup_incl_length; auto. intros y Hy. apply in_seq. split; [lia|]. simpl. auto. }
  rewrite seq_length in H0. lia.
Qed.

(* upward chains are downward paths *)
Lemma below_snoc s d p q x : below s d p q -> In x (chl s q) -> is_coll s q = true ->
  below s (S d) p x.
Proof.
  induction 1 as [p q Hq | d p r q Hr Cr B IH]; intros Hx Cq.
  - eapply below_step; eauto. apply below_child. exact Hx.
  - eapply below_step; eauto.
Qed.

Lemma par_listed s x p : Inv s -> par s x = Some p -> In x (chl s p) /\ is_coll s p = true.
Proof.
  intros HI Hp. destruct (inv_parent _ HI x p Hp) as (_ & K & C). split.
  - apply count_pos. lia.
  - unfold is_coll, is_k. rewrite K. reflexivity.
Qed.

Lemma upn_below s : Inv s -> forall d x p, upn s d x p -> below s d p x.
Proof.
  intros HI. induction 1 as [x p Hp | d x q p Hq Hu IH].
  - apply below_child. apply (par_listed s x p HI Hp).
  - destruct (par_listed s x q HI Hq). eapply below_snoc; eauto.
Qed.

Lemma below_upn s : Inv s -> forall d p x, below s d p x -> upn s d x p.
Proof.
  intros HI. induction 1 as [p x Hx | d p q x Hq Cq B IH].
  - constructor. apply (inv_child _ HI p x Hx).
  - assert (Hp : par s q = Some p) by apply (inv_child _ HI p q Hq).
    clear B. induction IH as [x q Hx | d x r q Hr Hu IH2].
    + econstructor; eauto. constructor. exact Hp.
    + econstructor; eauto.
Qed.

Lemma flat_child_aux s want x : forall f l, In x l -> want x = true -> In x (flat f s want l).
Proof.
  destruct f as [|f]; intros l H W; simpl.
  - apply filter_In. auto.
  - apply in_flat_map. exists x. split; auto. apply in_or_app. left. rewrite W. left. reflexivity.
Qed.

(* completeness of the fuel-bounded flattening *)
Lemma flat_complete s want : forall d p x, below s d p x -> forall f, d <= S f -> want x = true ->
  In x (flat f s want (chl s p)).
Proof.
  induction 1 as [p x Hx | d p q x Hq Cq B IH]; intros f Ld W.
  - apply flat_child_aux; auto.
  - destruct f as [|f]; [inversion B; subst; lia|].
    simpl. apply in_flat_map. exists q. split; auto. apply in_or_app. right. rewrite Cq.
    apply IH; auto. lia.
Qed.
