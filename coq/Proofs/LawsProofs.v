(* C14 -- proofs: the modelled closed forms obey the local (differential) form of the laws of
   magnetostatics, the jump conditions at the sphere surface, and a one-dimensional Ampere
   statement on the axis of a current loop.  Over R with Coquelicot; binary64 rounding is
   outside every statement.  Depends on Model/Core{Num,Model,Spec}.v (owner: C01) and
   Model/LawsModel.v only. *)
From Coq Require Import Reals Lra Lia Psatz ZArith Bool.
From Coquelicot Require Import Coquelicot.
From MV Require Import Model.CoreNum Model.CoreModel Model.CoreSpec Model.LawsModel.
Open Scope R_scope.

Ltac unfold_core :=
  cbv beta iota zeta delta
    [dipH dipBH sphBH sphJ circ_axis radial
     dipole_H dipole_BH dipole_inf sphere_BH sphere_out circle_axis_Hz
     vsub vadd vscale vdivs vmuls vdot vnorm vcross veqb sq pow3 pow5 pow32 zero3
     c0 c1 c2 c3 c4 cpi e15 half
     NumR carrier nadd nsub nmul ndiv nopp nsqrt nabs nltb neqb nofZ npi nln natan2
     Rdot Rnorm Rvscale comp upd fst snd].

Lemma Reqb_true a b : Reqb a b = true <-> a = b.
Proof. unfold Reqb. destruct (Req_EM_T a b); split; congruence. Qed.
Lemma Rltb_true a b : Rltb a b = true <-> a < b.
Proof. unfold Rltb. destruct (Rlt_dec a b); split; congruence. Qed.
Lemma Rltb_false a b : Rltb a b = false <-> b <= a.
Proof. unfold Rltb. destruct (Rlt_dec a b); split; try congruence; lra. Qed.

Lemma triple_eq (a b c a' b' c' : R) : a = a' -> b = b' -> c = c' -> (a, b, c) = (a', b', c').
Proof. intros; subst; reflexivity. Qed.

Lemma sumsq_pos x y z : (x, y, z) <> (0, 0, 0) -> 0 < x * x + y * y + z * z.
Proof.
  intros H. destruct (Req_dec x 0) as [Hx|Hx]; [destruct (Req_dec y 0) as [Hy|Hy];
    [destruct (Req_dec z 0) as [Hz|Hz]|]|]; subst; try congruence; nra.
Qed.

Definition gen (a b c d e k t : R) : R :=
  (3 * (a * t + b) * (c * t + d) / (sqrt (t * t + k)) ^ 5 - e / (sqrt (t * t + k)) ^ 3) / (4 * PI).
Definition dgen (a b c d e k t : R) : R :=
  let r := sqrt (t * t + k) in
  (3 * a * (c * t + d) / r ^ 5 + 3 * (a * t + b) * c / r ^ 5
   - 15 * (a * t + b) * (c * t + d) * t / r ^ 7 + 3 * e * t / r ^ 5) / (4 * PI).

Lemma gen_deriv a b c d e k t : 0 < t * t + k ->
  is_derive (gen a b c d e k) t (dgen a b c d e k t).
Proof.
  intros Hq. assert (Hr : 0 < sqrt (t * t + k)) by (apply sqrt_lt_R0; exact Hq).
  pose proof PI_RGT_0 as Hpi.
  unfold gen, dgen. auto_derive.
  - repeat split; try lra; apply Rgt_not_eq; simpl; repeat apply Rmult_lt_0_compat; lra.
  - set (r := sqrt (t * t + k)) in *. clearbody r. simpl. field. lra.
Qed.

Lemma locally_pos k x : 0 < x * x + k -> locally x (fun t => 0 < t * t + k).
Proof.
  intros H.
  assert (Hc : continuous (fun t => t * t + k) x).
  { apply (ex_derive_continuous (fun t => t * t + k)). auto_derive. exact I. }
  apply (Hc (fun u => 0 < u)). apply (open_gt 0). exact H.
Qed.

(* the dipole model off the origin, as three instances of one scalar formula *)
Definition dipc (x y z mx my mz oi mi : R) : R :=
  (3 * (mx * x + my * y + mz * z) * oi / (sqrt (x * x + y * y + z * z)) ^ 5
   - mi / (sqrt (x * x + y * y + z * z)) ^ 3) / (4 * PI).

Lemma dipole_H_formula x y z mx my mz : 0 < x * x + y * y + z * z ->
  dipole_H NumR (x, y, z) (mx, my, mz) =
  (dipc x y z mx my mz x mx, dipc x y z mx my mz y my, dipc x y z mx my mz z mz).
Proof.
  intros Hq. assert (Hr : 0 < sqrt (x * x + y * y + z * z)) by (apply sqrt_lt_R0; exact Hq).
  pose proof PI_RGT_0 as Hpi. unfold dipc. unfold_core.
  destruct (Reqb (sqrt (x * x + y * y + z * z)) 0) eqn:E.
  - apply Reqb_true in E. lra.
  - set (r := sqrt (x * x + y * y + z * z)) in *. apply triple_eq; field; lra.
Qed.

(* entry (i,j) of the Jacobian of the dipole H-field *)
Definition dipJ (m o : RV3) (i j : nat) : R :=
  dgen (comp j m) (Rdot m o - comp j m * comp j o)
       (if Nat.eqb i j then 1 else 0) (if Nat.eqb i j then 0 else comp i o)
       (comp i m) (Rdot o o - comp j o * comp j o) (comp j o).

Lemma dipole_jacobian m o : o <> (0, 0, 0) -> has_jacobian (dipH m) o (dipJ m o).
Proof.
  destruct o as [[x y] z], m as [[mx my] mz]. intros Ho.
  pose proof (sumsq_pos x y z Ho) as Hq.
  intros i j Hi Hj.
  destruct j as [|[|[|j]]]; try lia;
  (destruct i as [|[|[|i]]]; try lia);
  unfold dipJ; cbn [Nat.eqb comp Rdot upd];
  match goal with |- is_derive _ ?x0 (dgen ?a ?b ?c ?d ?e ?k _) =>
    apply (is_derive_ext_loc (gen a b c d e k));
    [ assert (Hk : 0 < x0 * x0 + k) by lra;
      generalize (locally_pos k x0 Hk); apply filter_imp; intros t Ht;
      unfold dipH; rewrite dipole_H_formula by lra; unfold gen, dipc, comp;
      match goal with |- _ = ?rhs => match rhs with context [sqrt ?u] =>
         replace u with (t * t + k) by ring end end; unfold Rdiv; match goal with |- ?a = ?b => change (@eq R a b) end; ring
    | apply gen_deriv; lra ]
  end.
Qed.

Lemma jacobian_partial F o J : has_jacobian F o J ->
  differentiable_at F o /\ forall i j, (i < 3)%nat -> (j < 3)%nat -> partial F i j o = J i j.
Proof.
  intros H. split.
  - intros i j Hi Hj. exists (J i j). apply H; assumption.
  - intros i j Hi Hj. unfold partial. apply is_derive_unique. apply H; assumption.
Qed.

Lemma dipJ_laws m o : o <> (0, 0, 0) ->
  dipJ m o 0 0 + dipJ m o 1 1 + dipJ m o 2 2 = 0
  /\ dipJ m o 2 1 - dipJ m o 1 2 = 0
  /\ dipJ m o 0 2 - dipJ m o 2 0 = 0
  /\ dipJ m o 1 0 - dipJ m o 0 1 = 0.
Proof.
  destruct o as [[x y] z], m as [[mx my] mz]. intros Ho.
  pose proof (sumsq_pos x y z Ho) as Hq. pose proof PI_RGT_0 as Hpi.
  unfold dipJ, dgen. cbn [Nat.eqb comp Rdot].
  replace (x * x + (x * x + y * y + z * z - x * x)) with (x * x + y * y + z * z) by ring.
  replace (y * y + (x * x + y * y + z * z - y * y)) with (x * x + y * y + z * z) by ring.
  replace (z * z + (x * x + y * y + z * z - z * z)) with (x * x + y * y + z * z) by ring.
  assert (Hr : 0 < sqrt (x * x + y * y + z * z)) by (apply sqrt_lt_R0; exact Hq).
  assert (Hrr : sqrt (x * x + y * y + z * z) * sqrt (x * x + y * y + z * z) = x * x + y * y + z * z)
    by (apply sqrt_sqrt; lra).
  set (r := sqrt (x * x + y * y + z * z)) in *. clearbody r.
  repeat split; try (field; lra).
  transitivity (15 * (mx * x + my * y + mz * z) * (r * r - (x * x + y * y + z * z)) / r ^ 7 / (4 * PI)).
  - field. lra.
  - rewrite Hrr. field. lra.
Qed.

Theorem dipole_H_source_free m o : o <> (0, 0, 0) -> source_free_at (dipH m) o.
Proof.
  intros Ho. destruct (jacobian_partial _ _ _ (dipole_jacobian m o Ho)) as [Hd Hp].
  destruct (dipJ_laws m o Ho) as (H0 & H1 & H2 & H3).
  split; [exact Hd|]. unfold divergence, curl. rewrite !Hp by lia. split; [exact H0|].
  rewrite H1, H2, H3. reflexivity.
Qed.

(* ------------------------------------------------------------------ generic: from a Jacobian to the laws *)
Definition jac_laws (J : nat -> nat -> R) : Prop :=
  J 0%nat 0%nat + J 1%nat 1%nat + J 2%nat 2%nat = 0
  /\ J 2%nat 1%nat - J 1%nat 2%nat = 0
  /\ J 0%nat 2%nat - J 2%nat 0%nat = 0
  /\ J 1%nat 0%nat - J 0%nat 1%nat = 0.

Lemma source_free_of_jacobian F o J : has_jacobian F o J -> jac_laws J -> source_free_at F o.
Proof.
  intros HJ (H0 & H1 & H2 & H3). destruct (jacobian_partial _ _ _ HJ) as [Hd Hp].
  split; [exact Hd|]. unfold divergence, curl. rewrite !Hp by lia. split; [exact H0|].
  rewrite H1, H2, H3. reflexivity.
Qed.

Lemma jac_laws_scale s J : jac_laws J -> jac_laws (fun i j => s * J i j).
Proof.
  intros (H0 & H1 & H2 & H3). unfold jac_laws. repeat split.
  - rewrite <- !Rmult_plus_distr_l, H0. ring.
  - rewrite <- Rmult_minus_distr_l, H1. ring.
  - rewrite <- Rmult_minus_distr_l, H2. ring.
  - rewrite <- Rmult_minus_distr_l, H3. ring.
Qed.

Lemma comp_scale s v i : comp i (Rvscale s v) = s * comp i v.
Proof. destruct v as [[a b] c]. destruct i as [|[|i]]; reflexivity. Qed.

Lemma jacobian_scale_loc F G o J s : has_jacobian F o J ->
  (forall j, (j < 3)%nat -> locally (comp j o) (fun t => G (upd j o t) = Rvscale s (F (upd j o t)))) ->
  has_jacobian G o (fun i j => s * J i j).
Proof.
  intros HJ Hloc i j Hi Hj.
  apply (is_derive_ext_loc (fun t => s * comp i (F (upd j o t)))).
  - generalize (Hloc j Hj). apply filter_imp. intros t Ht. rewrite Ht, comp_scale. reflexivity.
  - apply (is_derive_scal (fun t => comp i (F (upd j o t))) (comp j o) s (J i j)). apply HJ; assumption.
Qed.

Lemma jacobian_const_loc G o v :
  (forall j, (j < 3)%nat -> locally (comp j o) (fun t => G (upd j o t) = v)) ->
  has_jacobian G o (fun _ _ => 0).
Proof.
  intros Hloc i j Hi Hj.
  apply (is_derive_ext_loc (fun _ => comp i v)).
  - generalize (Hloc j Hj). apply filter_imp. intros t Ht. rewrite Ht. reflexivity.
  - apply @is_derive_const.
Qed.

Lemma jac_laws_zero : jac_laws (fun _ _ => 0).
Proof. unfold jac_laws. repeat split; ring. Qed.

(* ------------------------------------------------------------------ dipole, B = mu0 H *)
Lemma dipole_B_is_mu0_H mu0 m o : dipBH FB mu0 m o = Rvscale mu0 (dipBH FH mu0 m o).
Proof.
  unfold dipBH, dipole_BH. destruct (dipole_H NumR o m) as [[a b] c].
  unfold_core. apply triple_eq; ring.
Qed.

Theorem dipole_BH_source_free f mu0 m o : o <> (0, 0, 0) -> source_free_at (dipBH f mu0 m) o.
Proof.
  intros Ho. destruct f.
  - apply (source_free_of_jacobian _ _ (fun i j => mu0 * dipJ m o i j)).
    + apply (jacobian_scale_loc (dipH m)); [apply dipole_jacobian, Ho|].
      intros j Hj. apply filter_forall. intros t. apply dipole_B_is_mu0_H.
    + apply jac_laws_scale, dipJ_laws, Ho.
  - apply (dipole_H_source_free m o Ho).
Qed.

(* ------------------------------------------------------------------ sphere *)
Lemma lt_sqrt_iff c q : 0 <= c -> (c < sqrt q <-> c * c < q).
Proof.
  intros Hc. split; intros H.
  - destruct (Rlt_le_dec (c * c) q) as [Hl|Hl]; [exact Hl|].
    assert (sqrt q <= sqrt (c * c)) by (apply sqrt_le_1_alt; exact Hl).
    rewrite sqrt_square in H0 by exact Hc. lra.
  - rewrite <- (sqrt_square c) by exact Hc. apply sqrt_lt_1_alt. split; [nra|exact H].
Qed.

Lemma sqrt_lt_iff c q : 0 <= c -> 0 <= q -> (sqrt q < c <-> q < c * c).
Proof.
  intros Hc Hq. split; intros H.
  - destruct (Rlt_le_dec q (c * c)) as [Hl|Hl]; [exact Hl|].
    assert (sqrt (c * c) <= sqrt q) by (apply sqrt_le_1_alt; exact Hl).
    rewrite sqrt_square in H0 by exact Hc. lra.
  - rewrite <- (sqrt_square c) by exact Hc. apply sqrt_lt_1_alt. split; [exact Hq|exact H].
Qed.

Lemma locally_poly_gt c k x : c < x * x + k -> locally x (fun t => c < t * t + k).
Proof.
  intros H.
  assert (Hc : continuous (fun t => t * t + k) x).
  { apply (ex_derive_continuous (fun t => t * t + k)). auto_derive. exact I. }
  apply (Hc (fun u => c < u)). apply (open_gt c). exact H.
Qed.

Lemma locally_poly_lt c k x : x * x + k < c -> locally x (fun t => t * t + k < c).
Proof.
  intros H.
  assert (Hc : continuous (fun t => t * t + k) x).
  { apply (ex_derive_continuous (fun t => t * t + k)). auto_derive. exact I. }
  apply (Hc (fun u => u < c)). apply (open_lt c). exact H.
Qed.

Definition sph_scale (f : field) (mu0 d : R) : R :=
  match f with
  | FB => 4 * PI * (Rabs d / 2) ^ 3 / 3
  | FH => 4 * PI * (Rabs d / 2) ^ 3 / 3 / mu0
  end.

(* outside: the sphere model is a multiple of the dipole model with moment vector P *)
Lemma sphere_out_formula f mu0 d x y z P : mu0 <> 0 ->
  (Rabs d / 2) * (Rabs d / 2) < x * x + y * y + z * z ->
  sphBH f mu0 d P (x, y, z) = Rvscale (sph_scale f mu0 d) (dipH P (x, y, z)).
Proof.
  destruct P as [[px py] pz]. intros Hmu Hout.
  pose proof (Rabs_pos d) as Hd. pose proof PI_RGT_0 as Hpi.
  assert (Hq : 0 < x * x + y * y + z * z) by nra.
  assert (Hlt : Rabs d / 2 < sqrt (x * x + y * y + z * z)) by (apply lt_sqrt_iff; lra).
  unfold dipH. rewrite dipole_H_formula by exact Hq. unfold dipc, sph_scale.
  revert Hlt. unfold_core. intros Hlt.
  set (r := sqrt (x * x + y * y + z * z)) in *.
  assert (Hr : 0 < r) by lra.
  destruct (Rltb (Rabs d / 2) r) eqn:E; [|apply Rltb_false in E; lra].
  clearbody r. destruct f; apply triple_eq; field; lra.
Qed.

Lemma sphere_in_formula f mu0 d x y z P : mu0 <> 0 ->
  x * x + y * y + z * z <= (Rabs d / 2) * (Rabs d / 2) ->
  sphBH f mu0 d P (x, y, z) =
  match f with FB => Rvscale (2 / 3) P | FH => Rvscale (- / (3 * mu0)) P end.
Proof.
  destruct P as [[px py] pz]. intros Hmu Hin.
  pose proof (Rabs_pos d) as Hd.
  assert (Hle : sqrt (x * x + y * y + z * z) <= Rabs d / 2).
  { rewrite <- (sqrt_square (Rabs d / 2)) by lra. apply sqrt_le_1_alt. exact Hin. }
  revert Hle. unfold_core. intros Hle.
  destruct (Rltb (Rabs d / 2) (sqrt (x * x + y * y + z * z))) eqn:E; [apply Rltb_true in E; lra|].
  destruct f; apply triple_eq; field; lra.
Qed.

Lemma Rnorm_sq x y z : Rnorm (x, y, z) = sqrt (x * x + y * y + z * z).
Proof. reflexivity. Qed.

Theorem sphere_exterior_source_free f mu0 d P o : mu0 <> 0 -> Rabs d / 2 < Rnorm o ->
  source_free_at (sphBH f mu0 d P) o.
Proof.
  destruct o as [[x y] z]. intros Hmu Hout. rewrite Rnorm_sq in Hout.
  pose proof (Rabs_pos d) as Hd.
  apply lt_sqrt_iff in Hout; [|lra].
  assert (Ho : (x, y, z) <> (0, 0, 0)).
  { intros E. inversion E. subst. nra. }
  apply (source_free_of_jacobian _ _ (fun i j => sph_scale f mu0 d * dipJ P (x, y, z) i j)).
  - apply (jacobian_scale_loc (dipH P)); [apply dipole_jacobian, Ho|].
    intros j Hj. destruct j as [|[|[|j]]]; try lia; cbn [comp upd].
    + generalize (locally_poly_gt (Rabs d / 2 * (Rabs d / 2)) (y * y + z * z) x ltac:(lra)).
      apply filter_imp. intros t Ht. apply sphere_out_formula; [exact Hmu|lra].
    + generalize (locally_poly_gt (Rabs d / 2 * (Rabs d / 2)) (x * x + z * z) y ltac:(lra)).
      apply filter_imp. intros t Ht. apply sphere_out_formula; [exact Hmu|lra].
    + generalize (locally_poly_gt (Rabs d / 2 * (Rabs d / 2)) (x * x + y * y) z ltac:(lra)).
      apply filter_imp. intros t Ht. apply sphere_out_formula; [exact Hmu|lra].
  - apply jac_laws_scale, dipJ_laws, Ho.
Qed.

Theorem sphere_interior_source_free f mu0 d P o : mu0 <> 0 -> Rnorm o < Rabs d / 2 ->
  source_free_at (sphBH f mu0 d P) o.
Proof.
  destruct o as [[x y] z]. intros Hmu Hin. rewrite Rnorm_sq in Hin.
  pose proof (Rabs_pos d) as Hd.
  assert (Hq : 0 <= x * x + y * y + z * z) by nra.
  apply sqrt_lt_iff in Hin; [|lra|exact Hq].
  apply (source_free_of_jacobian _ _ (fun _ _ => 0)); [|apply jac_laws_zero].
  apply (jacobian_const_loc _ _
           (match f with FB => Rvscale (2 / 3) P | FH => Rvscale (- / (3 * mu0)) P end)).
  intros j Hj. destruct j as [|[|[|j]]]; try lia; cbn [comp upd].
  - generalize (locally_poly_lt (Rabs d / 2 * (Rabs d / 2)) (y * y + z * z) x ltac:(lra)).
    apply filter_imp. intros t Ht. apply sphere_in_formula; [exact Hmu|lra].
  - generalize (locally_poly_lt (Rabs d / 2 * (Rabs d / 2)) (x * x + z * z) y ltac:(lra)).
    apply filter_imp. intros t Ht. apply sphere_in_formula; [exact Hmu|lra].
  - generalize (locally_poly_lt (Rabs d / 2 * (Rabs d / 2)) (x * x + y * y) z ltac:(lra)).
    apply filter_imp. intros t Ht. apply sphere_in_formula; [exact Hmu|lra].
Qed.

(* B - mu0 H = J 1_inside : the source term of both laws *)
Theorem sphere_B_mu0H_J mu0 d P o : mu0 <> 0 ->
  sphBH FB mu0 d P o = Rvadd (Rvscale mu0 (sphBH FH mu0 d P o)) (sphJ d P o).
Proof.
  destruct o as [[x y] z], P as [[px py] pz]. intros Hmu. unfold_core. unfold Rvadd.
  pose proof (Rabs_pos d) as Hd.
  destruct (Rltb (Rabs d / 2) (sqrt (x * x + y * y + z * z))) eqn:E.
  - apply Rltb_true in E. apply triple_eq; field; lra.
  - apply triple_eq; field; exact Hmu.
Qed.

(* ------------------------------------------------------------------ jump conditions at the sphere surface *)
Lemma continuous_glue (h f : R -> R) (c : R) :
  (forall t, 0 < t <= 1 -> h t = c) -> (forall t, 1 < t -> h t = f t) ->
  continuous f 1 -> f 1 = c -> continuous h 1.
Proof.
  intros Hin Hout Hf Hf1.
  assert (H1 : h 1 = c) by (apply Hin; lra).
  apply filterlim_locally. intros eps.
  destruct (proj1 (filterlim_locally f (f 1)) Hf eps) as [delta Hd].
  assert (Hm : 0 < Rmin delta (1 / 2)) by (apply Rmin_pos; [apply cond_pos|lra]).
  exists (mkposreal _ Hm). intros t Ht.
  assert (Ht' : Rabs (t - 1) < Rmin delta (1 / 2)) by exact Ht.
  assert (Ht1 : Rabs (t - 1) < delta) by (eapply Rlt_le_trans; [exact Ht'|apply Rmin_l]).
  assert (Ht2 : Rabs (t - 1) < 1 / 2) by (eapply Rlt_le_trans; [exact Ht'|apply Rmin_r]).
  apply Rabs_def2 in Ht2.
  destruct (Rle_lt_dec t 1) as [Hle|Hgt].
  - rewrite H1, Hin by lra. apply ball_center.
  - rewrite H1, Hout, <- Hf1 by exact Hgt. apply Hd. exact Ht1.
Qed.

(* on the ray t |-> t*o through a surface point o (|o| = |d|/2): values of the sphere model *)
Lemma sphere_ray_inside f mu0 d P x y z t : mu0 <> 0 -> 0 < t <= 1 ->
  x * x + y * y + z * z = (Rabs d / 2) * (Rabs d / 2) ->
  sphBH f mu0 d P (radial t (x, y, z)) =
  match f with FB => Rvscale (2 / 3) P | FH => Rvscale (- / (3 * mu0)) P end.
Proof.
  intros Hmu Ht Hq. unfold radial, Rvscale. apply sphere_in_formula; [exact Hmu|].
  replace (t * x * (t * x) + t * y * (t * y) + t * z * (t * z)) with (t * t * (x * x + y * y + z * z)) by ring.
  rewrite Hq. set (s := Rabs d / 2 * (Rabs d / 2)).
  assert (0 <= s) by (unfold s; apply Rle_0_sqr).
  assert (t * t <= 1) by nra. nra.
Qed.

Lemma sphere_ray_outside f mu0 d px py pz x y z t : mu0 <> 0 -> 1 < t -> 0 < Rabs d ->
  x * x + y * y + z * z = (Rabs d / 2) * (Rabs d / 2) ->
  sphBH f mu0 d (px, py, pz) (radial t (x, y, z)) =
  let k := match f with FB => 1 | FH => / mu0 end in
  let pd := px * x + py * y + pz * z in
  let rs2 := (Rabs d / 2) * (Rabs d / 2) in
  (k * (3 * pd * x - px * rs2) / (3 * rs2 * (t * t * t)),
   k * (3 * pd * y - py * rs2) / (3 * rs2 * (t * t * t)),
   k * (3 * pd * z - pz * rs2) / (3 * rs2 * (t * t * t))).
Proof.
  intros Hmu Ht Hd Hq. cbv zeta.
  assert (Hrs : 0 < Rabs d / 2) by lra.
  assert (Hq' : t * x * (t * x) + t * y * (t * y) + t * z * (t * z) = (t * (Rabs d / 2)) * (t * (Rabs d / 2))).
  { replace (t * x * (t * x) + t * y * (t * y) + t * z * (t * z)) with (t * t * (x * x + y * y + z * z)) by ring.
    rewrite Hq. ring. }
  assert (Hgt : Rabs d / 2 * (Rabs d / 2) < t * (Rabs d / 2) * (t * (Rabs d / 2))).
  { assert (0 < Rabs d / 2 * (Rabs d / 2)) by (apply Rmult_lt_0_compat; lra).
    assert (1 < t * t) by nra.
    replace (t * (Rabs d / 2) * (t * (Rabs d / 2))) with (t * t * (Rabs d / 2 * (Rabs d / 2))) by ring. nra. }
  unfold radial, Rvscale.
  rewrite sphere_out_formula; [|exact Hmu|rewrite Hq'; exact Hgt].
  unfold dipH. rewrite dipole_H_formula by (rewrite Hq'; nra).
  unfold dipc, sph_scale, Rvscale. rewrite Hq'. rewrite sqrt_square by nra.
  pose proof PI_RGT_0 as Hpi.
  set (rs := Rabs d / 2) in *. clearbody rs.
  destruct f; apply triple_eq; field; repeat split; lra.
Qed.

Lemma inv_cube_continuous a : continuous (fun t => a / (t * t * t)) 1.
Proof.
  apply (ex_derive_continuous (fun t => a / (t * t * t))). auto_derive. lra.
Qed.

(* normal component of B is continuous across the sphere surface *)
Theorem sphere_normal_B_continuous mu0 d P o : mu0 <> 0 -> 0 < Rabs d -> Rnorm o = Rabs d / 2 ->
  continuous (fun t => Rdot (sphBH FB mu0 d P (radial t o)) o) 1.
Proof.
  destruct o as [[x y] z], P as [[px py] pz]. intros Hmu Hd Hn. rewrite Rnorm_sq in Hn.
  assert (Hq : x * x + y * y + z * z = (Rabs d / 2) * (Rabs d / 2)).
  { rewrite <- Hn. rewrite sqrt_sqrt; [reflexivity|nra]. }
  apply (continuous_glue _ (fun t => (2 / 3 * (px * x + py * y + pz * z)) / (t * t * t))
                         (2 / 3 * (px * x + py * y + pz * z))).
  - intros t Ht. rewrite (sphere_ray_inside FB) by assumption. unfold Rvscale, Rdot. ring.
  - intros t Ht. rewrite (sphere_ray_outside FB) by assumption. cbv zeta. unfold Rdot.
    transitivity ((3 * (px * x + py * y + pz * z) * (x * x + y * y + z * z)
                   - (px * x + py * y + pz * z) * (Rabs d / 2 * (Rabs d / 2)))
                  / (3 * (Rabs d / 2 * (Rabs d / 2)) * (t * t * t))).
    + field. split; lra.
    + rewrite Hq. field. split; lra.
  - apply inv_cube_continuous.
  - field.
Qed.

(* tangential components of H are continuous across the sphere surface *)
Theorem sphere_tangential_H_continuous mu0 d P o i : mu0 <> 0 -> 0 < Rabs d -> Rnorm o = Rabs d / 2 ->
  continuous (fun t => comp i (Rcross (sphBH FH mu0 d P (radial t o)) o)) 1.
Proof.
  destruct o as [[x y] z], P as [[px py] pz]. intros Hmu Hd Hn. rewrite Rnorm_sq in Hn.
  assert (Hq : x * x + y * y + z * z = (Rabs d / 2) * (Rabs d / 2)).
  { rewrite <- Hn. rewrite sqrt_sqrt; [reflexivity|nra]. }
  apply (continuous_glue _ (fun t => comp i (Rcross (Rvscale (- / (3 * mu0)) (px, py, pz)) (x, y, z)) / (t * t * t))
                         (comp i (Rcross (Rvscale (- / (3 * mu0)) (px, py, pz)) (x, y, z)))).
  - intros t Ht. rewrite (sphere_ray_inside FH) by assumption. reflexivity.
  - intros t Ht. rewrite (sphere_ray_outside FH) by assumption. cbv zeta.
    unfold Rcross, Rvscale. destruct i as [|[|i]]; unfold comp; field; repeat split; lra.
  - apply inv_cube_continuous.
  - field.
Qed.

(* the normal component of H jumps by M.n = (P.o)/mu0 (per |o|): the surface pole density,
   i.e. the source term of div H = - div M carried by B - mu0 H = J 1_inside *)
Theorem sphere_normal_H_ray mu0 d P o t : mu0 <> 0 -> 0 < Rabs d -> Rnorm o = Rabs d / 2 ->
  (0 < t <= 1 -> Rdot (sphBH FH mu0 d P (radial t o)) o = - (1 / 3) * (Rdot P o / mu0))
  /\ (1 < t -> Rdot (sphBH FH mu0 d P (radial t o)) o = 2 / 3 * (Rdot P o / mu0) / (t * t * t)).
Proof.
  destruct o as [[x y] z], P as [[px py] pz]. intros Hmu Hd Hn. rewrite Rnorm_sq in Hn.
  assert (Hq : x * x + y * y + z * z = (Rabs d / 2) * (Rabs d / 2)).
  { rewrite <- Hn. rewrite sqrt_sqrt; [reflexivity|nra]. }
  split; intros Ht.
  - rewrite (sphere_ray_inside FH) by assumption. unfold Rvscale, Rdot. field. exact Hmu.
  - rewrite (sphere_ray_outside FH) by assumption. cbv zeta. unfold Rdot.
    transitivity ((3 * (px * x + py * y + pz * z) * (x * x + y * y + z * z)
                   - (px * x + py * y + pz * z) * (Rabs d / 2 * (Rabs d / 2)))
                  / (3 * mu0 * (Rabs d / 2 * (Rabs d / 2)) * (t * t * t))).
    + field. repeat split; lra.
    + rewrite Hq. field. repeat split; lra.
Qed.

(* ------------------------------------------------------------------ Circle: Ampere on the axis *)
Definition axis_prim (r0 cur z : R) : R := cur / 2 * (z / sqrt (z * z + r0 * r0)).

Lemma circ_axis_formula d cur z :
  circ_axis d cur z =
  Rabs (d / 2) * Rabs (d / 2)
  / ((z * z + Rabs (d / 2) * Rabs (d / 2)) * sqrt (z * z + Rabs (d / 2) * Rabs (d / 2))) * cur * (1 / 2).
Proof. reflexivity. Qed.

Lemma axis_prim_deriv d cur z : d <> 0 ->
  is_derive (axis_prim (Rabs (d / 2)) cur) z (circ_axis d cur z).
Proof.
  intros Hd. rewrite circ_axis_formula.
  assert (Hr0 : 0 < Rabs (d / 2)) by (apply Rabs_pos_lt; lra).
  set (r0 := Rabs (d / 2)) in *. clearbody r0.
  assert (Hq : 0 < z * z + r0 * r0) by nra.
  assert (Hs : 0 < sqrt (z * z + r0 * r0)) by (apply sqrt_lt_R0; exact Hq).
  unfold axis_prim. auto_derive.
  - split; [exact Hq|]. split; [lra|exact I].
  - assert (Hss : sqrt (z * z + r0 * r0) * sqrt (z * z + r0 * r0) = z * z + r0 * r0) by (apply sqrt_sqrt; lra).
    set (s := sqrt (z * z + r0 * r0)) in *. clearbody s.
    rewrite <- Hss. 
    assert (Hr : r0 * r0 = s * s - z * z) by lra. rewrite Hr. field. lra.
Qed.

Lemma circ_axis_continuous d cur z : d <> 0 -> continuous (circ_axis d cur) z.
Proof.
  intros Hd.
  assert (Hr0 : 0 < Rabs (d / 2)) by (apply Rabs_pos_lt; lra).
  apply (continuous_ext (fun z => Rabs (d / 2) * Rabs (d / 2)
     / ((z * z + Rabs (d / 2) * Rabs (d / 2)) * sqrt (z * z + Rabs (d / 2) * Rabs (d / 2))) * cur * (1 / 2))).
  - intros t. reflexivity.
  - set (r0 := Rabs (d / 2)) in *. clearbody r0.
    assert (Hq : 0 < z * z + r0 * r0) by nra.
    assert (Hs : 0 < sqrt (z * z + r0 * r0)) by (apply sqrt_lt_R0; exact Hq).
    apply (ex_derive_continuous (fun z => r0 * r0 / ((z * z + r0 * r0) * sqrt (z * z + r0 * r0)) * cur * (1 / 2))).
    auto_derive. split; [exact Hq|]. split; [|exact I]. apply Rgt_not_eq. apply Rmult_lt_0_compat; lra.
Qed.

(* Ampere on the axis: the line integral of H_z along the axis *)
Theorem circle_axis_line_integral d cur a b : d <> 0 ->
  is_RInt (circ_axis d cur) a b (axis_prim (Rabs (d / 2)) cur b - axis_prim (Rabs (d / 2)) cur a).
Proof.
  intros Hd. apply (is_RInt_derive (axis_prim (Rabs (d / 2)) cur) (circ_axis d cur) a b).
  - intros x _. apply axis_prim_deriv, Hd.
  - intros x _. apply circ_axis_continuous, Hd.
Qed.

Theorem circle_axis_ampere d cur L : d <> 0 -> 0 < L ->
  is_RInt (circ_axis d cur) (- L) L (cur * (L / sqrt (L * L + Rabs (d / 2) * Rabs (d / 2))))
  /\ Rabs (cur * (L / sqrt (L * L + Rabs (d / 2) * Rabs (d / 2))) - cur)
     <= Rabs cur * (Rabs (d / 2) * Rabs (d / 2) / (L * L)).
Proof.
  intros Hd HL.
  assert (Hr0 : 0 < Rabs (d / 2)) by (apply Rabs_pos_lt; lra).
  split.
  - replace (cur * (L / sqrt (L * L + Rabs (d / 2) * Rabs (d / 2))))
      with (axis_prim (Rabs (d / 2)) cur L - axis_prim (Rabs (d / 2)) cur (- L)).
    + apply circle_axis_line_integral, Hd.
    + unfold axis_prim. replace (- L * - L) with (L * L) by ring.
      set (r0 := Rabs (d / 2)) in *.
      assert (Hs : 0 < sqrt (L * L + r0 * r0)) by (apply sqrt_lt_R0; nra).
      field. lra.
  - set (r0 := Rabs (d / 2)) in *. clearbody r0.
    assert (Hs : 0 < sqrt (L * L + r0 * r0)) by (apply sqrt_lt_R0; nra).
    assert (Hss : sqrt (L * L + r0 * r0) * sqrt (L * L + r0 * r0) = L * L + r0 * r0) by (apply sqrt_sqrt; nra).
    set (s := sqrt (L * L + r0 * r0)) in *. clearbody s.
    assert (HsL : L < s) by nra.
    replace (cur * (L / s) - cur) with (cur * - ((s - L) / s)) by (field; lra).
    rewrite Rabs_mult. apply Rmult_le_compat_l; [apply Rabs_pos|].
    rewrite Rabs_Ropp. rewrite Rabs_pos_eq.
    + apply (Rmult_le_reg_r (s * (L * L))); [apply Rmult_lt_0_compat; nra|].
      replace ((s - L) / s * (s * (L * L))) with ((s - L) * (L * L)) by (field; lra).
      replace (r0 * r0 / (L * L) * (s * (L * L))) with (r0 * r0 * s) by (field; lra).
      replace (r0 * r0) with ((s - L) * (s + L)) by nra.
      assert (0 < s - L) by lra. assert (L * L <= (s + L) * s) by nra. nra.
    + apply Rlt_le. apply Rdiv_lt_0_compat; lra.
Qed.

(* ------------------------------------------------------------------ non-vacuity *)
Lemma laws_nonvacuous :
  (1, 0, 0) <> (0, 0, 0) /\ Rabs 1 / 2 < Rnorm (1, 0, 0) /\ Rnorm (0, 0, 0) < Rabs 1 / 2
  /\ Rnorm (1 / 2, 0, 0) = Rabs 1 / 2 /\ 0 < Rabs 1.
Proof.
  rewrite !Rnorm_sq, Rabs_R1.
  replace (1 * 1 + 0 * 0 + 0 * 0) with 1 by ring.
  replace (0 * 0 + 0 * 0 + 0 * 0) with 0 by ring.
  replace (1 / 2 * (1 / 2) + 0 * 0 + 0 * 0) with ((1 / 2) * (1 / 2)) by ring.
  rewrite sqrt_1, sqrt_0, sqrt_square by lra.
  repeat split; try lra. intros H. inversion H. lra.
Qed.
