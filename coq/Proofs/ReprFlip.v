(* C13 (stretch) -- the octant flip of magnet_cuboid_Bfield.  The implementation mirrors the observer into the octant
   x >= 0, y <= 0, z <= 0 of the box, evaluates the six closed-form terms there and multiplies each contribution by
   the product of the sign tables qs_flipx / qs_flipy / qs_flipz of the mirrors applied (all TRANSLATED from /repo,
   Gen/GenCuboid.v).  Proved here: every term is even or odd under each mirror with exactly the sign of the
   translated tables, so the flipped evaluation equals the direct one; hence the additivity under axis-aligned
   cuts (ReprCuboid.v) holds for ALL observers off the face / cut planes. *)
From Coq Require Import Reals List Lra Psatz Lia ZArith Bool.
From MV Require Import Gen.GenCuboid Model.ReprModel Proofs.ReprProofs Proofs.ReprCuboid.
Import ListNotations.
Local Open Scope R_scope.

(* ---------------- mirrored corner sums *)
Section CornerFlip.
Variable F : R -> R -> R -> R.

(* reflection type: F(-X) = c - F(X) with c independent of X  ==> the corner sum is EVEN under the mirror *)
Lemma corner_flip_x_refl (c : R -> R -> R) x0 x1 y0 y1 z0 z1 :
  (forall X Y Z, (X = x0 \/ X = x1) -> (Y = y0 \/ Y = y1) -> (Z = z0 \/ Z = z1) -> F (- X) Y Z = c Y Z - F X Y Z) ->
  corner_sum F (- x1) (- x0) y0 y1 z0 z1 = corner_sum F x0 x1 y0 y1 z0 z1.
Proof. intros H. unfold corner_sum. rewrite !H by tauto. ring. Qed.
Lemma corner_flip_y_refl (c : R -> R -> R) x0 x1 y0 y1 z0 z1 :
  (forall X Y Z, (X = x0 \/ X = x1) -> (Y = y0 \/ Y = y1) -> (Z = z0 \/ Z = z1) -> F X (- Y) Z = c X Z - F X Y Z) ->
  corner_sum F x0 x1 (- y1) (- y0) z0 z1 = corner_sum F x0 x1 y0 y1 z0 z1.
Proof. intros H. unfold corner_sum. rewrite !H by tauto. ring. Qed.
Lemma corner_flip_z_refl (c : R -> R -> R) x0 x1 y0 y1 z0 z1 :
  (forall X Y Z, (X = x0 \/ X = x1) -> (Y = y0 \/ Y = y1) -> (Z = z0 \/ Z = z1) -> F X Y (- Z) = c X Y - F X Y Z) ->
  corner_sum F x0 x1 y0 y1 (- z1) (- z0) = corner_sum F x0 x1 y0 y1 z0 z1.
Proof. intros H. unfold corner_sum. rewrite !H by tauto. ring. Qed.

(* even type: F(-X) = F(X)  ==> the corner sum is ODD under the mirror *)
Lemma corner_flip_x_even x0 x1 y0 y1 z0 z1 :
  (forall X Y Z, (X = x0 \/ X = x1) -> (Y = y0 \/ Y = y1) -> (Z = z0 \/ Z = z1) -> F (- X) Y Z = F X Y Z) ->
  corner_sum F (- x1) (- x0) y0 y1 z0 z1 = - corner_sum F x0 x1 y0 y1 z0 z1.
Proof. intros H. unfold corner_sum. rewrite !H by tauto. ring. Qed.
Lemma corner_flip_y_even x0 x1 y0 y1 z0 z1 :
  (forall X Y Z, (X = x0 \/ X = x1) -> (Y = y0 \/ Y = y1) -> (Z = z0 \/ Z = z1) -> F X (- Y) Z = F X Y Z) ->
  corner_sum F x0 x1 (- y1) (- y0) z0 z1 = - corner_sum F x0 x1 y0 y1 z0 z1.
Proof. intros H. unfold corner_sum. rewrite !H by tauto. ring. Qed.
Lemma corner_flip_z_even x0 x1 y0 y1 z0 z1 :
  (forall X Y Z, (X = x0 \/ X = x1) -> (Y = y0 \/ Y = y1) -> (Z = z0 \/ Z = z1) -> F X Y (- Z) = F X Y Z) ->
  corner_sum F x0 x1 y0 y1 (- z1) (- z0) = - corner_sum F x0 x1 y0 y1 z0 z1.
Proof. intros H. unfold corner_sum. rewrite !H by tauto. ring. Qed.
End CornerFlip.

(* ---------------- the corner functions under the mirrors *)
Lemma rad_neg_x X Y Z : rad (- X) Y Z = rad X Y Z.
Proof. unfold rad. f_equal. ring. Qed.
Lemma rad_neg_y X Y Z : rad X (- Y) Z = rad X Y Z.
Proof. unfold rad. f_equal. ring. Qed.
Lemma rad_neg_z X Y Z : rad X Y (- Z) = rad X Y Z.
Proof. unfold rad. f_equal. ring. Qed.

Lemma rad_sq X Y Z : rad X Y Z * rad X Y Z = X ^ 2 + Y ^ 2 + Z ^ 2.
Proof. unfold rad. apply sqrt_sqrt. nra. Qed.

Lemma Gx_refl X Y Z : Y <> 0 \/ Z <> 0 -> Gx (- X) Y Z = ln (Y ^ 2 + Z ^ 2) - Gx X Y Z.
Proof.
  intros H. unfold Gx. rewrite rad_neg_x.
  assert (P1 : 0 < X + rad X Y Z) by (apply rad_plus_pos; exact H).
  assert (P2 : 0 < - X + rad X Y Z) by (pose proof (rad_gt_abs X Y Z H); pose proof (Rle_abs X); lra).
  assert (E : Y ^ 2 + Z ^ 2 = (- X + rad X Y Z) * (X + rad X Y Z)).
  { pose proof (rad_sq X Y Z). nra. }
  rewrite E, ln_mult by assumption. ring.
Qed.
Lemma Gy_refl X Y Z : X <> 0 \/ Z <> 0 -> Gy X (- Y) Z = ln (X ^ 2 + Z ^ 2) - Gy X Y Z.
Proof.
  intros H. unfold Gy. rewrite rad_neg_y, Ropp_involutive.
  assert (P1 : 0 < - Y + rad X Y Z) by (apply rad_minus_pos_y; exact H).
  assert (P2 : 0 < Y + rad X Y Z).
  { replace (rad X Y Z) with (rad Y X Z) by (unfold rad; f_equal; ring). apply rad_plus_pos. exact H. }
  assert (E : X ^ 2 + Z ^ 2 = (Y + rad X Y Z) * (- Y + rad X Y Z)).
  { pose proof (rad_sq X Y Z). nra. }
  rewrite E, ln_mult by assumption. ring.
Qed.
Lemma Gz_refl X Y Z : X <> 0 \/ Y <> 0 -> Gz X Y (- Z) = ln (X ^ 2 + Y ^ 2) - Gz X Y Z.
Proof.
  intros H. unfold Gz. rewrite rad_neg_z, Ropp_involutive.
  assert (P1 : 0 < - Z + rad X Y Z) by (apply rad_minus_pos_z; exact H).
  assert (P2 : 0 < Z + rad X Y Z).
  { replace (rad X Y Z) with (rad Z X Y) by (unfold rad; f_equal; ring). apply rad_plus_pos. exact H. }
  assert (E : X ^ 2 + Y ^ 2 = (Z + rad X Y Z) * (- Z + rad X Y Z)).
  { pose proof (rad_sq X Y Z). nra. }
  rewrite E, ln_mult by assumption. ring.
Qed.

(* ---------------- the six terms under the three mirrors *)
Section TermFlip.
Variable at2 : R -> R -> R.
(* what is used of arctan2 (np.arctan2 satisfies both with cc y = pi for y > 0, -pi for y < 0) *)
Variable cc : R -> R.
Hypothesis at2_odd : forall y x, y <> 0 -> at2 (- y) x = - at2 y x.
Hypothesis at2_refl : forall y x, y <> 0 -> at2 y (- x) = cc y - at2 y x.

Definition sigx : list Z := [1; 1; 1; 1; -1; -1]%Z.
Definition sigy : list Z := [1; 1; 1; -1; 1; -1]%Z.
Definition sigz : list Z := [1; 1; 1; -1; -1; 1]%Z.
Definition sg (l : list Z) (t : nat) : R := IZR (nth t l 0%Z).

Lemma off_planes_neg_x x y z a b c : off_planes x y z a b c -> off_planes (- x) y z a b c.
Proof. unfold off_planes. intros (A & B & C & D & E & G). repeat split; try assumption; lra. Qed.
Lemma off_planes_neg_y x y z a b c : off_planes x y z a b c -> off_planes x (- y) z a b c.
Proof. unfold off_planes. intros (A & B & C & D & E & G). repeat split; try assumption; lra. Qed.
Lemma off_planes_neg_z x y z a b c : off_planes x y z a b c -> off_planes x y (- z) a b c.
Proof. unfold off_planes. intros (A & B & C & D & E & G). repeat split; try assumption; lra. Qed.

Ltac corner_vals :=
  match goal with
  | H : off_planes _ _ _ _ _ _ |- _ => destruct H as (Hxa & Hxp & Hyb & Hyp & Hzc & Hzp)
  end.

Ltac nz := repeat match goal with H : _ \/ _ |- _ => destruct H; subst end; try assumption;
           try (apply Rmult_integral_contrapositive_currified; assumption); auto.

Lemma term_flip_x t x y z a b c : (t < 6)%nat -> off_planes x y z a b c ->
  term at2 t (- x) y z a b c = sg sigx t * term at2 t x y z a b c.
Proof.
  intros Ht Hoff. pose proof (off_planes_neg_x _ _ _ _ _ _ Hoff) as Hoff'.
  rewrite !term_corner by assumption.
  replace (- x - a) with (- (x + a)) by ring. replace (- x + a) with (- (x - a)) by ring.
  clear Hoff'. corner_vals.
  destruct t as [|[|[|[|[|[|t]]]]]]; try (exfalso; lia); unfold sg, sigx, cornerF; cbn [nth].
  - rewrite (corner_flip_x_refl (Fx at2) (fun Y Z => cc (Y * Z))); [ring|].
    intros X Y Z HX HY HZ. unfold Fx. rewrite rad_neg_x. replace (- X * rad X Y Z) with (- (X * rad X Y Z)) by ring.
    apply at2_refl. nz.
  - rewrite (corner_flip_x_refl (Fy at2) (fun _ _ => 0)); [ring|].
    intros X Y Z HX HY HZ. unfold Fy. rewrite rad_neg_x. replace (- X * Z) with (- (X * Z)) by ring.
    rewrite at2_odd; [ring|]. nz.
  - rewrite (corner_flip_x_refl (Fz at2) (fun _ _ => 0)); [ring|].
    intros X Y Z HX HY HZ. unfold Fz. rewrite rad_neg_x. replace (- X * Y) with (- (X * Y)) by ring.
    rewrite at2_odd; [ring|]. nz.
  - rewrite (corner_flip_x_refl Gx (fun Y Z => ln (Y ^ 2 + Z ^ 2))); [ring|].
    intros X Y Z HX HY HZ. apply Gx_refl. left. nz.
  - rewrite (corner_flip_x_even Gy); [ring|].
    intros X Y Z HX HY HZ. unfold Gy. rewrite rad_neg_x. reflexivity.
  - rewrite (corner_flip_x_even Gz); [ring|].
    intros X Y Z HX HY HZ. unfold Gz. rewrite rad_neg_x. reflexivity.
Qed.

Lemma term_flip_y t x y z a b c : (t < 6)%nat -> off_planes x y z a b c ->
  term at2 t x (- y) z a b c = sg sigy t * term at2 t x y z a b c.
Proof.
  intros Ht Hoff. pose proof (off_planes_neg_y _ _ _ _ _ _ Hoff) as Hoff'.
  rewrite !term_corner by assumption.
  replace (- y - b) with (- (y + b)) by ring. replace (- y + b) with (- (y - b)) by ring.
  clear Hoff'. corner_vals.
  destruct t as [|[|[|[|[|[|t]]]]]]; try (exfalso; lia); unfold sg, sigy, cornerF; cbn [nth].
  - rewrite (corner_flip_y_refl (Fx at2) (fun _ _ => 0)); [ring|].
    intros X Y Z HX HY HZ. unfold Fx. rewrite rad_neg_y. replace (- Y * Z) with (- (Y * Z)) by ring.
    rewrite at2_odd; [ring|]. nz.
  - rewrite (corner_flip_y_refl (Fy at2) (fun X Z => cc (X * Z))); [ring|].
    intros X Y Z HX HY HZ. unfold Fy. rewrite rad_neg_y. replace (- Y * rad X Y Z) with (- (Y * rad X Y Z)) by ring.
    apply at2_refl. nz.
  - rewrite (corner_flip_y_refl (Fz at2) (fun _ _ => 0)); [ring|].
    intros X Y Z HX HY HZ. unfold Fz. rewrite rad_neg_y. replace (X * - Y) with (- (X * Y)) by ring.
    rewrite at2_odd; [ring|]. nz.
  - rewrite (corner_flip_y_even Gx); [ring|].
    intros X Y Z HX HY HZ. unfold Gx. rewrite rad_neg_y. reflexivity.
  - rewrite (corner_flip_y_refl Gy (fun X Z => ln (X ^ 2 + Z ^ 2))); [ring|].
    intros X Y Z HX HY HZ. apply Gy_refl. left. nz.
  - rewrite (corner_flip_y_even Gz); [ring|].
    intros X Y Z HX HY HZ. unfold Gz. rewrite rad_neg_y. reflexivity.
Qed.

Lemma term_flip_z t x y z a b c : (t < 6)%nat -> off_planes x y z a b c ->
  term at2 t x y (- z) a b c = sg sigz t * term at2 t x y z a b c.
Proof.
  intros Ht Hoff. pose proof (off_planes_neg_z _ _ _ _ _ _ Hoff) as Hoff'.
  rewrite !term_corner by assumption.
  replace (- z - c) with (- (z + c)) by ring. replace (- z + c) with (- (z - c)) by ring.
  clear Hoff'. corner_vals.
  destruct t as [|[|[|[|[|[|t]]]]]]; try (exfalso; lia); unfold sg, sigz, cornerF; cbn [nth].
  - rewrite (corner_flip_z_refl (Fx at2) (fun _ _ => 0)); [ring|].
    intros X Y Z HX HY HZ. unfold Fx. rewrite rad_neg_z. replace (Y * - Z) with (- (Y * Z)) by ring.
    rewrite at2_odd; [ring|]. nz.
  - rewrite (corner_flip_z_refl (Fy at2) (fun _ _ => 0)); [ring|].
    intros X Y Z HX HY HZ. unfold Fy. rewrite rad_neg_z. replace (X * - Z) with (- (X * Z)) by ring.
    rewrite at2_odd; [ring|]. nz.
  - rewrite (corner_flip_z_refl (Fz at2) (fun X Y => cc (X * Y))); [ring|].
    intros X Y Z HX HY HZ. unfold Fz. rewrite rad_neg_z. replace (- Z * rad X Y Z) with (- (Z * rad X Y Z)) by ring.
    apply at2_refl. nz.
  - rewrite (corner_flip_z_even Gx); [ring|].
    intros X Y Z HX HY HZ. unfold Gx. rewrite rad_neg_z. reflexivity.
  - rewrite (corner_flip_z_even Gy); [ring|].
    intros X Y Z HX HY HZ. unfold Gy. rewrite rad_neg_z. reflexivity.
  - rewrite (corner_flip_z_refl Gz (fun X Y => ln (X ^ 2 + Y ^ 2))); [ring|].
    intros X Y Z HX HY HZ. apply Gz_refl. left. nz.
Qed.
End TermFlip.

(* ---------------- the B-field as magnet_cuboid_Bfield assembles it, WITH the octant flip *)
Definition tab (m : list (list Z)) (k j : nat) : R := IZR (nth j (nth k m []) 0%Z).
Definition msk (b : bool) (v : R) : R := if b then - v else v.
Definition qsign (mx my mz : bool) (k j : nat) : R :=
  (if mx then tab qs_flipx k j else 1) * (if my then tab qs_flipy k j else 1) * (if mz then tab qs_flipz k j else 1).

(* like combine_terms, but the weight of an entry may depend on its (polarization axis, field axis) *)
Definition combine_terms2 (tbl : list (nat * nat * bool * nat)) (pol : R * R * R) (j : nat) (w : nat -> nat -> nat -> R) : R :=
  fold_right (fun e acc =>
                let '(k, j', neg, i) := e in
                if Nat.eqb j' j then (if neg : bool then - pick3 k pol * w k j' i else pick3 k pol * w k j' i) + acc else acc)
             0 tbl / (4 * PI).

Lemma combine_terms2_plain tbl pol j t : combine_terms2 tbl pol j (fun _ _ i => t i) = combine_terms tbl pol j t.
Proof. reflexivity. Qed.

Lemma combine_terms2_ext tbl pol j w w' :
  Forall (fun e : nat * nat * bool * nat => let '(k, j', _, i) := e in w k j' i = w' k j' i) tbl ->
  combine_terms2 tbl pol j w = combine_terms2 tbl pol j w'.
Proof.
  intros H. unfold combine_terms2. f_equal.
  induction tbl as [|[[[k j'] neg] i] l IH]; [reflexivity|].
  inversion H as [|? ? Hi Hl]; subst. simpl. rewrite (IH Hl), Hi. reflexivity.
Qed.

(* maskx = x < 0, masky = y > 0, maskz = z > 0 *)
Definition maskx (x : R) : bool := if Rlt_dec x 0 then true else false.
Definition maskyz (y : R) : bool := if Rlt_dec 0 y then true else false.

Definition cuboid_B_code (at2 : R -> R -> R) (pol : R * R * R) (j : nat) (x y z a b c : R) : R :=
  let mx := maskx x in let my := maskyz y in let mz := maskyz z in
  combine_terms2 cuboid_contrib pol j
    (fun k j' i => term at2 i (msk mx x) (msk my y) (msk mz z) a b c * qsign mx my mz k j').

(* the translated sign tables are exactly the parities of the translated terms, entry by entry of the translated table *)
Lemma tables_match_parities :
  forallb (fun e : nat * nat * bool * nat => let '(k, j', _, i) := e in
     (Z.eqb (nth i sigx 0 * nth j' (nth k qs_flipx []) 0) 1 &&
      Z.eqb (nth i sigy 0 * nth j' (nth k qs_flipy []) 0) 1 &&
      Z.eqb (nth i sigz 0 * nth j' (nth k qs_flipz []) 0) 1 && Nat.ltb i 6)%Z) cuboid_contrib = true.
Proof. vm_compute. reflexivity. Qed.

Section Flip.
Variable at2 : R -> R -> R.
Variable cc : R -> R.
Hypothesis at2_odd : forall y x, y <> 0 -> at2 (- y) x = - at2 y x.
Hypothesis at2_refl : forall y x, y <> 0 -> at2 y (- x) = cc y - at2 y x.

Lemma sg_sq (l : list Z) (m : list (list Z)) i k j :
  (nth i l 0 * nth j (nth k m []) 0 = 1)%Z -> sg l i * tab m k j = 1.
Proof. intros H. unfold sg, tab. rewrite <- mult_IZR, H. reflexivity. Qed.

Theorem cuboid_flip_is_identity pol j x y z a b c : off_planes x y z a b c ->
  cuboid_B_code at2 pol j x y z a b c = combine_terms cuboid_contrib pol j (fun i => term at2 i x y z a b c).
Proof.
  intros Hoff. unfold cuboid_B_code. rewrite <- combine_terms2_plain. apply combine_terms2_ext.
  pose proof tables_match_parities as Hm. rewrite forallb_forall in Hm.
  apply Forall_forall. intros [[[k j'] neg] i] Hin. specialize (Hm _ Hin). cbv beta iota in Hm.
  rewrite !andb_true_iff, !Z.eqb_eq in Hm. destruct Hm as [[[Hx Hy] Hz] Hi]. apply Nat.ltb_lt in Hi.
  unfold qsign, msk.
  destruct (maskx x), (maskyz y), (maskyz z);
    repeat (first [ rewrite (term_flip_x at2 cc at2_odd at2_refl) by (try assumption; auto using off_planes_neg_y, off_planes_neg_z)
                  | rewrite (term_flip_y at2 cc at2_odd at2_refl) by (try assumption; auto using off_planes_neg_x, off_planes_neg_z)
                  | rewrite (term_flip_z at2 cc at2_odd at2_refl) by (try assumption; auto using off_planes_neg_x, off_planes_neg_y) ]);
    pose proof (sg_sq sigx qs_flipx i k j' Hx) as Sx; pose proof (sg_sq sigy qs_flipy i k j' Hy) as Sy;
    pose proof (sg_sq sigz qs_flipz i k j' Hz) as Sz; ring [Sx Sy Sz].
Qed.
End Flip.

(* ---------------- boxes in one frame: the implementation's B (with flip) is additive under every axis-aligned cut,
   for ALL observers off the planes of the faces and of the cut *)
Definition box_B_code (at2 : R -> R -> R) (pol : R * R * R) (j : nat) (px py pz x0 x1 y0 y1 z0 z1 : R) : R :=
  cuboid_B_code at2 pol j (px - (x0 + x1) / 2) (py - (y0 + y1) / 2) (pz - (z0 + z1) / 2)
                ((x1 - x0) / 2) ((y1 - y0) / 2) ((z1 - z0) / 2).

Lemma box_off_planes px py pz x0 x1 y0 y1 z0 z1 :
  px <> x0 -> px <> x1 -> py <> y0 -> py <> y1 -> pz <> z0 -> pz <> z1 ->
  off_planes (px - (x0 + x1) / 2) (py - (y0 + y1) / 2) (pz - (z0 + z1) / 2) ((x1 - x0) / 2) ((y1 - y0) / 2) ((z1 - z0) / 2).
Proof. intros. unfold off_planes. repeat split; intros E; lra. Qed.

Section BoxFlip.
Variable at2 : R -> R -> R.
Variable cc : R -> R.
Hypothesis at2_odd : forall y x, y <> 0 -> at2 (- y) x = - at2 y x.
Hypothesis at2_refl : forall y x, y <> 0 -> at2 y (- x) = cc y - at2 y x.

Theorem box_B_code_is_noflip pol j px py pz x0 x1 y0 y1 z0 z1 :
  px <> x0 -> px <> x1 -> py <> y0 -> py <> y1 -> pz <> z0 -> pz <> z1 ->
  box_B_code at2 pol j px py pz x0 x1 y0 y1 z0 z1 = box_B_noflip at2 pol j px py pz x0 x1 y0 y1 z0 z1.
Proof.
  intros. unfold box_B_code. rewrite (cuboid_flip_is_identity at2 cc at2_odd at2_refl) by (apply box_off_planes; assumption).
  reflexivity.
Qed.

Theorem box_B_code_cut_x pol j px py pz x0 xm x1 y0 y1 z0 z1 :
  px <> x0 -> px <> xm -> px <> x1 -> py <> y0 -> py <> y1 -> pz <> z0 -> pz <> z1 ->
  box_B_code at2 pol j px py pz x0 x1 y0 y1 z0 z1 =
  box_B_code at2 pol j px py pz x0 xm y0 y1 z0 z1 + box_B_code at2 pol j px py pz xm x1 y0 y1 z0 z1.
Proof. intros. rewrite !box_B_code_is_noflip by assumption. apply box_B_noflip_cut_x; assumption. Qed.
Theorem box_B_code_cut_y pol j px py pz x0 x1 y0 ym y1 z0 z1 :
  px <> x0 -> px <> x1 -> py <> y0 -> py <> ym -> py <> y1 -> pz <> z0 -> pz <> z1 ->
  box_B_code at2 pol j px py pz x0 x1 y0 y1 z0 z1 =
  box_B_code at2 pol j px py pz x0 x1 y0 ym z0 z1 + box_B_code at2 pol j px py pz x0 x1 ym y1 z0 z1.
Proof. intros. rewrite !box_B_code_is_noflip by assumption. apply box_B_noflip_cut_y; assumption. Qed.
Theorem box_B_code_cut_z pol j px py pz x0 x1 y0 y1 z0 zm z1 :
  px <> x0 -> px <> x1 -> py <> y0 -> py <> y1 -> pz <> z0 -> pz <> zm -> pz <> z1 ->
  box_B_code at2 pol j px py pz x0 x1 y0 y1 z0 z1 =
  box_B_code at2 pol j px py pz x0 x1 y0 y1 z0 zm + box_B_code at2 pol j px py pz x0 x1 y0 y1 zm z1.
Proof. intros. rewrite !box_B_code_is_noflip by assumption. apply box_B_noflip_cut_z; assumption. Qed.
End BoxFlip.

(* ---------------- J, M and H: the inside mask of BHJM_magnet_cuboid,  (|x| - a < RTOL * a) & ... , any RTOL >= 0 *)
Definition in1b (eps p lo hi : R) : bool :=
  if Rlt_dec (Rabs (p - (lo + hi) / 2) - (hi - lo) / 2) (eps * ((hi - lo) / 2)) then true else false.
Definition box_inside (eps px py pz x0 x1 y0 y1 z0 z1 : R) : bool :=
  in1b eps px x0 x1 && in1b eps py y0 y1 && in1b eps pz z0 z1.
Definition b2r (b : bool) : R := if b then 1 else 0.

(* an observer farther than RTOL * (half size) from the two planes is inside iff it is strictly between them *)
Lemma in1b_iff eps p lo hi : 0 <= eps -> lo < hi ->
  eps * ((hi - lo) / 2) < Rabs (p - lo) -> eps * ((hi - lo) / 2) < Rabs (p - hi) ->
  (in1b eps p lo hi = true <-> lo < p < hi).
Proof.
  intros He Hlh H1 H2. unfold in1b. set (e := eps * ((hi - lo) / 2)) in *.
  assert (0 <= e) by (unfold e; nra). clearbody e.
  destruct (Rlt_dec _ _) as [L|L]; unfold Rabs in *;
    repeat match goal with
           | H : context [Rcase_abs ?v] |- _ => destruct (Rcase_abs v)
           | |- context [Rcase_abs ?v] => destruct (Rcase_abs v)
           end; split; intros; try discriminate; try reflexivity; try lra; exfalso; lra.
Qed.

Lemma in1b_cut eps p lo m hi : 0 <= eps -> lo < m < hi ->
  eps * ((hi - lo) / 2) < Rabs (p - lo) -> eps * ((hi - lo) / 2) < Rabs (p - m) -> eps * ((hi - lo) / 2) < Rabs (p - hi) ->
  b2r (in1b eps p lo hi) = b2r (in1b eps p lo m) + b2r (in1b eps p m hi).
Proof.
  intros He [Hlm Hmh] H1 H2 H3.
  assert (Ew1 : eps * ((m - lo) / 2) <= eps * ((hi - lo) / 2)) by nra.
  assert (Ew2 : eps * ((hi - m) / 2) <= eps * ((hi - lo) / 2)) by nra.
  pose proof (in1b_iff eps p lo hi He ltac:(lra) H1 H3) as A.
  pose proof (in1b_iff eps p lo m He Hlm ltac:(lra) ltac:(lra)) as B.
  pose proof (in1b_iff eps p m hi He Hmh ltac:(lra) ltac:(lra)) as C.
  assert (Hpm : p <> m). { intros ->. replace (m - m) with 0 in H2 by ring. rewrite Rabs_R0 in H2. nra. }
  destruct (in1b eps p lo hi), (in1b eps p lo m), (in1b eps p m hi); simpl; try lra; exfalso;
    repeat match goal with
           | H : true = true <-> ?P |- _ => assert P by (apply H; reflexivity); clear H
           | H : false = true <-> ?P |- _ => assert (~ P) by (let q := fresh in intros q; apply H in q; discriminate); clear H
           end; lra.
Qed.

Lemma b2r_and a b : b2r (a && b) = b2r a * b2r b.
Proof. destruct a, b; simpl; ring. Qed.

(* BHJM_magnet_cuboid on a general row (polarization and dimension not null, observer not on an edge):
   J = polarization where mask_inside, M = J / mu0, B = magnet_cuboid_Bfield, H = (B - J[inside]) / mu0 *)
Definition box_J (eps : R) (pol : R * R * R) (j : nat) (px py pz x0 x1 y0 y1 z0 z1 : R) : R :=
  b2r (box_inside eps px py pz x0 x1 y0 y1 z0 z1) * pick3 j pol.
Definition box_M (mu0 eps : R) (pol : R * R * R) (j : nat) (px py pz x0 x1 y0 y1 z0 z1 : R) : R :=
  box_J eps pol j px py pz x0 x1 y0 y1 z0 z1 / mu0.
Definition box_H (at2 : R -> R -> R) (mu0 eps : R) (pol : R * R * R) (j : nat) (px py pz x0 x1 y0 y1 z0 z1 : R) : R :=
  (box_B_code at2 pol j px py pz x0 x1 y0 y1 z0 z1 - box_J eps pol j px py pz x0 x1 y0 y1 z0 z1) / mu0.

(* "clear of the plane q of a box of width w": farther than RTOL * w/2 from it *)
Definition clear_of (eps w p q : R) : Prop := eps * (w / 2) < Rabs (p - q).

Theorem box_J_cut_x eps pol j px py pz x0 xm x1 y0 y1 z0 z1 : 0 <= eps -> x0 < xm < x1 ->
  clear_of eps (x1 - x0) px x0 -> clear_of eps (x1 - x0) px xm -> clear_of eps (x1 - x0) px x1 ->
  box_J eps pol j px py pz x0 x1 y0 y1 z0 z1 =
  box_J eps pol j px py pz x0 xm y0 y1 z0 z1 + box_J eps pol j px py pz xm x1 y0 y1 z0 z1.
Proof.
  intros He Hx A B C. unfold box_J, box_inside. rewrite !b2r_and.
  rewrite (in1b_cut eps px x0 xm x1 He Hx A B C). ring.
Qed.
Theorem box_J_cut_y eps pol j px py pz x0 x1 y0 ym y1 z0 z1 : 0 <= eps -> y0 < ym < y1 ->
  clear_of eps (y1 - y0) py y0 -> clear_of eps (y1 - y0) py ym -> clear_of eps (y1 - y0) py y1 ->
  box_J eps pol j px py pz x0 x1 y0 y1 z0 z1 =
  box_J eps pol j px py pz x0 x1 y0 ym z0 z1 + box_J eps pol j px py pz x0 x1 ym y1 z0 z1.
Proof.
  intros He Hy A B C. unfold box_J, box_inside. rewrite !b2r_and.
  rewrite (in1b_cut eps py y0 ym y1 He Hy A B C). ring.
Qed.
Theorem box_J_cut_z eps pol j px py pz x0 x1 y0 y1 z0 zm z1 : 0 <= eps -> z0 < zm < z1 ->
  clear_of eps (z1 - z0) pz z0 -> clear_of eps (z1 - z0) pz zm -> clear_of eps (z1 - z0) pz z1 ->
  box_J eps pol j px py pz x0 x1 y0 y1 z0 z1 =
  box_J eps pol j px py pz x0 x1 y0 y1 z0 zm + box_J eps pol j px py pz x0 x1 y0 y1 zm z1.
Proof.
  intros He Hz A B C. unfold box_J, box_inside. rewrite !b2r_and.
  rewrite (in1b_cut eps pz z0 zm z1 He Hz A B C). ring.
Qed.

Lemma clear_ne eps w p q : 0 <= eps -> 0 <= w -> clear_of eps w p q -> p <> q.
Proof. unfold clear_of. intros He Hw H ->. replace (q - q) with 0 in H by ring. rewrite Rabs_R0 in H. nra. Qed.

Section BoxH.
Variable at2 : R -> R -> R.
Variable cc : R -> R.
Hypothesis at2_odd : forall y x, y <> 0 -> at2 (- y) x = - at2 y x.
Hypothesis at2_refl : forall y x, y <> 0 -> at2 y (- x) = cc y - at2 y x.

Theorem box_H_cut_x mu0 eps pol j px py pz x0 xm x1 y0 y1 z0 z1 : mu0 <> 0 -> 0 <= eps -> x0 < xm < x1 ->
  clear_of eps (x1 - x0) px x0 -> clear_of eps (x1 - x0) px xm -> clear_of eps (x1 - x0) px x1 ->
  py <> y0 -> py <> y1 -> pz <> z0 -> pz <> z1 ->
  box_H at2 mu0 eps pol j px py pz x0 x1 y0 y1 z0 z1 =
  box_H at2 mu0 eps pol j px py pz x0 xm y0 y1 z0 z1 + box_H at2 mu0 eps pol j px py pz xm x1 y0 y1 z0 z1.
Proof.
  intros Hmu He Hx A B C. intros. unfold box_H.
  rewrite (box_J_cut_x eps pol j px py pz x0 xm x1 y0 y1 z0 z1 He Hx A B C).
  rewrite (box_B_code_cut_x at2 cc at2_odd at2_refl pol j px py pz x0 xm x1 y0 y1 z0 z1);
    try assumption; try (eapply clear_ne; [exact He| |eassumption]; lra).
  field. exact Hmu.
Qed.
Theorem box_H_cut_y mu0 eps pol j px py pz x0 x1 y0 ym y1 z0 z1 : mu0 <> 0 -> 0 <= eps -> y0 < ym < y1 ->
  clear_of eps (y1 - y0) py y0 -> clear_of eps (y1 - y0) py ym -> clear_of eps (y1 - y0) py y1 ->
  px <> x0 -> px <> x1 -> pz <> z0 -> pz <> z1 ->
  box_H at2 mu0 eps pol j px py pz x0 x1 y0 y1 z0 z1 =
  box_H at2 mu0 eps pol j px py pz x0 x1 y0 ym z0 z1 + box_H at2 mu0 eps pol j px py pz x0 x1 ym y1 z0 z1.
Proof.
  intros Hmu He Hy A B C. intros. unfold box_H.
  rewrite (box_J_cut_y eps pol j px py pz x0 x1 y0 ym y1 z0 z1 He Hy A B C).
  rewrite (box_B_code_cut_y at2 cc at2_odd at2_refl pol j px py pz x0 x1 y0 ym y1 z0 z1);
    try assumption; try (eapply clear_ne; [exact He| |eassumption]; lra).
  field. exact Hmu.
Qed.
Theorem box_H_cut_z mu0 eps pol j px py pz x0 x1 y0 y1 z0 zm z1 : mu0 <> 0 -> 0 <= eps -> z0 < zm < z1 ->
  clear_of eps (z1 - z0) pz z0 -> clear_of eps (z1 - z0) pz zm -> clear_of eps (z1 - z0) pz z1 ->
  px <> x0 -> px <> x1 -> py <> y0 -> py <> y1 ->
  box_H at2 mu0 eps pol j px py pz x0 x1 y0 y1 z0 z1 =
  box_H at2 mu0 eps pol j px py pz x0 x1 y0 y1 z0 zm + box_H at2 mu0 eps pol j px py pz x0 x1 y0 y1 zm z1.
Proof.
  intros Hmu He Hz A B C. intros. unfold box_H.
  rewrite (box_J_cut_z eps pol j px py pz x0 x1 y0 y1 z0 zm z1 He Hz A B C).
  rewrite (box_B_code_cut_z at2 cc at2_odd at2_refl pol j px py pz x0 x1 y0 y1 z0 zm z1);
    try assumption; try (eapply clear_ne; [exact He| |eassumption]; lra).
  field. exact Hmu.
Qed.
End BoxH.

(* non-vacuity of the arctan2 hypotheses: numpy.arctan2 on the reals satisfies them with cc y = pi (y > 0), -pi (y < 0) *)
Definition np_arctan2 (y x : R) : R :=
  if Rlt_dec 0 x then atan (y / x)
  else if Rlt_dec x 0 then (if Rlt_dec y 0 then atan (y / x) - PI else atan (y / x) + PI)
  else if Rlt_dec 0 y then PI / 2
  else if Rlt_dec y 0 then - PI / 2
  else 0.
Definition np_cc (y : R) : R := if Rlt_dec 0 y then PI else - PI.

Lemma np_arctan2_odd y x : y <> 0 -> np_arctan2 (- y) x = - np_arctan2 y x.
Proof.
  intros Hy. unfold np_arctan2.
  destruct (Rlt_dec 0 x) as [Hx|Hx].
  - replace (- y / x) with (- (y / x)) by (field; lra). apply atan_opp.
  - destruct (Rlt_dec x 0) as [Hx'|Hx'].
    + replace (- y / x) with (- (y / x)) by (field; lra). rewrite atan_opp.
      destruct (Rlt_dec (- y) 0), (Rlt_dec y 0); try lra.
    + destruct (Rlt_dec 0 (- y)), (Rlt_dec 0 y), (Rlt_dec (- y) 0), (Rlt_dec y 0); try lra.
Qed.

Lemma np_arctan2_refl y x : y <> 0 -> np_arctan2 y (- x) = np_cc y - np_arctan2 y x.
Proof.
  intros Hy. unfold np_arctan2, np_cc.
  destruct (Rlt_dec 0 x) as [Hx|Hx].
  - destruct (Rlt_dec 0 (- x)); [lra|]. destruct (Rlt_dec (- x) 0); [|lra].
    replace (y / - x) with (- (y / x)) by (field; lra). rewrite atan_opp.
    destruct (Rlt_dec y 0), (Rlt_dec 0 y); lra.
  - destruct (Rlt_dec x 0) as [Hx'|Hx'].
    + destruct (Rlt_dec 0 (- x)); [|lra].
      replace (y / - x) with (- (y / x)) by (field; lra). rewrite atan_opp.
      destruct (Rlt_dec y 0), (Rlt_dec 0 y); lra.
    + destruct (Rlt_dec 0 (- x)); [lra|]. destruct (Rlt_dec (- x) 0); [lra|].
      destruct (Rlt_dec 0 y), (Rlt_dec y 0); lra.
Qed.

Lemma at2_hyps_satisfiable :
  (forall y x, y <> 0 -> np_arctan2 (- y) x = - np_arctan2 y x) /\
  (forall y x, y <> 0 -> np_arctan2 y (- x) = np_cc y - np_arctan2 y x).
Proof. split; [exact np_arctan2_odd|exact np_arctan2_refl]. Qed.

Lemma box_J_cut_all (eps : R) (pol : R * R * R) (j : nat) (px py pz : R) : 0 <= eps ->
  (forall x0 xm x1 y0 y1 z0 z1, x0 < xm < x1 ->
     clear_of eps (x1 - x0) px x0 -> clear_of eps (x1 - x0) px xm -> clear_of eps (x1 - x0) px x1 ->
     box_J eps pol j px py pz x0 x1 y0 y1 z0 z1 =
     box_J eps pol j px py pz x0 xm y0 y1 z0 z1 + box_J eps pol j px py pz xm x1 y0 y1 z0 z1) /\
  (forall x0 x1 y0 ym y1 z0 z1, y0 < ym < y1 ->
     clear_of eps (y1 - y0) py y0 -> clear_of eps (y1 - y0) py ym -> clear_of eps (y1 - y0) py y1 ->
     box_J eps pol j px py pz x0 x1 y0 y1 z0 z1 =
     box_J eps pol j px py pz x0 x1 y0 ym z0 z1 + box_J eps pol j px py pz x0 x1 ym y1 z0 z1) /\
  (forall x0 x1 y0 y1 z0 zm z1, z0 < zm < z1 ->
     clear_of eps (z1 - z0) pz z0 -> clear_of eps (z1 - z0) pz zm -> clear_of eps (z1 - z0) pz z1 ->
     box_J eps pol j px py pz x0 x1 y0 y1 z0 z1 =
     box_J eps pol j px py pz x0 x1 y0 y1 z0 zm + box_J eps pol j px py pz x0 x1 y0 y1 zm z1).
Proof.
  intros He. repeat split; intros.
  - apply box_J_cut_x; assumption.
  - apply box_J_cut_y; assumption.
  - apply box_J_cut_z; assumption.
Qed.
