(* rec_obj_remover / BaseCollection.remove: the child is found exactly when it is listed below the
   collection, and then exactly its (unique) listing is removed. *)
From Coq Require Import List Bool Arith PeanoNat Lia.
From MV Require Import Model.ForestModel Model.ForestExec Proofs.ForestInv Proofs.ForestBase
  Proofs.ForestOps.
Import ListNotations.

(* x is d >= 1 levels below p (through collections) *)
Inductive below (s : state) : nat -> nat -> nat -> Prop :=
| below_child p x : In x (chl s p) -> below s 1 p x
| below_step d p q x : In q (chl s p) -> is_coll s q = true -> below s d q x -> below s (S d) p x.

(* soundness of the fuel-bounded flattening *)
Lemma flat_sound s want x : forall f l, In x (flat f s want l) ->
  In x l \/ exists q d, In q l /\ is_coll s q = true /\ below s d q x /\ d <= f.
Proof.
  induction f as [|f IH]; intros l H; simpl in H.
  - left. apply filter_In in H. tauto.
  - apply in_flat_map in H. destruct H as (o & Ho & H). apply in_app_or in H. destruct H as [H|H].
    + destruct (want o); [|contradiction]. destruct H as [->|[]]. auto.
    + destruct (is_coll s o) eqn:Ec; [|contradiction]. right.
      apply IH in H. destruct H as [H|(q & d & Hq & Cq & B & Ld)].
      * exists o, 1. repeat split; auto. apply below_child. exact H. lia.
      * exists o, (S d). repeat split; auto. eapply below_step; eauto. lia.
Qed.

Lemma self_objs_below s c r x : mem x (self_objs s c r) = true ->
  exists d, below s d c x /\ d <= S (length s).
Proof.
  intros H. apply mem_In in H. unfold self_objs in H. destruct r.
  - unfold children_all in H. apply flat_sound in H. destruct H as [H|(q & d & Hq & Cq & B & Ld)].
    + exists 1. split; [apply below_child; auto | lia].
    + exists (S d). split; [eapply below_step; eauto | unfold fuel_of in Ld; lia].
  - apply filter_In in H. exists 1. split; [apply below_child; tauto | lia].
Qed.

(* ---------------------------------------------------------------- where x is listed *)
Definition nowhere (s : state) (x : nat) : Prop := forall q, ~ In x (chl s q).
(* p0 is the only lister of x and lists it once *)
Definition U (s : state) (x p0 : nat) : Prop :=
  (forall q, In x (chl s q) -> q = p0) /\ count x (chl s p0) = 1.

Lemma rm_at_chl s p x y :
  chl (rm_at s p x) y = if Nat.eqb y p && Nat.ltb p (length s) then remove_first x (chl s p)
                         else chl s y.
Proof. rewrite rm_at_setch, setch_chl. reflexivity. Qed.

Lemma U_nowhere s x p0 : U s x p0 -> nowhere (rm_at s p0 x) x.
Proof.
  intros [H1 H2] q Hq. rewrite rm_at_chl in Hq.
  destruct (Nat.eqb q p0 && Nat.ltb p0 (length s)) eqn:E.
  - apply count_pos in Hq. rewrite count_remove_first_same in Hq. lia.
  - apply H1 in Hq as E2. subst q. rewrite Nat.eqb_refl in E. simpl in E.
    apply chl_lt in Hq. apply Nat.ltb_lt in Hq. congruence.
Qed.

Lemma U_changes s x p0 : U s x p0 -> rm_at s p0 x <> s.
Proof.
  intros HU E. pose proof (U_nowhere _ _ _ HU p0) as N. rewrite E in N.
  destruct HU as [_ C]. apply N. apply count_pos. lia.
Qed.

(* ---------------------------------------------------------------- state equalities *)
Lemma upd_id s i f : f (get s i) = get s i -> upd s i f = s.
Proof.
  unfold get. revert i. induction s as [|o r IH]; intros [|i] H; simpl in *; auto.
  - congruence.
  - rewrite IH; auto.
Qed.

Lemma remove_first_absent x l : ~ In x l -> remove_first x l = l.
Proof.
  induction l as [|y r IH]; simpl; intros H; auto.
  destruct (Nat.eqb_spec y x); [exfalso; auto|]. rewrite IH; auto.
Qed.

Lemma refresh_id s p : views_ok s p -> refresh s p = s.
Proof.
  intros (A & B & C). unfold refresh. apply upd_id.
  rewrite <- A, <- B, <- C. destruct (get s p); reflexivity.
Qed.

Lemma rm_at_nowhere s p x : Views s -> nowhere s x -> rm_at s p x = s.
Proof.
  intros V N. unfold rm_at. rewrite remove_first_absent by apply N.
  assert (E : set_children s p (chl s p) = s).
  { unfold set_children. apply upd_id. destruct (get s p); reflexivity. }
  rewrite E. apply refresh_id. apply V.
Qed.

(* ---------------------------------------------------------------- the scan *)
Section Scan.
Variables (rec : state -> nat -> state * bool) (x : nat).

Lemma scan_post s1 p : Views s1 -> nowhere s1 x -> (forall o, rec s1 o = (s1, false)) ->
  forall l, exists r, rm_scan rec p x l s1 = (s1, r).
Proof.
  intros V N R. induction l as [|o rest IH]; simpl.
  - eauto.
  - destruct (Nat.eqb o x).
    + rewrite rm_at_nowhere by auto. eauto.
    + destruct (is_coll s1 o); auto. rewrite R. exact IH.
Qed.

Variables (s : state) (p0 : nat).
Hypothesis HU : U s x p0.
Hypothesis HV : Views s.
Let s1 := rm_at s p0 x.
Hypothesis Rpost : forall o, rec s1 o = (s1, false).
Hypothesis Rcases : forall o, rec s o = (s, false) \/ exists r, rec s o = (s1, r).

Lemma V1 : Views s1.
Proof. unfold s1. rewrite rm_at_setch. apply views_setch. exact HV. Qed.

Lemma scan_cases p : forall l, incl l (chl s p) ->
  rm_scan rec p x l s = (s, false) \/ exists r, rm_scan rec p x l s = (s1, r).
Proof.
  induction l as [|o rest IH]; intros Hl; simpl.
  - auto.
  - assert (Hr : incl rest (chl s p)) by (intros y Hy; apply Hl; right; exact Hy).
    destruct (Nat.eqb_spec o x).
    + subst o. right. assert (p = p0) by (apply HU; apply Hl; left; reflexivity). subst p. eauto.
    + destruct (is_coll s o); auto.
      destruct (Rcases o) as [E|(r & E)]; rewrite E.
      * auto.
      * right. destruct r; eauto.
        apply scan_post; auto using V1. apply U_nowhere. exact HU.
Qed.

Hypothesis f : nat.
Hypothesis Rfound : forall q d, below s d q x -> d <= f -> exists r, rec s q = (s1, r).

Lemma scan_found p : forall l, incl l (chl s p) ->
  (In x l \/ exists q d, In q l /\ is_coll s q = true /\ below s d q x /\ d <= f) ->
  exists r, rm_scan rec p x l s = (s1, r).
Proof.
  induction l as [|o rest IH]; intros Hl W; simpl.
  - destruct W as [[]|(q & d & [] & _)].
  - assert (Hr : incl rest (chl s p)) by (intros y Hy; apply Hl; right; exact Hy).
    destruct (Nat.eqb_spec o x).
    + subst o. assert (p = p0) by (apply HU; apply Hl; left; reflexivity). subst p. eauto.
    + destruct (is_coll s o) eqn:Ec.
      * destruct (Rcases o) as [E|(r & E)]; rewrite E.
        -- apply IH; auto. destruct W as [[W|W]|(q & d & [W|W] & Cq & B & Ld)].
           ++ congruence.
           ++ auto.
           ++ subst q. destruct (Rfound o d B Ld) as (r & E2). rewrite E in E2.
              inversion E2. exfalso. eapply U_changes; eauto.
           ++ right. eauto 8.
        -- destruct r; eauto. apply scan_post; auto using V1. apply U_nowhere. exact HU.
      * apply IH; auto. destruct W as [[W|W]|(q & d & [W|W] & Cq & B & Ld)].
        -- congruence.
        -- auto.
        -- subst q. congruence.
        -- right. eauto 8.
Qed.
End Scan.

(* ---------------------------------------------------------------- rec_rm *)
Lemma rec_rm_nowhere s x : Views s -> nowhere s x -> forall n p, rec_rm n s p x = (s, false).
Proof.
  intros V N. induction n as [|n IH]; intros p; simpl; auto.
  assert (G : forall l, ~ In x l ->
              rm_scan (fun s0 o => rec_rm n s0 o x) p x l s = (s, false)).
  { induction l as [|o rest IHl]; intros Hl; simpl; auto.
    destruct (Nat.eqb_spec o x); [exfalso; apply Hl; left; auto|].
    destruct (is_coll s o); [rewrite IH|]; apply IHl; intros C; apply Hl; right; exact C. }
  apply G. apply N.
Qed.

Lemma rec_rm_cases s x p0 : U s x p0 -> Views s -> forall n p,
  rec_rm n s p x = (s, false) \/ exists r, rec_rm n s p x = (rm_at s p0 x, r).
Proof.
  intros HU HV. induction n as [|n IH]; intros p; simpl; auto.
  apply (scan_cases _ x s p0 HU HV); auto using incl_refl.
  intros o. apply rec_rm_nowhere.
  - apply (V1 x s p0 HV).
  - apply U_nowhere. exact HU.
Qed.

Lemma rec_rm_found s x p0 : U s x p0 -> Views s -> forall n p d,
  below s d p x -> d <= n -> exists r, rec_rm n s p x = (rm_at s p0 x, r).
Proof.
  intros HU HV. induction n as [|n IH]; intros p d B Ld.
  - inversion B; subst; lia.
  - simpl. apply (scan_found _ x s p0 HU HV) with (f := n); auto using incl_refl.
    + intros o. apply rec_rm_nowhere.
      * apply (V1 x s p0 HV).
      * apply U_nowhere. exact HU.
    + intros o. apply rec_rm_cases; auto.
    + inversion B; subst.
      * left. assumption.
      * right. exists q, d0. repeat split; auto. lia.
Qed.
