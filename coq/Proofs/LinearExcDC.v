(* C05 -- dipole and circle: linear in moment / current (split from LinearExc.v) *)
From Coq Require Import Reals Lra ZArith Bool List Field.
From MV Require Import Model.CoreNum Model.CoreModel Model.CoreSpec Proofs.CoreProofs Proofs.LinearExcBase.
Open Scope R_scope.

Lemma dipole_inf_eq (m : R) : dipole_inf NumR m = m * / 0.
Proof.
  unfold dipole_inf. cbn. destruct (Reqb m 0) eqn:E; [|reflexivity].
  apply Reqb_true in E. subst. unfold c0. cbn. ring.
Qed.

Theorem dipole_linear (f : field) (mu0 : R) (o m1 m2 : RV3) (a b : R) :
  dipole_BH NumR f mu0 o (lin a b m1 m2)
  = lin a b (dipole_BH NumR f mu0 o m1) (dipole_BH NumR f mu0 o m2).
Proof.
  destruct o as [[x y] z], m1 as [[p1 p2] p3], m2 as [[q1 q2] q3].
  assert (H : dipole_H NumR (x, y, z) (lin a b (p1, p2, p3) (q1, q2, q3))
              = lin a b (dipole_H NumR (x, y, z) (p1, p2, p3)) (dipole_H NumR (x, y, z) (q1, q2, q3))).
  { unfold dipole_H, lin, Rvadd, Rvscale. rewrite !dipole_inf_eq.
    unfold_model. destr_ifs; apply triple_eq; unfold Rdiv; ring. }
  destruct f; unfold dipole_BH; rewrite H; [|reflexivity].
  destruct (dipole_H NumR (x, y, z) (p1, p2, p3)) as [[u1 u2] u3].
  destruct (dipole_H NumR (x, y, z) (q1, q2, q3)) as [[v1 v2] v3].
  unfold_model. unfold lin, Rvadd, Rvscale. apply triple_eq; ring.
Qed.

(* circle: which branch is taken does not depend on the current; on the modelled branches the
   field is linear in it (the general branch is not modelled: None) *)
Theorem circle_branch_indep (o : RV3) (d i1 i2 : R) :
  (circle_H NumR o d i1 = None <-> circle_H NumR o d i2 = None).
Proof.
  destruct o as [[x y] z]. unfold circle_H. destruct (circle_branch_of NumR (x, y, z) d); split; congruence.
Qed.

Theorem circle_linear (f : field) (mu0 : R) (o : RV3) (d i1 i2 a b : R) :
  circle_BH NumR f mu0 o d (a * i1 + b * i2)
  = match circle_BH NumR f mu0 o d i1, circle_BH NumR f mu0 o d i2 with
    | Some h1, Some h2 => Some (lin a b h1 h2)
    | _, _ => None
    end.
Proof.
  destruct o as [[x y] z]. unfold circle_BH, circle_H.
  destruct (circle_branch_of NumR (x, y, z) d); destruct f; try reflexivity;
    f_equal; unfold lin, Rvadd, Rvscale; unfold_model; apply triple_eq; unfold Rdiv; ring.
Qed.

(* non-vacuity: the general formulas are exercised off the degenerate sets *)
Lemma linear_nonvacuous :
  dipole_BH NumR FH 1 (1, 0, 0) (0, 0, 1) <> (0, 0, 0).
Proof.
  pose proof PI_RGT_0 as Hpi.
  rewrite (proj2 (dipole_B_spec 1 (1, 0, 0) (0, 0, 1) ltac:(intros H; inversion H; lra))).
  unfold point_dipole_H, Rnorm, Rdot. replace (1 * 1 + 0 * 0 + 0 * 0) with 1 by ring. rewrite sqrt_1.
  intros H. inversion H as [[H1 H2 H3]]. clear H1 H2 H. revert H3.
  replace ((3 * (0 * 1 + 0 * 0 + 1 * 0) * 0 / 1 ^ 5 - 1 / 1 ^ 3) / (4 * PI)) with (- / (4 * PI)) by (field; lra).
  intros H3. assert (0 < / (4 * PI)) by (apply Rinv_0_lt_compat; lra). lra.
Qed.
