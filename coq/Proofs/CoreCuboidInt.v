(* C01 stretch -- the Coulombian surface-charge integral of a rectangular face, as iterated
   one-dimensional Riemann integrals, in closed form (two applications of the fundamental theorem). *)
From Coq Require Import Reals Lra Lia Psatz ZArith Bool Nsatz.
From Coquelicot Require Import Coquelicot.
From MV Require Import Model.CoreNum Model.CoreSpec.
Open Scope R_scope.

Section Face.
Variable h : R.
Hypothesis Hh : 0 < h.

Definition rr (u v : R) := sqrt (u * u + v * v + h * h).
Lemma rr_pos u v : 0 < rr u v.
Proof. unfold rr. apply sqrt_lt_R0. nra. Qed.
Lemma rr_sq u v : rr u v * rr u v = u * u + v * v + h * h.
Proof. unfold rr. apply sqrt_sqrt. nra. Qed.

Definition kern (u v : R) := h / (rr u v * rr u v * rr u v).
Definition PP (u v : R) := h * v / ((u * u + h * h) * rr u v).
Definition GG (u v : R) := atan (u * v / (h * rr u v)).

Lemma PP_deriv u v : is_derive (fun v => PP u v) v (kern u v).
Proof.
  pose proof (rr_pos u v) as Hr. pose proof (rr_sq u v) as Hs.
  assert (Hu : 0 < u * u + h * h) by nra.
  unfold PP, kern, rr in *. auto_derive.
  - repeat split; try nra; try (apply Rgt_not_eq; apply Rmult_lt_0_compat; nra).
  - set (r := sqrt (u * u + v * v + h * h)) in *.
    remember (u * u) as U eqn:EU. clear EU.
    assert (HU : U = r * r - v * v - h * h) by lra.
    clearbody r. subst U. field. repeat split; lra.
Qed.

Lemma kern_cont u v : continuous (fun v => kern u v) v.
Proof.
  pose proof (rr_pos u v) as Hr.
  apply (ex_derive_continuous (fun v => kern u v) v). unfold kern, rr in *. auto_derive.
  repeat split; try nra; try (apply Rgt_not_eq; repeat apply Rmult_lt_0_compat; nra).
Qed.

Lemma GG_deriv u v : is_derive (fun u => GG u v) u (PP u v).
Proof.
  pose proof (rr_pos u v) as Hr. pose proof (rr_sq u v) as Hs.
  assert (Hu : 0 < u * u + h * h) by nra.
  unfold GG, PP, rr in *. auto_derive.
  - repeat split; try nra; try (apply Rgt_not_eq; apply Rmult_lt_0_compat; nra).
  - set (r := sqrt (u * u + v * v + h * h)) in *.
    clearbody r. clear Hu.
    assert (Hhr : 0 < h * r) by (apply Rmult_lt_0_compat; lra).
    field_simplify_eq.
    + replace (r ^ 2) with (u * u + v * v + h * h) by (rewrite <- Hs; ring). ring.
    + assert (H1 : 0 < h * r * (h * r)) by (apply Rmult_lt_0_compat; lra).
      assert (H2 : 0 < h * h) by (apply Rmult_lt_0_compat; lra).
      repeat split; try lra.
      * apply Rgt_not_eq. apply Rplus_le_lt_0_compat; [apply Rle_0_sqr | exact H2].
      * apply Rgt_not_eq. apply Rplus_lt_le_0_compat; [exact H1 | apply Rle_0_sqr].
Qed.
Lemma PP_cont_u u v : continuous (fun u => PP u v) u.
Proof.
  pose proof (rr_pos u v) as Hr.
  apply (ex_derive_continuous (fun u => PP u v) u). unfold PP, rr in *. auto_derive.
  assert (H2 : 0 < h * h) by (apply Rmult_lt_0_compat; lra).
  repeat split; try nra;
  try (apply Rgt_not_eq; apply Rmult_lt_0_compat; [|lra]; apply Rplus_le_lt_0_compat; [apply Rle_0_sqr | exact H2]).
Qed.

(* Int_A^B kern u t dt  and  Int_A^B PP t v dt *)
Lemma int_kern u A B : is_RInt (fun t => kern u t) A B (PP u B - PP u A).
Proof. apply (is_RInt_derive (fun t => PP u t) (fun t => kern u t)); intros t _; [apply PP_deriv | apply kern_cont]. Qed.
Lemma int_PP v A B : is_RInt (fun t => PP t v) A B (GG B v - GG A v).
Proof. apply (is_RInt_derive (fun t => GG t v) (fun t => PP t v)); intros t _; [apply GG_deriv | apply PP_cont_u]. Qed.

(* the same with the source point as integration variable: t = y - y' *)
Lemma int_kern_src u y b : is_RInt (fun y' => kern u (y - y')) (- b) b (PP u (y + b) - PP u (y - b)).
Proof.
  pose proof (int_kern u (-1 * (- b) + y) (-1 * b + y)) as H.
  apply (is_RInt_comp_lin (fun t => kern u t) (-1) y (- b) b) in H.
  apply is_RInt_opp in H.
  replace (PP u (y + b) - PP u (y - b)) with (opp (PP u (-1 * b + y) - PP u (-1 * - b + y))).
  - eapply is_RInt_ext; [|exact H]. intros t _. unfold opp, scal; simpl; unfold mult; simpl.
    replace (-1 * t + y) with (y - t) by ring. ring.
  - unfold opp; simpl. replace (-1 * b + y) with (y - b) by ring. replace (-1 * - b + y) with (y + b) by ring. ring.
Qed.

Lemma int_PP_src v x a : is_RInt (fun x' => PP (x - x') v) (- a) a (GG (x + a) v - GG (x - a) v).
Proof.
  pose proof (int_PP v (-1 * (- a) + x) (-1 * a + x)) as H.
  apply (is_RInt_comp_lin (fun t => PP t v) (-1) x (- a) a) in H.
  apply is_RInt_opp in H.
  replace (GG (x + a) v - GG (x - a) v) with (opp (GG (-1 * a + x) v - GG (-1 * - a + x) v)).
  - eapply is_RInt_ext; [|exact H]. intros t _. unfold opp, scal; simpl; unfold mult; simpl.
    replace (-1 * t + x) with (x - t) by ring. ring.
  - unfold opp; simpl. replace (-1 * a + x) with (x - a) by ring. replace (-1 * - a + x) with (x + a) by ring. ring.
Qed.

(* the iterated integral over the face [-a,a] x [-b,b] *)
Definition corner_sum (x y a b : R) : R :=
  GG (x + a) (y + b) - GG (x - a) (y + b) - (GG (x + a) (y - b) - GG (x - a) (y - b)).

Lemma face_iterated x y a b :
  is_RInt (fun x' => RInt (fun y' => kern (x - x') (y - y')) (- b) b) (- a) a (corner_sum x y a b).
Proof.
  apply (is_RInt_ext (fun x' => minus (PP (x - x') (y + b)) (PP (x - x') (y - b)))).
  - intros x' _. symmetry. apply is_RInt_unique. apply int_kern_src.
  - unfold corner_sum. apply (is_RInt_minus (V := R_NormedModule)); apply int_PP_src.
Qed.
End Face.


(* ------------------------------------------------------------------ link to the translated cuboid term ff1z *)
From MV Require Import Gen.GenCuboid Model.CuboidCore.

Lemma Ratan2_neg y x : x < 0 -> Ratan2 y x = atan (y / x) + (if Rlt_dec y 0 then - PI else PI).
Proof.
  intros Hx. unfold Ratan2. destruct (Rlt_dec 0 x); [lra|]. destruct (Rlt_dec x 0); [|lra].
  destruct (Rlt_dec y 0); ring.
Qed.

Lemma Ratan2_pair q x1 x2 : x1 < 0 -> x2 < 0 -> Ratan2 q x1 - Ratan2 q x2 = atan (q / x1) - atan (q / x2).
Proof. intros H1 H2. rewrite (Ratan2_neg q x1 H1), (Ratan2_neg q x2 H2). ring. Qed.

Lemma atan_GG h u v zz : 0 < h -> zz = - h ->
  atan (u * v / (zz * sqrt ((u ^ 2 + v ^ 2) + zz ^ 2))) = - GG h u v.
Proof.
  intros Hh ->. unfold GG, rr.
  replace ((u ^ 2 + v ^ 2) + (- h) ^ 2) with (u * u + v * v + h * h) by ring.
  assert (Hs : 0 < sqrt (u * u + v * v + h * h)) by (apply sqrt_lt_R0; nra).
  rewrite <- atan_opp. f_equal. field. split; lra.
Qed.

Lemma pair_GG hb ht u v zm zp : 0 < hb -> 0 < ht -> zm = - hb -> zp = - ht ->
  Ratan2 (u * v) (zm * sqrt ((u ^ 2 + v ^ 2) + zm ^ 2)) - Ratan2 (u * v) (zp * sqrt ((u ^ 2 + v ^ 2) + zp ^ 2))
  = GG ht u v - GG hb u v.
Proof.
  intros Hb Ht Em Ep.
  assert (S1 : 0 < sqrt ((u ^ 2 + v ^ 2) + zm ^ 2)) by (apply sqrt_lt_R0; subst; nra).
  assert (S2 : 0 < sqrt ((u ^ 2 + v ^ 2) + zp ^ 2)) by (apply sqrt_lt_R0; subst; nra).
  rewrite Ratan2_pair by (subst; nra).
  rewrite (atan_GG hb u v zm Hb Em), (atan_GG ht u v zp Ht Ep). ring.
Qed.

Lemma cuboid_ff1z_corner_sums x y z a b c : z + c < 0 -> z - c < 0 ->
  cub_term Ratan2 2 x y z a b c
  = corner_sum (- (z + c)) x y a b - corner_sum (- (z - c)) x y a b.
Proof.
  intros Hp Hm.
  unfold cub_term, cuboid_ff. cbv beta iota zeta delta [List.nth].
  set (ht := - (z + c)). set (hb := - (z - c)).
  assert (Ht : 0 < ht) by (unfold ht; lra). assert (Hb : 0 < hb) by (unfold hb; lra).
  pose proof (pair_GG hb ht (x - a) (y - b) (z - c) (z + c) Hb Ht ltac:(unfold hb; ring) ltac:(unfold ht; ring)) as P1.
  pose proof (pair_GG hb ht (x + a) (y - b) (z - c) (z + c) Hb Ht ltac:(unfold hb; ring) ltac:(unfold ht; ring)) as P2.
  pose proof (pair_GG hb ht (x - a) (y + b) (z - c) (z + c) Hb Ht ltac:(unfold hb; ring) ltac:(unfold ht; ring)) as P3.
  pose proof (pair_GG hb ht (x + a) (y + b) (z - c) (z + c) Hb Ht ltac:(unfold hb; ring) ltac:(unfold ht; ring)) as P4.
  unfold corner_sum. lra.
Qed.

(* face integrals (definitions in Model/CoreSpec.v) in closed form *)
Lemma face_integral_val h x y a b : 0 < h -> face_integral h x y a b = corner_sum h x y a b.
Proof.
  intros Hh. unfold face_integral. apply is_RInt_unique.
  apply (is_RInt_ext (fun x' => RInt (fun y' => kern h (x - x') (y - y')) (- b) b)).
  - intros x' _. reflexivity.
  - apply face_iterated. exact Hh.
Qed.

Lemma face_integral_exists h x y a b : 0 < h ->
  is_RInt (fun x' => RInt (fun y' => coulomb_kern h (x - x') (y - y')) (- b) b) (- a) a (face_integral h x y a b)
  /\ (forall x', is_RInt (fun y' => coulomb_kern h (x - x') (y - y')) (- b) b
                   (RInt (fun y' => coulomb_kern h (x - x') (y - y')) (- b) b)).
Proof.
  intros Hh. split.
  - rewrite (face_integral_val h x y a b Hh). apply (face_iterated h Hh).
  - intros x'. apply (RInt_correct (V := R_CompleteNormedModule)).
    exists (PP h (x - x') (y + b) - PP h (x - x') (y - b)). apply (int_kern_src h Hh).
Qed.

(* the stretch theorem: ff1z of the translated cuboid_ff, with numpy's arctan2, for an observer
   beyond the faces in z (folded frame: z + c < 0, z - c < 0) is the difference of the two
   Coulombian face integrals *)
Lemma cuboid_ff1z_is_coulomb x y z a b c : z + c < 0 -> z - c < 0 ->
  cub_term Ratan2 2 x y z a b c = face_integral (- (z + c)) x y a b - face_integral (- (z - c)) x y a b.
Proof.
  intros Hp Hm. rewrite (cuboid_ff1z_corner_sums x y z a b c Hp Hm).
  rewrite !face_integral_val by lra. reflexivity.
Qed.

(* ... and through the assembly of magnet_cuboid_Bfield (Model/CuboidCore.v: translated contribution table,
   octant flips, sign matrices): z-polarised cuboid, observer above the top face *)
Definition fold_x (x : R) : R := if Rltb x 0 then x * -1 else x.
Definition fold_y (y : R) : R := if Rltb 0 y then y * -1 else y.

Lemma cuboid_Bz_above_is_coulomb (x y z dx dy dz J : R) :
  0 < dz -> dz / 2 < z ->
  comp 2 (cuboid_B Ratan2 (x, y, z) (dx, dy, dz) (0, 0, J))
  = J / (4 * PI) * (face_integral (z - dz / 2) (fold_x x) (fold_y y) (dx / 2) (dy / 2)
                    - face_integral (z + dz / 2) (fold_x x) (fold_y y) (dx / 2) (dy / 2)).
Proof.
  intros Hdz Hz. pose proof PI_RGT_0 as Hpi.
  assert (Ez : Rltb 0 z = true) by (unfold Rltb; destruct (Rlt_dec 0 z); [reflexivity | lra]).
  unfold cuboid_B, comp.
  cbv beta iota zeta delta [cub_comp cuboid_contrib fold_right Nat.eqb cub_pick List.nth cub_qsigns sgn_mat
                            CuboidCore.qs_flipx CuboidCore.qs_flipy CuboidCore.qs_flipz].
  rewrite Ez.
  fold (fold_x x). fold (fold_y y).
  rewrite (cuboid_ff1z_is_coulomb (fold_x x) (fold_y y) (z * -1) (dx / 2) (dy / 2) (dz / 2)) by lra.
  replace (- (z * -1 + dz / 2)) with (z - dz / 2) by ring.
  replace (- (z * -1 - dz / 2)) with (z + dz / 2) by ring.
  destruct (Rltb x 0); destruct (Rltb 0 y); field; lra.
Qed.

Lemma cuboid_polz_above_is_coulomb_partial :
  (forall x y z dx dy dz J : R, 0 < dz -> dz / 2 < z ->
     comp 2 (cuboid_B Ratan2 (x, y, z) (dx, dy, dz) (0, 0, J))
     = J / (4 * PI) * (face_integral (z - dz / 2) (fold_x x) (fold_y y) (dx / 2) (dy / 2)
                       - face_integral (z + dz / 2) (fold_x x) (fold_y y) (dx / 2) (dy / 2)))
  /\ (forall h x y a b : R, 0 < h ->
        is_RInt (fun x' => RInt (fun y' => coulomb_kern h (x - x') (y - y')) (- b) b) (- a) a (face_integral h x y a b)
        /\ (forall x', is_RInt (fun y' => coulomb_kern h (x - x') (y - y')) (- b) b
                         (RInt (fun y' => coulomb_kern h (x - x') (y - y')) (- b) b))).
Proof. split; [exact cuboid_Bz_above_is_coulomb | exact face_integral_exists]. Qed.
