(* Level-2 data flow, part A: generic list lemmas + one group's vectorised evaluation equals the
   per-source, per-path-index, per-observer comprehension. *)
From Coq Require Import List Arith Bool Lia.
From MV Require Import Lib.Rigid Lib.ListIdx Model.Level2Model.
Import ListNotations.

Section Generic.
Context {A B C D : Type}.

Lemma map_nth_seq (d : A) (l : list A) : map (fun i => nth i l d) (seq 0 (length l)) = l.
Proof.
  induction l as [|x l IH]; [reflexivity|]. cbn [length seq map nth]. f_equal.
  rewrite <- seq_shift, map_map. exact IH.
Qed.

Lemma combine_map_same {X} (f : X -> A) (g : X -> B) (l : list X) :
  combine (map f l) (map g l) = map (fun x => (f x, g x)) l.
Proof. induction l as [|x l IH]; simpl; [reflexivity|]. rewrite IH. reflexivity. Qed.

Lemma concat_map_flat_map {X} (f : X -> list A) (l : list X) : concat (map f l) = flat_map f l.
Proof. symmetry. apply flat_map_concat_map. Qed.

Lemma combine4_repeat (p : A) (q : B) (pm : list C) (pr : D) n : length pm = n ->
  combine (combine (combine (repeat p n) (repeat q n)) pm) (repeat pr n)
  = map (fun o => (p, q, o, pr)) pm.
Proof.
  revert n; induction pm as [|o pm IH]; intros [|n] H; simpl in *; try discriminate; auto.
  f_equal. apply IH. lia.
Qed.

(* rows of ONE source: positions/orientations repeated per pixel, observers, property repeated *)
Lemma combine_rows (ps : list A) (qs : list B) (pms : list (list C)) (pr : D) n :
  length ps = length pms -> length qs = length pms -> (forall l, In l pms -> length l = n) ->
  combine (combine (combine (repeat_each n ps) (repeat_each n qs)) (concat pms))
          (repeat pr (length pms * n))
  = concat (map (fun pql => map (fun o => (fst (fst pql), snd (fst pql), o, pr)) (snd pql))
                (combine (combine ps qs) pms)).
Proof.
  revert ps qs; induction pms as [|pm pms IH]; intros ps qs Hp Hq Hn.
  - destruct ps, qs; try discriminate. reflexivity.
  - destruct ps as [|p ps], qs as [|q qs]; try discriminate.
    cbn [length] in Hp, Hq.
    assert (Hpm : length pm = n) by (apply Hn; left; reflexivity).
    rewrite !repeat_each_cons. cbn [concat combine map length fst snd].
    change (S (length pms) * n) with (n + length pms * n).
    rewrite repeat_app.
    rewrite (combine_app (repeat p n)) by (rewrite !repeat_length; reflexivity).
    rewrite (combine_app (combine (repeat p n) (repeat q n)))
      by (rewrite combine_length, !repeat_length, Hpm; lia).
    rewrite (combine_app (combine (combine (repeat p n) (repeat q n)) pm))
      by (rewrite !combine_length, !repeat_length, Hpm; lia).
    f_equal.
    + apply combine4_repeat. exact Hpm.
    + apply IH; [lia|lia|]. intros l Hl. apply Hn. right. exact Hl.
Qed.

End Generic.

Section GroupField.
Context {O : RigidOps}.
Variable P : Type.
Variable F : nat -> P -> V -> V.

Notation leaf := (@leaf O P).

(* block of one source: (path index, observer) comprehension *)
Definition leaf_block (k : nat) (M : nat) (pm : nat -> list V) (x : leaf) : block :=
  map (fun m => map (fun o => level1 P F k (nth m (l_pos x) vzero) (nth m (l_ori x) gone) o (l_prop x))
                    (pm m)) (seq 0 M).

Definition rows1 (n_pix n_pp : nat) (po : list V) (x : leaf) :=
  combine (combine (combine (repeat_each n_pix (l_pos x)) (repeat_each n_pix (l_ori x))) po)
          (repeat (l_prop x) n_pp).

Lemma rows_flat_map (gr : list leaf) M n_pix (po : list V) :
  (forall x, In x gr -> length (l_pos x) = M /\ length (l_ori x) = M) ->
  length po = M * n_pix ->
  combine (combine (combine (repeat_each n_pix (flat_map l_pos gr))
                            (repeat_each n_pix (flat_map l_ori gr)))
                   (tile (length gr) po))
          (repeat_each (M * n_pix) (map l_prop gr))
  = flat_map (rows1 n_pix (M * n_pix) po) gr.
Proof.
  intros Hgr Hpo. induction gr as [|x gr IH]; [reflexivity|].
  destruct (Hgr x (or_introl eq_refl)) as [Hp Hq].
  cbn [flat_map map length tile]. rewrite !repeat_each_app, repeat_each_cons.
  assert (L1 : length (repeat_each n_pix (l_pos x)) = M * n_pix) by (rewrite length_repeat_each, Hp; reflexivity).
  assert (L2 : length (repeat_each n_pix (l_ori x)) = M * n_pix) by (rewrite length_repeat_each, Hq; reflexivity).
  rewrite (combine_app (repeat_each n_pix (l_pos x))) by lia.
  rewrite (combine_app (combine _ _) _ po) by (rewrite combine_length; lia).
  rewrite (combine_app (combine (combine _ _) po)) by (rewrite !combine_length, repeat_length; lia).
  unfold rows1 at 1. f_equal. apply IH. intros y Hy. apply Hgr. right. exact Hy.
Qed.

Lemma length_rows1 n_pix M po (x : leaf) :
  length (l_pos x) = M -> length (l_ori x) = M -> length po = M * n_pix ->
  length (rows1 n_pix (M * n_pix) po x) = M * n_pix.
Proof.
  intros Hp Hq Hpo. unfold rows1.
  rewrite !combine_length, !length_repeat_each, repeat_length, Hp, Hq, Hpo. lia.
Qed.

Definition lvl (k : nat) (row : V * G * V * P) : V :=
  match row with (((p, r), o), pr) => level1 P F k p r o pr end.

Lemma rows1_block k M n_pix (pm : nat -> list V) (x : leaf) :
  length (l_pos x) = M -> length (l_ori x) = M ->
  (forall m, m < M -> length (pm m) = n_pix) ->
  chunks n_pix M (map (lvl k) (rows1 n_pix (M * n_pix) (flat_map pm (seq 0 M)) x))
  = leaf_block k M pm x.
Proof.
  intros Hp Hq Hpm. unfold rows1, leaf_block.
  rewrite <- concat_map_flat_map.
  replace (M * n_pix) with (length (map pm (seq 0 M)) * n_pix) by (rewrite map_length, seq_length; reflexivity).
  rewrite combine_rows.
  - rewrite <- (map_nth_seq vzero (l_pos x)) at 1. rewrite <- (map_nth_seq gone (l_ori x)) at 1.
    rewrite Hp, Hq, !combine_map_same, map_map. cbn [fst snd].
    rewrite concat_map, map_map, concat_map_flat_map.
    rewrite <- (seq_length M 0) at 1.
    rewrite chunks_flat_map.
    + apply map_ext. intros m. rewrite map_map. reflexivity.
    + intros m Hm. apply in_seq in Hm. rewrite !map_length. apply Hpm. lia.
  - rewrite map_length, seq_length. exact Hp.
  - rewrite map_length, seq_length. exact Hq.
  - intros l Hl. apply in_map_iff in Hl as [m [<- Hm]]. apply in_seq in Hm. apply Hpm. lia.
Qed.

Theorem group_field_spec k (gr : list leaf) M n_pix (pm : nat -> list V) :
  (forall x, In x gr -> length (l_pos x) = M /\ length (l_ori x) = M) ->
  (forall m, m < M -> length (pm m) = n_pix) ->
  group_field P F k gr M n_pix (M * n_pix) (flat_map pm (seq 0 M)) = map (leaf_block k M pm) gr.
Proof.
  intros Hgr Hpm. unfold group_field.
  assert (Hpo : length (flat_map pm (seq 0 M)) = M * n_pix).
  { rewrite (length_flat_map_const n_pix), seq_length; [reflexivity|].
    intros m Hm. apply in_seq in Hm. apply Hpm. lia. }
  rewrite rows_flat_map by assumption.
  change (fun row : V * G * V * P => let (y, pr) := row in let (y0, o) := y in let (p, r) := y0 in
          level1 P F k p r o pr) with (lvl k).
  rewrite (flat_map_concat_map (rows1 _ _ _)), concat_map, map_map, concat_map_flat_map.
  rewrite chunks_flat_map.
  - rewrite map_map. apply map_ext_in. intros x Hx.
    destruct (Hgr x Hx) as [Hp Hq]. apply rows1_block; assumption.
  - intros x Hx. destruct (Hgr x Hx) as [Hp Hq]. rewrite map_length. apply length_rows1; assumption.
Qed.

End GroupField.
