(* C12 -- rational evaluator (no dependency on generated files).  Refutations: a rational evaluator for Dim expressions, sound w.r.t. the real semantics, used to
   machine-check that a NON-homogeneous comparison of the current tree really decides differently after a
   change of the length unit (and that a non-homogeneous value really breaks its scale law).

   evalQ / evalbQ : evaluation over Q of the fragment without opaque functions and without pi; sqrt is
   defined on perfect rational squares only (otherwise None).  Soundness: whenever evalQ gives Some q, the
   real semantics Dim.eval under the valuation x |-> Q2R (rho x) gives Some (Q2R q), for EVERY interpretation
   of the opaque functions.  A refutation is then a boolean computation (vm_compute). *)
From Coq Require Import Reals QArith Qreals Qabs ZArith String List Bool Lia Lra FunctionalExtensionality.
From Coq Require Import RMicromega.
From MV Require Import Lib.Dim.
Import ListNotations.

Open Scope Q_scope.
Definition Qltb (a b : Q) : bool := negb (Qle_bool b a).
Definition absQ (x : Q) : Q := if Qle_bool 0 x then x else - x.
Definition minQ (x y : Q) : Q := if Qle_bool x y then x else y.
Definition maxQ (x y : Q) : Q := if Qle_bool x y then y else x.
Definition sgnQ (x : Q) : Q := if Qltb 0 x then 1 else if Qltb x 0 then - (1) else 0.
Fixpoint powQ (x : Q) (n : nat) : Q := match n with O => 1 | S n => x * powQ x n end.
(* square root of a perfect rational square *)
Definition sqrtQ (x : Q) : option Q :=
  let y := Qred x in
  let q := Z.sqrt (Qnum y) # Z.to_pos (Z.sqrt (Zpos (Qden y))) in
  if Qeq_bool (q * q) x && Qle_bool 0 q then Some q else None.

Definition olift2 (f : Q -> Q -> Q) (a b : option Q) : option Q :=
  match a, b with Some x, Some y => Some (f x y) | _, _ => None end.
Definition ocmp2 (f : Q -> Q -> bool) (a b : option Q) : option bool :=
  match a, b with Some x, Some y => Some (f x y) | _, _ => None end.

Section EvalQ.
Variable rho : string -> Q.
Fixpoint evalQ (e : dexpr) : option Q :=
  match e with
  | Var x => Some (rho x)
  | Const n d => Some (n # d)
  | CPi => None
  | Add a b => olift2 Qplus (evalQ a) (evalQ b)
  | Sub a b => olift2 Qminus (evalQ a) (evalQ b)
  | Mul a b => olift2 Qmult (evalQ a) (evalQ b)
  | Div a b => match evalQ a, evalQ b with
               | Some x, Some y => if Qeq_bool y 0 then None else Some (x / y)
               | _, _ => None
               end
  | Neg a => option_map Qopp (evalQ a)
  | Abs a => option_map absQ (evalQ a)
  | Sqrt a => match evalQ a with Some x => sqrtQ x | None => None end
  | Pow a n => option_map (fun x => powQ x n) (evalQ a)
  | Sign a => option_map sgnQ (evalQ a)
  | Min a b => olift2 minQ (evalQ a) (evalQ b)
  | Max a b => olift2 maxQ (evalQ a) (evalQ b)
  | Fn0 _ _ => None
  | FnH _ _ => None
  | Ite c a b => match evalbQ c with
                 | Some true => evalQ a
                 | Some false => evalQ b
                 | None => None
                 end
  end
with evalbQ (c : bexpr) : option bool :=
  match c with
  | BLt a b => ocmp2 Qltb (evalQ a) (evalQ b)
  | BLe a b => ocmp2 Qle_bool (evalQ a) (evalQ b)
  | BEq a b => ocmp2 Qeq_bool (evalQ a) (evalQ b)
  | BAnd c d => bool2 andb (evalbQ c) (evalbQ d)
  | BOr c d => bool2 orb (evalbQ c) (evalbQ d)
  | BNot c => option_map negb (evalbQ c)
  | BConst b => Some b
  | BUnknown _ => None
  end.
Lemma evalQ_Ite c a b : evalQ (Ite c a b) =
  match evalbQ c with Some true => evalQ a | Some false => evalQ b | None => None end.
Proof. reflexivity. Qed.
Lemma evalbQ_BLt a b : evalbQ (BLt a b) = ocmp2 Qltb (evalQ a) (evalQ b).
Proof. reflexivity. Qed.
Lemma evalbQ_BLe a b : evalbQ (BLe a b) = ocmp2 Qle_bool (evalQ a) (evalQ b).
Proof. reflexivity. Qed.
Lemma evalbQ_BEq a b : evalbQ (BEq a b) = ocmp2 Qeq_bool (evalQ a) (evalQ b).
Proof. reflexivity. Qed.
End EvalQ.
Close Scope Q_scope.

Open Scope R_scope.

(* ------------------------------------------------------------------ Q2R and the operations *)
Lemma Qle_bool_R x y : Qle_bool x y = rleb (Q2R x) (Q2R y).
Proof.
  unfold rleb. destruct (Rle_dec (Q2R x) (Q2R y)) as [H|H].
  - apply Qle_bool_iff. apply Rle_Qle. exact H.
  - destruct (Qle_bool x y) eqn:E; [|reflexivity]. exfalso. apply H. apply Qle_Rle. apply Qle_bool_iff. exact E.
Qed.

Lemma Qltb_R x y : Qltb x y = rltb (Q2R x) (Q2R y).
Proof.
  unfold Qltb, rltb. rewrite Qle_bool_R. unfold rleb.
  destruct (Rle_dec (Q2R y) (Q2R x)), (Rlt_dec (Q2R x) (Q2R y)); simpl; try reflexivity; lra.
Qed.

Lemma Qeq_bool_R x y : Qeq_bool x y = reqb (Q2R x) (Q2R y).
Proof.
  unfold reqb. destruct (Req_EM_T (Q2R x) (Q2R y)) as [H|H].
  - apply Qeq_bool_iff. apply eqR_Qeq. exact H.
  - destruct (Qeq_bool x y) eqn:E; [|reflexivity]. exfalso. apply H. apply Qeq_eqR. apply Qeq_bool_iff. exact E.
Qed.

Lemma Q2R_0' : Q2R 0 = 0.
Proof. exact Q2R_0. Qed.
Lemma Q2R_1' : Q2R 1 = 1.
Proof. unfold Q2R. simpl. lra. Qed.

Lemma Q2R_abs x : Q2R (absQ x) = Rabs (Q2R x).
Proof.
  unfold absQ. rewrite Qle_bool_R, Q2R_0'. unfold rleb. destruct (Rle_dec 0 (Q2R x)) as [H|H].
  - rewrite Rabs_pos_eq by exact H. reflexivity.
  - rewrite Q2R_opp. rewrite Rabs_left by lra. reflexivity.
Qed.

Lemma Q2R_min x y : Q2R (minQ x y) = Rmin (Q2R x) (Q2R y).
Proof. unfold minQ, Rmin. rewrite Qle_bool_R. unfold rleb. destruct (Rle_dec (Q2R x) (Q2R y)); reflexivity. Qed.

Lemma Q2R_max x y : Q2R (maxQ x y) = Rmax (Q2R x) (Q2R y).
Proof. unfold maxQ, Rmax. rewrite Qle_bool_R. unfold rleb. destruct (Rle_dec (Q2R x) (Q2R y)); reflexivity. Qed.

Lemma Q2R_sgn x : Q2R (sgnQ x) = sgn (Q2R x).
Proof.
  unfold sgnQ, sgn. rewrite !Qltb_R, Q2R_0'. unfold rltb.
  destruct (Rlt_dec 0 (Q2R x)); [apply Q2R_1'|].
  destruct (Rlt_dec (Q2R x) 0); [rewrite Q2R_opp, Q2R_1'; reflexivity | apply Q2R_0'].
Qed.

Lemma Q2R_pow x n : Q2R (powQ x n) = Q2R x ^ n.
Proof. induction n as [|n IH]; simpl; [apply Q2R_1'|]. rewrite Q2R_mult, IH. reflexivity. Qed.

Lemma Q2R_sqrt x q : sqrtQ x = Some q -> 0 <= Q2R x /\ sqrt (Q2R x) = Q2R q.
Proof.
  unfold sqrtQ. set (r := (Z.sqrt (Qnum (Qred x)) # Z.to_pos (Z.sqrt (Z.pos (Qden (Qred x)))))%Q).
  destruct (Qeq_bool (r * r) x) eqn:E; simpl; [|discriminate].
  destruct (Qle_bool 0 r) eqn:P; [|discriminate]. intros H. inversion H; subst q.
  apply Qeq_bool_iff in E. apply Qeq_eqR in E. rewrite Q2R_mult in E.
  rewrite Qle_bool_R, Q2R_0' in P. unfold rleb in P. destruct (Rle_dec 0 (Q2R r)) as [Hr|]; [|discriminate].
  rewrite <- E. split; [apply Rmult_le_pos; assumption | apply sqrt_square; assumption].
Qed.

(* ------------------------------------------------------------------ soundness of the rational evaluator *)
Section Sound.
Variable fn0 fnh : string -> list R -> option R.
Variable rho : string -> Q.
Local Notation rhoR := (fun x : string => Q2R (rho x)).

Theorem evalQ_sound :
  (forall e q, evalQ rho e = Some q -> eval fn0 fnh rhoR e = Some (Q2R q)) /\
  (forall c b, evalbQ rho c = Some b -> evalb fn0 fnh rhoR c = Some b) /\
  (forall l : dargs, True).
Proof.
  apply dim_mutind; try (intros; exact I).
  - (* Var *) intros x q H. inversion H. reflexivity.
  - (* Const *) intros n d q H. inversion H. cbn. unfold Q2R. simpl. reflexivity.
  - (* CPi *) intros q H. discriminate.
  - (* Add *) intros a IHa b IHb q H. cbn in H |- *.
    destruct (evalQ rho a) as [x|]; [|discriminate]. destruct (evalQ rho b) as [y|]; [|discriminate].
    rewrite (IHa x eq_refl), (IHb y eq_refl). inversion H. cbn. rewrite Q2R_plus. reflexivity.
  - (* Sub *) intros a IHa b IHb q H. cbn in H |- *.
    destruct (evalQ rho a) as [x|]; [|discriminate]. destruct (evalQ rho b) as [y|]; [|discriminate].
    rewrite (IHa x eq_refl), (IHb y eq_refl). inversion H. cbn. rewrite Q2R_minus. reflexivity.
  - (* Mul *) intros a IHa b IHb q H. cbn in H |- *.
    destruct (evalQ rho a) as [x|]; [|discriminate]. destruct (evalQ rho b) as [y|]; [|discriminate].
    rewrite (IHa x eq_refl), (IHb y eq_refl). inversion H. cbn. rewrite Q2R_mult. reflexivity.
  - (* Div *) intros a IHa b IHb q H. cbn in H |- *.
    destruct (evalQ rho a) as [x|]; [|discriminate]. destruct (evalQ rho b) as [y|]; [|discriminate].
    rewrite (IHa x eq_refl), (IHb y eq_refl).
    destruct (Qeq_bool y 0) eqn:E; [discriminate|]. inversion H.
    assert (Hy : ~ (y == 0)%Q) by (intros K; apply Qeq_bool_iff in K; congruence).
    destruct (Req_EM_T (Q2R y) 0) as [K|K].
    + exfalso. apply Hy. apply eqR_Qeq. rewrite K, Q2R_0'. reflexivity.
    + rewrite Q2R_div by exact Hy. reflexivity.
  - (* Neg *) intros a IHa q H. cbn in H |- *. destruct (evalQ rho a) as [x|]; [|discriminate].
    rewrite (IHa x eq_refl). inversion H. cbn. rewrite Q2R_opp. reflexivity.
  - (* Abs *) intros a IHa q H. cbn in H |- *. destruct (evalQ rho a) as [x|]; [|discriminate].
    rewrite (IHa x eq_refl). inversion H. cbn. rewrite Q2R_abs. reflexivity.
  - (* Sqrt *) intros a IHa q H. cbn in H |- *. destruct (evalQ rho a) as [x|]; [|discriminate].
    rewrite (IHa x eq_refl). destruct (Q2R_sqrt x q H) as [Hp Hs].
    destruct (Rle_dec 0 (Q2R x)); [|contradiction]. rewrite Hs. reflexivity.
  - (* Pow *) intros a IHa n q H. cbn in H |- *. destruct (evalQ rho a) as [x|]; [|discriminate].
    rewrite (IHa x eq_refl). inversion H. cbn. rewrite Q2R_pow. reflexivity.
  - (* Sign *) intros a IHa q H. cbn in H |- *. destruct (evalQ rho a) as [x|]; [|discriminate].
    rewrite (IHa x eq_refl). inversion H. cbn. rewrite Q2R_sgn. reflexivity.
  - (* Min *) intros a IHa b IHb q H. cbn in H |- *.
    destruct (evalQ rho a) as [x|]; [|discriminate]. destruct (evalQ rho b) as [y|]; [|discriminate].
    rewrite (IHa x eq_refl), (IHb y eq_refl). inversion H. cbn. rewrite Q2R_min. reflexivity.
  - (* Max *) intros a IHa b IHb q H. cbn in H |- *.
    destruct (evalQ rho a) as [x|]; [|discriminate]. destruct (evalQ rho b) as [y|]; [|discriminate].
    rewrite (IHa x eq_refl), (IHb y eq_refl). inversion H. cbn. rewrite Q2R_max. reflexivity.
  - (* Fn0 *) intros f args _ q H. discriminate.
  - (* FnH *) intros f args _ q H. discriminate.
  - (* Ite *) intros c IHc a IHa b IHb q H. rewrite eval_Ite. rewrite evalQ_Ite in H.
    destruct (evalbQ rho c) as [[|]|] eqn:E; [| |discriminate H]; rewrite (IHc _ eq_refl); auto.
  - (* BLt *) intros a IHa b IHb r H. rewrite evalb_BLt. rewrite evalbQ_BLt in H. unfold ocmp2 in H.
    destruct (evalQ rho a) as [x|]; [|discriminate]. destruct (evalQ rho b) as [y|]; [|discriminate].
    rewrite (IHa x eq_refl), (IHb y eq_refl). inversion H. cbn. rewrite Qltb_R. reflexivity.
  - (* BLe *) intros a IHa b IHb r H. rewrite evalb_BLe. rewrite evalbQ_BLe in H. unfold ocmp2 in H.
    destruct (evalQ rho a) as [x|]; [|discriminate]. destruct (evalQ rho b) as [y|]; [|discriminate].
    rewrite (IHa x eq_refl), (IHb y eq_refl). inversion H. cbn. rewrite Qle_bool_R. reflexivity.
  - (* BEq *) intros a IHa b IHb r H. rewrite evalb_BEq. rewrite evalbQ_BEq in H. unfold ocmp2 in H.
    destruct (evalQ rho a) as [x|]; [|discriminate]. destruct (evalQ rho b) as [y|]; [|discriminate].
    rewrite (IHa x eq_refl), (IHb y eq_refl). inversion H. cbn. rewrite Qeq_bool_R. reflexivity.
  - (* BAnd *) intros c IHc d IHd r H. cbn in H |- *.
    destruct (evalbQ rho c) as [x|]; [|discriminate]. destruct (evalbQ rho d) as [y|]; [|discriminate].
    rewrite (IHc x eq_refl), (IHd y eq_refl). exact H.
  - (* BOr *) intros c IHc d IHd r H. cbn in H |- *.
    destruct (evalbQ rho c) as [x|]; [|discriminate]. destruct (evalbQ rho d) as [y|]; [|discriminate].
    rewrite (IHc x eq_refl), (IHd y eq_refl). exact H.
  - (* BNot *) intros c IHc r H. cbn in H |- *. destruct (evalbQ rho c) as [x|]; [|discriminate].
    rewrite (IHc x eq_refl). exact H.
  - (* BConst *) intros b r H. exact H.
  - (* BUnknown *) intros s r H. discriminate.
Qed.
End Sound.

(* ------------------------------------------------------------------ scaling over Q *)
Definition scaleQ (G : env) (t : Q) (rho : string -> Q) : string -> Q :=
  fun x => match G x with Some k => (t ^ k * rho x)%Q | None => rho x end.

Lemma scaleQ_R G t rho : ~ (t == 0)%Q ->
  (fun x => Q2R (scaleQ G t rho x)) = scale G (Q2R t) (fun x => Q2R (rho x)).
Proof.
  intros Ht. apply functional_extensionality. intros x. unfold scaleQ, scale.
  destruct (G x) as [k|]; [|reflexivity]. rewrite Q2R_mult. rewrite Q2RpowerRZ by (left; exact Ht). reflexivity.
Qed.

