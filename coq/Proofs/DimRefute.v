(* C12 -- refutations of the non-homogeneous obligations of the current tree, by the rational evaluator of
   DimQ.v (sound w.r.t. the real semantics): a boolean computation shows that a comparison decides
   differently / a value breaks its scale law after a change of the length unit. *)
From Coq Require Import Reals QArith Qreals ZArith String List Bool Lia Lra.
From Coq Require Import RMicromega.
From MV Require Import Lib.Dim Gen.GenTol Proofs.DimProofs Proofs.DimQ.
Import ListNotations.
Open Scope R_scope.

(* a comparison whose decision changes with the length unit *)
Definition refutes (f : fn_record) (c : bexpr) : Prop :=
  exists (rho : string -> R) (t : R), 0 < t /\
    forall fn0 fnh : string -> list R -> option R,
      evalb fn0 fnh (scale (Glen f) t rho) c <> evalb fn0 fnh rho c.

(* a value that violates the scale law of degree k *)
Definition refutes_deg (f : fn_record) (k : Z) (e : dexpr) : Prop :=
  exists (rho : string -> R) (t : R), 0 < t /\
    forall fn0 fnh : string -> list R -> option R,
      eval fn0 fnh (scale (Glen f) t rho) e <> option_map (Rmult (powerRZ t k)) (eval fn0 fnh rho e).

Definition assocQ (l : list (string * Q)) : string -> Q :=
  fun x => match find (fun p => String.eqb x (fst p)) l with Some p => snd p | None => 0%Q end.

Definition refuteQ (f : fn_record) (c : bexpr) (t : Q) (l : list (string * Q)) : bool :=
  Qltb 0 t &&
  match evalbQ (assocQ l) c, evalbQ (scaleQ (Glen f) t (assocQ l)) c with
  | Some a, Some b => negb (eqb a b)
  | _, _ => false
  end.

Definition refuteQ_deg (f : fn_record) (k : Z) (e : dexpr) (t : Q) (l : list (string * Q)) : bool :=
  Qltb 0 t &&
  match evalQ (assocQ l) e, evalQ (scaleQ (Glen f) t (assocQ l)) e with
  | Some a, Some b => negb (Qeq_bool b (t ^ k * a))
  | _, _ => false
  end.

Lemma Qltb_pos t : Qltb 0 t = true -> 0 < Q2R t /\ ~ (t == 0)%Q.
Proof.
  rewrite Qltb_R, Q2R_0'. unfold rltb. destruct (Rlt_dec 0 (Q2R t)) as [H|]; [|discriminate]. intros _.
  split; [exact H|]. intros K. apply Qeq_eqR in K. rewrite Q2R_0' in K. lra.
Qed.

Lemma refuteQ_sound f c t l : refuteQ f c t l = true -> refutes f c.
Proof.
  unfold refuteQ. intros H. apply andb_prop in H. destruct H as [Ht H].
  destruct (Qltb_pos t Ht) as [Hp Hn].
  destruct (evalbQ (assocQ l) c) as [a|] eqn:Ea; [|discriminate].
  destruct (evalbQ (scaleQ (Glen f) t (assocQ l)) c) as [b|] eqn:Eb; [|discriminate].
  exists (fun x => Q2R (assocQ l x)), (Q2R t). split; [exact Hp|]. intros fn0 fnh.
  rewrite (proj1 (proj2 (evalQ_sound fn0 fnh (assocQ l))) c a Ea).
  rewrite <- (scaleQ_R (Glen f) t (assocQ l) Hn).
  rewrite (proj1 (proj2 (evalQ_sound fn0 fnh (scaleQ (Glen f) t (assocQ l)))) c b Eb).
  intros K. inversion K. subst. rewrite eqb_reflx in H. discriminate.
Qed.

Lemma refuteQ_deg_sound f k e t l : refuteQ_deg f k e t l = true -> refutes_deg f k e.
Proof.
  unfold refuteQ_deg. intros H. apply andb_prop in H. destruct H as [Ht H].
  destruct (Qltb_pos t Ht) as [Hp Hn].
  destruct (evalQ (assocQ l) e) as [a|] eqn:Ea; [|discriminate].
  destruct (evalQ (scaleQ (Glen f) t (assocQ l)) e) as [b|] eqn:Eb; [|discriminate].
  exists (fun x => Q2R (assocQ l x)), (Q2R t). split; [exact Hp|]. intros fn0 fnh.
  rewrite (proj1 (evalQ_sound fn0 fnh (assocQ l)) e a Ea).
  rewrite <- (scaleQ_R (Glen f) t (assocQ l) Hn).
  rewrite (proj1 (evalQ_sound fn0 fnh (scaleQ (Glen f) t (assocQ l))) e b Eb).
  cbn. intros K. inversion K as [K1].
  rewrite <- Q2RpowerRZ in K1 by (left; exact Hn). rewrite <- Q2R_mult in K1. apply eqR_Qeq in K1.
  apply Qeq_bool_iff in K1. rewrite K1 in H. discriminate.
Qed.

(* ------------------------------------------------------------------ picking an obligation by its id *)
Open Scope string_scope.
Fixpoint assoc_cmp (id : string) (l : list (string * list bexpr)) : option (list bexpr) :=
  match l with [] => None | (i, cs) :: r => if String.eqb id i then Some cs else assoc_cmp id r end.
Definition pick_cmp (f : fn_record) (id : string) (n : nat) : bexpr :=
  match assoc_cmp id (fn_cmps f) with Some cs => nth n cs (BConst true) | None => BConst true end.
Fixpoint assoc_deg (id : string) (l : list (string * (Z * Z) * dexpr)) : option dexpr :=
  match l with [] => None | (i, _, e) :: r => if String.eqb id i then Some e else assoc_deg id r end.
Definition pick_arg (f : fn_record) (id : string) : dexpr :=
  match assoc_deg id (fn_args f) with Some e => e | None => Const 0 1 end.
(* BConst true and Const 0 are never refutable, so a refutation of a picked obligation shows it exists *)

(* ------------------------------------------------------------------ the records of the open entry points *)
Definition cylseg_rec : fn_record :=
  mkFn "cylinder_segment" env_len_cylinder_segment env_exc_cylinder_segment cmps_cylinder_segment
       rets_cylinder_segment args_cylinder_segment.
Definition cases_rec : fn_record :=
  mkFn "cylinder_segment_cases" env_len_cylinder_segment_cases env_exc_cylinder_segment_cases
       cmps_cylinder_segment_cases rets_cylinder_segment_cases args_cylinder_segment_cases.

Lemma recs_in_functions :
  In cylseg_rec functions /\ In cases_rec functions.
Proof. unfold functions. repeat split; simpl; tauto. Qed.

(* all refutations use the unit change t = 2 (every length multiplied by 4); unnamed variables are 0 *)
Open Scope Q_scope.

(* BHJM_cylinder_segment: r < r2 + 1e-14 -- observer (3,4,0), r2 = 5 - 5e-15 *)
Lemma cylseg_margin_refuted :
  refutes cylseg_rec (pick_cmp cylseg_rec "cylinder_segment>BHJM_cylinder_segment>r < r2 + 1e-14" 0).
Proof.
  apply (refuteQ_sound _ _ 2 [("0.0.observers@cylinder_segment", 3); ("0.1.observers@cylinder_segment", 4);
                              ("0.1.dimension@cylinder_segment", 999999999999999 # 200000000000000)]).
  vm_compute. reflexivity.
Qed.

(* BHJM_cylinder_segment: close(r, r2) = isclose(rtol=1e-12, atol=1e-12) -- r = 0.005, r2 = 0.005 - 1e-12 *)
Lemma cylseg_close_refuted :
  refutes cylseg_rec (pick_cmp cylseg_rec
    "cylinder_segment>BHJM_cylinder_segment>close(r, r2)>np.isclose(arg1, arg2, rtol=1e-12, atol=1e-12)" 0).
Proof.
  apply (refuteQ_sound _ _ 2 [("0.0.observers@cylinder_segment", 3 # 1000); ("0.1.observers@cylinder_segment", 4 # 1000);
                              ("0.1.dimension@cylinder_segment", 4999999999 # 1000000000000)]).
  vm_compute. reflexivity.
Qed.

(* determine_cases: close(r, 0) -- r = 5e-13 *)
Lemma cases_close_refuted :
  refutes cases_rec (pick_cmp cases_rec
    "cylinder_segment_cases>determine_cases>close(r, 0)>np.isclose(arg1, arg2, rtol=1e-12, atol=1e-12)" 0).
Proof.
  apply (refuteQ_sound _ _ 2 [("0.r@cylinder_segment_cases", 1 # 2000000000000)]).
  vm_compute. reflexivity.
Qed.
