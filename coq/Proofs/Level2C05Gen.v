(* C05 -- the collection loop TRANSLATED from /repo on this run (Gen/GenReduce.v) is the loop of the
   hand model (Model/Level2Model.v), so every theorem about reduce_loop / getBH speaks about the
   statements that are in the source now. *)
From Coq Require Import List Arith Bool Lia.
From MV Require Import Lib.Rigid Lib.ListIdx Model.Level2Model Gen.GenReduce Proofs.Level2C.
Import ListNotations.

Section GenLoop.
Context {O : RigidOps}.
Variable P : Type.

Lemma gen_reduce_loop_eq (srcs : list (srcin P)) : forall i B,
  gen_reduce_loop P srcs i B = reduce_loop P srcs i B.
Proof.
  induction srcs as [|s r IH]; intros i B; [reflexivity|].
  cbn [gen_reduce_loop reduce_loop]. rewrite IH. destruct s as [x|ls]; [reflexivity|].
  cbv zeta. replace (i + length ls - i) with (length ls) by lia. reflexivity.
Qed.

Lemma gen_reduce_collections_eq (srcs : list (srcin P)) B :
  gen_reduce_collections P srcs B = reduce_collections P srcs B.
Proof. unfold gen_reduce_collections, reduce_collections. rewrite gen_reduce_loop_eq. reflexivity. Qed.

Theorem gen_reduce_collections_spec (blockof : leaf P -> block) (srcs : list (srcin P)) :
  (forall s, In s srcs -> leaves s <> []) ->
  gen_reduce_collections P srcs (map blockof (src_list srcs))
  = map (fun s => sum_blocks (map blockof (leaves s))) srcs.
Proof. intros H. rewrite gen_reduce_collections_eq. apply reduce_collections_spec, H. Qed.

(* the translated sumup statement is the last step of the model *)
Lemma gen_sumup_eq (sumup : bool) (o : out_t) : gen_sumup sumup o = if sumup then sum_out o else o.
Proof. reflexivity. Qed.

End GenLoop.
