(* C01 -- current_polyline_Hfield (model polyline_H_br over R) equals the Biot-Savart integral of
   the straight segment: the algebraic link between the model's intermediate norms and (t, d). *)
From Coq Require Import Reals Lra Lia Psatz ZArith Bool Nsatz.
From Coquelicot Require Import Coquelicot.
From MV Require Import Model.CoreNum Model.CoreModel Model.CoreSpec Proofs.CoreProofs Proofs.CoreIntegrals.
Open Scope R_scope.

Lemma sqrt_sq_abs x : sqrt (x * x) = Rabs x.
Proof. apply sqrt_Rsqr_abs. Qed.

(* ---- the normalised part: end points q1, q2 at distance 1, observer qo *)
Section Norm.
Variables (x1 y1 z1 ex ey ez wx wy wz L cur : R).
Hypothesis Hunit : ex * ex + ey * ey + ez * ez = 1.
Hypothesis HL : 0 < L.

(* q2 = q1 - e, qo = q1 + w *)
Let q1 : RV3 := (x1, y1, z1).
Let q2 : RV3 := (x1 - ex, y1 - ey, z1 - ez).
Let qo : RV3 := (x1 + wx, y1 + wy, z1 + wz).
Let t := wx * ex + wy * ey + wz * ez.
(* X = (q2 - q1) x (qo - q1) = - e x w *)
Let X : RV3 := (- ey * wz + ez * wy, - ez * wx + ex * wz, - ex * wy + ey * wx).
Let d := sqrt (Rdot X X).

Lemma XX_val : Rdot X X = wx * wx + wy * wy + wz * wz - t * t.
Proof.
  unfold X, Rdot, t.
  replace (wx * wx + wy * wy + wz * wz - (wx * ex + wy * ey + wz * ez) * (wx * ex + wy * ey + wz * ez))
    with ((ex * ex + ey * ey + ez * ez) * (wx * wx + wy * wy + wz * wz)
          - (wx * ex + wy * ey + wz * ez) * (wx * ex + wy * ey + wz * ez)) by (rewrite Hunit; ring).
  ring.
Qed.

Lemma XX_nonneg : 0 <= Rdot X X.
Proof.
  unfold Rdot, X.
  pose proof (Rle_0_sqr (- ey * wz + ez * wy)) as H1. pose proof (Rle_0_sqr (- ez * wx + ex * wz)) as H2.
  pose proof (Rle_0_sqr (- ex * wy + ey * wx)) as H3. unfold Rsqr in *. lra.
Qed.

Lemma dd_val : d * d = wx * wx + wy * wy + wz * wz - t * t.
Proof. unfold d. rewrite sqrt_sqrt by apply XX_nonneg. apply XX_val. Qed.

Ltac mod_unit M :=
  match goal with
  | |- ?P = ?Q => replace Q with (Q + M * ((ex * ex + ey * ey + ez * ez) - 1)) by (rewrite Hunit; ring); ring
  end.

Lemma A_o4 : (x1 + wx - (x1 + t * (x1 - (x1 - ex)))) * (x1 + wx - (x1 + t * (x1 - (x1 - ex)))) +
  (y1 + wy - (y1 + t * (y1 - (y1 - ey)))) * (y1 + wy - (y1 + t * (y1 - (y1 - ey)))) +
  (z1 + wz - (z1 + t * (z1 - (z1 - ez)))) * (z1 + wz - (z1 + t * (z1 - (z1 - ez)))) = d * d.
Proof. rewrite dd_val. unfold t. mod_unit ((wx * ex + wy * ey + wz * ez) * (wx * ex + wy * ey + wz * ez)). Qed.

Lemma A_41 : (x1 + t * (x1 - (x1 - ex)) - x1) * (x1 + t * (x1 - (x1 - ex)) - x1) +
  (y1 + t * (y1 - (y1 - ey)) - y1) * (y1 + t * (y1 - (y1 - ey)) - y1) +
  (z1 + t * (z1 - (z1 - ez)) - z1) * (z1 + t * (z1 - (z1 - ez)) - z1) = t * t.
Proof. generalize t. intros u. mod_unit (u * u). Qed.

Lemma A_42 : (x1 + t * (x1 - (x1 - ex)) - (x1 - ex)) * (x1 + t * (x1 - (x1 - ex)) - (x1 - ex)) +
  (y1 + t * (y1 - (y1 - ey)) - (y1 - ey)) * (y1 + t * (y1 - (y1 - ey)) - (y1 - ey)) +
  (z1 + t * (z1 - (z1 - ez)) - (z1 - ez)) * (z1 + t * (z1 - (z1 - ez)) - (z1 - ez)) = (1 + t) * (1 + t).
Proof. generalize t. intros u. mod_unit ((1 + u) * (1 + u)). Qed.

Lemma A_o1 : (x1 + wx - x1) * (x1 + wx - x1) + (y1 + wy - y1) * (y1 + wy - y1) + (z1 + wz - z1) * (z1 + wz - z1)
  = t * t + d * d.
Proof. rewrite dd_val. ring. Qed.

Lemma A_o2 : (x1 + wx - (x1 - ex)) * (x1 + wx - (x1 - ex)) + (y1 + wy - (y1 - ey)) * (y1 + wy - (y1 - ey)) +
  (z1 + wz - (z1 - ez)) * (z1 + wz - (z1 - ez)) = (1 + t) * (1 + t) + d * d.
Proof. rewrite dd_val. unfold t. mod_unit 1. Qed.

Lemma C_0 : (y1 - ey - y1) * (z1 + wz - (z1 + t * (z1 - (z1 - ez)))) - (z1 - ez - z1) * (y1 + wy - (y1 + t * (y1 - (y1 - ey))))
  = - ey * wz + ez * wy.
Proof. generalize t. intros u. ring. Qed.
Lemma C_1 : (z1 - ez - z1) * (x1 + wx - (x1 + t * (x1 - (x1 - ex)))) - (x1 - ex - x1) * (z1 + wz - (z1 + t * (z1 - (z1 - ez))))
  = - ez * wx + ex * wz.
Proof. generalize t. intros u. ring. Qed.
Lemma C_2 : (x1 - ex - x1) * (y1 + wy - (y1 + t * (y1 - (y1 - ey)))) - (y1 - ey - y1) * (x1 + wx - (x1 + t * (x1 - (x1 - ex))))
  = - ex * wy + ey * wx.
Proof. generalize t. intros u. ring. Qed.

Lemma norm_online : d < 1 / 1000000000000000 ->
  snd (polyline_norm NumR qo q1 q2 L cur) = (0, 0, 0).
Proof.
  intros Hlt.
  unfold polyline_norm, q1, q2, qo.
  cbv beta iota zeta delta [vsub vadd vscale vdivs vdot vnorm vcross sq zero3 c0 c1 c2 c3 c4 cpi e15
       NumR carrier nadd nsub nmul ndiv nopp nsqrt nabs nltb neqb nofZ npi].
  replace ((x1 + wx - x1) * (x1 - (x1 - ex)) + (y1 + wy - y1) * (y1 - (y1 - ey)) + (z1 + wz - z1) * (z1 - (z1 - ez)))
    with t by (unfold t; ring).
  rewrite A_o4. rewrite (sqrt_square d) by (unfold d; apply sqrt_pos).
  assert (E : Rltb d (1 / 1000000000000000) = true) by (apply Rltb_true; exact Hlt).
  rewrite E. reflexivity.
Qed.

Hypothesis Hd : 1 / 1000000000000000 <= d.

Lemma d_pos : 0 < d.
Proof. lra. Qed.

Lemma norm_spec :
  snd (polyline_norm NumR qo q1 q2 L cur) =
  Rvscale (deltaSin_code t d / (d * d) / L * cur / (4 * PI)) X.
Proof.
  pose proof d_pos as Hdp. pose proof dd_val as Hdd. pose proof PI_RGT_0 as Hpi.
  unfold polyline_norm, q1, q2, qo.
  cbv beta iota zeta delta [vsub vadd vscale vdivs vdot vnorm vcross sq zero3 c0 c1 c2 c3 c4 cpi e15
       NumR carrier nadd nsub nmul ndiv nopp nsqrt nabs nltb neqb nofZ npi].
  (* t *)
  replace ((x1 + wx - x1) * (x1 - (x1 - ex)) + (y1 + wy - y1) * (y1 - (y1 - ey)) + (z1 + wz - z1) * (z1 - (z1 - ez)))
    with t by (unfold t; ring).
  rewrite A_o4, A_41, A_42, A_o1, A_o2.
  rewrite (sqrt_square d) by lra. rewrite !sqrt_sq_abs.
  rewrite C_0, C_1, C_2.
  replace (sqrt ((- ey * wz + ez * wy) * (- ey * wz + ez * wy) + (- ez * wx + ex * wz) * (- ez * wx + ex * wz) +
                 (- ex * wy + ey * wx) * (- ex * wy + ey * wx))) with d by reflexivity.
  assert (E : Rltb d (1 / 1000000000000000) = false) by (apply Rltb_false; exact Hd).
  rewrite E. unfold deltaSin_code, Rvscale, X. cbv [snd].
  apply triple_eq; field; repeat split; lra.
Qed.
End Norm.

(* ---- from (o, p1, p2) to the normalised variables *)
Section Seg.
Variables (ox oy oz ax ay az bx by_ bz cur : R).
Let o : RV3 := (ox, oy, oz).
Let p1 : RV3 := (ax, ay, az).
Let p2 : RV3 := (bx, by_, bz).
Hypothesis Hp : p1 <> p2.

Let S := (ax - bx) * (ax - bx) + (ay - by_) * (ay - by_) + (az - bz) * (az - bz).
Let L := sqrt S.
Let ex := ax / L - bx / L.  Let ey := ay / L - by_ / L.  Let ez := az / L - bz / L.
Let wx := ox / L - ax / L.  Let wy := oy / L - ay / L.  Let wz := oz / L - az / L.
Let t := wx * ex + wy * ey + wz * ez.
Let Xn : RV3 := (- ey * wz + ez * wy, - ez * wx + ex * wz, - ex * wy + ey * wx).
Let d := sqrt (Rdot Xn Xn).

Lemma S_pos : 0 < S.
Proof.
  unfold S. assert (Hn : (ax - bx, ay - by_, az - bz) <> (0, 0, 0)).
  { intros E. inversion E. apply Hp. unfold p1, p2. f_equal; [f_equal|]; lra. }
  apply sumsq_pos in Hn. exact Hn.
Qed.
Lemma L_pos : 0 < L.
Proof. apply sqrt_lt_R0, S_pos. Qed.
Lemma LL : L * L = S.
Proof. apply sqrt_sqrt. pose proof S_pos. lra. Qed.

Lemma e_unit : ex * ex + ey * ey + ez * ez = 1.
Proof.
  pose proof L_pos as HL. pose proof S_pos as HS.
  unfold ex, ey, ez.
  replace ((ax / L - bx / L) * (ax / L - bx / L) + (ay / L - by_ / L) * (ay / L - by_ / L) +
           (az / L - bz / L) * (az / L - bz / L)) with (S / (L * L)) by (unfold S; field; lra).
  rewrite LL. field. lra.
Qed.

Lemma segX_scaled : segX o p1 p2 = Rvscale (L * L) Xn.
Proof.
  pose proof L_pos as HL.
  unfold segX, o, p1, p2, Rcross, Rvsub, Rvscale, Xn, ex, ey, ez, wx, wy, wz.
  apply triple_eq; field; lra.
Qed.

Lemma segXX : Rdot (segX o p1 p2) (segX o p1 p2) = (L * L) * (L * L) * (d * d).
Proof.
  rewrite segX_scaled. unfold d. rewrite sqrt_sqrt by apply XX_nonneg.
  unfold Rvscale, Rdot, Xn. ring.
Qed.

Lemma norm_segX : Rnorm (segX o p1 p2) = L * L * d.
Proof.
  pose proof L_pos as HL.
  unfold Rnorm. rewrite segXX.
  assert (Hd0 : 0 <= d) by (unfold d; apply sqrt_pos).
  replace (L * L * (L * L) * (d * d)) with ((L * L * d) * (L * L * d)) by ring.
  apply sqrt_square. apply Rmult_le_pos; [nra | exact Hd0].
Qed.

Lemma segA_val : segA o p1 p2 = L * L.
Proof. rewrite LL. unfold segA, S, o, p1, p2, Rdot, Rvsub. ring. Qed.

Lemma segB_val : segB o p1 p2 = 2 * (L * L) * t.
Proof.
  pose proof L_pos as HL.
  unfold segB, o, p1, p2, Rdot, Rvsub, t, ex, ey, ez, wx, wy, wz. field. lra.
Qed.

Lemma ww_val : wx * wx + wy * wy + wz * wz = t * t + d * d.
Proof. unfold d, Xn. rewrite (dd_val ex ey ez wx wy wz e_unit). fold t. ring. Qed.

Lemma segC_val : segC o p1 p2 = (L * L) * (t * t + d * d).
Proof.
  pose proof L_pos as HL.
  rewrite <- ww_val. unfold segC, o, p1, p2, Rdot, Rvsub, wx, wy, wz. field. lra.
Qed.

Lemma model_online : Rnorm (segX o p1 p2) < 1 / 1000000000000000 * segA o p1 p2 ->
  polyline_H NumR o p1 p2 cur = (0, 0, 0).
Proof.
  intros Hon. pose proof L_pos as HL.
  rewrite segA_val, norm_segX in Hon.
  assert (HLL : 0 < L * L) by (apply Rmult_lt_0_compat; lra).
  assert (Hlt : d < 1 / 1000000000000000).
  { apply (Rmult_lt_reg_l (L * L)); [assumption|]. lra. }
  unfold polyline_H, polyline_H_br.
  assert (Hne : veqb NumR p1 p2 = false).
  { unfold veqb, p1, p2. cbv [NumR neqb].
    destruct (Reqb ax bx) eqn:E1; destruct (Reqb ay by_) eqn:E2; destruct (Reqb az bz) eqn:E3; try reflexivity.
    exfalso. apply Reqb_true in E1. apply Reqb_true in E2. apply Reqb_true in E3.
    apply Hp. unfold p1, p2. subst. reflexivity. }
  rewrite Hne.
  replace (vnorm NumR (vsub NumR p1 p2)) with L by reflexivity.
  replace (vdivs NumR p1 L) with (ax / L, ay / L, az / L) by reflexivity.
  replace (vdivs NumR p2 L) with (ax / L - ex, ay / L - ey, az / L - ez)
    by (unfold p2, vdivs, ex, ey, ez; cbv [NumR ndiv carrier]; apply triple_eq; ring).
  replace (vdivs NumR o L) with (ax / L + wx, ay / L + wy, az / L + wz)
    by (unfold o, vdivs, wx, wy, wz; cbv [NumR ndiv carrier]; apply triple_eq; ring).
  apply (norm_online (ax / L) (ay / L) (az / L) ex ey ez wx wy wz L cur e_unit Hlt).
Qed.

Hypothesis Hoff : 1 / 1000000000000000 * segA o p1 p2 <= Rnorm (segX o p1 p2).

Lemma d_ge : 1 / 1000000000000000 <= d.
Proof.
  pose proof L_pos as HL. rewrite segA_val, norm_segX in Hoff.
  assert (0 < L * L) by nra.
  apply (Rmult_le_reg_l (L * L)); [assumption|]. lra.
Qed.

Lemma model_value :
  polyline_H NumR o p1 p2 cur = Rvscale (deltaSin_code t d / (d * d) / L * cur / (4 * PI)) Xn.
Proof.
  pose proof L_pos as HL.
  unfold polyline_H, polyline_H_br.
  assert (Hne : veqb NumR p1 p2 = false).
  { unfold veqb, p1, p2. cbv [NumR neqb].
    destruct (Reqb ax bx) eqn:E1; destruct (Reqb ay by_) eqn:E2; destruct (Reqb az bz) eqn:E3; try reflexivity.
    exfalso. apply Reqb_true in E1. apply Reqb_true in E2. apply Reqb_true in E3.
    apply Hp. unfold p1, p2. subst. reflexivity. }
  rewrite Hne.
  replace (vnorm NumR (vsub NumR p1 p2)) with L by reflexivity.
  replace (vdivs NumR p1 L) with (ax / L, ay / L, az / L) by reflexivity.
  replace (vdivs NumR p2 L) with (ax / L - ex, ay / L - ey, az / L - ez)
    by (unfold p2, vdivs, ex, ey, ez; cbv [NumR ndiv carrier]; apply triple_eq; ring).
  replace (vdivs NumR o L) with (ax / L + wx, ay / L + wy, az / L + wz)
    by (unfold o, vdivs, wx, wy, wz; cbv [NumR ndiv carrier]; apply triple_eq; ring).
  apply (norm_spec (ax / L) (ay / L) (az / L) ex ey ez wx wy wz L cur e_unit HL d_ge).
Qed.

(* F 1 - F 0 in the normalised variables *)
Lemma FF_diff :
  FF (segA o p1 p2) (segB o p1 p2) (segC o p1 p2) 1 - FF (segA o p1 p2) (segB o p1 p2) (segC o p1 p2) 0
  = deltaSin_code t d / (L * L * L * (d * d)).
Proof.
  pose proof L_pos as HL. pose proof d_ge as Hd.
  assert (Hdp : 0 < d) by lra.
  rewrite (deltaSin_code_spec t d Hdp).
  assert (Hdd : 0 < d * d) by (apply Rmult_lt_0_compat; lra).
  pose proof (Rle_0_sqr t) as Ht2. pose proof (Rle_0_sqr (1 + t)) as Ht3. unfold Rsqr in Ht2, Ht3.
  assert (Hn1 : 0 < sqrt (t * t + d * d)) by (apply sqrt_lt_R0; lra).
  assert (Hn2 : 0 < sqrt ((1 + t) * (1 + t) + d * d)) by (apply sqrt_lt_R0; lra).
  unfold FF, qq. rewrite segA_val, segB_val, segC_val.
  replace (L * L * 0 * 0 + 2 * (L * L) * t * 0 + L * L * (t * t + d * d)) with ((L * L) * (t * t + d * d)) by ring.
  replace (L * L * 1 * 1 + 2 * (L * L) * t * 1 + L * L * (t * t + d * d))
    with ((L * L) * ((1 + t) * (1 + t) + d * d)) by ring.
  rewrite (sqrt_mult (L * L) (t * t + d * d)) by nra.
  rewrite (sqrt_mult (L * L) ((1 + t) * (1 + t) + d * d)) by nra.
  rewrite (sqrt_square L) by lra.
  set (n1 := sqrt (t * t + d * d)) in *. set (n2 := sqrt ((1 + t) * (1 + t) + d * d)) in *.
  field. repeat split; try lra.
  replace (4 * (L * L) * (L * L * (t * t + d * d)) - 2 * (L * L) * t * (2 * (L * L) * t))
    with (4 * ((L * L) * (L * L) * (d * d))) by ring.
  assert (HLL : 0 < L * L) by (apply Rmult_lt_0_compat; lra).
  assert (HL4 : 0 < (L * L) * (L * L)) by (apply Rmult_lt_0_compat; lra).
  assert (H6 : 0 < (L * L) * (L * L) * (d * d)) by (apply Rmult_lt_0_compat; lra).
  lra.
Qed.

Lemma offline_pos : 0 < Rdot (segX o p1 p2) (segX o p1 p2).
Proof.
  pose proof L_pos as HL. pose proof d_ge as Hd. rewrite segXX.
  assert (HLL : 0 < L * L) by (apply Rmult_lt_0_compat; lra).
  assert (Hdd : 0 < d * d) by (apply Rmult_lt_0_compat; lra).
  repeat apply Rmult_lt_0_compat; lra.
Qed.

Lemma polyline_is_biot_savart_coords (i : nat) :
  is_RInt (bs_segment_integrand cur o p1 p2 i) 0 1 (comp i (polyline_H NumR o p1 p2 cur)).
Proof.
  pose proof L_pos as HL. pose proof d_ge as Hd. pose proof PI_RGT_0 as Hpi.
  assert (Hdp : 0 < d) by lra.
  replace (comp i (polyline_H NumR o p1 p2 cur))
    with (cur / (4 * PI) * comp i (segX o p1 p2) *
          (FF (segA o p1 p2) (segB o p1 p2) (segC o p1 p2) 1 - FF (segA o p1 p2) (segB o p1 p2) (segC o p1 p2) 0)).
  - apply segment_biot_savart_closed; [exact Hp | exact offline_pos].
  - rewrite FF_diff, model_value, segX_scaled.
    unfold Rvscale, Xn, comp. destruct i as [|[|i]]; field; repeat split; lra.
Qed.
End Seg.

(* ---- the theorem on vectors *)
Lemma polyline_segment_is_biot_savart (cur : R) (o p1 p2 : RV3) (i : nat) :
  p1 <> p2 ->
  1 / 1000000000000000 * segA o p1 p2 <= Rnorm (segX o p1 p2) ->
  is_RInt (bs_segment_integrand cur o p1 p2 i) 0 1 (comp i (polyline_H NumR o p1 p2 cur)).
Proof.
  destruct o as [[ox oy] oz], p1 as [[ax ay] az], p2 as [[bx by_] bz]. intros Hp Hoff.
  apply polyline_is_biot_savart_coords; assumption.
Qed.

(* observer ON the supporting line (in particular on the extension of the segment): the cross product
   in the Biot-Savart integrand vanishes identically, the integral is 0, and the model's on-line mask
   returns 0.  (On the segment itself the integrand is 0/0, which is 0 in Coq: no claim is made there.) *)
Lemma polyline_on_line_is_biot_savart (cur : R) (o p1 p2 : RV3) (i : nat) :
  p1 <> p2 -> segX o p1 p2 = (0, 0, 0) ->
  is_RInt (bs_segment_integrand cur o p1 p2 i) 0 1 (comp i (polyline_H NumR o p1 p2 cur)).
Proof.
  intros Hp HX.
  assert (HA : 0 < segA o p1 p2) by (apply segA_pos; exact Hp).
  assert (Hm : polyline_H NumR o p1 p2 cur = (0, 0, 0)).
  { destruct o as [[ox oy] oz], p1 as [[ax ay] az], p2 as [[bx by_] bz].
    apply model_online; [exact Hp|].
    rewrite HX. unfold Rnorm, Rdot. replace (0 * 0 + 0 * 0 + 0 * 0) with 0 by ring. rewrite sqrt_0. lra. }
  rewrite Hm.
  replace (comp i (0, 0, 0)) with (scal (1 - 0) 0) by (destruct i as [|[|i]]; unfold scal; simpl; unfold mult; simpl; ring).
  apply (is_RInt_ext (fun _ => 0)).
  - intros s _. unfold bs_segment_integrand.
    destruct o as [[ox oy] oz], p1 as [[ax ay] az], p2 as [[bx by_] bz].
    assert (Hx : comp i (Rcross (Rvsub (bx, by_, bz) (ax, ay, az))
                   (Rvsub (ox, oy, oz) (Rvadd (ax, ay, az) (Rvscale s (Rvsub (bx, by_, bz) (ax, ay, az))))))
                 = comp i (segX (ox, oy, oz) (ax, ay, az) (bx, by_, bz))).
    { unfold segX, Rcross, Rvsub, Rvadd, Rvscale, comp. destruct i as [|[|i]]; ring. }
    rewrite Hx, HX. replace (comp i (0, 0, 0)) with 0 by (destruct i as [|[|i]]; reflexivity).
    unfold Rdiv. rewrite Rmult_0_r, Rmult_0_l. reflexivity.
  - apply (@is_RInt_const R_CompleteNormedModule).
Qed.

(* the general branch is taken exactly under that hypothesis (so the statement is not vacuous and
   not weaker than the code's own case split) *)
Lemma polyline_nonvacuous :
  (0, 0, 0) <> (1, 0, 0) /\ 1 / 1000000000000000 * segA (0, 1, 0) (0, 0, 0) (1, 0, 0) <= Rnorm (segX (0, 1, 0) (0, 0, 0) (1, 0, 0)).
Proof.
  split.
  - intros H. inversion H. lra.
  - unfold segA, segX, Rnorm, Rdot, Rcross, Rvsub.
    match goal with |- _ <= sqrt ?x => replace x with 1 by ring end.
    rewrite sqrt_1. lra.
Qed.
