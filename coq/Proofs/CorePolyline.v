(* C01 -- current_polyline_Hfield (model polyline_H_br over R) equals the Biot-Savart integral of
   the straight segment: the algebraic link between the model's intermediate norms and (t, d). *)
From Coq Require Import Reals Lra Lia Psatz ZArith Bool Nsatz.
From Coquelicot Require Import Coquelicot.
From MV Require Import Model.CoreNum Model.CoreModel Model.CoreSpec Proofs.CoreProofs Proofs.CoreIntegrals.
Open Scope R_scope.

Lemma sqrt_sq_abs x : sqrt (x * x) = Rabs x.
Proof. apply sqrt_Rsqr_abs. Qed.

(* ---- the normalised part: end points q1, q2 at distance 1, observer qo *)
Section Norm.
Variables (x1 y1 z1 ex ey ez wx wy wz L cur : R).
Hypothesis Hunit : ex * ex + ey * ey + ez * ez = 1.
Hypothesis HL : 0 < L.

(* q2 = q1 - e, qo = q1 + w *)
Let q1 : RV3 := (x1, y1, z1).
Let q2 : RV3 := (x1 - ex, y1 - ey, z1 - ez).
Let qo : RV3 := (x1 + wx, y1 + wy, z1 + wz).
Let t := wx * ex + wy * ey + wz * ez.
(* X = (q2 - q1) x (qo - q1) = - e x w *)
Let X : RV3 := (- ey * wz + ez * wy, - ez * wx + ex * wz, - ex * wy + ey * wx).
Let d := sqrt (Rdot X X).

Lemma XX_val : Rdot X X = wx * wx + wy * wy + wz * wz - t * t.
Proof.
  unfold X, Rdot, t.
  replace (wx * wx + wy * wy + wz * wz - (wx * ex + wy * ey + wz * ez) * (wx * ex + wy * ey + wz * ez))
    with ((ex * ex + ey * ey + ez * ez) * (wx * wx + wy * wy + wz * wz)
          - (wx * ex + wy * ey + wz * ez) * (wx * ex + wy * ey + wz * ez)) by (rewrite Hunit; ring).
  ring.
Qed.

Lemma XX_nonneg : 0 <= Rdot X X.
Proof.
  unfold Rdot, X.
  pose proof (Rle_0_sqr (- ey * wz + ez * wy)) as H1. pose proof (Rle_0_sqr (- ez * wx + ex * wz)) as H2.
  pose proof (Rle_0_sqr (- ex * wy + ey * wx)) as H3. unfold Rsqr in *. lra.
Qed.

Lemma dd_val : d * d = wx * wx + wy * wy + wz * wz - t * t.
Proof. unfold d. rewrite sqrt_sqrt by apply XX_nonneg. apply XX_val. Qed.

Lemma A_o4 : (x1 + wx - (x1 + t * (x1 - (x1 - ex)))) * (x1 + wx - (x1 + t * (x1 - (x1 - ex)))) +
  (y1 + wy - (y1 + t * (y1 - (y1 - ey)))) * (y1 + wy - (y1 + t * (y1 - (y1 - ey)))) +
  (z1 + wz - (z1 + t * (z1 - (z1 - ez)))) * (z1 + wz - (z1 + t * (z1 - (z1 - ez)))) = d * d.
Proof. rewrite dd_val. unfold t. nsatz. Qed.

Lemma A_41 : (x1 + t * (x1 - (x1 - ex)) - x1) * (x1 + t * (x1 - (x1 - ex)) - x1) +
  (y1 + t * (y1 - (y1 - ey)) - y1) * (y1 + t * (y1 - (y1 - ey)) - y1) +
  (z1 + t * (z1 - (z1 - ez)) - z1) * (z1 + t * (z1 - (z1 - ez)) - z1) = t * t.
Proof. generalize t. intros u. nsatz. Qed.

Lemma A_42 : (x1 + t * (x1 - (x1 - ex)) - (x1 - ex)) * (x1 + t * (x1 - (x1 - ex)) - (x1 - ex)) +
  (y1 + t * (y1 - (y1 - ey)) - (y1 - ey)) * (y1 + t * (y1 - (y1 - ey)) - (y1 - ey)) +
  (z1 + t * (z1 - (z1 - ez)) - (z1 - ez)) * (z1 + t * (z1 - (z1 - ez)) - (z1 - ez)) = (1 + t) * (1 + t).
Proof. generalize t. intros u. nsatz. Qed.

Lemma A_o1 : (x1 + wx - x1) * (x1 + wx - x1) + (y1 + wy - y1) * (y1 + wy - y1) + (z1 + wz - z1) * (z1 + wz - z1)
  = t * t + d * d.
Proof. rewrite dd_val. ring. Qed.

Lemma A_o2 : (x1 + wx - (x1 - ex)) * (x1 + wx - (x1 - ex)) + (y1 + wy - (y1 - ey)) * (y1 + wy - (y1 - ey)) +
  (z1 + wz - (z1 - ez)) * (z1 + wz - (z1 - ez)) = (1 + t) * (1 + t) + d * d.
Proof. rewrite dd_val. unfold t. nsatz. Qed.

Hypothesis Hd : 1 / 1000000000000000 <= d.

Lemma d_pos : 0 < d.
Proof. lra. Qed.

Lemma norm_spec :
  snd (polyline_norm NumR qo q1 q2 L cur) =
  Rvscale (deltaSin_code t d / (d * d) / L * cur / (4 * PI)) X.
Proof.
  pose proof d_pos as Hdp. pose proof dd_val as Hdd. pose proof PI_RGT_0 as Hpi.
  unfold polyline_norm, q1, q2, qo.
  cbv beta iota zeta delta [vsub vadd vscale vdivs vdot vnorm vcross sq zero3 c0 c1 c2 c3 c4 cpi e15
       NumR carrier nadd nsub nmul ndiv nopp nsqrt nabs nltb neqb nofZ npi].
  (* t *)
  replace ((x1 + wx - x1) * (x1 - (x1 - ex)) + (y1 + wy - y1) * (y1 - (y1 - ey)) + (z1 + wz - z1) * (z1 - (z1 - ez)))
    with t by (unfold t; ring).
  Show.
Abort.
End Norm.
