(* C03 -- covariance of the level-2 field computation under a common rigid motion of sources and
   observers, in ANY rigid-motion algebra (Rigid.v) and for ANY field function of the local
   observer. *)
From Coq Require Import List Arith Bool Lia.
From MV Require Import Lib.Rigid Lib.ListIdx Model.Level2Model Model.Level2Move
  Gen.GenLevel1 Proofs.Level2A Proofs.Level2B Proofs.Level2C Proofs.Level2D Proofs.Level2E.
Import ListNotations.

Section Covariance.
Context {O : RigidOps} {L : RigidLaws O}.
Variable P : Type.
Variable F : nat -> P -> V -> V.
Variable g_eqb : G -> G -> bool.
Variable flipx : V -> V.

Notation leaf := (@leaf O P).
Notation srcin := (@srcin O P).

(* ------------------------------------------------------------------ algebra *)
Lemma vsub_move g t a b : vsub (move_pt g t a) (move_pt g t b) = act g (vsub a b).
Proof.
  unfold move_pt, vsub. rewrite vneg_add, act_add, act_neg.
  rewrite <- (vadd_assoc (act g a) t). rewrite (vadd_comm (vneg (act g b)) (vneg t)).
  rewrite (vadd_assoc t (vneg t)). rewrite vadd_neg_r, vadd_0_l. reflexivity.
Qed.

Lemma act_ginv_mul g r v : act (ginv (gmul g r)) (act g v) = act (ginv r) v.
Proof. rewrite ginv_mul, act_mul, act_inv_l. reflexivity. Qed.

(* getBH_level1: observer into the source frame, field back into the global frame *)
Theorem level1_frame k p r o pr : level1 P F k p r o pr = act r (F k pr (act (ginv r) (vsub o p))).
Proof. reflexivity. Qed.

(* getBH_level1 as TRANSLATED from /repo on this run (Gen/GenLevel1.v) is the model's row function: the field
   of EVERY kind (B, H, J, M are all just `key`s of F here) is rotated back into the global frame, for every row *)
Theorem gen_level1_is_model k p r o pr : gen_level1 P F k p r o pr = level1 P F k p r o pr.
Proof. reflexivity. Qed.

Theorem level1_covariant g t k p r o pr :
  level1 P F k (move_pt g t p) (gmul g r) (move_pt g t o) pr = act g (level1 P F k p r o pr).
Proof. unfold level1. rewrite vsub_move, act_ginv_mul, act_mul. reflexivity. Qed.

(* a pose (p, r) means: the source's local frame placed in the global frame *)
Theorem level1_local_frame k p r x pr :
  level1 P F k p r (vadd (act r x) p) pr = act r (F k pr x).
Proof. unfold level1. rewrite vadd_sub, act_inv_l. reflexivity. Qed.

(* ------------------------------------------------------------------ lists *)
Lemma clip_nth_map {A B} (f : A -> B) (d : A) (d' : B) (l : list A) m : 1 <= length l ->
  clip_nth d' (map f l) m = f (clip_nth d l m).
Proof.
  intros H. unfold clip_nth. rewrite map_length.
  rewrite (nth_indep _ d' (f d)) by (rewrite map_length; lia). apply map_nth.
Qed.

Lemma fold_vadd_act g (l : list V) v :
  act g (fold_left vadd l v) = fold_left vadd (map (act g) l) (act g v).
Proof.
  revert v. induction l as [|w l IH]; intros v; [reflexivity|].
  cbn [fold_left map]. rewrite IH, act_add. reflexivity.
Qed.

Lemma vsum_act g (l : list V) : act g (vsum l) = vsum (map (act g) l).
Proof. destruct l as [|v l]; [apply act_zero|]. cbn [vsum map]. apply fold_vadd_act. Qed.

Lemma max_path_len_ext (sl sl' : list leaf) (sens sens' : list sensor) :
  map (fun x => length (l_pos x)) sl = map (fun x => length (l_pos x)) sl' ->
  map (fun s => length (s_pos s)) sens = map (fun s => length (s_pos s)) sens' ->
  max_path_len P sl sens = max_path_len P sl' sens'.
Proof. intros H1 H2. unfold max_path_len. rewrite H1, H2. reflexivity. Qed.

(* ------------------------------------------------------------------ moved objects *)
Lemma wf_move_leaf g t (x : leaf) : wf_leaf P x -> wf_leaf P (move_leaf P g t x).
Proof. intros [H1 H2]. unfold wf_leaf, move_leaf. cbn [l_pos l_ori]. rewrite !map_length. split; assumption. Qed.

Lemma wf_move_sensor g t (s : sensor) : wf_sensor s -> wf_sensor (move_sensor g t s).
Proof.
  intros (H1 & H2 & H3). unfold wf_sensor, move_sensor. cbn [s_pos s_ori s_pix].
  rewrite !map_length. repeat split; assumption.
Qed.

Lemma leaves_move g t (s : srcin) : leaves (move_src P g t s) = map (move_leaf P g t) (leaves s).
Proof. destruct s; reflexivity. Qed.

Lemma wf_move_src g t (s : srcin) : wf_src P s -> wf_src P (move_src P g t s).
Proof.
  intros [Hf Hne]. unfold wf_src. rewrite leaves_move. split.
  - rewrite Forall_forall in *. intros y Hy. apply in_map_iff in Hy as [x [<- Hx]].
    apply wf_move_leaf, Hf, Hx.
  - destruct (leaves s); [congruence|discriminate].
Qed.

Lemma src_list_move g t (srcs : list srcin) :
  src_list (map (move_src P g t) srcs) = map (move_leaf P g t) (src_list srcs).
Proof.
  induction srcs as [|s srcs IH]; [reflexivity|].
  cbn [map src_list flat_map]. fold (src_list srcs). fold (src_list (map (move_src P g t) srcs)).
  rewrite map_app, IH, leaves_move. reflexivity.
Qed.

Lemma max_path_len_move g t (srcs : list srcin) (sens : list sensor) :
  max_path_len P (src_list (map (move_src P g t) srcs)) (map (move_sensor g t) sens)
  = max_path_len P (src_list srcs) sens.
Proof.
  apply max_path_len_ext.
  - rewrite src_list_move, map_map. apply map_ext. intros x. cbn [move_leaf l_pos]. apply map_length.
  - rewrite map_map. apply map_ext. intros s. cbn [move_sensor s_pos]. apply map_length.
Qed.

Lemma max_path_len_move_src g t (srcs : list srcin) (sens : list sensor) :
  max_path_len P (src_list (map (move_src P g t) srcs)) sens = max_path_len P (src_list srcs) sens.
Proof.
  apply max_path_len_ext; [|reflexivity].
  rewrite src_list_move, map_map. apply map_ext. intros x. cbn [move_leaf l_pos]. apply map_length.
Qed.

(* the global field of one source at one path index *)
Lemma leaf_field_covariant g t (x : leaf) m o : wf_leaf P x ->
  leaf_field P F (move_leaf P g t x) m (move_pt g t o) = act g (leaf_field P F x m o).
Proof.
  intros [H1 H2]. unfold leaf_field, move_leaf. cbn [l_pos l_ori l_key l_prop].
  rewrite (clip_nth_map (move_pt g t) vzero vzero) by exact H1.
  rewrite (clip_nth_map (gmul g) gone gone) by lia.
  apply level1_covariant.
Qed.

Lemma src_field_covariant g t (src : srcin) m o : wf_src P src ->
  vsum (map (fun x => leaf_field P F x m (move_pt g t o)) (leaves (move_src P g t src)))
  = act g (vsum (map (fun x => leaf_field P F x m o) (leaves src))).
Proof.
  intros [Hf _]. rewrite leaves_move, vsum_act, !map_map. f_equal.
  apply map_ext_in. intros x Hx. rewrite Forall_forall in Hf. apply leaf_field_covariant, Hf, Hx.
Qed.

(* ------------------------------------------------------------------ sensors moved with the sources *)
Lemma pixel_point_move g t (s : sensor) m pix : wf_sensor s ->
  pixel_point (move_sensor g t s) m pix = move_pt g t (pixel_point s m pix).
Proof.
  intros (H1 & H2 & _). unfold pixel_point, move_sensor, move_pt. cbn [s_pos s_ori].
  rewrite (clip_nth_map (fun p => vadd (act g p) t) vzero vzero) by exact H1.
  rewrite (clip_nth_map (gmul g) gone gone) by lia.
  rewrite act_mul, act_add, vadd_assoc. reflexivity.
Qed.

Lemma sensor_view_move g t (s : sensor) m v : wf_sensor s ->
  sensor_view flipx (move_sensor g t s) m (act g v) = sensor_view flipx s m v.
Proof.
  intros (H1 & H2 & _). unfold sensor_view, move_sensor. cbn [s_ori s_left].
  rewrite (clip_nth_map (gmul g) gone gone) by lia. rewrite act_ginv_mul. reflexivity.
Qed.

Theorem spec_elem_invariant g t (src : srcin) m (s : sensor) pix : wf_src P src -> wf_sensor s ->
  spec_elem P F flipx (move_src P g t src) m (move_sensor g t s) pix = spec_elem P F flipx src m s pix.
Proof.
  intros Hsrc Hs. unfold spec_elem. rewrite pixel_point_move by exact Hs.
  rewrite src_field_covariant by exact Hsrc. apply sensor_view_move, Hs.
Qed.

Theorem spec_invariant g t (srcs : list srcin) (sens : list sensor) agg :
  Forall (wf_src P) srcs -> Forall wf_sensor sens ->
  spec P F flipx (map (move_src P g t) srcs) (map (move_sensor g t) sens) agg
  = spec P F flipx srcs sens agg.
Proof.
  intros Hsrc Hsens. unfold spec. rewrite max_path_len_move. rewrite Forall_forall in Hsrc, Hsens.
  rewrite map_map. apply map_ext_in. intros src Hin. apply map_ext. intros m.
  rewrite map_map. apply map_ext_in. intros s Hs. cbn [move_sensor s_pix].
  assert (E : map (spec_elem P F flipx (move_src P g t src) m (move_sensor g t s)) (s_pix s)
              = map (spec_elem P F flipx src m s) (s_pix s)).
  { apply map_ext. intros pix. apply spec_elem_invariant; auto. }
  fold (move_sensor g t s). rewrite E. reflexivity.
Qed.

(* ------------------------------------------------------------------ position observers *)
Lemma spec_elem_obs (src : srcin) m obs sh o :
  spec_elem P F flipx src m (obs_sensor obs sh) o
  = vsum (map (fun x => leaf_field P F x m o) (leaves src)).
Proof.
  unfold spec_elem, sensor_view, pixel_point, obs_sensor, clip_nth. cbn [s_ori s_pos s_left length nth Nat.sub Nat.min].
  rewrite Nat.min_0_r. cbn [nth]. rewrite ginv_one, !act_one, vadd_0_r. reflexivity.
Qed.

Theorem spec_elem_covariant g t (src : srcin) m obs sh obs' sh' o : wf_src P src ->
  spec_elem P F flipx (move_src P g t src) m (obs_sensor obs' sh') (move_pt g t o)
  = act g (spec_elem P F flipx src m (obs_sensor obs sh) o).
Proof. intros H. rewrite !spec_elem_obs. apply src_field_covariant, H. Qed.

Theorem spec_covariant g t (srcs : list srcin) (obs : list V) sh :
  Forall (wf_src P) srcs ->
  spec P F flipx (map (move_src P g t) srcs) [obs_sensor (map (move_pt g t) obs) sh] None
  = out_act g (spec P F flipx srcs [obs_sensor obs sh] None).
Proof.
  intros Hsrc. unfold spec, out_act. rewrite max_path_len_move_src. rewrite Forall_forall in Hsrc.
  rewrite !map_map. apply map_ext_in. intros src Hin. rewrite map_map. apply map_ext. intros m.
  cbn [map]. f_equal. cbn [obs_sensor s_pix]. rewrite !map_map. apply map_ext. intros o.
  apply (spec_elem_covariant g t src m obs sh); auto.
Qed.

(* ------------------------------------------------------------------ the vectorised computation *)
Hypothesis g_eqb_sound : forall a b, g_eqb a b = true -> a = b.

Lemma getBH_sumup (srcs : list srcin) (sens : list sensor) agg :
  getBH P F g_eqb flipx srcs sens agg true = sum_out (getBH P F g_eqb flipx srcs sens agg false).
Proof. reflexivity. Qed.

Lemma wf_shapes_move g t (sens : list sensor) agg :
  wf_shapes sens agg -> wf_shapes (map (move_sensor g t) sens) agg.
Proof.
  intros [H1 H2]. unfold wf_shapes.
  assert (E : map s_shape (map (move_sensor g t) sens) = map s_shape sens).
  { rewrite map_map. apply map_ext. reflexivity. }
  rewrite E. split; [|exact H2].
  intros Hs s Hin. apply in_map_iff in Hin as [s0 [<- Hin0]].
  destruct sens as [|s1 sens']; [destruct Hin0|].
  cbn [map hd move_sensor s_pix]. apply (H1 Hs s0 Hin0).
Qed.

Theorem level2_sensor_invariant g t (srcs : list srcin) (sens : list sensor) agg sumup :
  srcs <> [] -> Forall (wf_src P) srcs -> Forall wf_sensor sens -> wf_shapes sens agg ->
  getBH P F g_eqb flipx (map (move_src P g t) srcs) (map (move_sensor g t) sens) agg sumup
  = getBH P F g_eqb flipx srcs sens agg sumup.
Proof.
  intros Hne Hsrc Hsens Hsh.
  assert (E : getBH P F g_eqb flipx (map (move_src P g t) srcs) (map (move_sensor g t) sens) agg false
              = getBH P F g_eqb flipx srcs sens agg false).
  { rewrite (getBH_is_spec P F g_eqb flipx g_eqb_sound srcs sens agg) by assumption.
    rewrite (getBH_is_spec P F g_eqb flipx g_eqb_sound).
    - apply spec_invariant; assumption.
    - destruct srcs; [congruence|discriminate].
    - rewrite Forall_forall in *. intros y Hy. apply in_map_iff in Hy as [x [<- Hx]].
      apply wf_move_src, Hsrc, Hx.
    - rewrite Forall_forall in *. intros y Hy. apply in_map_iff in Hy as [x [<- Hx]].
      apply wf_move_sensor, Hsens, Hx.
    - apply wf_shapes_move, Hsh. }
  destruct sumup; [|exact E]. rewrite !getBH_sumup, E. reflexivity.
Qed.

Lemma wf_obs_sensor obs sh : obs <> [] -> wf_sensor (obs_sensor obs sh).
Proof.
  intros H. unfold wf_sensor, obs_sensor. cbn [s_pos s_ori s_pix length]. repeat split; try lia.
  destruct obs; [congruence|simpl; lia].
Qed.

Lemma wf_shapes_single (s : sensor) : wf_shapes [s] None.
Proof.
  unfold wf_shapes. split; [|reflexivity]. intros _ s' [<-|[]]. reflexivity.
Qed.

(* out_add commutes with rotating every vector *)
Lemma zip_with_map_both {A B} (f : A -> B) (ga : A -> A -> A) (gb : B -> B -> B) :
  (forall x y, f (ga x y) = gb (f x) (f y)) ->
  forall l1 l2, map f (zip_with ga l1 l2) = zip_with gb (map f l1) (map f l2).
Proof.
  intros H. induction l1 as [|x l1 IH]; intros [|y l2]; cbn; try reflexivity.
  rewrite H, IH. reflexivity.
Qed.

Lemma sum_out_act g (o : out_t) : sum_out (out_act g o) = out_act g (sum_out o).
Proof.
  destruct o as [|b r]; [reflexivity|]. unfold out_act. cbn [map sum_out]. f_equal.
  revert b. induction r as [|c r IH]; intros b; [reflexivity|].
  cbn [map fold_left]. rewrite <- IH. f_equal. unfold out_add.
  symmetry. apply zip_with_map_both. intros x y. apply zip_with_map_both. intros x' y'.
  apply zip_with_map_both. intros v w. apply act_add.
Qed.

Theorem level2_covariant g t (srcs : list srcin) (obs : list V) sh sumup :
  srcs <> [] -> Forall (wf_src P) srcs -> obs <> [] ->
  getBH P F g_eqb flipx (map (move_src P g t) srcs) [obs_sensor (map (move_pt g t) obs) sh] None sumup
  = out_act g (getBH P F g_eqb flipx srcs [obs_sensor obs sh] None sumup).
Proof.
  intros Hne Hsrc Hobs.
  assert (E : getBH P F g_eqb flipx (map (move_src P g t) srcs) [obs_sensor (map (move_pt g t) obs) sh] None false
              = out_act g (getBH P F g_eqb flipx srcs [obs_sensor obs sh] None false)).
  { rewrite (getBH_is_spec P F g_eqb flipx g_eqb_sound srcs).
    2: exact Hne. 2: exact Hsrc.
    2:{ constructor; [apply wf_obs_sensor, Hobs|constructor]. }
    2: apply wf_shapes_single.
    rewrite (getBH_is_spec P F g_eqb flipx g_eqb_sound).
    - apply spec_covariant, Hsrc.
    - destruct srcs; [congruence|discriminate].
    - rewrite Forall_forall in *. intros y Hy. apply in_map_iff in Hy as [x [<- Hx]].
      apply wf_move_src, Hsrc, Hx.
    - constructor; [apply wf_obs_sensor; destruct obs; [congruence|discriminate]|constructor].
    - apply wf_shapes_single. }
  destruct sumup; [|exact E]. rewrite !getBH_sumup, E. apply sum_out_act.
Qed.

End Covariance.
